import I18n.Generated.ExcMap
/-
Python's `try … except` dispatch over the exception map GENERATED from /repo (tools/translate/excmap2lean.py):
classes are indices into `Generated.ExcMap.classNames`, `isSub c d` is `issubclass(c, d)` read off the dumped MROs,
`dispatch` selects the first `except` clause one of whose classes is in the MRO of the raised class — which is what
CPython's `PyErr_GivenExceptionMatches` does for class objects and tuples of class objects.

On top of it: the outcome of a statement (`Outcome`), `tryExcept`, and the two shapes the checkers use —
`check_string` of the four message-format checkers (parse → own error → `*-format-string-error` tag; recorded warnings
re-raised one by one into a second `try`) and the loader call of `Checker.check`.
-/
namespace I18n.ExcFlow
open I18n.Generated.ExcMap

abbrev Cls := Nat

/-- the id of the class with this canonical name (`classNames.length` if there is none: such an id has an empty MRO and
    is caught by nothing) -/
def clsId (name : String) : Cls := classNames.idxOf name

def mroOf (c : Cls) : List Cls := mro.getD c []

/-- `issubclass(c, d)` -/
def isSub (c d : Cls) : Bool := (mroOf c).contains d

/-- `except <classes>:` matches an exception of class `c` -/
def catches (h : Handler) (c : Cls) : Bool := h.classes.any (isSub c)

/-- the `except` clause that handles an exception of class `c`: the first one that matches -/
def dispatch (hs : List Handler) (c : Cls) : Option Handler := hs.find? (catches · c)

def emptySite : TrySite := ⟨"", "", 0, [], [], false, [], false⟩

/-- the k-th `try` of a function of a file, as extracted from the source (`emptySite`, which catches nothing, if absent) -/
def site (file func : String) (ord : Nat) : TrySite :=
  (tries.find? (fun t => t.file == file && t.func == func && t.ord == ord)).getD emptySite

/-- an exception class is handled at a site -/
def siteCatches (t : TrySite) (c : Cls) : Bool := (dispatch t.handlers c).isSome

/-! ## statements that may raise -/

inductive Outcome (α : Type) where
  | ok (a : α)
  | raised (c : Cls)
  deriving Repr

/-- `try: body  except …: handler_i` where every handler completes normally with `onCaught` (all handlers of the sites
    used below end in fallthrough / return / continue, see the pins in Props/C01) -/
def tryExcept {α : Type} (t : TrySite) (body : Outcome α) (onCaught : Handler → α) : Outcome α :=
  match body with
  | .ok a => .ok a
  | .raised c =>
    match dispatch t.handlers c with
    | some h => if h.fin = .mayReraise then .raised c else
                match h.fin with
                | .raises (d :: _) => .raised d
                | _ => .ok (onCaught h)
    | none => .raised c

/-! ## `check_string` of a message-format checker -/

/-- what `backend.FormatString(s)` gives: the format object with the warnings it recorded (their classes), or an exception -/
abbrev Parse (φ : Type) := Outcome (φ × List Cls)

structure StringCheck (φ : Type) where
  fmt : Option φ                 -- `None` after an error
  tags : List String             -- tag names emitted, in order
  uncaught : Option Cls          -- an exception left `check_string`

/-- `for warn in fmt.warnings: try: raise warn  except …` — a warning class no clause catches propagates -/
def warnLoop (t : TrySite) : List Cls → List String × Option Cls
  | [] => ([], none)
  | w :: ws =>
    match dispatch t.handlers w with
    | none => ([], some w)
    | some h =>
      let r := warnLoop t ws
      (h.tags ++ r.1, r.2)

/-- `Checker.check_string(ctx, message, s)` of lib/check/msgformat/<x>.py: `errSite` is the `try` around
    `backend.FormatString(s)`, `warnSite` the `try` inside the loop over `fmt.warnings` (c and python only) -/
def checkString {φ : Type} (errSite : TrySite) (warnSite : Option TrySite) (p : Parse φ) : StringCheck φ :=
  match p with
  | .raised c =>
    match dispatch errSite.handlers c with
    | some h => ⟨none, h.tags.take 1, none⟩          -- every clause emits one tag and falls through to `return fmt` (= None)
    | none => ⟨none, [], some c⟩
  | .ok (f, warns) =>
    match warnSite with
    | none => ⟨some f, [], none⟩
    | some t =>
      let r := warnLoop t warns
      ⟨some f, r.1, r.2⟩

/-! ## the loader call of `Checker.check` -/

/-- what `Checker.check` can observe of an exception raised by `polib.pofile` / `polib.mofile` -/
structure Raised where
  cls : Cls
  /-- `exc.errno is not None` (only meaningful for OSError) -/
  errno : Bool
  /-- `str(exc).startswith('Syntax error in po file ')` -/
  poSyntaxText : Bool

def checkOuter : TrySite := site "lib/check/__init__.py" "Checker.check" 1
def checkInner : TrySite := site "lib/check/__init__.py" "Checker.check" 2
def checkStat : TrySite := site "lib/check/__init__.py" "Checker.check" 0

end I18n.ExcFlow
