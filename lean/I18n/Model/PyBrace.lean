import I18n.Model.PerlBrace
/-
Model of `lib/strformat/pybrace.py` (Python `str.format` strings), statement by statement.

Scanner.  `FormatString.__init__` walks `_field_re.finditer(s)` with the same two tests as perlbrace (see there for why this is
"the first match at the current position, or `Error`"; every match of `_field_re` is non-empty).  `scanLiteral`, `scanField`
are the deterministic readings of the first match of

    (?P<literal> (?: [^{}] | [{]{2} | [}]{2} )+ )
  | [{] (?: (?P<name> NAME)? (?P<conversion> ! \w+)? (?P<format> : (?: [^{}] | SIMPLE )* )? ) [}]
    NAME   = (?: \d+ | [^\W\d]\w* ) (?: [.] [^\W\d]\w* | \[ [^]]+ \] )*
    SIMPLE = [{] (?: NAME with [^]{}]+ inside the brackets )? [}]

Why the greedy reading is the only successful one: every repeated or optional part is followed by something that cannot
start with a character the part could still consume — `\d+`, `\w*`, `\w+` are followed by one of `. [ ! : }` (not `\w`);
`[^]]+` by `]`; the NAME tail `( .ident | [..] )*` by `! : }`; the optional NAME by `! : }` which start no NAME; `[^{}]` and
SIMPLE (starts with `{`) are disjoint and the format loop is followed by `}`.  The literal alternative is tried first and
nothing follows it, so its greedy path is the match.  (The correspondence streams check this reading on every run; the
parse tree the reading was made from is pinned by `Props.C13.regex_pin`.)

`scanSpec` reads `_format_spec_re` (fill/align as CPython does: two-character form first; then sign, `#`, `0`, width `[0-9]+`,
`,`, `.` precision `\d+`, one type character `[\w%]`, end).

`Field.__init__`, `add_argument`, the type intersection at the end of `FormatString.__init__` follow the source in order,
including the order in which errors can occur.  Partial operations: `int()` (`ValueError` above the digit limit, when one is
set), `_printable_prefix` (`AttributeError` on no match), the two `assert`s; they are crash outcomes, proved unreachable in
`Props.C13.brace_error_own`.  Not modelled: `add_argument`'s `RuntimeError('arguments already initialized')` (the attribute is
only set to `None` by the last statement of `__init__`), `__iter__`/`__len__`.
Core Lean only.
-/
namespace I18n.PyBrace
open I18n.BraceChars
open I18n.Generated.PyBraceTables (SSIZE_MAX intMaxStrDigits digitRanges)

/-! ### types, keys, results -/

/-- a subset of `{'str', 'int', 'float'}` -/
structure TySet where
  str : Bool
  int : Bool
  float : Bool
  deriving DecidableEq, Repr, Inhabited

namespace TySet
def all : TySet := ⟨true, true, true⟩
def inter (a b : TySet) : TySet := ⟨a.str && b.str, a.int && b.int, a.float && b.float⟩
def isEmpty (a : TySet) : Bool := !a.str && !a.int && !a.float
def names (a : TySet) : List String :=
  (if a.float then ["float"] else []) ++ (if a.int then ["int"] else []) ++ (if a.str then ["str"] else [])
def mask (a : TySet) : Nat := (if a.str then 1 else 0) + (if a.int then 2 else 0) + (if a.float then 4 else 0)
end TySet

/-- a key of `argument_map`: an `int` index or a `str` name -/
inductive Key where
  | idx (n : Nat)
  | name (s : List Char)
  deriving DecidableEq, Repr, Inhabited

/-- an element of an `argument_map` value: a `Field` or a `NestedField`, with its `.types` -/
structure Arg where
  nested : Bool
  types : TySet
  deriving DecidableEq, Repr, Inhabited

inductive ErrClass where
  | Error | ConversionError | FormatError | FormatTypeMismatch
  | ArgumentNumberingMixture | ArgumentRangeError | ArgumentTypeMismatch
  deriving DecidableEq, Repr, Inhabited

def ErrClass.name : ErrClass → String
  | .Error => "Error" | .ConversionError => "ConversionError" | .FormatError => "FormatError"
  | .FormatTypeMismatch => "FormatTypeMismatch" | .ArgumentNumberingMixture => "ArgumentNumberingMixture"
  | .ArgumentRangeError => "ArgumentRangeError" | .ArgumentTypeMismatch => "ArgumentTypeMismatch"

/-- `exc.args[0]`: a string, or the `NestedField` object passed by `raise ArgumentNumberingMixture(subfield)` -/
inductive ErrArg where
  | text (s : List Char)
  | nestedFieldObject
  deriving DecidableEq, Repr, Inhabited

inductive PErr where
  | own (cls : ErrClass) (arg : ErrArg)
  | crash (e : Py.Exc)
  deriving DecidableEq, Repr, Inhabited

def PErr.name : PErr → String
  | .own c _ => c.name
  | .crash e => "crash:" ++ e.name

/-- an element of `_items` -/
inductive Item where
  | lit (text : List Char)
  | field (types : TySet)
  deriving DecidableEq, Repr, Inhabited

/-- `FormatString(s)`: `_items` and `argument_map` (a `dict`: keys in insertion order; every element carries the common
    type set of its key) -/
structure Result where
  items : List Item
  argMap : List (Key × List Arg)
  deriving DecidableEq, Repr, Inhabited

/-! ### the scanner (`_field_re`) -/

/-- `[^\W\d]\w*` at the start -/
def scanIdent : List Char → Option (List Char × List Char)
  | [] => none
  | c :: cs => if isIdStart c then some (c :: cs.takeWhile isWord, cs.dropWhile isWord) else none

/-- `(?: \d+ | [^\W\d]\w* )` at the start -/
def scanNameHead : List Char → Option (List Char × List Char)
  | [] => none
  | c :: cs =>
    if isDigit c then some (c :: cs.takeWhile isDigit, cs.dropWhile isDigit)
    else scanIdent (c :: cs)

/-- `X+ \]` at the start (after the opening bracket): the text between the brackets and the rest -/
def scanIndex (inBr : Char → Bool) (r : List Char) : Option (List Char × List Char) :=
  match r.takeWhile inBr, r.dropWhile inBr with
  | x :: xs, ']' :: r' => some (x :: xs, r')
  | _, _ => none

/-- `(?: [.] [^\W\d]\w* | \[ X+ \] )*` at the start, `inBr` = the class `X` (`[^]]` at top level, `[^]{}]` in a nested
    field).  Returns the text consumed and the rest.  `fuel` ≥ number of characters. -/
def scanNameTail (inBr : Char → Bool) : Nat → List Char → List Char × List Char
  | 0, cs => ([], cs)
  | fuel + 1, cs =>
    match cs with
    | '.' :: r =>
      match scanIdent r with
      | some (id, r') =>
        let (t, r'') := scanNameTail inBr fuel r'
        ('.' :: id ++ t, r'')
      | none => ([], cs)
    | '[' :: r =>
      match scanIndex inBr r with
      | some (x, r') =>
        let (t, r'') := scanNameTail inBr fuel r'
        ('[' :: x ++ ']' :: t, r'')
      | none => ([], cs)
    | _ => ([], cs)

/-- NAME at the start: `none` if no head -/
def scanName (inBr : Char → Bool) (cs : List Char) : Option (List Char × List Char) :=
  match scanNameHead cs with
  | none => none
  | some (h, r) =>
    let (t, r') := scanNameTail inBr r.length r
    some (h ++ t, r')

def topBr (c : Char) : Bool := c ≠ ']'
def nestedBr (c : Char) : Bool := c ≠ ']' && c ≠ '{' && c ≠ '}'

/-- SIMPLE at the start (`cs` begins after nothing: the `{` is matched here): the text between the braces and the rest -/
def scanSimple : List Char → Option (List Char × List Char)
  | '{' :: r =>
    match scanName nestedBr r with
    | some (nm, '}' :: r') => some (nm, r')
    | some _ => none
    | none =>
      match r with
      | '}' :: r' => some ([], r')
      | _ => none
  | _ => none

/-- `(?: [^{}] | SIMPLE )*` at the start: the text consumed, the names of the nested fields in order, the rest -/
def scanFormatBody : Nat → List Char → List Char × List (List Char) × List Char
  | 0, cs => ([], [], cs)
  | fuel + 1, cs =>
    match cs with
    | [] => ([], [], [])
    | '{' :: _ =>
      match scanSimple cs with
      | some (nm, r) =>
        let (t, ns, r') := scanFormatBody fuel r
        ('{' :: nm ++ '}' :: t, nm :: ns, r')
      | none => ([], [], cs)
    | '}' :: _ => ([], [], cs)
    | c :: r =>
      let (t, ns, r') := scanFormatBody fuel r
      (c :: t, ns, r')

/-- a scanned replacement field -/
structure RawField where
  /-- `match.string[slice(*match.span())]` -/
  text : List Char
  /-- group `name` -/
  name : Option (List Char)
  /-- group `conversion` (with the `!`) -/
  conversion : Option (List Char)
  /-- group `format` (with the `:`) -/
  format : Option (List Char)
  /-- the names between the braces of the nested fields of `format`, in order (`_simple_field_re.findall(fmt)`) -/
  nested : List (List Char)
  deriving DecidableEq, Repr, Inhabited

/-- `(?P<name> NAME)?` at the start -/
def scanNameOpt (inBr : Char → Bool) (cs : List Char) : Option (List Char) × List Char :=
  match scanName inBr cs with
  | some (nm, r) => (some nm, r)
  | none => (none, cs)

/-- `(?P<conversion> ! \w+)?` at the start -/
def scanConv (cs : List Char) : Option (List Char) × List Char :=
  match cs with
  | '!' :: r =>
    match r.takeWhile isWord with
    | [] => (none, cs)
    | w => (some ('!' :: w), r.dropWhile isWord)
  | _ => (none, cs)

/-- `(?P<format> : (?: [^{}] | SIMPLE )* )?` at the start -/
def scanFmt (cs : List Char) : Option (List Char) × List (List Char) × List Char :=
  match cs with
  | ':' :: r =>
    match scanFormatBody r.length r with
    | (t, ns, r') => (some (':' :: t), ns, r')
  | _ => (none, [], cs)

/-- the second alternative of `_field_re` at the start -/
def scanField : List Char → Option (RawField × List Char)
  | '{' :: r0 =>
    match scanNameOpt topBr r0 with
    | (name, r1) =>
      match scanConv r1 with
      | (conv, r2) =>
        match scanFmt r2 with
        | (fmt, nested, r3) =>
          match r3 with
          | '}' :: rest =>
            some ({ text := '{' :: (name.getD [] ++ conv.getD [] ++ fmt.getD [] ++ ['}']), name := name, conversion := conv,
                    format := fmt, nested := nested }, rest)
          | _ => none
  | _ => none

/-- `(?: [^{}] | [{]{2} | [}]{2} )+` at the start: text and rest (`([], cs)` = no match) -/
def scanLiteral : Nat → List Char → List Char × List Char
  | 0, cs => ([], cs)
  | fuel + 1, cs =>
    match cs with
    | [] => ([], [])
    | '{' :: '{' :: r => let (t, r') := scanLiteral fuel r; ('{' :: '{' :: t, r')
    | '}' :: '}' :: r => let (t, r') := scanLiteral fuel r; ('}' :: '}' :: t, r')
    | '{' :: _ => ([], cs)
    | '}' :: _ => ([], cs)
    | c :: r => let (t, r') := scanLiteral fuel r; (c :: t, r')

/-! ### the format specification (`_format_spec_re`) -/

structure Spec where
  fill : Option Char
  align : Option Char
  sign : Option Char
  alt : Bool
  zero : Bool
  width : Option (List Char)
  comma : Bool
  precision : Option (List Char)
  type : Option Char
  deriving DecidableEq, Repr, Inhabited

def isAlign (c : Char) : Bool := c == '<' || c == '>' || c == '=' || c == '^'
def isSign (c : Char) : Bool := c == ' ' || c == '+' || c == '-'
def isAsciiDigit (c : Char) : Bool := '0' ≤ c && c ≤ '9'

/-- `(?: (?P<fill> [^}] )? (?P<align> [<>=^] ) )?` -/
def sFillAlign : List Char → Option Char × Option Char × List Char
  | f :: a :: r =>
    if f ≠ '}' && isAlign a then (some f, some a, r)
    else if isAlign f then (none, some f, a :: r)
    else (none, none, f :: a :: r)
  | [f] => if isAlign f then (none, some f, []) else (none, none, [f])
  | [] => (none, none, [])

/-- `(?P<sign> [ +-] )?` -/
def sSign : List Char → Option Char × List Char
  | c :: r => if isSign c then (some c, r) else (none, c :: r)
  | [] => (none, [])

/-- `(?P<alt> [#] )?`, `(?P<zero> [0] )?`, `(?P<comma> [,] )?` -/
def sLit (x : Char) : List Char → Bool × List Char
  | c :: r => if c = x then (true, r) else (false, c :: r)
  | [] => (false, [])

/-- `(?P<width> [0-9]+ )?` -/
def sWidth (cs : List Char) : Option (List Char) × List Char :=
  match cs.takeWhile isAsciiDigit with
  | [] => (none, cs)
  | w => (some w, cs.dropWhile isAsciiDigit)

/-- `(?: [.] (?P<precision> \d+) )?` -/
def sPrec (cs : List Char) : Option (List Char) × List Char :=
  match cs with
  | '.' :: r =>
    match r.takeWhile isDigit with
    | [] => (none, cs)
    | p => (some p, r.dropWhile isDigit)
  | _ => (none, cs)

/-- `(?P<type> [\w%])?` -/
def sType : List Char → Option Char × List Char
  | c :: r => if isWord c || c == '%' then (some c, r) else (none, c :: r)
  | [] => (none, [])

/-- `_format_spec_re.match(spec)` -/
def scanSpec (cs : List Char) : Option Spec :=
  match sFillAlign cs with
  | (fill, align, r1) =>
    match sSign r1 with
    | (sign, r2) =>
      match sLit '#' r2 with
      | (alt, r3) =>
        match sLit '0' r3 with
        | (zero, r4) =>
          match sWidth r4 with
          | (width, r5) =>
            match sLit ',' r5 with
            | (comma, r6) =>
              match sPrec r6 with
              | (prec, r7) =>
                match sType r7 with
                | (type, r8) =>
                  match r8 with
                  | [] => some { fill := fill, align := align, sign := sign, alt := alt, zero := zero, width := width,
                                 comma := comma, precision := prec, type := type }
                  | _ => none

/-! ### `int()` on a run of decimal digits -/

/-- the value of a `\d` character: its offset in its range of the table, modulo ten -/
def digitVal (c : Char) : Nat :=
  let rec go : List (Nat × Nat) → Nat
    | [] => 0
    | (a, b) :: rs => if a ≤ c.toNat && c.toNat ≤ b then (c.toNat - a) % 10 else go rs
  go digitRanges

def digitsVal (ds : List Char) : Nat := ds.foldl (fun acc c => acc * 10 + digitVal c) 0

/-- the two constants the code reads from its environment: the module global `SSIZE_MAX` and the interpreter's
    `sys.get_int_max_str_digits()` (0 = no limit).  `liveCfg` is what the translator found; the driver can run the model under
    other values (the harness patches the module global / the interpreter setting to test the overflow branches). -/
structure Cfg where
  ssizeMax : Nat
  digitLimit : Nat
  deriving DecidableEq, Repr, Inhabited

def liveCfg : Cfg := { ssizeMax := SSIZE_MAX, digitLimit := intMaxStrDigits }

/-- `int(ds)` for a non-empty run of `\d` characters: `ValueError` above the interpreter's digit limit, if one is set -/
def pyInt (cfg : Cfg) (ds : List Char) : Except Py.Exc Nat :=
  if cfg.digitLimit ≠ 0 ∧ ds.length > cfg.digitLimit then .error .ValueError else .ok (digitsVal ds)

/-- `name.isdecimal()` -/
def isDecimalStr (s : List Char) : Bool := !s.isEmpty && s.all isDigit

/-! ### `add_argument` -/

structure State where
  /-- `_next_arg_index` (`none` = `None`: explicit numbering in use) -/
  next : Option Nat
  /-- `_argument_map` (a `defaultdict(list)`), keys in insertion order -/
  map : List (Key × List Arg)
  deriving DecidableEq, Repr, Inhabited

def mapAdd (m : List (Key × List Arg)) (k : Key) (a : Arg) : List (Key × List Arg) :=
  match m with
  | [] => [(k, [a])]
  | (k', as) :: rest => if k' = k then (k', as ++ [a]) :: rest else (k', as) :: mapAdd rest k a

inductive AddErr where
  | indexError | overflowError | crash (e : Py.Exc)
  deriving DecidableEq, Repr, Inhabited

/-- `FormatString.add_argument(name, field)` -/
def addArgument (cfg : Cfg) (st : State) (name : Option (List Char)) (a : Arg) : Except AddErr State :=
  match name with
  | none =>
    match st.next with
    | none => .error .indexError
    | some n =>
      if n > cfg.ssizeMax then .error .overflowError
      else .ok { next := some (n + 1), map := mapAdd st.map (.idx n) a }
  | some nm =>
    if isDecimalStr nm then
      match pyInt cfg nm with
      | .error e => .error (.crash e)
      | .ok n =>
        if n > cfg.ssizeMax then .error .overflowError
        else
          match st.next with
          | none => .ok { st with map := mapAdd st.map (.idx n) a }
          | some 0 => .ok { next := none, map := mapAdd st.map (.idx n) a }
          | some _ => .error .indexError
    else .ok { st with map := mapAdd st.map (.name nm) a }

/-! ### `Field.__init__` -/

/-- `ftype = fmatch.group('type')` and the `if ftype is None … elif … else: raise Error(s)` chain -/
def tpType (f : Spec) : Except ErrClass TySet :=
  match f.type with
  | none => .ok TySet.all
  | some t =>
    if t == 's' then .ok ⟨true, false, false⟩
    else if "bcdoxX".toList.contains t then .ok ⟨false, true, false⟩
    else if "eEfFgG%".toList.contains t then .ok ⟨false, false, true⟩
    else if t == 'n' then (if f.comma then .error .FormatError else .ok ⟨false, true, true⟩)
    else .error .Error

/-- `{'int', 'float'}` -/
def TySet.numeric : TySet := ⟨false, true, true⟩

/-- `if alt or sign or comma: tp &= {'int', 'float'}; if not tp: raise FormatError(s)` -/
def tpFlags (f : Spec) (tp : TySet) : Except ErrClass TySet :=
  let tp1 := if f.alt || f.sign.isSome || f.comma then tp.inter TySet.numeric else tp
  if tp1.isEmpty then .error .FormatError else .ok tp1

/-- `align`, `zero`: `if (align is None) and (zero is not None): align = '='`; `if align == '=': tp &= {'int', 'float'} …` -/
def tpAlign (f : Spec) (tp : TySet) : Except ErrClass TySet :=
  let align := if f.align.isNone && f.zero then some '=' else f.align
  let tp2 := if align == some '=' then tp.inter TySet.numeric else tp
  if tp2.isEmpty then .error .FormatError else .ok tp2

/-- `width = int(width); if width > SSIZE_MAX: raise FormatError(s)` -/
def checkWidth (cfg : Cfg) (f : Spec) : Except (ErrClass ⊕ Py.Exc) Unit :=
  match f.width with
  | none => .ok ()
  | some ds =>
    match pyInt cfg ds with
    | .error e => .error (.inr e)
    | .ok n => if n > cfg.ssizeMax then .error (.inl .FormatError) else .ok ()

/-- `if precision is not None: tp &= {'float', 'str'}; …; precision = int(precision); if precision > SSIZE_MAX: …` -/
def tpPrec (cfg : Cfg) (f : Spec) (tp : TySet) : Except (ErrClass ⊕ Py.Exc) TySet :=
  match f.precision with
  | none => .ok tp
  | some ds =>
    let tp3 := tp.inter ⟨true, false, true⟩
    if tp3.isEmpty then .error (.inl .FormatError) else
    match pyInt cfg ds with
    | .error e => .error (.inr e)
    | .ok n => if n > cfg.ssizeMax then .error (.inl .FormatError) else .ok tp3

/-- the two combinations the typing rules let through although `int.__format__` refuses them for every value (the open
    finding of C13): a thousands comma with `b`, `c`, `o`, `x`, `X`; a sign or `#` with `c` -/
def Spec.quirk (f : Spec) : Bool :=
  (f.comma && (f.type == some 'b' || f.type == some 'c' || f.type == some 'o' || f.type == some 'x' || f.type == some 'X'))
    || (f.type == some 'c' && (f.alt || f.sign.isSome))

/-- the typing rules of `Field.__init__` on a matched specification, in source order -/
def specCheck (cfg : Cfg) (f : Spec) : Except (ErrClass ⊕ Py.Exc) TySet :=
  match tpType f with
  | .error c => .error (.inl c)
  | .ok tp =>
    match tpFlags f tp with
    | .error c => .error (.inl c)
    | .ok tp1 =>
      match tpAlign f tp1 with
      | .error c => .error (.inl c)
      | .ok tp2 =>
        match checkWidth cfg f with
        | .error e => .error e
        | .ok () => tpPrec cfg f tp2

/-- the `else:` branch of `Field.__init__` (a format specification without nested fields): the type set, or the error class.
    `fmt` is the group `format`, with its leading `:`. -/
def specTypes (cfg : Cfg) (fmt : List Char) : Except (ErrClass ⊕ Py.Exc) TySet :=
  match fmt with
  | ':' :: spec =>
    match scanSpec spec with
    | none => .error (.inl .FormatError)
    | some f => specCheck cfg f
  | _ => .error (.inr .AssertionError)     -- `assert fmt[0] == ':'`

/-- is the format specification one with nested fields (`'{' in fmt`)? -/
def hasNested (fmt : List Char) : Bool := fmt.contains '{'

/-- the type set `Field.types` would get if nothing raised (used for the element put into `_argument_map` before the
    rest of `Field.__init__` runs; if anything raises, the map is discarded with the exception) -/
def ownTypes (cfg : Cfg) (f : RawField) : TySet :=
  match f.format with
  | none => TySet.all
  | some fmt =>
    if hasNested fmt then TySet.all
    else match specTypes cfg fmt with
      | .ok tp => tp
      | .error _ => TySet.all

def liftAdd (text : List Char) (nestedArg : Bool) : Except AddErr State → Except PErr State
  | .ok st => .ok st
  | .error .indexError => .error (.own .ArgumentNumberingMixture (.text text))   -- nested fields too, since fix 3a (was: the `NestedField` object)
  | .error .overflowError => .error (.own .ArgumentRangeError (.text text))
  | .error (.crash e) => .error (.crash e)

/-- the loop `for subfield in _simple_field_re.findall(fmt)` -/
def nestedAdds (cfg : Cfg) (text : List Char) : List (List Char) → State → Except PErr State
  | [], st => .ok st
  | nm :: rest, st =>
    -- `assert subfield[0] == '{'`, `assert subfield[-1] == '}'` hold by the pattern
    match liftAdd text true (addArgument cfg st (if nm.isEmpty then none else some nm) { nested := true, types := TySet.all }) with
    | .error e => .error e
    | .ok st' => nestedAdds cfg text rest st'

/-- `Field(parent, match)`: the new state and `self.types` -/
def fieldInit (cfg : Cfg) (st : State) (f : RawField) : Except PErr (State × TySet) :=
  match liftAdd f.text false (addArgument cfg st f.name { nested := false, types := ownTypes cfg f }) with
  | .error e => .error e
  | .ok st1 =>
    let step2 : Except PErr (State × TySet) :=
      match f.format with
      | none => .ok (st1, TySet.all)
      | some fmt =>
        if hasNested fmt then
          match nestedAdds cfg f.text f.nested st1 with
          | .error e => .error e
          | .ok st2 => .ok (st2, TySet.all)
        else
          match specTypes cfg fmt with
          | .error (.inl c) => .error (.own c (.text f.text))
          | .error (.inr e) => .error (.crash e)
          | .ok tp => .ok (st1, tp)
    match step2 with
    | .error e => .error e
    | .ok (st2, tp) =>
      match f.conversion with
      | none => .ok (st2, tp)
      | some c =>
        if c == "!s".toList || c == "!r".toList || c == "!a".toList then
          if tp.str then .ok (st2, tp) else .error (.own .FormatTypeMismatch (.text f.text))
        else .error (.own .ConversionError (.text f.text))

/-! ### `FormatString.__init__` -/

/-- an item before the final type intersection -/
inductive PreItem where
  | lit (text : List Char)
  | field (key : Key)
  deriving DecidableEq, Repr, Inhabited

/-- the key under which `add_argument(name, …)` files the argument in state `st` (when it succeeds) -/
def keyOf (st : State) (name : Option (List Char)) : Key :=
  match name with
  | none => .idx (st.next.getD 0)
  | some nm => if isDecimalStr nm then .idx (digitsVal nm) else .name nm

def scanError (cs : List Char) : PErr :=
  match printablePrefix cs with
  | none => .crash .AttributeError
  | some p => .own .Error (.text p)

/-- the `for match in _field_re.finditer(s)` loop; `fuel` ≥ number of characters left -/
def loop (cfg : Cfg) : Nat → List Char → State → List PreItem → Except PErr (State × List PreItem)
  | _, [], st, items => .ok (st, items.reverse)
  | 0, _ :: _, _, _ => .error (.crash .NonTermination)
  | fuel + 1, c :: cs, st, items =>
    match scanLiteral (c :: cs).length (c :: cs) with
    | (t :: ts, rest) => loop cfg fuel rest st (.lit (t :: ts) :: items)
    | ([], _) =>
      match scanField (c :: cs) with
      | none => .error (scanError (c :: cs))
      | some (f, rest) =>
        match fieldInit cfg st f with
        | .error e => .error e
        | .ok (st', _) => loop cfg fuel rest st' (.field (keyOf st f.name) :: items)

def commonTypes (as : List Arg) : TySet := as.foldl (fun acc a => acc.inter a.types) TySet.all

/-- the loop over `_argument_map.items()`: the first key whose arguments have no common type raises -/
def unify (s : List Char) : List (Key × List Arg) → Except PErr (List (Key × List Arg))
  | [] => .ok []
  | (k, as) :: rest =>
    let c := commonTypes as
    if c.isEmpty then .error (.own .ArgumentTypeMismatch (.text s))
    else match unify s rest with
      | .error e => .error e
      | .ok m => .ok ((k, as.map fun a => { a with types := c }) :: m)

def lookupTypes (m : List (Key × List Arg)) (k : Key) : TySet :=
  match m.find? (·.1 == k) with
  | some (_, a :: _) => a.types
  | _ => TySet.all

/-- `FormatString(s)` under the given constants -/
def parseWith (cfg : Cfg) (s : List Char) : Except PErr Result :=
  match loop cfg s.length s { next := some 0, map := [] } [] with
  | .error e => .error e
  | .ok (st, items) =>
    match unify s st.map with
    | .error e => .error e
    | .ok m =>
      .ok { items := items.map fun
              | .lit t => .lit t
              | .field k => .field (lookupTypes m k),
            argMap := m }

/-- `FormatString(s)` -/
def parse (s : List Char) : Except PErr Result := parseWith liveCfg s

end I18n.PyBrace
