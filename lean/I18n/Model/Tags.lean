/-
Hand-written model of lib/tags.py (`_is_safe`, `_escape`, `safe_format`, `Tag.get_priority`, `Tag.format`),
lib/check/msgrepr.py (`message_repr`) and lib/cli.py `Checker.tag`, with the pieces of CPython they rest on:
`repr(str)`, `repr(bytes)`, `str(int)` and the subset of `str.format` the tool's templates use.

Strings are lists of code points (`Nat`, so that lone surrogates — which a Python `str` may hold — are covered);
bytes are `List UInt8`.  `str.isprintable` is a PARAMETER (`UnicodeDB.printable`); the driver instantiates it with
the table dumped from the running interpreter (`Generated/UnicodeClasses.lean`).
Tied to the real code by the `tags-*` correspondence streams.  Core Lean only.
-/
namespace I18n.Tags

abbrev Str := List Nat

/-- an ASCII literal of the source text -/
def lit (s : String) : Str := s.toList.map Char.toNat

/-- the Unicode facts the model takes from the interpreter -/
structure UnicodeDB where
  /-- `str.isprintable` on one code point (consulted by `repr` for code points ≥ 0x80 only) -/
  printable : Nat → Bool
  /-- general category Cf; used by the specification only -/
  format : Nat → Bool

/-! ## CPython: `repr(str)`, `repr(bytes)`, `str(int)` -/

/-- lower-case hexadecimal digit -/
def hexDigit (n : Nat) : Nat := if n < 10 then 48 + n else 87 + n

/-- exactly `w` hexadecimal digits of `n`, most significant first (`%0wx`) -/
def hexFixed : Nat → Nat → Str
  | 0, _ => []
  | w + 1, n => hexFixed w (n / 16) ++ [hexDigit (n % 16)]

/-- `unicode_repr`, one character, for quote character `q` -/
def reprChar (db : UnicodeDB) (q c : Nat) : Str :=
  if c = q ∨ c = 92 then [92, c]                        -- \' \" \\
  else if c = 9 then [92, 116]                          -- \t
  else if c = 10 then [92, 110]                         -- \n
  else if c = 13 then [92, 114]                         -- \r
  else if c < 32 ∨ c = 127 then 92 :: 120 :: hexFixed 2 c   -- \xNN
  else if c < 127 then [c]
  else if db.printable c then [c]
  else if c ≤ 0xFF then 92 :: 120 :: hexFixed 2 c
  else if c ≤ 0xFFFF then 92 :: 117 :: hexFixed 4 c     -- \uNNNN
  else 92 :: 85 :: hexFixed 8 c                         -- \UNNNNNNNN

/-- `'` unless the text has a `'` and no `"` -/
def quoteFor (s : Str) : Nat := if s.contains 39 && !s.contains 34 then 34 else 39

/-- `repr(s)` for a `str` -/
def reprStr (db : UnicodeDB) (s : Str) : Str :=
  let q := quoteFor s
  q :: (s.flatMap (reprChar db q) ++ [q])

/-- `bytes_repr`, one byte -/
def reprByte (q c : Nat) : Str :=
  if c = q ∨ c = 92 then [92, c]
  else if c = 9 then [92, 116]
  else if c = 10 then [92, 110]
  else if c = 13 then [92, 114]
  else if c < 32 ∨ c ≥ 127 then 92 :: 120 :: hexFixed 2 c
  else [c]

/-- `repr(b)` for `bytes`: `b'…'` -/
def reprBytes (b : List UInt8) : Str :=
  let s := b.map UInt8.toNat
  let q := quoteFor s
  98 :: q :: (s.flatMap (reprByte q) ++ [q])

def natDigitsAux : Nat → Nat → Str → Str
  | 0, _, acc => acc
  | fuel + 1, n, acc =>
    let acc' := (48 + n % 10) :: acc
    if n < 10 then acc' else natDigitsAux fuel (n / 10) acc'

/-- decimal digits of a natural number -/
def natDigits (n : Nat) : Str := natDigitsAux (n + 1) n []

/-- `str(n)` for an `int` -/
def strInt : Int → Str
  | .ofNat n => natDigits n
  | .negSucc n => 45 :: natDigits (n + 1)

/-! ## lib/tags.py -/

/-- one character of the class in `_is_safe = re.compile(r'\A[A-Za-z0-9_.!<>=-]+\Z').match` -/
def isSafeChar (c : Nat) : Bool :=
  (65 ≤ c && c ≤ 90) || (97 ≤ c && c ≤ 122) || (48 ≤ c && c ≤ 57) ||
  c = 95 || c = 46 || c = 33 || c = 60 || c = 62 || c = 61 || c = 45

/-- `_is_safe(s)`: one or more characters of the class, and nothing else (`\Z` is the very end) -/
def isSafe (s : Str) : Bool := !s.isEmpty && s.all isSafeChar

/-- what `Checker.tag` receives after the tag name -/
inductive Extra where
  | safe (s : Str)          -- an instance of `tags.safestr`
  | bytes (b : List UInt8)
  | str (s : Str)           -- a plain `str` (or any object, through its `str()`)
  | int (n : Int)
  deriving Repr, DecidableEq

/-- the `str` branch of `_escape` -/
def escapeStr (db : UnicodeDB) (s : Str) : Str :=
  if s = [] then lit "(empty string)"
  else if isSafe s then s
  else reprStr db s

/-- `_escape(s)` -/
def escape (db : UnicodeDB) : Extra → Str
  | .safe s => s                                   -- isinstance(s, safestr): return s
  | .bytes b => (reprBytes b).drop 1               -- repr(s)[1:]
  | .str s => escapeStr db s                       -- s = str(s) …
  | .int n => escapeStr db (strInt n)

inductive Severity where
  | pedantic | wishlist | minor | normal | important | serious
  deriving DecidableEq, Repr, Inhabited

inductive Certainty where
  | wildGuess | possible | certain
  deriving DecidableEq, Repr, Inhabited

def Severity.rank : Severity → Nat
  | .pedantic => 0 | .wishlist => 1 | .minor => 2 | .normal => 3 | .important => 4 | .serious => 5

def Certainty.rank : Certainty → Nat
  | .wildGuess => 0 | .possible => 1 | .certain => 2

def Severity.ofRank : Nat → Option Severity
  | 0 => some .pedantic | 1 => some .wishlist | 2 => some .minor | 3 => some .normal
  | 4 => some .important | 5 => some .serious | _ => none

def Certainty.ofRank : Nat → Option Certainty
  | 0 => some .wildGuess | 1 => some .possible | 2 => some .certain | _ => none

inductive Letter where
  | P | I | W | E
  deriving DecidableEq, Repr, Inhabited

def Letter.toChar : Letter → Char
  | .P => 'P' | .I => 'I' | .W => 'W' | .E => 'E'

def Letter.code (l : Letter) : Nat := l.toChar.toNat

def Letter.rank : Letter → Nat
  | .P => 0 | .I => 1 | .W => 2 | .E => 3

/-- `'IW'[b]`, `'WE'[b]` -/
def pick (a b : Letter) (cond : Bool) : Letter := if cond then b else a

/-- `Tag.get_priority`: the dictionary display is evaluated whole, then indexed by the severity -/
def priority (s : Severity) (c : Certainty) : Letter :=
  let minor := pick .I .W (decide (c.rank ≥ Certainty.certain.rank))
  let normal := pick .I .W (decide (c.rank ≥ Certainty.possible.rank))
  let important := pick .W .E (decide (c.rank ≥ Certainty.possible.rank))
  match s with
  | .pedantic => .P
  | .wishlist => .I
  | .minor => minor
  | .normal => normal
  | .important => important
  | .serious => .E

structure Tag where
  name : Str
  severity : Severity
  certainty : Certainty
  deriving Repr

def Tag.priority (t : Tag) : Letter := Tags.priority t.severity t.certainty

/-- `str.join(sep, xs)` -/
def joinStr (sep : Str) : List Str → Str
  | [] => []
  | [x] => x
  | x :: y :: rest => x ++ sep ++ joinStr sep (y :: rest)

/-- `Tag.format(target, *extra, color=…)`; `colour` is what `get_colors()` answered, when `color` is true -/
def format (db : UnicodeDB) (t : Tag) (target : Str) (extra : List Extra) (colour : Option (Str × Str)) : Str :=
  let (on, off) := match colour with
    | some (on, off) => (on, off)
    | none => ([], [])
  let s := [t.priority.code] ++ lit ": " ++ target ++ lit ": " ++ on ++ t.name ++ off
  if extra.isEmpty then s
  else s ++ lit " " ++ joinStr (lit " ") (extra.map (escape db))

/-! ## the subset of `str.format` used by the tool's templates

Replacement fields `{}`, `{<digits>}`, `{<name>}`, the escapes `{{` `}}`; a field containing `[`, `.`, `!` or `:`
is outside the model (`unsupported`), every other outcome follows `MarkupIterator_next` / `get_field_object`. -/

inductive FmtErr where
  | valueError | indexError | keyError | unsupported
  deriving DecidableEq, Repr

inductive AutoNum where
  | init | auto | manual
  deriving DecidableEq, Repr

/-- scan a field name up to the closing `}`: `(name, rest)` -/
def scanField : Str → Str → Except FmtErr (Str × Str)
  | [], _ => .error .valueError                       -- expected '}' before end of string
  | c :: rest, acc =>
    if c = 125 then .ok (acc.reverse, rest)
    else if c = 123 then .error .valueError           -- unexpected '{' in field name
    else if c = 91 ∨ c = 93 ∨ c = 46 ∨ c = 33 ∨ c = 58 then .error .unsupported
    else scanField rest (c :: acc)

def isDigits (s : Str) : Bool := !s.isEmpty && s.all (fun c => 48 ≤ c && c ≤ 57)

def digitsVal (s : Str) : Nat := s.foldl (fun acc c => acc * 10 + (c - 48)) 0

def lookupKw (kwargs : List (Str × Str)) (k : Str) : Option Str :=
  match kwargs with
  | [] => none
  | (k', v) :: rest => if k' = k then some v else lookupKw rest k

def pyFormatGo (args : List Str) (kwargs : List (Str × Str)) : Nat → Str → AutoNum → Nat → Str → Except FmtErr Str
  | 0, _, _, _, acc => .ok acc
  | _ + 1, [], _, _, acc => .ok acc
  | fuel + 1, c :: rest, st, next, acc =>
    if c = 125 then                                   -- '}'
      match rest with
      | 125 :: rest' => pyFormatGo args kwargs fuel rest' st next (acc ++ [125])
      | _ => .error .valueError                       -- Single '}' encountered
    else if c = 123 then                              -- '{'
      match rest with
      | [] => .error .valueError                      -- Single '{' encountered
      | 123 :: rest' => pyFormatGo args kwargs fuel rest' st next (acc ++ [123])
      | _ =>
        match scanField rest [] with
        | .error e => .error e
        | .ok (name, rest') =>
          if name.isEmpty then
            if st = .manual then .error .valueError   -- cannot switch from manual to automatic numbering
            else match args[next]? with
              | none => .error .indexError
              | some v => pyFormatGo args kwargs fuel rest' .auto (next + 1) (acc ++ v)
          else if isDigits name then
            if st = .auto then .error .valueError     -- cannot switch from automatic to manual numbering
            else match args[digitsVal name]? with
              | none => .error .indexError
              | some v => pyFormatGo args kwargs fuel rest' .manual next (acc ++ v)
          else match lookupKw kwargs name with
            | none => .error .keyError
            | some v => pyFormatGo args kwargs fuel rest' st next (acc ++ v)
    else pyFormatGo args kwargs fuel rest st next (acc ++ [c])

/-- `template.format(*args, **kwargs)` on strings -/
def pyFormat (template : Str) (args : List Str) (kwargs : List (Str × Str)) : Except FmtErr Str :=
  pyFormatGo args kwargs (template.length + 1) template .init 0 []

/-- `tags.safe_format(template, *args, **kwargs)`; the result is a `safestr` -/
def safeFormat (db : UnicodeDB) (template : Str) (args : List Extra) (kwargs : List (Str × Extra)) : Except FmtErr Str :=
  pyFormat template (args.map (escape db)) (kwargs.map fun kv => (kv.1, escape db kv.2))

/-- `message_repr(message, template)` of lib/check/msgrepr.py -/
def messageRepr (db : UnicodeDB) (msgid : Str) (msgctxt : Option Str) (template : Str) : Except FmtErr Str :=
  let subtemplate := lit "msgid {id}"
  let kwargs := [(lit "id", Extra.str msgid)]
  let (subtemplate, kwargs) := match msgctxt with
    | some ctxt => (subtemplate ++ lit " msgctxt {ctxt}", kwargs ++ [(lit "ctxt", Extra.str ctxt)])
    | none => (subtemplate, kwargs)
  match pyFormat template [subtemplate] [] with
  | .error e => .error e
  | .ok template => safeFormat db template [] kwargs

/-! ## lib/cli.py `Checker.tag` -/

inductive TagErr where
  | dataIntegrity          -- attempted to emit an unknown tag
  deriving DecidableEq, Repr

def findTag (registry : List Tag) (name : Str) : Option Tag :=
  registry.find? (fun t => t.name = name)

structure Config where
  registry : List Tag
  ignore : List Str                     -- options.ignore_tags
  path : Str                            -- self.fake_path
  colours : Tag → Str × Str             -- Tag.get_colors() (empty strings unless the terminal was initialised)

/-- one `Checker.tag(tagname, *extra)` call: the text written to stdout (`print(s)`), nothing if ignored -/
def checkerTag (db : UnicodeDB) (cfg : Config) (tagname : Str) (extra : List Extra) : Except TagErr Str :=
  if cfg.ignore.contains tagname then .ok []
  else match findTag cfg.registry tagname with
    | none => .error .dataIntegrity
    | some t => .ok (format db t cfg.path extra (some (cfg.colours t)) ++ [10])

/-- a run: the calls one after the other; an unknown tag aborts -/
def runTags (db : UnicodeDB) (cfg : Config) : List (Str × List Extra) → Except TagErr Str
  | [] => .ok []
  | (n, xs) :: rest =>
    match checkerTag db cfg n xs with
    | .error e => .error e
    | .ok out =>
      match runTags db cfg rest with
      | .error e => .error e
      | .ok out' => .ok (out ++ out')

end I18n.Tags
