import I18n.Model.Check
import I18n.Model.Mo
import I18n.Model.Po
/-
What C17 needs of the checker between "a file was loaded" and "tags were printed" (core Lean only):

* `moLoad`       — `polib.mofile(path[, encoding='ISO-8859-1'])` as `Checker.check` sees it (loader + exception classes);
* `PEntry`       — the attributes of a polib entry the checker reads; `ofMo` = what `moparser.Parser._parse_entry` builds
                   (lines 150-178: `MOEntry(**kwargs)` + the seven "neutral" attributes), `ofPo` = what polib + the patches of
                   lib/polib4us.py build for the PO spelling of the same message when it has no PO-only feature;
* `observe`      — how lib/check/ reads those attributes (`message.comment or ''`, `Counter(flags)`, truthiness of
                   `occurrences`, `previous_* is not None`, `translated()`): the inventory `Generated.BinaryReads.entryAttrReads`
                   is pinned to exactly these forms in Props/C17;
* `checkDates`   — the control skeleton of `check_dates` (lib/check/__init__.py:585-633) around the MO exemption; what is
                   done with one date value is a parameter;
* `emptyFileGate`— the end of `check_messages` (lines 880-885);
* `pipeline`     — the stage list of `Checker.check` (lines 193-203) with the two stages that read `ctx.is_binary` spelled
                   out and the other seven as parameters that cannot see it.
-/
namespace I18n.Meta
open I18n.Check

abbrev Text := List Char

/-- `polib.mofile(path)` / `polib.mofile(path, encoding='ISO-8859-1')` on a file with contents `view` -/
def moLoad (db : Mo.CodecDB) (view : Mo.Bytes) (retry : Bool) : Except LoadErr Mo.MoFile :=
  match Mo.parse db (if retry then some Mo.latin1Name else none) view with
  | .ok f => .ok f
  | .error (.syntax _) => .error .moSyntax
  | .error .decode => .error .unicodeDecode
  | .error (.crash _) => .error .other

/-- `polib.pofile(path)` / `polib.pofile(path, encoding='ISO-8859-1')` as `Checker.check` sees it (cf. `Po.checkerLoad`) -/
def poLoad (env : Po.Env) (file : Po.Bytes) (retry : Bool) : Except LoadErr Po.PoFile :=
  match (if retry then Po.loadWith env Po.latin1Name file else Po.load env file) with
  | .ok f => .ok f
  | .error (.syntax _ _) => .error .poSyntax
  | .error .decode => .error .unicodeDecode
  | .error .crash => .error .other

/-- what lib/check/ can see of a loaded PO file: the header comment and the entries without polib's `linenum` -/
def poView (f : Po.PoFile) : Po.Text × List Po.Entry := (f.header, f.entries.map fun e => { e with linenum := 0 })

/-! ## the polib entry model both loaders produce -/

/-- a polib entry as far as lib/check/ reads it (`Generated.BinaryReads.entryAttrs`) -/
structure PEntry where
  msgid : Text
  msgctxt : Option Text
  msgidPlural : Option Text          -- `None` when absent (polib4us base_entry_init_patch)
  msgstr : Option Text               -- `None` when absent (same patch): plural entries
  msgstrPlural : List (Nat × Text)   -- `msgstr_plural`: an (Int)dict, insertion order
  flags : List Text                  -- PO: a list; MO: `()`
  comment : Option Text              -- PO: `''` when there is none; MO: `None`
  occurrences : List (Text × Text)   -- PO: `[]`; MO: `()`
  obsolete : Bool
  previousMsgctxt : Option Text
  previousMsgid : Option Text
  previousMsgidPlural : Option Text
  /-- what `entry.translated()` returns (as a truth value) -/
  translated : Bool
  deriving DecidableEq, Repr

/-- `{i: s for i, s in enumerate(msgstrs)}` -/
def enumerate : Nat → List Text → List (Nat × Text)
  | _, [] => []
  | i, s :: rest => (i, s) :: enumerate (i + 1) rest

/-- lib/moparser.py:150-178 — `polib.MOEntry(**kwargs)`, then `comment = None`, `occurrences = ()`, `flags = ()`,
    `translated = lambda: True`, `previous_* = None` -/
def ofMo (e : Mo.Entry) : PEntry :=
  match e.body with
  | .singular s =>
    { msgid := e.msgid, msgctxt := e.msgctxt, msgidPlural := none, msgstr := some s, msgstrPlural := [],
      flags := [], comment := none, occurrences := [], obsolete := false,
      previousMsgctxt := none, previousMsgid := none, previousMsgidPlural := none, translated := true }
  | .plural p fs =>
    { msgid := e.msgid, msgctxt := e.msgctxt, msgidPlural := some p, msgstr := none, msgstrPlural := enumerate 0 fs,
      flags := [], comment := none, occurrences := [], obsolete := false,
      previousMsgctxt := none, previousMsgid := none, previousMsgidPlural := none, translated := true }

/-- `POEntry.translated()` as patched by lib/polib4us.py -/
def poTranslated (obsolete : Bool) (flags : List Text) (msgstr : Option Text) (msgstrPlural : List (Nat × Text)) : Bool :=
  if obsolete then false
  else if flags.contains "fuzzy".toList then false
  else (msgstr.getD []) != [] || msgstrPlural.any (·.2 != [])

/-- the PO spelling of the same message without flags, comments, references, previous msgid, not obsolete:
    what `polib.pofile` + the patches build (`comment = ''`, `flags = []`, `occurrences = []`) -/
def ofPo (e : Mo.Entry) : PEntry :=
  match e.body with
  | .singular s =>
    { msgid := e.msgid, msgctxt := e.msgctxt, msgidPlural := none, msgstr := some s, msgstrPlural := [],
      flags := [], comment := some [], occurrences := [], obsolete := false,
      previousMsgctxt := none, previousMsgid := none, previousMsgidPlural := none,
      translated := poTranslated false [] (some s) [] }
  | .plural p fs =>
    { msgid := e.msgid, msgctxt := e.msgctxt, msgidPlural := some p, msgstr := none, msgstrPlural := enumerate 0 fs,
      flags := [], comment := some [], occurrences := [], obsolete := false,
      previousMsgctxt := none, previousMsgid := none, previousMsgidPlural := none,
      translated := poTranslated false [] none (enumerate 0 fs) }

/-- the entry `polib.pofile` + patches built (C10's `Po.Entry`) as a polib entry: `comment` is `''` when there is none,
    `translated()` is the patched method -/
def ofPoEntry (e : Po.Entry) : PEntry :=
  { msgid := e.msgid, msgctxt := e.msgctxt, msgidPlural := e.msgidPlural, msgstr := e.msgstr, msgstrPlural := e.msgstrPlural,
    flags := e.flags, comment := some e.comment, occurrences := e.occurrences, obsolete := e.obsolete,
    previousMsgctxt := e.previousMsgctxt, previousMsgid := e.previousMsgid, previousMsgidPlural := e.previousMsgidPlural,
    translated := Po.translated e }

/-- what lib/check/ can tell about an entry, given HOW it reads each attribute -/
structure Obs where
  msgid : Text
  msgctxt : Option Text
  msgidPlural : Option Text
  /-- `message.msgstr` is used as `bool(message.msgstr)`, `msgstr or ''`, `not message.msgstr`, or as a value after one of
      these tests succeeded: `None` and `''` are indistinguishable -/
  msgstrOrEmpty : Text
  msgstrPlural : List (Nat × Text)
  /-- `collections.Counter(message.flags)`: list and tuple iterate alike -/
  flags : List Text
  /-- `message.comment or ''` -/
  commentOrEmpty : Text
  /-- `if entry.occurrences:` and iteration -/
  occurrences : List (Text × Text)
  obsolete : Bool
  /-- `s is not None` for the three `previous_*` attributes -/
  hasPrevious : Bool × Bool × Bool
  /-- `not message.translated()` -/
  translated : Bool
  deriving DecidableEq, Repr

def observe (e : PEntry) : Obs :=
  { msgid := e.msgid, msgctxt := e.msgctxt, msgidPlural := e.msgidPlural, msgstrOrEmpty := e.msgstr.getD [],
    msgstrPlural := e.msgstrPlural, flags := e.flags, commentOrEmpty := e.comment.getD [], occurrences := e.occurrences,
    obsolete := e.obsolete,
    hasPrevious := (e.previousMsgctxt.isSome, e.previousMsgid.isSome, e.previousMsgidPlural.isSome),
    translated := e.translated }

/-- "translated" in the sense of the tool: a non-empty msgstr, or some non-empty msgstr[i] -/
def Translated (e : Mo.Entry) : Prop :=
  match e.body with
  | .singular s => s ≠ []
  | .plural _ fs => fs.any (· != []) = true

/-! ## the two places that read `ctx.is_binary` -/

/-- the tags these two places can emit themselves; everything else is `other` -/
inductive PTag (τ : Type) where
  | duplicateDate (pot : Bool)          -- `duplicate-header-field-date <field>`
  | noDate (pot : Bool)                 -- `no-date-header-field <field>`; `pot` = the field is POT-Creation-Date
  | emptyFile                           -- `empty-file`
  | other (t : τ)
  deriving DecidableEq, Repr

/-- one iteration of `for field in 'POT-Creation-Date', 'PO-Revision-Date'` (lines 592-633).
    `dedup` = `sorted(set(dates))`; `perDate pot date` = the body of `for date in dates` (it reads `ctx.is_template`, the
    Content-Type value for the Publican case and the clock — never `ctx.is_binary`). -/
def checkDatesField {τ : Type} (isBinary : Bool) (dedup : List Text → List Text) (perDate : Bool → Text → List τ)
    (pot : Bool) (dates : List Text) : List (PTag τ) :=
  if dates.length > 1 then
    .duplicateDate pot :: ((dedup dates).flatMap (perDate pot)).map .other
  else if dates.length = 0 then
    if pot && isBinary then []             -- `field.startswith('POT-') and ctx.is_binary`: continue
    else [.noDate pot]
  else (dates.flatMap (perDate pot)).map .other

/-- `check_dates` -/
def checkDates {τ : Type} (isBinary : Bool) (dedup : List Text → List Text) (perDate : Bool → Text → List τ)
    (potDates poDates : List Text) : List (PTag τ) :=
  checkDatesField isBinary dedup perDate true potDates ++ checkDatesField isBinary dedup perDate false poDates

/-- lines 880-885: `if len(msgid_counter) == 0: … if ctx.is_binary: possible_hidden_strings = ctx.file.possible_hidden_strings …` -/
def emptyFileGate {τ : Type} (isBinary hidden : Bool) (counted : Nat) : List (PTag τ) :=
  if counted = 0 then
    let possibleHiddenStrings := if isBinary then hidden else false
    if !possibleHiddenStrings then [.emptyFile] else []
  else []

/-! ## the pipeline -/

/-- the two facts about the file that only binary files have -/
structure BinFlags where
  isBinary : Bool
  /-- `ctx.file.possible_hidden_strings` (only MO files have the attribute; only read when `is_binary`) -/
  hidden : Bool
  deriving DecidableEq, Repr

/-- a stage that cannot see `ctx.is_binary` / `possible_hidden_strings`: a function of the rest of `ctx` -/
abbrev Blind (κ τ : Type) := κ → κ × List τ × Bool

def blind {κ τ : Type} (f : Blind κ τ) : Stage (BinFlags × κ) (PTag τ) := fun s =>
  let r := f s.2
  ((s.1, r.1), r.2.1.map .other, r.2.2)

/-- the seven stages that do not read `is_binary`, and the binary-independent parts of the other two -/
structure Parts (κ τ : Type) where
  comments : Blind κ τ
  headers : Blind κ τ
  language : Blind κ τ
  plurals : Blind κ τ
  mime : Blind κ τ
  /-- `if broken_encoding: ctx.encoding = None` -/
  resetEncoding : κ → κ
  dedup : List Text → List Text
  perDate : κ → Bool → Text → List τ
  potDates : κ → List Text
  poDates : κ → List Text
  project : Blind κ τ
  translator : Blind κ τ
  /-- the message loop of `check_messages`: its tags, whether it raised, and `len(msgid_counter)` -/
  messages : κ → List τ × Bool × Nat

def datesStage {κ τ : Type} (p : Parts κ τ) : Stage (BinFlags × κ) (PTag τ) := fun s =>
  (s, checkDates s.1.isBinary p.dedup (p.perDate s.2) (p.potDates s.2) (p.poDates s.2), false)

def messagesStage {κ τ : Type} (p : Parts κ τ) : Stage (BinFlags × κ) (PTag τ) := fun s =>
  let r := p.messages s.2
  if r.2.1 then (s, r.1.map .other, true)
  else (s, r.1.map .other ++ emptyFileGate s.1.isBinary s.1.hidden r.2.2, false)

/-- lines 193-203 of `Checker.check`, in source order -/
def pipeline {κ τ : Type} (p : Parts κ τ) : List (Stage (BinFlags × κ) (PTag τ)) :=
  [blind p.comments, blind p.headers, blind p.language, blind p.plurals, blind p.mime,
   blind (fun k => (p.resetEncoding k, [], false)),
   datesStage p, blind p.project, blind p.translator, messagesStage p]

/-! ## "reported once per file": the accumulating part of `check_messages` (lines 853-870)

`found_unusual_characters` collects what was reported already; a message is tagged with the unusual characters of its
translations that are neither in its msgid nor reported before.  Which MESSAGE carries a character therefore depends on
the order of the messages — the reason why the PO-versus-MO clause is stated for a PO file in msgfmt order. -/

/-- `for msgstr in strings: uc = msgstr_uc - msgid_uc - found; if not uc: continue; tag(…); found |= uc` for one message;
    `cands` = the sets `msgstr_uc - msgid_uc`, one per translation -/
def blameStrings {μ : Type} (m : μ) : List Char → List (List Char) → List (μ × List Char) × List Char
  | found, [] => ([], found)
  | found, s :: rest =>
    let uc := s.filter (fun c => !found.contains c)
    if uc.isEmpty then blameStrings m found rest
    else
      let r := blameStrings m (found ++ uc) rest
      ((m, uc) :: r.1, r.2)

/-- the loop over the messages -/
def blame {μ : Type} : List Char → List (μ × List (List Char)) → List (μ × List Char)
  | _, [] => []
  | found, (m, cands) :: rest =>
    let r := blameStrings m found cands
    r.1 ++ blame r.2 rest

end I18n.Meta
