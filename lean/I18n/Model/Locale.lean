import I18n.Model.TagCall
import I18n.Spec.LocaleRe
import I18n.Generated.Locale
/-
Hand-written model, statement by statement, of

* `lib/ling.py`: `Language` (`__init__`, `__str__`, `__eq__`, `fix_codes`, `remove_encoding`,
  `remove_nonlinguistic_modifier`), `parse_language` (a deterministic scanner standing for `_language_regexp.match`),
  `_lookup_language_code`, `lookup_territory_code`, `get_language_for_name`;
* `lib/cli.py:212-222`: the processing of the `-l` option;
* `lib/check/__init__.py` `Checker.check_language`.

The tables (`_iso_639`, `_iso_3166`, `_name_to_code`) and the regex tree are GENERATED from the live module on every run
(`I18n.Generated.Locale`).  `_munch_language_name` (Unicode `split`/`lower`/NFD/ASCII-ignore) is a parameter `munch`
(DESIGN §4.4); `os.path.normpath`, `basename`, `splitext`, `str.split/strip/endswith/replace/in` are modelled here.
Tied to the real code by the `locale-*` and `check-language-*` correspondence streams.  Core Lean only.
-/
namespace I18n.Locale
open I18n I18n.Spec.LocaleRe

/-! ## `ling.Language` -/

structure Language where
  ll : List Char
  cc : Option (List Char)
  enc : Option (List Char)
  mod : Option (List Char)
  deriving DecidableEq, Repr, Inhabited

/-- the exceptions the modelled code can raise -/
inductive LErr where
  | syntax          -- ling.LanguageSyntaxError  (a LanguageError)
  | fixingCodes     -- ling.FixingLanguageCodesFailed  (a LanguageError)
  | valueError      -- the bare `raise ValueError` in fix_codes (NOT a LanguageError)
  | assertion       -- `assert ext == '.po'`
  | lookupError     -- `raise LookupError(name)` of get_language_for_name
  deriving DecidableEq, Repr, Inhabited

def LErr.name : LErr → String
  | .syntax => "LanguageSyntaxError"
  | .fixingCodes => "FixingLanguageCodesFailed"
  | .valueError => "ValueError"
  | .assertion => "AssertionError"
  | .lookupError => "LookupError"

/-- `isinstance(exc, ling.LanguageError)` -/
def LErr.isLanguageError : LErr → Bool
  | .syntax => true
  | .fixingCodes => true
  | _ => false

def lowerR : List (Nat × Nat) := [(97, 122)]
def upperR : List (Nat × Nat) := [(65, 90)]
def encR : List (Nat × Nat) := [(43, 43), (45, 45), (48, 57), (65, 90), (97, 122)]

def isLower (c : Char) : Bool := inRanges lowerR c
def isUpper (c : Char) : Bool := inRanges upperR c
def isEncChar (c : Char) : Bool := inRanges encR c

/-- `str.upper()` restricted to what `Language.__init__` can be given as an encoding (`[a-zA-Z0-9+-]+`) -/
def asciiUpper (c : Char) : Char :=
  if 97 ≤ c.toNat ∧ c.toNat ≤ 122 then Char.ofNat (c.toNat - 32) else c

/-- `Language.__str__` -/
def optPart (sep : Char) : Option (List Char) → List Char
  | none => []
  | some x => sep :: x

def Language.str (l : Language) : List Char :=
  l.ll ++ (optPart '_' l.cc ++ (optPart '.' l.enc ++ optPart '@' l.mod))

/-! ## `parse_language`: scanner for `^([a-z]{2,})(?:_([A-Z]{2,}))?(?:[.]([a-zA-Z0-9+-]+))?(?:@([a-z]+))?\Z` -/

/-- `(?: sep ( cls{min,} ) )?` at the head of `s`, maximal munch; `(none, s)` if the group does not match there -/
def optGroup (sep : Char) (cls : Char → Bool) (min : Nat) (s : List Char) : Option (List Char) × List Char :=
  match s with
  | c :: t =>
    if c = sep ∧ min ≤ (t.takeWhile cls).length then (some (t.takeWhile cls), t.dropWhile cls) else (none, s)
  | [] => (none, s)

/-- `_language_regexp.match(s)` followed by `Language(*match.groups())`; `none` = `LanguageSyntaxError` -/
def parseLanguage (s : List Char) : Option Language :=
  let ll := s.takeWhile isLower
  let r1 := s.dropWhile isLower
  if ll.length < 2 then none else
  let g2 := optGroup '_' isUpper 2 r1
  let g3 := optGroup '.' isEncChar 1 g2.2
  let g4 := optGroup '@' isLower 1 g3.2
  if g4.2 = [] then some ⟨ll, g2.1, g3.1.map (·.map asciiUpper), g4.1⟩ else none

def parseLanguageE (s : List Char) : Except LErr Language :=
  match parseLanguage s with
  | some l => .ok l
  | none => .error .syntax

/-! ## the ISO tables -/

/-- a dict with string keys, grouped by the first character of the key (representation used by `Generated.Locale.iso639`) -/
abbrev Buckets := List (Char × List (List Char × List Char))

def lookupIn (T : Buckets) (k : List Char) : Option (List Char) :=
  match k with
  | [] => none
  | c :: _ =>
    match T.lookup c with
    | none => none
    | some b => b.lookup k

/-- `_lookup_language_code` = `_iso_639.get` -/
def lookupLanguage (k : List Char) : Option (List Char) := lookupIn Generated.Locale.iso639 k

/-- `lookup_territory_code`: `cc if cc in _iso_3166 else None` -/
def lookupTerritory (cc : List Char) : Option (List Char) :=
  if Generated.Locale.iso3166.contains cc then some cc else none

/-! ### `_read_iso_codes`: how the tables are built from data/iso-codes -/

/-- `d[k] = v` on an association list in insertion order: overwrite in place if the key is present, else append -/
def assocSet (b : List (List Char × List Char)) (k v : List Char) : List (List Char × List Char) :=
  if b.any (fun e => e.1 == k) then b.map (fun e => if e.1 == k then (k, v) else e) else b ++ [(k, v)]

/-- `d[k] = v` on the bucket representation of a dict (the bucket of the key's first character must exist) -/
def setIn (T : Buckets) (k v : List Char) : Buckets :=
  match k with
  | [] => T
  | c :: _ => T.map fun b => if b.1 = c then (b.1, assocSet b.2 k v) else b

/-- the body of `for lll, ll in cfg_iso_639.items():` -/
def loadStep (T : Buckets) (r : List Char × List Char) : Buckets :=
  if r.2 ≠ [] then setIn (setIn T r.2 r.2) r.1 r.2 else setIn T r.1 r.1

/-- `_read_iso_codes`, language part: the dict after the loop (`cs`: the first characters that occur) -/
def loadIso639 (cs : List Char) (rows : List (List Char × List Char)) : Buckets :=
  rows.foldl loadStep (cs.map fun c => (c, []))

/-- `frozenset(cc.upper() for cc in cfg_iso_3166.keys())`, in file order -/
def loadIso3166 (keys : List (List Char)) : List (List Char) := keys.map (·.map asciiUpper)

/-- `Language.fix_codes`: the mutated object and `fixed` (`True` ↦ true, `None` ↦ false) -/
def fixCodes (l : Language) : Except LErr (Language × Bool) :=
  match lookupLanguage l.ll with
  | none => .error .fixingCodes
  | some ll =>
    let fixed := ll != l.ll
    match l.cc with
    | none => .ok ({ l with ll := ll, cc := none }, fixed)
    | some cc0 =>
      match lookupTerritory cc0 with
      | none => .error .fixingCodes
      | some cc =>
        if cc ≠ cc0 then .error .valueError
        else .ok ({ l with ll := ll, cc := some cc }, fixed)

/-- `remove_encoding`: the mutated object and whether `True` was returned -/
def removeEncoding (l : Language) : Language × Bool :=
  match l.enc with
  | none => (l, false)
  | some _ => ({ l with enc := none }, true)

/-- `remove_nonlinguistic_modifier` -/
def removeNonlinguisticModifier (l : Language) : Language × Bool :=
  if l.mod = some "euro".toList then ({ l with mod := none }, true) else (l, false)

/-- `_get_principal_territory_code` -/
def principalTerritory (ll : List Char) : Option (List Char) := Generated.Locale.principalTerritory.lookup ll

/-- `remove_principal_territory_code` (the mutated object) -/
def removePrincipalTerritory (l : Language) : Language :=
  match l.cc with
  | none => l
  | some cc => if principalTerritory l.ll = some cc then { l with cc := none } else l

/-- `Language.is_almost_equal`: equal after dropping a territory that is the language's principal one -/
def isAlmostEqual (a b : Language) : Bool := removePrincipalTerritory a == removePrincipalTerritory b

/-! ## Python string helpers -/

/-- `s.split(sep)` for a one-character separator -/
def splitOn (sep : Char) : List Char → List (List Char)
  | [] => [[]]
  | c :: r =>
    if c = sep then [] :: splitOn sep r
    else match splitOn sep r with
      | [] => [[c]]
      | h :: t => (c :: h) :: t

/-- `str.isspace()` of one character (ranges GENERATED from the running interpreter) -/
def isPySpace (c : Char) : Bool := inRanges Generated.Locale.pySpace c

def lstrip (s : List Char) : List Char := s.dropWhile isPySpace
def strip (s : List Char) : List Char := (lstrip (lstrip s).reverse).reverse

def joinWith (sep : List Char) : List (List Char) → List Char
  | [] => []
  | [x] => x
  | x :: xs => x ++ sep ++ joinWith sep xs

def isInfixOf (p : List Char) : List Char → Bool
  | [] => p.isPrefixOf []
  | c :: t => p.isPrefixOf (c :: t) || isInfixOf p t

/-- `posixpath.normpath` -/
def normComps (initial : Bool) : List (List Char) → List (List Char) → List (List Char)
  | acc, [] => acc.reverse
  | acc, comp :: rest =>
    if comp = [] ∨ comp = ['.'] then normComps initial acc rest
    else if comp ≠ ['.', '.'] ∨ (!initial ∧ acc = []) ∨ (acc.head? = some ['.', '.']) then normComps initial (comp :: acc) rest
    else normComps initial acc.tail rest

def normpath (path : List Char) : List Char :=
  if path = [] then ['.'] else
  let initial : Nat :=
    if path.head? = some '/' then
      (if "//".toList.isPrefixOf path ∧ ¬ "///".toList.isPrefixOf path then 2 else 1)
    else 0
  let comps := normComps (initial != 0) [] (splitOn '/' path)
  let p := List.replicate initial '/' ++ joinWith ['/'] comps
  if p = [] then ['.'] else p

/-- `os.path.basename` -/
def basename (path : List Char) : List Char := ((splitOn '/' path).getLast?).getD []

/-- `os.path.splitext` of a string without `/` -/
def splitext (b : List Char) : List Char × List Char :=
  let extRev := b.reverse.takeWhile (· ≠ '.')
  if extRev.length = b.length then (b, [])       -- no dot
  else
    let root := b.take (b.length - extRev.length - 1)
    if root.all (· = '.') then (b, []) else (root, b.drop (b.length - extRev.length - 1))

/-! ## `_munch_language_name` -/

/-- `str.split()` without arguments: the maximal runs of non-whitespace -/
def splitWsAux : List Char → List Char → List (List Char)
  | cur, [] => if cur = [] then [] else [cur.reverse]
  | cur, c :: r =>
    if isPySpace c then (if cur = [] then splitWsAux [] r else cur.reverse :: splitWsAux [] r)
    else splitWsAux (c :: cur) r

def splitWs (s : List Char) : List (List Char) := splitWsAux [] s

/-- the ASCII character left of `NFD(lower(c))` after `.encode('ASCII', 'ignore')`, if any (table GENERATED from the interpreter).
    `str.lower` is character-wise except for the final-sigma rule and NFD only reorders combining marks, none of which is ASCII,
    so the munching of a string is the munching of its characters. -/
def residue (c : Char) : Option Char := Generated.Locale.asciiResidue.lookup c.toNat

/-- `_munch_language_name`: `' '.join(s.split())`, `.lower()`, NFD, drop everything that is not ASCII -/
def munchName (s : List Char) : List Char :=
  joinWith [' '] ((splitWs s).map fun w => w.filterMap residue)

/-! ## `get_language_for_name` -/

def nameCode (n : List Char) : Option (List Char) := Generated.Locale.nameToCode.lookup n

/-- `try: return parse(_name_to_code[n]) except KeyError/LookupError: pass`: `none` = fell through -/
def tryName (n : List Char) : Option (Except LErr Language) :=
  match nameCode n with
  | none => none
  | some c => some (parseLanguageE c)

def firstName : List (List Char) → Option (Except LErr Language)
  | [] => none
  | n :: rest =>
    match tryName (strip n) with
    | some r => some r
    | none => firstName rest

/-- `munched` is `_munch_language_name(name)` -/
def getLanguageForName (munched : List Char) : Except LErr Language :=
  match tryName munched with
  | some r => r
  | none =>
    match (if munched.contains ';' then firstName (splitOn ';' munched) else none) with
    | some r => r
    | none =>
      if munched.contains ',' then
        let a := munched.takeWhile (· ≠ ',')
        let b := (munched.dropWhile (· ≠ ',')).drop 1
        match tryName (strip b ++ ' ' :: strip a) with
        | some r => r
        | none =>
          let results := ((splitOn ',' munched).filterMap (fun n => nameCode (strip n))).eraseDups
          match results with
          | [c] => parseLanguageE c
          | _ => .error .lookupError
      else .error .lookupError

/-! ## `cli.main`: the `-l` option -/

/-- `.error` = `ap.error('invalid language')` for a LanguageError, or the propagating exception otherwise -/
def cliLanguage (s : List Char) : Except LErr Language :=
  match parseLanguageE s with
  | .error e => .error e
  | .ok l =>
    match fixCodes l with
    | .error e => .error e
    | .ok (l, _) => .ok (removeNonlinguisticModifier (removeEncoding l).1).1

/-! ## `Checker.check_language` -/

structure Input where
  isTemplate : Bool
  /-- `options.language`, already a processed `Language` -/
  optLanguage : Option Language
  path : List Char
  metaLanguages : List (List Char)
  poeditLanguages : List (List Char)
  poeditCountries : List (List Char)

structure Output where
  tags : List TagCall
  /-- `ctx.language` -/
  language : Option Language
  deriving DecidableEq, Repr, Inhabited

def tag (name : String) (extras : List Extra) : TagCall := ⟨name, extras⟩
def sExtra (s : String) : Extra := .str s.toList
def safeExtra (s : String) : Extra := .safe s.toList
/-- a `Language` passed to `tag()` is formatted with `str()` and escaped like any `str` -/
def langExtra (l : Language) : Extra := .str l.str

/-- lines 227-238: duplicates of the `Language` field -/
structure MetaStage where
  tags : List TagCall
  metaLanguage : Option (List Char)
  duplicate : Bool

def stageMeta (ms : List (List Char)) : MetaStage :=
  let t := if ms.length > 1 then [tag "duplicate-header-field-language" []] else []
  -- `sorted(set(meta_languages))`: only its length and (when 1) its element are used
  let ms' := if ms.length > 1 then ms.eraseDups else ms
  let dup := ms.length > 1 ∧ ms'.length > 1
  -- `if len(meta_languages) == 1: [meta_language] = meta_languages else: meta_language = None`
  ⟨t, (match ms' with | [m] => some m | _ => none), dup⟩

/-- the language a source outside the header names -/
structure PathStage where
  language : Option Language
  source : String
  quality : Nat

/-- lines 250-262: the `LC_MESSAGES` directory -/
def lcMessagesLanguage (path : List Char) : Except LErr (Option Language) :=
  let comps := splitOn '/' (normpath path)
  let i := comps.findIdx (· = "LC_MESSAGES".toList)
  if i < comps.length ∧ i > 0 then
    let cand := comps.getD (i - 1) []
    match parseLanguageE cand with
    | .error e => if e.isLanguageError then .ok none else .error e
    | .ok l =>
      match fixCodes l with
      | .error e => if e.isLanguageError then .ok none else .error e
      | .ok (l, _) => .ok (some (removeNonlinguisticModifier (removeEncoding l).1).1)
  else .ok none

/-- lines 264-281: the base name of a `.po` file -/
def basenameLanguage (path : List Char) : Except LErr (Option Language) :=
  let se := splitext (basename path)
  if se.2 ≠ ".po".toList then .error .assertion else
  match parseLanguageE se.1 with
  | .error e => if e.isLanguageError then .ok none else .error e
  | .ok l =>
    if l.enc.isSome then .ok none else
    match fixCodes l with
    | .error e => if e.isLanguageError then .ok none else .error e
    | .ok (l, _) => .ok (some (removeNonlinguisticModifier l).1)

def stagePath (opt : Option Language) (path : List Char) : Except LErr PathStage :=
  match opt with
  | some l => .ok ⟨some l, "command-line", 1⟩
  | none =>
    match lcMessagesLanguage path with
    | .error e => .error e
    | .ok (some l) => .ok ⟨some l, "pathname", 1⟩
    | .ok none =>
      -- `os.path.splitext(self.path)[-1] == '.po'` (the extension of a path is the extension of its base name); before
      -- /repo d16b49e the test was `self.path.endswith('.po')`, which let `.po`, `..po` through to the assertion
      if (splitext (basename path)).2 = ".po".toList then
        match basenameLanguage path with
        | .error e => .error e
        | .ok (some l) => .ok ⟨some l, "pathname", 0⟩
        | .ok none => .ok ⟨none, "command-line", 1⟩
      else .ok ⟨none, "command-line", 1⟩

/-- lines 282-294: the `Language` field as a locale name, or as an English language name -/
def stageField (munch : List Char → List Char) (m : List Char) : Except LErr (List TagCall × Option Language) :=
  match parseLanguage m with
  | some l => .ok ([], some l)
  | none =>
    match getLanguageForName (munch m) with
    | .ok l => .ok ([tag "invalid-language" [.str m, sExtra "=>", langExtra l]], some l)
    | .error .lookupError => .ok ([tag "invalid-language" [.str m]], none)
    | .error e => .error e

/-- lines 295-305: encoding, modifier, codes of the field's language -/
def stageNormalise (orig : List Char) (l : Language) : Except LErr (List TagCall × Option Language) :=
  let r1 := removeEncoding l
  let t1 := if r1.2 then [tag "encoding-in-language-header-field" [.str orig]] else []
  let r2 := removeNonlinguisticModifier r1.1
  let t2 := if r2.2 then [tag "language-variant-does-not-affect-translation" [.str orig]] else []
  match fixCodes r2.1 with
  | .ok (l', fixed) =>
    .ok (t1 ++ t2 ++ (if fixed then [tag "invalid-language" [.str orig, sExtra "=>", langExtra l']] else []), some l')
  | .error e =>
    if e.isLanguageError then .ok (t1 ++ t2 ++ [tag "invalid-language" [.str orig]], none) else .error e

/-- `f'/{meta_language}/'` -/
def fmtLang (l : Language) : List Char := '/' :: (l.str ++ ['/'])

/-- lines 306-316: `meta_language is not None and language_source_quality <= 0 and (… in self.path or … in self.path)` -/
def libreOffice (quality : Nat) (ml : Option Language) (path : List Char) : Bool :=
  match ml with
  | none => false
  | some m =>
    quality ≤ 0 ∧ (isInfixOf (fmtLang m) path ∨ isInfixOf ((fmtLang m).map (fun c => if c = '_' then '-' else c)) path)

def disparityTag (l : Language) (src : String) (m : Language) (msrc : String) : TagCall :=
  tag "language-disparity" [langExtra l, .safe ("(" ++ src ++ ")").toList, sExtra "!=", langExtra m, .safe ("(" ++ msrc ++ ")").toList]

/-- lines 326-334: duplicates of the X-Poedit fields -/
def poeditDedup (field : String) (xs : List (List Char)) : List TagCall × List (List Char) :=
  if xs.length > 1 then ([tag "duplicate-header-field-x-poedit" [sExtra field]], xs.eraseDups) else ([], xs)

structure LangState where
  tags : List TagCall
  language : Option Language
  source : String

/-- lines 317-325 -/
def stageCompare (st : LangState) (ml : Option Language) : LangState :=
  match ml with
  | none => st
  | some m =>
    match st.language with
    | none => { st with language := some m, source := "Language header field" }
    | some l =>
      if l ≠ m then { st with tags := st.tags ++ [disparityTag l st.source m "Language header field"] } else st

/-- lines 326-351 -/
def stagePoedit (munch : List Char → List Char) (st : LangState) (pls pcs : List (List Char)) : Except LErr LangState :=
  let d1 := poeditDedup "X-Poedit-Language" pls
  let d2 := poeditDedup "X-Poedit-Country" pcs
  let st := { st with tags := st.tags ++ d1.1 ++ d2.1 }
  match d1.2 with
  | [pl] =>
    if d2.2.length ≤ 1 then
      match getLanguageForName (munch pl) with
      | .error .lookupError => .ok { st with tags := st.tags ++ [tag "unknown-poedit-language" [.str pl]] }
      | .error e => .error e
      | .ok p =>
        match st.language with
        | none => .ok { st with language := some p, source := "X-Poedit-Language header field" }
        | some l =>
          if l.ll ≠ p.ll then
            .ok { st with tags := st.tags ++ [disparityTag l st.source p "X-Poedit-Language header field"] }
          else .ok st
    else .ok st
  | _ => .ok st

/-- lines 352-358 -/
def stageFinal (st : LangState) (origEmpty : Bool) (dup : Bool) : Output :=
  match st.language with
  | none =>
    ⟨st.tags ++ (if origEmpty ∧ ¬ dup then [tag "no-language-header-field" []] else [])
       ++ [tag "unable-to-determine-language" []], none⟩
  | some l =>
    ⟨st.tags ++ (if origEmpty ∧ ¬ dup then [tag "no-language-header-field" [safeExtra "Language:", langExtra l]] else []), some l⟩

def checkLanguage (munch : List Char → List Char) (inp : Input) : Except LErr Output :=
  let ms := stageMeta inp.metaLanguages
  if inp.isTemplate then
    .ok ⟨ms.tags ++ (if ms.metaLanguage.isNone then [tag "no-language-header-field" []] else []), none⟩
  else
  match stagePath inp.optLanguage inp.path with
  | .error e => .error e
  | .ok ps =>
    -- `if meta_language:` on a str: the empty string is falsy and stays as it is
    let field : Except LErr (List TagCall × Option Language) :=
      match ms.metaLanguage with
      | none => .ok ([], none)
      | some m => if m = [] then .ok ([], none) else stageField munch m
    match field with
    | .error e => .error e
    | .ok (t1, ml1) =>
      let orig := ms.metaLanguage.getD []
      let norm : Except LErr (List TagCall × Option Language × Option Language) :=
        match ml1 with
        | none => .ok ([], none, ps.language)
        | some l =>
          match stageNormalise orig l with
          | .error e => .error e
          | .ok (t2, ml2) => .ok (t2, ml2, if libreOffice ps.quality ml2 inp.path then none else ps.language)
      match norm with
      | .error e => .error e
      | .ok (t2, ml2, lang) =>
        let st := stageCompare ⟨ms.tags ++ t1 ++ t2, lang, ps.source⟩ ml2
        match stagePoedit munch st inp.poeditLanguages inp.poeditCountries with
        | .error e => .error e
        | .ok st => .ok (stageFinal st (orig = []) ms.duplicate)

end I18n.Locale
