/-
Python semantics kit: the partial operations of Python that the modelled code uses,
modelled as partial (never totalised).  Core Lean only (no Mathlib): the driver is
compiled natively.
-/
namespace I18n.Py

/-- Dynamic errors that matter in the modelled code. -/
inductive Exc where
  | ZeroDivision
  | Overflow            -- raised by the code itself (`OverflowError`)
  | ValueError
  | TypeError
  | IndexError
  | KeyError
  | AttributeError
  | UnboundLocal
  | AssertionError
  | RecursionError
  | NotImplemented
  | NonTermination      -- a `while` loop outran the variant the translator was told
  | UnicodeDecodeError
  | UnicodeEncodeError
  | LookupError         -- a `LookupError` that is neither KeyError nor IndexError (`lib.encodings.EncodingLookupError`)
  deriving DecidableEq, Repr, Inhabited

def Exc.name : Exc → String
  | .ZeroDivision => "ZeroDivisionError"
  | .Overflow => "OverflowError"
  | .ValueError => "ValueError"
  | .TypeError => "TypeError"
  | .IndexError => "IndexError"
  | .KeyError => "KeyError"
  | .AttributeError => "AttributeError"
  | .UnboundLocal => "UnboundLocalError"
  | .AssertionError => "AssertionError"
  | .RecursionError => "RecursionError"
  | .NotImplemented => "NotImplementedError"
  | .NonTermination => "NonTermination"
  | .UnicodeDecodeError => "UnicodeDecodeError"
  | .UnicodeEncodeError => "UnicodeEncodeError"
  | .LookupError => "LookupError"

/-- `int(b)` for a Python bool. -/
@[inline] def b2i (b : Bool) : Int := if b then 1 else 0

/-- Python `x // y` on ints (floor division). -/
def floordiv (x y : Int) : Except Exc Int :=
  if y = 0 then .error .ZeroDivision else .ok (Int.fdiv x y)

/-- Python `x % y` on ints (sign of the divisor). -/
def mod (x y : Int) : Except Exc Int :=
  if y = 0 then .error .ZeroDivision else .ok (Int.fmod x y)

/-- `while cond: body` with an explicit variant (fuel); running out of fuel is the
    distinguished outcome `NonTermination`, which the termination theorems exclude. -/
def whileLoop {σ : Type} (cond : σ → Bool) (body : σ → Except Exc σ) : Nat → σ → Except Exc σ
  | 0, s => if cond s then .error .NonTermination else .ok s
  | fuel + 1, s =>
    if cond s then
      match body s with
      | .error e => .error e
      | .ok s' => whileLoop cond body fuel s'
    else .ok s

/-- `for y in ys: body` without early exit: a monadic left fold. -/
def forLoop {σ α : Type} (body : σ → α → Except Exc σ) : List α → σ → Except Exc σ
  | [], s => .ok s
  | y :: ys, s =>
    match body s y with
    | .error e => .error e
    | .ok s' => forLoop body ys s'

end I18n.Py
