import I18n.Lemmas.MoGenerated
import I18n.Props.C08
import I18n.Props.C09
/-!
# C08/C09 — the tie: the parser REGENERATED from `lib/moparser.py` is the model the theorems are about

`I18n.Generated.MoParser` is rewritten from the repository's current `lib/moparser.py` by
`tools/translate/mo2lean.py` on every run (`Parser.__init__`, `_parse`, `_read_ints`, `_parse_entry`, the module
constants; rules of the translation in its docstring and in DESIGN-notes/mo.md).  `generated_parse_eq_model` proves,
for every byte string, every codec database and either `encoding` argument, that this regenerated definition
computes the same function as the hand-written model `Mo.parse`.  Consequently every theorem of `Props/C08.lean` and
`Props/C09.lean` holds of the regenerated text; the headline ones are restated below about
`Generated.MoParser.parse`.  A change of the source changes the generated definitions and these proofs stop
compiling (or the translator reports the construct as outside its subset) — no test input is involved.
-/
namespace I18n.Props.C08Tie
open I18n.Mo I18n.Mo.Spec

/-- `Parser._read_ints` as regenerated = `Mo.readInts` (for an object whose `_endian` is `'<'` / `'>'`) -/
theorem generated_read_ints_eq_model (db : CodecDB) (self : I18n.Generated.MoParser.Self) (be : Bool)
    (h : self._endian = Gen.endianOf be) (at_ n : Nat) :
    I18n.Generated.MoParser.Parser._read_ints db self at_ n = readInts be self._view at_ n :=
  Gen.read_ints_eq db self be h at_ n

/-- `Parser._parse_entry` as regenerated = `Mo.parseEntry` (`self._encoding`, `self._last_msgid` = the model's state) -/
theorem generated_parse_entry_eq_model (db : CodecDB) (self : I18n.Generated.MoParser.Self) (be : Bool)
    (h : self._endian = Gen.endianOf be) (i msgidOffset msgstrOffset : Nat) :
    I18n.Generated.MoParser.Parser._parse_entry db self i msgidOffset msgstrOffset =
      Gen.liftSt self (parseEntry db be self._view (Gen.stOf self) i msgidOffset msgstrOffset) :=
  Gen.parse_entry_eq db self be h i msgidOffset msgstrOffset

/-- `Parser._parse` as regenerated (magic, revision, hidden-strings flag, tables, the loop) = `Mo.parse` -/
theorem generated_parse_body_eq_model (db : CodecDB) (self : I18n.Generated.MoParser.Self)
    (h : self.instance_ = ⟨[], false⟩) :
    Gen.instOf (I18n.Generated.MoParser.Parser._parse db self) = Mo.parse db self._encoding self._view :=
  Gen.parse_body_eq db self h

/-- **The tie.**  `Parser(path, encoding=enc).parse()` as translated from the current source, on a file with
    contents `bytes`, is `Mo.parse db enc bytes` — for ALL byte strings. -/
theorem generated_parse_eq_model (db : CodecDB) (enc : Option Bytes) (bytes : Bytes) :
    I18n.Generated.MoParser.parse db enc bytes = Mo.parse db enc bytes :=
  Gen.generated_parse_eq db enc bytes

/-! ### the headline theorems, about the regenerated parser -/

/-- C08 as stated, of the regenerated parser -/
theorem parse_of_encodes_generated (db : CodecDB) (given : Option Bytes) (b : Bytes) (cat : List CatEntry)
    (hidden : Bool) (h : Encodes b cat hidden) (hwf : ∀ e ∈ cat, e.WF) :
    I18n.Generated.MoParser.parse db given b = expected db given cat hidden := by
  rw [generated_parse_eq_model]; exact C08.parse_of_encodes db given b cat hidden h hwf

/-- `forall catalogs c, forall layouts l: parse(serialize(c, l)) == c`, of the regenerated parser -/
theorem parse_serialize_generated (db : CodecDB) (given : Option Bytes) (cat : List CatEntry) (l : Layout)
    (hok : l.OK cat) (hwf : ∀ e ∈ cat, e.WF) :
    I18n.Generated.MoParser.parse db given (serialize cat l) = expected db given cat l.hidden := by
  rw [generated_parse_eq_model]; exact C08.parse_serialize db given cat l hok hwf

/-- C09, closed error set, of the regenerated parser: never `struct.error`, an unpacking `ValueError`, `TypeError`,
    `AssertionError`, `IndexError`, or any other exception class of the translation -/
theorem parse_total_closed_generated (db : CodecDB) (given : Option Bytes) (b : Bytes) (c : Crash) :
    I18n.Generated.MoParser.parse db given b ≠ .error (.crash c) := by
  rw [generated_parse_eq_model]; exact C09.parse_total_closed db given b c

/-- C09, acceptance ⇔ well-formedness, of the regenerated parser -/
theorem parse_ok_iff_generated (db : CodecDB) (given : Option Bytes) (b : Bytes) (f : MoFile) :
    I18n.Generated.MoParser.parse db given b = .ok f ↔
      ∃ cat, Encodes b cat f.possibleHiddenStrings ∧ (∀ e ∈ cat, e.WF) ∧
        expected db given cat f.possibleHiddenStrings = .ok f := by
  rw [generated_parse_eq_model]; exact C09.parse_ok_iff db given b f

/-- a file that is not a legal MO file of any catalog is never loaded by the regenerated parser -/
theorem reject_not_encodes_generated (db : CodecDB) (given : Option Bytes) (b : Bytes) (h : ¬ WellFormedFile b) :
    (∃ x, I18n.Generated.MoParser.parse db given b = .error (.syntax x)) ∨
      I18n.Generated.MoParser.parse db given b = .error .decode := by
  rw [generated_parse_eq_model]; exact C09.reject_not_encodes db given b h

/-- the hidden-strings flag of the regenerated parser -/
theorem hidden_flag_generated (db : CodecDB) (given : Option Bytes) (b : Bytes) (f : MoFile)
    (h : I18n.Generated.MoParser.parse db given b = .ok f) :
    ∃ be rev, Slice b 0 (magicOf be) ∧ WordAt be b 4 rev ∧ HiddenFlag be b (rev % 65536) f.possibleHiddenStrings := by
  rw [generated_parse_eq_model] at h; exact C08.hidden_flag db given b f h

/-! Non-vacuity: the regenerated definition is executable and gives the expected answers by evaluation -/

example : I18n.Generated.MoParser.parse asciiDB none C08.witnessFile =
    .ok ⟨[⟨['i'], some ['c'], .singular ['s']⟩], false⟩ := by
  rw [generated_parse_eq_model]; exact C08.witness_parse

example : I18n.Generated.MoParser.parse asciiDB none [] = .error (.syntax .magic) := by
  rw [generated_parse_eq_model]; rfl

example : I18n.Generated.MoParser.little_endian_magic = leMagic ∧ I18n.Generated.MoParser.big_endian_magic = beMagic :=
  ⟨rfl, rfl⟩

end I18n.Props.C08Tie
