import I18n.Lemmas.PyFmtConvGenerated
import I18n.Props.C12
/-!
# C12 — the tie by translation (first part): `Conversion.__init__` and `FormatString.add_argument` REGENERATED from
`lib/strformat/python.py` are the model

`I18n.Generated.PyFmtConv` is rewritten from the repository's current `lib/strformat/python.py` by `tools/translate/pyfmtconv2lean.py` on
every run.  The theorems below prove the regenerated `Conversion.__init__` equal, for ALL parent states, ALL directives and both values
of `w`, to the hand-written `PyFmt.conversion` (type, registered arguments, warnings, exception class), and the regenerated
`add_argument` (with its callers' `except IndexError`) to `PyFmt.addArgument`; then the whole parser with the regenerated constructor
in place of the modelled one (`parseG`) is `PyFmt.parse`, and the headline theorems of C12 are restated about it.
The hand-written character scanner of `FormatString.__init__` (the `while True:` loop over `enumerate(s)`) stays hand-modelled
(`PyFmt.scanDirective`, `loop`) and tied by the `pyfmt parse` streams; so does the final grouping / `ArgumentTypeMismatch` test.
Shared by both sides (trusted, see `DESIGN-notes/pyfmt.md`): the kit `Model/PyFmtPy.lean`, the dumped `_info` character sets and `SSIZE_MAX`.
-/
namespace I18n.Props.C12Tie
open I18n I18n.PyFmt I18n.PyFmt.Py I18n.PyFmt.G I18n.Spec.CPyPercent I18n.Spec.PyFmtArgs I18n.Generated

/-! ## the regenerated definitions are the model -/

/-- `Conversion(parent, s, key=…, flags=…, width=…, var_width=…, prec=…, var_prec=…, length=…, conv=…)` as regenerated, called
    with the keyword arguments the scanner passes for the directive `d` and a directive text `s` that ends in the conversion
    character (the `assert s[-1] == conv`), = `PyFmt.conversion w st d`: the type, the parent afterwards, or the exception -/
theorem generated_conversion_eq_model (w : Bool) (st : St) (s : List Char) (d : Directive) (hs : s.getLast? = some d.conv) :
    PyFmtConv.Conversion.__init__ w st s d.key d.flags (widthArgOf d) (varWidthOf d) (precArgOf d) (varPrecOf d) d.length d.conv
      = (conversion w st d).map (fun r => (r.2.toList, r.1)) :=
  Gen.conversion_eq w st s d hs

/-- `parent.add_argument(key, arg)` as regenerated, under its callers' `except IndexError: raise ArgumentIndexingMixture(s)`,
    = `PyFmt.addArgument` -/
theorem generated_add_argument_eq_model (st : St) (key : Option (List Char)) (arg : Entry) :
    PyKit.tryExcept (PyFmtConv.add_argument st key arg) isIndexError (.error .ArgumentIndexingMixture) = addArgument st key arg :=
  Gen.add_argument_eq st key arg

/-- … and by itself: `IndexError` exactly when named and unnamed arguments would be mixed, else the entry is appended -/
theorem generated_add_argument_raw (st : St) (key : Option (List Char)) (arg : Entry) :
    PyFmtConv.add_argument st key arg =
      (match addArgument st key arg with
       | .ok st' => .ok st'
       | .error _ => .error (.crash .IndexError)) :=
  Gen.add_argument_raw st key arg

/-! ## the parser with the regenerated constructor -/

theorem conversionG_eq (w : Bool) (st : St) (d : Directive) : conversionG w st d = conversion w st d := by
  unfold conversionG
  rw [generated_conversion_eq_model w st [d.conv] d rfl]
  cases conversion w st d with
  | error e => rfl
  | ok r => simp [Except.map]

theorem loopG_eq (w : Bool) : ∀ fuel cs text st, loopG w fuel cs text st = loop w fuel cs text st := by
  intro fuel
  induction fuel with
  | zero => intro cs text st; rfl
  | succ n ih =>
    intro cs text st
    cases cs with
    | nil => rfl
    | cons c cs =>
      simp only [loopG, loop, conversionG_eq]
      split
      · exact ih _ _ _
      · cases scanDirective cs with
        | none => rfl
        | some p =>
          obtain ⟨d, rest⟩ := p
          simp only []
          cases conversion w (flush text st) d with
          | error e => rfl
          | ok r => obtain ⟨st', tp⟩ := r; exact ih _ _ _

/-- the parser with the regenerated constructor is the model's parser -/
theorem generated_parseW_eq_model (w : Bool) (s : List Char) : parseWG w s = parseW w s := by
  unfold parseWG parseW
  rw [loopG_eq]
  cases loop w (s.length + 1) s [] St.init <;> rfl

theorem generated_parse_eq_model (s : List Char) : parseG s = parse s := generated_parseW_eq_model true s

/-! ## the headline theorems of C12, of the parser with the regenerated constructor -/

/-- **If the parser accepts a string, CPython formats it** when given arguments of the shape and types the parser reports -/
theorem accept_formats_generated {s : List Char} {r : Result} {a : Args} (hp : PlainPercent s) (h : parseG s = .ok r)
    (hm : Matches r a) : format s a = .ok () :=
  C12.accept_formats hp (generated_parse_eq_model s ▸ h) hm

/-- **If CPython rejects the string whatever the arguments, the parser rejects it** -/
theorem malformed_rejected_generated {s : List Char} (hp : PlainPercent s) (h : ∀ a, format s a ≠ .ok ()) :
    ∃ e, parseG s = .error e := by
  rw [generated_parse_eq_model]; exact C12.malformed_rejected hp h

/-- **A string CPython can format is rejected only for a documented reason** -/
theorem reject_reasons_generated {s : List Char} {e : PErr} (hp : PlainPercent s) (h : parseG s = .error e)
    (hf : ∃ a, format s a = .ok ()) :
    e = .ArgumentIndexingMixture ∨ e = .ArgumentTypeMismatch ∨ e = .WidthRangeError ∨ e = .PrecisionRangeError :=
  C12.reject_reasons hp (generated_parse_eq_model s ▸ h) hf

/-- **Rejection raises only the parser's own error type**: the asserts of the regenerated constructor (`s[-1] == conv`,
    `flag in '0 +'`, `width is None`, `prec is None`, `assert False`), the `TypeError` of `None > SSIZE_MAX`, the `IndexError` of
    `add_argument` are all unreachable from the scanner -/
theorem error_own_generated {s : List Char} {e : PErr} (h : parseG s = .error e) : e.own = true :=
  C12.error_own (generated_parse_eq_model s ▸ h)

/-- the canonical arguments exist and are formatted -/
theorem accept_formats_canonical_generated {s : List Char} {r : Result} (hp : PlainPercent s) (h : parseG s = .ok r) :
    format s (argsOf r) = .ok () :=
  C12.accept_formats_canonical hp (generated_parse_eq_model s ▸ h)

/-- what the regenerated constructor raises, by cause (of `Lemmas.PyFmtReasons.conversion_error_cases`) -/
theorem conversion_errors_generated {w : Bool} {st : St} {d : Directive} {e : PErr} (h : conversionG w st d = .error e) :
    e = .crash .AssertionError ∨ e = .ArgumentIndexingMixture ∨ e = .WidthRangeError ∨ e = .PrecisionRangeError ∨ e = .ForbiddenArgumentKey := by
  rw [conversionG_eq] at h
  rcases conversion_error_cases h with r | ⟨r, _⟩ | ⟨r, _⟩ | ⟨r, _⟩ | ⟨r, _⟩ | ⟨r, _⟩ | ⟨r, _⟩ | ⟨r, _⟩ <;> simp [r]

/-! Non-vacuity -/

example : parseG "%(a)s %(b)d".toList = parse "%(a)s %(b)d".toList := generated_parse_eq_model _
example : (parseG "%5.2f%%".toList).toOption.map (fun r => r.seq.length) = some 1 := by
  rw [generated_parse_eq_model]; decide
example : (parseG "%(a)s %d".toList).toOption.isNone = true := by
  rw [generated_parse_eq_model]; decide

end I18n.Props.C12Tie
