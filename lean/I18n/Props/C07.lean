import I18n.Lemmas.CheckPlurals
import I18n.Generated.PluralGrammar
import I18n.Spec.PluralY
/-!
# C07 — Plural-Forms diagnostics are truthful, and complete on the examined window

About the hand-written model `CheckPlurals` of `Checker.check_plurals` (tied to the real method by the
`check-plurals` correspondence stream) whose three expression analyses are the evaluators GENERATED
from lib/intexpr.py; the truthfulness theorem is a corollary of C05 (`codomain_sound`) and C06
(`period_sound`).
-/
namespace I18n.Props.C07
open I18n I18n.Py I18n.Plural I18n.CheckPlurals

/-- **Header pattern pin.**  The regular expression `parse_plural_forms` searches with — dumped from the live
    compiled pattern on every run — is the one the model's scanner was written for, with no flags. -/
theorem header_regex_pin :
    Generated.PluralGrammar.pluralFormsRegex = Spec.PluralY.pluralFormsRegex ∧
    Generated.PluralGrammar.pluralFormsRegexFlags = 0 := by decide

/-- **Truthfulness of "never produced" claims.**  Run the 200-window as `check_plurals` does (empty
    preimage at the start), then the gap analysis.  For every range `[a, b)` for which a
    `f(x) != a, …, b-1` diagnostic is emitted, NO `m` in `[0, 2^32)` evaluates to a value in it. -/
theorem gap_claim_true (n : Nat) (e : Expr) (lc : Option (Nat × Expr)) (hp : Bool) (ut : TagCall)
    (st0 st : WinState) (fin : WinEnd) (h0 : st0.pre = [])
    (hw : window n e lc hp ut (List.range codomainLimit) st0 = (st, fin))
    (rs : List (Nat × Nat)) (hg : gapRanges n e (completedOf st fin) = .ok rs) :
    ∀ r ∈ rs, ∀ k : Nat, r.1 ≤ k → k < r.2 → ∀ m : Nat, (m : Int) < 2 ^ 32 → evalAt 32 m e ≠ .ok (k : Int) := by
  apply gapRanges_true n e (completedOf st fin) rs hg
  intro pre hpre
  cases fin with
  | completed =>
    simp only [completedOf, Option.some.injEq] at hpre
    subst hpre
    obtain ⟨hgood, hkeys, _⟩ := window_completed n e lc hp ut _ st0 st hw
    refine ⟨?_, ?_⟩
    · intro i hi
      have hmem : i ∈ List.range codomainLimit := List.mem_range.2 hi
      obtain ⟨v, hv, _, _⟩ := badMsg_none (hgood i hmem)
      exact ⟨v, hv, (hkeys v).2 (Or.inr ⟨i, hmem, hv⟩)⟩
    · intro k hk
      rcases (hkeys k).1 hk with h | ⟨i, hi, hv⟩
      · simp [keys, h0] at h
      · obtain ⟨v, hv', hv0, _⟩ := badMsg_none (hgood i hi)
        rw [hv] at hv'; cases hv'; exact hv0
  | stopped => simp [completedOf] at hpre
  | crashed ex => simp [completedOf] at hpre

/-- **Completeness on the window.**  (With the registry's expression total on the window.)  The window
    stops with an arithmetic-error or codomain-error diagnostic iff some `i < 200` fails or yields a value
    `≥ nplurals` … -/
theorem window_tag_iff (n : Nat) (e : Expr) (lc : Option (Nat × Expr)) (hp : Bool) (ut : TagCall)
    (st0 st : WinState) (fin : WinEnd) (hlc : LcTotal lc (List.range codomainLimit))
    (hw : window n e lc hp ut (List.range codomainLimit) st0 = (st, fin)) :
    (fin = .stopped ↔ ∃ i, i < codomainLimit ∧ badMsg n e i ≠ none) := by
  constructor
  · rintro rfl
    obtain ⟨pre, i, post, msg, mid, his, _, hbad, _, _⟩ := window_stopped n e lc hp ut _ st0 st hw hlc
    refine ⟨i, ?_, by simp [hbad]⟩
    have : i ∈ List.range codomainLimit := by rw [his]; simp
    exact List.mem_range.1 this
  · rintro ⟨i, hi, hbad⟩
    cases fin with
    | stopped => rfl
    | completed =>
      obtain ⟨hgood, _, _⟩ := window_completed n e lc hp ut _ st0 st hw
      exact absurd (hgood i (List.mem_range.2 hi)) hbad
    | crashed ex => exact absurd hw (window_nocrash n e lc hp ut _ st0 st ex)

/-- … and then the diagnostic is the last tag, names the LEAST such `i` and states its true outcome
    (`f(i) = v >= n`, `integer overflow`, `division by zero`); before it at most `unusual-…` tags. -/
theorem window_tag_least (n : Nat) (e : Expr) (lc : Option (Nat × Expr)) (hp : Bool) (ut : TagCall)
    (st0 st : WinState) (hlc : LcTotal lc (List.range codomainLimit))
    (hw : window n e lc hp ut (List.range codomainLimit) st0 = (st, .stopped)) :
    ∃ i msg mid, i < codomainLimit ∧ (∀ j, j < i → badMsg n e j = none) ∧ badMsg n e i = some msg ∧
      st.tags = st0.tags ++ mid ++ [⟨badTagName n e i hp, [.safe msg]⟩] ∧ (∀ t ∈ mid, t = ut) := by
  obtain ⟨pre, i, post, msg, mid, his, hpre, hbad, htags, hmid⟩ := window_stopped n e lc hp ut _ st0 st hw hlc
  -- `pre` is exactly `0 … i-1`
  have hlen : pre.length = i ∧ pre = List.range i := by
    have h1 : (List.range codomainLimit)[pre.length]? = some i := by rw [his]; simp
    have hi : pre.length = i := by
      have hlt : pre.length < codomainLimit := by
        have := congrArg List.length his
        simp at this; omega
      rw [List.getElem?_range hlt] at h1
      simpa using h1
    refine ⟨hi, ?_⟩
    have h2 := congrArg (List.take pre.length) his
    simp only [List.take_left'] at h2
    rw [← h2, List.take_range, hi]
    congr 1
    have : i < codomainLimit := by
      have := congrArg List.length his
      simp at this; omega
    omega
  refine ⟨i, msg, mid, ?_, ?_, hbad, htags, hmid⟩
  · have := congrArg List.length his
    simp at this; omega
  · intro j hj
    exact hpre j (by rw [hlen.2]; exact List.mem_range.2 hj)

/-- The window itself never lets an exception escape. -/
theorem window_nocrash (n : Nat) (e : Expr) (lc : Option (Nat × Expr)) (hp : Bool) (ut : TagCall)
    (is : List Nat) (st st' : WinState) (ex : Exc) : window n e lc hp ut is st ≠ (st', .crashed ex) :=
  CheckPlurals.window_nocrash n e lc hp ut is st st' ex

/-- The gap analysis never raises (the `UnboundLocalError` of the pinned tree for expressions without a
    codomain, e.g. `plural=n/0`, was repaired in /repo by a `fix:` commit; before it this was refuted by
    `gapRanges 3 (n/0) none = error UnboundLocal`). -/
theorem gap_nocrash (n : Nat) (e : Expr) (completed : Option Preimage) : ∃ rs, gapRanges n e completed = .ok rs :=
  gapRanges_nocrash n e completed

/-! Non-vacuity -/

/-- `nplurals=2; plural=n>1` on the window: completed, nothing to report -/
example : (window 2 (.compare .name .gt (.num 1)) none true ⟨"u", []⟩ (List.range codomainLimit) ⟨[], [], false⟩).2 = .completed := by rfl
/-- `nplurals=2; plural=n%3`: stops at the least bad index 2 -/
example : badMsg 2 (.binop .name .mod (.num 3)) 2 = some "f(2) = 2 >= 2".toList := by rfl
/-- `nplurals=3; plural=n%2*2`: total and in range on the window, yet index 1 is never produced: the gap analysis says so -/
example : gapRanges 3 (.binop (.binop .name .mod (.num 2)) .mult (.num 2))
    (some [(0, [0]), (2, [1])]) = .ok [(1, 2)] := by rfl

/-- `plural=n/0`: no codomain, nothing claimed, no crash -/
example : gapRanges 3 (.binop .name .div (.num 0)) none = .ok [] := by rfl

end I18n.Props.C07
