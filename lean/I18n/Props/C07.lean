import I18n.Lemmas.CheckPluralsFinal
import I18n.Lemmas.PluralFormsDeclText
import I18n.Lemmas.CheckPluralsUnusual
import I18n.Lemmas.CheckPluralsExits
/-!
# C07 — Plural-Forms diagnostics are truthful, and complete on the examined window

About the hand-written model `CheckPlurals` of `Checker.check_plurals` / `gettext.parse_plural_forms` (tied to the real
method by the `check-plurals` correspondence stream).  What is NOT hand-written and regenerated from /repo on every run:
the three expression analyses (`Plural.evalAt/codomain/period`, from lib/intexpr.py), the `re._parser` tree of the header
pattern, the registry of declarations as `lib.ling` loaded it, the window size and the `format_range` maximum
(`Generated.PluralForms`).

Reading of the statement (DESIGN §6 C07): "the field contains `nplurals=<positive integer>; plural=<valid expression>`"
= `Spec.PluralForms.declOf v ≠ none`: the LEFTMOST match of the live header pattern (reference engine semantics
`Spec.PluralFormsRe`: greedy, backtracking order, leftmost start) whose group 2 is accepted by the expression parser.

Every theorem below is about `checkPlurals inp = .ok out` for a non-template input with one distinct Plural-Forms value
(`headerValues inp = [pf]`; a repeated identical field is included, it adds the `duplicate-header-field` tag).
-/
namespace I18n.Props.C07
open I18n I18n.Py I18n.Plural I18n.CheckPlurals I18n.Spec.PluralForms

/-! ## what is pinned to the live code -/

/-- **Header pattern pin.**  The `re._parser` tree of the pattern `parse_plural_forms` uses — dumped from the live compiled
    pattern on every run, character classes canonicalised — is the tree the scanner theorems are about; it is used with
    `search` and without flags. -/
theorem header_regex_pin :
    Generated.PluralForms.headerRe = CheckPlurals.headerRe ∧
    Generated.PluralForms.headerMethod = "search" ∧ Generated.PluralForms.headerFlags = 0 := by decide

/-- **Window pin.**  `codomain_limit`, the only `range(…)` the method loops over, and `format_range`'s `max`. -/
theorem window_constants_pin :
    Generated.PluralForms.codomainLimit = CheckPlurals.codomainLimit ∧
    Generated.PluralForms.rangeLoops = ["codomain_limit"] ∧
    Generated.PluralForms.formatRangeMax = 5 := by decide

/-! ## the header scanner is the regex -/

/-- **The model's scanner is `pattern.search`.**  On every string the hand-written scanner returns `None` exactly when the
    reference engine finds no match of the live pattern, and otherwise the same text before the match, the same text
    after it and the same two groups. -/
theorem scanner_is_search (s : List Char) :
    (Spec.PluralFormsRe.search Generated.PluralForms.headerRe s).map (fun f => (f.pre, f.post, f.caps)) =
      (CheckPlurals.search [] s).map (fun y => (y.1, y.2.2.2, [(1, y.2.1), (2, y.2.2.1)])) := by
  rw [header_regex_pin.1]
  exact search_header s []

/-- `search` of the reference engine is "leftmost start position that admits a match, the engine's preferred match there" -/
theorem search_leftmost (r : Spec.PluralFormsRe.Re) (s : List Char) :
    (∀ f, Spec.PluralFormsRe.search r s = some f → Spec.PluralFormsRe.IsLeftmost r s f) ∧
    (Spec.PluralFormsRe.search r s = none ↔ ∀ p q, s = p ++ q → Spec.PluralFormsRe.runs r q = []) :=
  ⟨fun _ h => search_isLeftmost h, searchFrom_none r s []⟩

/-- **The model's reader is the reference reading** of a header value: `parse_plural_forms(v, strict=False)` succeeds
    exactly when `v` contains a declaration and returns it (nplurals, expression, text before, text after); the `ValueError`
    outcome of `int()` is unreachable. -/
theorem reader_is_reference (v : List Char) :
    parsePluralForms v = match declOf v with
      | some d => .ok d.n d.e d.ljunk d.rjunk
      | none => .syntaxError :=
  parsePluralForms_eq_declOf v

/-- **The reference reading, as plain text** (no regex engine involved).  `v` contains the declaration `d` iff
    `v = ljunk ++ q` where `q` STARTS with `nplurals=<ds>;<blanks>plural=<ex>[;]` (`OccursAt`: `ds` a positive numeral without
    leading zero, blanks are spaces and tabs, `ex` the non-empty text up to the first `;` or the end) followed by `rjunk`, no
    occurrence of that syntax starts earlier in `v`, `n` is the decimal value of `ds`, and `ex` parses to `e`. -/
theorem decl_is_text (v : List Char) (d : Decl) :
    declOf v = some d ↔ ∃ q ds ex, v = d.ljunk ++ q ∧ OccursAt q ds ex d.rjunk ∧ NoneBefore v d.ljunk.length ∧
      d.n = decimal ds ∧ PluralParse.parse ex = .ok d.e :=
  declOf_text v d

/-- … and `v` contains no declaration iff the syntax occurs nowhere in it, or the expression text of its LEFTMOST occurrence
    does not parse (a later well-formed occurrence does not help: the reading fixed in DESIGN §6 C07). -/
theorem no_decl_is_text (v : List Char) :
    ¬ HasDecl v ↔ (∀ p q, v = p ++ q → ∀ ds ex rj, ¬ OccursAt q ds ex rj) ∨
      (∃ p q ds ex rj, v = p ++ q ∧ OccursAt q ds ex rj ∧ NoneBefore v p.length ∧ ∀ e, PluralParse.parse ex ≠ .ok e) := by
  have hd : ¬ HasDecl v ↔ declOf v = none := by
    unfold HasDecl
    cases declOf v <;> simp
  exact hd.trans (declOf_none_text v)

/-! ## clause 1: syntax error iff no declaration; junk -/

/-- **`syntax_tag_iff`.**  A `syntax-error-in-[unused-]plural-forms` tag is emitted iff the header value contains no
    declaration; it quotes the value (and the hint), and is then the only tag besides duplicate / inconsistent-number ones. -/
theorem syntax_tag_iff (inp : Input) (pf : List Char) (out : Output) (hv : headerValues inp = [pf]) (ht : inp.isTemplate = false)
    (h : checkPlurals inp = .ok out) :
    ((∃ t ∈ out.tags, isSyntaxName t.name) ↔ ¬ HasDecl pf) ∧
    (∀ t ∈ out.tags, isSyntaxName t.name → t = syntaxTag (hasPlurals inp) pf (hintOf inp)) ∧
    (¬ HasDecl pf → out = ⟨tags0Of inp ++ [syntaxTag (hasPlurals inp) pf (hintOf inp)], none⟩) := by
  have hd : ¬ HasDecl pf ↔ declOf pf = none := by
    unfold HasDecl
    cases declOf pf <;> simp
  obtain ⟨h1, h2, h3⟩ := syntax_tag_iff' inp pf out hv ht h
  exact ⟨h1.trans hd.symm, h2, fun hn => h3 (hd.1 hn)⟩

/-- **`junk_tag_iff`.**  `leading-junk-in-plural-forms` (`trailing-…`) is emitted iff the value contains a declaration and
    the text before (after) the leftmost match is not empty; the tag quotes exactly that text. -/
theorem junk_tag_iff (inp : Input) (pf : List Char) (out : Output) (hv : headerValues inp = [pf]) (ht : inp.isTemplate = false)
    (h : checkPlurals inp = .ok out) :
    ((∃ t ∈ out.tags, t.name = "leading-junk-in-plural-forms") ↔ ∃ d, declOf pf = some d ∧ d.ljunk ≠ []) ∧
    ((∃ t ∈ out.tags, t.name = "trailing-junk-in-plural-forms") ↔ ∃ d, declOf pf = some d ∧ d.rjunk ≠ []) ∧
    (∀ t ∈ out.tags, t.name = "leading-junk-in-plural-forms" → ∃ d, declOf pf = some d ∧ t.extras = [.str d.ljunk]) ∧
    (∀ t ∈ out.tags, t.name = "trailing-junk-in-plural-forms" → ∃ d, declOf pf = some d ∧ t.extras = [.str d.rjunk]) :=
  junk_tag_iff' inp pf out hv ht h

/-! ## clause 2: the window diagnostic; clause 3: "never produced" claims -/

/-- **`window_report`** (`window_tag_iff` + `window_tag_least` + `gap_claim_true` on the whole method).  For a value that
    contains a declaration `(n, e)` (registry declarations total on the window — true of the shipped registry,
    `shipped_registry_clean`): the tags are `front ++ last ++ gaps` where
    * `front` holds no arithmetic-error / codomain-error tag;
    * `last = []` iff every `i < 200` evaluates to a value `< n`; otherwise `last` is exactly ONE tag, for the LEAST `i`
      that fails or yields a value `≥ n`, stating its true outcome (`badMsg`: `f(i) = v >= n`, `f(i): integer overflow`,
      `f(i): division by zero`), named codomain-error for a value and arithmetic-error for a failure;
    * `gaps` are the `f(x) != a, …` tags: each about a non-empty range `[a, b)` NO member of which is produced by ANY
      `m < 2^32`;
    * a preimage is recorded only if there is neither a window diagnostic nor a gap. -/
theorem window_report (inp : Input) (pf : List Char) (out : Output) (hv : headerValues inp = [pf]) (ht : inp.isTemplate = false)
    (d : Decl) (hd : declOf pf = some d) (h : checkPlurals inp = .ok out) (hreg : RegistryClean inp) :
    ∃ front last rs, out.tags = front ++ last ++ gapTags (hasPlurals inp) rs ∧
      (∀ t ∈ front, ¬ isArithName t.name ∧ ¬ isCodomainName t.name) ∧
      (last = [] ↔ ∀ i, i < codomainLimit → badMsg d.n d.e i = none) ∧
      (∀ i msg, i < codomainLimit → (∀ j, j < i → badMsg d.n d.e j = none) → badMsg d.n d.e i = some msg →
        last = [⟨badTagName d.n d.e i (hasPlurals inp), [.safe msg]⟩]) ∧
      (∀ r ∈ rs, r.1 < r.2 ∧ ∀ k : Nat, r.1 ≤ k → k < r.2 → ∀ m : Nat, (m : Int) < 2 ^ 32 → evalAt 32 m d.e ≠ .ok (k : Int)) ∧
      (out.preimage ≠ none → last = [] ∧ rs = []) := by
  obtain ⟨n, e, lj, rj⟩ := d
  exact window_report' inp pf out hv ht n e lj rj (declOf_eq_some.2 hd) h hreg

/-- … in particular for every catalog whose language is unknown or one of the SHIPPED registry (no hypothesis left about the
    registry: `shipped_registry_clean`) -/
theorem window_report_shipped (inp : Input) (pf : List Char) (out : Output) (hv : headerValues inp = [pf]) (ht : inp.isTemplate = false)
    (d : Decl) (hd : declOf pf = some d) (h : checkPlurals inp = .ok out) (hreg : FromRegistry inp) :
    ∃ front last rs, out.tags = front ++ last ++ gapTags (hasPlurals inp) rs ∧
      (∀ t ∈ front, ¬ isArithName t.name ∧ ¬ isCodomainName t.name) ∧
      (last = [] ↔ ∀ i, i < codomainLimit → badMsg d.n d.e i = none) ∧
      (∀ i msg, i < codomainLimit → (∀ j, j < i → badMsg d.n d.e j = none) → badMsg d.n d.e i = some msg →
        last = [⟨badTagName d.n d.e i (hasPlurals inp), [.safe msg]⟩]) ∧
      (∀ r ∈ rs, r.1 < r.2 ∧ ∀ k : Nat, r.1 ≤ k → k < r.2 → ∀ m : Nat, (m : Int) < 2 ^ 32 → evalAt 32 m d.e ≠ .ok (k : Int)) ∧
      (out.preimage ≠ none → last = [] ∧ rs = []) :=
  window_report inp pf out hv ht d hd h hreg.clean

/-- what `badMsg = none` means: the index evaluates, to a valid form index -/
theorem badMsg_none_iff (n : Nat) (e : Expr) (i : Nat) :
    badMsg n e i = none ↔ ∃ v, evalAt 32 i e = .ok v ∧ 0 ≤ v ∧ v < n := by
  constructor
  · exact badMsg_none
  · rintro ⟨v, hv, _, hvn⟩
    simp only [badMsg, hv]
    rw [if_neg (by omega)]

/-- and what it says otherwise: the true outcome at `i` -/
theorem badMsg_some (n : Nat) (e : Expr) (i : Nat) (msg : List Char) (h : badMsg n e i = some msg) :
    (evalAt 32 i e = .error .Overflow ∧ msg = "f(".toList ++ natStr i ++ "): integer overflow".toList) ∨
    (evalAt 32 i e = .error .ZeroDivision ∧ msg = "f(".toList ++ natStr i ++ "): division by zero".toList) ∨
    (∃ v, evalAt 32 i e = .ok v ∧ v ≥ n ∧ msg = "f(".toList ++ natStr i ++ ") = ".toList ++ intStr v ++ " >= ".toList ++ natStr n) := by
  unfold badMsg at h
  cases hev : evalAt 32 i e with
  | error ex =>
    rw [hev] at h
    rcases eval_err_cases hev with rfl | rfl
    · left; simp only [Option.some.injEq] at h; exact ⟨rfl, h.symm⟩
    · right; left; simp only [Option.some.injEq] at h; exact ⟨rfl, h.symm⟩
  | ok v =>
    rw [hev] at h
    simp only at h
    split at h
    · rename_i hv
      right; right
      simp only [Option.some.injEq] at h
      exact ⟨v, rfl, hv, h.symm⟩
    · cases h

/-- **Truthfulness of "never produced" claims** (window level).  Run the 200-window as `check_plurals` does (empty preimage
    at the start), then the gap analysis.  For every range `[a, b)` for which a `f(x) != a, …, b-1` diagnostic is emitted,
    NO `m` in `[0, 2^32)` evaluates to a value in it: corollary of C05 `codomain_sound` and C06 `period_sound`. -/
theorem gap_claim_true (n : Nat) (e : Expr) (lc : Option (Nat × Expr)) (hp : Bool) (ut : TagCall)
    (st0 st : WinState) (fin : WinEnd) (h0 : st0.pre = [])
    (hw : window n e lc hp ut (List.range codomainLimit) st0 = (st, fin))
    (rs : List (Nat × Nat)) (hg : gapRanges n e (completedOf st fin) = .ok rs) :
    ∀ r ∈ rs, ∀ k : Nat, r.1 ≤ k → k < r.2 → ∀ m : Nat, (m : Int) < 2 ^ 32 → evalAt 32 m e ≠ .ok (k : Int) :=
  gapRanges_true n e (completedOf st fin) rs hg (completedOf_facts n e lc hp ut st0 st fin h0 hw)

/-- **Completeness on the window** (window level; registry expression total on the window).  The window stops with an
    arithmetic-error or codomain-error diagnostic iff some `i < 200` fails or yields a value `≥ nplurals` … -/
theorem window_tag_iff (n : Nat) (e : Expr) (lc : Option (Nat × Expr)) (hp : Bool) (ut : TagCall)
    (st0 st : WinState) (fin : WinEnd) (hlc : LcTotal lc (List.range codomainLimit))
    (hw : window n e lc hp ut (List.range codomainLimit) st0 = (st, fin)) :
    (fin = .stopped ↔ ∃ i, i < codomainLimit ∧ badMsg n e i ≠ none) := by
  constructor
  · rintro rfl
    obtain ⟨pre, i, post, msg, mid, his, _, hbad, _, _⟩ := window_stopped n e lc hp ut _ st0 st hw hlc
    refine ⟨i, ?_, by simp [hbad]⟩
    have : i ∈ List.range codomainLimit := by rw [his]; simp
    exact List.mem_range.1 this
  · rintro ⟨i, hi, hbad⟩
    cases fin with
    | stopped => rfl
    | completed =>
      obtain ⟨hgood, _, _⟩ := window_completed n e lc hp ut _ st0 st hw
      exact absurd (hgood i (List.mem_range.2 hi)) hbad
    | crashed ex => exact absurd hw (CheckPlurals.window_nocrash n e lc hp ut _ st0 st ex)

/-- … and then the diagnostic is the last tag, names the LEAST such `i` and states its true outcome; before it at most
    `unusual-…` tags. -/
theorem window_tag_least (n : Nat) (e : Expr) (lc : Option (Nat × Expr)) (hp : Bool) (ut : TagCall)
    (st0 st : WinState) (hlc : LcTotal lc (List.range codomainLimit))
    (hw : window n e lc hp ut (List.range codomainLimit) st0 = (st, .stopped)) :
    ∃ i msg mid, i < codomainLimit ∧ (∀ j, j < i → badMsg n e j = none) ∧ badMsg n e i = some msg ∧
      st.tags = st0.tags ++ mid ++ [⟨badTagName n e i hp, [.safe msg]⟩] ∧ (∀ t ∈ mid, t = ut) :=
  window_stopped_least n e lc hp ut st0 st hlc hw

/-- **`format_range`.**  The text after `f(x) != ` is `", ".join(items)` where every item is the decimal of a member of the
    (non-empty) range or the ellipsis; up to 5 members are listed in full, longer ranges as `a, a+1, a+2, ..., b-1` —
    so every index NAMED in a gap tag is covered by `window_report`'s claim. -/
theorem format_range_sound (a b : Nat) (hab : a < b) :
    formatRange a b = ", ".toList.intercalate (rangeItems a b) ∧
    (∀ it ∈ rangeItems a b, it = "...".toList ∨ ∃ k, a ≤ k ∧ k < b ∧ it = natStr k) ∧
    (b - a ≤ 5 → rangeItems a b = (List.range (b - a)).map (fun k => natStr (k + a))) ∧
    (5 < b - a → rangeItems a b = [natStr a, natStr (a + 1), natStr (a + 2), "...".toList, natStr (b - 1)]) :=
  ⟨formatRange_eq a b, rangeItems_sound a b hab⟩

/-! ## clause 4: nplurals against the messages -/

/-- **`nplurals_tag_iff`.**  `incorrect-number-of-plural-forms` is emitted iff the value contains a declaration and its
    nplurals differs from THE number of msgstr[] forms of the translated, non-obsolete plural messages (all of them have
    that number: `ConsistentCount`); the tag states both numbers. -/
theorem nplurals_tag_iff (inp : Input) (pf : List Char) (out : Output) (hv : headerValues inp = [pf]) (ht : inp.isTemplate = false)
    (h : checkPlurals inp = .ok out) :
    ((∃ t ∈ out.tags, t.name = "incorrect-number-of-plural-forms") ↔
      ∃ d k, declOf pf = some d ∧ ConsistentCount inp k ∧ d.n ≠ k) ∧
    (∀ t ∈ out.tags, t.name = "incorrect-number-of-plural-forms" →
      ∃ d k, declOf pf = some d ∧ ConsistentCount inp k ∧ d.n ≠ k ∧
        t.extras = [.int d.n, .safe "(Plural-Forms header field)".toList, .str "!=".toList, .int k, .safe "(number of msgstr items)".toList]) :=
  nplurals_tag_iff' inp pf out hv ht h

/-- what the scan of the catalog computes: `expected_nplurals` is the single pair `(k, _)` iff all counted messages have `k`
    forms (and there is one); it is empty iff none is counted; `has_plurals` iff some non-obsolete message is plural -/
theorem scan_spec (inp : Input) :
    (expectedOf inp = [] ↔ formCounts inp.msgs = []) ∧
    (∀ k, (∃ x, expectedOf inp = [(k, x)]) ↔ ConsistentCount inp k) ∧
    hasPlurals inp = inp.msgs.any (fun m => !m.obsolete && m.hasPlural) := by
  have := scanMsgs_spec inp.msgs false [] (by simp)
  refine ⟨by simpa [expectedOf] using this.1, expected_single_iff inp, by simpa [hasPlurals] using this.2.2⟩

/-- **`inconsistent_tag_iff`.**  `inconsistent-number-of-plural-forms` is emitted iff two translated, non-obsolete plural
    messages have different numbers of msgstr[] forms — so "the (consistent) number" of `nplurals_tag_iff` exists exactly when
    this tag is absent and some plural message is translated. -/
theorem inconsistent_tag_iff (inp : Input) (pf : List Char) (out : Output) (hv : headerValues inp = [pf]) (ht : inp.isTemplate = false)
    (h : checkPlurals inp = .ok out) :
    (∃ t ∈ out.tags, t.name = "inconsistent-number-of-plural-forms") ↔
      ∃ a ∈ formCounts inp.msgs, ∃ b ∈ formCounts inp.msgs, a ≠ b :=
  inconsistent_tag_iff' inp pf out hv ht h

/-- **The other exits of the method** (outside the scope of the statement, for completeness of the case map): several distinct
    values ⇒ only the duplicate tag; no field ⇒ a `no-[required-]plural-forms-header-field` tag iff the catalog has plural
    messages; a template ⇒ the value is not analysed. -/
theorem other_exits (inp : Input) :
    ((headerValues inp).length > 1 → checkPlurals inp = .ok ⟨[⟨"duplicate-header-field-plural-forms", []⟩], none⟩) ∧
    (headerValues inp = [] → checkPlurals inp = .ok ⟨tags0Of inp ++
      (if hasPlurals inp then
        [⟨if (expectedOf inp).isEmpty then "no-plural-forms-header-field" else "no-required-plural-forms-header-field", [hintOf inp]⟩]
       else []), none⟩) ∧
    (∀ pf, headerValues inp = [pf] → inp.isTemplate = true → checkPlurals inp = .ok ⟨tags0Of inp, none⟩) :=
  ⟨report_many inp, report_none inp, report_template inp⟩

/-! ## clause 5: a clean declaration is silent; clause 6: the registry is never unusual -/

/-- **`clean_decl_silent`.**  One Plural-Forms field whose value is exactly a declaration `(n, e)` (no junk) that is total
    on the window, in range and onto `{0..n-1}`, `n` agreeing with the messages, the declaration being one of the registry's
    for the language (or no language known): `check_plurals` emits NO tag and records the preimage of the window. -/
theorem clean_decl_silent (inp : Input) (pf : List Char) (hpfs : inp.pluralForms = [pf]) (ht : inp.isTemplate = false)
    (n : Nat) (e : Expr) (hd : declOf pf = some ⟨n, e, [], []⟩) (hclean : CleanOnWindow n e)
    (hcount : ∀ j ∈ formCounts inp.msgs, j = n) (hparses : RegistryParses inp)
    (hreg : inp.correct = none ∨ ∃ cs c lj' rj', inp.correct = some cs ∧ c ∈ cs ∧ parsePluralFormsStrict c = .ok n e lj' rj') :
    ∃ pre, checkPlurals inp = .ok ⟨[], some pre⟩ ∧ ∀ k, k ∈ keys pre ↔ ∃ i : Nat, i < codomainLimit ∧ evalAt 32 i e = .ok k :=
  clean_decl_silent' inp pf hpfs ht n e (declOf_eq_some.2 hd) hclean hcount hparses hreg

/-- **`clean_decl_no_own_diagnostic`.**  Without the agreement hypotheses: a declaration that is total on the window, in range
    and onto draws no diagnostic about ITSELF — every tag is junk around it, or a comparison with the catalog / the
    registry (duplicate field, inconsistent / incorrect number of forms, unusual) — and the preimage is recorded. -/
theorem clean_decl_no_own_diagnostic (inp : Input) (pf : List Char) (out : Output) (hv : headerValues inp = [pf])
    (ht : inp.isTemplate = false) (d : Decl) (hd : declOf pf = some d) (h : checkPlurals inp = .ok out)
    (hclean : CleanOnWindow d.n d.e) (hreg : RegistryClean inp) :
    (∀ t ∈ out.tags, isComparisonName t.name ∨ t = ⟨"leading-junk-in-plural-forms", [.str d.ljunk]⟩ ∨
        t = ⟨"trailing-junk-in-plural-forms", [.str d.rjunk]⟩) ∧
    ∃ pre, out.preimage = some pre ∧ ∀ k, k ∈ keys pre ↔ ∃ i : Nat, i < codomainLimit ∧ evalAt 32 i d.e = .ok k := by
  obtain ⟨n, e, lj, rj⟩ := d
  exact clean_decl_names' inp pf out hv ht n e lj rj (declOf_eq_some.2 hd) h hclean hreg

/-- **`registry_never_unusual`** (general lemma).  If the declared `(n, e)` is what one of the registry's strings for the
    language parses to (or no language is known), no `unusual-[unused-]plural-forms` tag is emitted — whatever else is wrong. -/
theorem registry_never_unusual (inp : Input) (pf : List Char) (out : Output) (hv : headerValues inp = [pf]) (ht : inp.isTemplate = false)
    (d : Decl) (hd : declOf pf = some d) (h : checkPlurals inp = .ok out)
    (hreg : inp.correct = none ∨ ∃ cs c lj' rj', inp.correct = some cs ∧ c ∈ cs ∧ parsePluralFormsStrict c = .ok d.n d.e lj' rj') :
    ∀ t ∈ out.tags, ¬ isUnusualName t.name := by
  obtain ⟨n, e, lj, rj⟩ := d
  exact never_unusual' inp pf out hv ht n e lj rj (declOf_eq_some.2 hd) h hreg

/-- … in particular the registry's own string for the language, used as the header value, is never called unusual. -/
theorem registry_string_never_unusual (inp : Input) (pf : List Char) (out : Output) (hv : headerValues inp = [pf])
    (ht : inp.isTemplate = false) (cs : List (List Char)) (hcs : inp.correct = some cs) (hmem : pf ∈ cs)
    (hparse : ∃ n e, parsePluralFormsStrict pf = .ok n e [] []) (h : checkPlurals inp = .ok out) :
    ∀ t ∈ out.tags, ¬ isUnusualName t.name := by
  obtain ⟨n, e, hs⟩ := hparse
  exact never_unusual' inp pf out hv ht n e [] [] (strict_ok hs).1 h (Or.inr ⟨cs, pf, [], [], hcs, hmem, hs⟩)

/-- **`unusual_tag_iff`** (both directions; registry declarations total on the window).  `unusual-[unused-]plural-forms` is emitted iff
    the language is known and either NO declaration of its registry has the declared nplurals (`registryDecls`: the strict
    readings of the registry strings with that nplurals), or EXACTLY ONE has and the declared expression differs from it at
    some `i < 200` that the window reaches (every `j ≤ i` evaluates to a valid form index).  The tag quotes the value and the
    hint.  (With two or more registry declarations of one nplurals nothing is compared; no language of the shipped registry
    is like that: `shipped_registry_clean`.) -/
theorem unusual_tag_iff (inp : Input) (pf : List Char) (out : Output) (hv : headerValues inp = [pf]) (ht : inp.isTemplate = false)
    (d : Decl) (hd : declOf pf = some d) (h : checkPlurals inp = .ok out) (hreg : RegistryClean inp) :
    ((∃ t ∈ out.tags, isUnusualName t.name) ↔
      ∃ cs, inp.correct = some cs ∧ (registryDecls cs d.n = [] ∨
        ∃ le, registryDecls cs d.n = [(d.n, le)] ∧
          ∃ i, i < codomainLimit ∧ (∀ j, j ≤ i → badMsg d.n d.e j = none) ∧ evalAt 32 i d.e ≠ evalAt 32 i le)) ∧
    (∀ t ∈ out.tags, isUnusualName t.name → t = unusualTag (hasPlurals inp) pf (hintOf inp)) := by
  obtain ⟨n, e, lj, rj⟩ := d
  have := unusual_tag_iff' inp pf out hv ht n e lj rj (declOf_eq_some.2 hd) h hreg
  simp only [differsOn_range] at this
  exact this

/-- **The shipped registry** (kernel evaluation over the dump of data/languages as loaded): every one of its declarations
    parses strictly, is total on the window, in range and onto; its indices are valid; and no language has two declarations
    with the same nplurals. -/
theorem shipped_registry_clean :
    (∀ c ∈ Generated.PluralForms.registryStrings, ∃ n e, parsePluralFormsStrict c = .ok n e [] [] ∧ CleanOnWindow n e) ∧
    (∀ en ∈ Generated.PluralForms.registry, ∀ i ∈ en.2, i < Generated.PluralForms.registryStrings.length) ∧
    (∀ en ∈ Generated.PluralForms.registry, ((entryStrings en.2).map npluralsOf).Nodup) := by
  refine ⟨registry_string_clean, ?_, ?_⟩
  · intro en hen i hi
    have := List.all_eq_true.1 registry_indices_valid en hen
    simpa using List.all_eq_true.1 this i hi
  · intro en hen
    simpa using List.all_eq_true.1 registry_nplurals_distinct en hen

/-- **A registry declaration used as the header is silent**: for a language of the shipped registry, a catalog whose single
    Plural-Forms value is one of the language's registry strings and whose translated plural messages have that many forms
    gets no Plural-Forms tag at all. -/
theorem registry_declaration_silent (inp : Input) (pf : List Char) (hpfs : inp.pluralForms = [pf]) (ht : inp.isTemplate = false)
    (en : String × List Nat) (hen : en ∈ Generated.PluralForms.registry) (hcs : inp.correct = some (entryStrings en.2))
    (hmem : pf ∈ entryStrings en.2) (hcount : ∀ j ∈ formCounts inp.msgs, j = npluralsOf pf) :
    ∃ pre, checkPlurals inp = .ok ⟨[], some pre⟩ := by
  obtain ⟨n, e, hs, hclean⟩ := registry_string_clean pf (mem_entryStrings hmem)
  have hn : npluralsOf pf = n := by simp [npluralsOf, hs]
  have hfrom : FromRegistry inp := Or.inr ⟨en, hen, hcs⟩
  obtain ⟨pre, hpre, _⟩ := clean_decl_silent' inp pf hpfs ht n e (strict_ok hs).1 hclean (by rw [← hn]; exact hcount)
    hfrom.clean.parses (Or.inr ⟨_, pf, [], [], hcs, hmem, hs⟩)
  exact ⟨pre, hpre⟩

/-! ## no exception escapes -/

/-- The window itself never lets an exception escape. -/
theorem window_nocrash (n : Nat) (e : Expr) (lc : Option (Nat × Expr)) (hp : Bool) (ut : TagCall)
    (is : List Nat) (st st' : WinState) (ex : Exc) : window n e lc hp ut is st ≠ (st', .crashed ex) :=
  CheckPlurals.window_nocrash n e lc hp ut is st st' ex

/-- The gap analysis never raises (the `UnboundLocalError` of the pinned tree for expressions without a codomain, e.g.
    `plural=n/0`, was repaired in /repo by `fix:` 058f490). -/
theorem gap_nocrash (n : Nat) (e : Expr) (completed : Option Preimage) : ∃ rs, gapRanges n e completed = .ok rs :=
  gapRanges_nocrash n e completed

/-- **`checkPlurals_nocrash`.**  The whole method returns normally — for EVERY list of Plural-Forms values, every message
    list, template or not — whenever the language is unknown or one of the shipped registry: the `except` arms
    (`PluralFormsSyntaxError`, `OverflowError`, `ZeroDivisionError`) catch everything the body can raise.  (The model's two
    other exits — `ValueError` from `int()`, unreachable since `fix:` 871d4d7, and a registry string that does not parse —
    are excluded by `parse_ne_valueError` and `shipped_registry_clean`.) -/
theorem checkPlurals_nocrash (inp : Input) (hreg : FromRegistry inp) : ∃ out, checkPlurals inp = .ok out := by
  cases h : checkPlurals inp with
  | ok out => exact ⟨out, rfl⟩
  | error ex => exact absurd h (CheckPlurals.checkPlurals_nocrash inp hreg.clean.parses ex)

/-- … and for any registry whatsoever, as long as its strings parse (data integrity of the tool, not of the checked file) -/
theorem checkPlurals_nocrash_of_parses (inp : Input) (hreg : RegistryParses inp) (ex : Exc) : checkPlurals inp ≠ .error ex :=
  CheckPlurals.checkPlurals_nocrash inp hreg ex

/-! ## Non-vacuity -/

section examples

/-- the plain-text syntax: an occurrence at the head of a string -/
example : OccursAt "nplurals=2; plural=n>1; y".toList "2".toList "n>1".toList " y".toList :=
  (matchHere_iff _ _ _ _).1 (by decide +kernel)
/-- the reference reading: leftmost match, groups, junk -/
example : (declOf "x nplurals=2; plural=n>1; y".toList).map (fun d => (d.n, d.ljunk, d.rjunk)) = some (2, "x ".toList, " y".toList) := by rfl
/-- leftmost: the first occurrence is broken (`(` does not parse) and the second is fine — no declaration -/
example : (declOf "nplurals=2; plural=(; nplurals=1; plural=0;".toList).isNone = true := by rfl
/-- not a positive integer -/
example : (declOf "nplurals=0; plural=0;".toList).isNone = true := by rfl
/-- greedy `[^;]+` then optional `;`: the rest after the match starts after the first `;` -/
example : (declOf "nplurals=1; plural=0;;".toList).map (·.rjunk) = some ";".toList := by rfl

/-- syntax error: exactly that tag -/
example : names (checkPlurals ⟨["nplurals=2; plural=n+;".toList], none, [], [], false⟩) = ["syntax-error-in-unused-plural-forms"] := by decide +kernel
/-- junk on both sides is quoted -/
example : extrasOf (checkPlurals ⟨["x nplurals=1; plural=0; y".toList], none, [], [], false⟩) =
    [[.str "x ".toList], [.str " y".toList]] := by decide +kernel
/-- nplurals 2 against messages with 3 forms -/
example : names (checkPlurals ⟨[en], none, [], [plMsg 3], false⟩) = ["incorrect-number-of-plural-forms"] := by decide +kernel
example : ConsistentCount ⟨[en], none, [], [plMsg 3, plMsg 3], false⟩ 3 := ⟨by decide, by decide⟩
/-- two translated plural messages with different numbers of forms -/
example : names (checkPlurals ⟨[en], none, [], [plMsg 2, plMsg 3], false⟩) = ["inconsistent-number-of-plural-forms"] := by decide +kernel
/-- no field, plural messages translated -/
example : names (checkPlurals ⟨[], none, [], [plMsg 2], false⟩) = ["no-required-plural-forms-header-field"] := by decide +kernel
/-- the registry's declaration with agreeing messages: silent (hypotheses of `clean_decl_silent` hold) -/
example : names (checkPlurals ⟨[en], some [en], [en], [plMsg 2], false⟩) = [] := by decide +kernel
example : CleanOnWindow 2 (.compare .name .noteq (.num 1)) := cleanOnWindowB_sound (by decide +kernel)
/-- the registry's declarations of a language with a given nplurals -/
example : (registryDecls [en] 2).length = 1 ∧ (registryDecls [en] 3).length = 0 := by decide +kernel
/-- a clean but different declaration IS unusual (so `registry_never_unusual` is not vacuous) -/
example : names (checkPlurals ⟨["nplurals=2; plural=n>1;".toList], some [en], [en], [plMsg 2], false⟩) = ["unusual-plural-forms"] := by decide +kernel
/-- the least bad index and its true outcome -/
example : extrasOf (checkPlurals ⟨["nplurals=2; plural=n%3;".toList], none, [], [plMsg 2], false⟩) = [[.safe "f(2) = 2 >= 2".toList]] := by decide +kernel
example : badMsg 2 (.binop .name .mod (.num 3)) 2 = some "f(2) = 2 >= 2".toList := by rfl
/-- total and in range on the window, yet index 1 is never produced: the gap analysis says so -/
example : extrasOf (checkPlurals ⟨["nplurals=3; plural=n%2*2;".toList], none, [], [], false⟩) = [[.safe "f(x) != 1".toList]] := by decide +kernel
/-- `plural=n/0`: division by zero at 0, no codomain, nothing else claimed, no crash -/
example : extrasOf (checkPlurals ⟨["nplurals=3; plural=n/0;".toList], none, [], [], false⟩) = [[.safe "f(0): division by zero".toList]] := by decide +kernel
example : gapRanges 3 (.binop .name .div (.num 0)) none = .ok [] := by rfl
/-- `format_range` abbreviates from six members on -/
example : formatRange 0 10 = "0, 1, 2, ..., 9".toList := by decide +kernel
example : formatRange 2 7 = "2, 3, 4, 5, 6".toList := by decide +kernel
/-- the shipped registry is not empty, and its first language's declaration is what `FromRegistry` talks about -/
example : Generated.PluralForms.registry.length = 78 ∧ Generated.PluralForms.registryStrings.length = 10 := by decide
/-- `nplurals=2; plural=n>1` on the window: completed, nothing to report -/
example : (window 2 (.compare .name .gt (.num 1)) none true ⟨"u", []⟩ (List.range codomainLimit) ⟨[], [], false⟩).2 = .completed := by rfl
end examples

end I18n.Props.C07
