import I18n.Lemmas.GettextPfGenerated
import I18n.Props.C07
/-!
# C07 — the tie (first part): `parse_plural_forms` REGENERATED from `lib/gettext.py` is the model's reader

`I18n.Generated.GettextPf` is rewritten from the repository's current `lib/gettext.py` (`parse_plural_forms`, once per value of its
`strict` flag) by `tools/translate/gettextpf2lean.py` on every run.  The theorems below prove both regenerated definitions equal,
for ALL strings, to `CheckPlurals.parsePluralForms` / `parsePluralFormsStrict` — the first step of `check_plurals` and the reading of
every registry string — and restate `reader_is_reference` about the regenerated reader.  The match object of the pinned header
regex is the model's hand-written scanner `CheckPlurals.search` on both sides (tied to the live pattern's `re._parser` tree by
`header_regex_pin` and the research stream); the expression parser is C04's.  `check_plurals` itself (lib/check/__init__.py) remains
hand-modelled and tied by the check-plurals stream.
-/
namespace I18n.Props.C07Tie
open I18n I18n.Py I18n.Plural I18n.CheckPlurals I18n.Spec.PluralForms I18n.Generated

/-- `parse_plural_forms(s, strict=False)` as regenerated = `parsePluralForms` (results and exceptions) -/
theorem generated_parse_plural_forms_lax_eq_model (s : List Char) :
    GettextPf.parse_plural_forms_lax s = CheckPlurals.Py.ofResult (parsePluralForms s) :=
  Gen.lax_eq s

/-- `parse_plural_forms(s)` (strict) as regenerated = `parsePluralFormsStrict` -/
theorem generated_parse_plural_forms_strict_eq_model (s : List Char) :
    GettextPf.parse_plural_forms_strict s =
      (match CheckPlurals.Py.ofResult (parsePluralFormsStrict s) with
       | .ok (n, e, _, _) => .ok (n, e)
       | .error x => .error x) :=
  Gen.strict_eq s

/-- **reader_is_reference**, of the regenerated reader: `parse_plural_forms(v, strict=False)` succeeds exactly when `v` contains a
    declaration and returns it (nplurals, expression, text before, text after); otherwise `PluralFormsSyntaxError`; `ValueError` is
    unreachable -/
theorem reader_is_reference_generated (v : List Char) :
    GettextPf.parse_plural_forms_lax v = match declOf v with
      | some d => .ok (d.n, d.e, d.ljunk, d.rjunk)
      | none => .error .syntax := by
  rw [generated_parse_plural_forms_lax_eq_model, C07.reader_is_reference]
  cases declOf v <;> rfl

/-- the strict reader accepts exactly the values that are a declaration and nothing else -/
theorem strict_reader_generated (v : List Char) (n : Nat) (e : Expr) :
    GettextPf.parse_plural_forms_strict v = .ok (n, e) ↔ parsePluralFormsStrict v = .ok n e [] [] := by
  rw [generated_parse_plural_forms_strict_eq_model]
  simp only [parsePluralFormsStrict]
  cases parsePluralForms v with
  | ok n' e' lj rj =>
    cases lj <;> cases rj <;> simp [CheckPlurals.Py.ofResult]
  | syntaxError => simp [CheckPlurals.Py.ofResult]
  | valueError => simp [CheckPlurals.Py.ofResult]

/-! Non-vacuity -/

example : GettextPf.parse_plural_forms_lax "x".toList = .error .syntax := by
  rw [generated_parse_plural_forms_lax_eq_model]; rfl

end I18n.Props.C07Tie
