import I18n.Model.Plural
import I18n.Lemmas.Period
/-!
# C06 — periodicity analysis of plural expressions is sound

Stated about the definitions generated from `lib/intexpr.py` (including the `gcd` loop and the
`lcm` fold), for every expression, every width and every `n`.
-/
namespace I18n.Props.C06
open I18n I18n.Py I18n.Plural I18n.Generated.Intexpr

/-- The analysis never fails: `gcd` terminates within its declared variant, no division by zero
    happens inside `lcm`, no attribute error on `node.right.n`. -/
theorem period_nocrash (bits : Nat) (e : Expr) : ∃ r, period bits e = .ok r := by
  obtain ⟨r, hr, _⟩ := period_main (M := (2 : Int) ^ bits) e
  exact ⟨r, hr⟩

/-- **C06.**  If the analysis returns `(O, P)` for width `bits`, then `P > 0` and for every `n ≥ O`
    with `n + P < 2^bits` the expression has the same outcome at `n` and at `n + P`: the same value,
    or a failure at both. -/
theorem period_sound (bits : Nat) (e : Expr) (O P : Int) (h : period bits e = .ok (some (O, P))) :
    0 ≤ O ∧ 0 < P ∧
      ∀ n : Nat, O ≤ (n : Int) → (n : Int) + P < 2 ^ bits → outcome bits n e = outcome bits ((n : Int) + P) e := by
  obtain ⟨r, hr, hs⟩ := period_main (M := (2 : Int) ^ bits) e
  unfold period at h
  rw [h] at hr
  cases hr
  refine ⟨hs.1, hs.2.1, ?_⟩
  intro n hn hlt
  exact hs.2.2 n hn hlt

/-- `gcd` of the source is the mathematical gcd on the non-negative ints it is applied to, and its
    loop terminates within the variant `y + 1` the translator was given. -/
theorem gcd_correct (x y : Nat) : gcd x y = .ok (Nat.gcd x y : Int) :=
  gcd_ok (Int.natCast_nonneg x) (Int.natCast_nonneg y)

/-! Non-vacuity -/

/-- `n % 10 == 1 && n % 100 != 11` has period `(0, 100)` at width 32 -/
example : period 32 (.boolop .and (.compare (.binop .name .mod (.num 10)) .eq (.num 1))
    (.compare (.binop .name .mod (.num 100)) .noteq (.num 11))) = .ok (some (0, 100)) := by rfl
/-- `n != 1` is constant from 2 on -/
example : period 32 (.compare .name .noteq (.num 1)) = .ok (some (2, 1)) := by rfl
example : outcome 32 5 (.compare .name .noteq (.num 1)) = some 1 := by rfl

end I18n.Props.C06
