import I18n.Model.PyFmt
import I18n.Spec.CPyPercent
namespace I18n.Props.C12
open I18n I18n.PyFmt
open I18n.Generated

theorem info_pin :
    PyFormatTables.flagChars = ['#', '0', '-', ' ', '+'] ∧ PyFormatTables.lengthChars = ['h', 'l', 'L'] := ⟨rfl, rfl⟩

end I18n.Props.C12
