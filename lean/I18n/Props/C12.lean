import I18n.Lemmas.PyFmtGroups
/-!
# C12 — the Python %-format parser is consistent with CPython's `%` operator

`PyFmt.parse` is the model of `lib.strformat.python.FormatString` (hand-written scanner, `Conversion.__init__`,
`add_argument`, the one-type-per-key check); `Spec.CPyPercent.format` is the reference model of CPython's `str % args`
(success or the exception), validated against the running interpreter by the check on every run.
`PlainPercent s` is the domain of the property: every conversion specification with conversion character `%` is
exactly `%%`.  `Matches r a`: the arguments `a` have the shape and types the parser reports in `r`.
-/
namespace I18n.Props.C12
open I18n I18n.PyFmt I18n.Spec.CPyPercent I18n.Spec.PyFmtArgs
open I18n.Generated

theorem parse_loop {s : List Char} {r : Result} (h : parse s = .ok r) :
    ∃ st, loop true (s.length + 1) s [] St.init = .ok st ∧ r.seq = st.seq ∧ r.map = groups st.map := by
  unfold parse parseW at h
  cases hl : loop true (s.length + 1) s [] St.init with
  | error e => rw [hl] at h; cases h
  | ok st =>
    rw [hl] at h
    simp only [] at h
    split at h
    · cases h; exact ⟨st, rfl, rfl, rfl⟩
    · cases h

/-- **If the parser accepts a string, CPython formats it** when given arguments of the shape and types the parser
    reports: a tuple with a value of the reported type per entry of `seq_arguments` (an `int` for every `*`), or a mapping
    with a value of the reported type under every key of `map_arguments`. -/
theorem accept_formats {s : List Char} {r : Result} {a : Args} (hp : PlainPercent s) (h : parse s = .ok r)
    (hm : Matches r a) : format s a = .ok () := by
  obtain ⟨st, hl, hseq, hmap⟩ := parse_loop h
  cases a with
  | tuple vs =>
    obtain ⟨m1, m2⟩ := hm
    rw [hmap] at m1
    have := groups_nil m1
    rw [hseq] at m2
    exact loop_tuple true _ _ _ _ _ hl hp this vs (by simpa [St.init] using m2)
  | dict m =>
    obtain ⟨m1, m2⟩ := hm
    rw [hseq] at m1
    refine loop_dict true _ _ _ _ _ hl hp m1 m (.one .other false) ?_
    intro k e hke
    simp only [St.init, List.length_nil, List.drop_zero] at hke
    obtain ⟨es, h1, h2⟩ := groups_mem hke
    rw [← hmap] at h1
    obtain ⟨v, hv1, hv2⟩ := m2 k es h1
    exact ⟨v, hv1, hv2 e h2⟩
  | single v => exact absurd hm (by simp [Matches])

/-- the error of `parse` is the error of the loop or `ArgumentTypeMismatch` -/
theorem parse_error {s : List Char} {e : PErr} (h : parse s = .error e) :
    loop true (s.length + 1) s [] St.init = .error e ∨ e = .ArgumentTypeMismatch := by
  unfold parse parseW at h
  cases hl : loop true (s.length + 1) s [] St.init with
  | error e' => rw [hl] at h; cases h; exact Or.inl rfl
  | ok st =>
    rw [hl] at h
    simp only [] at h
    split at h
    · cases h
    · cases h; exact Or.inr rfl

/-- **Rejection raises only the parser's own error type** (every string, no hypothesis): never an `AssertionError`,
    `IndexError`, `ValueError`, …; `int(ch)` is only applied to one of the ten ASCII digits. -/
theorem error_own {s : List Char} {e : PErr} (h : parse s = .error e) : e.own = true := by
  rcases parse_error h with hl | rfl
  · rcases loop_error_kinds true _ _ _ _ _ hl (Nat.lt_succ_self _) with r | r | r | r | r <;> subst r <;> rfl
  · rfl

/-- **A string CPython can format is rejected only for a documented reason**: mixing named and unnamed specifications,
    one key used with two different types, a width or precision out of range. -/
theorem reject_reasons {s : List Char} {e : PErr} (hp : PlainPercent s) (h : parse s = .error e)
    (hf : ∃ a, format s a = .ok ()) :
    e = .ArgumentIndexingMixture ∨ e = .ArgumentTypeMismatch ∨ e = .WidthRangeError ∨ e = .PrecisionRangeError := by
  rcases parse_error h with hl | rfl
  · rcases loop_error_kinds true _ _ _ _ _ hl (Nat.lt_succ_self _) with r | r | r | r | r
    · obtain ⟨a, ha⟩ := hf
      exact absurd ha (loop_reject true _ _ _ _ _ hl hp (Or.inl r) _)
    · exact Or.inl r
    · exact Or.inr (Or.inr (Or.inl r))
    · exact Or.inr (Or.inr (Or.inr r))
    · obtain ⟨a, ha⟩ := hf
      exact absurd ha (loop_reject true _ _ _ _ _ hl hp (Or.inr r) _)
  · exact Or.inr (Or.inl rfl)

/-- **What the parser rejects as malformed (`Error`), CPython rejects whatever the arguments.** -/
theorem error_means_malformed {s : List Char} (hp : PlainPercent s) (h : parse s = .error .Error) (a : Args) :
    format s a ≠ .ok () := by
  intro ha
  rcases reject_reasons hp h ⟨a, ha⟩ with r | r | r | r <;> cases r

end I18n.Props.C12
