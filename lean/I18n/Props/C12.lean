import I18n.Lemmas.PyFmtReasons
import I18n.Lemmas.PyFmtTables
import I18n.Lemmas.PyFmtWarn
import I18n.Lemmas.PyFmtExact
/-!
# C12 — the Python %-format parser is consistent with CPython's `%` operator

`PyFmt.parse` is the model of `lib.strformat.python.FormatString` (hand-written scanner, `Conversion.__init__`,
`add_argument`, the one-type-per-key check); `Spec.CPyPercent.format` is the reference model of CPython's `str % args`
(success or the exception), validated against the running interpreter by the check on every run.
`PlainPercent s` is the domain of the property: every conversion specification with conversion character `%` is
exactly `%%`.  `Matches r a`: the arguments `a` have the shape and types the parser reports in `r`.
-/
namespace I18n.Props.C12
open I18n I18n.PyFmt I18n.Spec.CPyPercent I18n.Spec.PyFmtArgs
open I18n.Generated

/-! ## Pins: what the translator reads from the live module -/

/-- the `_info` character sets (dumped sorted: only membership is ever used), the limit, the `*` argument type
    and the
    classes the model raises or records being subclasses of the module's `Error` are what the model and the reference were written against (`int()`'s digit limit plays no
    role in this parser: `int(ch)` only ever sees one ASCII digit) -/
theorem info_pin :
    PyFormatTables.flagChars = [' ', '#', '+', '-', '0'] ∧ PyFormatTables.lengthChars = ['L', 'h', 'l'] ∧
    PyFormatTables.octCvt = ['o'] ∧ PyFormatTables.hexCvt = ['X', 'x'] ∧
    PyFormatTables.intCvt = ['X', 'd', 'i', 'o', 'u', 'x'] ∧ PyFormatTables.floatCvt = ['E', 'F', 'G', 'e', 'f', 'g'] ∧
    PyFormatTables.otherCvt = ['a', 'c', 'r', 's'] ∧
    PyFormatTables.allCvt = ['%', 'E', 'F', 'G', 'X', 'a', 'c', 'd', 'e', 'f', 'g', 'i', 'o', 'r', 's', 'u', 'x'] ∧
    PyFormatTables.SSIZE_MAX = 2 ^ 31 - 1 ∧ PyFormatTables.SSIZE_MAX = Spec.CPyPercent.INT_MAX ∧
    PyFormatTables.variableWidthType = "int" ∧ PyFormatTables.variablePrecisionType = "int" ∧
    (∀ n ∈ ["Error", "ForbiddenArgumentKey", "ArgumentIndexingMixture", "ArgumentTypeMismatch", "WidthRangeError",
      "PrecisionRangeError", "RedundantFlag", "RedundantPrecision", "RedundantLength", "ObsoleteConversion"],
      n ∈ PyFormatTables.errorClasses) := by
  refine ⟨rfl, rfl, rfl, rfl, rfl, rfl, rfl, rfl, by decide, by decide, by decide, by decide, by decide⟩

/-- the probed type of every conversion character (sorted by character): CPython's requirement on the argument
    (`d i u o x X` an integer, `e E f F g G` a real number, `c` a character or code point, `s r a` anything, `%` nothing) -/
theorem types_pin :
    PyFormatTables.typeTable = [('%', "None"), ('E', "float"), ('F', "float"), ('G', "float"), ('X', "int"), ('a', "object"),
      ('c', "chr"), ('d', "int"), ('e', "float"), ('f', "float"), ('g', "float"), ('i', "int"), ('o', "int"), ('r', "object"),
      ('s', "str"), ('u', "int"), ('x', "int")] := by decide

/-- the model of `Conversion.__init__` evaluated by the kernel on every probed directive (conversion x flag sets x
    precision kinds x length; widths and precisions around `SSIZE_MAX`) gives the outcome and the warnings that the
    live module gave -/
theorem probes_pin :
    PyFormatTables.warnTable.all (fun row => probe row.1 == row.2) = true ∧
    PyFormatTables.rangeTable.all (fun row => probe row.1 == row.2) = true := ⟨warnTable_pin, rangeTable_pin⟩

/-! ## The property -/

/-- **If the parser accepts a string, CPython formats it** when given arguments of the shape and types the parser
    reports: a tuple with a value of the reported type per entry of `seq_arguments` (an `int` for every `*`), or a mapping
    with a value of the reported type under every key of `map_arguments`; or the bare value when exactly one unnamed
    argument is reported. -/
theorem accept_formats {s : List Char} {r : Result} {a : Args} (hp : PlainPercent s) (h : parse s = .ok r)
    (hm : Matches r a) : format s a = .ok () := by
  obtain ⟨st, hl, hseq, hmap, _⟩ := parse_loop h
  cases a with
  | tuple vs =>
    obtain ⟨m1, m2⟩ := hm
    rw [hmap] at m1
    have := groups_nil m1
    rw [hseq] at m2
    exact loop_tuple true _ _ _ _ _ hl hp this vs (by simpa [St.init] using m2)
  | dict m =>
    obtain ⟨m1, m2⟩ := hm
    rw [hseq] at m1
    refine loop_dict true _ _ _ _ _ hl hp m1 m (.one .other false) ?_
    intro k e hke
    simp only [St.init, List.length_nil, List.drop_zero] at hke
    obtain ⟨es, h1, h2⟩ := groups_mem hke
    rw [← hmap] at h1
    obtain ⟨v, hv1, hv2⟩ := m2 k es h1
    exact ⟨v, hv1, hv2 e h2⟩
  | single v =>
    obtain ⟨m1, e, m2, m3⟩ := hm
    rw [hmap] at m1
    have := groups_nil m1
    rw [hseq] at m2
    refine loop_single true _ _ _ _ _ hl hp this v false (fun _ => ⟨e, ?_, m3⟩) (fun hh => by cases hh)
    simpa [St.init] using m2

/-- **Rejection raises only the parser's own error type** (every string, no hypothesis): never an `AssertionError`,
    `IndexError`, `ValueError`, …; `int(ch)` is only applied to one of the ten ASCII digits. -/
theorem error_own {s : List Char} {e : PErr} (h : parse s = .error e) : e.own = true := by
  rcases parse_error h with hl | rfl
  · rcases loop_error_kinds true _ _ _ _ _ hl (Nat.lt_succ_self _) with r | r | r | r | r <;> subst r <;> rfl
  · rfl

/-- **A string CPython can format is rejected only for a documented reason**: mixing named and unnamed specifications,
    one key used with two different types, a width or precision out of range. -/
theorem reject_reasons {s : List Char} {e : PErr} (hp : PlainPercent s) (h : parse s = .error e)
    (hf : ∃ a, format s a = .ok ()) :
    e = .ArgumentIndexingMixture ∨ e = .ArgumentTypeMismatch ∨ e = .WidthRangeError ∨ e = .PrecisionRangeError := by
  rcases parse_error h with hl | rfl
  · rcases loop_error_kinds true _ _ _ _ _ hl (Nat.lt_succ_self _) with r | r | r | r | r
    · obtain ⟨a, ha⟩ := hf
      exact absurd ha (loop_reject true _ _ _ _ _ hl hp (Or.inl r) _)
    · exact Or.inl r
    · exact Or.inr (Or.inr (Or.inl r))
    · exact Or.inr (Or.inr (Or.inr r))
    · obtain ⟨a, ha⟩ := hf
      exact absurd ha (loop_reject true _ _ _ _ _ hl hp (Or.inr r) _)
  · exact Or.inr (Or.inl rfl)

/-- **What the parser rejects as malformed (`Error`), CPython rejects whatever the arguments.** -/
theorem error_means_malformed {s : List Char} (hp : PlainPercent s) (h : parse s = .error .Error) (a : Args) :
    format s a ≠ .ok () := by
  intro ha
  rcases reject_reasons hp h ⟨a, ha⟩ with r | r | r | r <;> cases r

/-- **The arguments the statement speaks about exist**: the canonical arguments of an accepted string (a tuple with
    one value per reported entry, or a mapping with one value per reported key — possible because the parser insists on
    one type per key and never reports both kinds) have the reported shape and types. -/
theorem argsOf_matches {s : List Char} {r : Result} (h : parse s = .ok r) : Matches r (argsOf r) := by
  obtain ⟨st, hl, hseq, hmap, hall⟩ := parse_loop h
  have inv := loop_inv true _ _ _ _ _ hl inv_init
  unfold argsOf
  by_cases hme : r.map.isEmpty = true
  · simp only [hme, if_true, Matches]
    refine ⟨by simpa using hme, ?_⟩
    rw [hseq]
    exact okAll_default _ inv.seq
  · simp only [hme, Bool.false_eq_true, if_false, Matches]
    have hne : st.map ≠ [] := by
      intro h0; apply hme; rw [hmap, h0]; rfl
    refine ⟨?_, ?_⟩
    · rw [hseq]
      rcases inv.excl with h0 | h0
      · exact h0
      · exact absurd h0 hne
    · intro k es hk
      rw [hmap] at hk ⊢
      obtain ⟨hes, e1, he1⟩ := groups_spec hk
      have hkmem : k ∈ distinctKeys (st.map.map (·.1)) := distinctKeys_mem _ _ (List.mem_map.2 ⟨(k, e1), he1, rfl⟩)
      refine ⟨headVal es, ?_, ?_⟩
      · have := lookup_groups (fun k => (st.map.filter (fun p => p.1 == k)).map (·.2)) headVal _ k hkmem
        rw [hes]
        exact this
      · have hst := List.all_eq_true.1 hall (k, es) hk
        simp only [] at hst
        have hconv : ∀ e ∈ es, e.kind = .conv ∧ Good e := by
          intro e he
          rw [hes] at he
          obtain ⟨p, hp, rfl⟩ := List.mem_map.1 he
          exact inv.map p (List.mem_filter.1 hp).1
        cases es with
        | nil =>
          exfalso
          have : e1 ∈ (st.map.filter (fun p => p.1 == k)).map (·.2) :=
            List.mem_map.2 ⟨(k, e1), List.mem_filter.2 ⟨he1, by simp⟩, rfl⟩
          rw [← hes] at this
          cases this
        | cons e0 rest =>
          intro e he
          obtain ⟨hk0, hg0⟩ := hconv e0 List.mem_cons_self
          rcases List.mem_cons.1 he with rfl | he'
          · exact okFor_default hg0
          · simp only [sameType, List.all_eq_true, beq_iff_eq] at hst
            exact okFor_same_type (hconv e he).1 hk0 (hst e he') hg0

/-- the same with the canonical arguments: an accepted string is formatted by CPython with them -/
theorem accept_formats_canonical {s : List Char} {r : Result} (hp : PlainPercent s) (h : parse s = .ok r) :
    format s (argsOf r) = .ok () := accept_formats hp h (argsOf_matches h)

/-- **If CPython rejects the string whatever the arguments, the parser rejects it.** -/
theorem malformed_rejected {s : List Char} (hp : PlainPercent s) (h : ∀ a, format s a ≠ .ok ()) :
    ∃ e, parse s = .error e := by
  cases hr : parse s with
  | error e => exact ⟨e, rfl⟩
  | ok r => exact absurd (accept_formats_canonical hp hr) (h _)

/-- **The reported shape is the only one**: if CPython formats an accepted string with a tuple, then the parser reported no
    named argument and exactly as many unnamed arguments (conversions and `*`s) as the tuple has items. -/
theorem tuple_exact {s : List Char} {r : Result} {vs : List Val} (hp : PlainPercent s) (h : parse s = .ok r)
    (hf : format s (.tuple vs) = .ok ()) : r.map = [] ∧ r.seq.length = vs.length := by
  obtain ⟨st, hl, hseq, hmap, _⟩ := parse_loop h
  obtain ⟨a, b⟩ := loop_tuple_exact true _ _ _ _ _ hl hp vs hf
  refine ⟨?_, ?_⟩
  · rw [hmap, a]; rfl
  · rw [hseq, b]; simp [St.init]

/-- … and if CPython formats an accepted string with a mapping, every key the parser reports is in the mapping
    (every string, the domain is not needed). -/
theorem mapping_keys_needed {s : List Char} {r : Result} {m : List (List Char × Val)} (h : parse s = .ok r)
    (hf : format s (.dict m) = .ok ()) : ∀ k es, (k, es) ∈ r.map → (Spec.CPyPercent.lookup m k).isSome = true := by
  obtain ⟨st, hl, _, hmap, _⟩ := parse_loop h
  intro k es hk
  rw [hmap] at hk
  obtain ⟨_, e, he⟩ := groups_spec hk
  rcases loop_dict_keys true _ _ _ _ _ hl m (.one .other false) hf k e he with r | r
  · cases r
  · exact r

/-- **Why the statement has a domain**: outside it, the model of CPython 3.12 formats nothing — a `%` conversion with a key,
    flag, width, precision or length attached is an error whatever the arguments … -/
theorem outside_domain_cpython_rejects {s : List Char} (hp : ¬ PlainPercent s) (a : Args) : format s a ≠ .ok () := by
  have : plainPercent (s.length + 1) s = false := by
    unfold PlainPercent at hp; simpa using hp
  exact run_nonplain _ _ this _

/-- … while the parser accepts such strings and types the conversion as consuming nothing (`%5%`): without the
    hypothesis `PlainPercent`, `accept_formats` is false. -/
theorem accept_formats_needs_domain :
    ∃ s r, parse s = .ok r ∧ r.seq = [] ∧ r.map = [] ∧ ∀ a, format s a ≠ .ok () :=
  ⟨"%5%".toList, _, rfl, rfl, rfl, fun a => outside_domain_cpython_rejects (by decide) a⟩

/-- **The domain, spelled out**: `PlainPercent s` says that every conversion specification the scanner reads in `s` whose
    conversion character is `%` has no key, no flag, no width, no precision and no length modifier. -/
theorem plainPercent_spec (s : List Char) :
    PlainPercent s ↔ ∀ d ∈ directives s, d.conv = '%' →
      d.key = none ∧ d.flags = [] ∧ d.width = .num 0 ∧ d.prec = none ∧ d.length = none := by
  unfold PlainPercent directives
  rw [plainPercent_iff]
  constructor
  · intro h d hd hc
    have := h d hd
    simp only [Directive.plain, hc, bne_self_eq_false, Bool.false_or, Bool.and_eq_true, Option.isNone_iff_eq_none,
      List.isEmpty_iff, beq_iff_eq] at this
    obtain ⟨⟨⟨⟨a, b⟩, c⟩, d'⟩, e⟩ := this
    exact ⟨a, b, c, d', e⟩
  · intro h d hd
    by_cases hc : d.conv = '%'
    · obtain ⟨a, b, c, d', e⟩ := h d hd hc
      simp [Directive.plain, a, b, c, d', e]
    · simp [Directive.plain, hc]

/-- **The documented reason the parser gives is true of the string** (every string): among the conversion specifications
    the scanner reads (`directives s`) there is, for `WidthRangeError`, a literal width above `SSIZE_MAX` = 2^31-1; for
    `PrecisionRangeError`, a literal precision above 2^31-1, or above 2^31-4 on an integer conversion (CPython's own limit);
    for `ArgumentIndexingMixture`, one that takes its value from the mapping and one that fetches a positional argument
    (a `*` or a value without key); for `ArgumentTypeMismatch`, two with the same key whose conversions have different types. -/
theorem reason_true {s : List Char} {e : PErr} (h : parse s = .error e) :
    (e = .WidthRangeError → ∃ d ∈ directives s, ∃ n, d.width = .num n ∧ n > PyFormatTables.SSIZE_MAX) ∧
    (e = .PrecisionRangeError → ∃ d ∈ directives s, ∃ n, d.prec = some (.num n) ∧
      (n > PyFormatTables.SSIZE_MAX ∨ (PyFormatTables.intCvt.contains d.conv = true ∧ n > PyFormatTables.SSIZE_MAX - 3))) ∧
    (e = .ArgumentIndexingMixture → (∃ d ∈ directives s, d.named) ∧ (∃ d ∈ directives s, d.unnamed)) ∧
    (e = .ArgumentTypeMismatch → ∃ d1 ∈ directives s, ∃ d2 ∈ directives s, ∃ k, d1.key = some k ∧ d2.key = some k ∧
      PyFormatTables.typeTable.lookup d1.conv ≠ PyFormatTables.typeTable.lookup d2.conv) :=
  ⟨fun he => width_reason' (he ▸ h), fun he => precision_reason' (he ▸ h), fun he => mixture_reason' (he ▸ h),
    fun he => mismatch_reason' (he ▸ h)⟩

/-- **Warnings are inert**: recording them (the real code) or not changes neither acceptance, nor the error class, nor the
    argument lists, nor the items; and with recording off nothing is recorded. -/
theorem warnings_inert (s : List Char) :
    (parse s).map Result.strip = parseW false s ∧ ∀ r, parseW false s = .ok r → r.warnings = [] := by
  refine ⟨parseW_strip true s, fun r hr => ?_⟩
  have h := parseW_strip false s
  rw [hr] at h
  simp only [Except.map, Except.ok.injEq] at h
  have := congrArg Result.warnings h
  exact this.symm

/-! ## Non-vacuity -/

/-- named specifications with a nested-parenthesis key, and `%%` -/
example : (parse "%(a(b))s x %(n)d%%".toList).map (fun r => (r.seq, r.map.map (fun g => (String.ofList g.1, g.2.map (·.type))))) =
    .ok ([], [("a(b)", ["str"]), ("n", ["int"])]) := by rfl
/-- unnamed `*.*`: width, precision, value in that order -/
example : (parse "ab%*.*lu%-05d".toList).map (fun r => (r.seq.map (fun e => (e.kind, e.type, e.parent)), r.warnings)) =
    .ok ([(.width, "int", 1), (.prec, "int", 1), (.conv, "int", 1), (.conv, "int", 2)],
      [.RedundantLength, .ObsoleteConversion, .RedundantFlag]) := by rfl
example : PlainPercent "100%% of %(n)d".toList := by decide
example : ¬ PlainPercent "%5%".toList := by decide
/-- `accept_formats` applies: the canonical arguments of `%(a)s %(n)5.2f` are a mapping, and CPython's model formats them -/
example : (parse "%(a)s %(n)5.2f".toList).map argsOf =
    .ok (.dict [("a".toList, .str 3), ("n".toList, .float)]) := by rfl
example : format "%(a)s %(n)5.2f".toList (.dict [("a".toList, .str 3), ("n".toList, .float)]) = .ok () := by rfl
example : format "%*.*lu%%".toList (.tuple [.int 7, .int (-2), .int 5]) = .ok () := by rfl
/-- the documented rejections are rejections of strings CPython can format (`reject_reasons` is not vacuous) -/
example : (parse "%s %(a)s".toList).map (·.seq) = .error .ArgumentIndexingMixture := by rfl
example : format "%s %(a)s".toList (.dict [("a".toList, .int 1)]) = .ok () := by rfl
example : (parse "%(a)d %(a)s".toList).map (·.seq) = .error .ArgumentTypeMismatch := by rfl
example : format "%(a)d %(a)s".toList (.dict [("a".toList, .int 1)]) = .ok () := by rfl
example : (parse "%2147483648d".toList).map (·.seq) = .error .WidthRangeError := by rfl
example : format "%2147483648d".toList (.tuple [.int 1]) = .ok () := by rfl
/-- the precision limit of the integer conversions (fix 84eb507): CPython raises OverflowError whatever the argument -/
example : (parse "%.2147483645d".toList).map (·.seq) = .error .PrecisionRangeError := by rfl
example : format "%.2147483645d".toList (.tuple [.int 1]) = .error .overflow := by rfl
example : (parse "%.2147483644d %.2147483647s".toList).map (·.seq.map (·.type)) = .ok ["int", "str"] := by rfl
/-- malformed strings: rejected by both (`error_means_malformed`, `malformed_rejected`) -/
example : (parse "%(a".toList).map (·.seq) = .error .Error := by rfl
example : format "%(a".toList (.dict []) = .error .incompleteKey := by rfl
example : (parse "100%".toList).map (·.seq) = .error .Error := by rfl
example : format "%!".toList (.tuple [.int 1]) = .error .unsupportedChar := by rfl
/-- outside the domain: the parser types `%5%` as consuming nothing, CPython 3.12 rejects it -/
example : (parse "%5%".toList).map (·.seq) = .ok [] := by rfl
example : format "%5%".toList (.tuple []) = .error .notEnoughArgs := by rfl
example : format "%*.*lu%%".toList (.tuple [.int 7, .int 5]) = .error .notEnoughArgs := by rfl
example : format "%d".toList (.tuple [.int 7, .int 5]) = .error .notAllConverted := by rfl
example : format "%5.2f%%".toList (.single .float) = .ok () := by rfl
example : (parse "%-05.3d".toList).map (·.warnings) = .ok [.RedundantFlag, .RedundantFlag] := by rfl
example : (parseW false "%-05.3d".toList).map (·.warnings) = .ok [] := by rfl
example : (directives "a%(k)-5d%%%*s".toList).map (fun d => (d.key.map String.ofList, d.flags, d.width, d.conv)) =
    [(some "k", ['-'], .num 5, 'd'), (none, [], .num 0, '%'), (none, [], .star, 's')] := by rfl

end I18n.Props.C12
