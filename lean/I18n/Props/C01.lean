import I18n.Model.Check
import I18n.Lemmas.PluralNoCrash
import I18n.Props.C02
import I18n.Props.C04
import I18n.Props.C09
import I18n.Props.C11
/-!
# C01 — every input file is handled without crash, hang or abnormal exit   (PARTIAL: see below)

What is proved here is the *exception closure* of the pipeline, as a composition:

* `Check.check` models `Checker.check` (stat, extension dispatch, loader call with its `UnicodeDecodeError` retry, the
  nested `try`/`except`/`finally`, the nine `check_*` stages in order) with the loader and the stages as parameters.
  `check_uncaught_iff` says exactly when an exception leaves it; `check_total` is the positive form: if the loader
  raises only what `check` handles and no stage raises, the run returns normally, for every input.
* `loader_failure_lines`, `unreadable_is_tag`, `unknown_type_is_tag`, `broken_encoding_iff`: every problem of the
  input that the loader detects is reported as exactly one tag (plus the pending `broken-encoding`), and nothing else
  is derived from the file.
* The hypotheses are discharged by the component models, for all inputs: the MO loader (`mo_check_total`, from C09's
  `parse_total_closed`), `check_plurals` (`plurals_stage_total`: the lexer/parser never yields `ValueError` since the
  `int()` limit was lifted, the window and gap analyses never raise: C05/C06/C07), the C format parser
  (`cformat_errors_own`: C11).  The models built for C10, C12–C16, C18–C20 export their own closure theorems in their
  `Props` files (named in DESIGN.md); each is one more discharged hypothesis of `check_total`.
* every line printed comes from `Tag.format`, whose grammar and cleanliness are C02's theorems (`line_is_tag_line`).

What no model here can exhibit, and is decided by the search of tools/checks/C01.py on the real code (test level):
wall-clock/CPU time of CPython's regex engine and of `int()`, recursion depth (RecursionError on expressions nested
deeper than the interpreter's limit: recorded finding), polib/rply/expat/iconv internals, the OS, `-j`.
-/
namespace I18n.Props.C01
open I18n I18n.Check

/-! ## the stages -/

theorem runStages_total {σ τ : Type} (stages : List (Stage σ τ)) (h : ∀ st ∈ stages, ∀ s, (st s).2.2 = false) (s : σ) :
    (runStages stages s).2 = false := by
  induction stages generalizing s with
  | nil => rfl
  | cons st rest ih =>
    have h1 := h st (by simp) s
    unfold runStages
    rcases hst : st s with ⟨s', out, r⟩
    rw [hst] at h1
    simp only at h1
    subst h1
    simp only
    exact ih (fun st' hm => h st' (List.mem_cons_of_mem _ hm)) s'

/-- if the stages raise, one of them raised at some state -/
theorem runStages_raise {σ τ : Type} (stages : List (Stage σ τ)) (s : σ) (h : (runStages stages s).2 = true) :
    ∃ st ∈ stages, ∃ s', (st s').2.2 = true := by
  induction stages generalizing s with
  | nil => simp [runStages] at h
  | cons st rest ih =>
    unfold runStages at h
    rcases hst : st s with ⟨s', out, r⟩
    rw [hst] at h
    cases r with
    | true => exact ⟨st, by simp, s, by rw [hst]⟩
    | false =>
      simp only at h
      obtain ⟨st', hm, s'', hr⟩ := ih s' h
      exact ⟨st', List.mem_cons_of_mem _ hm, s'', hr⟩

/-! ## `Checker.check` -/

variable {F σ τ : Type}

/-- **Exactly when an exception leaves `check()`**: the first loader call raised something that is neither retried nor
    mapped to a tag, or the retry did, or a `check_*` stage raised. -/
theorem check_uncaught_iff (statOk : Bool) (ext : Ext) (load : Bool → Except LoadErr F) (init : F → Bool → σ)
    (stages : List (Stage σ τ)) :
    (check statOk ext load init stages).uncaught = true ↔
      statOk = true ∧ ext ≠ .other ∧
      ((∃ e, load false = .error e ∧ e.handledFirst = false) ∨
       (load false = .error .unicodeDecode ∧ ∃ e, load true = .error e ∧ e.handledRetry = false) ∨
       (∃ f, load false = .ok f ∧ (runStages stages (init f false)).2 = true) ∨
       (load false = .error .unicodeDecode ∧ ∃ f, load true = .ok f ∧ (runStages stages (init f true)).2 = true)) := by
  unfold check
  cases statOk
  · simp
  · simp only [Bool.not_true, Bool.false_eq_true, if_false, true_and]
    by_cases he : ext = .other
    · simp [he]
    · simp only [he, if_false, ne_eq, not_false_eq_true, true_and]
      rcases h1 : load false with e1 | f
      · cases e1 <;> simp only [LoadErr.handledFirst, afterLoad] <;> try simp
        rcases h2 : load true with e2 | f2
        · cases e2 <;> simp [LoadErr.handledRetry]
        · simp [afterLoad]
      · simp [afterLoad]

/-- **The run returns normally** whenever the loader raises only what `check` is written to handle and no stage
    raises — whatever the file. -/
theorem check_total (statOk : Bool) (ext : Ext) (load : Bool → Except LoadErr F) (init : F → Bool → σ)
    (stages : List (Stage σ τ))
    (h1 : ∀ e, load false = .error e → e.handledFirst = true)
    (h2 : ∀ e, load true = .error e → e.handledRetry = true)
    (h3 : ∀ st ∈ stages, ∀ s, (st s).2.2 = false) :
    (check statOk ext load init stages).uncaught = false := by
  cases h : (check statOk ext load init stages).uncaught with
  | false => rfl
  | true =>
    exfalso
    obtain ⟨_, _, hc⟩ := (check_uncaught_iff statOk ext load init stages).1 h
    rcases hc with ⟨e, he, hf⟩ | ⟨_, e, he, hf⟩ | ⟨f, _, hr⟩ | ⟨_, f, _, hr⟩
    · rw [h1 e he] at hf; cases hf
    · rw [h2 e he] at hf; cases hf
    · rw [runStages_total stages h3] at hr; cases hr
    · rw [runStages_total stages h3] at hr; cases hr

/-- an unreadable path is reported as `os-error` and nothing else happens -/
theorem unreadable_is_tag (ext : Ext) (load : Bool → Except LoadErr F) (init : F → Bool → σ) (stages : List (Stage σ τ)) :
    check false ext load init stages = ⟨[.osError], false⟩ := rfl

/-- a file of another type is reported as `unknown-file-type`; it is not even opened -/
theorem unknown_type_is_tag (load : Bool → Except LoadErr F) (init : F → Bool → σ) (stages : List (Stage σ τ)) :
    check true .other load init stages = ⟨[.unknownFileType], false⟩ := rfl

/-- **A file the loader refuses is reported by exactly one tag** (`invalid-mo-file`, `os-error` or
    `syntax-error-in-po-file`), followed only by the pending `broken-encoding`; no `check_*` runs. -/
theorem loader_failure_lines (ext : Ext) (hext : ext ≠ .other) (load : Bool → Except LoadErr F) (init : F → Bool → σ)
    (stages : List (Stage σ τ)) (e : LoadErr) (he : e.handledRetry = true) :
    (load false = .error e → (check true ext load init stages).lines.length = 1 ∧
        (check true ext load init stages).uncaught = false ∧
        ∀ t, Line.tag t ∉ (check true ext load init stages).lines) ∧
    (load false = .error .unicodeDecode → load true = .error e →
        (∃ l, (check true ext load init stages).lines = [l, .brokenEncoding]) ∧
        (check true ext load init stages).uncaught = false) := by
  unfold check
  simp only [Bool.not_true, Bool.false_eq_true, if_false, hext]
  constructor
  · intro h1
    rw [h1]
    cases e <;> simp [LoadErr.handledRetry] at he <;> simp
  · intro h1 h2
    rw [h1]
    simp only [h2]
    cases e <;> simp [LoadErr.handledRetry] at he <;> simp

/-- `broken-encoding` is printed iff the first loader call raised `UnicodeDecodeError` -/
theorem broken_encoding_iff (ext : Ext) (hext : ext ≠ .other) (load : Bool → Except LoadErr F) (init : F → Bool → σ)
    (stages : List (Stage σ τ)) :
    Line.brokenEncoding ∈ (check true ext load init stages).lines ↔ load false = .error .unicodeDecode := by
  unfold check
  simp only [Bool.not_true, Bool.false_eq_true, if_false, hext]
  rcases h1 : load false with e1 | f
  · cases e1 <;> simp [afterLoad]
    rcases h2 : load true with e2 | f2
    · cases e2 <;> simp
    · simp [afterLoad]
  · simp [afterLoad]

/-! ## discharging the hypotheses: the MO loader (C09) -/

/-- `polib.mofile(path[, encoding='ISO-8859-1'])` as `check` sees it -/
def moLoad (db : Mo.CodecDB) (view : Mo.Bytes) (retry : Bool) : Except LoadErr Mo.MoFile :=
  match Mo.parse db (if retry then some Mo.latin1Name else none) view with
  | .ok f => .ok f
  | .error (.syntax _) => .error .moSyntax
  | .error .decode => .error .unicodeDecode
  | .error (.crash _) => .error .other

/-- **Every byte string with an MO extension**: the loader raises only `moparser.SyntaxError` or
    `UnicodeDecodeError` (C09 `parse_total_closed`), the ISO-8859-1 retry cannot raise the latter, so if no `check_*`
    stage raises the run returns normally. -/
theorem mo_check_total (db : Mo.CodecDB) (hl : C09.Latin1OK db) (view : Mo.Bytes) (init : Mo.MoFile → Bool → σ)
    (stages : List (Stage σ τ)) (h3 : ∀ st ∈ stages, ∀ s, (st s).2.2 = false) :
    (check true .mo (moLoad db view) init stages).uncaught = false := by
  apply check_total _ _ _ _ _ _ _ h3
  · intro e he
    unfold moLoad at he
    simp only [Bool.false_eq_true, if_false] at he
    rcases hp : Mo.parse db none view with (x | _ | c) | f <;> rw [hp] at he <;> simp only at he
    · cases he; rfl
    · cases he; rfl
    · exact absurd hp (C09.parse_total_closed db none view c)
    · cases he
  · intro e he
    unfold moLoad at he
    simp only [if_true] at he
    rcases hp : Mo.parse db (some Mo.latin1Name) view with (x | _ | c) | f <;> rw [hp] at he <;> simp only at he
    · cases he; rfl
    · exact absurd hp (Mo.parse_no_decode db hl.compat hl.total view)
    · exact absurd hp (C09.parse_total_closed db _ view c)
    · cases he

/-- the loading phase of this model is C09's `checkerLoad`, tag for tag -/
theorem mo_load_agrees (db : Mo.CodecDB) (view : Mo.Bytes) :
    ((Mo.checkerLoad db view).uncaught.isSome =
      (check (σ := Unit) (τ := Unit) true .mo (moLoad db view) (fun _ _ => ()) []).uncaught) := by
  unfold Mo.checkerLoad check moLoad
  simp only [Bool.not_true, Bool.false_eq_true, if_false, if_true]
  rcases h1 : Mo.parse db none view with (x | _ | c) | f <;> simp [afterLoad, runStages]
  rcases h2 : Mo.parse db (some Mo.latin1Name) view with (x | _ | c) | f <;> simp [afterLoad, runStages]

/-! ## discharging the hypotheses: `check_plurals` (C04–C07) -/

/-- `check_plurals` as a stage: its input is read from the shared state, its tags are printed, an escaping exception
    stops the run -/
def pluralsStage {σ : Type} (input : σ → CheckPlurals.Input) (store : σ → Option CheckPlurals.Preimage → σ) :
    Stage σ TagCall := fun s =>
  match CheckPlurals.checkPlurals (input s) with
  | .ok out => (store s out.preimage, out.tags, false)
  | .error _ => (s, [], true)

/-- **`check_plurals` never raises**, for every Plural-Forms value, message list and language whose registry
    strings parse (C05 `codomain_nocrash`, C06 `period_nocrash`, C07 `window_nocrash` / `gap_nocrash`, and the lexer's
    `ValueError` outcome being unreachable since `fix:` 871d4d7). -/
theorem plurals_stage_total {σ : Type} (input : σ → CheckPlurals.Input) (store : σ → Option CheckPlurals.Preimage → σ)
    (hreg : ∀ s, CheckPlurals.RegistryParses (input s)) (s : σ) : (pluralsStage input store s).2.2 = false := by
  unfold pluralsStage
  cases h : CheckPlurals.checkPlurals (input s) with
  | ok out => rfl
  | error ex => exact absurd h (CheckPlurals.checkPlurals_nocrash (input s) (hreg s) ex)

/-- the evaluator raises nothing but overflow and division by zero (both reported as tags by `check_plurals`) -/
theorem eval_errors_closed {bits : Nat} (hb : 1 ≤ bits) (n : Int) (e : Expr) (ex : Py.Exc)
    (h : Plural.evalAt bits n e = .error ex) : ex = .Overflow ∨ ex = .ZeroDivision :=
  C04.eval_error_kinds hb n e ex h

/-! ## discharging the hypotheses: the C format parser (C11) -/

/-- `strformat.c.FormatString(s)` raises only the module's own `Error` classes, which `check_message` reports as
    `c-format-string-error`: no other exception, for every string -/
theorem cformat_errors_own {s : List Char} {e : CFmt.CErr} (h : CFmt.parse s = .error e) : e.own = true :=
  C11.parse_error_own h

/-! ## what is printed -/

/-- every printed line is `<E|W|I|P>: <path>: <tag>[ <extra>…]` without a newline inside, whatever the extras
    (C02 `format_grammar`, `line_clean`) — restated here so that the C01 file lists every ingredient -/
theorem line_is_tag_line (db : Tags.UnicodeDB) (t : Tags.Tag) (p : Tags.Str) (xs : List Tags.Extra) :
    Tags.format db t p xs none = Spec.Tags.lineOf t.priority.code p t.name (xs.map (Tags.escape db)) ∧
    (t.priority.toChar = 'E' ∨ t.priority.toChar = 'W' ∨ t.priority.toChar = 'I' ∨ t.priority.toChar = 'P') :=
  C02.format_grammar db t p xs

/-! ## Non-vacuity -/

/-- a two-stage pipeline in which the second stage raises after printing one line: the line is on stdout, the run is
    reported as failed -/
example : check (F := Unit) true .po (fun _ => .ok ()) (fun _ _ => (0 : Nat))
    [fun s => (s + 1, ["a"], false), fun s => (s, ["b"], true), fun s => (s, ["c"], false)]
    = ⟨[.tag "a", .tag "b"], true⟩ := by rfl
example : check (F := Unit) (σ := Unit) (τ := String) true .mo
    (fun r => if r then .error .moSyntax else .error .unicodeDecode) (fun _ _ => ()) []
    = ⟨[.invalidMoFile, .brokenEncoding], false⟩ := by rfl
example : (check (F := Unit) (σ := Unit) (τ := String) true .po (fun _ => .error .osOther) (fun _ _ => ()) []).uncaught = true := by rfl

end I18n.Props.C01
