import I18n.Model.Pipeline
import I18n.Lemmas.PluralNoCrash
import I18n.Props.C02
import I18n.Props.C04
import I18n.Props.C09
import I18n.Props.C11
import I18n.Props.C12
import I18n.Props.C13
import I18n.Props.C18
import I18n.Props.C19
import I18n.Props.C20
import I18n.Lemmas.PipelineReal
import I18n.Model.XmlEncode
/-!
# C01 — every input file is handled without crash, hang or abnormal exit   (PARTIAL: see below)

What is proved here is the *exception closure* of the pipeline `cli.main → check_all → check_file → Checker.check → check_*`,
as a composition, with the exception-to-tag mapping READ FROM THE SOURCE on every run:

* `Generated/ExcMap.lean` (tools/translate/excmap2lean.py) holds every `try` statement of lib/ with the classes each `except`
  clause catches (resolved on the live class objects), the tags the clause emits and how it ends, plus the explicit `raise`,
  `assert` and `warn` sites and the exception classes each strformat module defines.  Section 1 pins what C01 needs of it:
  `strformat_errors_caught` (EVERY exception class defined by a strformat module derives from the module's `Error` and is turned
  into that format's `*-format-string-error` tag by `check_string`, and swallowed by `check_message`), `warnings_caught`,
  `plural_errors_caught`, `arithmetic_errors_caught`, `date_errors_caught`, `xml_errors_caught`, `charset_errors_caught`,
  `language_errors_caught`, `loader_classification`, `deb_errors_caught`.  A narrowed `except` clause, a class re-parented away
  from `Error`, a handler that stops emitting its tag: each breaks a pin (and sends the check to its falsifier).
* `ExcFlow.checkString` is `check_string` of a format checker over those tables; `cCheckString_nocrash` / `pyCheckString_nocrash`
  discharge it for the C and Python %-format backends from C11 `parse_error_own` / C12 `error_own`; the two brace backends are
  `braceCheckString_nocrash` under the NAMED hypothesis that their parsers raise only their own `Error` (C13).
* `Check.check` models `Checker.check` (stat, extension dispatch, loader call with its `UnicodeDecodeError` retry, the nested
  `try`/`except`/`finally`, the nine `check_*` stages in order); `check_uncaught_iff` says exactly when an exception leaves it,
  `check_total` is the positive form, `loader_failure_lines` / `unreadable_is_tag` / `unknown_type_is_tag` /
  `broken_encoding_iff` say that every problem the loader detects is exactly one tag.
* `Cli.main` models the return-code logic: `main_rc_zero_iff` (status 0 iff `-l` was accepted and no `check_file` raised),
  `main_ok` (then stdout is the concatenation of the per-file lines, sequentially and with `-j`), `checkFile_ok` (`--unpack-deb`).
* `pipeline_nocrash`: for every list of files, each unreadable / of another type / an MO byte string / a PO file, every `-l`
  that is not rejected, every `-j`: exit status 0, empty stderr, only tag lines — the MO loader (C09), `check_language` (C19),
  `check_plurals` (C04–C07) and `check_dates` (C18) being discharged here for all inputs, the other components entering as the
  fields of `Pending` — the general composition law, kept; its instance with every field discharged is the next item.
* **`pipeline_nocrash_unconditional`** (section 7, after the merge of C10, C13–C17): every field of `Pending` discharged.  The
  loaders are C09's `Mo.parse` and C10's `Po.load` (closed outcome set: `Lemmas/PoNoCrash.lean`), the stages are C17's
  `Meta.Real.pipeline` — `Hdr.*` (C15), `Locale.checkLanguage` (C19), `CheckPlurals.checkPlurals` (C04–C07), `Hdr.checkMime` over
  C20's fragment, `Date.checkDates` (C18), `Msg.trace` (C16) with C14's `check_message` over the parsers of C11, C12 and C13
  (`Lemmas/PipelineBrace.lean` computes C14's brace inputs from C13's parsers and proves C14's provisos).  No hypothesis about a
  loader or a stage is left; what remains is about the world outside the file and is named: `WorldOk` (shipped plural registry;
  C20's fragment total; expat raises only `ExpatError`; checkers get the message's strings — `worldOk_live` builds it from the
  generated tables under two third-party contracts), `Po.CodecsBehave`, `C09.Latin1OK`.  `pybraceCheckString_nocrash` /
  `perlbraceCheckString_nocrash` replace the C13 hypothesis of `braceCheckString_nocrash`.
* §8: the data tables the tool trusts as obligations over regenerated files (`registry_parses_strictly` …).  §9: the encode step
  in front of expat (`check_fragment_sane`, `check_fragment_strict_refuted`, `xml_encode_site_pin`) and the modelling gap
  `TextIsScalar` (`model_text_is_scalar`, `strict_encode_never_fails_on_model_text`).
* every line printed comes from `Tag.format`, whose grammar and cleanliness are C02's theorems (`line_is_tag_line`).

REFUTED on the real code, not exhibited by any model here (the models recurse structurally): a plural expression nested deeper
than the interpreter's recursion limit allows raises `RecursionError` in lib/intexpr.py (open finding, replayed on every run).
`recursion_budget` states the frame count the evaluators need (2·depth + 3), which the check compares with the real limit.

What no model here can exhibit, and is decided by the search of tools/checks/C01.py on the real code (test level):
wall-clock/CPU time of CPython's regex engine and of `int()`, polib/rply/expat/iconv internals, the OS, `-j` process
failures, the terminal encoding.
-/
namespace I18n.Props.C01
open I18n I18n.Check I18n.ExcFlow I18n.Pipeline I18n.Generated.ExcMap

set_option maxRecDepth 8000

/-! ## 1. the exception map of the source -/

def cls (name : String) : Cls := clsId name
def className (c : Cls) : String := classNames.getD c "?"

/-- a handler as (caught class names, tags, ending) -/
def view (h : Handler) : List String × List String × End := (h.classes.map className, h.tags, h.fin)

def backendFile (fmt : String) : String :=
  if fmt = "c" then "c" else if fmt = "python" then "python" else if fmt = "python-brace" then "pybrace" else "perlbrace"

/-- `check_string` of the checker registered for a format flag -/
def checkStringSite (fmt : String) : TrySite := site ("lib/check/msgformat/" ++ backendFile fmt ++ ".py") "Checker.check_string" 0
/-- the `try` around `self.backend.FormatString(s)` for a msgid of a non-template in `check_message` -/
def checkMessageSite (fmt : String) : TrySite := site ("lib/check/msgformat/__init__.py[" ++ fmt ++ "]") "Checker.check_message" 0

/-- the file of a strformat backend, as it appears in `raiseSites` -/
def strformatFile (fmt : String) : String := "lib/strformat/" ++ backendFile fmt ++ ".py"

/-- an exception of class `c` raised while parsing a string of format `fmt` is reported by `check_string` of the checker
    registered for the format as exactly that format's `…-format-string-error` tag (the clause then falls through to
    `return fmt`), and is swallowed (`return`) by `check_message` when it parses a msgid -/
def caughtAsError (fmt : String) (c : Cls) : Bool :=
  ((dispatch (checkStringSite fmt).handlers c).map (fun h => (h.tags, h.fin)) == some ([fmt ++ "-format-string-error"], .fallthrough)) &&
  ((dispatch (checkMessageSite fmt).handlers c).map (fun h => (h.tags, h.fin)) == some ([], .ret))

/-- **every own-`Error` subclass of every strformat module** (the classes are enumerated from the live module) is caught by
    `check_string` / `check_message` of its caller as described by `caughtAsError`; and so is **every class of the module that
    one of its `raise` statements names**, whether or not it derives from `Error` — a class re-parented away from `Error` that is
    still raised breaks this pin, one that is only ever recorded as a warning does not (it is `warnings_caught`'s business) -/
theorem strformat_errors_caught :
    (ownErrors.map (·.1) = ["c", "perl-brace", "python", "python-brace"]) ∧
    (ownErrors.all fun (fmt, _, err, defined) =>
      defined.contains err &&
      (defined.all fun c => !isSub c err || caughtAsError fmt c) &&
      (raiseSites.all fun (file, _, c) => !(file == strformatFile fmt && defined.contains c) || caughtAsError fmt c)) = true := by
  decide

/-- the checkers use the backends whose classes were enumerated -/
theorem checkers_pin : checkers.map (fun (f, _, b) => (f, b)) = ownErrors.map (fun (f, b, _, _) => (f, b)) := by decide

/-- **every class that ends up in `fmt.warnings`** (the `parent.warn(<Class>, …)` calls of the parsers) is caught by the `try`
    inside `for warn in fmt.warnings: raise warn` of the same format's `check_string`, by a clause that emits one tag and goes on;
    the two brace parsers record no warnings -/
theorem warnings_caught :
    (warnSites.all fun (file, _, c) =>
      (file == "lib/strformat/c.py" &&
        ((dispatch cWarnSite.handlers c).map (fun h => (h.tags.length, h.fin)) == some (1, .fallthrough))) ||
      (file == "lib/strformat/python.py" &&
        ((dispatch pyWarnSite.handlers c).map (fun h => (h.tags.length, h.fin)) == some (1, .fallthrough)))) = true := by
  decide

/-- **plural forms**: the lexer's and the parser's exceptions (rply) become `PluralExpressionSyntaxError` in
    `parse_plural_expression`; that and `PluralFormsSyntaxError` are caught by `check_plurals`, which reports
    `syntax-error-in-(unused-)plural-forms` and returns -/
theorem plural_errors_caught :
    let pe := site "lib/gettext.py" "parse_plural_expression" 0
    let cp := site "lib/check/__init__.py" "Checker.check_plurals" 0
    (dispatch pe.handlers (cls "rply.errors.LexingError")).map (·.fin) = some (.raises [cls "lib.gettext.PluralExpressionSyntaxError"]) ∧
    (dispatch pe.handlers (cls "rply.errors.ParsingError")).map (·.fin) = some (.raises [cls "lib.gettext.PluralExpressionSyntaxError"]) ∧
    (dispatch cp.handlers (cls "lib.gettext.PluralExpressionSyntaxError")).map view =
      some (["lib.gettext.PluralFormsSyntaxError"], ["syntax-error-in-plural-forms", "syntax-error-in-unused-plural-forms"], .ret) ∧
    (dispatch cp.handlers (cls "lib.gettext.PluralFormsSyntaxError")).map (·.fin) = some .ret := by
  decide

/-- **arithmetic failures**: the two exceptions the evaluator raises (`OverflowError` from `_check_overflow`,
    `ZeroDivisionError` from `//` and `%`) are caught by the `try` around the window loop of `check_plurals`, each by a clause
    that reports `arithmetic-error-in-(unused-)plural-forms` and goes on to the range analysis -/
theorem arithmetic_errors_caught :
    let cp := site "lib/check/__init__.py" "Checker.check_plurals" 1
    (dispatch cp.handlers (cls "builtins.OverflowError")).map view =
      some (["builtins.OverflowError"], ["arithmetic-error-in-plural-forms", "arithmetic-error-in-unused-plural-forms"], .fallthrough) ∧
    (dispatch cp.handlers (cls "builtins.ZeroDivisionError")).map view =
      some (["builtins.ZeroDivisionError"], ["arithmetic-error-in-plural-forms", "arithmetic-error-in-unused-plural-forms"], .fallthrough) ∧
    -- and nothing else: a RecursionError, ValueError, … from the evaluator passes through
    dispatch cp.handlers (cls "builtins.RecursionError") = none ∧ dispatch cp.handlers (cls "builtins.ValueError") = none ∧
    (raiseSites.filter (fun (f, fn, _) => f == "lib/intexpr.py" && fn == "Evaluator._check_overflow")).map (·.2.2) =
      [cls "builtins.OverflowError", cls "builtins.OverflowError"] := by
  decide

/-- **dates**: `fix_date_format` raises `BoilerplateDate`, `DateSyntaxError` (and `ValueError` for a malformed hint, which
    `check_dates` never passes: C18); `check_dates` reports the first as `boilerplate-in-date` — the clause comes first although
    the class derives from `DateSyntaxError` — and the second as `invalid-date`, then continues with the next value -/
theorem date_errors_caught :
    let cd := site "lib/check/__init__.py" "Checker.check_dates" 1
    (dispatch cd.handlers (cls "lib.gettext.BoilerplateDate")).map view = some (["lib.gettext.BoilerplateDate"], ["boilerplate-in-date"], .cont) ∧
    (dispatch cd.handlers (cls "lib.gettext.DateSyntaxError")).map view = some (["lib.gettext.DateSyntaxError"], ["invalid-date"], .cont) ∧
    isSub (cls "lib.gettext.BoilerplateDate") (cls "lib.gettext.DateSyntaxError") = true ∧
    ((raiseSites.filter (fun (f, fn, _) => f == "lib/gettext.py" && (fn == "fix_date_format" || fn == "parse_date"))).all fun (_, _, c) =>
      isSub c (cls "lib.gettext.DateSyntaxError") || c == cls "builtins.ValueError") = true ∧
    -- strptime's ValueError becomes DateSyntaxError in both places
    (dispatch (site "lib/gettext.py" "parse_date" 0).handlers (cls "builtins.ValueError")).map (·.fin) = some (.raises [cls "lib.gettext.DateSyntaxError"]) := by
  decide

/-- **XML**: expat's `ExpatError` (= `xml.SyntaxError`) is caught at both calls of `xml.check_fragment` -/
theorem xml_errors_caught :
    (dispatch (site "lib/check/__init__.py" "Checker._check_message_xml_format" 0).handlers (cls "xml.parsers.expat.ExpatError")).map (fun h => (h.tags, h.fin))
      = some (["malformed-xml"], .ret) ∧
    (dispatch (site "lib/check/__init__.py" "Checker._check_message_xml_format" 1).handlers (cls "xml.parsers.expat.ExpatError")).map (fun h => (h.tags, h.fin))
      = some (["malformed-xml"], .fallthrough) := by
  decide

/-- **charset**: an unknown encoding name (`EncodingLookupError`) is `unknown-encoding` / `boilerplate-in-content-type` -/
theorem charset_errors_caught :
    (dispatch (site "lib/check/__init__.py" "Checker.check_mime" 0).handlers (cls "lib.encodings.EncodingLookupError")).map (fun h => (h.tags, h.fin))
      = some (["boilerplate-in-content-type", "unknown-encoding"], .fallthrough) ∧
    isSub (cls "lib.encodings.EncodingLookupError") (cls "builtins.LookupError") = true := by
  decide

/-- **language**: both `LanguageError` subclasses are caught wherever `check_language` parses or fixes a locale name, the
    `LookupError` of `get_language_for_name` wherever it looks a name up; on the command line `-l` is rejected through `ap.error` -/
theorem language_errors_caught :
    ([1, 2, 3, 5].all fun k =>
      [cls "lib.ling.LanguageSyntaxError", cls "lib.ling.FixingLanguageCodesFailed", cls "lib.ling.LanguageError"].all fun c =>
        (dispatch (site "lib/check/__init__.py" "Checker.check_language" k).handlers c).map (·.fin) == some .fallthrough) = true ∧
    ([4, 6].all fun k =>
      (dispatch (site "lib/check/__init__.py" "Checker.check_language" k).handlers (cls "builtins.LookupError")).map (·.fin) == some .fallthrough) = true ∧
    (dispatch (site "lib/cli.py" "main" 0).handlers (cls "lib.ling.LanguageSyntaxError")).isSome = true ∧
    (dispatch (site "lib/cli.py" "main" 0).handlers (cls "lib.ling.FixingLanguageCodesFailed")).isSome = true := by
  decide

/-- **Debian packages**: a helper that fails (`CalledProcessError`) is turned into `UnsupportedFileType`, which `check_file`
    catches (`pass`) before checking the path as a regular file (/repo 4ff67ee) -/
theorem deb_errors_caught :
    (dispatch (site "lib/cli.py" "check_deb" 0).handlers (cls "subprocess.CalledProcessError")).map (·.fin) = some (.raises [cls "lib.cli.UnsupportedFileType"]) ∧
    (dispatch (site "lib/cli.py" "check_file" 0).handlers (cls "lib.cli.UnsupportedFileType")).map (·.fin) = some .pass := by
  decide

/-- the three `try` statements of `Checker.check`, as the model `Check.check` assumes them -/
theorem check_sites_pin :
    checkStat.handlers.map view = [(["builtins.OSError"], ["os-error"], .ret)] ∧
    checkInner.handlers.map view = [(["builtins.UnicodeDecodeError"], [], .fallthrough)] ∧
    checkOuter.handlers.map view = [(["lib.moparser.SyntaxError"], ["invalid-mo-file"], .ret),
                                    (["builtins.OSError"], ["os-error", "syntax-error-in-po-file"], .mayReraise)] ∧
    checkOuter.hasFinally = true ∧ checkOuter.finallyTags = ["broken-encoding"] := by
  decide

/-- **how `Checker.check` classifies what a loader raises**, for EVERY class of the table and every value of the two
    attributes it looks at: `UnicodeDecodeError` (only) is retried; `moparser.SyntaxError` is `invalid-mo-file`; an `OSError`
    (any subclass) is `os-error` if it carries an errno, `syntax-error-in-po-file` if its text says so, re-raised otherwise;
    anything else is not handled.  On the retry a second `UnicodeDecodeError` is not handled. -/
theorem loader_classification :
    ((List.range classNames.length).all fun c => [true, false].all fun en => [true, false].all fun tx =>
      let r : Raised := ⟨c, en, tx⟩
      (loadErrOf r ==
        (if c = cls "builtins.UnicodeDecodeError" then LoadErr.unicodeDecode
         else if c = cls "lib.moparser.SyntaxError" then .moSyntax
         else if isSub c (cls "builtins.OSError") then (if en then .osErrno else if tx then .poSyntax else .osOther)
         else .other)) &&
      (loadErrOfRetry r ==
        (if c = cls "builtins.UnicodeDecodeError" then LoadErr.unicodeDecode
         else if c = cls "lib.moparser.SyntaxError" then .moSyntax
         else if isSub c (cls "builtins.OSError") then (if en then .osErrno else if tx then .poSyntax else .osOther)
         else .other))) = true ∧
    LoadErr.handledRetry .unicodeDecode = false := by
  decide

/-- the two exceptions the MO loader raises (C09) are the two `Model/Pipeline.moLoad` maps them to, and every flavour of "the
    file cannot be read" that `open()` reports (an `OSError` subclass carrying an errno) is `os-error` — on the first call and on
    the retry; polib's own `OSError('Syntax error in po file …')` (no errno) is `syntax-error-in-po-file` -/
theorem loader_classes :
    (∀ en tx, loadErrOf ⟨cls "lib.moparser.SyntaxError", en, tx⟩ = .moSyntax ∧ loadErrOfRetry ⟨cls "lib.moparser.SyntaxError", en, tx⟩ = .moSyntax) ∧
    (∀ en tx, loadErrOf ⟨cls "builtins.UnicodeDecodeError", en, tx⟩ = .unicodeDecode) ∧
    (["builtins.OSError", "builtins.PermissionError", "builtins.FileNotFoundError", "builtins.IsADirectoryError", "builtins.NotADirectoryError"].all fun n =>
      [true, false].all fun tx => loadErrOf ⟨cls n, true, tx⟩ == .osErrno && loadErrOfRetry ⟨cls n, true, tx⟩ == .osErrno) = true ∧
    loadErrOf ⟨cls "builtins.OSError", false, true⟩ = .poSyntax ∧ loadErrOf ⟨cls "builtins.OSError", false, false⟩ = .osOther ∧
    -- a bare UnicodeError (what idna/punycode raise for malformed input) is NOT handled: lib/encodings.decode has to convert it (ded8ac2)
    loadErrOf ⟨cls "builtins.UnicodeError", false, false⟩ = .other := by
  refine ⟨?_, ?_, by decide, by decide, by decide, by decide⟩
  · intro en tx; cases en <;> cases tx <;> decide
  · intro en tx; cases en <;> cases tx <;> decide

/-! ## 2. `check_string` over the tables -/

theorem warnLoop_total (t : TrySite) (ws : List Cls) (h : ∀ w ∈ ws, (dispatch t.handlers w).isSome = true) :
    (warnLoop t ws).2 = none := by
  induction ws with
  | nil => rfl
  | cons w ws ih =>
    have hw := h w (by simp)
    unfold warnLoop
    cases hd : dispatch t.handlers w with
    | none => rw [hd] at hw; cases hw
    | some hh => simp only; exact ih (fun w' hm => h w' (List.mem_cons_of_mem _ hm))

/-- **`check_string` lets no exception escape** when the parser raises only classes the first `try` catches and records only
    warnings the second one catches -/
theorem checkString_nocrash {φ : Type} (errSite : TrySite) (warnSite : Option TrySite) (p : Parse φ)
    (herr : ∀ c, p = .raised c → (dispatch errSite.handlers c).isSome = true)
    (hwarn : ∀ f ws t, p = .ok (f, ws) → warnSite = some t → ∀ w ∈ ws, (dispatch t.handlers w).isSome = true) :
    (checkString errSite warnSite p).uncaught = none := by
  unfold checkString
  cases p with
  | raised c =>
    have := herr c rfl
    cases hd : dispatch errSite.handlers c with
    | none => rw [hd] at this; cases this
    | some h => simp [hd]
  | ok fw =>
    obtain ⟨f, ws⟩ := fw
    cases warnSite with
    | none => rfl
    | some t => exact warnLoop_total t ws (hwarn f ws t rfl rfl)

/-- a parse error is reported by exactly the tag of the clause that caught it, and `check_string` returns `None` -/
theorem checkString_error {φ : Type} (errSite : TrySite) (warnSite : Option TrySite) (c : Cls) (h : Handler)
    (hd : dispatch errSite.handlers c = some h) :
    (checkString (φ := φ) errSite warnSite (.raised c)).fmt = none ∧
    (checkString (φ := φ) errSite warnSite (.raised c)).tags = h.tags.take 1 := by
  unfold checkString
  simp [hd]

theorem c_own_caught (e : CFmt.CErr) (h : e.own = true) : (dispatch cErrSite.handlers (cErrCls e)).isSome = true := by
  cases e <;> first | (cases h; done) | decide

theorem c_warn_caught (w : CFmt.Warn) : (dispatch cWarnSite.handlers (cWarnCls w)).isSome = true := by
  cases w <;> decide

/-- **`msgformat.c.Checker.check_string` never raises**, for every string (C11: the parser raises only its own `Error` classes) -/
theorem cCheckString_nocrash (s : List Char) : (cCheckString s).uncaught = none := by
  apply checkString_nocrash
  · intro c hc
    unfold cParse at hc
    cases hp : CFmt.parse s with
    | ok r => rw [hp] at hc; cases hc
    | error e =>
      rw [hp] at hc
      cases hc
      exact c_own_caught e (C11.parse_error_own hp)
  · intro f ws t hp ht w hw
    cases ht
    unfold cParse at hp
    cases hq : CFmt.parse s with
    | error e => rw [hq] at hp; cases hp
    | ok r =>
      rw [hq] at hp
      cases hp
      obtain ⟨x, _, rfl⟩ := List.mem_map.1 hw
      exact c_warn_caught x

/-- an ill-formed C format string is reported as `c-format-string-error`, whatever the error -/
theorem cCheckString_error_tag (s : List Char) (e : CFmt.CErr) (h : CFmt.parse s = .error e) :
    (cCheckString s).fmt = none ∧ (cCheckString s).tags = ["c-format-string-error"] := by
  have hown := C11.parse_error_own h
  unfold cCheckString cParse
  rw [h]
  cases e <;> first | (cases hown; done) | decide

theorem py_own_caught (e : PyFmt.PErr) (h : e.own = true) : (dispatch pyErrSite.handlers (pErrCls e)).isSome = true := by
  cases e <;> first | (cases h; done) | decide

theorem py_warn_caught (w : PyFmt.Warn) : (dispatch pyWarnSite.handlers (pWarnCls w)).isSome = true := by
  cases w <;> decide

/-- **`msgformat.python.Checker.check_string` never raises** (C12 `error_own`) -/
theorem pyCheckString_nocrash (s : List Char) : (pyCheckString s).uncaught = none := by
  apply checkString_nocrash
  · intro c hc
    unfold pyParse at hc
    cases hp : PyFmt.parse s with
    | ok r => rw [hp] at hc; cases hc
    | error e =>
      rw [hp] at hc
      cases hc
      exact py_own_caught e (C12.error_own hp)
  · intro f ws t hp ht w hw
    cases ht
    unfold pyParse at hp
    cases hq : PyFmt.parse s with
    | error e => rw [hq] at hp; cases hp
    | ok r =>
      rw [hq] at hp
      cases hp
      obtain ⟨x, _, rfl⟩ := List.mem_map.1 hw
      exact py_warn_caught x

theorem pyCheckString_error_tag (s : List Char) (e : PyFmt.PErr) (h : PyFmt.parse s = .error e) :
    (pyCheckString s).fmt = none ∧ (pyCheckString s).tags = ["python-format-string-error"] := by
  have hown := C12.error_own h
  unfold pyCheckString pyParse
  rw [h]
  cases e <;> first | (cases hown; done) | decide

/-- the brace backends (python-brace, perl-brace): `check_string` never raises PROVIDED the parser raises only classes deriving
    from its module's `Error` — the closure statement C13 is to deliver for lib/strformat/pybrace.py and perlbrace.py
    (they record no warnings: `warnings_caught`) -/
theorem braceCheckString_nocrash {φ : Type} (fmt : String) (hf : fmt = "python-brace" ∨ fmt = "perl-brace") (p : Parse φ)
    (c13_own : ∀ c, p = .raised c → ∃ row ∈ ownErrors, row.1 = fmt ∧ row.2.2.2.contains c = true ∧ isSub c row.2.2.1 = true) :
    (checkString (checkStringSite fmt) none p).uncaught = none := by
  apply checkString_nocrash
  · intro c hc
    obtain ⟨row, hrow, hfmt, hc', hsub⟩ := c13_own c hc
    have hall := strformat_errors_caught.2
    rw [List.all_eq_true] at hall
    have h1 := hall row hrow
    obtain ⟨f, b, err, defined⟩ := row
    simp only at hfmt hc' hsub
    subst hfmt
    simp only [Bool.and_eq_true, List.all_eq_true] at h1
    have h2 := h1.1.2 c (List.contains_iff_mem.1 hc')
    rw [hsub] at h2
    simp only [Bool.not_true, Bool.false_or, caughtAsError, Bool.and_eq_true] at h2
    cases hd : dispatch (checkStringSite f).handlers c with
    | none => rw [hd] at h2; simp at h2
    | some h => rfl
  · intro f ws t _ ht
    cases ht

theorem pybrace_own_caught (c : PyBrace.ErrClass) (a : PyBrace.ErrArg) :
    (dispatch pybraceErrSite.handlers (braceErrCls (.own c a))).map (·.tags) = some ["python-brace-format-string-error"] := by
  cases c <;> simp only [braceErrCls, PyBrace.ErrClass.name] <;> decide

/-- **`msgformat.pybrace.Checker.check_string` never raises**, for every string (C13 `brace_error_own`: the parser raises only
    its module's `Error` classes — the `assert`s, `int()`, `_printable_prefix` are unreachable) -/
theorem pybraceCheckString_nocrash (s : List Char) : (pybraceCheckString s).uncaught = none := by
  apply checkString_nocrash
  · intro c hc
    unfold pybraceParse at hc
    cases hp : PyBrace.parse s with
    | ok r => rw [hp] at hc; cases hc
    | error e =>
      rw [hp] at hc
      cases hc
      obtain ⟨cl, a, rfl⟩ := C13.brace_error_own hp
      have := pybrace_own_caught cl a
      cases hd : dispatch pybraceErrSite.handlers (braceErrCls (.own cl a)) with
      | none => rw [hd] at this; cases this
      | some h => rfl
  · intro f ws t _ ht
    cases ht

theorem pybraceCheckString_error_tag (s : List Char) (e : PyBrace.PErr) (h : PyBrace.parse s = .error e) :
    (pybraceCheckString s).fmt = none ∧ (pybraceCheckString s).tags = ["python-brace-format-string-error"] := by
  obtain ⟨cl, a, rfl⟩ := C13.brace_error_own h
  have hc := pybrace_own_caught cl a
  cases hd : dispatch pybraceErrSite.handlers (braceErrCls (.own cl a)) with
  | none => rw [hd] at hc; cases hc
  | some hh =>
    rw [hd] at hc
    simp only [Option.map_some, Option.some.injEq] at hc
    have := checkString_error (φ := PyBrace.Result) pybraceErrSite none _ hh hd
    unfold pybraceCheckString pybraceParse
    rw [h]
    simp only
    rw [this.1, this.2, hc]
    exact ⟨rfl, rfl⟩

theorem perl_own_caught : (dispatch perlbraceErrSite.handlers (clsId "lib.strformat.perlbrace.Error")).map (·.tags)
    = some ["perl-brace-format-string-error"] := by decide

/-- **`msgformat.perlbrace.Checker.check_string` never raises** (C13 `perl_error_own`) -/
theorem perlbraceCheckString_nocrash (s : List Char) : (perlbraceCheckString s).uncaught = none := by
  apply checkString_nocrash
  · intro c hc
    unfold perlbraceParse at hc
    cases hp : PerlBrace.parse s with
    | ok r => rw [hp] at hc; cases hc
    | error e =>
      rw [hp] at hc
      cases hc
      obtain ⟨p, rfl⟩ := C13.perl_error_own hp
      have := perl_own_caught
      simp only [perlErrCls]
      cases hd : dispatch perlbraceErrSite.handlers (clsId "lib.strformat.perlbrace.Error") with
      | none => rw [hd] at this; cases this
      | some h => rfl
  · intro f ws t _ ht
    cases ht

/-! ## 3. the stages -/

theorem runStages_total {σ τ : Type} (stages : List (Stage σ τ)) (h : ∀ st ∈ stages, ∀ s, (st s).2.2 = false) (s : σ) :
    (runStages stages s).2 = false := by
  induction stages generalizing s with
  | nil => rfl
  | cons st rest ih =>
    have h1 := h st (by simp) s
    unfold runStages
    rcases hst : st s with ⟨s', out, r⟩
    rw [hst] at h1
    simp only at h1
    subst h1
    simp only
    exact ih (fun st' hm => h st' (List.mem_cons_of_mem _ hm)) s'

/-- if the stages raise, one of them raised at some state -/
theorem runStages_raise {σ τ : Type} (stages : List (Stage σ τ)) (s : σ) (h : (runStages stages s).2 = true) :
    ∃ st ∈ stages, ∃ s', (st s').2.2 = true := by
  induction stages generalizing s with
  | nil => simp [runStages] at h
  | cons st rest ih =>
    unfold runStages at h
    rcases hst : st s with ⟨s', out, r⟩
    rw [hst] at h
    cases r with
    | true => exact ⟨st, by simp, s, by rw [hst]⟩
    | false =>
      simp only at h
      obtain ⟨st', hm, s'', hr⟩ := ih s' h
      exact ⟨st', List.mem_cons_of_mem _ hm, s'', hr⟩

/-- **`check_plurals` never raises**, for every Plural-Forms value, message list and language whose registry strings parse
    (C05 `codomain_nocrash`, C06 `period_nocrash`, C07 `window_nocrash` / `gap_nocrash`, and the lexer's `ValueError` outcome
    being unreachable since `fix:` 871d4d7) — in the model, which recurses structurally: see `recursion_budget` -/
theorem plurals_stage_total {σ : Type} (input : σ → CheckPlurals.Input) (store : σ → Option CheckPlurals.Preimage → σ)
    (hreg : ∀ s, CheckPlurals.RegistryParses (input s)) (s : σ) : (pluralsStage input store s).2.2 = false := by
  unfold pluralsStage
  cases h : CheckPlurals.checkPlurals (input s) with
  | ok out => rfl
  | error ex => exact absurd h (CheckPlurals.checkPlurals_nocrash (input s) (hreg s) ex)

/-- **`check_dates` never raises** (C18 `NoCrash`: the second `parse_date` cannot fail, the hint is well-formed, the length
    assertion holds) -/
theorem dates_stage_total {σ : Type} (input : σ → Date.Ctx) (s : σ) : (datesStage input s).2.2 = false := by
  unfold datesStage
  cases h : Date.checkDates (input s) with
  | some tags => rfl
  | none => exact absurd h (C18.NoCrash (input s))

/-- **`check_language` never raises** (C19 `check_language_nocrash`; without hypothesis on the path since /repo d16b49e) -/
theorem language_stage_total {σ : Type} (munch : List Char → List Char) (input : σ → Locale.Input)
    (store : σ → Option Locale.Language → σ) (s : σ) : (languageStage munch input store s).2.2 = false := by
  unfold languageStage
  obtain ⟨out, h⟩ := C19.check_language_nocrash munch (input s)
  rw [h]

/-- the evaluator raises nothing but overflow and division by zero (both reported as tags: `arithmetic_errors_caught`) -/
theorem eval_errors_closed {bits : Nat} (hb : 1 ≤ bits) (n : Int) (e : Expr) (ex : Py.Exc)
    (h : Plural.evalAt bits n e = .error ex) : ex = .Overflow ∨ ex = .ZeroDivision :=
  C04.eval_error_kinds hb n e ex h

/-! ### recursion: what the structural models do not show -/

/-- nesting depth of a plural expression as the AST-walking evaluators of lib/intexpr.py see it -/
def depth : Expr → Nat
  | .num _ | .name => 1
  | .unaryop _ e => depth e + 1
  | .binop a _ b => max (depth a) (depth b) + 1
  | .compare a _ b => max (depth a) (depth b) + 1
  | .boolop _ a b => max (depth a) (depth b) + 1
  | .ifexp c a b => max (depth c) (max (depth a) (depth b)) + 1

/-- `f` applied `k` times -/
def iter {α : Type} (f : α → α) : Nat → α → α
  | 0, a => a
  | k + 1, a => f (iter f k a)

/-- Python frames the concrete evaluator has on the stack at its deepest point: `_visit` + `_visit_<node>` per nesting level,
    plus `_visit(op)` → `_visit_<op>` → `_check_overflow` on top of the innermost operator (or `_check_overflow` under a leaf) -/
def framesNeeded (e : Expr) : Nat := 2 * depth e + 3

/-- left- and right-nested chains: `!`×k n and n (+ n)×k need 2k + 5 frames: linear in the length of the expression, so no
    fixed recursion limit covers every input (the open finding; `k = 600` is the replayed witness) -/
theorem recursion_budget (k : Nat) :
    framesNeeded (iter (Expr.unaryop .not) k .name) = 2 * k + 5 ∧
    framesNeeded (iter (fun e => Expr.binop e .add .name) k .name) = 2 * k + 5 := by
  have h1 : ∀ k, depth (iter (Expr.unaryop .not) k .name) = k + 1 := by
    intro k
    induction k with
    | zero => rfl
    | succ k ih => simp [iter, depth, ih]
  have h2 : ∀ k, depth (iter (fun e => Expr.binop e .add .name) k .name) = k + 1 := by
    intro k
    induction k with
    | zero => rfl
    | succ k ih => simp [iter, depth, ih]
  unfold framesNeeded
  rw [h1, h2]
  omega

/-! ## 4. `Checker.check` -/

variable {F σ τ : Type}

/-- **Exactly when an exception leaves `check()`**: the first loader call raised something that is neither retried nor
    mapped to a tag, or the retry did, or a `check_*` stage raised. -/
theorem check_uncaught_iff (statOk : Bool) (ext : Ext) (load : Bool → Except LoadErr F) (init : F → Bool → σ)
    (stages : List (Stage σ τ)) :
    (check statOk ext load init stages).uncaught = true ↔
      statOk = true ∧ ext ≠ .other ∧
      ((∃ e, load false = .error e ∧ e.handledFirst = false) ∨
       (load false = .error .unicodeDecode ∧ ∃ e, load true = .error e ∧ e.handledRetry = false) ∨
       (∃ f, load false = .ok f ∧ (runStages stages (init f false)).2 = true) ∨
       (load false = .error .unicodeDecode ∧ ∃ f, load true = .ok f ∧ (runStages stages (init f true)).2 = true)) := by
  unfold check
  cases statOk
  · simp
  · simp only [Bool.not_true, Bool.false_eq_true, if_false, true_and]
    by_cases he : ext = .other
    · simp [he]
    · simp only [he, if_false, ne_eq, not_false_eq_true, true_and]
      rcases h1 : load false with e1 | f
      · cases e1 <;> simp only [LoadErr.handledFirst, afterLoad] <;> try simp
        rcases h2 : load true with e2 | f2
        · cases e2 <;> simp [LoadErr.handledRetry]
        · simp [afterLoad]
      · simp [afterLoad]

/-- **The run returns normally** whenever the loader raises only what `check` is written to handle and no stage
    raises — whatever the file. -/
theorem check_total (statOk : Bool) (ext : Ext) (load : Bool → Except LoadErr F) (init : F → Bool → σ)
    (stages : List (Stage σ τ))
    (h1 : ∀ e, load false = .error e → e.handledFirst = true)
    (h2 : ∀ e, load true = .error e → e.handledRetry = true)
    (h3 : ∀ st ∈ stages, ∀ s, (st s).2.2 = false) :
    (check statOk ext load init stages).uncaught = false := by
  cases h : (check statOk ext load init stages).uncaught with
  | false => rfl
  | true =>
    exfalso
    obtain ⟨_, _, hc⟩ := (check_uncaught_iff statOk ext load init stages).1 h
    rcases hc with ⟨e, he, hf⟩ | ⟨_, e, he, hf⟩ | ⟨f, _, hr⟩ | ⟨_, f, _, hr⟩
    · rw [h1 e he] at hf; cases hf
    · rw [h2 e he] at hf; cases hf
    · rw [runStages_total stages h3] at hr; cases hr
    · rw [runStages_total stages h3] at hr; cases hr

/-- an unreadable path is reported as `os-error` and nothing else happens -/
theorem unreadable_is_tag (ext : Ext) (load : Bool → Except LoadErr F) (init : F → Bool → σ) (stages : List (Stage σ τ)) :
    check false ext load init stages = ⟨[.osError], false⟩ := rfl

/-- a file of another type is reported as `unknown-file-type`; it is not even opened -/
theorem unknown_type_is_tag (load : Bool → Except LoadErr F) (init : F → Bool → σ) (stages : List (Stage σ τ)) :
    check true .other load init stages = ⟨[.unknownFileType], false⟩ := rfl

/-- **A file the loader refuses is reported by exactly one tag** (`invalid-mo-file`, `os-error` or
    `syntax-error-in-po-file`), followed only by the pending `broken-encoding`; no `check_*` runs. -/
theorem loader_failure_lines (ext : Ext) (hext : ext ≠ .other) (load : Bool → Except LoadErr F) (init : F → Bool → σ)
    (stages : List (Stage σ τ)) (e : LoadErr) (he : e.handledRetry = true) :
    (load false = .error e → (check true ext load init stages).lines.length = 1 ∧
        (check true ext load init stages).uncaught = false ∧
        ∀ t, Line.tag t ∉ (check true ext load init stages).lines) ∧
    (load false = .error .unicodeDecode → load true = .error e →
        (∃ l, (check true ext load init stages).lines = [l, .brokenEncoding]) ∧
        (check true ext load init stages).uncaught = false) := by
  unfold check
  simp only [Bool.not_true, Bool.false_eq_true, if_false, hext]
  constructor
  · intro h1
    rw [h1]
    cases e <;> simp [LoadErr.handledRetry] at he <;> simp
  · intro h1 h2
    rw [h1]
    simp only [h2]
    cases e <;> simp [LoadErr.handledRetry] at he <;> simp

/-- `broken-encoding` is printed iff the first loader call raised `UnicodeDecodeError` -/
theorem broken_encoding_iff (ext : Ext) (hext : ext ≠ .other) (load : Bool → Except LoadErr F) (init : F → Bool → σ)
    (stages : List (Stage σ τ)) :
    Line.brokenEncoding ∈ (check true ext load init stages).lines ↔ load false = .error .unicodeDecode := by
  unfold check
  simp only [Bool.not_true, Bool.false_eq_true, if_false, hext]
  rcases h1 : load false with e1 | f
  · cases e1 <;> simp [afterLoad]
    rcases h2 : load true with e2 | f2
    · cases e2 <;> simp
    · simp [afterLoad]
  · simp [afterLoad]

/-! ### the MO loader (C09) -/

theorem moLoad_first (db : Mo.CodecDB) (view : Mo.Bytes) (e : LoadErr) (he : moLoad db view false = .error e) :
    e.handledFirst = true := by
  unfold moLoad at he
  simp only [Bool.false_eq_true, if_false] at he
  rcases hp : Mo.parse db none view with (x | _ | c) | f <;> rw [hp] at he <;> simp only at he
  · cases he; rfl
  · cases he; rfl
  · exact absurd hp (C09.parse_total_closed db none view c)
  · cases he

theorem moLoad_retry (db : Mo.CodecDB) (hl : C09.Latin1OK db) (view : Mo.Bytes) (e : LoadErr) (he : moLoad db view true = .error e) :
    e.handledRetry = true := by
  unfold moLoad at he
  simp only [if_true] at he
  rcases hp : Mo.parse db (some Mo.latin1Name) view with (x | _ | c) | f <;> rw [hp] at he <;> simp only at he
  · cases he; rfl
  · exact absurd hp (Mo.parse_no_decode db hl.compat hl.total view)
  · exact absurd hp (C09.parse_total_closed db _ view c)
  · cases he

/-- **Every byte string with an MO extension**: the loader raises only `moparser.SyntaxError` or
    `UnicodeDecodeError` (C09 `parse_total_closed`), the ISO-8859-1 retry cannot raise the latter, so if no `check_*`
    stage raises the run returns normally. -/
theorem mo_check_total (db : Mo.CodecDB) (hl : C09.Latin1OK db) (view : Mo.Bytes) (init : Mo.MoFile → Bool → σ)
    (stages : List (Stage σ τ)) (h3 : ∀ st ∈ stages, ∀ s, (st s).2.2 = false) :
    (check true .mo (moLoad db view) init stages).uncaught = false :=
  check_total _ _ _ _ _ (moLoad_first db view) (moLoad_retry db hl view) h3

/-- the loading phase of this model is C09's `checkerLoad`, tag for tag -/
theorem mo_load_agrees (db : Mo.CodecDB) (view : Mo.Bytes) :
    ((Mo.checkerLoad db view).uncaught.isSome =
      (check (σ := Unit) (τ := Unit) true .mo (moLoad db view) (fun _ _ => ()) []).uncaught) := by
  unfold Mo.checkerLoad check moLoad
  simp only [Bool.not_true, Bool.false_eq_true, if_false, if_true]
  rcases h1 : Mo.parse db none view with (x | _ | c) | f <;> simp [afterLoad, runStages]
  rcases h2 : Mo.parse db (some Mo.latin1Name) view with (x | _ | c) | f <;> simp [afterLoad]

/-! ## 5. the command line: exit status, stderr, `-j`, `--unpack-deb` -/

theorem runSeq_ok {α : Type} (checkFile : α → Cli.FileRun) (paths : List α) (h : ∀ p ∈ paths, (checkFile p).uncaught = false) :
    Cli.runSeq checkFile paths = ((paths.map fun p => (checkFile p).lines).flatten, false) := by
  induction paths with
  | nil => rfl
  | cons p ps ih =>
    unfold Cli.runSeq
    simp only [h p (by simp), Bool.false_eq_true, if_false, List.map_cons, List.flatten_cons]
    rw [ih (fun q hq => h q (List.mem_cons_of_mem _ hq))]

theorem runPar_ok {α : Type} (checkFile : α → Cli.FileRun) (paths : List α) (h : ∀ p ∈ paths, (checkFile p).uncaught = false) :
    Cli.runPar checkFile paths = ((paths.map fun p => (checkFile p).lines).flatten, false) := by
  induction paths with
  | nil => rfl
  | cons p ps ih =>
    unfold Cli.runPar
    simp only [h p (by simp), Bool.false_eq_true, if_false, List.map_cons, List.flatten_cons]
    rw [ih (fun q hq => h q (List.mem_cons_of_mem _ hq))]

theorem runSeq_fails_iff {α : Type} (checkFile : α → Cli.FileRun) (paths : List α) :
    (Cli.runSeq checkFile paths).2 = true ↔ ∃ p ∈ paths, (checkFile p).uncaught = true := by
  induction paths with
  | nil => simp [Cli.runSeq]
  | cons p ps ih =>
    unfold Cli.runSeq
    cases hp : (checkFile p).uncaught with
    | true => simp [hp]
    | false => simp [hp, ih]

theorem runPar_fails_iff {α : Type} (checkFile : α → Cli.FileRun) (paths : List α) :
    (Cli.runPar checkFile paths).2 = true ↔ ∃ p ∈ paths, (checkFile p).uncaught = true := by
  induction paths with
  | nil => simp [Cli.runPar]
  | cons p ps ih =>
    unfold Cli.runPar
    cases hp : (checkFile p).uncaught with
    | true => simp [hp]
    | false => simp [hp, ih]

/-- **the exit status is 0 iff `-l` was not rejected and no `check_file` call raised** — in particular a tag, of whatever
    severity, never changes it; stderr is empty in exactly the same case -/
theorem main_rc_zero_iff {α : Type} (lang : Cli.LangOpt) (checkFile : α → Cli.FileRun) (paths : List α) (jobs : Nat) :
    ((Cli.main lang checkFile paths jobs).rc = 0 ↔ lang ≠ .invalid ∧ ∀ p ∈ paths, (checkFile p).uncaught = false) ∧
    ((Cli.main lang checkFile paths jobs).stderr = false ↔ (Cli.main lang checkFile paths jobs).rc = 0) := by
  have key : ∀ (r : List String × Bool), (r.2 = true ↔ ∃ p ∈ paths, (checkFile p).uncaught = true) →
      (((if r.2 = true then 1 else 0 : Nat) = 0 ↔ ∀ p ∈ paths, (checkFile p).uncaught = false) ∧
       (r.2 = false ↔ (if r.2 = true then 1 else 0 : Nat) = 0)) := by
    intro r hr
    cases h2 : r.2 with
    | true =>
      obtain ⟨p, hp, hu⟩ := hr.1 h2
      refine ⟨⟨fun h => by simp at h, fun h => ?_⟩, by simp⟩
      rw [h p hp] at hu; cases hu
    | false =>
      refine ⟨⟨fun _ p hp => ?_, fun _ => by simp⟩, by simp⟩
      cases hu : (checkFile p).uncaught with
      | false => rfl
      | true => rw [hr.2 ⟨p, hp, hu⟩] at h2; cases h2
  unfold Cli.main
  by_cases hl : lang = .invalid
  · simp [hl]
  · simp only [hl, if_false, ne_eq, not_false_eq_true, true_and]
    by_cases hj : paths.length ≤ 1 ∨ jobs ≤ 1
    · simp only [hj, if_true]
      exact key _ (runSeq_fails_iff checkFile paths)
    · simp only [hj, if_false]
      exact key _ (runPar_fails_iff checkFile paths)

/-- when nothing raises, the run prints the per-file lines in argument order, exits 0 with empty stderr — whatever `-j` -/
theorem main_ok {α : Type} (lang : Cli.LangOpt) (hl : lang ≠ .invalid) (checkFile : α → Cli.FileRun) (paths : List α) (jobs : Nat)
    (h : ∀ p ∈ paths, (checkFile p).uncaught = false) :
    Cli.main lang checkFile paths jobs = ⟨(paths.map fun p => (checkFile p).lines).flatten, false, 0⟩ := by
  unfold Cli.main
  simp only [hl, if_false]
  by_cases hj : paths.length ≤ 1 ∨ jobs ≤ 1
  · simp [hj, runSeq_ok checkFile paths h]
  · simp [hj, runPar_ok checkFile paths h]

/-- a rejected `-l` ends the run before any file is read: usage error, status 2 (not a "valid combination of options") -/
theorem main_invalid_language {α : Type} (checkFile : α → Cli.FileRun) (paths : List α) (jobs : Nat) :
    Cli.main .invalid checkFile paths jobs = ⟨[], true, 2⟩ := rfl

/-- `check_file` with `--unpack-deb`: no exception if checking the path itself and checking every member raise none — also
    when the helper cannot unpack the file (/repo 4ff67ee) -/
theorem checkFile_ok {α : Type} (unpackDeb : Bool) (deb : α → Cli.DebOutcome α) (regular members : α → Cli.FileRun) (p : α)
    (h1 : (regular p).uncaught = false) (h2 : ∀ ms, deb p = .members ms → ∀ m ∈ ms, (members m).uncaught = false) :
    (Cli.checkFile unpackDeb deb regular members p).uncaught = false := by
  unfold Cli.checkFile
  cases unpackDeb with
  | false => exact h1
  | true =>
    simp only [if_true]
    cases hd : deb p with
    | notPackage => exact h1
    | unpackFailed => exact h1
    | members ms =>
      simp only
      rw [runSeq_ok members ms (h2 ms hd)]

/-! ## 6. the composition -/

/-- one command-line argument, as far as `Checker.check` distinguishes -/
inductive FileIn (F σ : Type) where
  /-- `os.stat` fails (missing, dangling link, no permission on a directory of the path), whatever the extension -/
  | unreadable
  /-- an extension (or `--file-type`) that is none of po, pot, mo, gmo -/
  | otherType
  /-- `.mo` / `.gmo`: any byte string -/
  | mo (db : Mo.CodecDB) (view : Mo.Bytes) (init : Mo.MoFile → Bool → σ)
  /-- `.po` / `.pot`: the file as `polib.pofile` sees it (a loader with its retry) -/
  | po (template : Bool) (load : Bool → Except LoadErr F) (init : F → Bool → σ)

/-- **what the component models still being built must deliver** — one field per closure statement, named after the property
    that owns it; at merge time each is discharged by that property's theorem, as `language`, `plurals` and `dates` are here -/
structure Pending {F σ : Type} (st : Stages σ) (files : List (FileIn F σ)) : Prop where
  /-- C10 (`Model/Po.lean`): `polib.pofile(path)` raises only `UnicodeDecodeError`, `OSError` with an errno, or the
      `OSError('Syntax error in po file …')` of polib's parser -/
  c10_po_loader_first : ∀ t load init, FileIn.po t load init ∈ files → ∀ e, load false = .error e → e.handledFirst = true
  /-- C10: the ISO-8859-1 retry raises none but the last two -/
  c10_po_loader_retry : ∀ t load init, FileIn.po t load init ∈ files → ∀ e, load true = .error e → e.handledRetry = true
  /-- C09 side condition on the codec table: ISO-8859-1 is ASCII-compatible and total (true of CPython's) -/
  c09_latin1 : ∀ db view init, FileIn.mo db view init ∈ files → C09.Latin1OK db
  /-- C15 (`Model/Hdr.lean`): the header stages raise nothing (`check_mime` includes the codec calls C20 proves closed) -/
  c15_comments : ∀ s, (st.comments s).2.2 = false
  c15_headers : ∀ s, (st.headers s).2.2 = false
  c15_mime : ∀ s, (st.mime s).2.2 = false
  c15_project : ∀ s, (st.project s).2.2 = false
  c15_translator : ∀ s, (st.translator s).2.2 = false
  /-- C16 (`Model/Msg.lean`), resting on C13 (brace parsers raise only their own `Error`: `braceCheckString_nocrash`) and C14
      (`check_args` raises nothing); the C and Python `check_string` calls inside are `cCheckString_nocrash` / `pyCheckString_nocrash` -/
  c16_messages : ∀ s, (st.messages s).2.2 = false

/-- `check_file(path)` for such an argument (without `--unpack-deb`: `checkFile_ok` adds it) -/
def FileIn.run {F σ : Type} (fmt : Line TagName → String) (st : Stages σ) : FileIn F σ → Cli.FileRun
  | .unreadable => ⟨[fmt .osError], false⟩
  | .otherType => ⟨[fmt .unknownFileType], false⟩
  | .mo db view init => regularRun fmt true .mo (moLoad db view) init st
  | .po t load init => regularRun fmt true (if t then .pot else .po) load init st

/-- the two short cases are what `Checker.check` does, whatever the loader would have done -/
theorem run_unreadable {F σ : Type} (fmt : Line TagName → String) (st : Stages σ) (ext : Ext) (load : Bool → Except LoadErr F)
    (init : F → Bool → σ) :
    regularRun fmt false ext load init st = FileIn.run (F := F) fmt st .unreadable ∧
    regularRun fmt true .other load init st = FileIn.run (F := F) fmt st .otherType := ⟨rfl, rfl⟩

/-- with the three discharged stages in place and the pending ones assumed, no stage raises -/
theorem stages_total {F σ : Type} (st : Stages σ) (files : List (FileIn F σ)) (pend : Pending st files)
    (munch : List Char → List Char) (inL : σ → Locale.Input) (storeL : σ → Option Locale.Language → σ)
    (inP : σ → CheckPlurals.Input) (storeP : σ → Option CheckPlurals.Preimage → σ) (inD : σ → Date.Ctx)
    (hlang : st.language = languageStage munch inL storeL)
    (hplur : st.plurals = pluralsStage inP storeP) (hreg : ∀ s, CheckPlurals.RegistryParses (inP s))
    (hdates : st.dates = datesStage inD) :
    ∀ sg ∈ st.list, ∀ s, (sg s).2.2 = false := by
  intro sg hm s
  simp only [Stages.list, List.mem_cons, List.not_mem_nil, or_false] at hm
  rcases hm with rfl | rfl | rfl | rfl | rfl | rfl | rfl | rfl | rfl
  · exact pend.c15_comments s
  · exact pend.c15_headers s
  · rw [hlang]; exact language_stage_total munch inL storeL s
  · rw [hplur]; exact plurals_stage_total inP storeP hreg s
  · exact pend.c15_mime s
  · rw [hdates]; exact dates_stage_total inD s
  · exact pend.c15_project s
  · exact pend.c15_translator s
  · exact pend.c16_messages s

/-- **pipeline_nocrash** — for every list of arguments (unreadable paths, files of another type, arbitrary byte strings with
    an MO extension, PO/POT files), every `-l` that is not rejected, every `-j`: the process exits with status 0, writes
    nothing to stderr, and every stdout line is the rendering of a tag call (`fmt`, i.e. C02's `Tag.format`).
    Discharged here for all inputs: the MO loader (C09), `check_language` (C19), `check_plurals` (C04–C07; registry strings
    parse), `check_dates` (C18).  Assumed, by name: `Pending` (C10, C15, C16 ⊇ C13, C14). -/
theorem pipeline_nocrash {F σ : Type} (fmt : Line TagName → String) (st : Stages σ) (files : List (FileIn F σ))
    (munch : List Char → List Char) (inL : σ → Locale.Input) (storeL : σ → Option Locale.Language → σ)
    (inP : σ → CheckPlurals.Input) (storeP : σ → Option CheckPlurals.Preimage → σ) (inD : σ → Date.Ctx)
    (hlang : st.language = languageStage munch inL storeL)
    (hplur : st.plurals = pluralsStage inP storeP) (hreg : ∀ s, CheckPlurals.RegistryParses (inP s))
    (hdates : st.dates = datesStage inD)
    (pend : Pending st files) (lang : Cli.LangOpt) (hl : lang ≠ .invalid) (jobs : Nat) :
    (Cli.main lang (FileIn.run fmt st) files jobs).rc = 0 ∧
    (Cli.main lang (FileIn.run fmt st) files jobs).stderr = false ∧
    ∀ l ∈ (Cli.main lang (FileIn.run fmt st) files jobs).stdout, ∃ x : Line TagName, l = fmt x := by
  have hst := stages_total st files pend munch inL storeL inP storeP inD hlang hplur hreg hdates
  have hfile : ∀ f ∈ files, (FileIn.run fmt st f).uncaught = false := by
    intro f hf
    cases f with
    | unreadable => rfl
    | otherType => rfl
    | mo db view init =>
      exact mo_check_total db (pend.c09_latin1 db view init hf) view init st.list hst
    | po t load init =>
      exact check_total _ _ _ _ _ (pend.c10_po_loader_first t load init hf) (pend.c10_po_loader_retry t load init hf) hst
  rw [main_ok lang hl _ files jobs hfile]
  refine ⟨rfl, rfl, ?_⟩
  intro l hl'
  simp only [List.mem_flatten, List.mem_map] at hl'
  obtain ⟨ls, ⟨f, _, rfl⟩, hmem⟩ := hl'
  cases f with
  | unreadable => simp only [FileIn.run, List.mem_singleton] at hmem; exact ⟨_, hmem⟩
  | otherType => simp only [FileIn.run, List.mem_singleton] at hmem; exact ⟨_, hmem⟩
  | mo db view init =>
    simp only [FileIn.run, regularRun, List.mem_map] at hmem
    obtain ⟨x, _, rfl⟩ := hmem
    exact ⟨x, rfl⟩
  | po t load init =>
    simp only [FileIn.run, regularRun, List.mem_map] at hmem
    obtain ⟨x, _, rfl⟩ := hmem
    exact ⟨x, rfl⟩

/-- the converse direction, so that the hypotheses are seen to be needed: if a stage raises on the state a loaded file
    produces, the run ends with a traceback and status 1 -/
theorem pipeline_crash_visible {F σ : Type} (fmt : Line TagName → String) (st : Stages σ) (load : Bool → Except LoadErr F)
    (init : F → Bool → σ) (f : F) (hload : load false = .ok f) (hraise : (runStages st.list (init f false)).2 = true)
    (lang : Cli.LangOpt) (hl : lang ≠ .invalid) (jobs : Nat) :
    (Cli.main lang (FileIn.run fmt st) [FileIn.po false load init] jobs).rc = 1 ∧
    (Cli.main lang (FileIn.run fmt st) [FileIn.po false load init] jobs).stderr = true := by
  have hu : (FileIn.run fmt st (FileIn.po false load init)).uncaught = true := by
    simp only [FileIn.run, regularRun, Bool.false_eq_true, if_false]
    exact (check_uncaught_iff true .po load init st.list).2 ⟨rfl, by decide, .inr (.inr (.inl ⟨f, hload, hraise⟩))⟩
  unfold Cli.main
  simp [hl, Cli.runSeq, hu]

/-! ## 7. the composition with every stage model in place: no hypothesis about any stage -/

/-- the two MO loader wrappers are the same function -/
theorem moLoad_eq : Pipeline.moLoad = Meta.moLoad := rfl

/-- one command-line argument for the composed checker of C17 (`Meta.Real`): the bytes of the file, and the world around it
    (`self.path`, `options.language`, the clock, the library results the stage models take as inputs) -/
inductive RealArg where
  /-- `os.stat` fails -/
  | unreadable
  /-- an extension (or `--file-type`) that is none of po, pot, mo, gmo -/
  | otherType
  /-- `.mo` / `.gmo`: any byte string -/
  | mo (w : Meta.Real.World) (bytes : Mo.Bytes)
  /-- `.po` / `.pot`: any byte string -/
  | po (w : Meta.Real.World) (template : Bool) (bytes : Po.Bytes)

/-- `check_file(path)`: `Meta.Real.checkMo` / `checkPo` are `Check.check` over the real loader models (C09, C10) and
    `Meta.Real.pipeline` — the ten statements after the load with the stage models of C15, C19, C04–C07, C20, C18, C16, C14
    (parsers: C11, C12, C13) -/
def RealArg.run (fmt : Line Meta.Real.RTag → String) (db : Mo.CodecDB) (env : Po.Env) : RealArg → Cli.FileRun
  | .unreadable => ⟨[fmt .osError], false⟩
  | .otherType => ⟨[fmt .unknownFileType], false⟩
  | .mo w bytes => ⟨(Meta.Real.checkMo w db true bytes).lines.map fmt, (Meta.Real.checkMo w db true bytes).uncaught⟩
  | .po w t bytes => ⟨(Meta.Real.checkPo w env t true bytes).lines.map fmt, (Meta.Real.checkPo w env t true bytes).uncaught⟩

def RealArg.worldOk : RealArg → Prop
  | .mo w _ => Meta.Real.WorldOk w
  | .po w _ _ => Meta.Real.WorldOk w
  | _ => True

/-- the two short cases are `Checker.check` on an unreadable path / another file type, whatever the bytes -/
theorem real_short_cases (w : Meta.Real.World) (db : Mo.CodecDB) (env : Po.Env) (t : Bool) (b1 : Mo.Bytes) (b2 : Po.Bytes) :
    Meta.Real.checkMo w db false b1 = ⟨[.osError], false⟩ ∧ Meta.Real.checkPo w env t false b2 = ⟨[.osError], false⟩ := ⟨rfl, rfl⟩

/-- **every byte string with an MO extension** is checked without an exception leaving `Checker.check` -/
theorem real_mo_nocrash (w : Meta.Real.World) (hw : Meta.Real.WorldOk w) (db : Mo.CodecDB) (hl : C09.Latin1OK db) (statOk : Bool)
    (bytes : Mo.Bytes) : (Meta.Real.checkMo w db statOk bytes).uncaught = false := by
  unfold Meta.Real.checkMo
  rw [← moLoad_eq]
  exact check_total _ _ _ _ _ (moLoad_first db bytes) (moLoad_retry db hl bytes) (Meta.Real.pipeline_total w hw)

/-- **every byte string with a PO or POT extension** is checked without an exception leaving `Checker.check` -/
theorem real_po_nocrash (w : Meta.Real.World) (hw : Meta.Real.WorldOk w) (env : Po.Env) (hc : Po.CodecsBehave env) (t statOk : Bool)
    (bytes : Po.Bytes) : (Meta.Real.checkPo w env t statOk bytes).uncaught = false := by
  unfold Meta.Real.checkPo
  exact check_total _ _ _ _ _ (Meta.Real.poLoad_first env hc bytes) (Meta.Real.poLoad_retry env hc bytes) (Meta.Real.pipeline_total w hw)

/-- **pipeline_nocrash_unconditional** — `pipeline_nocrash` with every field of `Pending` discharged: the loaders are the models
    of C09 (`Mo.parse`) and C10 (`Po.load`), the stages are `Meta.Real.pipeline` (C15 header stages, C19, C04–C07, C15 `check_mime`
    over C20's fragment, C18, C16 with C14's `check_message` over the parsers of C11, C12, C13).  For every list of arguments —
    unreadable paths, other file types, ARBITRARY BYTE STRINGS as MO, PO or POT files —, every accepted `-l`, every `-j`: exit status
    0, empty stderr, every stdout line the rendering of a tag call.  No hypothesis about any loader or stage is left; what remains
    is about the world outside the file: `WorldOk` (shipped plural registry, codecs and expat raise their documented exceptions
    only, format checkers see the message's strings), `Po.CodecsBehave` and `C09.Latin1OK` (ISO-8859-1 decodes everything; a
    codec the tool classified as ASCII-compatible raises only `UnicodeError`).  IMPLICIT in the types, stated in §9: `TextIsScalar` —
    the loaded file's strings are `List Char`, i.e. Unicode scalar values; a file whose declared codec (`raw_unicode_escape`,
    `unicode_escape`) yields lone surrogates is outside this theorem and is decided by the check's codec-exotica sweep (that is
    where /repo 14c240b was found: `check_fragment`'s own strict encode, modelled in `Model/XmlEncode.lean`).  Outside every
    model, as before: recursion depth (open finding), time, the OS. -/
theorem pipeline_nocrash_unconditional (fmt : Line Meta.Real.RTag → String) (db : Mo.CodecDB) (hl : C09.Latin1OK db)
    (env : Po.Env) (hc : Po.CodecsBehave env) (files : List RealArg) (hw : ∀ a ∈ files, a.worldOk)
    (lang : Cli.LangOpt) (hlang : lang ≠ .invalid) (jobs : Nat) :
    (Cli.main lang (RealArg.run fmt db env) files jobs).rc = 0 ∧
    (Cli.main lang (RealArg.run fmt db env) files jobs).stderr = false ∧
    ∀ l ∈ (Cli.main lang (RealArg.run fmt db env) files jobs).stdout, ∃ x : Line Meta.Real.RTag, l = fmt x := by
  have hfile : ∀ a ∈ files, (RealArg.run fmt db env a).uncaught = false := by
    intro a ha
    have hwa := hw a ha
    cases a with
    | unreadable => rfl
    | otherType => rfl
    | mo w bytes => exact real_mo_nocrash w hwa db hl true bytes
    | po w t bytes => exact real_po_nocrash w hwa env hc t true bytes
  rw [main_ok lang hlang _ files jobs hfile]
  refine ⟨rfl, rfl, ?_⟩
  intro l hl'
  simp only [List.mem_flatten, List.mem_map] at hl'
  obtain ⟨ls, ⟨a, _, rfl⟩, hmem⟩ := hl'
  cases a with
  | unreadable => simp only [RealArg.run, List.mem_singleton] at hmem; exact ⟨_, hmem⟩
  | otherType => simp only [RealArg.run, List.mem_singleton] at hmem; exact ⟨_, hmem⟩
  | mo w bytes =>
    simp only [RealArg.run, List.mem_map] at hmem
    obtain ⟨x, _, rfl⟩ := hmem
    exact ⟨x, rfl⟩
  | po w t bytes =>
    simp only [RealArg.run, List.mem_map] at hmem
    obtain ⟨x, _, rfl⟩ := hmem
    exact ⟨x, rfl⟩

/-- `WorldOk` is what the running tool's world looks like: C20's fragment over the generated tables, C16's generated
    environment, a plural-forms source that answers from the shipped registry, and `kmsgReal` — under the two third-party
    contracts (expat raises only `ExpatError`; `str.encode` of the declared codec raises only `UnicodeError`) -/
theorem worldOk_live (hx : Hdr.Ext) (now : Int) (xml : Tags.Str → Msg.XmlVerdict) (hxml : ∀ s, xml s ≠ .other)
    (munch : List Char → List Char) (path : List Char) (opt : Option Locale.Language)
    (cenv : Charset.Env) (htbl : cenv.tbl = Generated.Charset.portableEncodings) (hc2e : cenv.c2e = Generated.Charset.pycodecToEncoding)
    (chars : Option Locale.Language → Option (Option (List (List Nat))))
    (henc : ∀ lang enc cs, chars lang = some (some cs) → Charset.EncodeOk (cenv.encode enc) cs)
    (pf : Option Locale.Language → Option (List (List Char)) × List (List Char))
    (hpf : ∀ lang, CheckPlurals.FromRegistry ⟨[], (pf lang).1, [], [], false⟩)
    (reprParen : List Char → Option (List Char) → List Char) (reprs : Meta.Obs → Extra × Extra) :
    Meta.Real.WorldOk
      { hx := hx, now := now, menv := Msg.liveEnv xml, munch := munch, path := path, optLanguage := opt,
        charset := fun tpl lang n => Charset.checkCharset cenv n tpl (chars lang),
        pluralForms := pf, reprParen := reprParen, kmsg := PipelineBrace.kmsgReal reprs } where
  registry := hpf
  charset_total := fun tpl lang n => C20.check_total cenv n tpl (chars lang) htbl hc2e (fun enc cs h => henc lang enc cs h)
  menv_sane := C16.live_env_sane xml hxml
  kmsg_real := ⟨reprs, rfl⟩

/-! ## 8. the data tables the tool trusts: pins over files regenerated from /repo/data on every run of this check

`WorldOk` / `worldOk_live` and several component theorems rest on the CONTENT of data files shipped with the tool, which the code
trusts without validation (`check_plurals` parses the registry's declarations strictly OUTSIDE any `try`; `Checker.tag` raises
`DataIntegrityError` for a name missing from data/tags; `get_language_for_name` parses the code a name maps to outside any
handler for `LanguageSyntaxError`; `propose_portable_encoding` asserts on the table).  Each such assumption is re-stated here as
a theorem over the `Generated/` file that `./check C01` regenerates from the data file (pluralforms2lean, tagregistry2lean +
tagsites2lean, locale2lean, charset2lean, date2lean, msg2lean), so that an edit of the data that invalidates it breaks a proof
obligation OF THIS PROPERTY; the table sweeps of the check (tools/gen/sweep.py: every row of every table through the real
`Checker.check`) then supply the concrete input. -/

/-- **data/languages, `plural-forms`**: every declaration of the registry parses STRICTLY (no junk after the final `;`, e.g. no
    `# note` that `ConfigParser` keeps in the value) and is total, in range and onto on the window; registry indices are valid;
    no language has two declarations with the same nplurals (C07 `shipped_registry_clean`, kernel evaluation over
    `Generated.PluralForms`) — what `WorldOk.registry` relies on -/
theorem registry_parses_strictly :
    (∀ c ∈ Generated.PluralForms.registryStrings, ∃ n e, CheckPlurals.parsePluralFormsStrict c = .ok n e [] []) ∧
    (∀ en ∈ Generated.PluralForms.registry, ∀ i ∈ en.2, i < Generated.PluralForms.registryStrings.length) := by
  obtain ⟨h1, h2, _⟩ := C07.shipped_registry_clean
  exact ⟨fun c hc => by obtain ⟨n, e, h, _⟩ := h1 c hc; exact ⟨n, e, h⟩, h2⟩

/-- hence `check_plurals` raises nothing for ANY language of the registry (or none), any Plural-Forms values, any messages -/
theorem registry_language_nocrash (inp : CheckPlurals.Input) (h : CheckPlurals.FromRegistry inp) :
    ∃ out, CheckPlurals.checkPlurals inp = .ok out := C07.checkPlurals_nocrash inp h

/-- **data/tags**: every `….tag('<name>', …)` call site of lib/ names a tag of the registry (C02 `tag_sites_registered` over
    `Generated.TagSites` × `Generated.TagRegistry`): `cli.Checker.tag` never raises `DataIntegrityError` -/
theorem tags_registered : ∀ s ∈ Generated.TagSites.sites, C02.tagSiteOk s = true := C02.tag_sites_registered

/-- **data/languages `names`, data/iso-codes**: every locale name a language NAME maps to is in the locale grammar (so
    `get_language_for_name` raises nothing but `LookupError`), and the loaded code tables are what `_read_iso_codes` builds -/
theorem locale_tables_sane :
    Locale.namesParse Generated.Locale.nameToCode = true ∧
    Locale.loadIso639 (Generated.Locale.iso639.map (·.1)) Generated.Locale.languageCodes = Generated.Locale.iso639 :=
  ⟨Locale.names_parse, C19.iso_tables_loaded.1⟩

/-- **data/encodings**: the loaded tables are what `_read_encodings` builds from the file, and every Python codec the table
    proposes is itself portable: the `assert` of `propose_portable_encoding` cannot fire (C20 `tables_pin`, `registry_closed`) -/
theorem charset_tables_sane :
    (Charset.readPortable Charset.Tables.vanillaLookup Generated.Charset.dataPortable ([], [])
      = some (Generated.Charset.portableEncodings, Generated.Charset.pycodecToEncoding)) ∧
    (Generated.Charset.pycodecToEncoding.all fun kv =>
      (Charset.Tables.rowOf' (Charset.upper kv.2)).map (·.codec) == some (some kv.1)) = true :=
  ⟨C20.tables_pin.1, C20.registry_closed⟩

/-- **data/timezones**: every abbreviation is alphabetic, none is listed twice, every offset is `±HHMM` (C18 `table_pin`) -/
theorem timezone_table_sane :
    Generated.DateTables.timezones.all Date.entryOk = true ∧ Date.keysDistinct Generated.DateTables.timezones = true :=
  C18.table_pin

/-- **data/string-formats** and the other tables behind `check_messages`: the generated environment is sane whatever expat
    answers short of a foreign exception (C16 `live_env_sane`: no format name or prefix holds a brace, `get_character_name` is
    total on what `find_unusual_characters` reports) -/
theorem message_tables_sane (xml : Tags.Str → Msg.XmlVerdict) (hx : ∀ s, xml s ≠ .other) : Spec.MessageRules.Sane (Msg.liveEnv xml) :=
  C16.live_env_sane xml hx

/-! ## 9. text that is not Unicode scalar values: the encode step in front of expat, and the modelling gap `TextIsScalar`

A Python `str` may hold lone surrogates; two codecs the tool accepts as ASCII-compatible (`raw_unicode_escape`,
`unicode_escape`) produce them from plain ASCII bytes (`\ud800`).  `WorldOk.menv_sane` says "`xml.check_fragment` raises nothing
but `xml.SyntaxError`" and used to be justified by "expat raises only `ExpatError`" — but `check_fragment` ENCODES the string
before expat sees it, and with the strict handler that encode raised `UnicodeEncodeError` (finding fixed in /repo 14c240b).  The
step is modelled in `Model/XmlEncode.lean` over code-point lists; which handler the source uses is read from the source
(`Generated.ExcMap.encodeSites`).

**The gap, stated.**  `Meta.Obs`, the PO loader model, the format parsers and everything composed in
`pipeline_nocrash_unconditional` hold text as `List Char`, and a Lean `Char` is a scalar value: those models CANNOT represent a
string with a lone surrogate, so every theorem about them silently assumes `TextIsScalar` of every string of the loaded file
(`model_text_is_scalar`, `strict_encode_never_fails_on_model_text`: on model text the strict encode cannot fail — the model could
never have exhibited the crash).  The check enforces the assumption from the other side: every file whose loaded strings are
not all scalar is counted, kept out of the string correspondences and decided by the falsifier alone (codec-exotica sweep). -/

open XmlEncode in
/-- `encode(strict)` fails exactly on strings with a surrogate -/
theorem encode_strict_none_iff (s : List Nat) : encode .strict s = none ↔ ∃ c ∈ s, isSurrogate c = true := by
  induction s with
  | nil => simp [encode]
  | cons c cs ih =>
    simp only [encode, encodeCp]
    cases hc : isSurrogate c with
    | true => simp [hc]
    | false =>
      cases he : encode .strict cs with
      | none => simp [(ih.1 he)]
      | some y =>
        simp only [Bool.false_and, Bool.false_eq_true, if_false, List.mem_cons]
        constructor
        · intro h; cases h
        · rintro ⟨d, hd | hd, hs⟩
          · subst hd; rw [hc] at hs; cases hs
          · have := ih.2 ⟨d, hd, hs⟩; rw [he] at this; cases this

open XmlEncode in
/-- `encode(surrogatepass)` is total -/
theorem encode_surrogatepass_total (s : List Nat) : ∃ bytes, encode .surrogatepass s = some bytes := by
  induction s with
  | nil => exact ⟨[], rfl⟩
  | cons c cs ih =>
    obtain ⟨y, hy⟩ := ih
    refine ⟨pattern c ++ y, ?_⟩
    simp [encode, encodeCp, hy]

open XmlEncode in
/-- **`check_fragment` as the source has it now raises nothing but `xml.SyntaxError`**, for every string of code points, provided
    expat does on every byte string (its documented behaviour) — the contract `WorldOk.menv_sane` needs, with the tool's own
    encode step inside the statement -/
theorem check_fragment_sane (expat : List UInt8 → Msg.XmlVerdict) (hx : ∀ bytes, expat bytes ≠ .other) (s : List Nat) :
    checkFragment .surrogatepass expat s ≠ .other := by
  obtain ⟨y, hy⟩ := encode_surrogatepass_total s
  simp only [checkFragment, hy]
  exact hx y

open XmlEncode in
/-- **refuted for the strict handler** (the code before 14c240b): a string with a lone surrogate makes `check_fragment` raise
    a foreign exception whatever expat would have said — witness `"a \ud800"`, replayed from corpus/C01 -/
theorem check_fragment_strict_refuted (expat : List UInt8 → Msg.XmlVerdict) :
    checkFragment .strict expat [0x61, 0x20, 0xD800] = .other := by rfl

/-- PIN (source): the one `.encode` in front of expat uses `surrogatepass`; every other `.encode` with a raising handler works on
    tool data (the DTD literal, the registry's `characters`, iconv's input built from them), never on text of the checked file -/
theorem xml_encode_site_pin :
    ("lib/xml.py", "check_fragment.ee_handler", "s", "UTF-8", "surrogatepass") ∈ encodeSites ∧
    ((encodeSites.filter fun e => e.2.2.2.2 == "strict" || e.2.2.2.2 == "<dynamic>").map fun e => (e.1, e.2.1)) =
      [("lib/xml.py", "<module>"), ("lib/iconv.py", "_encode_cli"), ("lib/encodings.py", "iconv_encoding.encode"),
       ("lib/ling.py", "Language.get_unrepresentable_characters"), ("lib/ling.py", "Language.get_unrepresentable_characters")] := by
  decide

/-- the generated message environment with `check_fragment` (encode step included) as its XML oracle is sane -/
theorem message_tables_sane_with_encode (expat : List UInt8 → Msg.XmlVerdict) (hx : ∀ bytes, expat bytes ≠ .other) :
    Spec.MessageRules.Sane (Msg.liveEnv (XmlEncode.checkFragment .surrogatepass expat)) :=
  C16.live_env_sane _ (check_fragment_sane expat hx)

/-- every string the composed model can hold is scalar … -/
theorem model_text_is_scalar (t : List Char) : XmlEncode.TextIsScalar (t.map Char.toNat) := by
  intro c hc
  obtain ⟨ch, _, rfl⟩ := List.mem_map.1 hc
  exact ch.valid

/-- … so on model text even the strict encode cannot fail: the `List Char` models could never have exhibited the crash -/
theorem strict_encode_never_fails_on_model_text (t : List Char) : XmlEncode.encode .strict (t.map Char.toNat) ≠ none := by
  intro h
  obtain ⟨c, hc, hs⟩ := (encode_strict_none_iff _).1 h
  obtain ⟨ch, _, rfl⟩ := List.mem_map.1 hc
  have hv : ch.toNat.isValidChar := ch.valid
  simp only [XmlEncode.isSurrogate, Bool.and_eq_true, decide_eq_true_eq] at hs
  unfold Nat.isValidChar at hv
  rcases hv with hv | ⟨hv, _⟩ <;> omega

/-! ## what is printed -/

/-- every printed line is `<E|W|I|P>: <path>: <tag>[ <extra>…]` without a newline inside, whatever the extras
    (C02 `format_grammar`, `line_clean`) — restated here so that the C01 file lists every ingredient -/
theorem line_is_tag_line (db : Tags.UnicodeDB) (t : Tags.Tag) (p : Tags.Str) (xs : List Tags.Extra) :
    Tags.format db t p xs none = Spec.Tags.lineOf t.priority.code p t.name (xs.map (Tags.escape db)) ∧
    (t.priority.toChar = 'E' ∨ t.priority.toChar = 'W' ∨ t.priority.toChar = 'I' ∨ t.priority.toChar = 'P') :=
  C02.format_grammar db t p xs

/-! ## Non-vacuity -/

/-- a two-stage pipeline in which the second stage raises after printing one line: the line is on stdout, the run is
    reported as failed -/
example : check (F := Unit) true .po (fun _ => .ok ()) (fun _ _ => (0 : Nat))
    [fun s => (s + 1, ["a"], false), fun s => (s, ["b"], true), fun s => (s, ["c"], false)]
    = ⟨[.tag "a", .tag "b"], true⟩ := by rfl
example : check (F := Unit) (σ := Unit) (τ := String) true .mo
    (fun r => if r then .error .moSyntax else .error .unicodeDecode) (fun _ _ => ()) []
    = ⟨[.invalidMoFile, .brokenEncoding], false⟩ := by rfl
example : (check (F := Unit) (σ := Unit) (τ := String) true .po (fun _ => .error .osOther) (fun _ _ => ()) []).uncaught = true := by rfl
/-- three files, the second raises: sequentially its partial output is printed and the third file is never read; with `-j 2`
    the partial output is lost; either way status 1 -/
example : Cli.main .absent (fun n : Nat => if n = 2 then ⟨["x"], true⟩ else ⟨[toString n], false⟩) [1, 2, 3] 1 = ⟨["1", "x"], true, 1⟩ := by decide
example : Cli.main .absent (fun n : Nat => if n = 2 then ⟨["x"], true⟩ else ⟨[toString n], false⟩) [1, 2, 3] 2 = ⟨["1"], true, 1⟩ := by decide
example : Cli.main .valid (fun n : Nat => ⟨[toString n], false⟩) [1, 2, 3] 4 = ⟨["1", "2", "3"], false, 0⟩ := by decide
/-- the class tables are not empty shells: an `IndexError` thrown by a C format parser would NOT be caught by `check_string` -/
example : dispatch cErrSite.handlers (cls "builtins.IndexError") = none := by decide
example : (cCheckString "%d %1$d".toList).tags = ["c-format-string-error"] := by decide +kernel
example : (cCheckString "%hhd".toList).uncaught = none := cCheckString_nocrash _
example : (pyCheckString "%(a)s %s".toList).tags = ["python-format-string-error"] := by decide +kernel
example : framesNeeded (iter (Expr.unaryop .not) 600 .name) = 1205 := (recursion_budget 600).1

end I18n.Props.C01
