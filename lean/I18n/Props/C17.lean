import I18n.Props.C08
import I18n.Lemmas.MetaDeb
import I18n.Lemmas.MetaBinary
import I18n.Lemmas.MetaBlame
import I18n.Lemmas.MetaRealBinary
import I18n.Lemmas.MetaRealCharset
import I18n.Lemmas.MetaRealHeader
import I18n.Lemmas.MetaWhole
import I18n.Spec.Metamorphic
import I18n.Generated.BinaryReads
/-!
# C17 — diagnostics depend on content, not on encoding or packaging   (PARTIAL: see the end of this comment)

The property is a family of invariance and composition laws about the checker.  What is PROVED here, for all inputs:

* **MO layouts** (`mo_layout_invariant`, `mo_layout_family_invariant`): two byte strings that are legal layouts of the
  same catalog (either byte order, any table order, padding, overlap, hash table, revision — `Spec.Mo.Encodes`) give
  identical runs of `Checker.check`, whatever the stages are.  Corollary of C08 `parse_of_encodes`.
* **PO spellings** (`po_spelling_invariant_of_load_spells`): the same statement for the PO loader, with the loader's
  round-trip law (C10 `load_spells`) as an explicit hypothesis — to be discharged when the C10 branch is merged.
* **Transcoding** (`transcoding_invariant`): if the two loaded files are related by a relation that every stage
  preserves while printing the same tags — `check_mime` being allowed to differ in the charset tags — the runs print
  the same lines apart from the charset tags.  The inventories that justify the hypothesis are pinned
  (`encoding_reads_pinned`, `encoding_reads_are_none_tests`, `content_type_sites_pinned`, `charset_tag_sites_pinned`).
* **PO versus MO** (`mo_entry_view_neutral`, `po_vs_mo`, `po_vs_mo_hidden`, `po_vs_mo_check`, `exemption_iff`): the
  entries `moparser` builds are, as far as the checker reads them, the entries the PO loader builds for a translated
  message without PO-only features; `ctx.is_binary` is read in two places only (`binary_reads_pinned`) and the pipeline
  with those two places spelled out prints, for an MO file, exactly the PO run minus
  `no-date-header-field POT-Creation-Date` (plus/minus `empty-file` only when the MO revision may hide strings).
* **Packages** (`fake_path_rewrite`, `fake_path_outside_unchanged`, `fake_path_value_error_iff`,
  `fake_path_prefix_is_directory`, `deb_output`, `deb_output_lines`, `deb_lines_prefix`, `deb_other_member_silent`,
  `deb_no_value_error`, `not_a_package_is_regular`, `no_unpack_is_regular`): `--unpack-deb` prints, in `os.walk` order, what
  each regular non-link member prints on its own, under `<package>/<member>`, minus `unknown-file-type` (and the tags
  ignored already); a file that is not a package, or cannot be unpacked, is checked as a regular file with the
  caller's options.

NOT provable in a model (TEST level, tools/checks/C17.py on the real tool): that `dpkg-deb` extracts faithfully, the order
and content of `os.walk`, that `TemporaryDirectory` removes its tree (also when a member fails), that the real
per-member tag calls do not depend on `fake_root`/`ignore_tags` beyond the pinned inventory (`option_uses_pinned`),
PO loading until C10 is merged, and that the seven parameter stages of `Meta.pipeline` really cannot see `is_binary`
(pinned inventory + the metamorphic comparison of real PO/MO pairs).
-/
namespace I18n.Props.C17
open I18n I18n.Check I18n.Meta I18n.Deb
open I18n.Mo.Spec (Encodes CatEntry Layout serialize)

/-! ## 1. MO files that encode the same catalog -/

/-- **Two MO files that encode the same catalog get identical diagnostics**: for all byte strings `b1`, `b2` that are
    legal layouts of the well-formed catalog `cat` with the same hidden-strings flag, `Checker.check` behaves
    identically — same lines in the same order, same exit — for any `ctx` initialisation and any stages. -/
theorem mo_layout_invariant {σ τ : Type} (db : Mo.CodecDB) (b1 b2 : Mo.Bytes) (cat : List CatEntry) (hidden : Bool)
    (h1 : Encodes b1 cat hidden) (h2 : Encodes b2 cat hidden) (hwf : ∀ e ∈ cat, e.WF)
    (statOk : Bool) (init : Mo.MoFile → Bool → σ) (stages : List (Stage σ τ)) :
    check statOk .mo (moLoad db b1) init stages = check statOk .mo (moLoad db b2) init stages := by
  apply check_congr_load
  intro retry
  unfold moLoad
  rw [C08.parse_of_encodes db _ b1 cat hidden h1 hwf, C08.parse_of_encodes db _ b2 cat hidden h2 hwf]

/-- the concrete family: byte order, revision words, table order, gaps, per-string padding, trailer -/
theorem mo_layout_family_invariant {σ τ : Type} (db : Mo.CodecDB) (cat : List CatEntry) (l1 l2 : Layout)
    (ok1 : l1.OK cat) (ok2 : l2.OK cat) (hh : l1.hidden = l2.hidden) (hwf : ∀ e ∈ cat, e.WF)
    (statOk : Bool) (init : Mo.MoFile → Bool → σ) (stages : List (Stage σ τ)) :
    check statOk .mo (moLoad db (serialize cat l1)) init stages = check statOk .mo (moLoad db (serialize cat l2)) init stages :=
  mo_layout_invariant db _ _ cat l1.hidden (C08.serialize_encodes cat l1 ok1) (hh ▸ C08.serialize_encodes cat l2 ok2) hwf
    statOk init stages

/-! ## 2. PO files that spell the same catalog -/

/-- **Two PO files that spell the same catalog get identical diagnostics**, given the PO loader's round-trip law:
    `hload` is C10's `load_spells` (every spelling of `cat` loads to the result determined by `cat` alone, on the first
    attempt and on the ISO-8859-1 retry).  The hypothesis is discharged at merge time by `Props/C10`. -/
theorem po_spelling_invariant_of_load_spells {Lines Cat F σ τ : Type}
    (Spells : Cat → Lines → Prop) (loadPO : Lines → Bool → Except LoadErr F) (expected : Cat → Bool → Except LoadErr F)
    (hload : ∀ cat l, Spells cat l → ∀ retry, loadPO l retry = expected cat retry)
    (cat : Cat) (l1 l2 : Lines) (h1 : Spells cat l1) (h2 : Spells cat l2)
    (statOk : Bool) (ext : Ext) (init : F → Bool → σ) (stages : List (Stage σ τ)) :
    check statOk ext (loadPO l1) init stages = check statOk ext (loadPO l2) init stages := by
  apply check_congr_load
  intro retry
  rw [hload cat l1 h1 retry, hload cat l2 h2 retry]

/-- The same, in the shape C10 proves it: the loader's result is determined by the catalog only UP TO A VIEW (polib's
    `linenum` differs between spellings; `entry_attrs_pinned` below shows lib/check/ never reads it), and `ctx` is built
    from the view. -/
theorem po_spelling_invariant_of_load_spells_view {Lines Cat F V σ τ : Type}
    (Spells : Cat → Lines → Prop) (loadPO : Lines → Bool → Except LoadErr F) (view : F → V)
    (expected : Cat → Bool → Except LoadErr V)
    (hload : ∀ cat l, Spells cat l → ∀ retry, mapLoad view (loadPO l retry) = expected cat retry)
    (cat : Cat) (l1 l2 : Lines) (h1 : Spells cat l1) (h2 : Spells cat l2)
    (statOk : Bool) (ext : Ext) (init : V → Bool → σ) (stages : List (Stage σ τ)) :
    check statOk ext (loadPO l1) (fun f b => init (view f) b) stages
      = check statOk ext (loadPO l2) (fun f b => init (view f) b) stages := by
  rw [check_map_load statOk ext (loadPO l1) view init stages, check_map_load statOk ext (loadPO l2) view init stages]
  apply check_congr_load
  intro retry
  rw [hload cat l1 h1 retry, hload cat l2 h2 retry]

/-! ## 3. transcoding -/

/-- **Transcoding.**  Two files whose loaded forms are related by `Rf` (the same catalog, the charset name in the
    Content-Type field aside) and whose `ctx` are then related by `R` (equal apart from the charset name and the value of
    `ctx.encoding`, both not `None`): if every stage before and after `check_mime` maps related states to related states
    and prints IDENTICAL tags, and `check_mime` does so apart from the charset tags, the two runs print the same lines
    apart from the charset tags, in the same order, and end alike. -/
theorem transcoding_invariant {F σ τ : Type} (R : σ → σ → Prop) (Rf : F → F → Prop) (charsetTag : τ → Bool)
    (statOk : Bool) (ext : Ext) (load1 load2 : Bool → Except LoadErr F) (init : F → Bool → σ)
    (pre post : List (Stage σ τ)) (mime : Stage σ τ)
    (hload : ∀ retry, LoadAlike Rf (load1 retry) (load2 retry))
    (hinit : ∀ f g broken, Rf f g → R (init f broken) (init g broken))
    (hpre : ∀ st ∈ pre, Exact R st st) (hpost : ∀ st ∈ post, Exact R st st)
    (hmime : Respects R (fun t => !charsetTag t) mime mime) :
    Spec.Metamorphic.EqModulo (keepLine (fun t => !charsetTag t))
      (check statOk ext load1 init (pre ++ mime :: post)).lines (check statOk ext load2 init (pre ++ mime :: post)).lines ∧
    (check statOk ext load1 init (pre ++ mime :: post)).uncaught = (check statOk ext load2 init (pre ++ mime :: post)).uncaught :=
  check_sim R Rf _ statOk ext load1 load2 init init _ _ hload hinit
    (respectsAll_append R _ (respectsAll_of_exact R _ pre hpre) (.cons hmime (respectsAll_of_exact R _ post hpost)))

/-- `ctx.encoding` is read in three places … -/
theorem encoding_reads_pinned : Generated.BinaryReads.encodingReads = Spec.Metamorphic.documentedEncodingReads := rfl

/-- … each of which only asks whether it is `None`: the NAME of the charset never leaves `check_mime` -/
theorem encoding_reads_are_none_tests :
    ∀ r ∈ Generated.BinaryReads.encodingReads, r.2.2 = "if ctx.encoding is None" ∨ r.2.2 = "if ctx.encoding is not None" := by
  decide

theorem encoding_writes_pinned : Generated.BinaryReads.encodingWrites = Spec.Metamorphic.documentedEncodingWrites := rfl

/-- the Content-Type value is looked up by `check_mime` and (for the Publican prefix) by `check_dates` only -/
theorem content_type_sites_pinned : Generated.BinaryReads.contentTypeSites = Spec.Metamorphic.documentedContentTypeSites := rfl

/-- the tags that can carry the charset name -/
theorem charset_tag_sites_pinned : Generated.BinaryReads.charsetTagSites = Spec.Metamorphic.documentedCharsetTags := rfl

/-- the modulo set used by the metamorphic check is among them -/
theorem charset_tags_documented : ∀ t ∈ Spec.Metamorphic.charsetTags, t ∈ Spec.Metamorphic.documentedCharsetTags := by decide

/-! ## 4. PO versus MO -/

/-- **MO entries mimic PO entries**: for a translated message, every observation the checker makes of the entry built
    by `moparser` (`comment = None`, `flags = ()`, `occurrences = ()`, `translated = lambda: True`, `previous_* = None`)
    equals the observation of the entry the PO loader builds for the same message without PO-only features. -/
theorem mo_entry_view_neutral (e : Mo.Entry) (h : Translated e) : observe (ofMo e) = observe (ofPo e) := by
  unfold Translated at h
  unfold ofMo ofPo observe
  cases hb : e.body with
  | singular s =>
    rw [hb] at h
    simp only at h
    simp [poTranslated, h]
  | plural p fs =>
    rw [hb] at h
    simp only at h
    have := enumerate_any (fun x => x != []) 0 fs
    simp only [poTranslated, this, h]
    simp

/-- without the hypothesis the two views differ in `translated()` only (`check_plurals` is the only reader) -/
theorem mo_entry_view_untranslated (e : Mo.Entry) :
    { observe (ofMo e) with translated := (observe (ofPo e)).translated } = observe (ofPo e) := by
  unfold ofMo ofPo observe
  cases e.body <;> rfl

theorem mo_entry_fields_pinned : Generated.BinaryReads.moEntryFields = Spec.Metamorphic.documentedMoEntryFields := rfl
theorem entry_attr_reads_pinned : Generated.BinaryReads.entryAttrReads = Spec.Metamorphic.documentedEntryAttrReads := rfl
theorem entry_attrs_pinned : Generated.BinaryReads.entryAttrs = Spec.Metamorphic.documentedEntryAttrs := rfl

/-- **`ctx.is_binary` is read in exactly two places**: the POT-Creation-Date exemption and the `empty-file` gate -/
theorem binary_reads_pinned : Generated.BinaryReads.binaryReads = Spec.Metamorphic.documentedBinaryReads := rfl
theorem binary_writes_pinned : Generated.BinaryReads.binaryWrites = Spec.Metamorphic.documentedBinaryWrites := rfl

variable {κ τ : Type}

/-- **PO versus MO, the pipeline.**  Same `ctx` apart from `is_binary`; the MO file's revision hides nothing (what
    msgfmt writes).  Then the MO run prints exactly the PO run's tags without `no-date-header-field POT-Creation-Date`,
    in the same order, and raises iff the PO run does. -/
theorem po_vs_mo (p : Parts κ τ) (k : κ) :
    (runStages (pipeline p) (⟨true, false⟩, k)).1 = (runStages (pipeline p) (⟨false, false⟩, k)).1.filter notExempt ∧
    (runStages (pipeline p) (⟨true, false⟩, k)).2 = (runStages (pipeline p) (⟨false, false⟩, k)).2 := by
  obtain ⟨h1, h2⟩ := runStages_sim (BinRel true) notExempt _ _ (pipeline_respects p) (⟨true, false⟩, k) (⟨false, false⟩, k)
    ⟨rfl, rfl, rfl, fun _ => rfl⟩
  refine ⟨?_, h2⟩
  rw [← h1, filter_notExempt_eq_self]
  exact runStages_clean _ (pipeline_clean p) _ rfl

/-- any revision: additionally `empty-file` may differ (and only that) -/
theorem po_vs_mo_hidden (p : Parts κ τ) (k : κ) (hidden hiddenPo : Bool) :
    Spec.Metamorphic.EqModulo notExemptNorEmpty
      (runStages (pipeline p) (⟨true, hidden⟩, k)).1 (runStages (pipeline p) (⟨false, hiddenPo⟩, k)).1 ∧
    (runStages (pipeline p) (⟨true, hidden⟩, k)).2 = (runStages (pipeline p) (⟨false, hiddenPo⟩, k)).2 :=
  runStages_sim (BinRel false) notExemptNorEmpty _ _ (pipeline_respects_any p) _ _ ⟨rfl, rfl, rfl, fun h => by cases h⟩

/-- the exempted tag appears in the PO run of `check_dates` exactly when the field is missing, never in the MO run -/
theorem exemption_iff (isBinary : Bool) (dedup : List Text → List Text) (perDate : Bool → Text → List τ) (potDates poDates : List Text) :
    PTag.noDate true ∈ checkDates isBinary dedup perDate potDates poDates ↔ (isBinary = false ∧ potDates = []) :=
  exempt_mem_iff isBinary dedup perDate potDates poDates

/-- the exemption does not extend to PO-Revision-Date -/
theorem no_exemption_for_revision_date (dedup : List Text → List Text) (perDate : Bool → Text → List τ) (potDates : List Text) :
    PTag.noDate false ∈ checkDates true dedup perDate potDates [] := by
  unfold checkDates checkDatesField
  simp

/-- **PO versus MO, `Checker.check`.**  An MO loader and a PO loader that fail alike or deliver files whose `ctx` agree
    apart from `is_binary` (this is where `mo_entry_view_neutral` and the loaders' theorems enter): the two runs print
    the same lines apart from the exemption, and end alike. -/
theorem po_vs_mo_check {F₁ F₂ : Type} (p : Parts κ τ) (statOk : Bool)
    (loadMo : Bool → Except LoadErr F₁) (loadPo : Bool → Except LoadErr F₂)
    (ctxMo : F₁ → Bool → κ) (ctxPo : F₂ → Bool → κ)
    (hload : ∀ retry, LoadAlike (fun f g => ∀ broken, ctxMo f broken = ctxPo g broken) (loadMo retry) (loadPo retry)) :
    Spec.Metamorphic.EqModulo (keepLine notExempt)
      (check statOk .mo loadMo (fun f b => ((⟨true, false⟩ : BinFlags), ctxMo f b)) (pipeline p)).lines
      (check statOk .po loadPo (fun g b => ((⟨false, false⟩ : BinFlags), ctxPo g b)) (pipeline p)).lines ∧
    (check statOk .mo loadMo (fun f b => ((⟨true, false⟩ : BinFlags), ctxMo f b)) (pipeline p)).uncaught
      = (check statOk .po loadPo (fun g b => ((⟨false, false⟩ : BinFlags), ctxPo g b)) (pipeline p)).uncaught := by
  have key := check_sim (BinRel true) (fun (f : F₁) (g : F₂) => ∀ broken, ctxMo f broken = ctxPo g broken) notExempt statOk .mo
    loadMo loadPo (fun f b => ((⟨true, false⟩ : BinFlags), ctxMo f b)) (fun g b => ((⟨false, false⟩ : BinFlags), ctxPo g b))
    (pipeline p) (pipeline p) hload (fun f g broken h => ⟨rfl, rfl, h broken, fun _ => rfl⟩) (pipeline_respects p)
  -- the extension only matters through `ext = .other`
  have hext : ∀ (F σ : Type) (load : Bool → Except LoadErr F) (init : F → Bool → σ) (st : List (Stage σ (PTag τ))),
      check statOk .po load init st = check statOk .mo load init st := by
    intro F σ load init st
    unfold check
    simp
  rw [hext]
  exact key

/-- The hypothesis `hload` cannot be dropped: the clause is FALSE for a PO loader and an MO loader that read the charset
    declaration differently.  That happens on the real code (recorded finding `po-vs-mo:charset-declaration`): for
    `Content-Type: text/plain;charset=UTF-8` (no blank before `charset=`) polib's detection regex finds no charset, the PO file
    is decoded as ASCII and the first attempt raises `UnicodeDecodeError`, while moparser's `charset=([^ \t\n]+)` finds UTF-8.
    In the model: an MO loader that succeeds, a PO loader whose first attempt raises `UnicodeDecodeError`. -/
def PoVsMoUnconditional : Prop :=
  ∀ (p : Parts Unit Unit) (loadMo loadPo : Bool → Except LoadErr Unit),
    Spec.Metamorphic.EqModulo (keepLine notExempt)
      (check true .mo loadMo (fun _ _ => ((⟨true, false⟩ : BinFlags), ())) (pipeline p)).lines
      (check true .po loadPo (fun _ _ => ((⟨false, false⟩ : BinFlags), ())) (pipeline p)).lines

def quietParts : Parts Unit Unit where
  comments := fun k => (k, [], false)
  headers := fun k => (k, [], false)
  language := fun k => (k, [], false)
  plurals := fun k => (k, [], false)
  mime := fun k => (k, [], false)
  resetEncoding := id
  dedup := id
  perDate := fun _ _ _ => []
  potDates := fun _ => [['d']]
  poDates := fun _ => [['d']]
  project := fun k => (k, [], false)
  translator := fun k => (k, [], false)
  messages := fun _ => ([], false, 1)

theorem po_vs_mo_unconditional_refuted : ¬ PoVsMoUnconditional := by
  intro h
  have := h quietParts (fun _ => .ok ()) (fun retry => if retry then .ok () else .error .unicodeDecode)
  simp [Spec.Metamorphic.EqModulo, check, afterLoad, runStages, pipeline, blind, datesStage, messagesStage, quietParts,
    checkDates, checkDatesField, emptyFileGate, keepLine] at this

/-- the witness of that finding in the two loader models (C10's `Po.detectLine` = polib's line regex, C08's `Mo.findCharset` =
    moparser's / gettext's `charset=` search): for the header line `Content-Type: text/plain;charset=UTF-8` the PO loader
    finds no charset declaration, the MO loader finds `UTF-8` -/
theorem charset_declaration_refuted :
    Po.detectLine ("\"Content-Type: text/plain;charset=UTF-8\\n\"\n".toList.map fun c => UInt8.ofNat c.toNat) = none ∧
    Mo.findCharset ("Content-Type: text/plain;charset=UTF-8\n".toList.map fun c => UInt8.ofNat c.toNat)
      = some ("UTF-8".toList.map fun c => UInt8.ofNat c.toNat) := by
  constructor <;> decide

/-- … while for the usual spelling both find it -/
theorem charset_declaration_usual :
    Po.detectLine ("\"Content-Type: text/plain; charset=UTF-8\\n\"\n".toList.map fun c => UInt8.ofNat c.toNat)
      = some ("UTF-8".toList.map fun c => UInt8.ofNat c.toNat) ∧
    Mo.findCharset ("Content-Type: text/plain; charset=UTF-8\n".toList.map fun c => UInt8.ofNat c.toNat)
      = some ("UTF-8".toList.map fun c => UInt8.ofNat c.toNat) := by
  constructor <;> decide

/-! ## 4b. why the PO file of the PO-versus-MO clause is taken in msgfmt order

`unusual-character-in-translation` reports each character once per file, under the first message (in file order) whose
translation has it.  WHAT is reported is independent of the order of the messages; WHO carries it is not.  (The same
holds for `inconsistent-number-of-plural-forms`, which names the first two differing counts.)  An MO file is sorted by
msgfmt; for a PO file in another order these two diagnostics may name another message — `po_vs_mo` above compares the
same `ctx`, i.e. the same entries in the same order, and the check compares PO files in msgfmt order exactly and PO files in
any other order up to these two diagnostics. -/

/-- the set of unusual characters reported for a file does not depend on the order of its messages -/
theorem unusual_characters_order_invariant {μ : Type} (l1 l2 : List (μ × List (List Char))) (h : l1.Perm l2) (c : Char) :
    c ∈ (blame [] l1).flatMap (·.2) ↔ c ∈ (blame [] l2).flatMap (·.2) := by
  rw [blame_chars, blame_chars]
  constructor
  · rintro ⟨hf, m, hm, hs⟩
    exact ⟨hf, m, h.mem_iff.mp hm, hs⟩
  · rintro ⟨hf, m, hm, hs⟩
    exact ⟨hf, m, h.mem_iff.mpr hm, hs⟩

/-- … but the message that is blamed does: two messages with the same unusual character, in either order -/
theorem blame_is_order_sensitive :
    ∃ l1 l2 : List (Nat × List (List Char)), l1.Perm l2 ∧ blame [] l1 ≠ blame [] l2 :=
  ⟨[(1, [['\x07']]), (2, [['\x07']])], [(2, [['\x07']]), (1, [['\x07']])], List.Perm.swap _ _ _, by decide⟩

/-! ## 5. packages -/

/-- **the rewrite**: `path = real_root + m` is shown as `fake_root + m` -/
theorem fake_path_rewrite (realRoot fakeRoot m : Str) (h1 : endsWithSep realRoot = true) (h2 : endsWithSep fakeRoot = true) :
    fakePath (some (realRoot, fakeRoot)) (realRoot ++ m) = .ok (fakeRoot ++ m) :=
  fakePath_under realRoot fakeRoot m h1 h2

/-- for a package: the member `m` of the tree unpacked in `tmpdir` is shown as `<package>/<m>` -/
theorem fake_path_package (w : World) (k : Kind) (filename m : Str) (hk : kindOf filename ≠ .unsupported)
    (h1 : w.tmpdir ≠ []) (h2 : endsWithSep w.tmpdir = false) :
    fakePath (some (realRoot w k, join filename [])) (baseDir w k ++ sep :: m) = .ok (filename ++ sep :: m) := by
  rw [realRoot_eq w k h1 h2, join_package filename hk]
  have := fakePath_under (baseDir w k ++ [sep]) (filename ++ [sep]) m (endsWithSep_append_singleton _) (endsWithSep_append_singleton _)
  simpa using this

/-- paths outside the root are unchanged -/
theorem fake_path_outside_unchanged (realRoot fakeRoot path : Str) (h1 : endsWithSep realRoot = true)
    (h2 : endsWithSep fakeRoot = true) (h : realRoot.isPrefixOf path = false) :
    fakePath (some (realRoot, fakeRoot)) path = .ok path :=
  fakePath_outside realRoot fakeRoot path h1 h2 h

/-- the only failure of the path code: a root without trailing separator -/
theorem fake_path_value_error_iff (realRoot fakeRoot path : Str) :
    fakePath (some (realRoot, fakeRoot)) path = .error .valueError ↔ (endsWithSep realRoot = false ∨ endsWithSep fakeRoot = false) :=
  fakePath_error_iff realRoot fakeRoot path

/-- the prefix test is a DIRECTORY test (the separator is part of the root): a sibling `…/i18nspector.deb.abcX/f` of the
    root `…/i18nspector.deb.abc/` is not rewritten -/
theorem fake_path_prefix_is_directory (dir fakeRoot path : Str) (h2 : endsWithSep fakeRoot = true)
    (h : fakePath (some (dir ++ [sep], fakeRoot)) path ≠ .ok path) : ∃ m, path = dir ++ sep :: m :=
  fakePath_prefix_is_directory dir fakeRoot path h2 h

/-- **`--unpack-deb`**: for a file the suffix dispatch accepts and the unpacker unpacks, the run is the sequence, in
    `os.walk` order, over the regular non-link files below the temporary tree, of each member's own tag calls —
    filtered by the caller's `ignore_tags` and `unknown-file-type` — printed under `<package>/<member>`. -/
theorem deb_output (w : World) (raw : Str → List Deb.TagCall × Bool) (o : Options) (filename : Str)
    (hk : kindOf filename ≠ .unsupported) (hu : w.unpackOk = true) (hw : WalkOK w (kindOf filename)) :
    checkDeb w raw o filename = some (runAll (memberRun w raw o (kindOf filename) filename) (walkPaths w)) := by
  unfold checkDeb
  cases hkk : kindOf filename with
  | unsupported => exact absurd hkk hk
  | deb =>
    simp only [hu, Bool.not_true, Bool.false_eq_true, if_false]
    congr 1
    apply runAll_congr
    intro p hp
    obtain ⟨m, rfl⟩ := walkPaths_under w .deb (hkk ▸ hw) p hp
    exact checkRegular_member w raw o .deb filename m hk hw.tmp_ne hw.tmp_nosep
  | dsc =>
    simp only [hu, Bool.not_true, Bool.false_eq_true, if_false]
    congr 1
    apply runAll_congr
    intro p hp
    obtain ⟨m, rfl⟩ := walkPaths_under w .dsc (hkk ▸ hw) p hp
    exact checkRegular_member w raw o .dsc filename m hk hw.tmp_ne hw.tmp_nosep

/-- when no member makes `check()` raise: the output is the concatenation of the per-member outputs, and the run ends normally -/
theorem deb_output_lines (w : World) (raw : Str → List Deb.TagCall × Bool) (o : Options) (filename : Str)
    (hk : kindOf filename ≠ .unsupported) (hu : w.unpackOk = true) (hw : WalkOK w (kindOf filename))
    (hraw : ∀ p ∈ walkPaths w, (raw p).2 = false) :
    checkDeb w raw o filename =
      some ⟨(walkPaths w).flatMap (fun p => (memberRun w raw o (kindOf filename) filename p).lines), .normal⟩ := by
  rw [deb_output w raw o filename hk hu hw, runAll_normal]
  intro p hp
  simp [memberRun, hraw p hp]

/-- in every case what is printed is a prefix of that concatenation (nothing else is ever printed) -/
theorem deb_lines_prefix (w : World) (raw : Str → List Deb.TagCall × Bool) (o : Options) (filename : Str)
    (hk : kindOf filename ≠ .unsupported) (hu : w.unpackOk = true) (hw : WalkOK w (kindOf filename)) :
    ∃ r, checkDeb w raw o filename = some r ∧
      r.lines <+: (walkPaths w).flatMap (fun p => (memberRun w raw o (kindOf filename) filename p).lines) :=
  ⟨_, deb_output w raw o filename hk hu hw, runAll_lines_prefix _ _⟩

/-- **nothing for other members**: a member for which `check()` only says `unknown-file-type` prints nothing -/
theorem deb_other_member_silent (w : World) (raw : Str → List Deb.TagCall × Bool) (o : Options) (k : Kind) (filename p : Str)
    (h : ∀ c ∈ (raw p).1, c.name = unknownFileType) : (memberRun w raw o k filename p).lines = [] := by
  simp only [memberRun, cliTags, List.map_eq_nil_iff, List.filter_eq_nil_iff]
  intro c hc
  simp [h c hc]

/-- a member's line is one of its own tag calls, not ignored, not `unknown-file-type`, under `<package>/<member>` -/
theorem deb_member_line (w : World) (raw : Str → List Deb.TagCall × Bool) (o : Options) (k : Kind) (filename p : Str) (l : Line)
    (hl : l ∈ (memberRun w raw o k filename p).lines) :
    ∃ c ∈ (raw p).1, c.name ≠ unknownFileType ∧ c.name ∉ o.ignoreTags ∧
      l = ⟨c.prio, filename ++ sep :: member w k p, c.rest⟩ := by
  simp only [memberRun, cliTags, List.mem_map, List.mem_filter] at hl
  obtain ⟨c, ⟨hc, hf⟩, rfl⟩ := hl
  have hf' : ¬ c.name = unknownFileType ∧ ¬ c.name ∈ o.ignoreTags := by simpa using hf
  exact ⟨c, hc, hf'.1, hf'.2, rfl⟩

/-- the roots `check_deb` builds always satisfy `Checker.__init__`: no `ValueError` -/
theorem deb_no_value_error (w : World) (raw : Str → List Deb.TagCall × Bool) (o : Options) (filename : Str)
    (hk : kindOf filename ≠ .unsupported) (hu : w.unpackOk = true) (hw : WalkOK w (kindOf filename)) :
    ∀ r, checkDeb w raw o filename = some r → r.exit ≠ .valueError := by
  intro r hr
  rw [deb_output w raw o filename hk hu hw] at hr
  cases hr
  generalize walkPaths w = ps
  induction ps with
  | nil => simp [runAll]
  | cons p ps ih =>
    simp only [runAll]
    by_cases hx : (raw p).2 = true
    · simp [memberRun, hx]
    · simp only [memberRun, hx]
      exact ih

/-- **a file that is not a package** (other suffix, or the unpacker fails) is checked as a regular file, with the options
    of the caller (so `unknown-file-type` is reported for it unless the caller ignores it) -/
theorem not_a_package_is_regular (w : World) (raw : Str → List Deb.TagCall × Bool) (o : Options) (path : Str)
    (h : kindOf path = .unsupported ∨ w.unpackOk = false) : checkFile w raw o path = checkRegular raw o path := by
  unfold checkFile
  split
  · have : checkDeb w raw o path = none := by
      unfold checkDeb
      rcases h with h | h
      · rw [h]
      · cases kindOf path <;> simp [h]
    rw [this]
  · rfl

theorem no_unpack_is_regular (w : World) (raw : Str → List Deb.TagCall × Bool) (o : Options) (path : Str)
    (h : o.unpackDeb = false) : checkFile w raw o path = checkRegular raw o path := by
  simp [checkFile, h]

/-- `fake_root`, `fake_path` and `ignore_tags` are used by `Checker.__init__`/`Checker.tag`/`check_deb` only -/
theorem option_uses_pinned : Generated.BinaryReads.optionUses = Spec.Metamorphic.documentedOptionUses := rfl

/-! ## 6. the composed checker: C10's loader, the stage models of C15 / C19 / C07 / C20 / C18 / C16 / C14 -/

section Composed
open I18n.Spec.PoSpelling

/-- **Two PO files that spell the same catalog get identical diagnostics** — no hypothesis about the loader left.
    `SpelledFile` (Lemmas/MetaPo.lean) bundles the side conditions of C10's `load_spells_detected_partial`, all of them about
    the file's bytes and lines: it declares its charset on the first line polib's pattern matches, it decodes, its lines are
    a spelling (`Spec.PoSpelling.CatalogSp`: wrapping, escape style, blank lines, comments …) followed by lines `Codecs.open`
    drops.  "The same catalog": the same header comment and the same entries (`EntrySp.entry`: everything but polib's line
    numbers).  `PyEnv`: the interpreter's `isspace` / `isdigit` / `int` are the dumped tables.  For any `ctx` built from what
    lib/check/ can see of the loaded file, and any stages. -/
theorem po_spelling_invariant {σ τ : Type} (env : Po.Env) (hpy : PyEnv env) (E1 E2 : Codec) (name1 name2 : Po.Bytes)
    (cat1 cat2 : CatalogSp) (file1 file2 : Po.Bytes)
    (h1 : SpelledFile env E1 name1 cat1 file1) (h2 : SpelledFile env E2 name2 cat2 file2)
    (hheader : cat1.headerText = cat2.headerText) (hentries : cat1.entries.map EntrySp.entry = cat2.entries.map EntrySp.entry)
    (statOk : Bool) (ext : Ext) (init : Po.Text × List Po.Entry → Bool → σ) (stages : List (Stage σ τ)) :
    check statOk ext (poLoad env file1) (fun f b => init (poView f) b) stages
      = check statOk ext (poLoad env file2) (fun f b => init (poView f) b) stages := by
  obtain ⟨f1, l1, v1⟩ := poLoad_spelled env hpy E1 name1 cat1 file1 h1
  obtain ⟨f2, l2, v2⟩ := poLoad_spelled env hpy E2 name2 cat2 file2 h2
  exact check_same_view statOk ext _ _ poView init stages f1 f2 l1 l2 (by rw [v1, v2, hheader, hentries])

/-- the same for the composed checker (`Real.checkPo`: C10's loader, then the ten stage models) -/
theorem po_spelling_invariant_composed (w : Real.World) (env : Po.Env) (hpy : PyEnv env) (E1 E2 : Codec) (name1 name2 : Po.Bytes)
    (cat1 cat2 : CatalogSp) (file1 file2 : Po.Bytes)
    (h1 : SpelledFile env E1 name1 cat1 file1) (h2 : SpelledFile env E2 name2 cat2 file2)
    (hheader : cat1.headerText = cat2.headerText) (hentries : cat1.entries.map EntrySp.entry = cat2.entries.map EntrySp.entry)
    (isTemplate statOk : Bool) :
    Real.checkPo w env isTemplate statOk file1 = Real.checkPo w env isTemplate statOk file2 :=
  po_spelling_invariant env hpy E1 E2 name1 name2 cat1 cat2 file1 file2 h1 h2 hheader hentries statOk _ (Real.ctxOfPo isTemplate) (Real.pipeline w)

/-- **Two MO files that encode the same catalog get identical diagnostics**, for the composed checker -/
theorem mo_layout_invariant_composed (w : Real.World) (db : Mo.CodecDB) (b1 b2 : Mo.Bytes) (cat : List CatEntry) (hidden : Bool)
    (h1 : Encodes b1 cat hidden) (h2 : Encodes b2 cat hidden) (hwf : ∀ e ∈ cat, e.WF) (statOk : Bool) :
    Real.checkMo w db statOk b1 = Real.checkMo w db statOk b2 :=
  mo_layout_invariant db b1 b2 cat hidden h1 h2 hwf statOk Real.ctxOfMo (Real.pipeline w)

/-- **C17, first two sentences, for the composed model** (C10 loader / C08 loader, then the stage models of C15, C19, C07,
    C20, C18, C16, C14).  Remaining assumptions, all explicit: `PyEnv` and `SpelledFile` for the two PO files (facts about
    the files' bytes: C10's exclusions — a cut inside an escaped multibyte character, two string tokens on a line,
    `msgstr[N]` with N ≥ 10, a charset declared after an earlier matching line — are outside `SpelledFile`), `Encodes` + `WF`
    for the MO files (C08); the stage models' own inputs (`World`) are the same on both sides.  Transcoding is
    `transcoding_composed` below. -/
theorem same_catalog_same_diagnostics (w : Real.World) :
    (∀ (env : Po.Env) (_ : PyEnv env) (E1 E2 : Codec) (name1 name2 : Po.Bytes) (cat1 cat2 : CatalogSp) (file1 file2 : Po.Bytes),
      SpelledFile env E1 name1 cat1 file1 → SpelledFile env E2 name2 cat2 file2 →
      cat1.headerText = cat2.headerText → cat1.entries.map EntrySp.entry = cat2.entries.map EntrySp.entry →
      ∀ isTemplate statOk, Real.checkPo w env isTemplate statOk file1 = Real.checkPo w env isTemplate statOk file2) ∧
    (∀ (db : Mo.CodecDB) (b1 b2 : Mo.Bytes) (cat : List CatEntry) (hidden : Bool),
      Encodes b1 cat hidden → Encodes b2 cat hidden → (∀ e ∈ cat, e.WF) →
      ∀ statOk, Real.checkMo w db statOk b1 = Real.checkMo w db statOk b2) :=
  ⟨fun env hpy E1 E2 n1 n2 c1 c2 f1 f2 h1 h2 hh he tpl st =>
      po_spelling_invariant_composed w env hpy E1 E2 n1 n2 c1 c2 f1 f2 h1 h2 hh he tpl st,
   fun db b1 b2 cat hidden h1 h2 hwf st => mo_layout_invariant_composed w db b1 b2 cat hidden h1 h2 hwf st⟩

/-- **PO versus MO for the composed checker.**  Same `ctx` apart from `is_binary`, MO revision hides nothing: the MO run
    prints exactly the PO run's lines without the `no-date-header-field POT-Creation-Date` of `check_dates`, in the same
    order, and raises iff the PO run does.  The blindness of the other stages is not a hypothesis any more: the models of
    `check_comments`, `check_headers`, `check_language`, `check_plurals`, `check_mime`, `check_project`,
    `check_translator` do not take the flag; for `Date.checkDates` (C18) and `Msg.trace` (C16), which do, see
    `Real.checkDates_binary` and `Real.trace_binary`. -/
theorem po_vs_mo_composed (w : Real.World) (k : Real.RCtx) :
    (runStages (Real.pipeline w) (⟨true, false⟩, k)).1 = (runStages (Real.pipeline w) (⟨false, false⟩, k)).1.filter Real.notExempt ∧
    (runStages (Real.pipeline w) (⟨true, false⟩, k)).2 = (runStages (Real.pipeline w) (⟨false, false⟩, k)).2 := by
  obtain ⟨h1, h2⟩ := runStages_sim (BinRel true) Real.notExempt _ _ (Real.pipeline_respects w) (⟨true, false⟩, k) (⟨false, false⟩, k)
    ⟨rfl, rfl, rfl, fun _ => rfl⟩
  refine ⟨?_, h2⟩
  rw [← h1, Real.filter_notExempt_self]
  exact Real.runStages_clean _ (Real.pipeline_clean w) _ rfl

/-- `Checker.check` on a PO file and on an MO file whose loaded forms look alike to lib/check/ (same observations of the
    entries — this is where `mo_entry_view_neutral` enters —, no header comment, MO revision hides nothing) -/
theorem po_vs_mo_composed_check (w : Real.World) (env : Po.Env) (db : Mo.CodecDB) (statOk : Bool) (filePo : Po.Bytes) (fileMo : Mo.Bytes)
    (f : Po.PoFile) (g : Mo.MoFile) (hp : poLoad env filePo false = .ok f) (hm : moLoad db fileMo false = .ok g)
    (hh : g.possibleHiddenStrings = false) (hc : f.header = [])
    (he : f.entries.map (observe ∘ ofPoEntry) = g.entries.map (observe ∘ ofMo)) :
    Spec.Metamorphic.EqModulo (keepLine Real.notExempt) (Real.checkMo w db statOk fileMo).lines (Real.checkPo w env false statOk filePo).lines ∧
    (Real.checkMo w db statOk fileMo).uncaught = (Real.checkPo w env false statOk filePo).uncaught := by
  unfold Real.checkMo Real.checkPo
  rw [check_first_ok statOk .mo _ _ _ g hm, check_first_ok statOk _ _ _ _ f hp]
  have hk : (Real.ctxOfMo g false).2 = (Real.ctxOfPo false (poView f) false).2 := by
    simp only [Real.ctxOfMo, Real.ctxOfPo, poView, hc, List.map_map]
    congr 1
    rw [← he]
    apply List.map_congr_left
    intro e _
    rfl
  have hfl : (Real.ctxOfMo g false).1 = ⟨true, false⟩ := by simp [Real.ctxOfMo, hh]
  obtain ⟨a, b⟩ := po_vs_mo_composed w (Real.ctxOfPo false (poView f) false).2
  unfold check
  cases statOk
  · exact ⟨rfl, rfl⟩
  · simp only [Bool.not_true, Bool.false_eq_true, if_false, afterLoad, List.nil_append, Spec.Metamorphic.EqModulo,
      filter_keepLine_map_tag, reduceCtorEq]
    have e1 : Real.ctxOfMo g false = (⟨true, false⟩, (Real.ctxOfPo false (poView f) false).2) := by
      rw [← hfl, ← hk]
    have e2 : Real.ctxOfPo false (poView f) false = (⟨false, false⟩, (Real.ctxOfPo false (poView f) false).2) := rfl
    rw [e1, e2, a, b, List.filter_filter]
    simp

/-- **C17, third sentence, end to end for the composed model.**  A PO file that spells a catalog (C10) whose messages have
    no PO-only features (`Real.poOfMo`: no flags, comments, references, previous msgid; not obsolete), all translated, no
    header comment — and an MO file that encodes (C08, any layout, revision without hidden strings) a byte catalog decoding
    to the same messages: the MO run prints the PO run's lines minus `no-date-header-field POT-Creation-Date`, and ends alike.
    (The PO entries are in the MO file's order: see `blame_is_order_sensitive`.  The loaders must agree on the charset:
    `hdec` says what the MO loader decodes, `SpelledFile` what the PO loader does — cf. `charset_declaration_refuted`.) -/
theorem po_file_vs_compiled_mo (w : Real.World) (env : Po.Env) (hpy : PyEnv env) (E : Codec) (name : Po.Bytes) (cat : CatalogSp)
    (filePo : Po.Bytes) (hpo : SpelledFile env E name cat filePo)
    (db : Mo.CodecDB) (fileMo : Mo.Bytes) (mcat : List CatEntry) (hmo : Encodes fileMo mcat false) (hwf : ∀ e ∈ mcat, e.WF)
    (mes : List Mo.Entry) (hdec : Mo.Spec.expected db none mcat false = .ok ⟨mes, false⟩)
    (hcomment : cat.headerText = []) (hsame : cat.entries.map EntrySp.entry = mes.map Real.poOfMo)
    (htr : ∀ e ∈ mes, Translated e) (statOk : Bool) :
    Spec.Metamorphic.EqModulo (keepLine Real.notExempt) (Real.checkMo w db statOk fileMo).lines (Real.checkPo w env false statOk filePo).lines ∧
    (Real.checkMo w db statOk fileMo).uncaught = (Real.checkPo w env false statOk filePo).uncaught := by
  obtain ⟨f, lf, vf⟩ := poLoad_spelled env hpy E name cat filePo hpo
  have lg : moLoad db fileMo false = .ok ⟨mes, false⟩ := by
    unfold moLoad
    simp only [Bool.false_eq_true, if_false]
    rw [C08.parse_of_encodes db none fileMo mcat false hmo hwf, hdec]
  have hv : f.header = cat.headerText ∧ f.entries.map Lemmas.PoCatalog.content = cat.entries.map EntrySp.entry := by
    simp only [poView, Prod.mk.injEq] at vf; exact vf
  apply po_vs_mo_composed_check w env db statOk filePo fileMo f ⟨mes, false⟩ lf lg rfl (by rw [hv.1, hcomment])
  have e1 : f.entries.map (observe ∘ ofPoEntry) = (f.entries.map Lemmas.PoCatalog.content).map (observe ∘ ofPoEntry) := by
    rw [List.map_map]
    apply List.map_congr_left
    intro e _
    exact (Real.observe_content e).symm
  rw [e1, hv.2, hsame, List.map_map]
  apply List.map_congr_left
  intro e he
  exact Real.observe_poOfMo e (htr e he)

/-- **Transcoding for the composed checker.**  Two `ctx` related by `Real.TcRel`: everything equal, except that the header
    entries' texts may differ in the charset name of their one well-formed `Content-Type: text/plain; charset=<name>` line
    (`Real.EntryRel` / `Real.HeaderRel`: same unusual characters, same parsed lines but that one), both names known to the
    tool (`Real.TcName`: C20's fragment returns an encoding).  Then the two runs print the same lines in the same order,
    apart from the charset tags of `check_mime` (`Real.notCharset`: boilerplate-in-content-type, unknown-encoding,
    non-ascii-compatible-encoding, non-portable-encoding, unrepresentable-characters), and raise alike.  The
    charset-name-blindness of every other stage is PROVED for the instantiated models (Lemmas/MetaRealCharset.lean):
    `check_headers` parses the name into `ctx.metadata` and prints the same tags; `check_language`, `check_plurals`,
    `check_project`, `check_translator` read other fields; `check_dates` looks at the Content-Type value for the
    Publican prefix only; `check_messages` and the format checkers see `ctx.encoding is not None` only.
    `Real.DbOk`: `\b` holds between the blank and `charset` (` ` is not a word character, `c` is). -/
theorem transcoding_composed (w : Real.World) (hdb : Real.DbOk w.hx.db) (fl : BinFlags) (k1 k2 : Real.RCtx) (h : Real.TcRel w k1 k2) :
    Spec.Metamorphic.EqModulo Real.notCharset (runStages (Real.pipeline w) (fl, k1)).1 (runStages (Real.pipeline w) (fl, k2)).1 ∧
    (runStages (Real.pipeline w) (fl, k1)).2 = (runStages (Real.pipeline w) (fl, k2)).2 :=
  runStages_sim (Real.TcRelS w) Real.notCharset _ _ (Real.pipeline_respects_tc w hdb) (fl, k1) (fl, k2) ⟨rfl, h⟩

/-- `Real.HeaderRel` holds by the SHAPE of the header text: its lines, each terminated by a line feed, the one Content-Type
    field being the line `Content-Type: text/plain; charset=<name>`; the two names graphic ASCII (`Real.PlainName`) and known
    to the tool.  (So the hypothesis of `transcoding_composed` about the header entries is: this is what they look like.) -/
theorem transcoding_header_shape (w : Real.World) (pre post : List Real.Str) (n1 n2 : Real.Str)
    (hl : ∀ l ∈ pre ++ post, '\n' ∉ l) (hct : ∀ l ∈ pre ++ post, ∀ v, Hdr.parseLine l ≠ .field Real.ctKey v)
    (p1 : Real.PlainName n1) (p2 : Real.PlainName n2) (t1 : Real.TcName w n1) (t2 : Real.TcName w n2) :
    Real.HeaderRel w (Real.terminated (pre ++ Real.ctLine n1 :: post)) (Real.terminated (pre ++ Real.ctLine n2 :: post)) :=
  Real.headerRel_of_lines w pre post n1 n2 hl hct p1 p2 t1 t2

/-- the same from the files: two spelled PO files (C10) whose catalogs have the same header comment and entries related
    by `Real.EntryRel` — e.g. the same catalog transcoded, charset name adjusted -/
theorem transcoding_composed_files (w : Real.World) (hdb : Real.DbOk w.hx.db) (env : Po.Env) (hpy : PyEnv env) (E1 E2 : Codec)
    (name1 name2 : Po.Bytes) (cat1 cat2 : CatalogSp) (file1 file2 : Po.Bytes)
    (h1 : SpelledFile env E1 name1 cat1 file1) (h2 : SpelledFile env E2 name2 cat2 file2)
    (hheader : cat1.headerText = cat2.headerText)
    (hentries : Real.ListRel (Real.EntryRel w) ((cat1.entries.map EntrySp.entry).map (observe ∘ ofPoEntry))
      ((cat2.entries.map EntrySp.entry).map (observe ∘ ofPoEntry)))
    (isTemplate statOk : Bool) :
    Spec.Metamorphic.EqModulo (keepLine Real.notCharset) (Real.checkPo w env isTemplate statOk file1).lines
      (Real.checkPo w env isTemplate statOk file2).lines ∧
    (Real.checkPo w env isTemplate statOk file1).uncaught = (Real.checkPo w env isTemplate statOk file2).uncaught := by
  obtain ⟨f1, l1, v1⟩ := poLoad_spelled env hpy E1 name1 cat1 file1 h1
  obtain ⟨f2, l2, v2⟩ := poLoad_spelled env hpy E2 name2 cat2 file2 h2
  unfold Real.checkPo
  rw [check_first_ok statOk _ _ _ _ f1 l1, check_first_ok statOk _ _ _ _ f2 l2]
  apply check_sim_ok (Real.TcRelS w) Real.notCharset statOk _ f1 f2 _ _ _ _ _ (Real.pipeline_respects_tc w hdb)
  intro broken
  show Real.TcRelS w (Real.ctxOfPo isTemplate (poView f1) broken) (Real.ctxOfPo isTemplate (poView f2) broken)
  rw [v1, v2]
  exact ⟨rfl, ⟨rfl, rfl, hheader, hentries, Real.MetaRel.refl w _, rfl, rfl, rfl⟩⟩

end Composed

/-! ## non-vacuity -/

/-- the C08 witness catalog in the plainest little-endian and big-endian layouts: different bytes … -/
example : serialize C08.witnessCat ⟨false, 0, 0, 0, [], false, [], [], [], []⟩
    ≠ serialize C08.witnessCat ⟨true, 0, 0, 0, [], true, [1, 2, 3], [], [[9]], [7]⟩ := by decide

/-- … same (non-trivial) load result, hence the same run -/
example : moLoad Mo.asciiDB (serialize C08.witnessCat ⟨true, 0, 0, 0, [], true, [1, 2, 3], [], [[9]], [7]⟩) false
    = .ok ⟨[⟨['i'], some ['c'], .singular ['s']⟩], false⟩ := by rfl

example : fakePath (some ("/tmp/t/".toList, "p.deb/".toList)) "/tmp/t/usr/x.po".toList = .ok "p.deb/usr/x.po".toList := by rfl
example : fakePath (some ("/tmp/t/".toList, "p.deb/".toList)) "/tmp/tt/x.po".toList = .ok "/tmp/tt/x.po".toList := by rfl
example : fakePath (some ("/tmp/t".toList, "p.deb/".toList)) "/tmp/t/x.po".toList = .error .valueError := by rfl

/-- a package with a PO member (one tag), a text file (only `unknown-file-type`) and a symlink -/
def demoWorld : World where
  tmpdir := "/tmp/T".toList
  unpackOk := true
  walk := [("/tmp/T".toList, []), ("/tmp/T/usr".toList, ["a.po".toList, "b.txt".toList, "l.po".toList])]
  islink := fun p => p == "/tmp/T/usr/l.po".toList
  isfile := fun _ => true

def demoRaw (p : Str) : List Deb.TagCall × Bool :=
  if p == "/tmp/T/usr/a.po".toList then ([⟨"empty-file".toList, ['W'], "empty-file".toList⟩], false)
  else ([⟨unknownFileType, ['I'], unknownFileType⟩], false)

example : checkFile demoWorld demoRaw ⟨[], none, true⟩ "p.deb".toList
    = ⟨[⟨['W'], "p.deb/usr/a.po".toList, "empty-file".toList⟩], .normal⟩ := by decide

example : checkFile demoWorld demoRaw ⟨[], none, true⟩ "p.txt".toList
    = ⟨[⟨['I'], "p.txt".toList, unknownFileType⟩], .normal⟩ := by decide

/-- `check_dates` on a header without POT-Creation-Date: the PO run has the tag, the MO run does not -/
example : checkDates (τ := Unit) false id (fun _ _ => []) [] ["2012-11-01 14:42+0100".toList] = [.noDate true] := by decide
example : checkDates (τ := Unit) true id (fun _ _ => []) [] ["2012-11-01 14:42+0100".toList] = [] := by decide

example : observe (ofMo ⟨['a'], none, .singular ['b']⟩) = observe (ofPo ⟨['a'], none, .singular ['b']⟩) := by decide
example : ofMo ⟨['a'], none, .singular ['b']⟩ ≠ ofPo ⟨['a'], none, .singular ['b']⟩ := by decide

/-! ## 7. the function the `whole-files` stream exercises -/

/-- **whole_is_composition.**  `Real.wholeCheck` — what the driver op `whole check` (lean/I18n/Driver/Whole.lean) runs on the bytes of a file,
    and what the `whole-files` stream of tools/checks/C17.py compares line by line with the real `Checker.check` — IS `Check.check`
    (the model of C01/C03) instantiated with the loader models (C10 `poLoad`, C08 `moLoad`), the `ctx` built from what lib/check can
    observe of the loaded file, and `Real.pipeline`; the extension (or `--file-type`) only selects the loader and `is_template`.
    So `same_catalog_same_diagnostics`, `transcoding_composed_files`, `po_file_vs_compiled_mo` above, C01's `real_po_nocrash` /
    `real_mo_nocrash` / `pipeline_nocrash_unconditional`, and through the stage models the theorems of C07, C14, C15, C16, C18, C19,
    C20, are about the very function the stream runs. -/
theorem whole_is_composition (w : Real.World) (env : Po.Env) (db : Mo.CodecDB) (fileType : Option Real.Str) (statOk : Bool) (file : List UInt8) :
    (Real.extOf fileType w.path = .po →
      Real.wholeCheck w env db fileType statOk file
        = check statOk .po (poLoad env file) (fun f b => Real.ctxOfPo false (poView f) b) (Real.pipeline w)) ∧
    (Real.extOf fileType w.path = .pot →
      Real.wholeCheck w env db fileType statOk file
        = check statOk .pot (poLoad env file) (fun f b => Real.ctxOfPo true (poView f) b) (Real.pipeline w)) ∧
    (Real.extOf fileType w.path = .mo →
      Real.wholeCheck w env db fileType statOk file = check statOk .mo (moLoad db file) Real.ctxOfMo (Real.pipeline w)) ∧
    (Real.extOf fileType w.path = .other →
      (Real.wholeCheck w env db fileType statOk file).lines = (if statOk then [.unknownFileType] else [.osError]) ∧
      (Real.wholeCheck w env db fileType statOk file).uncaught = false) := by
  refine ⟨fun h => ?_, fun h => ?_, fun h => ?_, fun h => ?_⟩
  · simp only [Real.wholeCheck, h, Real.checkPo]; rfl
  · simp only [Real.wholeCheck, h, Real.checkPo]; rfl
  · simp only [Real.wholeCheck, h, Real.checkMo]
  · simp only [Real.wholeCheck, h]
    cases statOk <;> exact ⟨rfl, rfl⟩

/-- it is `Real.checkPo` / `Real.checkMo` of the theorems above -/
theorem whole_is_checkPo_checkMo (w : Real.World) (env : Po.Env) (db : Mo.CodecDB) (fileType : Option Real.Str) (statOk : Bool) (file : List UInt8) :
    (Real.extOf fileType w.path = .po → Real.wholeCheck w env db fileType statOk file = Real.checkPo w env false statOk file) ∧
    (Real.extOf fileType w.path = .pot → Real.wholeCheck w env db fileType statOk file = Real.checkPo w env true statOk file) ∧
    (Real.extOf fileType w.path = .mo → Real.wholeCheck w env db fileType statOk file = Real.checkMo w db statOk file) :=
  ⟨fun h => by simp only [Real.wholeCheck, h], fun h => by simp only [Real.wholeCheck, h], fun h => by simp only [Real.wholeCheck, h]⟩

/-- `--file-type` overrides the extension; `.po` / `.pot` / `.mo`, `.gmo` are the three kinds (lines 133-146) -/
theorem ext_of_file_type (path : Real.Str) :
    Real.extOf (some "po".toList) path = .po ∧ Real.extOf (some "pot".toList) path = .pot ∧
    Real.extOf (some "mo".toList) path = .mo ∧ Real.extOf (some "gmo".toList) path = .mo ∧ Real.extOf (some "txt".toList) path = .other := by
  have h : ∀ t : Real.Str, Real.extOf (some t) path = Real.classifyExt ('.' :: t) := fun _ => rfl
  simp only [h]
  clear h path
  decide

/-- **the order of the stage calls is the order of the source**: `Generated.BinaryReads.checkStages` is what `Checker.check` says
    today (regenerated from /repo by ast on every run) … -/
theorem stage_order_pinned :
    Generated.BinaryReads.checkStages =
      ["check_comments(ctx)", "check_headers(ctx)", "check_language(ctx)", "check_plurals(ctx)", "check_mime(ctx)",
       "if broken_encoding: ctx.encoding = None", "check_dates(ctx)", "check_project(ctx)", "check_translator(ctx)", "check_messages(ctx)"] := rfl

/-- … **output_order**: and the composed checker prints its tags stage by stage in that order — for every `ctx`, the positions
    (in the SOURCE list) of the stage calls the printed tags come from are non-decreasing: comments, headers, language, plurals,
    mime, dates, project, translator, messages.  (`Real.stagePos` looks the stage of a tag up in the generated list, so exchanging
    two calls in lib/check/__init__.py breaks this proof, and the `whole-files` stream finds the file.) -/
theorem output_order (w : Real.World) (s : BinFlags × Real.RCtx) :
    ((runStages (Real.pipeline w) s).1.map Real.stagePos).Pairwise (· ≤ ·) :=
  (Real.runStages_ordered Real.stagePos (Real.pipeline w) 0 (Real.pipeline_ordered w) s).2

/-- the same for a whole run: the lines `check` prints itself come first or last (`afterLoad`), the stage tags in source order -/
theorem output_order_check {F : Type} (w : Real.World) (statOk : Bool) (ext : Ext) (load : Bool → Except LoadErr F)
    (init : F → Bool → BinFlags × Real.RCtx) :
    (((check statOk ext load init (Real.pipeline w)).lines.filterMap fun l => match l with | .tag t => some (Real.stagePos t) | _ => none)).Pairwise (· ≤ ·) := by
  have key : ∀ (pre : List (Line Real.RTag)) (s : BinFlags × Real.RCtx), (∀ l ∈ pre, ∀ t, l ≠ .tag t) →
      ((afterLoad pre (Real.pipeline w) s).lines.filterMap fun l => match l with | .tag t => some (Real.stagePos t) | _ => none).Pairwise (· ≤ ·) := by
    intro pre s hpre
    have e : (afterLoad pre (Real.pipeline w) s).lines.filterMap (fun l => match l with | .tag t => some (Real.stagePos t) | _ => none)
        = (runStages (Real.pipeline w) s).1.map Real.stagePos := by
      simp only [afterLoad, List.filterMap_append]
      have h1 : pre.filterMap (fun l => match l with | .tag t => some (Real.stagePos t) | _ => none) = [] := by
        apply List.filterMap_eq_nil_iff.mpr
        intro l hl
        cases l with
        | tag t => exact absurd rfl (hpre _ hl t)
        | _ => rfl
      rw [h1, List.nil_append, List.filterMap_map]
      induction (runStages (Real.pipeline w) s).1 with
      | nil => rfl
      | cons a r ih => simp only [List.filterMap_cons, Function.comp, List.map_cons, ih]
    rw [e]
    exact output_order w s
  unfold check
  cases statOk
  · simp
  · simp only [Bool.not_true, Bool.false_eq_true, if_false]
    by_cases he : ext = .other
    · simp [he]
    · simp only [he, if_false]
      rcases h0 : load false with e0 | f0
      · cases e0 <;> simp only [List.filterMap_cons, List.filterMap_nil] <;> try exact List.Pairwise.nil
        rcases h1 : load true with e1 | f1
        · cases e1 <;> simp
        · exact key _ _ (by intro l hl t; simp at hl; subst hl; simp)
      · exact key _ _ (by simp)

/-! ### non-vacuity of the composed theorems: a small world, a header without POT-Creation-Date, one message -/

namespace Demo

def demoDb : Hdr.UDB := ⟨fun c => c.isAlphanum || c == '_', fun c => c == ' ' || c == '\t' || c == '\n', fun c => c.isDigit, id⟩
def demoW : Real.World where
  hx := ⟨demoDb, id, fun _ => none, fun _ => false, fun _ => none⟩
  now := 0
  menv := Msg.liveEnv (fun _ => .ok)
  munch := id
  path := []
  optLanguage := none
  charset := fun _ _ n => .ok ([], some n)
  pluralForms := fun _ => (none, [])
  reprParen := fun _ _ => []
  kmsg := fun _ _ => .other

def obsOf (msgid msgstr : String) : Obs :=
  { msgid := msgid.toList, msgctxt := none, msgidPlural := none, msgstrOrEmpty := msgstr.toList, msgstrPlural := [], flags := [],
    commentOrEmpty := [], occurrences := [], obsolete := false, hasPrevious := (false, false, false), translated := true }

def hdr (cs : String) : String := "Language: de\nContent-Type: text/plain; charset=" ++ cs ++ "\nPO-Revision-Date: 2012-11-01 14:42+0100\n"
def ctxOf (cs : String) : Real.RCtx :=
  { isTemplate := false, broken := false, comments := [], entries := [obsOf "" (hdr cs), obsOf "a" "b"] }

example : (runStages (Real.pipeline demoW) (⟨false, false⟩, ctxOf "UTF-8")).1.any Real.isExempt = true := by decide +kernel
example : (runStages (Real.pipeline demoW) (⟨true, false⟩, ctxOf "UTF-8")).1.any Real.isExempt = false := by decide +kernel

theorem tcName (n : String) (h1 : n.toList ≠ []) (h2 : ∀ c ∈ n.toList, demoDb.isSpace c = false ∧ c ≠ ';') : Real.TcName demoW n.toList :=
  ⟨h1, h2, fun _ _ => ⟨[], Hdr.toName n.toList, rfl⟩⟩

theorem hdrRel : Real.HeaderRel demoW (hdr "UTF-8").toList (hdr "ISO-8859-2").toList := by
  refine ⟨by decide +kernel, ?_⟩
  have e1 : Hdr.parseHeader (hdr "UTF-8").toList = [Hdr.Line.field "Language".toList "de".toList] ++
      Hdr.Line.field Real.ctKey (Real.ctValue "UTF-8".toList) :: [Hdr.Line.field "PO-Revision-Date".toList "2012-11-01 14:42+0100".toList] := by decide +kernel
  have e2 : Hdr.parseHeader (hdr "ISO-8859-2").toList = [Hdr.Line.field "Language".toList "de".toList] ++
      Hdr.Line.field Real.ctKey (Real.ctValue "ISO-8859-2".toList) :: [Hdr.Line.field "PO-Revision-Date".toList "2012-11-01 14:42+0100".toList] := by decide +kernel
  rw [e1, e2]
  exact Real.LinesRel.subst _ _ _ _ (tcName "UTF-8" (by decide) (by decide)) (tcName "ISO-8859-2" (by decide) (by decide)) 
    (by intro l hl v e; simp at hl; subst hl; injection e with e1 _; exact absurd e1 (by decide))
    (by intro l hl v e; simp at hl; subst hl; injection e with e1 _; exact absurd e1 (by decide))

/-- the two contexts are related, so `transcoding_composed` applies to them -/
theorem ctxRel : Real.TcRel demoW (ctxOf "UTF-8") (ctxOf "ISO-8859-2") :=
  ⟨rfl, rfl, rfl,
   .cons (Or.inr ⟨rfl, rfl, rfl, (hdr "ISO-8859-2").toList, rfl, hdrRel⟩) (.cons (Or.inl rfl) .nil),
   Real.MetaRel.refl _ _, rfl, rfl, rfl⟩

example := transcoding_composed demoW ⟨by decide, by decide⟩ ⟨false, false⟩ _ _ ctxRel
end Demo

end I18n.Props.C17
