import I18n.Model.Cli
import I18n.Generated.StateSites
import I18n.Lemmas.CliState
import I18n.Lemmas.HashOrder
import I18n.Model.CliWitness
/-!
# C03 (composition clause) — multi-file output is the concatenation of the single-file outputs

What is PROVED here: for the model of `check_all`, the output is independent of the job count and of
the order in which worker processes complete — it is always the concatenation, in argument order, of
the per-file outputs.  The contract assumed of `concurrent.futures.Executor.map` is written into the
model (`executorMap`).  What is NOT provable in a model — that the real per-file output is a function
of the file alone (hash randomisation, module-level state, stale caches) — is decided by the
`determinism` correspondence: the real CLI under several `PYTHONHASHSEED`s, rotations and prefixes of
the file list, `-j 1/2/5`, compared with the single-file runs.
-/
namespace I18n.Props.C03
open I18n.Cli

theorem find_done {α β : Type} (f : α → β) (paths : List α) :
    ∀ (sched : List Nat) (i : Nat) (p : α), paths[i]? = some p → i ∈ sched →
      ((sched.filterMap (fun j => paths[j]?.map (fun q => (j, f q)))).find? (fun q => q.1 == i)).map (·.2) = some (f p) := by
  intro sched
  induction sched with
  | nil => intro i p _ h; cases h
  | cons j rest ih =>
    intro i p hp hi
    simp only [List.filterMap_cons]
    cases hj : paths[j]? with
    | none =>
      simp only [Option.map_none]
      rcases List.mem_cons.mp hi with rfl | h
      · rw [hp] at hj; cases hj
      · exact ih i p hp h
    | some q =>
      simp only [Option.map_some, List.find?_cons]
      by_cases hji : j = i
      · subst hji
        rw [hp] at hj; cases hj
        simp
      · have : (j == i) = false := by simpa using hji
        simp only [this]
        rcases List.mem_cons.mp hi with rfl | h
        · exact absurd rfl hji
        · exact ih i p hp h

theorem filterMap_some_map {α β : Type} (f : α → β) (l : List α) :
    (l.map (fun p => some (f p))).filterMap id = l.map f := by
  induction l with
  | nil => rfl
  | cons p ps ih => simp only [List.map_cons, List.filterMap_cons, id]; rw [ih]

/-- every task's result is delivered, in submission order, whatever the completion order -/
theorem executorMap_eq {α β : Type} (f : α → β) (paths : List α) (sched : List Nat)
    (hall : ∀ i, i < paths.length → i ∈ sched) :
    executorMap f paths sched = paths.map (fun p => some (f p)) := by
  unfold executorMap
  apply List.ext_getElem
  · simp
  · intro i h1 h2
    simp only [List.getElem_map, List.getElem_range]
    have hi : i < paths.length := by simpa using h1
    have hp : paths[i]? = some paths[i] := List.getElem?_eq_getElem hi
    exact find_done f paths sched i paths[i] hp (hall i hi)

/-- **Job count and completion schedule are irrelevant**: for every `jobs ≥ 0` and every completion order in which
    each task completes, `check_all` prints exactly the concatenation, in argument order, of the per-file outputs. -/
theorem jobs_schedule_irrelevant {α : Type} (checkFile : α → List String) (paths : List α) (jobs : Nat) (sched : List Nat)
    (hall : ∀ i, i < paths.length → i ∈ sched) :
    checkAll checkFile paths jobs sched = (paths.map checkFile).flatten := by
  unfold checkAll
  split
  · rfl
  · rw [executorMap_eq checkFile paths sched hall]
    rw [filterMap_some_map]

/-- the multi-file output is the concatenation of the single-file invocations (`jobs = 1`, one path each) -/
theorem concat_of_single_runs {α : Type} (checkFile : α → List String) (paths : List α) (jobs : Nat) (sched : List Nat)
    (hall : ∀ i, i < paths.length → i ∈ sched) :
    checkAll checkFile paths jobs sched = (paths.map (fun p => checkAll checkFile [p] 1 [0])).flatten := by
  rw [jobs_schedule_irrelevant checkFile paths jobs sched hall]
  congr 1
  apply List.map_congr_left
  intro p _
  simp [checkAll, checkAllSeq]

/-! Non-vacuity: three files, five workers, completion order 2,0,1 -/
example : checkAll (fun (s : String) => [s ++ "!"]) ["a", "b", "c"] 5 [2, 0, 1] = ["a!", "b!", "c!"] := by decide

/-! ## Pins on the inventories regenerated from /repo (tools/translate/state2lean.py)

Each pin is decided by evaluation over the generated lists; it talks about KINDS only.  A new `lru_cache` on a function that
inspects the stack, a module-level set that a check mutates, `', '.join(frozenset)`, a Checker created outside the per-file
path … regenerate a site of a non-benign kind and the pin stops compiling (`chk.broken` -> falsifier on the real CLI). -/
section Pins
open I18n.Spec I18n.Generated.StateSites

/-- every piece of process-global state is of a benign kind (justified kind by kind in `Spec/StateKinds.lean`) -/
theorem global_state_sites_benign : ∀ s ∈ stateSites, s.kind.benign = true := by decide +kernel

/-- no expression whose order is the hash order of a set reaches an order-sensitive consumer -/
theorem unordered_iteration_sites_sorted : ∀ s ∈ iterSites, s.verdict.benign = true := by decide +kernel

/-- the data obligation of the `lookupOnly` verdict: dicts built by iterating a set have pairwise distinct keys
    (so the last-writer-wins rule of dict construction never applies and the build order is invisible) -/
theorem lookup_tables_have_distinct_keys : ∀ t ∈ lookupKeys, t.2.1 = true ∧ t.2.2.Nodup := by decide +kernel

/-- whatever a function of the per-file path mutates is an object created for that call -/
theorem per_file_mutations_hit_per_call_objects : ∀ s ∈ mutSites, s.root.perCall = true := by decide +kernel

/-- Checker instances, the ctx namespace and every loop accumulator (`found_unusual_characters`, `msgid_counter`, …) are
    created inside the per-call path -/
theorem accumulators_per_call : ∀ s ∈ creationSites, s.perCall = true := by decide +kernel

/-- reads of randomness / clock / stack / environment / directory order are of the classified kinds -/
theorem nondeterminism_sources_benign : ∀ s ∈ nondetSites, s.kind.benign = true := by decide +kernel

/-- `options.jobs` is read by the driver (`check_all`) and on the start-up path (`main`) only — never by a check: this is
    why the job count is a separate argument of `CliState.checkAll` and the per-file program cannot depend on it -/
theorem jobs_option_read_by_driver_only : ∀ r ∈ sharedReads, r.1 = "jobs" → r.2.2 ≠ "perFile" := by decide +kernel

/-! Non-vacuity of the pins: the inventories are populated, and contain the sites the property's anchors name
(by role / kind, not by identifier) -/
example : (sharedReads.filter (fun r => r.1 == "jobs")).length ≥ 1 ∧ (sharedReads.filter (fun r => r.2.2 == "perFile")).length ≥ 3 := by
  decide +kernel
example : stateSites.length ≥ 100 ∧ iterSites.length ≥ 60 ∧ mutSites.length ≥ 100 := by decide +kernel
example : (stateSites.filter (fun s => s.kind == .pureCache)).length ≥ 1
    ∧ (stateSites.filter (fun s => s.kind == .patchAtStartup)).length ≥ 10
    ∧ (stateSites.filter (fun s => s.kind == .onceInstaller)).length ≥ 1
    ∧ (stateSites.filter (fun s => s.kind == .importRegistry)).length ≥ 1
    ∧ (stateSites.filter (fun s => s.kind == .scopedRedirect)).length ≥ 1 := by decide +kernel
example : (iterSites.filter (fun s => s.verdict == .sorted)).length ≥ 20
    ∧ (iterSites.filter (fun s => s.verdict == .lookupOnly)).length = lookupKeys.length := by decide +kernel
example : (creationSites.filter (fun s => s.role == "checker-instance")).length ≥ 1
    ∧ (creationSites.filter (fun s => s.role == "ctx-namespace")).length ≥ 1
    ∧ (creationSites.filter (fun s => s.role == "loop-accumulator")).length ≥ 10 := by decide +kernel
/-- the predicates do reject: the kinds the seeded changes produce are not benign -/
example : StateKind.impureCache.benign = false ∧ StateKind.perFileMutated.benign = false ∧ OrderVerdict.unsorted.benign = false
    ∧ MutRoot.sharedParam.perCall = false ∧ MutRoot.classState.perCall = false ∧ NondetKind.other.benign = false := by decide
end Pins

/-! ## The per-file path with explicit global state (`Model/CliState.lean`)

`G` = (patched flag, cache table): the components of the state inventory that are written after import.  A per-file
program can observe `G` only by calling a memoised function.  Hypothesis `KeyDetermines proj f` is the meaning of kind
`pureCache`: the cache key determines the value.  `Inv g` (patched ∧ every cached value is the function's value) holds in
the state `main` creates and is preserved by every file, in the parent and in every pool worker. -/
section State
open I18n.CliState
variable {K K' V O F : Type} [DecidableEq K']
variable {proj : K → K'} {f : K → V} (unpackDeb : O → Bool)
variable (checkRegular : O → F → Prog K V) (checkDeb : O → F → Option (Prog K V))
variable (colourOf : Bool → Bool → Bool) (render : Bool → String → String)

/-- **No history**: in every reachable global state, after ANY list of files checked earlier in the same process (any
    prefix, any permutation, any repetition — `hist` is arbitrary), the lines printed for `file` are those of the
    file checked alone in a fresh process: `out o file` mentions neither `g` nor `hist`. -/
theorem no_history (hkey : KeyDetermines proj f) (hcol : IgnoresRedirect colourOf) (o : O) (g : G K' V) (hg : Inv proj f t g) (hist : List F) (file : F) :
    (step proj f unpackDeb checkRegular checkDeb colourOf render o (seqRun proj f unpackDeb checkRegular checkDeb colourOf render o g hist).1 file).2
      = .ok (out f unpackDeb checkRegular checkDeb colourOf render t o file) :=
  (step_inv unpackDeb checkRegular checkDeb colourOf render hkey hcol o _ file
    (seqRun_inv unpackDeb checkRegular checkDeb colourOf render hkey hcol o hist g hg).2).1

/-- the blocks printed by the sequential loop are, one by one, the single-run outputs -/
theorem seq_blocks_are_single_runs (hkey : KeyDetermines proj f) (hcol : IgnoresRedirect colourOf) (o : O) :
    ∀ (files : List F) (g : G K' V), Inv proj f t g →
      seqBlocks proj f unpackDeb checkRegular checkDeb colourOf render o g files
        = files.map (fun p => .ok (out f unpackDeb checkRegular checkDeb colourOf render t o p)) := by
  intro files
  induction files with
  | nil => intro g _; rfl
  | cons file rest ih =>
    intro g hg
    have hs := step_inv unpackDeb checkRegular checkDeb colourOf render hkey hcol o g file hg
    simp only [seqBlocks, List.map_cons, hs.1, ih _ hs.2]

/-- permuting the argument list permutes the blocks and changes none of them -/
theorem no_history_perm (hkey : KeyDetermines proj f) (hcol : IgnoresRedirect colourOf) (o : O) (g : G K' V) (hg : Inv proj f t g) (l1 l2 : List F)
    (h : l1.Perm l2) :
    (seqBlocks proj f unpackDeb checkRegular checkDeb colourOf render o g l1).Perm
      (seqBlocks proj f unpackDeb checkRegular checkDeb colourOf render o g l2) := by
  rw [seq_blocks_are_single_runs unpackDeb checkRegular checkDeb colourOf render hkey hcol o l1 g hg,
      seq_blocks_are_single_runs unpackDeb checkRegular checkDeb colourOf render hkey hcol o l2 g hg]
  exact h.map _

/-- **Multi-file output = concatenation of the single-file outputs**, at full strength: for every reachable global state,
    every job count `j`, every assignment of tasks to pool workers and every execution order `sched` in which each task is
    run (workers keep their own state between the tasks they get). -/
theorem multi_file_concat (hkey : KeyDetermines proj f) (hcol : IgnoresRedirect colourOf) (o : O) (j : Nat) (g : G K' V) (hg : Inv proj f t g)
    (paths : List F) (sched : List (Nat × Nat)) (hall : ∀ i, i < paths.length → i ∈ sched.map (·.1)) :
    (CliState.checkAll proj f unpackDeb checkRegular checkDeb colourOf render o j g paths sched).2
      = .ok ((paths.map (out f unpackDeb checkRegular checkDeb colourOf render t o)).flatten) := by
  unfold CliState.checkAll
  split
  · exact (seqRun_inv unpackDeb checkRegular checkDeb colourOf render hkey hcol o paths g hg).1
  · simp only
    have : (List.range paths.length).map (fun i =>
        ((parExec proj f unpackDeb checkRegular checkDeb colourOf render o paths sched (fun _ => g)).find? (fun q => q.1 == i)).map (·.2))
        = (paths.map (out f unpackDeb checkRegular checkDeb colourOf render t o)).map (fun x => some (Except.ok x)) := by
      apply List.ext_getElem
      · simp
      · intro i h1 h2
        simp only [List.getElem_map, List.getElem_range]
        have hi : i < paths.length := by simpa using h1
        exact parExec_find unpackDeb checkRegular checkDeb colourOf render hkey hcol o paths sched _ (fun _ => hg) i paths[i]
          (List.getElem?_eq_getElem hi) (hall i hi)
    rw [this, collect_all_ok]

/-- a single-file invocation (`-j 1`, nothing scheduled) prints `out o file` -/
theorem single_file_run (hkey : KeyDetermines proj f) (hcol : IgnoresRedirect colourOf) (o : O) (g : G K' V) (hg : Inv proj f t g) (file : F) :
    (CliState.checkAll proj f unpackDeb checkRegular checkDeb colourOf render o 1 g [file] []).2
      = .ok (out f unpackDeb checkRegular checkDeb colourOf render t o file) := by
  have h := (seqRun_inv unpackDeb checkRegular checkDeb colourOf render hkey hcol o [file] g hg).1
  simpa [CliState.checkAll] using h

/-- the state `main` hands to `check_all`, starting from a freshly imported interpreter on a stdout of kind `tty`, satisfies
    the invariant (with terminal state `tty`) -/
theorem fresh_patched_inv (tty : Bool) :
    ∀ g1, patchEnvironment (initializeTerminal tty (fresh : G K' V)) = .ok g1 → Inv proj f tty g1 := by
  intro g1 h
  simp only [patchEnvironment, initializeTerminal, fresh] at h
  cases h
  exact ⟨rfl, consistent_nil proj f, rfl⟩

/-- **`main` end to end**: from a fresh process whose stdout is of kind `tty` (a colour terminal or not), for every file list,
    job count and schedule, `main` raises neither `EnvironmentAlreadyPatched` nor `EnvironmentNotPatched`, exits with status 0
    and prints the concatenation, in argument order, of what `main` prints for each file alone with `-j 1` ON THE SAME KIND OF
    STDOUT. -/
theorem main_concat_of_single_runs (hkey : KeyDetermines proj f) (hcol : IgnoresRedirect colourOf) (o : O) (j : Nat) (tty : Bool)
    (files : List F) (sched : List (Nat × Nat)) (hall : ∀ i, i < files.length → i ∈ sched.map (·.1)) :
    CliState.main proj f unpackDeb checkRegular checkDeb colourOf render o j tty fresh files sched
      = (.ok ((files.map (out f unpackDeb checkRegular checkDeb colourOf render tty o)).flatten), 0)
    ∧ ∀ file, CliState.main proj f unpackDeb checkRegular checkDeb colourOf render o 1 tty fresh [file] []
      = (.ok (out f unpackDeb checkRegular checkDeb colourOf render tty o file), 0) := by
  have hinv : Inv proj f tty ({ patched := true, cache := [], terminal := tty } : G K' V) := ⟨rfl, consistent_nil proj f, rfl⟩
  have hp : patchEnvironment (initializeTerminal tty (fresh : G K' V)) = .ok { patched := true, cache := [], terminal := tty } := rfl
  constructor
  · simp only [CliState.main, hp]
    rw [multi_file_concat unpackDeb checkRegular checkDeb colourOf render hkey hcol o j _ hinv files sched hall]
  · intro file
    simp only [CliState.main, hp]
    rw [single_file_run unpackDeb checkRegular checkDeb colourOf render hkey hcol o _ hinv file]

omit [DecidableEq K'] in
/-- the once-flag does its job: a second `patch_environment` in the same process is refused, and a Checker created
    before the first one is refused (the two exceptions of lib/check/__init__.py) -/
theorem patch_environment_once (g : G K' V) (hg : g.patched = true) :
    patchEnvironment g = .error .environmentAlreadyPatched := by
  simp [patchEnvironment, hg]

theorem unpatched_checker_refused (o : O) (g : G K' V) (hg : g.patched = false) (file : F) :
    step proj f unpackDeb checkRegular checkDeb colourOf render o g file = (g, .error .environmentNotPatched) := by
  simp [step, hg]

/-- `check_file_s` leaves `sys.stdout` as it found it, whatever `check_file` did (kind scopedRedirect), and captures exactly
    what `check_file` would have printed -/
theorem check_file_s_is_check_file_captured (hkey : KeyDetermines proj f) (hcol : IgnoresRedirect colourOf) (o : O) (g : G K' V) (hg : Inv proj f t g) (file : F) :
    (checkFileS proj f unpackDeb checkRegular checkDeb colourOf render o g file).1.captured = g.captured
    ∧ (checkFileS proj f unpackDeb checkRegular checkDeb colourOf render o g file).2
        = (step proj f unpackDeb checkRegular checkDeb colourOf render o g file).2 := by
  refine ⟨rfl, ?_⟩
  rw [(checkFileS_inv unpackDeb checkRegular checkDeb colourOf render hkey hcol o g file hg).1,
      (step_inv unpackDeb checkRegular checkDeb colourOf render hkey hcol o g file hg).1]

end State

/-! ### The kind of stdout as a dimension of "for every -j" (seeded change X1-b)

`Checker.tag` formats with `color=True`: whether escape sequences come out is decided by the terminal state of the PROCESS,
set once by `initialize_terminal` from the real stdout and inherited by forked workers (`colourOfCode`).  X1-b asks
`sys.stdout.isatty()` inside `tag()` instead: in a pool worker `sys.stdout` is the StringIO of `check_file_s`. -/
section Colour
open I18n.CliState I18n.CliWitness
variable {K K' V O F : Type} [DecidableEq K']
variable {proj : K → K'} {f : K → V} (unpackDeb : O → Bool)
variable (checkRegular : O → F → Prog K V) (checkDeb : O → F → Option (Prog K V)) (render : Bool → String → String)

theorem code_ignores_redirect : IgnoresRedirect colourOfCode := fun _ _ => rfl

/-- **Colouring is the same function of (terminal, options) whether or not the file is checked in a worker**: for every kind of
    stdout `t`, every reachable state, every job count and schedule, `check_all` prints what the sequential run prints — the
    lines of each file rendered with the colour decision of the process (`-j N` = `-j 1`), and `check_file_s` in a worker
    captures exactly the bytes `check_file` prints in the parent. -/
theorem colour_independent_of_jobs (hkey : KeyDetermines proj f) (o : O) (t : Bool) (g : G K' V) (hg : Inv proj f t g)
    (paths : List F) (j : Nat) (sched : List (Nat × Nat)) (hall : ∀ i, i < paths.length → i ∈ sched.map (·.1)) :
    (CliState.checkAll proj f unpackDeb checkRegular checkDeb colourOfCode render o j g paths sched).2
      = (CliState.checkAll proj f unpackDeb checkRegular checkDeb colourOfCode render o 1 g paths []).2
    ∧ (CliState.checkAll proj f unpackDeb checkRegular checkDeb colourOfCode render o j g paths sched).2
      = .ok ((paths.map (fun p => ((checkFileProg unpackDeb checkRegular checkDeb o p).pure f).map (render t))).flatten)
    ∧ ∀ file, (checkFileS proj f unpackDeb checkRegular checkDeb colourOfCode render o g file).2
        = (step proj f unpackDeb checkRegular checkDeb colourOfCode render o g file).2 := by
  have h1 := multi_file_concat unpackDeb checkRegular checkDeb colourOfCode render hkey code_ignores_redirect o j g hg paths sched hall
  have h2 : (CliState.checkAll proj f unpackDeb checkRegular checkDeb colourOfCode render o 1 g paths []).2
      = .ok ((paths.map (out f unpackDeb checkRegular checkDeb colourOfCode render t o)).flatten) := by
    have := (seqRun_inv unpackDeb checkRegular checkDeb colourOfCode render hkey code_ignores_redirect o paths g hg).1
    simpa [CliState.checkAll] using this
  refine ⟨h1.trans h2.symm, h1, fun file => ?_⟩
  exact (check_file_s_is_check_file_captured unpackDeb checkRegular checkDeb colourOfCode render hkey code_ignores_redirect o g hg file).2

/-- the probe of X1-b looks at the redirect … -/
theorem probe_does_not_ignore_redirect : ¬ IgnoresRedirect colourOfProbe := by
  intro h
  have := h true true
  simp [colourOfProbe] at this

/-- … and **the output depends on the job count**: on a colour terminal, two files, `-j 2` prints plain lines while `-j 1` and
    the single-file runs print coloured ones; on a pipe (`terminal = false`) all agree — which is why no run on a pipe can see
    it.  With the code's decision (`colourOfCode`) the same runs agree on the terminal too. -/
theorem probe_of_swapped_stdout_depends_on_jobs :
    let run := fun (colourOf : Bool → Bool → Bool) (tty : Bool) (j : Nat) (files : List String) (sched : List (Nat × Nat)) =>
      lines (CliState.main (K' := String) id (fun (k : String) => k) (fun _ => false) tagCheck (fun _ _ => none) colourOf renderEsc () j tty fresh files sched).1
    run colourOfProbe true 1 ["a.po", "b.po"] [] = ["\x1b[33ma.po: tag\x1b[0m", "\x1b[33mb.po: tag\x1b[0m"]
    ∧ run colourOfProbe true 2 ["a.po", "b.po"] [(1, 1), (0, 0)] = ["a.po: tag", "b.po: tag"]
    ∧ run colourOfProbe true 2 ["a.po", "b.po"] [(1, 1), (0, 0)] ≠ run colourOfProbe true 1 ["a.po"] [] ++ run colourOfProbe true 1 ["b.po"] []
    ∧ run colourOfProbe false 2 ["a.po", "b.po"] [(1, 1), (0, 0)] = run colourOfProbe false 1 ["a.po", "b.po"] []
    ∧ run colourOfCode true 2 ["a.po", "b.po"] [(1, 1), (0, 0)] = run colourOfCode true 1 ["a.po", "b.po"] [] := by
  decide
end Colour

/-! ### What the `pureCache` pin excludes: a cache keyed on less than its inputs (seeded change C03-a)

`polib_unescape` memoised on the escaped text alone, while its value also depends on the charset of the file being parsed.
Two files with the same escaped text and different charsets: the second file is printed with the first file's decoding. -/
section Stale
open I18n.CliState I18n.CliWitness

/-- the lossy key does not determine the value … -/
theorem stale_key_does_not_determine : ¬ KeyDetermines staleProj staleF := by
  intro h
  have := h ("x", "a") ("x", "b") rfl
  simp [staleF] at this

/-- … and history becomes visible: after `latin1.po`, `latin9.po` is printed with the Latin-1 decoding, which is not what
    `latin9.po` prints alone; with the full key (`proj = id`) the same run is history-free. -/
theorem stale_cache_breaks_no_history :
    let g0 : G String String := { patched := true, cache := [] }
    let run := fun (hist : List String) =>
      lines (step staleProj staleF (fun _ => false) staleCheck (fun _ _ => none) colourOfCode (fun _ l => l) ()
              (seqRun staleProj staleF (fun _ => false) staleCheck (fun _ _ => none) colourOfCode (fun _ l => l) () g0 hist).1 "ISO-8859-15").2
    run [] = ["ISO-8859-15:\\xa4"] ∧ run ["ISO-8859-1"] = ["ISO-8859-1:\\xa4"] ∧ run ["ISO-8859-1"] ≠ run [] := by
  decide

example :
    let g0 : G (String × String) String := { patched := true, cache := [] }
    let run := fun (hist : List String) =>
      lines (step id staleF (fun _ => false) staleCheck (fun _ _ => none) colourOfCode (fun _ l => l) ()
              (seqRun id staleF (fun _ => false) staleCheck (fun _ _ => none) colourOfCode (fun _ l => l) () g0 hist).1 "ISO-8859-15").2
    run ["ISO-8859-1"] = run [] := by
  decide

/-- non-vacuity of `multi_file_concat`: three files, two workers, worker 0 gets tasks 2 then 0, worker 1 gets task 1;
    the cache is shared by the tasks of a worker -/
example :
    lines (CliState.checkAll id staleF (fun _ => false) staleCheck (fun _ _ => none) colourOfCode (fun _ l => l) () 2
            ({ patched := true, cache := [] } : G (String × String) String)
            ["ISO-8859-1", "ISO-8859-15", "ISO-8859-1"] [(2, 0), (1, 1), (0, 0)]).2
      = ["ISO-8859-1:\\xa4", "ISO-8859-15:\\xa4", "ISO-8859-1:\\xa4"] := by
  decide
end Stale

/-! ### What `per_file_mutations_hit_per_call_objects` excludes: a per-file function writing into the shared options
(seeded change C03-d; the defect repaired by 6966f22)

In the model the options `o` are an immutable parameter of every `step` — justified by the pin: no mutation of the per-file
path reaches an object created in `main`.  If `check_deb` adds `unknown-file-type` to the `ignore_tags` set that all files
share, the options become one more component of the threaded state, and a later file loses a line. -/
section SharedOptions
open I18n.CliWitness

theorem shared_options_mutation_breaks_concat :
    runWith stepShared [] [("gizmo.deb", true), ("readme.txt", false)]
      ≠ runWith stepShared [] [("gizmo.deb", true)] ++ runWith stepShared [] [("readme.txt", false)]
    ∧ runWith stepCopy [] [("gizmo.deb", true), ("readme.txt", false)]
      = runWith stepCopy [] [("gizmo.deb", true)] ++ runWith stepCopy [] [("readme.txt", false)] := by
  decide
end SharedOptions

/-! ### What `accumulators_per_call` excludes: accumulators that survive the call (a module-level `found_unusual_characters`,
a class-level list on `Checker`, one Checker reused for all files) -/
section SharedAccumulators
open I18n.CliWitness

/-- two files with the same message (msgid `bell`, a BEL in the translation): with per-call accumulators each file gets its
    `unusual-character-in-translation`; with accumulators that survive the call the second file loses it and gains a
    `duplicate-message-definition` it does not deserve -/
theorem shared_accumulator_breaks_no_history :
    let file : List (String × List Nat) := [("bell", [7])]
    (checkMessagesPerCall file ++ checkMessagesPerCall file
      = ["unusual-character-in-translation bell", "unusual-character-in-translation bell"])
    ∧ runSharedAccumulators ([], []) [file, file]
      = ["unusual-character-in-translation bell", "duplicate-message-definition bell"]
    ∧ runSharedAccumulators ([], []) [file, file] ≠ checkMessagesPerCall file ++ checkMessagesPerCall file := by
  decide

/-- within ONE file the accumulators do their job (non-vacuity of the witness model) -/
example : checkMessagesPerCall [("bell", [7]), ("bell", [7, 8]), ("x", [8])]
    = ["unusual-character-in-translation bell", "duplicate-message-definition bell", "unusual-character-in-translation bell"] := by
  decide
end SharedAccumulators

/-! ## Hash-seed independence inside the model (`Model/HashOrder.lean`)

A set is iterated in an ARBITRARY order `ord` (any rearrangement of its elements).  Each theorem below is the shape of the
sites of one verdict of `Generated/StateSites.iterSites` and says: the result is the same for every `ord`. -/
section HashSeed
open I18n.HashOrder
variable {α β : Type}

/-- **`sorted` kills the iteration order**: for a transitive, total comparison that is antisymmetric on the elements
    (they are pairwise distinct members of a set, compared by a linear order), sorting any rearrangement gives the same
    list. -/
theorem sorted_kills_order (ord : SetOrder α) (le : α → α → Bool)
    (trans : ∀ a b c, le a b → le b c → le a c) (total : ∀ a b, le a b || le b a) (s : List α)
    (antisymm : ∀ a b, a ∈ s → b ∈ s → le a b → le b a → a = b) :
    pySorted le (ord.order s) = pySorted le s := by
  have hp : (pySorted le (ord.order s)).Perm (pySorted le s) :=
    (pySorted_perm _ _).trans ((ord.perm s).trans (pySorted_perm _ _).symm)
  apply List.Perm.eq_of_pairwise (le := fun a b => le a b = true) _ (pySorted_pairwise le trans total _)
    (pySorted_pairwise le trans total _) hp
  intro a b ha hb hab hba
  have ha' : a ∈ s := (ord.perm s).mem_iff.mp ((pySorted_perm _ _).mem_iff.mp ha)
  have hb' : b ∈ s := (pySorted_perm _ _).mem_iff.mp hb
  exact antisymm a b ha' hb' hab hba

/-- `', '.join(sorted(types))` (msgformat/pybrace.py after ef37847; c.py; python.py): the same text under every hash seed -/
theorem sorted_join_seed_independent (ord1 ord2 : SetOrder String) (le : String → String → Bool)
    (trans : ∀ a b c, le a b → le b c → le a c) (total : ∀ a b, le a b || le b a) (sep : String) (s : List String)
    (antisymm : ∀ a b, a ∈ s → b ∈ s → le a b → le b a → a = b) :
    sortedJoin ord1 le sep s = sortedJoin ord2 le sep s := by
  unfold sortedJoin
  rw [sorted_kills_order ord1 le trans total s antisymm, sorted_kills_order ord2 le trans total s antisymm]

/-- `for x in sorted(s): …tag(…)…` (`_check_message_formats`, the `sorted(set(x))` idiom of check/__init__.py): the same
    lines in the same order under every hash seed -/
theorem sorted_for_seed_independent (ord1 ord2 : SetOrder α) (le : α → α → Bool)
    (trans : ∀ a b c, le a b → le b c → le a c) (total : ∀ a b, le a b || le b a) (emit : α → List String) (s : List α)
    (antisymm : ∀ a b, a ∈ s → b ∈ s → le a b → le b a → a = b) :
    sortedFor ord1 le emit s = sortedFor ord2 le emit s := by
  unfold sortedFor
  rw [sorted_kills_order ord1 le trans total s antisymm, sorted_kills_order ord2 le trans total s antisymm]

/-- `sorted(s, key=sort_key)` with a key that is injective on the elements (the classifier demands that the key contains the
    element itself): order-free.  With a key that ties, the stable sort leaks the hash order — `tie_in_key_leaks_order`. -/
theorem sorted_by_injective_key_seed_independent (ord1 ord2 : SetOrder α) (key : α → β) (leKey : β → β → Bool)
    (trans : ∀ a b c, leKey a b → leKey b c → leKey a c) (total : ∀ a b, leKey a b || leKey b a)
    (antisymmKey : ∀ a b, leKey a b → leKey b a → a = b) (s : List α)
    (inj : ∀ a b, a ∈ s → b ∈ s → key a = key b → a = b) :
    sortedByKey ord1 key leKey s = sortedByKey ord2 key leKey s := by
  unfold sortedByKey
  have h := fun (o : SetOrder α) => sorted_kills_order o (fun a b => leKey (key a) (key b))
    (fun a b c => trans (key a) (key b) (key c)) (fun a b => total (key a) (key b)) s
    (fun a b ha hb hab hba => inj a b ha hb (antisymmKey _ _ hab hba))
  rw [h ord1, h ord2]

/-- what the pins exclude (1): `', '.join(frozenset)` without `sorted` — two hash orders, two texts
    (the defect of msgformat/pybrace.py repaired by ef37847, msgid `{0:n}` / msgstr `{0:s}`) -/
theorem raw_join_depends_on_seed :
    rawJoin .asWritten ", " ["int", "str"] ≠ rawJoin .reversed ", " ["int", "str"] := by decide

/-- what the pins exclude (2): `sorted(s, key=…)` with a key that ties (here: constant) keeps the hash order -/
theorem tie_in_key_leaks_order :
    sortedByKey (.asWritten : SetOrder Nat) (fun _ => 0) (fun a b => decide (a ≤ b)) [1, 2]
      ≠ sortedByKey .reversed (fun _ => 0) (fun a b => decide (a ≤ b)) [1, 2] := by decide

/-- a regex alternation built from a set and used for match existence only (`check_comments`) -/
theorem any_match_seed_independent (ord1 ord2 : SetOrder α) (matchesAlt : α → Bool) (s : List α) :
    anyMatch ord1 matchesAlt s = anyMatch ord2 matchesAlt s := by
  unfold anyMatch
  have h : ∀ (o : SetOrder α), (o.order s).any matchesAlt = s.any matchesAlt := by
    intro o
    rw [Bool.eq_iff_iff]
    simp only [List.any_eq_true]
    constructor
    · rintro ⟨x, hx, hm⟩; exact ⟨x, (o.perm s).mem_iff.mp hx, hm⟩
    · rintro ⟨x, hx, hm⟩; exact ⟨x, (o.perm s).mem_iff.mpr hx, hm⟩
  rw [h ord1, h ord2]

theorem length_le_one_of_all_eq {l : List α} (hn : l.Nodup) (heq : ∀ a b, a ∈ l → b ∈ l → a = b) :
    l = [] ∨ ∃ x, l = [x] := by
  cases l with
  | nil => exact Or.inl rfl
  | cons a t =>
    cases t with
    | nil => exact Or.inr ⟨a, rfl⟩
    | cons b t' =>
      have hab : a = b := heq a b (by simp) (by simp)
      subst hab
      simp at hn

/-- a dict built by iterating a set and used for look-ups only (`header_fields_lc`, `_unmangle_encoding`): when the keys
    are pairwise distinct (pin `lookup_tables_have_distinct_keys`) every look-up gives the same answer under every order -/
theorem dict_get_seed_independent [DecidableEq β] (ord1 ord2 : SetOrder α) (key : α → β) (s : List α) (hn : s.Nodup)
    (inj : ∀ a b, a ∈ s → b ∈ s → key a = key b → a = b) (k : β) :
    dictGet (dictOfSet ord1 key s) k = dictGet (dictOfSet ord2 key s) k := by
  have h : ∀ (o : SetOrder α), (dictOfSet o key s).filter (fun kv => kv.1 == k)
      = (s.filter (fun x => key x == k)).map (fun x => (key x, x)) := by
    intro o
    unfold dictOfSet
    rw [List.filter_map]
    congr 1
    have hp : ((o.order s).filter (fun x => key x == k)).Perm (s.filter (fun x => key x == k)) := (o.perm s).filter _
    have hn' : (s.filter (fun x => key x == k)).Nodup := hn.filter _
    have heq : ∀ a b, a ∈ s.filter (fun x => key x == k) → b ∈ s.filter (fun x => key x == k) → a = b := by
      intro a b ha hb
      simp only [List.mem_filter, beq_iff_eq] at ha hb
      exact inj a b ha.1 hb.1 (ha.2.trans hb.2.symm)
    rcases length_le_one_of_all_eq hn' heq with h0 | ⟨x, hx⟩
    · rw [h0] at hp ⊢; exact hp.eq_nil
    · rw [hx] at hp ⊢; exact hp.eq_singleton
  unfold dictGet
  rw [h ord1, h ord2]

/-- `difflib.get_close_matches(word, <set>, n=1)`: the maximum of (score, candidate) pairs under a total order is the same
    whatever the order in which the candidates are visited -/
theorem best_match_seed_independent (ord1 ord2 : SetOrder α) (better : α → α → α)
    (comm : ∀ a b, better a b = better b a) (assoc : ∀ a b c, better (better a b) c = better a (better b c)) (s : List α) :
    bestMatch ord1 better s = bestMatch ord2 better s := by
  unfold bestMatch
  have hp : (ord1.order s).Perm (ord2.order s) := (ord1.perm s).trans (ord2.perm s).symm
  apply hp.foldl_eq'
  intro x _ y _ z
  cases z with
  | none => simp only [comm x y]
  | some a =>
    simp only [Option.some.injEq]
    rw [assoc, assoc, comm x y]

/-- `[x] = s` and `s.pop()` under `len(s) == 1` -/
theorem the_only_seed_independent (ord1 ord2 : SetOrder α) (s : List α) : theOnly ord1 s = theOnly ord2 s := by
  have h : ∀ (o : SetOrder α), theOnly o s = (match s with | [x] => some x | _ => none) := by
    intro o
    unfold theOnly
    have hp := o.perm s
    have hl := hp.length_eq
    match s, hp, hl with
    | [], hp, _ => rw [hp.eq_nil]
    | [x], hp, _ => rw [hp.eq_singleton]
    | x :: y :: t, _, hl =>
      cases ho : o.order (x :: y :: t) with
      | nil => simp [ho] at hl
      | cons a r =>
        cases r with
        | nil => simp [ho] at hl
        | cons b r' => rfl
  rw [h ord1, h ord2]

/-! non-vacuity: concrete sets, two different iteration orders, the real comparison on strings -/
example : sortedJoin .asWritten (fun a b => decide (a ≤ b)) ", " ["str", "int", "float"] = "float, int, str"
    ∧ sortedJoin .reversed (fun a b => decide (a ≤ b)) ", " ["str", "int", "float"] = "float, int, str" := by decide
example : sortedFor (.reversed : SetOrder Nat) (fun a b => decide (a ≤ b)) (fun n => [toString n]) [3, 1, 2] = ["1", "2", "3"] := by
  decide
example : dictGet (dictOfSet (.reversed : SetOrder String) String.length ["a", "bb"]) 2 = some "bb" := by decide
example : bestMatch (.reversed : SetOrder Nat) max [3, 9, 4] = some 9 ∧ theOnly (.reversed : SetOrder Nat) [7] = some 7 := by decide
end HashSeed

end I18n.Props.C03
