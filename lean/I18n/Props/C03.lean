import I18n.Model.Cli
import I18n.Generated.StateSites
/-!
# C03 (composition clause) — multi-file output is the concatenation of the single-file outputs

What is PROVED here: for the model of `check_all`, the output is independent of the job count and of
the order in which worker processes complete — it is always the concatenation, in argument order, of
the per-file outputs.  The contract assumed of `concurrent.futures.Executor.map` is written into the
model (`executorMap`).  What is NOT provable in a model — that the real per-file output is a function
of the file alone (hash randomisation, module-level state, stale caches) — is decided by the
`determinism` correspondence: the real CLI under several `PYTHONHASHSEED`s, rotations and prefixes of
the file list, `-j 1/2/5`, compared with the single-file runs.
-/
namespace I18n.Props.C03
open I18n.Cli

theorem find_done {α β : Type} (f : α → β) (paths : List α) :
    ∀ (sched : List Nat) (i : Nat) (p : α), paths[i]? = some p → i ∈ sched →
      ((sched.filterMap (fun j => paths[j]?.map (fun q => (j, f q)))).find? (fun q => q.1 == i)).map (·.2) = some (f p) := by
  intro sched
  induction sched with
  | nil => intro i p _ h; cases h
  | cons j rest ih =>
    intro i p hp hi
    simp only [List.filterMap_cons]
    cases hj : paths[j]? with
    | none =>
      simp only [Option.map_none]
      rcases List.mem_cons.mp hi with rfl | h
      · rw [hp] at hj; cases hj
      · exact ih i p hp h
    | some q =>
      simp only [Option.map_some, List.find?_cons]
      by_cases hji : j = i
      · subst hji
        rw [hp] at hj; cases hj
        simp
      · have : (j == i) = false := by simpa using hji
        simp only [this]
        rcases List.mem_cons.mp hi with rfl | h
        · exact absurd rfl hji
        · exact ih i p hp h

theorem filterMap_some_map {α β : Type} (f : α → β) (l : List α) :
    (l.map (fun p => some (f p))).filterMap id = l.map f := by
  induction l with
  | nil => rfl
  | cons p ps ih => simp only [List.map_cons, List.filterMap_cons, id]; rw [ih]

/-- every task's result is delivered, in submission order, whatever the completion order -/
theorem executorMap_eq {α β : Type} (f : α → β) (paths : List α) (sched : List Nat)
    (hall : ∀ i, i < paths.length → i ∈ sched) :
    executorMap f paths sched = paths.map (fun p => some (f p)) := by
  unfold executorMap
  apply List.ext_getElem
  · simp
  · intro i h1 h2
    simp only [List.getElem_map, List.getElem_range]
    have hi : i < paths.length := by simpa using h1
    have hp : paths[i]? = some paths[i] := List.getElem?_eq_getElem hi
    exact find_done f paths sched i paths[i] hp (hall i hi)

/-- **Job count and completion schedule are irrelevant**: for every `jobs ≥ 0` and every completion order in which
    each task completes, `check_all` prints exactly the concatenation, in argument order, of the per-file outputs. -/
theorem jobs_schedule_irrelevant {α : Type} (checkFile : α → List String) (paths : List α) (jobs : Nat) (sched : List Nat)
    (hall : ∀ i, i < paths.length → i ∈ sched) :
    checkAll checkFile paths jobs sched = (paths.map checkFile).flatten := by
  unfold checkAll
  split
  · rfl
  · rw [executorMap_eq checkFile paths sched hall]
    rw [filterMap_some_map]

/-- the multi-file output is the concatenation of the single-file invocations (`jobs = 1`, one path each) -/
theorem concat_of_single_runs {α : Type} (checkFile : α → List String) (paths : List α) (jobs : Nat) (sched : List Nat)
    (hall : ∀ i, i < paths.length → i ∈ sched) :
    checkAll checkFile paths jobs sched = (paths.map (fun p => checkAll checkFile [p] 1 [0])).flatten := by
  rw [jobs_schedule_irrelevant checkFile paths jobs sched hall]
  congr 1
  apply List.map_congr_left
  intro p _
  simp [checkAll, checkAllSeq]

/-! Non-vacuity: three files, five workers, completion order 2,0,1 -/
example : checkAll (fun (s : String) => [s ++ "!"]) ["a", "b", "c"] 5 [2, 0, 1] = ["a!", "b!", "c!"] := by decide

/-! ## Pins on the inventories regenerated from /repo (tools/translate/state2lean.py)

Each pin is decided by evaluation over the generated lists; it talks about KINDS only.  A new `lru_cache` on a function that
inspects the stack, a module-level set that a check mutates, `', '.join(frozenset)`, a Checker created outside the per-file
path … regenerate a site of a non-benign kind and the pin stops compiling (`chk.broken` -> falsifier on the real CLI). -/
section Pins
open I18n.Spec I18n.Generated.StateSites

/-- every piece of process-global state is of a benign kind (justified kind by kind in `Spec/StateKinds.lean`) -/
theorem global_state_sites_benign : ∀ s ∈ stateSites, s.kind.benign = true := by decide +kernel

/-- no expression whose order is the hash order of a set reaches an order-sensitive consumer -/
theorem unordered_iteration_sites_sorted : ∀ s ∈ iterSites, s.verdict.benign = true := by decide +kernel

/-- the data obligation of the `lookupOnly` verdict: dicts built by iterating a set have pairwise distinct keys
    (so the last-writer-wins rule of dict construction never applies and the build order is invisible) -/
theorem lookup_tables_have_distinct_keys : ∀ t ∈ lookupKeys, t.2.1 = true ∧ t.2.2.Nodup := by decide +kernel

/-- whatever a function of the per-file path mutates is an object created for that call -/
theorem per_file_mutations_hit_per_call_objects : ∀ s ∈ mutSites, s.root.perCall = true := by decide +kernel

/-- Checker instances, the ctx namespace and every loop accumulator (`found_unusual_characters`, `msgid_counter`, …) are
    created inside the per-call path -/
theorem accumulators_per_call : ∀ s ∈ creationSites, s.perCall = true := by decide +kernel

/-- reads of randomness / clock / stack / environment / directory order are of the classified kinds -/
theorem nondeterminism_sources_benign : ∀ s ∈ nondetSites, s.kind.benign = true := by decide +kernel

/-! Non-vacuity of the pins: the inventories are populated, and contain the sites the property's anchors name
(by role / kind, not by identifier) -/
example : stateSites.length ≥ 100 ∧ iterSites.length ≥ 60 ∧ mutSites.length ≥ 100 := by decide +kernel
example : (stateSites.filter (fun s => s.kind == .pureCache)).length ≥ 1
    ∧ (stateSites.filter (fun s => s.kind == .patchAtStartup)).length ≥ 10
    ∧ (stateSites.filter (fun s => s.kind == .onceInstaller)).length ≥ 1
    ∧ (stateSites.filter (fun s => s.kind == .importRegistry)).length ≥ 1
    ∧ (stateSites.filter (fun s => s.kind == .scopedRedirect)).length ≥ 1 := by decide +kernel
example : (iterSites.filter (fun s => s.verdict == .sorted)).length ≥ 20
    ∧ (iterSites.filter (fun s => s.verdict == .lookupOnly)).length = lookupKeys.length := by decide +kernel
example : (creationSites.filter (fun s => s.role == "checker-instance")).length ≥ 1
    ∧ (creationSites.filter (fun s => s.role == "ctx-namespace")).length ≥ 1
    ∧ (creationSites.filter (fun s => s.role == "loop-accumulator")).length ≥ 10 := by decide +kernel
/-- the predicates do reject: the kinds the seeded changes produce are not benign -/
example : StateKind.impureCache.benign = false ∧ StateKind.perFileMutated.benign = false ∧ OrderVerdict.unsorted.benign = false
    ∧ MutRoot.sharedParam.perCall = false ∧ MutRoot.classState.perCall = false ∧ NondetKind.other.benign = false := by decide
end Pins

end I18n.Props.C03
