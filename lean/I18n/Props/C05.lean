import I18n.Model.Plural
import I18n.Lemmas.Codomain
/-!
# C05 — range analysis of plural expressions is sound

Stated about the definitions generated from `lib/intexpr.py` (`Generated/Intexpr.lean`), for every
expression of the AST, every width `bits` (0 included) and every `n < 2^bits`.
-/
namespace I18n.Props.C05
open I18n I18n.Py I18n.Plural

private theorem two_pow_pos (bits : Nat) : (0 : Int) < (2 : Int) ^ bits :=
  Int.pow_pos (by decide)

/-- The analysis itself never fails: none of the `assert`s in `CodomainEvaluator` can fire, and no
    other exception is possible. -/
theorem codomain_nocrash (bits : Nat) (e : Expr) : ∃ r, codomain bits e = .ok r := by
  obtain ⟨r, hr, _⟩ := codomain_main (two_pow_pos bits) 0 ⟨Int.le_refl 0, two_pow_pos bits⟩ e
  exact ⟨r, hr⟩

/-- **C05, first clause.**  If the analysis returns bounds `(L, R)` then every `n < 2^bits` at which
    the expression evaluates successfully satisfies `L ≤ f(n) ≤ R`. -/
theorem codomain_sound (bits : Nat) (e : Expr) (L R : Int) (h : codomain bits e = .ok (some (L, R)))
    (n : Nat) (hn : (n : Int) < 2 ^ bits) (v : Int) (hv : evalAt bits n e = .ok v) :
    L ≤ v ∧ v ≤ R := by
  obtain ⟨r, hr, hs⟩ := codomain_main (two_pow_pos bits) n ⟨Int.natCast_nonneg n, hn⟩ e
  unfold codomain at h
  rw [h] at hr
  cases hr
  exact hs.2 v hv

/-- **C05, second clause.**  If the analysis returns no bounds, the expression fails for every
    `n < 2^bits`. -/
theorem codomain_none_fails (bits : Nat) (e : Expr) (h : codomain bits e = .ok none)
    (n : Nat) (hn : (n : Int) < 2 ^ bits) : ∀ v, evalAt bits n e ≠ .ok v := by
  obtain ⟨r, hr, hs⟩ := codomain_main (two_pow_pos bits) n ⟨Int.natCast_nonneg n, hn⟩ e
  unfold codomain at h
  rw [h] at hr
  cases hr
  exact hs

/-- The reported interval is well formed: `0 ≤ L ≤ R`, and `R < 2^bits` (or `R ≤ 1`: comparison
    results are not overflow-checked, which only matters at width 0). -/
theorem codomain_interval_wf (bits : Nat) (e : Expr) (L R : Int) (h : codomain bits e = .ok (some (L, R))) :
    0 ≤ L ∧ L ≤ R ∧ (R < 2 ^ bits ∨ R ≤ 1) := by
  obtain ⟨r, hr, hs⟩ := codomain_main (two_pow_pos bits) 0 ⟨Int.le_refl 0, two_pow_pos bits⟩ e
  unfold codomain at h
  rw [h] at hr
  cases hr
  exact hs.1

/-! Non-vacuity: concrete expressions on which the hypotheses hold with a non-trivial conclusion. -/

/-- `n % 10 + 1` at width 32 has bounds `(1, 10)`. -/
example : codomain 32 (.binop (.binop .name .mod (.num 10)) .add (.num 1)) = .ok (some (1, 10)) := by rfl
/-- `n / 0` has no bounds. -/
example : codomain 32 (.binop .name .div (.num 0)) = .ok none := by rfl
example : evalAt 32 7 (.binop (.binop .name .mod (.num 10)) .add (.num 1)) = .ok 8 := by rfl

end I18n.Props.C05
