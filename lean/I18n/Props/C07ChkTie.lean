import I18n.Lemmas.ChkPluralsGenerated
import I18n.Props.C07
/-!
# C07 — the tie (second part): `misc.format_range` and the analysing part of `Checker.check_plurals`, REGENERATED, are the model's functions

`I18n.Generated.ChkPlurals` is rewritten from the repository's current `lib/misc.py` (`format_range`) and `lib/check/__init__.py`
(`Checker.check_plurals`, everything after the header value has been parsed) by `tools/translate/chkplurals2lean.py` on every run.
The method is split at its three natural seams, each a regenerated definition of its own, and each is proved equal — for ALL inputs —
to the function of `Model/CheckPlurals.lean` the theorems of `Props/C07.lean` are about:

  `check_plurals_registry`  (the comparison with the language registry)          = `localCorrect` + the `unusual-…` decision of `analyse`
  `check_plurals_window`    (the 200-value loop, its `else:`, the two handlers)   = `window`
  `check_plurals_gaps`      (codomain / period gap analysis, the final loop)      = `gapRanges` + the gap tags of `analyse`
  `format_range`            (called by the final loop)                            = `formatRange`

The expression objects are the regenerated evaluators of lib/intexpr.py at 32 bits and the registry strings are read by the regenerated
strict `parse_plural_forms` (`Model/ChkPluralsGen.lean`).  The glue between the seams (`check_plurals_tail`: junk tags, the number-of-forms
tag, `unusual_plural_forms = False`, `codomain_limit = 200`, passing the results on) is regenerated too and `window_then_gaps` composes the
last two seams into the model's `afterRegistry`; the equality of the whole `check_plurals_tail` with `analyse` is stated in
DESIGN-notes/plural-check.md and tied by the `check-plurals-generated` stream, as is the part of the method before the parse.
-/
namespace I18n.Props.C07ChkTie
open I18n I18n.Py I18n.Plural I18n.CheckPlurals I18n.CheckPlurals.Py I18n.CheckPlurals.GenChk I18n.Generated

/-- `misc.format_range(range(a, b), max=5)` as regenerated = `formatRange a b` (non-empty range) -/
theorem generated_format_range_eq_model (a b : Nat) (h : a < b) :
    ChkPlurals.format_range (PyKit.rangeInt a b) 5 = .ok (formatRange a b) :=
  format_range_eq a b h

/-- the registry comparison as regenerated = the model's `localCorrect` and its decision (which declaration is "locally correct", the
    `unusual-[unused-]plural-forms` tag when there is none) -/
theorem generated_registry_eq_model (out : List TagCall) (pf : List Char) (hint : Extra) (hp : Bool) (correct : Option (List (List Char))) (n : Nat) :
    ChkPlurals.check_plurals_registry pluralOps out pf hint hp correct n =
      match (match correct with | none => .ok none | some cs => (localCorrect n cs).map some : Except Exc (Option (List (Nat × Expr)))) with
      | .error ex => .error ex
      | .ok lcs => .ok (match lcs with
          | none => (none, none, out)
          | some [] => (none, none, out ++ [unusualTagOf hp pf hint])
          | some [x] => (some x.2, some x.1, out)
          | some _ => (none, none, out)) :=
  registry_eq out pf hint hp correct n

/-- the window loop with its `else:` clause and the OverflowError / ZeroDivisionError handlers as regenerated = the model's `window`:
    the tags, and the value of `ctx.plural_preimage` (set exactly when the loop ran to completion) -/
theorem generated_window_eq_model (out : List TagCall) (c0 : Option (List (Int × List Nat))) (pf : List Char) (hint : Extra) (hp : Bool) (n : Nat)
    (e : Expr) (lc : Option (Nat × Expr)) :
    ChkPlurals.check_plurals_window pluralOps out c0 pf hint hp n e (lc.map (·.1)) (lc.map (·.2)) false 200 =
      match window n e lc hp (unusualTagOf hp pf hint) (List.range 200) ⟨out, [], false⟩ with
      | (_, .crashed ex) => .error ex
      | (st, .completed) => .ok (some st.pre, st.tags)
      | (st, .stopped) => .ok (c0, st.tags) :=
  window_eq out c0 pf hint hp n e lc

/-- the gap analysis and the final loop as regenerated = the model's `gapRanges` and gap tags (keys of a preimage are values of the
    expression, hence non-negative) -/
theorem generated_gaps_eq_model (out : List TagCall) (c : Option (List (Int × List Nat))) (hp : Bool) (n : Nat) (e : Expr)
    (hc : ∀ p, c = some p → ∀ k ∈ keys p, 0 ≤ k) :
    ChkPlurals.check_plurals_gaps pluralOps out c hp n e 200 =
      match gapRanges n e c with
      | .error ex => .error ex
      | .ok rs => .ok (out ++ rs.map (gapTag hp), if rs.isEmpty then c else none) :=
  gaps_eq out c hp n e hc

/-- the window, then the gap analysis, as regenerated = the last part of the model's `analyse` (`afterRegistry`) -/
theorem generated_window_then_gaps_eq_model (out : List TagCall) (pf : List Char) (hint : Extra) (hp : Bool) (n : Nat) (e : Expr) (lc : Option (Nat × Expr))
    (c : Option (List (Int × List Nat))) (out' : List TagCall)
    (hr : ChkPlurals.check_plurals_window pluralOps out none pf hint hp n e (lc.map (·.1)) (lc.map (·.2)) false 200 = .ok (c, out')) :
    ChkPlurals.check_plurals_gaps pluralOps out' c hp n e 200 = (afterRegistry pf hp hint n e lc out).map (fun o => (o.tags, o.preimage)) :=
  (wtg_ok out pf hint hp n e lc c out' hr).symm

/-- an exception leaves the regenerated window exactly when it leaves the model -/
theorem generated_window_error_eq_model (out : List TagCall) (pf : List Char) (hint : Extra) (hp : Bool) (n : Nat) (e : Expr) (lc : Option (Nat × Expr)) (ex : Exc)
    (hr : ChkPlurals.check_plurals_window pluralOps out none pf hint hp n e (lc.map (·.1)) (lc.map (·.2)) false 200 = .error ex) :
    (afterRegistry pf hp hint n e lc out).map (fun o => (o.tags, o.preimage)) = .error ex :=
  wtg_error out pf hint hp n e lc ex hr

/-- **the glue**: everything `check_plurals` does after the header value has parsed, as regenerated (`check_plurals_tail`: junk tags, the
    number-of-forms tag, the three seams, `unusual_plural_forms = False`, `codomain_limit = 200`), is the model's `analyse` — tags and
    `ctx.plural_preimage`.  In particular the regenerated `codomain_limit` is the model's `codomainLimit`: another value breaks this proof. -/
theorem generated_check_plurals_tail_eq_model (inp : Input) (pf : List Char) (hp : Bool) (expected : List (Nat × List Char)) (hint : Extra)
    (tags0 : List TagCall) (n : Nat) (e : Expr) (lj rj : List Char) :
    ChkPlurals.check_plurals_tail pluralOps tags0 none pf hint hp expected inp.correct n e lj rj =
      (analyse inp pf hp expected hint tags0 n e lj rj).map (fun o => (o.tags, o.preimage)) :=
  tail_eq inp pf hp expected hint tags0 n e lj rj

/-! ## headline corollaries, about the regenerated definitions -/

/-- **format_range_sound**, of the regenerated function: what the final loop prints for a gap is the model's rendering -/
theorem format_range_generated_never_fails (a b : Nat) (h : a < b) : ∃ s, ChkPlurals.format_range (PyKit.rangeInt a b) 5 = .ok s :=
  ⟨_, generated_format_range_eq_model a b h⟩

/-! Non-vacuity -/

example : ChkPlurals.format_range (PyKit.rangeInt ((2 : Nat) : Int) ((9 : Nat) : Int)) 5 = .ok (formatRange 2 9) :=
  generated_format_range_eq_model 2 9 (by decide)

end I18n.Props.C07ChkTie
