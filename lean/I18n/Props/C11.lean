import I18n.Lemmas.CFmtRuns
import I18n.Model.CFmtRe
import I18n.Generated.CFmtRe
import I18n.Lemmas.CFmtStar
import I18n.Lemmas.CFmtWitness
/-!
# C11 — the C format-string parser implements printf(3)

`CFmt.parse` is the model of `lib.strformat.c.FormatString` (scanner for `_directive_re`, `Conversion.__init__`,
`add_argument`, the gap and type checks); `Spec.Printf` is the reference: items, `render`, `Valid`, `signature`.
The tables the model reads are regenerated from the live module on every run (`Generated.CFormatTables`).

History: on the pinned tree one clause was false of the code — `int()` refused numerals of more than 4300 digits
with `ValueError`, which is not one of the parser's own errors and also made it reject valid strings (`%.000…0d`).
That was repaired by `fix:` 871d4d7 in /repo (lib/__init__.py lifts the limit).  The model keeps `int()`'s limit as
the generated constant `intMaxStrDigits` (0 = no limit, CPython's convention); `int_unlimited` pins it to 0 as dumped
from the running tool, and with it the `_partial` theorems (stated for any limit) give the unrestricted clauses
`parse_complete`, `parse_iff_valid`, `parse_error_own`.  If the limit ever comes back the pin stops compiling and the
check replays the old witness on the real code.
-/
namespace I18n.Props.C11
open I18n I18n.CFmt I18n.Spec.Printf
open I18n.Generated

set_option maxRecDepth 100000

/-! ## Pins: what was probed from the live module is what `Spec.Printf` says -/

/-- what the parse tree of `_directive_re` cannot carry (the tree itself is tied in the kernel: `Props.C11Tie.directive_regex`
    proves the scanner equal to the first match of the live tree, so the TEXT of the pattern is no longer pinned): no flag that
    changes how a tree matches (IGNORECASE, LOCALE, MULTILINE, DOTALL) is set on `_directive_re` or on the pattern of
    `_printable_prefix` — VERBOSE only changes parsing, ASCII/UNICODE only the categories, which the translator expands —, and
    the group names `FormatString`/`Conversion` use are the group numbers the theorems speak about -/
theorem regex_pin :
    CFmtRe.semanticFlags = 0 ∧ CFmtRe.printablePrefixSemanticFlags = 0 ∧ CFmtRe.groups = CFmt.expectedGroups ∧ CFmtRe.ngroups = 14 := by
  decide

/-- **The probed tables are printf's.**  For every (length, conversion) the type / `LengthError`, integer-ness and
    portability warning; every inttypes macro; every (flag, conversion), (width kind, conversion),
    (precision kind, conversion), (argument number, conversion) outcome; which conversions consume an argument;
    the limits; the type of `*` arguments; the `_info` strings; the set of own error classes. -/
theorem ctables_pin :
    CFormatTables.typeTable = CFmt.expectedTypeTable ∧
    CFormatTables.priTable = CFmt.expectedPriTable ∧
    CFormatTables.flagTable = CFmt.expectedFlagTable ∧
    CFormatTables.widthTable = CFmt.expectedWidthTable ∧
    CFormatTables.precTable = CFmt.expectedPrecTable ∧
    CFormatTables.indexTable = CFmt.expectedIndexTable ∧
    CFormatTables.consumes = CFmt.expectedConsumes ∧
    CFormatTables.NL_ARGMAX = Spec.Printf.NL_ARGMAX ∧
    CFormatTables.INT_MAX = Spec.Printf.INT_MAX ∧
    CFormatTables.variableWidthType = "int" ∧ CFormatTables.variablePrecisionType = "int" ∧
    CFormatTables.octCvt = ['o'] ∧ CFormatTables.hexCvt = ['x', 'X', 'a', 'A'] ∧
    CFormatTables.decCvt = ['d', 'i', 'u', 'f', 'F', 'g', 'G'] ∧ CFormatTables.floatCvt = floatConvs ∧
    CFormatTables.uintCvt = unsignedConvs ∧ CFormatTables.intCvt = signedConvs ++ unsignedConvs ∧
    CFormatTables.strCvt = ['s', 'S'] ∧
    CFormatTables.errorClasses = ["ArgumentNumberingMixture", "ArgumentRangeError", "ArgumentTypeMismatch", "Error",
      "FlagError", "ForbiddenArgumentIndex", "LengthError", "MissingArgument", "NonPortableConversion",
      "PrecisionError", "PrecisionRangeError", "RedundantFlag", "WidthError", "WidthRangeError"] :=
  ⟨typeTable_pin, priTable_pin, flagTable_pin, widthTable_pin, precTable_pin, indexTable_pin, consumes_pin,
    nl_argmax_pin, int_max_pin, star_type_pin.1, star_type_pin.2, by decide, by decide, by decide, by decide, by decide,
    by decide, by decide, by decide⟩

/-- the hand-modelled checks of `Conversion.__init__` (written from the `_info` strings) decide exactly the
    spec's applicability tables, and never hit the `assert`s -/
theorem model_checks_pin :
    (∀ f ∈ flagChars, ∀ c ∈ convChars,
      (flagErr f c = none ↔ c ∈ flagConvs f) ∧ (flagErr f c = none ∨ flagErr f c = some .FlagError)) ∧
    (∀ c ∈ convChars, ((c == '%' || c == 'n') = false ↔ c ∈ widthConvs)) ∧
    (∀ c ∈ convChars, ((CFormatTables.intCvt ++ CFormatTables.floatCvt ++ CFormatTables.strCvt).contains c = true ↔ c ∈ precConvs)) ∧
    (∀ b : Body, b.Wf → CFmt.typeInfo b = match b.typeInfo with
      | some ti => .ok (ti.type, ti.integer, ti.nonportable)
      | none => .error .LengthError) :=
  ⟨flagErr_spec, width_conv_spec, prec_conv_spec, fun _ hb => typeInfo_spec hb⟩

/-! ## Acceptance and signature -/

/-- **Soundness (all strings).**  Whatever is accepted is a rendering of valid printf items, and the reported
    argument list is their signature: for each argument 1..k, in order, its uses with their C types. -/
theorem parse_sound {s : List Char} {r : Result} (h : parse s = .ok r) :
    ∃ items, render items = s ∧ Valid items ∧ r.arguments = signature items := by
  obtain ⟨r', h', he⟩ := parse_false_of_ok h
  obtain ⟨items, h1, h2, h3, h4, h5⟩ := parseFalse_sound h'
  exact ⟨items, h1, ⟨h2, allValid_valid h3, h4⟩, he ▸ h5⟩

/-- **Unique readability.**  A string is the rendering of at most one well-formed item list — so "its directives"
    is well defined, and the `items` of `parse_sound` / `parse_iff_valid_partial` are unique. -/
theorem items_unique {items items' : List Item} (h : ItemsWf items) (h' : ItemsWf items')
    (he : render items = render items') : items = items' := render_injective h h' he

/-- **Completeness**, for strings without over-long numerals: every valid printf string is accepted, with its
    signature. -/
theorem parse_complete_partial {items : List Item} (hv : Valid items) (hs : ShortNumerals (render items)) :
    ∃ r, parse (render items) = .ok r ∧ r.arguments = signature items := by
  have hshort := dirShort_of_render hv.wf hs
  obtain ⟨r', h', he⟩ := parseFalse_complete hv.wf (fun d hd => ⟨hshort d hd, hv.directives d hd⟩) hv.global
  obtain ⟨r, h, he'⟩ := parse_of_false_ok h'
  exact ⟨r, h, he'.trans he⟩

/-- **Acceptance and signature, as one equivalence** (the property's first two clauses), for strings without
    over-long numerals. -/
theorem parse_iff_valid_partial {s : List Char} (hs : ShortNumerals s) (sig : List (List Entry)) :
    (∃ r, parse s = .ok r ∧ r.arguments = sig) ↔
      ∃ items, render items = s ∧ Valid items ∧ sig = signature items := by
  constructor
  · rintro ⟨r, h, rfl⟩
    exact parse_sound h
  · rintro ⟨items, rfl, hv, rfl⟩
    exact parse_complete_partial hv hs

/-! ### the unrestricted clauses -/

/-- **The tool runs without an `int()` digit limit**: `sys.get_int_max_str_digits()`, dumped by the translator after
    importing `lib`, is 0. -/
theorem int_unlimited : CFormatTables.intMaxStrDigits = 0 := by decide

theorem shortNumerals_all (s : List Char) : ShortNumerals s := Or.inl int_unlimited

/-- **Completeness**: every valid printf string is accepted, with its signature. -/
theorem parse_complete {items : List Item} (hv : Valid items) :
    ∃ r, parse (render items) = .ok r ∧ r.arguments = signature items :=
  parse_complete_partial hv (shortNumerals_all _)

/-- **C11, first two clauses, for every string**: a string is accepted with argument list `sig` iff it is the
    rendering of valid printf items whose signature is `sig`. -/
theorem parse_iff_valid (s : List Char) (sig : List (List Entry)) :
    (∃ r, parse s = .ok r ∧ r.arguments = sig) ↔
      ∃ items, render items = s ∧ Valid items ∧ sig = signature items :=
  parse_iff_valid_partial (shortNumerals_all s) sig

/-- the witness that refuted this before the fix: `%.` + 4301 zeros + `d` is valid printf (precision 0) and is
    accepted with one `int` argument -/
theorem witness_outcome :
    witness = '%' :: '.' :: (List.replicate 4301 '0' ++ ['d']) ∧
    ∃ r, parse witness = .ok r ∧ r.arguments = signature [.dir (zeroPrec (List.replicate 4301 '0'))] :=
  ⟨by simp [witness, render, Item.render, Directive.render, Directive.renderTail, zeroPrec, renderIdx, Width.render,
      Prec.render, Body.render, renderLen], parse_complete witness_valid⟩

/-! ## Errors -/

/-- **Own errors only — or `ValueError` from `int()`**, for every string. -/
theorem parse_error_kinds {s : List Char} {e : CErr} (h : parse s = .error e) :
    e.own = true ∨ e = .crash .ValueError := by
  have := parseW_arguments true s
  unfold parse at h
  rw [h] at this
  cases h2 : parseW false s with
  | ok r' => rw [h2] at this; cases this
  | error e' =>
    rw [h2] at this
    simp only [map_error, Except.error.injEq] at this
    subst this
    rcases parseFalse_error h2 with ho | ⟨hv, _⟩
    · exact Or.inl ho
    · exact Or.inr hv

/-- **Rejection raises only the parser's own `Error` classes**, for strings without over-long numerals. -/
theorem parse_error_own_partial {s : List Char} (hs : ShortNumerals s) {e : CErr} (h : parse s = .error e) :
    e.own = true := by
  have := parseW_arguments true s
  unfold parse at h
  rw [h] at this
  cases h2 : parseW false s with
  | ok r' => rw [h2] at this; cases this
  | error e' =>
    rw [h2] at this
    simp only [map_error, Except.error.injEq] at this
    subst this
    rcases parseFalse_error h2 with ho | ⟨_, hns⟩
    · exact ho
    · exact absurd (dirShort_of_scan hs) hns

/-- **C11, last clause, for every string**: rejection raises only the parser's own `Error` classes. -/
theorem parse_error_own {s : List Char} {e : CErr} (h : parse s = .error e) : e.own = true :=
  parse_error_own_partial (shortNumerals_all s) h

/-! ## Warnings, `*` arguments -/

/-- **Warnings are inert**: recording them or not changes neither acceptance, nor the error, nor the argument list;
    and with recording off nothing is recorded. -/
theorem warnings_inert (s : List Char) :
    (parse s).map (·.arguments) = (parseW false s).map (·.arguments) ∧
    (∀ r, parseW false s = .ok r → r.warnings = []) := by
  refine ⟨parseW_arguments true s, fun r h => ?_⟩
  unfold parseW at h
  generalize hsc : scan s = sc at h
  obtain ⟨items, complete⟩ := sc
  simp only at h
  obtain ⟨hwf, _⟩ := scan_sound hsc
  cases hst : steps false items St.init with
  | error e => rw [hst] at h; cases h
  | ok st =>
    rw [hst] at h
    simp only at h
    obtain ⟨_, st1, ha, rfl⟩ := (steps_ok_iff items St.init st hwf).1 hst
    have hw := (addAll_nitems ha).2
    split at h
    · cases h
    · split at h
      · cases h
      · split at h
        · cases h; exact hw
        · cases h

/-- **`*` widths and precisions are `int` arguments at the position printf fetches them**: in an accepted string
    every reference `(j, e)` — `j` the explicit `m$` or the running count — sits in slot `j` of the reported
    argument list, that slot's type is `e`'s type, and for a `*` width or precision this is `int`. -/
theorem star_args {s : List Char} {r : Result} (h : parse s = .ok r) :
    ∃ items, render items = s ∧ Valid items ∧
      ∀ j e, (j, e) ∈ positions (refs items) →
        1 ≤ j ∧ r.arguments[j - 1]? = some (usesOf (positions (refs items)) j) ∧ e ∈ usesOf (positions (refs items)) j ∧
        (typesOf r.arguments)[j - 1]? = some e.type ∧ (e.kind ≠ .conv → e.type = "int") := by
  obtain ⟨items, h1, hv, h3⟩ := parse_sound h
  refine ⟨items, h1, hv, fun j e hje => ?_⟩
  obtain ⟨a, b, c, d⟩ := signature_slot hv.global.gapFree hv.global.oneType hje
  rw [h3]
  refine ⟨a, b, c, d, fun hk => ?_⟩
  obtain ⟨rf, hrf, he⟩ := positionsFrom_entry _ _ _ hje
  simp only at he
  subst he
  exact refsFrom_star_int items 0 rf hrf hk

/-! ## Non-vacuity -/

/-- numbered arguments, shared argument, `*m$` width: `%2$*1$d %1$d` has two `int` arguments -/
example : (parse "%2$*1$d %1$d".toList).map (fun r => typesOf r.arguments) = .ok ["int", "int"] := by rfl
example : (parse "%2$*1$d %1$d".toList).map (·.arguments) =
    .ok [[⟨.width, "int", 0⟩, ⟨.conv, "int", 2⟩], [⟨.conv, "int", 0⟩]] := by rfl
/-- unnumbered `*.*`: width, precision, value in that order -/
example : (parse "%*.*Lf%%%m%s".toList).map (fun r => typesOf r.arguments) = .ok ["int", "int", "long double", "const char *"] := by rfl
example : (parse "%<PRIxLEAST32>%zu".toList).map (fun r => typesOf r.arguments) = .ok ["uint_least32_t", "size_t"] := by rfl
example : (parse "%1$s %3$s".toList).map (·.arguments) = .error .MissingArgument := by rfl
example : (parse "%1$d %1$s".toList).map (·.arguments) = .error .ArgumentTypeMismatch := by rfl
example : (parse "%1$d %s".toList).map (·.arguments) = .error .ArgumentNumberingMixture := by rfl
example : (parse "%#d".toList).map (·.arguments) = .error .FlagError := by rfl
example : (parse "%lls %!".toList).map (·.arguments) = .error .LengthError := by rfl
example : (parse "100%".toList).map (·.arguments) = .error .Error := by rfl
example : (parse "%-05d".toList).map (·.warnings) = .ok [.RedundantFlag] := by rfl
example : (parseW false "%-05d".toList).map (·.warnings) = .ok [] := by rfl
example : ShortNumerals "%5.3d".toList := shortNumerals_all _

end I18n.Props.C11
