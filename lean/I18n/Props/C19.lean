import I18n.Model.Locale
import I18n.Spec.Locale
namespace I18n.Props.C19
open I18n I18n.Locale I18n.Spec.LocaleRe

/-- the regex the code declares IS the locale grammar of the specification -/
theorem regex_pin : Generated.Locale.languageRegexp = Spec.Locale.localeRegexp := by decide

end I18n.Props.C19
