import I18n.Lemmas.LocaleParse
import I18n.Lemmas.LocaleRe
import I18n.Lemmas.LocaleFix
import I18n.Lemmas.LocaleLoad
import I18n.Lemmas.LocaleTags
import I18n.Lemmas.LocaleTagIff
import I18n.Lemmas.LocaleNoCrash
/-
C19 — locale names are parsed, normalised and compared consistently.
Clause 1: parse/print; clause 2: fix_codes; clause 3: the language tags of check_language (see below).
-/
namespace I18n.Props.C19
open I18n I18n.Locale I18n.Spec.LocaleRe I18n.Spec.Locale

/-! ## Clause 1 — `parse_language` / `str` -/

/-- the regex the code declares (its `re._parser` tree, regenerated on every run) IS the locale grammar of the specification,
    anchored at the very end of the string -/
theorem regex_pin : Generated.Locale.languageRegexp = Spec.Locale.localeRegexp := by decide

/-- `parse_language(s)` succeeds iff `_language_regexp.match(s)` does -/
theorem parse_iff_grammar (s : List Char) :
    (parseLanguage s).isSome ↔ Matches Generated.Locale.languageRegexp s := by
  rw [regex_pin, matches_localeRegexp]
  constructor
  · intro h
    obtain ⟨l, hl⟩ := Option.isSome_iff_exists.1 h
    obtain ⟨p, hp, hs, _⟩ := parse_sound s l hl
    exact ⟨p, hp, hs⟩
  · rintro ⟨p, hp, rfl⟩
    rw [parse_complete p hp]; rfl

/-- … iff `s` is `ll[_CC][.encoding][@modifier]`; everything else is rejected (`LanguageSyntaxError`) -/
theorem parse_iff_locale_name (s : List Char) : (parseLanguage s).isSome ↔ IsLocaleName s := by
  rw [parse_iff_grammar, regex_pin, matches_localeRegexp]

/-- the parts of an accepted name are found exactly (the grammar is unambiguous: two well-formed records with the same
    rendering are equal) -/
theorem render_injective (p q : Parts) (hp : p.WF) (hq : q.WF) (h : p.render = q.render) : p = q := by
  have h1 := parse_complete p hp
  have h2 := parse_complete q hq
  rw [h] at h1
  have e : ofParts p = ofParts q := Option.some.inj (h1.symm.trans h2)
  obtain ⟨a, b, c, d⟩ := p
  obtain ⟨a', b', c', d'⟩ := q
  simp only [ofParts, Language.mk.injEq] at e
  obtain ⟨rfl, rfl, _, rfl⟩ := e
  simp only [Parts.render] at h
  have h3 := List.append_cancel_left (List.append_cancel_left h)
  have h4 := List.append_cancel_right h3
  cases c <;> cases c' <;> simp_all [Spec.Locale.optPart]

/-- printing a parsed name gives the name back, up to the case of the encoding: the name is the rendering of well-formed
    parts, the printed form is the rendering of the same parts with the encoding upper-cased -/
theorem print_parse (s : List Char) (l : Language) (h : parseLanguage s = some l) :
    ∃ p : Parts, p.WF ∧ s = p.render ∧ l.str = { p with enc := p.enc.map (List.map asciiUpper) }.render := by
  obtain ⟨p, hp, hs, rfl⟩ := parse_sound s l h
  exact ⟨p, hp, hs, by rw [str_eq_render]; rfl⟩

/-- … and exactly the name when there is no encoding -/
theorem print_parse_exact (s : List Char) (l : Language) (h : parseLanguage s = some l) (he : l.enc = none) : l.str = s := by
  obtain ⟨p, hp, hs, rfl⟩ := parse_sound s l h
  obtain ⟨a, b, c, d⟩ := p
  cases c with
  | none => rw [str_eq_render, hs]; rfl
  | some e => simp [ofParts] at he

/-- … or when the encoding is written in upper case already -/
theorem print_parse_upper (s : List Char) (l : Language) (h : parseLanguage s = some l)
    (p : Parts) (hp : p.WF) (hs : s = p.render) (he : ∀ e, p.enc = some e → e.map asciiUpper = e) : l.str = s := by
  rw [hs, parse_complete p hp] at h
  cases h
  obtain ⟨a, b, c, d⟩ := p
  rw [str_eq_render, hs]
  cases c with
  | none => rfl
  | some e => have := he e rfl; simp [ofParts, toParts, this]

/-- parsing a printed `Language` gives it back (for every object `Language.__init__` can have produced from the grammar) -/
theorem parse_print (l : Language) (hwf : (toParts l).WF) (hup : ∀ e, l.enc = some e → e.map asciiUpper = e) :
    parseLanguage l.str = some l := by
  rw [str_eq_render, parse_complete _ hwf]
  obtain ⟨a, b, c, d⟩ := l
  cases c with
  | none => rfl
  | some e => have := hup e rfl; simp [ofParts, toParts, this]

/-- parse ∘ str ∘ parse = parse -/
theorem parse_str_parse (s : List Char) (l : Language) (h : parseLanguage s = some l) : parseLanguage l.str = some l := by
  obtain ⟨p, hp, _, rfl⟩ := parse_sound s l h
  rw [str_eq_render, parse_complete _ (ofParts_wf p hp), ofParts_toParts_ofParts]

/-- the result of a successful parse is well formed -/
theorem parse_wf (s : List Char) (l : Language) (h : parseLanguage s = some l) : (toParts l).WF := by
  obtain ⟨p, hp, _, rfl⟩ := parse_sound s l h
  exact ofParts_wf p hp

example : parseLanguage "de_AT.utf-8@euro".toList = some ⟨"de".toList, some "AT".toList, some "UTF-8".toList, some "euro".toList⟩ := by decide
example : (⟨"de".toList, some "AT".toList, some "UTF-8".toList, some "euro".toList⟩ : Language).str = "de_AT.UTF-8@euro".toList := by decide
example : parseLanguage "pl\n".toList = none := by decide
example : parseLanguage "pl_pl".toList = none := by decide
example : parseLanguage "p".toList = none := by decide
example : IsLocaleName "sr@latin".toList :=
  ⟨⟨"sr".toList, none, none, some "latin".toList⟩, ⟨⟨by decide, by decide⟩, trivial, trivial, ⟨by decide, by decide⟩⟩, by decide⟩

/-- `Language.is_almost_equal` is an equivalence relation that contains equality (it compares a normal form) -/
theorem almost_equal_equivalence (a b c : Language) :
    isAlmostEqual a a = true ∧ (isAlmostEqual a b = isAlmostEqual b a)
      ∧ (isAlmostEqual a b = true → isAlmostEqual b c = true → isAlmostEqual a c = true)
      ∧ (a = b → isAlmostEqual a b = true) := by
  unfold isAlmostEqual
  refine ⟨by simp, ?_, ?_, ?_⟩
  · rw [Bool.eq_iff_iff]
    simp only [beq_iff_eq]
    exact eq_comm
  · intro h1 h2
    have e1 : removePrincipalTerritory a = removePrincipalTerritory b := by simpa using h1
    have e2 : removePrincipalTerritory b = removePrincipalTerritory c := by simpa using h2
    simp [e1, e2]
  · intro h; subst h; simp

/-! ## Clause 2 — `fix_codes` -/

/-- `fix_codes` succeeds iff the language code is in the ISO 639 table and the territory code (if any) in the ISO 3166 table;
    it replaces the language code by its canonical form, reports `fixed` iff that changed it, and changes nothing else;
    otherwise it raises `FixingLanguageCodesFailed` (never the bare `ValueError`) -/
theorem fix_codes_spec (l : Language) :
    fixCodes l =
      match lookupLanguage l.ll with
      | none => .error .fixingCodes
      | some v =>
        if (∀ c, l.cc = some c → c ∈ Generated.Locale.iso3166) then .ok ({ l with ll := v }, v != l.ll)
        else .error .fixingCodes :=
  fixCodes_eq l

/-- the canonical form of a code is the code itself, or the two-letter equivalent of a three-letter code
    (side condition `tableShape` checked on the generated table by the kernel) -/
theorem fix_codes_three_to_two (l l' : Language) (f : Bool) (h : fixCodes l = .ok (l', f)) :
    l'.cc = l.cc ∧ l'.enc = l.enc ∧ l'.mod = l.mod ∧ (l'.ll = l.ll ∨ (l.ll.length = 3 ∧ l'.ll.length = 2)) ∧ (f = true ↔ l'.ll ≠ l.ll) := by
  rw [fixCodes_eq] at h
  cases hv : lookupLanguage l.ll with
  | none => simp [hv] at h
  | some v =>
    simp only [hv] at h
    split at h
    · cases h
      refine ⟨rfl, rfl, rfl, lookupIn_shape _ iso639_shape _ _ hv, ?_⟩
      simp
    · cases h

/-- `fix_codes` is idempotent: a second call succeeds, changes nothing and reports nothing
    (general lemma `lookupIn_idem` + side condition `tableIdem` checked on the generated table by the kernel) -/
theorem fix_codes_idempotent (l l' : Language) (f : Bool) (h : fixCodes l = .ok (l', f)) : fixCodes l' = .ok (l', false) :=
  fixCodes_idem l l' f h

/-- unknown codes are rejected -/
theorem fix_codes_rejects (l : Language) :
    (∃ e, fixCodes l = .error e) ↔ (lookupLanguage l.ll = none ∨ ∃ c, l.cc = some c ∧ c ∉ Generated.Locale.iso3166) := by
  obtain ⟨ll, cc, enc, mod⟩ := l
  rw [fixCodes_eq]
  cases hv : lookupLanguage ll with
  | none => simp
  | some v =>
    cases cc with
    | none => simp
    | some c =>
      by_cases hc : c ∈ Generated.Locale.iso3166
      · simp [hc]
      · simp [hc]

/-- PIN: the language table the code has loaded is the dict the loop of `_read_iso_codes` (modelled: `loadStep`) builds from the
    rows of data/iso-codes as `ConfigParser` presents them; the territory set is the upper-cased key list -/
theorem iso_tables_loaded :
    loadIso639 (Generated.Locale.iso639.map (·.1)) Generated.Locale.languageCodes = Generated.Locale.iso639
      ∧ loadIso3166 Generated.Locale.territoryKeys = Generated.Locale.iso3166 :=
  ⟨iso639_is_loaded, iso3166_is_loaded⟩

/-- in terms of the data file: `fix_codes` accepts a language code iff it is the three-letter code or the two-letter equivalent of
    a row of data/iso-codes, and the result is the row's two-letter equivalent if it has one, else its three-letter code -/
theorem fix_codes_by_data (k : List Char) :
    (∀ v, lookupLanguage k = some v →
        ∃ r ∈ Generated.Locale.languageCodes, (r.2 ≠ [] ∧ v = r.2 ∧ (k = r.2 ∨ k = r.1)) ∨ (r.2 = [] ∧ k = r.1 ∧ v = r.1))
    ∧ (∀ r ∈ Generated.Locale.languageCodes,
        (r.2 ≠ [] → lookupLanguage r.1 = some r.2 ∧ lookupLanguage r.2 = some r.2) ∧ (r.2 = [] → lookupLanguage r.1 = some r.1)) :=
  ⟨fun v h => lookupLanguage_from_data k v h, fun r hr => lookupLanguage_of_row r hr⟩

example : (fixCodes ⟨"pol".toList, some "PL".toList, none, some "euro".toList⟩).toOption
    = some (⟨"pl".toList, some "PL".toList, none, some "euro".toList⟩, true) := by decide +kernel
example : (fixCodes ⟨"ace".toList, none, none, none⟩).toOption = some (⟨"ace".toList, none, none, none⟩, false) := by decide +kernel
example : (fixCodes ⟨"xx".toList, none, none, none⟩).toOption = none := by decide +kernel
example : (fixCodes ⟨"pl".toList, some "XX".toList, none, none⟩).toOption = none := by decide +kernel


/-! ## Clause 3 — the language tags of `check_language` -/
open I18n.Spec.LocaleTags

/-- whenever `check_language` returns, the tags it emitted (names, extras, order) and `ctx.language` are exactly the reference
    verdict `Spec.LocaleTags` — one rule "tag ⇔ condition" per tag: source precedence (option, `LC_MESSAGES` directory,
    base name), LibreOffice exception, disparity after dropping encoding and `@euro`, invalid-language with or without
    correction, `unable-to-determine-language` iff no source names a language.  For every option, path, list of `Language`,
    `X-Poedit-Language`, `X-Poedit-Country` values and every `_munch_language_name` function. -/
theorem language_tags_iff (munch : List Char → List Char) (inp : Input) (out : Output)
    (h : checkLanguage munch inp = .ok out) :
    out.tags = verdictTags munch inp ∧ out.language = verdictLanguage munch inp :=
  checkLanguage_verdict munch inp out h

/-- the `-l` option: accepted iff it is a locale name with known codes; what is stored has canonical codes, no encoding and
    no `@euro`; otherwise `invalid language` (a `LanguageError`), never another exception -/
theorem cli_language_spec (s : List Char) :
    cliLanguage s = (match known s with
      | some l => .ok (dropEuro (dropEncoding l))
      | none => .error (if (parseLanguage s).isSome then .fixingCodes else .syntax)) := by
  unfold cliLanguage known parseLanguageE
  cases parseLanguage s with
  | none => rfl
  | some l =>
    simp only
    cases hf : fixCodes l with
    | ok r => obtain ⟨l', f⟩ := r; simp [removeEncoding_eq, removeNonling_eq]
    | error e => have := fixCodes_err _ _ hf; subst this; rfl

/-- "when no source names a language the tool says so instead of guessing": the file's language is undetermined iff neither an
    outside source (after the LibreOffice exception), nor the field, nor X-Poedit-Language names one -/
theorem final_language_none_iff (munch : List Char → List Char) (inp : Input) :
    finalLanguage munch inp = none ↔
      (effectiveOutside munch inp).isNone ∧ fieldLanguage munch inp.metaLanguages = none
        ∧ (poeditValue inp).bind (named munch) = none := by
  unfold finalLanguage primary
  cases effectiveOutside munch inp with
  | some o => simp
  | none => cases fieldLanguage munch inp.metaLanguages <;> simp

/-- `language-disparity` is reported iff a source outside the header (the option, else an `LC_MESSAGES` directory, else the base
    name; minus the LibreOffice exception) and the `Language` field name different languages after dropping encoding and
    `@euro`, or the file's language and X-Poedit-Language have different language codes -/
theorem language_disparity_iff (munch : List Char → List Char) (inp : Input) (out : Output)
    (h : checkLanguage munch inp = .ok out) :
    hasName "language-disparity" out.tags ↔
      inp.isTemplate = false ∧
        ((∃ o m, effectiveOutside munch inp = some o ∧ fieldLanguage munch inp.metaLanguages = some m ∧ o.language ≠ m)
          ∨ (∃ p pl l src, poeditValue inp = some p ∧ named munch p = some pl ∧ primary munch inp = some (l, src) ∧ l.ll ≠ pl.ll)) := by
  rw [(checkLanguage_verdict munch inp out h).1]; exact disparity_iff munch inp

/-- source precedence, spelled out: the option outranks everything and is never overruled; without it the directory in front of
    `LC_MESSAGES` (encoding and `@euro` dropped) outranks the base name; the base name (never with an encoding) is the weak source
    that the LibreOffice exception can discard -/
theorem source_precedence (munch : List Char → List Char) (inp : Input) :
    (∀ l, inp.optLanguage = some l →
        ∃ o, effectiveOutside munch inp = some o ∧ o.language = l ∧ o.source = "command-line")
    ∧ (∀ l, inp.optLanguage = none → (lcMessagesDir inp.path).bind known = some l →
        ∃ o, effectiveOutside munch inp = some o ∧ o.language = dropEuro (dropEncoding l) ∧ o.source = "pathname")
    ∧ (inp.optLanguage = none → (lcMessagesDir inp.path).bind known = none →
        ∀ o, outside inp = some o → o.strength = .weak ∧ o.language.enc = none ∧ o.source = "pathname"
          ∧ ∃ l, (poStem inp.path).bind known = some l ∧ o.language = dropEuro l) := by
  refine ⟨?_, ?_, ?_⟩
  · intro l hl
    unfold effectiveOutside outside
    simp only [hl]
    cases fieldLanguage munch inp.metaLanguages with
    | none => exact ⟨_, rfl, rfl, rfl⟩
    | some m => simp [libreOfficeException]
  · intro l ho hl
    unfold effectiveOutside outside
    simp only [ho, hl]
    cases fieldLanguage munch inp.metaLanguages with
    | none => exact ⟨_, rfl, rfl, rfl⟩
    | some m => simp [libreOfficeException]
  · intro ho hl o hout
    unfold outside at hout
    simp only [ho, hl] at hout
    cases hk : (poStem inp.path).bind known with
    | none => simp [hk] at hout
    | some l =>
      simp only [hk] at hout
      cases hle : l.enc with
      | some e => simp [hle] at hout
      | none =>
        simp only [hle, Option.isSome_none, Bool.false_eq_true, if_false, Option.some.injEq] at hout
        subst hout
        exact ⟨rfl, hle, rfl, l, rfl, rfl⟩

/-- `invalid-language` is reported iff the field's value is not a locale name with known, canonical codes -/
theorem invalid_language_iff (munch : List Char → List Char) (inp : Input) (out : Output)
    (h : checkLanguage munch inp = .ok out) :
    hasName "invalid-language" out.tags ↔
      inp.isTemplate = false ∧ ∃ v, fieldValue inp.metaLanguages = some v ∧ v ≠ []
        ∧ ¬ ∃ l, parseLanguage v = some l ∧ ∃ l', canonical l = some (l', false) := by
  rw [(checkLanguage_verdict munch inp out h).1]; exact I18n.Locale.invalid_language_iff munch inp

/-- `unable-to-determine-language` is reported iff no source names a language (and then `ctx.language` is `None`: no guess) -/
theorem unable_to_determine_iff (munch : List Char → List Char) (inp : Input) (out : Output)
    (h : checkLanguage munch inp = .ok out) :
    (hasName "unable-to-determine-language" out.tags ↔ inp.isTemplate = false ∧ finalLanguage munch inp = none)
      ∧ (hasName "unable-to-determine-language" out.tags → out.language = none) := by
  obtain ⟨h1, h2⟩ := checkLanguage_verdict munch inp out h
  rw [h1, h2]
  refine ⟨unable_iff munch inp, ?_⟩
  intro hu
  have := (unable_iff munch inp).1 hu
  simp [verdictLanguage, this.1, this.2]

/-- `encoding-in-language-header-field` iff what the field denotes carries an encoding; `language-variant-does-not-affect-translation`
    iff it carries `@euro` -/
theorem encoding_and_variant_iff (munch : List Char → List Char) (inp : Input) (out : Output)
    (h : checkLanguage munch inp = .ok out) :
    (hasName "encoding-in-language-header-field" out.tags ↔
        inp.isTemplate = false ∧ ∃ v, fieldValue inp.metaLanguages = some v ∧ v ≠ [] ∧ ∃ l, candidate munch v = some l ∧ l.enc.isSome = true)
    ∧ (hasName "language-variant-does-not-affect-translation" out.tags ↔
        inp.isTemplate = false ∧ ∃ v, fieldValue inp.metaLanguages = some v ∧ v ≠ [] ∧ ∃ l, candidate munch v = some l ∧ l.mod = some "euro".toList) := by
  rw [(checkLanguage_verdict munch inp out h).1]
  refine ⟨?_, ?_⟩
  · rw [verdict_field_only munch inp _ (Or.inl rfl)]
    simp only [fieldRules_encoding]
  · rw [verdict_field_only munch inp _ (Or.inr rfl)]
    simp only [fieldRules_variant]

/-- `unknown-poedit-language` iff X-Poedit-Language is consulted (one distinct value, at most one distinct X-Poedit-Country) and
    names no language; `no-language-header-field` iff the field is absent (or empty) and not present with conflicting values
    (for a template: iff there is no single value) -/
theorem poedit_and_absent_iff (munch : List Char → List Char) (inp : Input) (out : Output)
    (h : checkLanguage munch inp = .ok out) :
    (hasName "unknown-poedit-language" out.tags ↔ inp.isTemplate = false ∧ ∃ p, poeditValue inp = some p ∧ named munch p = none)
    ∧ (hasName "no-language-header-field" out.tags ↔
        (if inp.isTemplate then (fieldValue inp.metaLanguages).isNone = true else fieldAbsent inp.metaLanguages = true)) := by
  rw [(checkLanguage_verdict munch inp out h).1]
  exact ⟨unknown_poedit_iff munch inp, no_language_header_field_iff munch inp⟩

/-- the correction offered for an English language name always comes from the name table -/
theorem name_correction_sound (m : List Char) (l : Language) (h : getLanguageForName m = .ok l) :
    ∃ n c, nameCode n = some c ∧ parseLanguage c = some l ∧
      (n = m ∨ (∃ x ∈ splitOn ';' m, n = strip x)
        ∨ n = strip ((m.dropWhile (· ≠ ',')).drop 1) ++ ' ' :: strip (m.takeWhile (· ≠ ','))
        ∨ (∃ x ∈ splitOn ',' m, n = strip x)) :=
  getLanguageForName_sound m l h

/-- … and a name of the table is always recognised -/
theorem name_correction_complete (m c : List Char) (h : nameCode m = some c) : ∃ l, getLanguageForName m = .ok l := by
  obtain ⟨l, hl⟩ := nameCode_parses m c h
  exact ⟨l, by rw [getLanguageForName_whole m c h]; simp [parseLanguageE, hl]⟩

/-! ## NoCrash -/

/-- `check_language` lets no exception escape, whatever the path, the options (also the hidden `--file-type`) and the header: the
    base name is read as a locale only when `os.path.splitext` gives it the extension `.po`, so `assert ext == '.po'` holds.
    (Before /repo d16b49e the gate was `path.endswith('.po')` and base names `.po`, `..po`, … raised `AssertionError` under
    `--file-type po`.) -/
theorem check_language_error_kinds (munch : List Char → List Char) (inp : Input) (e : LErr) : checkLanguage munch inp ≠ .error e :=
  checkLanguage_error munch inp e

/-- `check_language` raises nothing -/
theorem check_language_nocrash (munch : List Char → List Char) (inp : Input) : ∃ out, checkLanguage munch inp = .ok out :=
  checkLanguage_nocrash munch inp

/-- the two together: for every path, `check_language` returns exactly the reference verdict -/
theorem language_tags_total (munch : List Char → List Char) (inp : Input) :
    checkLanguage munch inp = .ok ⟨verdictTags munch inp, verdictLanguage munch inp⟩ := by
  obtain ⟨out, h⟩ := checkLanguage_nocrash munch inp
  obtain ⟨h1, h2⟩ := checkLanguage_verdict munch inp out h
  rw [h]
  cases out
  simp_all

/-- `parse_language`, `fix_codes`, the `-l` handling and `get_language_for_name` raise only their documented exceptions -/
theorem leaf_error_kinds (s : List Char) (l : Language) (e : LErr) :
    (parseLanguageE s = .error e → e = .syntax) ∧ (fixCodes l = .error e → e = .fixingCodes)
      ∧ (cliLanguage s = .error e → e.isLanguageError = true) ∧ (getLanguageForName s = .error e → e = .lookupError) := by
  refine ⟨?_, fixCodes_err l e, ?_, ?_⟩
  · intro h; unfold parseLanguageE at h; split at h <;> cases h; rfl
  · intro h
    rw [cli_language_spec] at h
    split at h
    · cases h
    · cases h; split <;> rfl
  · intro h
    rcases getLanguageForName_cases s with ⟨l', hl⟩ | hl
    · rw [hl] at h; cases h
    · rw [hl] at h; cases h; rfl

-- a base name that is only dots and `po` has no extension: it is not read as a language (it used to fail the assertion)
example : (checkLanguage (fun s => s) ⟨false, none, "/x/.po".toList, [], [], []⟩).toOption
    = some ⟨[tag "no-language-header-field" [], tag "unable-to-determine-language" []], none⟩ := by decide +kernel
example : knownExtension "/x/.po".toList = false := by decide
example : knownExtension "/x/pl.po".toList = true := by decide

example : verdictTags (fun s => s) ⟨false, none, "po/pl.po".toList, ["de".toList], [], []⟩
    = [disparity ⟨"pl".toList, none, none, none⟩ "pathname" ⟨"de".toList, none, none, none⟩ "Language header field"] := by
  decide +kernel
example : verdictTags (fun s => s) ⟨false, none, "x.po".toList, [], [], []⟩
    = [tag "no-language-header-field" [], tag "unable-to-determine-language" []] := by decide +kernel
example : verdictTags (fun s => s) ⟨false, none, "translations/source/da/dictionaries/pl_PL.po".toList, ["da".toList], [], []⟩ = [] := by
  decide +kernel
example : verdictTags (fun s => s) ⟨false, none, "x.po".toList, ["pol_PL.UTF-8@euro".toList], [], []⟩
    = [tag "encoding-in-language-header-field" [.str "pol_PL.UTF-8@euro".toList],
       tag "language-variant-does-not-affect-translation" [.str "pol_PL.UTF-8@euro".toList],
       tag "invalid-language" [.str "pol_PL.UTF-8@euro".toList, sExtra "=>", .str "pl_PL".toList]] := by decide +kernel
example : (checkLanguage (fun s => if s = "Polish".toList then "polish".toList else s)
      ⟨false, none, "/usr/share/locale/de/LC_MESSAGES/x.mo".toList, ["Polish".toList], ["german".toList], []⟩).toOption
    = some ⟨[tag "invalid-language" [.str "Polish".toList, sExtra "=>", .str "pl".toList],
             disparity ⟨"de".toList, none, none, none⟩ "pathname" ⟨"pl".toList, none, none, none⟩ "Language header field"],
            some ⟨"de".toList, none, none, none⟩⟩ := by decide +kernel

end I18n.Props.C19
