import I18n.Lemmas.MoParse
import I18n.Lemmas.MoDefects
/-!
# C09 — malformed MO files are rejected cleanly and never mis-read

Same model as C08 (`Mo.parse`, the line-by-line model of `lib/moparser.py`, with every Python partial operation
of the source as an explicit `Err.crash` outcome) plus `Mo.checkerLoad`, the model of the loading part of
`Checker.check`.  All theorems are for every byte string and every codec database.
-/
namespace I18n.Props.C09
open I18n.Mo I18n.Mo.Spec

/-- **Closed error set.**  Whatever the bytes, the loader returns, raises `moparser.SyntaxError`, or raises
    `UnicodeDecodeError` — `struct.unpack` on a short slice, a failing tuple unpacking, `bytes < None` and the
    `assert`s of the source cannot happen. -/
theorem parse_total_closed (db : CodecDB) (given : Option Bytes) (b : Bytes) (c : Crash) :
    parse db given b ≠ .error (.crash c) := by
  rcases parse_cases db given b with ⟨x, hx⟩ | hx | ⟨f, _, hf, _⟩ <;> simp [*]

/-- **Acceptance ⇒ well-formedness, and nothing is mis-read.**  If the loader returns a file then the bytes are a
    legal MO file of some well-formed catalog `cat` (every descriptor and string inside the file, NUL after each
    string, NUL structure consistent, keys in order) and the returned entries are exactly the decoding of that
    catalog's keys and values (`expected`: field by field, in file order). -/
theorem parse_sound (db : CodecDB) (given : Option Bytes) (b : Bytes) (f : MoFile) (h : parse db given b = .ok f) :
    ∃ cat, Encodes b cat f.possibleHiddenStrings ∧ (∀ e ∈ cat, e.WF) ∧
      expected db given cat f.possibleHiddenStrings = .ok f := by
  rcases parse_cases db given b with ⟨x, hx⟩ | hx | ⟨f', cat, hf, henc, hwf⟩
  · rw [hx] at h; cases h
  · rw [hx] at h; cases h
  · rw [hf] at h; cases h
    exact ⟨cat, henc, hwf, by rw [← parse_complete db given henc hwf]; exact hf⟩

/-- with C08's completeness: the loader accepts exactly the legal files whose text is decodable -/
theorem parse_ok_iff (db : CodecDB) (given : Option Bytes) (b : Bytes) (f : MoFile) :
    parse db given b = .ok f ↔
      ∃ cat, Encodes b cat f.possibleHiddenStrings ∧ (∀ e ∈ cat, e.WF) ∧
        expected db given cat f.possibleHiddenStrings = .ok f := by
  constructor
  · exact parse_sound db given b f
  · rintro ⟨cat, henc, hwf, hexp⟩
    rw [parse_complete db given henc hwf]; exact hexp

/-- a file that is not a legal MO file of any catalog is never loaded -/
theorem reject_not_encodes (db : CodecDB) (given : Option Bytes) (b : Bytes)
    (h : ¬ WellFormedFile b) :
    (∃ x, parse db given b = .error (.syntax x)) ∨ parse db given b = .error .decode := by
  rcases parse_cases db given b with hx | hx | ⟨f, cat, _, henc, hwf⟩
  · exact Or.inl hx
  · exact Or.inr hx
  · exact absurd ⟨cat, _, henc, hwf⟩ h

/-- **No string is mis-read.**  For a loaded file there are the two table offsets of the header and, for every
    returned entry `i`, raw key and value bytes such that: the descriptors at `O + 8i` / `T + 8i` hold their
    (length, offset), the bytes are present in the file at exactly that offset and length, inside the file, and
    followed by NUL (`StringAt`), and the entry is the decoding (`buildEntry`: NUL split, EOT split, codec) of exactly
    those bytes. -/
theorem returned_bytes_present (db : CodecDB) (given : Option Bytes) (b : Bytes) (f : MoFile) (h : parse db given b = .ok f) :
    ∃ (be : Bool) (ko to : Nat) (cs : Bytes) (raw : List (Bytes × Bytes)),
      WordAt be b 12 ko ∧ WordAt be b 16 to ∧ raw.length = f.entries.length ∧
      ∀ i (h1 : i < raw.length) (h2 : i < f.entries.length),
        StringAt be b (ko + 8 * i) raw[i].1 ∧ StringAt be b (to + 8 * i) raw[i].2 ∧
        buildEntry db cs (split 0 2 raw[i].1) raw[i].2 (splitAll 0 raw[i].2) = .ok f.entries[i] := by
  obtain ⟨cat, henc, hwf, hexp⟩ := parse_sound db given b f h
  have henc' := henc
  obtain ⟨be, major, minor, ko, to, hm, _, _, _, hn, _, hko, hto, hE, _⟩ := henc
  unfold expected at hexp
  cases hd : decodeEntries db (charsetOf db given cat) cat with
  | error x => rw [hd] at hexp; cases hexp
  | ok ds =>
    rw [hd] at hexp
    simp at hexp
    obtain ⟨hl, hi⟩ := decodeEntries_get db _ _ ds hd
    have hfe : f.entries = ds := by rw [← hexp]
    refine ⟨be, ko, to, charsetOf db given cat, cat.map (fun e => (e.key, e.value)), hko, hto, by simp [hfe, hl], ?_⟩
    intro i h1 h2
    have hic : i < cat.length := by simpa using h1
    have hS := EntriesAt_get cat 0 hE i hic
    simp only [List.getElem_map]
    refine ⟨by simpa using hS.1, by simpa using hS.2, ?_⟩
    rw [buildEntry_spec db _ (hwf _ (List.getElem_mem hic))]
    have := hi i (by simpa using hic) (by rw [← hfe]; exact h2)
    rw [this]
    simp [hfe]

/-! ### one rejection theorem per clause of the statement

Each defect, stated on the bytes alone, excludes `WellFormedFile`; by `reject_not_encodes` the loader then raises
(the MO syntax error — or the decode error of an *earlier* entry), and by `checker_rejects_malformed` below the
checker reports `invalid-mo-file` and derives nothing else from the file. -/

theorem reject_magic_clause (b : Bytes) (h : BadMagic b) : ¬ WellFormedFile b := not_wf_of_BadMagic h
theorem reject_major_clause (b : Bytes) (h : BadMajor b) : ¬ WellFormedFile b := not_wf_of_BadMajor h
theorem reject_header_beyond_end (b : Bytes) (h : HeaderBeyondEnd b) : ¬ WellFormedFile b := not_wf_of_HeaderBeyondEnd h
theorem reject_table_beyond_end (b : Bytes) (h : TableBeyondEnd b) : ¬ WellFormedFile b := not_wf_of_TableBeyondEnd h
theorem reject_string_beyond_end (b : Bytes) (h : StringBeyondEnd b) : ¬ WellFormedFile b := not_wf_of_StringBeyondEnd h
theorem reject_missing_terminator (b : Bytes) (h : MissingTerminator b) : ¬ WellFormedFile b := not_wf_of_MissingTerminator h
theorem reject_nul_structure (b : Bytes) (h : BadNulStructure b) : ¬ WellFormedFile b := not_wf_of_BadNulStructure h
theorem reject_keys_out_of_order (b : Bytes) (h : KeysOutOfOrder b) : ¬ WellFormedFile b := not_wf_of_KeysOutOfOrder h

/-- the clauses together, at the loader: any of the defects ⇒ the loader raises its syntax error or a decode error -/
theorem defect_rejected (db : CodecDB) (given : Option Bytes) (b : Bytes)
    (h : BadMagic b ∨ BadMajor b ∨ HeaderBeyondEnd b ∨ TableBeyondEnd b ∨ StringBeyondEnd b ∨ MissingTerminator b ∨
      BadNulStructure b ∨ KeysOutOfOrder b) :
    (∃ x, parse db given b = .error (.syntax x)) ∨ parse db given b = .error .decode := by
  apply reject_not_encodes
  rcases h with h | h | h | h | h | h | h | h
  · exact not_wf_of_BadMagic h
  · exact not_wf_of_BadMajor h
  · exact not_wf_of_HeaderBeyondEnd h
  · exact not_wf_of_TableBeyondEnd h
  · exact not_wf_of_StringBeyondEnd h
  · exact not_wf_of_MissingTerminator h
  · exact not_wf_of_BadNulStructure h
  · exact not_wf_of_KeysOutOfOrder h

/-! ### the first clauses, with the exact error -/

theorem reject_bad_magic (db : CodecDB) (given : Option Bytes) (b : Bytes)
    (h1 : ¬ Slice b 0 leMagic) (h2 : ¬ Slice b 0 beMagic) :
    parse db given b = .error (.syntax .magic) := by
  have e1 : slice b 0 4 ≠ leMagic := fun e => h1 (Slice_magic_of_slice e)
  have e2 : slice b 0 4 ≠ beMagic := fun e => h2 (Slice_magic_of_slice e)
  simp [parse, e1, e2]

theorem reject_major (db : CodecDB) (given : Option Bytes) (b : Bytes) (be : Bool) (rev : Nat)
    (hm : Slice b 0 (magicOf be)) (hrev : WordAt be b 4 rev) (h : rev / 65536 > 1) :
    parse db given b = .error (.syntax (.major (rev / 65536))) := by
  have hbody : parseBody db given b be = .error (.syntax (.major (rev / 65536))) := by
    rw [parseBody_eq]; simp only [read1_of_WordAt hrev, h, if_true]
  have hsl := slice_magic hm
  cases be with
  | false => simp only [parse, hsl, magicOf, Bool.false_eq_true, if_false, if_true]; exact hbody
  | true => simp only [parse, hsl, magicOf, if_true, (Ne.symm magic_ne), if_false]; exact hbody

/-- a file cut inside the 20 header bytes the loader needs is a syntax error ('truncated file', or the magic /
    major-revision error if those bytes are already wrong) -/
theorem reject_short_header (db : CodecDB) (given : Option Bytes) (b : Bytes) (h : b.length < 20) :
    ∃ x, parse db given b = .error (.syntax x) := by
  apply (reject_not_encodes db given b ?_).resolve_right
  · -- no decode error: nothing is decoded before the header has been read
    unfold parse
    have hbody : ∀ be, parseBody db given b be ≠ .error .decode := by
      intro be
      rw [parseBody_eq]
      rcases read1_cases be b 4 with ⟨_, hr⟩ | ⟨rev, _, hr⟩
      · simp [hr]
      by_cases hmaj : rev / 65536 > 1
      · simp [hr, hmaj]
      rcases read1_cases be b 8 with ⟨_, hr8⟩ | ⟨n, _, hr8⟩
      · simp [hr, hmaj, hr8]
      rcases hiddenStep_cases be b (rev % 65536) with hh | ⟨hid, hh, _⟩
      · simp [hr, hmaj, hr8, hh]
      rcases read2_cases be b 12 with ⟨_, hr12⟩ | ⟨ko, to, _, hto, hr12⟩
      · simp [hr, hmaj, hr8, hh, hr12]
      · have := hto.2.length_le; rw [encodeWord_length] at this; omega
    by_cases h1 : slice b 0 4 = leMagic
    · simp only [h1, if_true]; exact hbody false
    · by_cases h2 : slice b 0 4 = beMagic
      · simp only [h2, (Ne.symm magic_ne), if_false, if_true]; exact hbody true
      · simp [h1, h2]
  · rintro ⟨cat, hidden, ⟨be, major, minor, ko, to, _, _, _, _, _, _, _, hto, _⟩, _⟩
    have := hto.2.length_le; rw [encodeWord_length] at this; omega

/-! ### `Checker.check`: which tags, and nothing after `invalid-mo-file` -/

/-- what the checker relies on: ISO-8859-1 is ASCII-compatible and decodes every byte string -/
structure Latin1OK (db : CodecDB) : Prop where
  compat : db.asciiCompatible latin1Name = true
  total : ∀ bs, (db.decode latin1Name bs).isSome

/-- every outcome of the loading phase of `Checker.check` -/
theorem checker_cases (db : CodecDB) (hl : Latin1OK db) (b : Bytes) :
    (∃ f, parse db none b = .ok f ∧ checkerLoad db b = ⟨[], some f, false, none⟩) ∨
    (∃ x, parse db none b = .error (.syntax x) ∧ checkerLoad db b = ⟨[.invalidMoFile x], none, false, none⟩) ∨
    (parse db none b = .error .decode ∧
      ((∃ f, parse db (some latin1Name) b = .ok f ∧ checkerLoad db b = ⟨[.brokenEncoding], some f, true, none⟩) ∨
       (∃ x, parse db (some latin1Name) b = .error (.syntax x) ∧
          checkerLoad db b = ⟨[.invalidMoFile x, .brokenEncoding], none, true, none⟩))) := by
  rcases parse_cases db none b with ⟨x, hx⟩ | hx | ⟨f, _, hf, _⟩
  · right; left; exact ⟨x, hx, by simp only [checkerLoad, hx]⟩
  · right; right
    refine ⟨hx, ?_⟩
    rcases parse_cases db (some latin1Name) b with ⟨x, hy⟩ | hy | ⟨f, _, hf, _⟩
    · right; exact ⟨x, hy, by simp only [checkerLoad, hx, hy]⟩
    · exact absurd hy (parse_no_decode db hl.compat hl.total b)
    · left; exact ⟨f, hf, by simp only [checkerLoad, hx, hf]⟩
  · left; exact ⟨f, hf, by simp only [checkerLoad, hf]⟩

/-- no exception leaves the loading phase -/
theorem checker_closed (db : CodecDB) (hl : Latin1OK db) (b : Bytes) : (checkerLoad db b).uncaught = none := by
  rcases checker_cases db hl b with ⟨f, _, h⟩ | ⟨x, _, h⟩ | ⟨_, ⟨f, _, h⟩ | ⟨x, _, h⟩⟩ <;> rw [h]

/-- **`invalid-mo-file` then return**: once the tag is emitted the method does not go on to any `check_*`
    (the only other tag possible is the pending `broken-encoding` of the `finally` clause). -/
theorem no_further_tags (db : CodecDB) (b : Bytes) (x : SynErr) (h : Tag.invalidMoFile x ∈ (checkerLoad db b).tags) :
    (checkerLoad db b).file = none ∧
    ((checkerLoad db b).tags = [.invalidMoFile x] ∨ (checkerLoad db b).tags = [.invalidMoFile x, .brokenEncoding]) := by
  unfold checkerLoad at h ⊢
  rcases h1 : parse db none b with (y | _ | c) | f <;> rw [h1] at h <;> simp only at h ⊢
  · simp at h; subst h; simp
  · rcases h2 : parse db (some latin1Name) b with (y | _ | c) | f <;> rw [h2] at h <;> simp only at h ⊢
    · simp at h; subst h; simp
    · simp at h
    · simp at h
    · simp at h
  · simp at h
  · simp at h

/-- **Malformed ⇒ `invalid-mo-file`.**  A file that is not a legal MO file of any catalog gets the tag (first), and
    nothing is loaded. -/
theorem checker_rejects_malformed (db : CodecDB) (hl : Latin1OK db) (b : Bytes) (h : ¬ WellFormedFile b) :
    ∃ x, (checkerLoad db b).tags.head? = some (.invalidMoFile x) ∧ (checkerLoad db b).file = none := by
  have hno : ∀ given f, parse db given b ≠ .ok f := by
    intro given f hf
    obtain ⟨cat, henc, hwf, _⟩ := parse_sound db given b f hf
    exact h ⟨cat, _, henc, hwf⟩
  rcases checker_cases db hl b with ⟨f, hf, _⟩ | ⟨x, _, hc⟩ | ⟨_, ⟨f, hf, _⟩ | ⟨x, _, hc⟩⟩
  · exact absurd hf (hno _ _)
  · exact ⟨x, by rw [hc]; simp⟩
  · exact absurd hf (hno _ _)
  · exact ⟨x, by rw [hc]; simp⟩

theorem decodeEntries_not_syntax (db : CodecDB) (cs : Bytes) (l : List CatEntry) (x : SynErr) :
    decodeEntries db cs l ≠ .error (.syntax x) := by
  induction l with
  | nil => simp [decodeEntries]
  | cons e es ih =>
    rcases decodeEntry_cases db cs e with ⟨d, hd⟩ | hd
    · simp only [decodeEntries, hd]
      cases h'' : decodeEntries db cs es with
      | ok _ => simp
      | error y => rw [h''] at ih; simp; exact fun e => ih (by rw [e])
    · simp [decodeEntries, hd]

theorem expected_not_syntax (db : CodecDB) (given : Option Bytes) (cat : List CatEntry) (hidden : Bool) (x : SynErr) :
    expected db given cat hidden ≠ .error (.syntax x) := by
  unfold expected
  cases h : decodeEntries db (charsetOf db given cat) cat with
  | ok _ => simp
  | error y =>
    have := decodeEntries_not_syntax db (charsetOf db given cat) cat x
    rw [h] at this; simp; exact fun e => this (by rw [e])

/-- the clauses together, at the checker: any of the defects ⇒ `invalid-mo-file`, and the method returns -/
theorem defect_reported (db : CodecDB) (hl : Latin1OK db) (b : Bytes)
    (h : BadMagic b ∨ BadMajor b ∨ HeaderBeyondEnd b ∨ TableBeyondEnd b ∨ StringBeyondEnd b ∨ MissingTerminator b ∨
      BadNulStructure b ∨ KeysOutOfOrder b) :
    ∃ x, (checkerLoad db b).tags.head? = some (.invalidMoFile x) ∧ (checkerLoad db b).file = none := by
  apply checker_rejects_malformed db hl
  rcases h with h | h | h | h | h | h | h | h
  · exact not_wf_of_BadMagic h
  · exact not_wf_of_BadMajor h
  · exact not_wf_of_HeaderBeyondEnd h
  · exact not_wf_of_TableBeyondEnd h
  · exact not_wf_of_StringBeyondEnd h
  · exact not_wf_of_MissingTerminator h
  · exact not_wf_of_BadNulStructure h
  · exact not_wf_of_KeysOutOfOrder h

/-- **Well-formed ⇒ loaded**, with `broken-encoding` exactly when the text does not decode in the declared charset. -/
theorem checker_accepts_wellformed (db : CodecDB) (hl : Latin1OK db) (b : Bytes) (cat : List CatEntry) (hidden : Bool)
    (h : Encodes b cat hidden) (hwf : ∀ e ∈ cat, e.WF) :
    (checkerLoad db b).file.isSome ∧ (∀ x, Tag.invalidMoFile x ∉ (checkerLoad db b).tags) ∧
    (Tag.brokenEncoding ∈ (checkerLoad db b).tags ↔ expected db none cat hidden = .error .decode) := by
  have hc := parse_complete db none h hwf
  have hc' := parse_complete db (some latin1Name) h hwf
  rcases checker_cases db hl b with ⟨f, hf, hl'⟩ | ⟨x, hx, _⟩ | ⟨hd, ⟨f, hf, hl'⟩ | ⟨x, hx, _⟩⟩
  · rw [hl']; refine ⟨rfl, by simp, ?_⟩
    rw [← hc, hf]; simp
  · rw [hc] at hx; exact absurd hx (expected_not_syntax db none cat hidden x)
  · rw [hl']; refine ⟨rfl, by simp, ?_⟩
    rw [← hc, hd]; simp
  · rw [hc'] at hx; exact absurd hx (expected_not_syntax db _ cat hidden x)

/-- **Undecodable text ⇒ `broken-encoding`** (and only then) -/
theorem broken_encoding_iff (db : CodecDB) (hl : Latin1OK db) (b : Bytes) :
    Tag.brokenEncoding ∈ (checkerLoad db b).tags ↔ parse db none b = .error .decode := by
  rcases checker_cases db hl b with ⟨f, hf, h⟩ | ⟨x, hx, h⟩ | ⟨hd, ⟨f, _, h⟩ | ⟨x, _, h⟩⟩ <;> rw [h] <;> simp [*]

/-! Non-vacuity -/

example : parse asciiDB none [0xDE, 0x12, 0x04, 0x95] = .error (.syntax .truncated) := by rfl
example : parse asciiDB none [0xDE, 0x12, 0x04] = .error (.syntax .magic) := by rfl
set_option maxRecDepth 8192 in
example : parse asciiDB none [0x95, 0x04, 0x12, 0xDE, 0, 2, 0, 0] = .error (.syntax (.major 2)) := by rfl
/-- N = 1, tables at 20 and 28, key descriptor (length 1, offset 36) but the file ends at 37: the terminator probe fails -/
example : parse asciiDB none
    [0xDE, 0x12, 0x04, 0x95, 0,0,0,0, 1,0,0,0, 20,0,0,0, 28,0,0,0, 1,0,0,0, 36,0,0,0, 0,0,0,0, 36,0,0,0, 65]
    = .error (.syntax .truncated) := by rfl
/-- … and with one more non-NUL byte: not terminated -/
example : parse asciiDB none
    [0xDE, 0x12, 0x04, 0x95, 0,0,0,0, 1,0,0,0, 20,0,0,0, 28,0,0,0, 1,0,0,0, 36,0,0,0, 0,0,0,0, 36,0,0,0, 65, 66]
    = .error (.syntax .msgidNotTerminated) := by rfl
set_option maxRecDepth 8192 in
/-- undecodable text -/
example : parse asciiDB none
    [0xDE, 0x12, 0x04, 0x95, 0,0,0,0, 1,0,0,0, 20,0,0,0, 28,0,0,0, 1,0,0,0, 36,0,0,0, 0,0,0,0, 37,0,0,0, 0xE9, 0]
    = .error .decode := by rfl

end I18n.Props.C09
