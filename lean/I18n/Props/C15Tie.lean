import I18n.Lemmas.DomainsGenerated
import I18n.Props.C15
/-!
# C15 — the tie by translation: the header checks REGENERATED from the source are the model

`I18n.Generated.Domains` (`lib/domains.py`, by `tools/translate/domains2lean.py`) is rewritten from the repository's current source on
every run.  The theorems below prove each regenerated function equal, for ALL inputs (and every `str.lower`), to the hand-written
definition the theorems of `Props/C15.lean` are about, and restate the headline theorems of C15 about the regenerated definitions.
A changed source line changes the generated definition and breaks the equality proof — no test input involved.
-/
namespace I18n.Props.C15Tie
open I18n I18n.Hdr I18n.Spec.HeaderRules I18n.Generated

/-! ## `lib/domains.py` -/

/-- `is_special_domain(domain)` as regenerated: lower-cases, then the scanner (truth value of the match object) -/
theorem generated_is_special_domain_eq_model (lower : Str → Str) (d : Str) :
    Generated.Domains.is_special_domain lower d = .ok (I18n.Domains.isSpecialDomain lower d) :=
  I18n.Domains.Gen.is_special_domain_eq lower d

/-- `is_email_in_special_domain(email)` as regenerated: `ValueError` without `@` (the unpacking), else the model's verdict -/
theorem generated_is_email_in_special_domain_eq_model (lower : Str → Str) (email : Str) :
    Generated.Domains.is_email_in_special_domain lower email =
      if '@' ∈ email then .ok (I18n.Domains.isEmailInSpecialDomain lower email) else .error .ValueError :=
  I18n.Domains.Gen.is_email_in_special_domain_eq lower email

theorem generated_is_dotless_domain_eq_model (d : Str) :
    Generated.Domains.is_dotless_domain d = .ok (I18n.Domains.isDotlessDomain d) :=
  I18n.Domains.Gen.is_dotless_domain_eq d

theorem generated_is_email_in_dotless_domain_eq_model (email : Str) :
    Generated.Domains.is_email_in_dotless_domain email =
      if '@' ∈ email then .ok (I18n.Domains.isEmailInDotlessDomain email) else .error .ValueError :=
  I18n.Domains.Gen.is_email_in_dotless_domain_eq email

/-- **special_email_iff**, of the regenerated function: for an address with `@`, `is_email_in_special_domain` returns a truthy
    value iff the part after the last `@`, lower-cased, is a documented special-use domain -/
theorem special_email_iff_generated (x : Ext) (addr : Str) (h : '@' ∈ addr) :
    Generated.Domains.is_email_in_special_domain x.db.lower addr = .ok true ↔ SpecialEmail x addr := by
  rw [generated_is_email_in_special_domain_eq_model, if_pos h, ← C15.special_email_iff x addr h]
  exact ⟨fun e => by injection e, fun e => by rw [e]⟩

/-- **dotless_email_iff**, of the regenerated function -/
theorem dotless_email_iff_generated (addr : Str) (h : '@' ∈ addr) :
    Generated.Domains.is_email_in_dotless_domain addr = .ok true ↔ DotlessEmail addr := by
  rw [generated_is_email_in_dotless_domain_eq_model, if_pos h, ← C15.dotless_email_iff addr h]
  exact ⟨fun e => by injection e, fun e => by rw [e]⟩

/-- **special_domain_iff**, of the regenerated function (for a domain `str.lower` leaves alone) -/
theorem special_domain_iff_generated (lower : Str → Str) (d : Str) (hl : lower d = d) :
    Generated.Domains.is_special_domain lower d = .ok true ↔ SpecialDomain d := by
  rw [generated_is_special_domain_eq_model, ← C15.special_domain_iff d]
  unfold I18n.Domains.isSpecialDomain
  rw [hl]
  exact ⟨fun e => by injection e, fun e => by rw [e]⟩

/-- the regenerated functions raise exactly when the address has no `@` (never reached: the callers test `'@' in …` first) -/
theorem generated_email_functions_total (lower : Str → Str) (addr : Str) (h : '@' ∈ addr) :
    (∃ b, Generated.Domains.is_email_in_special_domain lower addr = .ok b) ∧
    (∃ b, Generated.Domains.is_email_in_dotless_domain addr = .ok b) := by
  rw [generated_is_email_in_special_domain_eq_model, generated_is_email_in_dotless_domain_eq_model, if_pos h, if_pos h]
  exact ⟨⟨_, rfl⟩, ⟨_, rfl⟩⟩

/-! Non-vacuity -/

example : Generated.Domains.is_email_in_special_domain id "a@x.example.com".toList = .ok true := by
  rw [generated_is_email_in_special_domain_eq_model]; decide
example : Generated.Domains.is_email_in_special_domain id "a@notexample.com".toList = .ok false := by
  rw [generated_is_email_in_special_domain_eq_model]; decide
example : Generated.Domains.is_email_in_dotless_domain "a@b@localhost".toList = .ok true := by
  rw [generated_is_email_in_dotless_domain_eq_model]; decide
example : Generated.Domains.is_email_in_dotless_domain "nobody".toList = .error .ValueError := by
  rw [generated_is_email_in_dotless_domain_eq_model]; decide

end I18n.Props.C15Tie
