import I18n.Lemmas.DomainsGenerated
import I18n.Lemmas.GettextHdrGenerated
import I18n.Lemmas.HdrChkGenerated
import I18n.Lemmas.HdrMimeGenerated
import I18n.Lemmas.HdrHeadersGenerated
import I18n.Props.C15
/-!
# C15 — the tie by translation: the header checks REGENERATED from the source are the model

`I18n.Generated.Domains` (`lib/domains.py`, by `tools/translate/domains2lean.py`) and `I18n.Generated.GettextHdr` (`lib/gettext.py`
`parse_header`, by `gettexthdr2lean.py`) are rewritten from the repository's current source on
every run.  The theorems below prove each regenerated function equal, for ALL inputs (and every `str.lower`), to the hand-written
definition the theorems of `Props/C15.lean` are about, and restate the headline theorems of C15 about the regenerated definitions.
A changed source line changes the generated definition and breaks the equality proof — no test input involved.
-/
namespace I18n.Props.C15Tie
open I18n I18n.Hdr I18n.Spec.HeaderRules I18n.Generated

/-! ## `lib/domains.py` -/

/-- `is_special_domain(domain)` as regenerated: lower-cases, then the scanner (truth value of the match object) -/
theorem generated_is_special_domain_eq_model (lower : Str → Str) (d : Str) :
    Generated.Domains.is_special_domain lower d = .ok (I18n.Domains.isSpecialDomain lower d) :=
  I18n.Domains.Gen.is_special_domain_eq lower d

/-- `is_email_in_special_domain(email)` as regenerated: `ValueError` without `@` (the unpacking), else the model's verdict -/
theorem generated_is_email_in_special_domain_eq_model (lower : Str → Str) (email : Str) :
    Generated.Domains.is_email_in_special_domain lower email =
      if '@' ∈ email then .ok (I18n.Domains.isEmailInSpecialDomain lower email) else .error .ValueError :=
  I18n.Domains.Gen.is_email_in_special_domain_eq lower email

theorem generated_is_dotless_domain_eq_model (d : Str) :
    Generated.Domains.is_dotless_domain d = .ok (I18n.Domains.isDotlessDomain d) :=
  I18n.Domains.Gen.is_dotless_domain_eq d

theorem generated_is_email_in_dotless_domain_eq_model (email : Str) :
    Generated.Domains.is_email_in_dotless_domain email =
      if '@' ∈ email then .ok (I18n.Domains.isEmailInDotlessDomain email) else .error .ValueError :=
  I18n.Domains.Gen.is_email_in_dotless_domain_eq email

/-- **special_email_iff**, of the regenerated function: for an address with `@`, `is_email_in_special_domain` returns a truthy
    value iff the part after the last `@`, lower-cased, is a documented special-use domain -/
theorem special_email_iff_generated (x : Ext) (addr : Str) (h : '@' ∈ addr) :
    Generated.Domains.is_email_in_special_domain x.db.lower addr = .ok true ↔ SpecialEmail x addr := by
  rw [generated_is_email_in_special_domain_eq_model, if_pos h, ← C15.special_email_iff x addr h]
  exact ⟨fun e => by injection e, fun e => by rw [e]⟩

/-- **dotless_email_iff**, of the regenerated function -/
theorem dotless_email_iff_generated (addr : Str) (h : '@' ∈ addr) :
    Generated.Domains.is_email_in_dotless_domain addr = .ok true ↔ DotlessEmail addr := by
  rw [generated_is_email_in_dotless_domain_eq_model, if_pos h, ← C15.dotless_email_iff addr h]
  exact ⟨fun e => by injection e, fun e => by rw [e]⟩

/-- **special_domain_iff**, of the regenerated function (for a domain `str.lower` leaves alone) -/
theorem special_domain_iff_generated (lower : Str → Str) (d : Str) (hl : lower d = d) :
    Generated.Domains.is_special_domain lower d = .ok true ↔ SpecialDomain d := by
  rw [generated_is_special_domain_eq_model, ← C15.special_domain_iff d]
  unfold I18n.Domains.isSpecialDomain
  rw [hl]
  exact ⟨fun e => by injection e, fun e => by rw [e]⟩

/-- the regenerated functions raise exactly when the address has no `@` (never reached: the callers test `'@' in …` first) -/
theorem generated_email_functions_total (lower : Str → Str) (addr : Str) (h : '@' ∈ addr) :
    (∃ b, Generated.Domains.is_email_in_special_domain lower addr = .ok b) ∧
    (∃ b, Generated.Domains.is_email_in_dotless_domain addr = .ok b) := by
  rw [generated_is_email_in_special_domain_eq_model, generated_is_email_in_dotless_domain_eq_model, if_pos h, if_pos h]
  exact ⟨⟨_, rfl⟩, ⟨_, rfl⟩⟩

/-! ## `lib.gettext.parse_header` -/

/-- `parse_header(s)` as regenerated (the list of what the generator yields) = `Hdr.parseHeader s`; it raises nothing
    (`lines[-1]`, the unpacking and the `assert` cannot fail) -/
theorem generated_parse_header_eq_model (s : Str) : Generated.GettextHdr.parse_header s = .ok (parseHeader s) :=
  I18n.Hdr.Gen.parse_header_eq s

/-- **parse_header_lines**, of the regenerated function: one yielded value per `\n`-separated piece of the text (a final `\n`
    terminating the last), each classified by the field grammar -/
theorem parse_header_lines_generated (s : Str) :
    ∃ ls, LinesOf s ls ∧ Generated.GettextHdr.parse_header s = .ok (ls.map parseLine) :=
  ⟨headerLines s, (C15.parse_header_lines s).2, by rw [generated_parse_header_eq_model, (C15.parse_header_lines s).1]⟩

/-- **parse_header_field / parse_header_stray**, of the regenerated function: a yielded `{k: v}` is a line of the field grammar
    `k: v`, a yielded str is a line outside the grammar, unchanged -/
theorem parse_header_items_generated (s : Str) (ys : List Line) (h : Generated.GettextHdr.parse_header s = .ok ys) :
    ∃ ls, LinesOf s ls ∧ ys.length = ls.length ∧
      ∀ i (hi : i < ls.length) (hy : i < ys.length),
        (∀ k v, ys[i] = .field k v ↔ FieldLine ls[i] k v) ∧
        (∀ t, ys[i] = .stray t ↔ (t = ls[i] ∧ ¬ ∃ k v, FieldLine ls[i] k v)) := by
  rw [generated_parse_header_eq_model] at h
  injection h with h
  subst h
  refine ⟨headerLines s, (C15.parse_header_lines s).2, by simp [parseHeader], ?_⟩
  intro i hi hy
  have e : (parseHeader s)[i] = parseLine (headerLines s)[i] := by simp [parseHeader]
  rw [e]
  exact ⟨fun k v => C15.parse_header_field _ k v, fun t => C15.parse_header_stray _ t⟩

/-! ## `Checker.check_project`, `Checker.check_translator` (`lib/check/__init__.py`) -/

/-- `check_project(ctx)` as regenerated appends exactly the model's tag calls, in order, and raises nothing -/
theorem generated_check_project_eq_model (x : Ext) (m : Meta) (out : List TagCall) :
    Generated.HdrChk.check_project x m out = .ok (out ++ checkProject x m) :=
  I18n.Hdr.Gen.check_project_eq x m out

/-- `check_translator(ctx)` as regenerated appends exactly the model's tag calls, in order, and raises nothing -/
theorem generated_check_translator_eq_model (x : Ext) (m : Meta) (tmpl : Bool) (out : List TagCall) :
    Generated.HdrChk.check_translator x m tmpl out = .ok (out ++ checkTranslator x tmpl m) :=
  I18n.Hdr.Gen.check_translator_eq x m tmpl out

/-- **the Project-Id-Version / Report-Msgid-Bugs-To rules**, of the regenerated method: on the metadata of any header lines it
    emits `t` iff the documented rule for one of the two fields prescribes `t` -/
theorem check_project_rules_generated (x : Ext) (ls : List Line) (t : TagCall) :
    (∃ ts, Generated.HdrChk.check_project x (buildMeta ls []) [] = .ok ts ∧ t ∈ ts) ↔
      (ProjectRule x (fieldLines ls) t ∨ ReportRule x (fieldLines ls) t) := by
  rw [generated_check_project_eq_model]
  simp only [List.nil_append, checkProject]
  constructor
  · rintro ⟨ts, e, h⟩
    injection e with e; subst e
    rw [List.mem_append, mem_projectIdTags, mem_reportTags] at h; exact h
  · intro h
    exact ⟨_, rfl, by rw [List.mem_append, mem_projectIdTags, mem_reportTags]; exact h⟩

/-- **the Last-Translator / Language-Team rules**, of the regenerated method -/
theorem check_translator_rules_generated (x : Ext) (f : File) (ls : List Line) (t : TagCall) :
    (∃ ts, Generated.HdrChk.check_translator x (buildMeta ls []) f.kind.isTemplate [] = .ok ts ∧ t ∈ ts) ↔
      (TranslatorRule x f (fieldLines ls) t ∨ TeamRule x f (fieldLines ls) t) := by
  rw [generated_check_translator_eq_model]
  simp only [List.nil_append]
  constructor
  · rintro ⟨ts, e, h⟩
    injection e with e; subst e
    exact (mem_checkTranslator_rule x f ls t).1 h
  · intro h
    exact ⟨_, rfl, (mem_checkTranslator_rule x f ls t).2 h⟩

/-- **value_reports_once**, of the regenerated methods: no diagnostic twice, whatever the multiplicity of fields and values -/
theorem value_reports_once_generated (x : Ext) (tmpl : Bool) (m : Meta) :
    (∃ ts, Generated.HdrChk.check_project x m [] = .ok ts ∧ ts.Nodup) ∧
    (∃ ts, Generated.HdrChk.check_translator x m tmpl [] = .ok ts ∧ ts.Nodup) := by
  rw [generated_check_project_eq_model, generated_check_translator_eq_model]
  exact ⟨⟨_, rfl, by simpa using (C15.value_reports_once x tmpl m).2.2.1⟩, ⟨_, rfl, by simpa using (C15.value_reports_once x tmpl m).2.2.2.1⟩⟩

/-! ## `Checker.check_comments` -/

/-- `check_comments(ctx)` as regenerated: one `boilerplate-in-initial-comments` per line of `ctx.file.header.splitlines()` on which
    the alternation of the pattern literals (three always, three more outside templates) has a match — the model's tags, in order -/
theorem generated_check_comments_eq_model (x : Ext) (tmpl : Bool) (header : Str) (out : List TagCall) :
    Generated.HdrChk.check_comments x tmpl header out = .ok (out ++ checkComments x.db tmpl header) :=
  I18n.Hdr.Gen.check_comments_eq x tmpl header out

/-- **comment_search_spec**, of the regenerated method: a line is reported iff it is a line of the comments and at some position
    one of the patterns matches -/
theorem comment_search_spec_generated (x : Ext) (tmpl : Bool) (header : Str) (t : TagCall) :
    (∃ ts, Generated.HdrChk.check_comments x tmpl header [] = .ok ts ∧ t ∈ ts) ↔
      ∃ line ∈ splitlines header, (∃ pre rest, line = pre ++ rest ∧ commentHit x.db tmpl pre.getLast? rest = true) ∧
        t = ⟨"boilerplate-in-initial-comments", [.str line]⟩ := by
  rw [generated_check_comments_eq_model]
  simp only [List.nil_append, checkComments]
  constructor
  · rintro ⟨ts, e, h⟩
    injection e with e; subst e
    obtain ⟨line, hl, hf⟩ := List.mem_filterMap.1 h
    by_cases hc : commentLineHit x.db tmpl line = true
    · rw [if_pos hc] at hf
      exact ⟨line, hl, (C15.comment_search_spec x.db tmpl line).1 hc, by injection hf with hf; exact hf.symm⟩
    · rw [if_neg hc] at hf; cases hf
  · rintro ⟨line, hl, hit, rfl⟩
    refine ⟨_, rfl, List.mem_filterMap.2 ⟨line, hl, ?_⟩⟩
    rw [if_pos ((C15.comment_search_spec x.db tmpl line).2 hit)]; rfl

/-! ## `Checker.check_mime` (with the charset fragment: `lib.encodings`, `lib.ling` calls = C20's model functions) -/

/-- `check_mime(ctx)` as regenerated — MIME-Version, Content-Transfer-Encoding, the Content-Type loop with its early `return`, the
    `try / except EncodingLookupError / else` of the charset fragment, `encodings` and `ctx.encoding` — returns exactly the model's tag
    calls (in order) and `ctx.encoding`, with the model's `CharsetCheck` parameter being C20's `Charset.checkCharset env · is_template
    language`; it raises iff the model crashes (which exception is forgotten: `erase`).  `hrt`: the names `propose_portable_encoding`
    can return survive the passage `str` ↔ code points (true of the live table: `generated_check_mime_eq_model_live`). -/
theorem generated_check_mime_eq_model (x : Ext) (env : Charset.Env) (m : Meta) (tmpl : Bool)
    (lang : Option (Option (List (List Nat)))) (out : List TagCall)
    (hrt : ∀ e n, Charset.propose env.tbl env.c2e env.lookup e = .ok (some n) → toName (ofName n) = n) :
    I18n.Hdr.Gen.erase (Generated.HdrChk.check_mime x env m tmpl lang out) =
      match checkMime x.db (fun n => Charset.checkCharset env n tmpl lang) m with
      | .ok o => .ok (out ++ o.tags, o.encoding)
      | .error () => .error () :=
  I18n.Hdr.Gen.check_mime_eq x env m tmpl lang out hrt

theorem generated_check_mime_eq_model_live (x : Ext) (env : Charset.Env) (hc2e : env.c2e = Generated.Charset.pycodecToEncoding)
    (m : Meta) (tmpl : Bool) (lang : Option (Option (List (List Nat)))) (out : List TagCall) :
    I18n.Hdr.Gen.erase (Generated.HdrChk.check_mime x env m tmpl lang out) =
      match checkMime x.db (fun n => Charset.checkCharset env n tmpl lang) m with
      | .ok o => .ok (out ++ o.tags, o.encoding)
      | .error () => .error () :=
  I18n.Hdr.Gen.check_mime_eq x env m tmpl lang out (I18n.Hdr.Gen.hrt_live env hc2e)

/-- **hdr_nocrash** for the MIME stage, of the regenerated method: with the live tables and codecs that behave (C20's `EncodeOk`),
    the regenerated `check_mime` returns -/
theorem check_mime_nocrash_generated (x : Ext) (env : Charset.Env) (characters : Option (Option (List (List Nat))))
    (htbl : env.tbl = Generated.Charset.portableEncodings) (hc2e : env.c2e = Generated.Charset.pycodecToEncoding)
    (henc : ∀ enc chars, characters = some (some chars) → Charset.EncodeOk (env.encode enc) chars)
    (m : Meta) (tmpl : Bool) (out : List TagCall) :
    ∃ r, Generated.HdrChk.check_mime x env m tmpl characters out = .ok r := by
  have h := generated_check_mime_eq_model_live x env hc2e m tmpl characters out
  have hm : ∃ o, checkMime x.db (fun n => Charset.checkCharset env n tmpl characters) m = .ok o :=
    checkMime_ok x.db _ (fun n => I18n.Props.C20.check_total env n tmpl characters htbl hc2e henc) m
  obtain ⟨o, ho⟩ := hm
  rw [ho] at h
  cases hg : Generated.HdrChk.check_mime x env m tmpl characters out with
  | ok r => exact ⟨r, rfl⟩
  | error e => rw [hg] at h; cases h

/-! ## `Checker.check_headers` -/

/-- `check_headers(ctx)` as regenerated — the header-entry discovery loop with its `continue` and `break`, the per-entry part
    (`parse_header` into the `defaultdict(list)` and the stray lines, the `Counter` of the flags, the position test `entry is not
    ctx.file[0]`, the unusual characters with `get_character_name` as the one crash site), the stray-line loop with its
    `seen_conflict_marker` state, and the loop over `sorted(metadata.items())` with the two hint sources — returns exactly the model's tag
    calls (in order) and `ctx.metadata`, and raises iff the model crashes.  `hl`: `str.lower` on ASCII strings is the ASCII lower-casing
    (field names are ASCII: `is_valid_field_name`; the registry is: `decide +kernel`). -/
theorem generated_check_headers_eq_model (x : Ext) (entries : List Entry) (tmpl : Bool) (out : List TagCall)
    (hl : ∀ s : Str, (∀ c ∈ s, c.toNat < 128) → x.db.lower s = asciiLower s) :
    I18n.Hdr.Gen.erase (Generated.HdrChk.check_headers x entries tmpl out) =
      match checkHeaders x tmpl entries with
      | none => .error ()
      | some h => .ok (out ++ h.tags, (), h.metadata) :=
  I18n.Hdr.Gen.check_headers_eq x entries tmpl out hl

/-- **metadata_lookup**, of the regenerated method: the dictionary it leaves in `ctx.metadata` answers `metadata[k]` with the values of
    the field lines named `k` of the header entry's text, in order -/
theorem check_headers_metadata_generated (x : Ext) (entries : List Entry) (tmpl : Bool)
    (hl : ∀ s : Str, (∀ c ∈ s, c.toNat < 128) → x.db.lower s = asciiLower s)
    (ts : List TagCall) (m : Meta) (h : Generated.HdrChk.check_headers x entries tmpl [] = .ok (ts, (), m)) :
    ∃ ho, checkHeaders x tmpl entries = some ho ∧ ts = ho.tags ∧ m = ho.metadata := by
  have e := generated_check_headers_eq_model x entries tmpl [] hl
  rw [h] at e
  cases hc : checkHeaders x tmpl entries with
  | none => rw [hc] at e; cases e
  | some ho =>
    rw [hc] at e
    simp only [I18n.Hdr.Gen.erase_ok, List.nil_append] at e
    injection e with e
    injection e with e1 e2
    injection e2 with _ e3
    exact ⟨ho, rfl, e1, e3⟩

/-! Non-vacuity -/





example : Generated.GettextHdr.parse_header "A: b \nstray\nX-y:\tz\n".toList =
    .ok [.field "A".toList "b".toList, .stray "stray".toList, .field "X-y".toList "z".toList] := by
  rw [generated_parse_header_eq_model]; decide


example : Generated.Domains.is_email_in_special_domain id "a@x.example.com".toList = .ok true := by
  rw [generated_is_email_in_special_domain_eq_model]; decide
example : Generated.Domains.is_email_in_special_domain id "a@notexample.com".toList = .ok false := by
  rw [generated_is_email_in_special_domain_eq_model]; decide
example : Generated.Domains.is_email_in_dotless_domain "a@b@localhost".toList = .ok true := by
  rw [generated_is_email_in_dotless_domain_eq_model]; decide
example : Generated.Domains.is_email_in_dotless_domain "nobody".toList = .error .ValueError := by
  rw [generated_is_email_in_dotless_domain_eq_model]; decide

end I18n.Props.C15Tie
