import I18n.Model.Date
namespace I18n.Props.C18
open I18n I18n.Date

example : fix "2020-01-01T10:00 CEST".toList none = .ok "2020-01-01 10:00+0200".toList := by decide

end I18n.Props.C18
