import I18n.Lemmas.DateTags
import I18n.Lemmas.DateRe
import I18n.Lemmas.DateSort
import I18n.Lemmas.DateTzRef
/-
Property C18 — date fields are normalised canonically and judged by the real calendar.

Model: `I18n.Date` (`fix` = `gettext.fix_date_format`, `parseCanon`/`Stamp.minutes` = `parse_date` + `datetime`,
`checkOne`/`checkDates` = `Checker.check_dates` with `misc.utc_now()` as the input `now`).
Specification: `I18n.Spec.Date` (`Written` = the declarative grammar, `Canonical`/`Civil.Exists`/`Civil.minutes` = the
Gregorian calendar by counting, `HasBoilerplate`, `Stripped`, `Normalises`).
-/
namespace I18n.Props.C18
open I18n I18n.Date I18n.Spec.Date I18n.Spec.DateRe I18n.Generated

/-! ### pins -/

/-- the `sre_parse` trees dumped from the live module are the expected ones (in named parts: `dateRe`, `boilRe`), the
    flags are `re.VERBOSE | re.UNICODE` (no IGNORECASE / ASCII, which would change the meaning of the same tree), and the
    bound methods are `match` / `search` -/
theorem regex_pin :
    DateTables.parseDateRe = dateRe ∧ DateTables.parseDateFlags = pinnedFlags ∧ DateTables.parseDateMethod = "match"
    ∧ DateTables.boilerplateRe = boilRe ∧ DateTables.boilerplateFlags = pinnedFlags
    ∧ DateTables.boilerplateMethod = "search" := ⟨rfl, rfl, rfl, rfl, rfl, rfl⟩

/-- `gettext.epoch` is 1995-07-02T00:00Z, and `gettext.boilerplate_date` is xgettext's placeholder -/
theorem epoch_pin : DateTables.epochMicros = gettextEpoch.minutes * 60000000
    ∧ DateTables.boilerplateDate = "YEAR-MO-DA HO:MI+ZONE".toList := ⟨epoch_eq, by decide⟩

/-- the white-space class dumped from the running interpreter (`str.isspace` = `\s` under both patterns' flags) is the
    expected one: 29 code points in 10 ranges (Unicode White_Space + the separators U+001C..U+001F) -/
theorem whitespace_pin : DateTables.whitespace = [(0x9, 0xD), (0x1C, 0x20), (0x85, 0x85), (0xA0, 0xA0), (0x1680, 0x1680),
    (0x2000, 0x200A), (0x2028, 0x2029), (0x202F, 0x202F), (0x205F, 0x205F), (0x3000, 0x3000)] := rfl

/-- every abbreviation of the live table is alphabetic (so it cannot be confused with a numeric offset), none is listed
    twice, and every offset has the form `±HHMM` -/
theorem table_pin : DateTables.timezones.all entryOk = true ∧ keysDistinct DateTables.timezones = true :=
  ⟨table_ok, table_distinct⟩

/-- PIN against the HAND-MAINTAINED reference of the zone abbreviations (Spec/TimezonesRef.lean: tzdata 2014e, not regenerated):
    every abbreviation the reference knows is in the tool's table (data/timezones as loaded by `lib.gettext`), and every offset
    the reference lists for it is still one of its offsets there: `Ref.offsets a ⊆ Generated.offsets a`.  The data file may add
    abbreviations, add offsets to an abbreviation (more ambiguity ⇒ more rejections) and be re-ordered; it must not drop an
    offset of a known abbreviation — that would make an ambiguous abbreviation "unique" and mis-normalise dates written with it. -/
theorem timezones_ref_pin :
    ∀ a ∈ Spec.TimezonesRef.names, ∃ os, OffsetsOf a os ∧ ∀ o ∈ Spec.TimezonesRef.offsets a, o ∈ os := by
  intro a ha
  obtain ⟨e, he, h1, h2⟩ := keptBy_spec ref_kept ha
  exact ⟨e.2, ⟨e, he, h1, rfl⟩, h2⟩

/-- the reference rows themselves: alphabetic abbreviation, at least one offset, offsets of the form `±HHMM` -/
theorem timezones_ref_wellformed : Spec.TimezonesRef.table.all (fun r => entryOk r && !r.2.isEmpty) = true := ref_rows_ok

/-- **unique_offset_sound**: when the tool's table gives a unique offset for an abbreviation the reference knows, the reference
    has no other offset for it (what the statement calls "the unique offset of a known zone abbreviation" is not whatever the
    data file says today) -/
theorem unique_offset_sound {a z : List Char} (ha : a ∈ Spec.TimezonesRef.names) (h : OffsetsOf a [z]) :
    ∀ o ∈ Spec.TimezonesRef.offsets a, o = z := by
  obtain ⟨os, hos, hsub⟩ := timezones_ref_pin a ha
  have e := (lookupTz_complete hos).symm.trans (lookupTz_complete h)
  simp only [Option.some.injEq] at e
  subst e
  intro o ho
  simpa using hsub o ho

/-! ### the regexes mean the specification -/

/-- what `strip()` returns does not end in white space -/
theorem strip_last (s : List Char) : ∀ c, (strip s).getLast? = some c → ¬ White c := by
  obtain ⟨_, _, _, _, _, _, h⟩ := strip_spec s
  exact h

/-- **parse_date_regex**: the `sre_parse` tree of `_parse_date`, dumped from the live module, derives — on a string that
    does not end in white space — exactly the strings of the grammar `Written`, and every derivation captures the written
    date, time and zone (groups 1, 2 and 3+4 or 5): whichever derivation Python's backtracking finds, the groups are these -/
theorem parse_date_regex {s : List Char} (hlast : ∀ c, s.getLast? = some c → ¬ White c) (caps : Caps) :
    Match White DateTables.parseDateRe s caps ↔ ∃ d t z, Written s d t z ∧ caps = dateCaps d t z := by
  rw [parseDateRe_eq]; exact match_dateRe_stripped hlast caps

/-- the model's scanner is that regex: on `strip s` it matches iff the regex does, with the regex's groups -/
theorem parseDate_is_regex (s : List Char) (g : Groups) :
    parseDate (strip s) = some g ↔
      (Match White DateTables.parseDateRe (strip s) (dateCaps g.date g.time g.zone.spec)
        ∧ g.zone = zoneOfSpec g.zone.spec) := by
  rw [parse_date_regex (strip_last s)]
  constructor
  · intro h
    have hw := parseDate_sound h
    refine ⟨⟨_, _, _, hw, rfl⟩, ?_⟩
    have := (parseDate_complete hw).symm.trans h
    simp only [Option.some.injEq] at this
    exact (congrArg Groups.zone this).symm
  · rintro ⟨⟨d, t, z, hw, hc⟩, hz⟩
    simp only [dateCaps, List.cons.injEq, Prod.mk.injEq, true_and] at hc
    obtain ⟨rfl, rfl, hzc⟩ := hc
    have hzz : g.zone.spec = z := by
      cases z <;> cases hgz : g.zone.spec <;> simp [hgz, zoneCaps] at hzc ⊢
      · exact ⟨hzc.1.1, hzc.1.2, hzc.2⟩
      · exact hzc
    rw [parseDate_complete hw, ← hzz, ← hz]

/-- **boilerplate_regex**: likewise for `_search_for_date_boilerplate` and `HasBoilerplate`; with Python's `$`
    (which also matches before a final newline) on arbitrary strings: `search_boilRe` -/
theorem boilerplate_regex (s : List Char) :
    hasBoilerplate (strip s) = true ↔ Search White DateTables.boilerplateRe (strip s) := by
  rw [boilerplateRe_eq, search_boilRe_stripped (strip_last s), hasBoilerplate_iff]

/-- the groups `fix_date_format` unpacks: `(date, time, zhour, zminute, zabbr) = match.groups()` -/
theorem regex_groups (d t : List Char) :
    (∀ sg hh mm, (group (dateCaps d t (.numeric sg hh mm)) 1, group (dateCaps d t (.numeric sg hh mm)) 2,
        group (dateCaps d t (.numeric sg hh mm)) 3, group (dateCaps d t (.numeric sg hh mm)) 4,
        group (dateCaps d t (.numeric sg hh mm)) 5) = (some d, some t, some (sg :: hh), some mm, none))
    ∧ (∀ a, (group (dateCaps d t (.abbr a)) 1, group (dateCaps d t (.abbr a)) 2, group (dateCaps d t (.abbr a)) 3,
        group (dateCaps d t (.abbr a)) 4, group (dateCaps d t (.abbr a)) 5) = (some d, some t, none, none, some a))
    ∧ ((group (dateCaps d t .absent) 1, group (dateCaps d t .absent) 2, group (dateCaps d t .absent) 3,
        group (dateCaps d t .absent) 4, group (dateCaps d t .absent) 5) = (some d, some t, none, none, none)) :=
  ⟨fun _ _ _ => rfl, fun _ => rfl, rfl⟩

/-! ### the calendar model is the calendar -/

/-- `datetime`'s closed formula for the day number (as modelled) counts the days of the years and months before -/
theorem ordinal_counts {y m d : Nat} (h1 : 1 ≤ m) (h2 : m ≤ 12) : ordinal y m d = dayNumber y m d := ordinal_eq h1 h2

/-- a canonical text denotes one instant only -/
theorem canonical_unique {c c' : Civil} (h : c.Exists) (h' : c'.Exists) (e : render c = render c') : c = c' :=
  render_inj h h' e

/-- `parse_date` on a 21-character text: accepted iff it is the canonical text of an existing instant, and then the
    modelled instant is the counted one -/
theorem parse_canon_iff (t : List Char) (st : Stamp) :
    parseCanon t = some st ↔ (st.toCivil.Exists ∧ t = render st.toCivil) := by
  constructor
  · exact parseCanon_sound
  · rintro ⟨h, rfl⟩
    rw [parseCanon_complete h]; rfl

theorem instant_counts {t : List Char} {st : Stamp} (h : parseCanon t = some st) : st.minutes = st.toCivil.minutes := by
  obtain ⟨⟨_, _, h3, h4, _⟩, _⟩ := parseCanon_sound h
  exact minutes_eq h3 h4

/-! ### normalisation -/

/-- `str.strip`: `strip s` is THE string obtained by removing leading and trailing white space -/
theorem strip_stripped (s t : List Char) : Stripped s t ↔ t = strip s :=
  ⟨stripped_unique, fun h => h ▸ strip_spec s⟩

/-- **fix_canonical**: an accepted date is returned as `YYYY-MM-DD hh:mm+ZZzz` denoting an existing calendar instant -/
theorem fix_canonical {s : List Char} {hint : Option (List Char)} {t : List Char} (h : fix s hint = .ok t) :
    Canonical t := by
  obtain ⟨_, _, _, _, _, _, _, _, _, hc⟩ := fix_ok_sound h
  exact hc

/-- **fix_idempotent**: the result is a fixed point of normalisation, with no hint, the same hint, or any well-formed hint -/
theorem fix_idempotent {s : List Char} {hint : Option (List Char)} {t : List Char} (h : fix s hint = .ok t) :
    fix t none = .ok t ∧ fix t hint = .ok t ∧ ∀ hint', (∀ x, hint' = some x → HintOk x) → fix t hint' = .ok t := by
  have hc := fix_canonical h
  obtain ⟨_, hh, _⟩ := fix_ok_sound h
  exact ⟨fix_canonical_text hc (by simp), fix_canonical_text hc hh, fun _ hh' => fix_canonical_text hc hh'⟩

/-- **fix_preserves**: the result keeps the date and the `hh:mm` written in the (stripped) input and carries the written
    numeric offset, or the unique offset of the written abbreviation, or — nothing being written — the hint -/
theorem fix_preserves {s : List Char} {hint : Option (List Char)} {t : List Char} (h : fix s hint = .ok t) :
    ∃ date time z zone, Written (strip s) date time z ∧ ZoneResolves z hint zone ∧ t = date ++ ' ' :: time ++ zone := by
  obtain ⟨_, _, date, time, z, zone, hw, hr, ht, _⟩ := fix_ok_sound h
  exact ⟨date, time, z, zone, hw, hr, ht⟩

/-- what is written in a string is unique: the grammar is unambiguous -/
theorem written_unique {s d t d' t' : List Char} {z z' : ZoneSpec} (h : Written s d t z) (h' : Written s d' t' z') :
    d = d' ∧ t = t' ∧ z = z' := by
  have e := (parseDate_complete h).symm.trans (parseDate_complete h')
  simp only [Option.some.injEq, Groups.mk.injEq] at e
  refine ⟨e.1, e.2.1, ?_⟩
  have := congrArg Zone.spec e.2.2
  rwa [spec_zoneOfSpec, spec_zoneOfSpec] at this

/-- **fix_abbr_by_reference**: a date written with an abbreviation the reference knows is accepted only with an offset that
    is the ONLY offset the reference has for it; in particular (`ref_ambiguous_rejected`) a date written with an abbreviation
    for which the reference has two different offsets is never accepted, whatever the hint -/
theorem fix_abbr_by_reference {s : List Char} {hint : Option (List Char)} {t date time a : List Char}
    (h : fix s hint = .ok t) (hw : Written (strip s) date time (.abbr a)) (ha : a ∈ Spec.TimezonesRef.names) :
    ∃ zone, t = date ++ ' ' :: time ++ zone ∧ OffsetsOf a [zone] ∧ ∀ o ∈ Spec.TimezonesRef.offsets a, o = zone := by
  obtain ⟨d', t', z', zone, hw', hr, ht⟩ := fix_preserves h
  obtain ⟨rfl, rfl, rfl⟩ := written_unique hw hw'
  exact ⟨zone, ht, hr, unique_offset_sound ha hr⟩

theorem ref_ambiguous_rejected {s : List Char} {hint : Option (List Char)} {date time a o₁ o₂ : List Char}
    (hw : Written (strip s) date time (.abbr a)) (h₁ : o₁ ∈ Spec.TimezonesRef.offsets a) (h₂ : o₂ ∈ Spec.TimezonesRef.offsets a)
    (hne : o₁ ≠ o₂) : ∀ t, fix s hint ≠ .ok t := by
  intro t h
  have ha : a ∈ Spec.TimezonesRef.names := by
    simp only [Spec.TimezonesRef.offsets] at h₁
    split at h₁
    · rename_i e he
      have hk : e.1 = a := by simpa using List.find?_some he
      exact hk ▸ List.mem_map_of_mem (List.mem_of_find?_eq_some he)
    · cases h₁
  obtain ⟨zone, _, _, hz⟩ := fix_abbr_by_reference h hw ha
  exact hne ((hz o₁ h₁).trans (hz o₂ h₂).symm)

/-- **fix_accepts** (completeness): every header value the specification normalises is accepted, with that result -/
theorem fix_accepts {s : List Char} {hint : Option (List Char)} {t : List Char} (h : Normalises (strip s) hint t) :
    fix s hint = .ok t := fix_ok_complete h

/-- **fix_rejects**: the outcome is classified exactly; the only failure besides the two date errors is the `ValueError`
    for a malformed hint (a caller error), and the length assertion can never fail -/
theorem fix_rejects (s : List Char) (hint : Option (List Char)) :
    (∀ t, fix s hint = .ok t ↔ Normalises (strip s) hint t)
    ∧ (fix s hint = .boilerplate ↔ HasBoilerplate (strip s))
    ∧ (fix s hint = .hintErr ↔ ¬ HasBoilerplate (strip s) ∧ ∃ x, hint = some x ∧ ¬ HintOk x)
    ∧ (fix s hint = .syntaxErr ↔
        ¬ HasBoilerplate (strip s) ∧ (∀ x, hint = some x → HintOk x) ∧ ¬ ∃ t, Normalises (strip s) hint t)
    ∧ fix s hint ≠ .assertErr :=
  ⟨fun _ => fix_ok_iff, fix_boilerplate_iff, fix_hintErr_iff, fix_syntaxErr_iff, fix_no_assert s hint⟩

/-- with the hints the tool itself passes (none, or `-0000` for Publican) only the two date errors are possible -/
theorem fix_tool_outcomes (date : List Char) (publican : Bool) :
    (∃ t, fix date (tzHint date publican) = .ok t) ∨ fix date (tzHint date publican) = .syntaxErr
      ∨ fix date (tzHint date publican) = .boilerplate := by
  cases hf : fix date (tzHint date publican) with
  | ok t => exact Or.inl ⟨t, rfl⟩
  | syntaxErr => exact Or.inr (Or.inl rfl)
  | boilerplate => exact Or.inr (Or.inr rfl)
  | hintErr =>
    obtain ⟨_, x, hx, hnx⟩ := fix_hintErr_iff.mp hf
    exact absurd (tzHint_ok date publican x hx) hnx
  | assertErr => exact absurd hf (fix_no_assert _ _)

/-! ### the verdicts -/

/-- the normal form is unique -/
theorem normalises_unique {s : List Char} {hint : Option (List Char)} {t t' : List Char}
    (h : Normalises (strip s) hint t) (h' : Normalises (strip s) hint t') : t = t' := by
  have := (fix_ok_complete h).symm.trans (fix_ok_complete h')
  simpa using this

/-- **date_tags_iff**: for a date header value that is not the exempted template placeholder, `check_dates` emits
    `boilerplate-in-date` iff a placeholder is present; `invalid-date` iff the value is otherwise rejected, and
    `invalid-date … => normal form` iff it differs from its normal form; `date-from-future` iff the instant lies after
    `now`; `ancient-date` iff it lies before 1995-07-02T00:00Z; and nothing else. -/
theorem date_tags_iff (now : Int) (f : Field) (tmpl pub : Bool) (date : List Char)
    (hex : ¬ (tmpl = true ∧ f = .po ∧ date = DateTables.boilerplateDate)) :
    ∃ ts, checkOne now f tmpl pub date = some ts ∧
      (∀ tg ∈ ts, tg = tagBoiler f date ∨ tg = tagInvalid f date ∨ (∃ t, tg = tagFix f date t)
          ∨ tg = tagFuture f date ∨ tg = tagAncient f date)
      ∧ (tagBoiler f date ∈ ts ↔ HasBoilerplate (strip date))
      ∧ (tagInvalid f date ∈ ts ↔
          ¬ HasBoilerplate (strip date) ∧ ¬ ∃ t, Normalises (strip date) (tzHint date pub) t)
      ∧ (∀ t, tagFix f date t ∈ ts ↔ Normalises (strip date) (tzHint date pub) t ∧ t ≠ date)
      ∧ (tagFuture f date ∈ ts ↔
          ∃ c : Civil, c.Exists ∧ Normalises (strip date) (tzHint date pub) (render c) ∧ c.minutes * 60000000 > now)
      ∧ (tagAncient f date ∈ ts ↔
          ∃ c : Civil, c.Exists ∧ Normalises (strip date) (tzHint date pub) (render c) ∧ c.minutes < gettextEpoch.minutes) := by
  have hcase := checkOne_cases now f tmpl pub date hex
  have hne1 : tagBoiler f date ≠ tagInvalid f date := by simp [tagBoiler, tagInvalid]
  cases hf : fix date (tzHint date pub) with
  | hintErr => rw [hf] at hcase; exact hcase.elim
  | assertErr => rw [hf] at hcase; exact hcase.elim
  | boilerplate =>
    rw [hf] at hcase
    have hb := fix_boilerplate_iff.mp hf
    have hno : ∀ t, ¬ Normalises (strip date) (tzHint date pub) t := fun t ht => ht.1 hb
    refine ⟨_, hcase, ?_, ?_, ?_, ?_, ?_, ?_⟩
    · intro tg htg; simp only [List.mem_singleton] at htg; exact Or.inl htg
    · simp [hb]
    · simp [tagBoiler, tagInvalid, hb]
    · intro t; simp [tagBoiler, tagFix, hno t]
    · simp only [List.mem_singleton, tagBoiler, tagFuture, Tag.mk.injEq, String.reduceEq, false_and, false_iff]
      rintro ⟨c, _, hn, _⟩; exact hno _ hn
    · simp only [List.mem_singleton, tagBoiler, tagAncient, Tag.mk.injEq, String.reduceEq, false_and, false_iff]
      rintro ⟨c, _, hn, _⟩; exact hno _ hn
  | syntaxErr =>
    rw [hf] at hcase
    obtain ⟨hb, _, hno⟩ := fix_syntaxErr_iff.mp hf
    have hno' : ∀ t, ¬ Normalises (strip date) (tzHint date pub) t := fun t ht => hno ⟨t, ht⟩
    refine ⟨_, hcase, ?_, ?_, ?_, ?_, ?_, ?_⟩
    · intro tg htg; simp only [List.mem_singleton] at htg; exact Or.inr (Or.inl htg)
    · simp [tagBoiler, tagInvalid, hb]
    · simp [hb, hno]
    · intro t; simp [tagInvalid, tagFix, hno' t]
    · simp only [List.mem_singleton, tagInvalid, tagFuture, Tag.mk.injEq, String.reduceEq, false_and, false_iff]
      rintro ⟨c, _, hn, _⟩; exact hno' _ hn
    · simp only [List.mem_singleton, tagInvalid, tagAncient, Tag.mk.injEq, String.reduceEq, false_and, false_iff]
      rintro ⟨c, _, hn, _⟩; exact hno' _ hn
  | ok t =>
    rw [hf] at hcase
    obtain ⟨c, hc, rfl, hts⟩ := hcase
    have hn := fix_ok_sound hf
    have hb : ¬ HasBoilerplate (strip date) := hn.1
    have huniq : ∀ t', Normalises (strip date) (tzHint date pub) t' → t' = render c := fun t' h' => normalises_unique h' hn
    refine ⟨_, hts, ?_, ?_, ?_, ?_, ?_, ?_⟩
    · intro tg htg
      simp only [List.mem_append] at htg
      rcases htg with (htg | htg) | htg
      · split at htg
        · simp only [List.mem_singleton] at htg; exact Or.inr (Or.inr (Or.inl ⟨_, htg⟩))
        · cases htg
      · split at htg
        · simp only [List.mem_singleton] at htg; exact Or.inr (Or.inr (Or.inr (Or.inl htg)))
        · cases htg
      · split at htg
        · simp only [List.mem_singleton] at htg; exact Or.inr (Or.inr (Or.inr (Or.inr htg)))
        · cases htg
    · simp only [List.mem_append, hb, iff_false]
      rintro ((h | h) | h) <;> split at h <;> simp [tagBoiler, tagFix, tagFuture, tagAncient] at h
    · have : ∃ t, Normalises (strip date) (tzHint date pub) t := ⟨_, hn⟩
      simp only [List.mem_append, this, not_true_eq_false, and_false, iff_false]
      rintro ((h | h) | h) <;> split at h <;> simp [tagInvalid, tagFix, tagFuture, tagAncient] at h
    · intro t'
      simp only [List.mem_append]
      constructor
      · rintro ((h | h) | h)
        · split at h
          · rename_i hne
            simp only [List.mem_singleton, tagFix, Tag.mk.injEq, List.cons.injEq, Arg.str.injEq, and_true, true_and] at h
            rw [h]; exact ⟨hn, fun e => hne e.symm⟩
          · cases h
        · split at h <;> simp [tagFix, tagFuture] at h
        · split at h <;> simp [tagFix, tagAncient] at h
      · rintro ⟨h', hne⟩
        have := huniq t' h'
        subst this
        left; left
        simp [Ne.symm hne]
    · simp only [List.mem_append]
      constructor
      · rintro ((h | h) | h)
        · split at h <;> simp [tagFix, tagFuture] at h
        · split at h
          · rename_i hgt; exact ⟨c, hc, hn, hgt⟩
          · cases h
        · split at h <;> simp [tagFuture, tagAncient] at h
      · rintro ⟨c', hc', hn', hgt⟩
        have := render_inj hc' hc (huniq _ hn')
        subst this
        left; right
        simp [hgt]
    · simp only [List.mem_append]
      constructor
      · rintro ((h | h) | h)
        · split at h <;> simp [tagFix, tagAncient] at h
        · split at h <;> simp [tagFuture, tagAncient] at h
        · split at h
          · rename_i hlt; exact ⟨c, hc, hn, by omega⟩
          · cases h
      · rintro ⟨c', hc', hn', hlt⟩
        have := render_inj hc' hc (huniq _ hn')
        subst this
        right
        have : c'.minutes * 60000000 < gettextEpoch.minutes * 60000000 := by omega
        rw [if_pos this]; simp

/-- the exemption: in a template, `PO-Revision-Date: YEAR-MO-DA HO:MI+ZONE` is expected and reported as nothing -/
theorem template_placeholder_exempt (now : Int) (pub : Bool) :
    checkOne now .po true pub DateTables.boilerplateDate = some [] :=
  checkOne_exempt now .po true pub _ ⟨rfl, rfl, rfl⟩

/-- a missing field: `no-date-header-field`, except POT-Creation-Date in a binary catalogue -/
theorem no_date_field (c : Ctx) (f : Field) :
    checkField c f [] = some (if f = .pot ∧ c.isBinary = true then [] else [⟨"no-date-header-field", [.str f.name]⟩]) := by
  unfold checkField
  by_cases h : f = .pot ∧ c.isBinary = true <;> simp [h]

/-- **check_dates_shape**: the whole output is, for POT-Creation-Date then PO-Revision-Date: `duplicate-header-field-date`
    followed by the verdicts on `sorted(set(values))` if there are several values, the missing-field verdict if there is
    none, else the verdicts on the one value — each verdict being the one `date_tags_iff` characterises -/
theorem check_dates_shape (c : Ctx) : checkDates c = some (fieldTags c .pot c.pot ++ fieldTags c .po c.po) :=
  checkDates_eq c

/-- `sorted(set(values))`: the same values, strictly increasing in code-point order (hence each once) -/
theorem sorted_set_spec (l : List (List Char)) :
    (∀ y, y ∈ sortedSet l ↔ y ∈ l) ∧ (sortedSet l).Pairwise (fun a b => strLt a b = true) :=
  ⟨fun y => mem_sortedSet y l, sortedSet_sorted l⟩

/-- **NoCrash**: `check_dates` lets no exception escape (the second `parse_date` cannot fail, the hint it passes is
    well-formed, the length assertion holds) -/
theorem NoCrash (c : Ctx) : checkDates c ≠ none := by
  have := checkDates_isSome c
  intro h; rw [h] at this; cases this

/-! ### non-vacuity -/

example : fix "2020-01-01T10:00:59 +0200".toList none = .ok "2020-01-01 10:00+0200".toList := by decide
-- an abbreviation: its unique table offset, or rejection (stated so that adding an offset to CEST in data/timezones keeps it true)
example : fix "2020-01-01T10:00:59 CEST".toList none =
    (match lookupTz "CEST".toList with
     | some [z] => .ok ("2020-01-01 10:00".toList ++ z)
     | _ => .syntaxErr) := by decide
example : lookupTz "CEST".toList = some ["+0200".toList] → fix "2020-01-01T10:00:59 CEST".toList none = .ok "2020-01-01 10:00+0200".toList := by
  decide
example : fix " 2012-02-29\n23:59 UTC-00:30 ".toList none = .ok "2012-02-29 23:59-0030".toList := by decide
example : fix "2013-02-29 10:00+0100".toList none = .syntaxErr := by decide
example : fix "2012-11-01 14:42 EST".toList none = .syntaxErr := by decide           -- ambiguous abbreviation
example : fix "2012-06-01 12:00 MSK".toList none = .syntaxErr := by decide           -- +0300, but +0400 in 2011–2014
example : Spec.TimezonesRef.offsets "MSK".toList = ["+0300".toList, "+0400".toList]
    ∧ Spec.TimezonesRef.offsets "CET".toList = ["+0100".toList] ∧ Spec.TimezonesRef.offsets "JEST".toList = []
    ∧ Spec.TimezonesRef.names.length = 210 := by decide +kernel
example : fix "2012-11-01 14:42+2400".toList none = .syntaxErr := by decide
example : fix "2012-11-01T14:42".toList (some "-0000".toList) = .ok "2012-11-01 14:42-0000".toList := by decide
example : fix "2012-11-01T14:42".toList (some "Z".toList) = .hintErr := by decide
example : fix "2012-11-01 HO:MI+0100".toList none = .boilerplate := by decide
example : Normalises (strip "0001-01-01 00:00+2359".toList) none "0001-01-01 00:00+2359".toList :=
  fix_ok_sound (by decide)
example : checkOne 0 .pot false false "2012-11-01 14:42+0100".toList
    = some [tagFuture .pot "2012-11-01 14:42+0100".toList] := by decide
example : checkOne 1700000000000000 .po false false "1995-07-01 23:59-0000".toList
    = some [tagAncient .po "1995-07-01 23:59-0000".toList] := by decide
example : checkOne 1700000000000000 .po false false "1995-07-02 00:00+0000".toList = some [] := by decide
example : checkOne 1700000000000000 .po false true "2013-05-28T12:00:00".toList
    = some [tagFix .po "2013-05-28T12:00:00".toList "2013-05-28 12:00-0000".toList] := by decide

end I18n.Props.C18
