import I18n.Lemmas.CFmtFinditer
import I18n.Lemmas.CFmtReLive
import I18n.Lemmas.CFmtGenerated
/-!
# C11 — the tie of the scanner to `_directive_re`, in the kernel

`Generated.CFmtRe.directiveRe` is the `re._parser` parse tree of the live `lib.strformat.c._directive_re`, dumped on every
run (character categories expanded under the pattern's own flags to the ranges the running interpreter gives them).
`Spec.BraceRe.bt` is the backtracking first-match semantics of the regex engine (alternatives in order, greedy repeats,
captures restored on backtracking).  The theorems below hold for every character database `db` (the tree has no category
items left) and for ALL strings.

A change of the pattern that `ReKit.norm` does not identify with the canonical tree makes `live_norm` (a kernel evaluation)
fail, whatever its effect; the check then searches the real code for a failing input.  A respelling that `norm` does
identify (order and spelling of the members of a class, `\d` under re.ASCII for `[0-9]`, `x+` for `xx*`, non-capturing
parentheses, order of alternatives with disjoint first characters) re-proves unchanged.
-/
namespace I18n.Props.C11Tie
open I18n I18n.Spec.Printf I18n.Spec.BraceRe I18n.Generated
open I18n.CFmt hiding St

/-- **`CFmt.scan`'s step IS the first match of the live tree.**  For every string `cs` and start position `pos`:
    `_directive_re.match(s, pos)` (first successful path of the backtracking matcher on the live parse tree) fails iff the
    scanner reads no item; otherwise it ends where the scanner's item ends and its group spans are `itemCaps pos item`
    (`literal`; or the unnamed group 2 around the directive, `index`, `flags`, `width`/`varwidth`/`varwidth_index`,
    `precision`/`varprec`/`varprec_index`, `length`, `conversion`, `c99conv`, `c99len` — exactly those that take part). -/
theorem directive_regex (db : CharDB) (cs : List Char) (pos : Nat) :
    matchAt db CFmtRe.directiveRe cs pos =
      (CFmt.scanItem cs).map (fun p => (⟨p.2, pos + p.1.render.length, CFmt.itemCaps pos p.1⟩ : St)) :=
  CFmtRe.matchAt_live db cs pos

/-- `CFmt.scan` iterates that step: the item list is the chain of first matches from position 0 while they succeed, and the
    flag says whether the chain reached the end of the string -/
theorem scan_iterates (fuel : Nat) (cs : List Char) :
    CFmt.scanAll (fuel + 1) cs =
      match CFmt.scanItem cs with
      | none => ([], cs.isEmpty)
      | some (it, rest) => (it :: (CFmt.scanAll fuel rest).1, (CFmt.scanAll fuel rest).2) :=
  CFmtRe.scanAll_succ fuel cs

/-- the pattern cannot match the empty string (so `finditer` never takes its empty-match branch) -/
theorem match_nonempty (db : CharDB) {cs : List Char} {pos : Nat} {st : St}
    (h : matchAt db CFmtRe.directiveRe cs pos = some st) : pos < st.pos :=
  CFmtRe.match_nonempty db (CFmtRe.matchAt_live db) h

/-- **The loop of `FormatString.__init__` yields the model's segmentation.**  `finditer` is the engine's search loop over the
    live tree; `walk` is the `for match in _directive_re.finditer(s)` loop with `if match.start() != last_pos: raise Error`,
    `last_pos = match.end()`, the item rebuilt from the match's named groups as slices of `s` (`decodeMatch`:
    `match.group('literal')`, else what `Conversion.__init__` reads, `rstrip('$')` included), and the final
    `if last_pos != len(s): raise Error`.  Its item list and "no Error" flag are `CFmt.scan s`; and where `Error` is raised
    the text at `last_pos` starts with `%`. -/
theorem segmentation_is_finditer (db : CharDB) (s : List Char) :
    (CFmt.walk s (CFmt.finditer db CFmtRe.directiveRe s) 0).1 = (CFmt.scan s).1 ∧
    (CFmt.walk s (CFmt.finditer db CFmtRe.directiveRe s) 0).2.1 = (CFmt.scan s).2 ∧
    ((CFmt.walk s (CFmt.finditer db CFmtRe.directiveRe s) 0).2.1 = false →
      (s.drop (CFmt.walk s (CFmt.finditer db CFmtRe.directiveRe s) 0).2.2).head? = some '%') :=
  CFmtRe.walk_finditer db (CFmtRe.matchAt_live db) s

/-- so `_printable_prefix(s[last_pos:])` — `re.compile('[ -~]+').match(…).group()` — never hits `None.group()` there -/
theorem error_prefix_printable (db : CharDB) (t : List Char) :
    (matchAt db CFmtRe.printablePrefixRe ('%' :: t) 0).isSome = true :=
  CFmtRe.printable_prefix_matches db t

/-- every match `finditer` yields in the contiguous part decodes to the scanner's item: the named groups of a directive
    match, read as slices of the subject, are its index digits, flags, width, precision, length, conversion / inttypes name -/
theorem match_decodes {s : List Char} {pos : Nat} {cs : List Char} {it : Item} {rest : List Char}
    (hs : s.drop pos = cs) (h : CFmt.scanItem cs = some (it, rest)) :
    CFmt.decodeMatch s ⟨pos, ⟨rest, pos + it.render.length, CFmt.itemCaps pos it⟩⟩ = some it :=
  CFmtRe.decodeMatch_item hs h

/-! ## the decision code of `Conversion.__init__`, regenerated from the source -/

/-- **`CFmt.conversion` IS the regenerated code.**  `Generated.CFmtConv.checks` is the statement-by-statement translation
    (tools/translate/cfmtconv2lean.py, every run) of `Conversion.__init__` from the statement after `self.type = tp` to the end
    — the `Counter` loop over the flags, the redundancy warnings, `width`/`varwidth`/`varwidth_index`,
    `precision`/`varprec`/`varprec_index`, `index`, the three calls of the (equally regenerated) `add_argument` with their `except`
    clauses — reading
    `match.group(name)` from `Py.groupOf d` (the group texts of the match that decodes to `d`: `match_decodes`).  For every
    well-formed directive (what a match of `_directive_re` decodes to), the model's `conversion` is: the type from the probed
    table (`typeInfo`, tied by `ctables_pin`), the NonPortableConversion warning, then that code. -/
theorem generated_conversion_eq_model (w : Bool) (st : CFmt.St) (d : Directive) (hd : d.Wf) :
    CFmt.conversion w st d =
      match CFmt.typeInfo d.body with
      | .error e => .error e
      | .ok (tp, _, np) =>
        Generated.CFmtConv.checks w (if np then CFmt.warn w st .NonPortableConversion else st) (CFmt.Py.groupOf d)
          (.str [d.body.conv]) tp st.nitems :=
  CFmt.Py.conversion_eq_generated w st d hd

/-- `FormatString.add_argument`, translated from the source by the same translator (the attributes `_next_arg_index` and
    `_argument_map` are the fields of the model's state), wrapped in the two `except` clauses every caller in `Conversion.__init__`
    uses (`IndexError` → `ArgumentNumberingMixture`, `OverflowError` → `ArgumentRangeError`), IS the model's `addArgument`
    (`i` = `None` or an `int`, what the callers pass) -/
theorem generated_add_argument_eq_model (st : CFmt.St) (i : Option Nat) (e : Entry) :
    CFmt.Py.except1 (CFmt.Py.except1 (Generated.CFmtConv.add_argument st (CFmt.Py.optVal i) e) .IndexError (.error .ArgumentNumberingMixture))
      .Overflow (.error .ArgumentRangeError) = CFmt.addArgument st i e := by
  rw [CFmt.Py.add_argument_eq_kit, CFmt.Py.addArgument_eq]

/-- every directive the scanner reads is well-formed, so the hypothesis of `generated_conversion_eq_model` holds for every
    conversion `FormatString.__init__` constructs -/
theorem scanned_directive_wf {cs : List Char} {d : Directive} {rest : List Char} (h : CFmt.scanItem cs = some (.dir d, rest)) : d.Wf :=
  CFmtRe.scanItem_dir_wf h

/-! ## Non-vacuity -/

def db0 : CharDB := ⟨fun _ => false, fun _ => false⟩

example : (matchAt db0 CFmtRe.directiveRe "%2$-08.*3$lld rest".toList 5).map (fun st => (st.rest, st.pos, st.caps)) =
    some (" rest".toList, 18, [(2, 5, 18), (12, 17, 18), (11, 15, 17), (10, 13, 15), (9, 12, 13), (5, 10, 11), (4, 8, 10), (3, 6, 8)]) := by
  decide +kernel
example : (matchAt db0 CFmtRe.directiveRe "%<PRIxLEAST32>!".toList 0).map (fun st => (st.rest, st.pos, st.caps)) =
    some ("!".toList, 14, [(2, 0, 14), (14, 6, 13), (13, 5, 6), (4, 1, 1)]) := by decide +kernel
example : matchAt db0 CFmtRe.directiveRe "%.*1d".toList 0 = none := by
  rw [directive_regex]; rfl
example : (matchAt db0 CFmtRe.directiveRe "abc%d".toList 7).map (fun st => (st.rest, st.pos, st.caps)) =
    some ("%d".toList, 10, [(1, 7, 10)]) := by decide +kernel
example : (CFmt.walk "a%5$hhu%%".toList (CFmt.finditer db0 CFmtRe.directiveRe "a%5$hhu%%".toList) 0).2.1 = true := by
  rw [(segmentation_is_finditer db0 _).2.1]; rfl
example : Generated.CFmtConv.checks true CFmt.St.init (CFmt.Py.groupOf ⟨none, ['0', '-'], .star none, .num ['3'], .std (some .l) 'd'⟩)
    (.str ['d']) "long int" 0 =
    .ok { next := some 3, map := [(1, ⟨.width, "int", 0⟩), (2, ⟨.conv, "long int", 0⟩)], nitems := 0,
          warnings := [.RedundantFlag, .RedundantFlag] } := by rfl
example : Generated.CFmtConv.checks true CFmt.St.init (CFmt.Py.groupOf ⟨some ['1'], [], .none, .none, .std none '%'⟩) (.str ['%']) "void" 0 =
    .error .ForbiddenArgumentIndex := by rfl
example : (CFmt.walk "a%y".toList (CFmt.finditer db0 CFmtRe.directiveRe "a%y".toList) 0) = ([.lit ['a']], false, 1) := by decide +kernel

end I18n.Props.C11Tie
