import I18n.Lemmas.Polib4usGenerated
import I18n.Props.C10
/-!
# C10 — the tie by translation: `lib/polib4us.py` REGENERATED from the source is the model's loader front end

`I18n.Generated.Polib4us` is rewritten from the repository's current `lib/polib4us.py` by `tools/translate/polib4us2lean.py` on every
run: `_wrap_octal_escape`, `polib_unescape` with its inner `unescape(match)`, the `POEntry.flags` setter, the patched
`POEntry.translated`, `Codecs._is_ignored_comment` and the generator `Codecs.open` (as the list of lines it yields).  The theorems
below prove them equal — for ALL strings, files, charsets and environments — to `unescape`, `setFlags`, `translated`,
`isIgnoredComment` and `decodeFile` + `preprocess` of `Model/Po.lean`, and restate theorems of `Props/C10.lean` about the regenerated
definitions.  The regexes are the model's scanners on both sides, selected by the pinned pattern texts; the kit
`Model/PoPy.lean` states what each Python operation is taken to be (the trusted base of this tie).  polib's own parser
(`_POFileParser`, third-party) and `detect_encoding` stay hand-modelled (`parseLines`, `detectEncoding`; tied by the `po-load-*` and
`po-detect` streams).
-/
namespace I18n.Props.C10Tie
open I18n I18n.Po I18n.Po.PGen I18n.Spec.PoSpelling I18n.Generated

/-! ## equality with the model -/

/-- the octal fix-up (`_big_octal_escape_re.sub(_wrap_octal_escape, ·)` with the regenerated `_wrap_octal_escape`) followed by
    `literal_eval`, on every three-digit octal escape: the value modulo 256 -/
theorem generated_wrap_octal_escape_eq_model : ∀ c ∈ ['0', '1', '2', '3', '4', '5', '6', '7'], ∀ d ∈ ['0', '1', '2', '3', '4', '5', '6', '7'],
    ∀ e ∈ ['0', '1', '2', '3', '4', '5', '6', '7'],
    Py.bodyByte (Py.bigOctal1 Polib4us._wrap_octal_escape [c, d, e]) = some (escapeByte [c, d, e]) :=
  three_octal_table

/-- the inner `unescape(match)` as regenerated, on whatever `_escapes_re` matches (`escapeRun`): the two fix-ups and `literal_eval`
    give the model's bytes; ASCII first, else the charset of the file -/
theorem generated_unescape_inner_eq_model (env : Env) (enc : Bytes) (n : Nat) (s : Text) :
    Polib4us.polib_unescape_unescape env enc (escapeRun n s).1 =
      (match decodeAscii ((escapeRun n s).1.map fun b => escapeByte (fixShortX b)) with
       | some t => .ok t
       | none => Py.encodingsDecode env ((escapeRun n s).1.map fun b => escapeByte (fixShortX b)) enc) :=
  unescape_inner_eq env enc _ (escapeRun_valid n s)

/-- **`polib_unescape(s)` as regenerated = `unescape`** (`none` of the model: an exception, which polib turns into a syntax error) -/
theorem generated_polib_unescape_eq_model (env : Env) (enc : Bytes) (s : Text) :
    (Polib4us.polib_unescape env enc s).toOption = unescape env enc s :=
  polib_unescape_eq env enc s

/-- **the `POEntry.flags` setter as regenerated = `setFlags`**; the strip set read from the source text is the one the table
    translator probed from the live setter -/
theorem generated_set_flags_eq_model (flags : List Text) : Polib4us.set_flags flags = .ok (setFlags flags) :=
  set_flags_eq rfl flags

/-- **`POEntry.translated()` as regenerated = `translated`** -/
theorem generated_translated_eq_model (e : Entry) : Polib4us.translated e = .ok (Po.translated e) :=
  translated_eq e

/-- `Codecs._is_ignored_comment(line)` as regenerated = `isIgnoredComment` on every line that has a token (IndexError otherwise: the
    caller never asks, `generated_codecs_open_eq_model`) -/
theorem generated_is_ignored_comment_eq_model (env : Env) (line : Text) :
    Polib4us.Codecs__is_ignored_comment env line =
      (match splitWs env.isSpace 1 line with
       | [] => .error .index
       | _ :: _ => .ok (isIgnoredComment env line)) :=
  is_ignored_eq env line

/-- **`Codecs.open(path, mode, encoding)` as regenerated**: it yields exactly `preprocess` of the decoded file, where the decode is
    `decodeFile` (ASCII for charsets that are not ASCII-compatible); UnicodeDecodeError / anything else otherwise.  `AsciiIsAscii`: the
    environment's `'ASCII'` codec is ASCII. -/
theorem generated_codecs_open_eq_model (env : Env) (hascii : AsciiIsAscii env) (file : Bytes) (mode : Text) (enc : Bytes)
    (hmode : mode = ['r', 'U'] ∨ mode = ['r', 't']) :
    Polib4us.Codecs_open env file mode enc =
      (match decodeFile env enc file with
       | .ok t => .ok (preprocess env t)
       | .error .decode => .error .unicodeDecode
       | .error _ => .error .other) :=
  codecs_open_eq env hascii file mode enc hmode

/-! ## theorems of `Props/C10.lean`, about the regenerated functions -/

/-- **unescape_spelling**, of the regenerated `polib_unescape`: every string × every per-character spelling unescapes to the string -/
theorem unescape_spelling_generated (env : Env) (enc : Bytes) (E : Codec) (hE : CodecOk env enc E) (p : List Choice)
    (hv : ∀ x ∈ p, x.Valid E) (hs : okSeq p = true) :
    Polib4us.polib_unescape env enc (render p) = .ok (text p) := by
  have h := generated_polib_unescape_eq_model env enc (render p)
  rw [C10.unescape_spelling env enc E hE p hv hs] at h
  cases hr : Polib4us.polib_unescape env enc (render p) with
  | error e => rw [hr] at h; cases h
  | ok t => rw [hr] at h; simp only [Except.toOption, Option.some.injEq] at h; rw [h]

/-- fix 9de4551 and the excluded spellings, of the regenerated function: `\8` is not an escape, `\401` is `\001`, `\x4` + `1` reads
    as `\x41` -/
theorem unescape_witnesses_generated (env : Env) (enc : Bytes) :
    Polib4us.polib_unescape env enc ['a', '\\', '8'] = .ok ['a', '\\', '8'] ∧
    Polib4us.polib_unescape env enc ['\\', '4', '0', '1'] = .ok ['\x01'] ∧
    Polib4us.polib_unescape env enc ['\\', 'x', '4', '1'] = .ok ['A'] := by
  refine ⟨?_, ?_, ?_⟩
  · have h := generated_polib_unescape_eq_model env enc ['a', '\\', '8']
    rw [(C10.unescape_octal_fix env enc).1] at h
    cases hr : Polib4us.polib_unescape env enc ['a', '\\', '8'] with
    | error e => rw [hr] at h; cases h
    | ok t => rw [hr] at h; simp only [Except.toOption, Option.some.injEq] at h; rw [h]
  · have h := generated_polib_unescape_eq_model env enc ['\\', '4', '0', '1']
    rw [(C10.unescape_octal_fix env enc).2] at h
    cases hr : Polib4us.polib_unescape env enc ['\\', '4', '0', '1'] with
    | error e => rw [hr] at h; cases h
    | ok t => rw [hr] at h; simp only [Except.toOption, Option.some.injEq] at h; rw [h]
  · have h := generated_polib_unescape_eq_model env enc ['\\', 'x', '4', '1']
    rw [(C10.unescape_swallow_witness env enc).1] at h
    cases hr : Polib4us.polib_unescape env enc ['\\', 'x', '4', '1'] with
    | error e => rw [hr] at h; cases h
    | ok t => rw [hr] at h; simp only [Except.toOption, Option.some.injEq] at h; rw [h]

/-- **translated_iff**, of the regenerated `translated()` -/
theorem translated_iff_generated (e : Entry) :
    Polib4us.translated e = .ok true ↔
      e.obsolete = false ∧ ['f', 'u', 'z', 'z', 'y'] ∉ e.flags ∧
        ((∃ c t, e.msgstr = some (c :: t)) ∨ ∃ kv ∈ e.msgstrPlural, kv.2 ≠ []) := by
  rw [generated_translated_eq_model, ← C10.translated_iff]
  simp

/-- **codecs_open_keeps_body**, of the regenerated `Codecs.open`: every physical line up to the last one that is not held back, with
    atypical comments normalised, in order; held-back lines after it are dropped -/
theorem codecs_open_keeps_body_generated (env : Env) (hascii : AsciiIsAscii env) (file : Bytes) (enc : Bytes) (contents : Text)
    (hdec : decodeFile env enc file = .ok contents) (b : List Text) (l : Text) (hl : ¬ Lemmas.PoPre.Held env l)
    (tail : List Text) (ht : ∀ x ∈ tail, Lemmas.PoPre.Held env x) (hlines : physLines contents = b ++ l :: tail) :
    Polib4us.Codecs_open env file ['r', 't'] enc = .ok ((b ++ [l]).map normalise) := by
  rw [generated_codecs_open_eq_model env hascii file _ enc (.inr rfl), hdec]
  simp only []
  rw [C10.codecs_open_keeps_body env contents b l hl tail ht hlines]

/-- a file that does not decode: UnicodeDecodeError out of `Codecs.open` (what `Checker.check` catches to retry with ISO-8859-1) -/
theorem codecs_open_decode_error_generated (env : Env) (hascii : AsciiIsAscii env) (file : Bytes) (enc : Bytes)
    (hdec : decodeFile env enc file = .error .decode) :
    Polib4us.Codecs_open env file ['r', 't'] enc = .error .unicodeDecode := by
  rw [generated_codecs_open_eq_model env hascii file _ enc (.inr rfl), hdec]

/-! Non-vacuity -/

example : AsciiIsAscii C10.asciiEnv := fun _ => rfl

/-- fix ed9c45c through the regenerated generator: the message line survives the trailing `#.` -/
example : Polib4us.Codecs_open C10.asciiEnv ("msgid \"a\"\n#.\n".toList.map fun c => UInt8.ofNat c.toNat) ['r', 't'] asciiName =
    .ok ["msgid \"a\"\n".toList] := by
  rw [generated_codecs_open_eq_model C10.asciiEnv (fun _ => rfl) _ _ _ (.inr rfl)]
  rfl

example : Polib4us.set_flags [" fuzzy,c-format".toList] = .ok ["fuzzy".toList, "c-format".toList] := by
  rw [generated_set_flags_eq_model]; rfl

end I18n.Props.C10Tie
