import I18n.Lemmas.CharsetTables
import I18n.Lemmas.CharsetRegistry
import I18n.Lemmas.CharsetCharmaps
import I18n.Lemmas.CharsetIconv
import I18n.Lemmas.CharsetIconvSchedule
import I18n.Lemmas.CharsetIconvCodecs
import I18n.Lemmas.CharsetEncodeOk
import I18n.Lemmas.CharsetCheckTags
import I18n.Lemmas.CharsetEucTw
import I18n.Lemmas.CharsetEucTwReal
/-!
# C20 — charset names are classified consistently and the extra codecs are lossless

`I18n.Charset` models `lib/encodings.py` (classification, codec search, charmap codecs), the retry loop of
`lib/iconv.py` over an abstract iconv, `Language.get_unrepresentable_characters` and the charset fragment of
`check_headers`.  `Generated.Charset` is dumped on every run from the tool as loaded, from `data/encodings` (read
independently), `data/charmaps/*`, the running interpreter's codec registry (`CodecFacts`) and the system iconv.

The classification clauses quantify over a finite set (every codec name known to Python, gettext or the tool):
they are theorems about the dumped table, checked by the kernel.  The codec, loop and tag clauses are theorems for
all byte strings / texts / iconv behaviours.

One clause is false of the code: KOI8-T is listed by gettext and shipped by Python (`koi8_t`), but `data/encodings` marks
it `not-python`, so the tool calls it non-portable — `portable_law_refuted` / `portable_law_partial`.
-/
namespace I18n.Props.C20
open I18n I18n.Charset I18n.Charset.Tables I18n.Generated.Charset
open I18n.Charset.Cns (ignored_pin plane1_forms_agree dup_fact)
open I18n.Generated.CharsetCns (plane1 plane1two ignoredRanges planesAccepted)
open I18n.Spec.Charset (gettextCharsets asciiRepertoire gettextLists InjectiveOnDefined ValidSpan canonical)

set_option maxRecDepth 100000

private instance exceptDecEq {ε α : Type} [DecidableEq ε] [DecidableEq α] : DecidableEq (Except ε α)
  | .ok a, .ok b => if h : a = b then isTrue (by rw [h]) else isFalse (by intro h'; cases h'; exact h rfl)
  | .error a, .error b => if h : a = b then isTrue (by rw [h]) else isFalse (by intro h'; cases h'; exact h rfl)
  | .ok _, .error _ => isFalse (by intro h; cases h)
  | .error _, .ok _ => isFalse (by intro h; cases h)


/-! ## Pins: the tables the tool loaded are what the data files and the specification say -/

/-- the tool's ASCII repertoire is the documented one (NUL EOT BEL BS HT LF VT FF CR ESC + printable) -/
theorem repertoire_pin : interestingBytes = asciiRepertoire ∧ interestingStr = asciiRepertoire := Tables.repertoire_pin

/-- `data/encodings` lists exactly the charsets of the gettext manual, in its order -/
theorem gettext_list_pin : dataPortable.map (·.1) = gettextCharsets := Tables.gettext_list_pin

/-- the model of `_read_encodings`, run on the data file as read by the translator and on the interpreter's own look-ups,
    yields the very tables the tool holds in memory; likewise the extra encodings and the un-mangling table -/
theorem tables_pin :
    readPortable vanillaLookup dataPortable ([], []) = some (portableEncodings, pycodecToEncoding) ∧
    extraEncodings = dataExtra.map lower ∧
    (unmangle.all fun kv => mangle kv.2 == kv.1 && ((portableEncodings.map (·.1)).contains kv.2 || extraEncodings.contains kv.2)) = true ∧
    (((portableEncodings.map (·.1)) ++ extraEncodings).all fun k => assoc? (mangle k) unmangle == some k) = true :=
  ⟨Tables.read_encodings_pin, Tables.extra_pin, Tables.unmangle_pin.1, Tables.unmangle_pin.2⟩

/-- the codec search function serves exactly the five extra codecs: three from charmap files, two through iconv, and leaves
    names Python knows alone -/
theorem codec_search_extra :
    let search := fun (s : String) => codecSearch unmangle portableEncodings extraEncodings (charmaps.map (·.1)) (s.toList.map Char.toNat)
    let n := fun (s : String) => s.toList.map Char.toNat
    search "koi8_ru" = .charmap (n "KOI8-RU") ∧ search "viscii" = .charmap (n "VISCII") ∧
    search "georgian_ps" = .charmap (n "GEORGIAN-PS") ∧ search "koi8_t" = .iconv (n "koi8-t") ∧
    search "euc_tw" = .iconv (n "euc-tw") ∧ search "utf_8" = .notOurs ∧ search "iso8859_2" = .notOurs ∧ search "eggs" = .notOurs := by
  decide +kernel

/-! ## Classification laws, for every codec name known to Python, gettext or the tool (`CodecFacts`) -/

/-- the model's classification functions reproduce every answer the tool gave while the table was dumped -/
theorem model_matches_tool : ∀ r ∈ codecFacts, rowModelOk r = true := all_rows model_rows

/-- **ASCII-compatible iff decoding the ASCII repertoire yields the same characters** -/
theorem ascii_compatible_law : ∀ r ∈ codecFacts, (r.tAscii = true ↔ r.decI = .text asciiRepertoire) := by
  intro r hr
  have := all_rows ascii_rows r hr
  simp only [asciiLaw, beq_iff_eq] at this
  rw [this]; simp

/-! ### which bytes the test looks at — the structural reason behind the law, and who can tell a different choice -/

/-- the 23 ASCII bytes the tool does NOT test: every C0 control but NUL EOT BEL BS HT LF VT FF CR ESC, and DEL -/
theorem ascii_untested_bytes :
    ((List.range 128).filter fun b => !interestingBytes.contains b) =
      [1, 2, 3, 5, 6, 14, 15, 16, 17, 18, 19, 20, 21, 22, 23, 24, 25, 26, 28, 29, 30, 31, 127] := untested_pin

/-- **the verdict looks at the tested bytes only**: for a codec that decodes byte by byte (`f`), `is_ascii_compatible_encoding` is
    true iff `f` is the identity on `_interesting_ascii_bytes`; two such codecs that agree there get the same verdict, whatever
    they do to the 23 other bytes (VISCII: six of them are letters) -/
theorem ascii_verdict_bytewise (f g : Nat → Nat) (mo : Bool) :
    isAsciiCompatible interestingStr (.text (interestingBytes.map f)) mo = .ok (decide (∀ b ∈ interestingBytes, f b = b)) ∧
    ((∀ b ∈ interestingBytes, f b = g b) →
      isAsciiCompatible interestingStr (.text (interestingBytes.map f)) mo = isAsciiCompatible interestingStr (.text (interestingBytes.map g)) mo) := by
  refine ⟨isAsciiCompatible_bytewise f mo, fun h => ?_⟩
  have : interestingBytes.map f = interestingBytes.map g := List.map_congr_left h
  rw [this]

/-- **who can tell a different test set** (every row of CodecFacts, verdicts recomputed by the translator over the changed
    set): decoding all 128 bytes to themselves implies the tool's "yes"; the two readings differ exactly on the rows that one
    added byte flips — VISCII (02 05 06 14 19 1E) and ISO-2022-KR (SO, SI), nothing else; removing ONE tested byte changes
    a verdict only for `%` (cp864), `+` (UTF-7), `~` (HZ) and only from "no" to "yes" — any other single-byte narrowing of
    `_interesting_ascii_bytes` is invisible on every codec this interpreter and the tool know (only `repertoire_pin` sees it) -/
theorem ascii_test_set_sensitivity : ∀ r ∈ codecFacts,
    (r.fullAsciiId = true → r.tAscii = true) ∧
    ((r.tAscii = true ∧ r.fullAsciiId = false) ↔ r.addSens ≠ []) ∧
    (r.dropSens ≠ [] → r.tAscii = false) ∧
    r.addSens = expectedAdd r.codec ∧ r.dropSens = expectedDrop r.codec ∧
    (∀ b ∈ r.dropSens, b ∈ interestingBytes) ∧ (∀ b ∈ r.addSens, b ∉ interestingBytes ∧ b < 128) := by
  intro r hr
  have h1 := all_rows readings_rows r hr
  have h2 := all_rows sens_rows r hr
  simp only [readingsLaw, Bool.and_eq_true, Bool.or_eq_true, Bool.not_eq_true', beq_iff_eq, List.all_eq_true,
    List.contains_iff_mem, List.isEmpty_iff] at h1
  simp only [sensLaw, Bool.and_eq_true, beq_iff_eq] at h2
  obtain ⟨⟨⟨⟨a1, a2⟩, a3⟩, a4⟩, a5⟩ := h1
  refine ⟨?_, ?_, ?_, h2.2, h2.1, a4, ?_⟩
  · intro hf; rcases a1 with h | h
    · rw [hf] at h; cases h
    · exact h
  · cases ht : r.tAscii <;> cases hf : r.fullAsciiId <;> cases ha : r.addSens <;> simp_all
  · intro hd; rcases a3 with h | h
    · exact (hd h).elim
    · exact h
  · intro b hb
    have hm := a5 b hb
    have hu := untested_pin
    rw [← hu] at hm
    simp only [List.mem_filter, List.mem_range, Bool.not_eq_true', List.contains_eq_mem, decide_eq_false_iff_not] at hm
    exact ⟨hm.2, hm.1⟩

/-- **unknown iff no usable text codec exists** (the registry has none, or it is not a text encoding, or it cannot be
    used: decoding the repertoire raises something other than UnicodeDecodeError) -/
theorem unknown_law : ∀ r ∈ codecFacts, (r.tUnknown = true ↔ usable r = false) := by
  intro r hr
  have := all_rows unknown_rows r hr
  simp only [unknownLaw, beq_iff_eq] at this
  rw [this]; simp

/-- gettext's list alone decides `is_portable_encoding(…, python=False)` -/
theorem portable_any_law : ∀ r ∈ codecFacts, (r.tPortAny = true ↔ gettextLists r.name = true) := by
  intro r hr
  have := all_rows portable_any_rows r hr
  simp only [portableAnyLaw, beq_iff_eq] at this
  rw [this]

/-- **portable iff gettext lists it and Python ships a codec for it** — for every name except the spellings of KOI8-T -/
theorem portable_law_partial : ∀ r ∈ codecFacts, canonical r.name ≠ koi8t →
    (r.tPortPy = true ↔ (gettextLists r.name = true ∧ r.pyShips = true)) := by
  intro r hr hk
  have := all_rows portable_rows_partial r hr
  simp only [Bool.or_eq_true, beq_iff_eq, portableLaw] at this
  rcases this with h | h
  · exact (hk h).elim
  · rw [h]; simp

/-- … and for KOI8-T the clause is false: gettext lists it, Python ships `koi8_t`, the tool says non-portable -/
theorem portable_law_refuted :
    ¬ ∀ r ∈ codecFacts, (r.tPortPy = true ↔ (gettextLists r.name = true ∧ r.pyShips = true)) := by
  intro h
  have hex := portable_rows_refuted
  rw [List.any_eq_true] at hex
  obtain ⟨r, hr, hbad⟩ := hex
  have := h r hr
  simp only [portableLaw, Bool.not_eq_true', beq_eq_false_iff_ne, ne_eq] at hbad
  apply hbad
  cases h1 : r.tPortPy <;> cases h2 : gettextLists r.name <;> cases h3 : r.pyShips <;> simp_all

/-- **a proposed replacement is portable and names the same codec** (so it decodes every byte sequence exactly as the
    original name does): the proposal is itself a row, classified portable, with the same `codecs.lookup(…).name` -/
theorem proposal_law : ∀ r ∈ codecFacts, ∀ p, r.tProposal = some p →
    ∃ r' ∈ codecFacts, r'.name = p ∧ r'.tPortPy = true ∧ r'.isText = true ∧ r.codec.isSome = true ∧ r'.codec = r.codec := by
  intro r hr p hp
  have := all_rows proposal_rows r hr
  simp only [proposalLaw, hp] at this
  cases hrow : rowOf p with
  | none => simp [hrow] at this
  | some r' =>
    simp only [hrow, Bool.and_eq_true, beq_iff_eq] at this
    have hfind := List.find?_some hrow
    have hmem := List.mem_of_find?_eq_some hrow
    exact ⟨r', hmem, by simpa using hfind, this.1.1.1, this.2, this.1.1.2, this.1.2⟩

/-- for EVERY name and every registry: whatever `propose_portable_encoding` returns is portable -/
theorem proposal_portable (tbl : List (Name × Bool)) (c2e : List (Name × Name)) (lookup : Name → Option Name)
    (name p : Name) (h : propose tbl c2e lookup name = .ok (some p)) : isPortable tbl true p = true :=
  propose_portable tbl c2e lookup name p h

/-- for EVERY name: with the loaded tables the `assert` never fires, and under any registry that resolves the upper-cased
    values of `_pycodec_to_encoding` to their keys (as the running one does: `c2e_closed`) the proposal names the same codec -/
theorem proposal_sound (lookup : Name → Option Name) (name : Name) :
    propose portableEncodings pycodecToEncoding lookup name ≠ .error () ∧
    ((∀ kv ∈ pycodecToEncoding, lookup (upper kv.2) = some kv.1) →
      ∀ p, propose portableEncodings pycodecToEncoding lookup name = .ok (some p) → lookup p = lookup name) := by
  refine ⟨propose_no_assert _ _ _ ?_ name, fun hcl p hp => propose_same_codec _ _ _ hcl name p hp⟩
  have := c2e_portable
  rw [List.all_eq_true] at this
  exact this

/-! ### the registry itself: `codecs.lookup(name).name` as a model (C normalisation, alias table, `encodings.<module>`, the tool's
search function), the structural reason behind "names the same codec" -/

/-- **the model of `codecs.lookup` gives the registry's answer** for every codec name known to Python, gettext or the tool -/
theorem registry_model_matches : ∀ r ∈ codecFacts, registry r.name = r.codec := by
  intro r hr
  have := all_rows registry_rows r hr
  simpa using this

/-- the model of `propose_portable_encoding` run on the MODEL of the registry gives every proposal the tool made -/
theorem proposal_via_registry : ∀ r ∈ codecFacts,
    proposeEq (propose portableEncodings pycodecToEncoding registry r.name) r.tProposal = true := by
  intro r hr
  have h1 := model_matches_tool r hr
  simp only [rowModelOk, Bool.and_eq_true] at h1
  have h2 := registry_model_matches r hr
  have : propose portableEncodings pycodecToEncoding registry r.name =
      propose portableEncodings pycodecToEncoding (fun _ => r.codec) r.name := by
    simp only [propose, h2]
  rw [this]
  exact h1.1.1.2

/-- **for EVERY name (any string without NUL), under the registry model: a proposal is portable and the registry resolves it to
    the same codec as the original name** — the alias relation behind every proposal; the registry does not look at ASCII case
    (`registry (upper n) = registry n`), which is why the upper-cased proposal is the same codec -/
theorem proposal_same_codec_every_name (name p : Name)
    (h : propose portableEncodings pycodecToEncoding registry name = .ok (some p)) :
    registry p = registry name ∧ isPortable portableEncodings true p = true ∧ (∀ n, registry (upper n) = registry n) := by
  refine ⟨?_, proposal_portable _ _ _ name p h, fun n => registryLookup_upper _ _ _ _ _ n⟩
  have hcl : ∀ kv ∈ pycodecToEncoding, registry (upper kv.2) = some kv.1 := by
    have := registry_c2e_closed
    rw [List.all_eq_true] at this
    intro kv hkv
    simpa using this kv hkv
  exact (proposal_sound registry name).2 hcl p h

/-- the running registry does resolve them -/
theorem registry_closed :
    (pycodecToEncoding.all fun kv => (rowOf' (upper kv.2)).map (·.codec) == some (some kv.1)) = true := c2e_closed

/-! ## The charmap codecs (KOI8-RU, VISCII, GEORGIAN-PS) — for every table, every byte string, every text -/

/-- decoding is total: a text of the same length, or UnicodeDecodeError whose span is one byte inside the input -/
theorem charmap_decode_total (table : List Nat) (bs : List UInt8) :
    (∃ cs, charmapDecode table bs = .ok cs ∧ cs.length = bs.length) ∨
    (∃ s, charmapDecode table bs = .error (s, s + 1) ∧ ValidSpan bs.length (s, s + 1)) := charmapDecode_total table bs

/-- encoding is total: bytes of the same length, or UnicodeEncodeError with `start < end ≤ len` -/
theorem charmap_encode_total (table : List Nat) (cs : List Nat) :
    (∃ bs, charmapEncode table cs = .ok bs ∧ bs.length = cs.length) ∨
    (∃ span, charmapEncode table cs = .error span ∧ ValidSpan cs.length span) := charmapEncode_total table cs

/-- **encode(decode(b)) = b** for every table injective on its defined entries -/
theorem charmap_roundtrip (table : List Nat) (hinj : InjectiveOnDefined table) (bs : List UInt8) (cs : List Nat)
    (h : charmapDecode table bs = .ok cs) : charmapEncode table cs = .ok bs := Charset.charmap_roundtrip table hinj bs cs h

/-- the three shipped tables: every byte string decodes, and encodes back to itself -/
theorem extra_charmaps_lossless : ∀ kv ∈ charmaps, ∀ bs : List UInt8,
    ∃ cs, charmapDecode kv.2 bs = .ok cs ∧ cs.length = bs.length ∧ charmapEncode kv.2 cs = .ok bs := by
  intro kv hkv bs
  have hc := charmaps_complete
  rw [List.all_eq_true] at hc
  have := hc kv hkv
  simp only [complete, Bool.and_eq_true, beq_iff_eq, List.all_eq_true, bne_iff_ne, ne_eq] at this
  obtain ⟨cs, hcs⟩ := decodeFrom_complete kv.2 this.1 this.2 bs 0
  exact ⟨cs, hcs, decodeFrom_ok_length _ _ _ _ hcs, Charset.charmap_roundtrip kv.2 (injective_of_mem kv hkv) bs cs hcs⟩

/-- the shipped tables are, byte for byte, the system iconv's; they map the ASCII repertoire to itself; `charmap_build`
    takes its trie form for them -/
theorem extra_charmaps_agree_iconv :
    (charmaps.all fun kv => (iconvTables.find? (·.1 == kv.1)).map (·.2) == some (kv.2.map some)) = true ∧
    (charmaps.all fun kv => asciiRepertoire.all fun b => kv.2[b]? == some b) = true ∧
    (charmaps.all fun kv => !needDict kv.2) = true :=
  ⟨charmaps_agree_iconv, charmaps_ascii, charmaps_trie⟩

/-- glibc's KOI8-T table is injective on the bytes it accepts, hence lossless as a charmap -/
theorem koi8t_table_roundtrip (bs : List UInt8) (cs : List Nat) (h : charmapDecode koi8tTable bs = .ok cs) :
    charmapEncode koi8tTable cs = .ok bs :=
  Charset.charmap_roundtrip koi8tTable (injBool_sound _ koi8t_injective) bs cs h

/-! ### the reverse direction, the bijection, exact error positions -/

/-- **decode(encode(s)) = s** for every table — whenever `charmap_build` took its trie form (which never maps U+FFFE), or the
    text does not contain U+FFFE … -/
theorem charmap_encode_decode (table : List Nat) (cs : List Nat) (bs : List UInt8)
    (hu : needDict table = false ∨ undefinedCp ∉ cs)
    (h : charmapEncode table cs = .ok bs) : charmapDecode table bs = .ok cs := Charset.charmap_encode_decode table cs bs hu h

/-- … and that side condition is needed: in the dict form of `charmap_build` U+FFFE is an ordinary key, while the decoder
    reads U+FFFE as "undefined" (`'\ufffe'.encode` succeeds, decoding the result raises) -/
theorem charmap_encode_decode_needs_trie :
    needDict [1, 0xFFFE] = true ∧ charmapEncode [1, 0xFFFE] [0xFFFE] = .ok [1] ∧ charmapDecode [1, 0xFFFE] [1] = .error (0, 1) := by
  decide +kernel

/-- **the bijection on the defined repertoire** (every table injective on its defined entries, trie form): byte `b` decodes
    to the defined character `c` iff `c` encodes to `b` -/
theorem charmap_bijection (table : List Nat) (hinj : InjectiveOnDefined table) (htrie : needDict table = false)
    (b : UInt8) (c : Nat) : (table[b.toNat]? = some c ∧ c ≠ undefinedCp) ↔ encLookup table c = some b :=
  encLookup_iff table hinj htrie b c

/-- encoding succeeds iff every character has a byte; decoding succeeds iff every byte has a defined entry -/
theorem charmap_ok_iff (table : List Nat) (cs : List Nat) (bs : List UInt8) :
    ((∃ out, charmapEncode table cs = .ok out) ↔ ∀ c ∈ cs, (encLookup table c).isSome = true) ∧
    ((∃ out, charmapDecode table bs = .ok out) ↔ ∀ b ∈ bs, definedAt table b = true) :=
  ⟨encodeFrom_ok_iff _ cs 0, decodeFrom_ok_iff table bs 0⟩

/-- **UnicodeEncodeError positions**: `start .. end` is exactly the first run of unencodable characters — everything before
    `start` encodes, nothing in `start .. end` does, the character at `end` (if there is one) does -/
theorem charmap_encode_error_position (table : List Nat) (cs : List Nat) (s e : Nat)
    (h : charmapEncode table cs = .error (s, e)) :
    s < e ∧ e ≤ cs.length ∧
    (∀ k, k < s → ∃ c, cs[k]? = some c ∧ (encLookup table c).isSome = true) ∧
    (∀ k, s ≤ k → k < e → ∃ c, cs[k]? = some c ∧ encLookup table c = none) ∧
    (∀ c, cs[e]? = some c → (encLookup table c).isSome = true) := charmapEncode_error_exact table cs s e h

/-- **UnicodeDecodeError positions**: `start` is the first byte without a defined entry, `end = start + 1` -/
theorem charmap_decode_error_position (table : List Nat) (bs : List UInt8) (s e : Nat)
    (h : charmapDecode table bs = .error (s, e)) :
    e = s + 1 ∧ s < bs.length ∧
    (∀ k, k < s → ∃ b, bs[k]? = some b ∧ definedAt table b = true) ∧
    (∃ b, bs[s]? = some b ∧ definedAt table b = false) := charmapDecode_error_exact table bs s e h

/-- the three shipped tables, both directions: what encodes decodes back to the same text, a character encodes iff it is one
    of the 256 entries (to the byte at which it stands), and an encode error names the first run of characters outside the table -/
theorem extra_charmaps_bijective : ∀ kv ∈ charmaps,
    (∀ cs bs, charmapEncode kv.2 cs = .ok bs → charmapDecode kv.2 bs = .ok cs) ∧
    (∀ (b : UInt8) c, kv.2[b.toNat]? = some c ↔ encLookup kv.2 c = some b) ∧
    (∀ cs s e, charmapEncode kv.2 cs = .error (s, e) → s < e ∧ e ≤ cs.length ∧
      (∀ k, s ≤ k → k < e → ∃ c, cs[k]? = some c ∧ c ∉ kv.2) ∧ (∀ k, k < s → ∃ c, cs[k]? = some c ∧ c ∈ kv.2)) := by
  intro kv hkv
  have htrie := trie_of_mem kv hkv
  have hinj := injective_of_mem kv hkv
  have hc := charmaps_complete
  rw [List.all_eq_true] at hc
  have hcomp := hc kv hkv
  simp only [complete, Bool.and_eq_true, beq_iff_eq, List.all_eq_true, bne_iff_ne, ne_eq] at hcomp
  have hmem : ∀ c, c ∈ kv.2 ↔ (encLookup kv.2 c).isSome = true := by
    intro c
    constructor
    · intro hm
      obtain ⟨i, hi, hget⟩ := List.getElem_of_mem hm
      have hi' : i < 256 := by omega
      have hb : (UInt8.ofNat i).toNat = i := by rw [UInt8.toNat_ofNat']; omega
      have h1 : kv.2[(UInt8.ofNat i).toNat]? = some c := by rw [hb, List.getElem?_eq_getElem hi, hget]
      rw [encLookup_of_entry kv.2 hinj (UInt8.ofNat i) c h1 (hcomp.2 c hm)]; rfl
    · intro hs
      cases hl : encLookup kv.2 c with
      | none => simp [hl] at hs
      | some b => exact List.mem_of_getElem? (encLookup_sound kv.2 c b hl).1
  refine ⟨fun cs bs h => Charset.charmap_encode_decode kv.2 cs bs (.inl htrie) h, ?_, ?_⟩
  · intro b c
    rw [← encLookup_iff kv.2 hinj htrie b c]
    exact ⟨fun h => ⟨h, hcomp.2 c (List.mem_of_getElem? h)⟩, fun h => h.1⟩
  · intro cs s e h
    obtain ⟨h1, h2, h3, h4, _⟩ := charmapEncode_error_exact kv.2 cs s e h
    refine ⟨h1, h2, ?_, ?_⟩
    · intro k hk1 hk2
      obtain ⟨c, hc1, hc2⟩ := h4 k hk1 hk2
      exact ⟨c, hc1, fun hm => by have := (hmem c).1 hm; simp [hc2] at this⟩
    · intro k hk
      obtain ⟨c, hc1, hc2⟩ := h3 k hk
      exact ⟨c, hc1, (hmem c).2 hc2⟩

/-- glibc's KOI8-T table, both directions: lossless from text to bytes as well, a bijection between the bytes it accepts and
    the characters it encodes, and exact error positions (an undefined byte / the first run of unencodable characters) -/
theorem koi8t_table_bijective :
    (∀ cs bs, charmapEncode koi8tTable cs = .ok bs → charmapDecode koi8tTable bs = .ok cs) ∧
    (∀ (b : UInt8) c, (koi8tTable[b.toNat]? = some c ∧ c ≠ undefinedCp) ↔ encLookup koi8tTable c = some b) ∧
    (∀ bs s e, charmapDecode koi8tTable bs = .error (s, e) → e = s + 1 ∧ s < bs.length ∧
      (∃ b, bs[s]? = some b ∧ definedAt koi8tTable b = false) ∧ (∀ k, k < s → ∃ b, bs[k]? = some b ∧ definedAt koi8tTable b = true)) ∧
    (∀ cs s e, charmapEncode koi8tTable cs = .error (s, e) → s < e ∧ e ≤ cs.length ∧
      (∀ k, s ≤ k → k < e → ∃ c, cs[k]? = some c ∧ encLookup koi8tTable c = none) ∧
      (∀ k, k < s → ∃ c, cs[k]? = some c ∧ (encLookup koi8tTable c).isSome = true)) := by
  refine ⟨fun cs bs h => Charset.charmap_encode_decode _ cs bs (.inl koi8t_trie) h,
    fun b c => encLookup_iff _ (injBool_sound _ koi8t_injective) koi8t_trie b c, ?_, ?_⟩
  · intro bs s e h
    obtain ⟨h1, h2, h3, h4⟩ := charmapDecode_error_exact _ bs s e h
    exact ⟨h1, h2, h4, h3⟩
  · intro cs s e h
    obtain ⟨h1, h2, h3, h4, _⟩ := charmapEncode_error_exact _ cs s e h
    exact ⟨h1, h2, h4, h3⟩

/-! ## Loading a file with a codec that passed the ASCII-compatibility test -/

/-- `encodings.decode` (used for PO text, PO escapes and MO strings) yields text or a UnicodeDecodeError with a valid span —
    also for codecs that report malformed input with a bare UnicodeError (idna: `.xn--a`), which used to crash the tool -/
theorem loader_decode_total (len : Nat) (raw : RawDecode) (hraw : raw ≠ .other) :
    (∃ cs, loaderDecode len raw = .text cs) ∨
    (∃ s e, loaderDecode len raw = .ude s e ∧ (raw = .unicodeError → s = 0 ∧ e = len)) := by
  cases raw with
  | text cs => exact .inl ⟨cs, rfl⟩
  | ude s e => exact .inr ⟨s, e, rfl, fun h => by cases h⟩
  | unicodeError => exact .inr ⟨0, len, rfl, fun _ => ⟨rfl, rfl⟩⟩
  | other => exact (hraw rfl).elim

/-! ## EUC-TW: the structure of the encoding (glibc's euc-tw.c) over abstract CNS 11643 tables -/

/-- a decode error of the EUC-TW structure points at a byte inside the input (the binding turns that offset into the
    start of a non-empty span: `iconv_loop_error_span`) -/
theorem euctw_decode_error_position (cns : CnsTable) (bs : List UInt8) (s : Nat) (k : Bool)
    (h : eucTwDecode cns bs = .error (s, k)) : s < bs.length := by
  have := eucTwDecodeLoop_error_pos cns bs.length 0 bs s k h
  omega

/-- **encode(decode(b)) = b for EUC-TW, on canonical input**: whenever every unit of `b` is the form the encoder itself
    writes for its character (two bytes for plane 1, `8E A0+p` for planes ≥ 2, never a second code point of a character) -/
theorem euctw_roundtrip_partial (cns : CnsTable) (inv : CnsInverse) (bs : List UInt8) (cs : List Nat)
    (h : eucTwDecode cns bs = .ok cs) (hcan : eucTwCanonical cns inv bs.length bs = true) :
    eucTwEncode inv cs = .ok bs := eucTw_roundtrip cns inv bs cs h hcan

/-- … and **false without that restriction**, for any tables that agree with the system iconv on the dumped facts -/
theorem euctw_roundtrip_refuted (cns : CnsTable) (inv : CnsInverse) (h : AgreesWithIconv cns inv) :
    (eucTwDecode cns [0x8E, 0xA1, 0xA4, 0xA1] = .ok [0xFF10] ∧ eucTwEncode inv [0xFF10] = .ok [0xA4, 0xA1]) ∧
    (eucTwDecode cns [0x8E, 0xA3, 0xA1, 0xB8] = .ok [0x5344] ∧ eucTwEncode inv [0x5344] = .ok [0xA4, 0xBF]) ∧
    ¬ (∀ bs cs, eucTwDecode cns bs = .ok cs → eucTwEncode inv cs = .ok bs) := eucTw_roundtrip_refuted cns inv h

/-! ## EUC-TW over the CNS 11643 tables of the system iconv

`Generated.CharsetCns*` holds every answer of glibc's iconv: the 17 × 8836 units `r c` / `8E A0+p r c` (p = 1..16) and every
character U+0080..U+10FFFF.  `cnsReal` / `invReal` read them; seven modules let the kernel pass over all of it
(`Lemmas/CharsetCnsK1..K7`), `Lemmas/CharsetCns` turns the pass into statements about the two functions. -/

/-- pins: the two-byte and the four-byte form of plane 1 share one table; iconv accepts units in planes 1–7 and 15 only; it drops
    exactly the TAG characters; U+5344 stands twice; and the real tables agree with the witnesses `euctw_roundtrip_refuted` uses -/
theorem euctw_tables_pin :
    plane1two = plane1 ∧ planesAccepted = [1, 2, 3, 4, 5, 6, 7, 15] ∧ ignoredRanges = [(0xE0000, 0xE007F)] ∧
    (cnsReal 3 0xA1 0xB8 = some 0x5344 ∧ cnsReal 1 0xA4 0xBF = some 0x5344 ∧ invReal 0x5344 = some (1, 0xA4, 0xBF)) ∧
    AgreesWithIconv cnsReal invReal := by
  refine ⟨plane1_forms_agree, by decide, ignored_pin.1, dup_fact, ⟨?_, ?_⟩⟩
  · have : (eucTwDecodeFacts.all fun f => eucTwDecode cnsReal (toBytes f.1) == .ok [f.2]) = true := by decide +kernel
    intro f hf
    rw [List.all_eq_true] at this
    simpa using this f hf
  · have : (eucTwEncodeFacts.all fun f => eucTwEncode invReal [f.1] == .ok (toBytes f.2)) = true := by decide +kernel
    intro f hf
    rw [List.all_eq_true] at this
    simpa using this f hf

/-- **decoding is total**: every byte string yields a text of Unicode scalar values (so `outbuf[:n]` cannot raise: none is a
    surrogate or above U+10FFFF), at most one character per byte — or an error whose offset lies inside the input -/
theorem euctw_decode_total (bs : List UInt8) :
    (∃ cs, eucTwDecodeReal bs = .ok cs ∧ cs.length ≤ bs.length ∧ ∀ c ∈ cs, isScalar c = true ∧ isTag c = false) ∨
    (∃ s k, eucTwDecodeReal bs = .error (s, k) ∧ s < bs.length) := by
  cases h : eucTwDecodeReal bs with
  | ok cs =>
    obtain ⟨h1, h2, _⟩ := decodeLoop_real_facts bs.length 0 0 bs cs h
    exact .inl ⟨cs, rfl, h1, h2⟩
  | error e =>
    obtain ⟨s, k⟩ := e
    exact .inr ⟨s, k, rfl, euctw_decode_error_position cnsReal bs s k h⟩

/-- **encode(decode(b)) = b exactly when `b` has no redundant unit** — full strength over the real tables: the four-byte
    form of plane 1 (`8E A1 r c`) and the one unit `8E A3 A1 B8` are the only obstacles -/
theorem euctw_roundtrip (bs : List UInt8) (cs : List Nat) (h : eucTwDecodeReal bs = .ok cs) :
    eucTwEncodeReal cs = .ok bs ↔ eucTwNoRedundant cnsReal bs.length bs = true := by
  constructor
  · intro henc
    exact roundtrip_noRedundant bs.length 0 0 bs cs h henc
  · intro hn
    rw [← canonical_eq_noRedundant] at hn
    exact eucTw_roundtrip cnsReal invReal bs cs h hn

/-- **decode(encode(s)) = s — except that glibc drops TAG characters**: whatever the encoder accepts decodes to the text
    without its TAG characters U+E0000..U+E007F (so to the text itself when it has none) -/
theorem euctw_encode_decode (cs : List Nat) (bs : List UInt8) (h : eucTwEncodeReal cs = .ok bs) :
    eucTwDecodeReal bs = .ok (cs.filter fun c => !isTag c) ∧
    ((∀ c ∈ cs, isTag c = false) → eucTwDecodeReal bs = .ok cs) := by
  have := encode_decode_loop cs bs.length 0 0 bs h (Nat.le_refl _)
  refine ⟨this, fun hn => ?_⟩
  rw [show eucTwDecodeReal bs = _ from this]
  congr 1
  rw [List.filter_eq_self]
  intro c hc
  simp [hn c hc]

/-- … and the exception is real: `'a\U000E0041b'.encode('EUC-TW') == b'ab'` -/
theorem euctw_encode_drops_tags :
    eucTwEncodeReal [0x61, 0xE0041, 0x62] = .ok [0x61, 0x62] ∧ eucTwDecodeReal [0x61, 0x62] = .ok [0x61, 0x62] := by decide +kernel

/-- **the encoder writes the short form**: whatever decodes is encodable, to no more bytes than were read, and the bytes
    written decode to the same text (two bytes for plane 1, `A4 BF` for U+5344) -/
theorem euctw_encode_short_form (bs : List UInt8) (cs : List Nat) (h : eucTwDecodeReal bs = .ok cs) :
    ∃ bs', eucTwEncodeReal cs = .ok bs' ∧ bs'.length ≤ bs.length ∧ eucTwDecodeReal bs' = .ok cs ∧
      eucTwNoRedundant cnsReal bs'.length bs' = true := by
  obtain ⟨_, h2, bs', h3, h4⟩ := decodeLoop_real_facts bs.length 0 0 bs cs h
  have hd := (euctw_encode_decode cs bs' h3).2 (fun c hc => (h2 c hc).2)
  exact ⟨bs', h3, h4, hd, (euctw_roundtrip bs' cs hd).1 h3⟩

/-- **the non-injective units, exactly**: a unit is canonical (the form the encoder writes for its character) iff it is not
    redundant; and a decodable byte string shares its text with a *different* byte string free of redundant units iff it
    contains a redundant unit itself.  Restricted to byte strings without redundant units the decoder is injective. -/
theorem euctw_noninjective_exactly :
    (∀ bs, (eucTwUnit cnsReal bs).canonical invReal = !(eucTwUnit cnsReal bs).redundant) ∧
    (∀ bs cs, eucTwDecodeReal bs = .ok cs →
      ((∃ bs', bs' ≠ bs ∧ eucTwDecodeReal bs' = .ok cs ∧ eucTwNoRedundant cnsReal bs'.length bs' = true) ↔
        eucTwNoRedundant cnsReal bs.length bs = false)) ∧
    (∀ bs bs' cs, eucTwDecodeReal bs = .ok cs → eucTwDecodeReal bs' = .ok cs →
      eucTwNoRedundant cnsReal bs.length bs = true → eucTwNoRedundant cnsReal bs'.length bs' = true → bs = bs') := by
  have hinj : ∀ bs bs' cs, eucTwDecodeReal bs = .ok cs → eucTwDecodeReal bs' = .ok cs →
      eucTwNoRedundant cnsReal bs.length bs = true → eucTwNoRedundant cnsReal bs'.length bs' = true → bs = bs' := by
    intro bs bs' cs h h' hn hn'
    have e1 := (euctw_roundtrip bs cs h).2 hn
    have e2 := (euctw_roundtrip bs' cs h').2 hn'
    rw [e1] at e2
    cases e2; rfl
  refine ⟨unit_canonical_iff, ?_, hinj⟩
  intro bs cs h
  constructor
  · rintro ⟨bs', hne, h', hn'⟩
    cases hn : eucTwNoRedundant cnsReal bs.length bs
    · rfl
    · exact (hne (hinj bs' bs cs h' h hn' hn)).elim
  · intro hn
    obtain ⟨bs', h3, _, hd, hn'⟩ := euctw_encode_short_form bs cs h
    refine ⟨bs', ?_, hd, hn'⟩
    intro he
    subst he
    rw [hn] at hn'
    cases hn'

/-! ## The iconv binding: `_decode_dl` / `_encode_dl` over an abstract iconv -/

/-- **(a) told ≤ allocated** — for every iconv behaviour, input and number of rounds: the byte count passed in
    `outbytesleft` is the size just allocated (`_encode_dl`) or a quarter of it (`_decode_dl`), and never shrinks -/
theorem iconv_told_le_allocated (step : Step) (input : List UInt8) (n fuel : Nat) :
    (∀ a ∈ (decodeDl step input fuel).2, a.told ≤ a.allocated ∧ a.allocated = 4 * a.told ∧ input.length ≤ a.told) ∧
    (∀ a ∈ (encodeDl step n fuel).2, a.told ≤ a.allocated ∧ a.allocated = a.told ∧ n ≤ a.told) := by
  constructor
  · intro a ha
    unfold decodeDl at ha
    split at ha
    · simp at ha
    · have := decodeLoop_alloc step input fuel input.length a ha
      exact ⟨by omega, this.1, this.2⟩
  · intro a ha
    unfold encodeDl at ha
    split at ha
    · simp at ha
    · have := encodeLoop_alloc step n fuel n a ha
      exact ⟨by omega, this.1, this.2⟩

/-- **(b) termination**: if iconv stops answering E2BIG once it is told `need` bytes (bounded expansion), the loop ends
    within `need` rounds -/
theorem iconv_loop_terminates (step : Step) (input : List UInt8) (need fuel : Nat) (hne : input ≠ [])
    (hb : ∀ told, need ≤ told → (step told).reset = none → (callBoth input.length told (step told)).rc ≠ .e2big)
    (hfuel : need < fuel) : (decodeDl step input fuel).1.finished = true := by
  unfold decodeDl
  have : input.isEmpty = false := by cases input <;> simp_all
  simp only [this, Bool.false_eq_true, if_false]
  have hl : 1 ≤ input.length := by cases input <;> simp_all
  exact decodeLoop_terminates step input need hb fuel input.length hl (by omega) (by omega)

theorem iconv_encode_loop_terminates (step : Step) (n need fuel : Nat) (hne : n ≠ 0)
    (hb : ∀ told, need ≤ told → (step told).reset = none → (callBoth (4 * n) told (step told)).rc ≠ .e2big)
    (hfuel : need < fuel) : (encodeDl step n fuel).1.finished = true := by
  unfold encodeDl
  simp only [hne, if_false]
  exact encodeLoop_terminates step n need hb fuel n (by omega) (by omega) (by omega)

/-- **the exact schedule** — for every iconv: round `i` of `_decode_dl` is told `len(input) · 2^i` bytes of the `4 ·` that
    allocated, round `i` of `_encode_dl` is told all of the `len(input) · 2^i` bytes allocated -/
theorem iconv_loop_schedule (step : Step) (input : List UInt8) (n fuel i : Nat) (a : Alloc) :
    ((decodeDl step input fuel).2[i]? = some a → a.told = input.length * 2 ^ i ∧ a.allocated = 4 * (input.length * 2 ^ i)) ∧
    ((encodeDl step n fuel).2[i]? = some a → a.told = n * 2 ^ i ∧ a.allocated = n * 2 ^ i) := by
  constructor
  · intro h
    unfold decodeDl at h
    split at h
    · simp at h
    · exact decodeLoop_schedule step input fuel _ i a h
  · intro h
    unfold encodeDl at h
    split at h
    · simp at h
    · exact encodeLoop_schedule step n fuel _ i a h

/-- **(b′) a logarithmic number of rounds**: if iconv stops answering E2BIG once told `need` bytes, and `len · 2^k ≥ need`, the
    loop makes at most `k + 1` rounds (so `⌈log2 (need / len)⌉ + 1`) and needs no more fuel than that -/
theorem iconv_loop_rounds_log (step : Step) (input : List UInt8) (n need fuel k : Nat) :
    ((∀ told, need ≤ told → (step told).reset = none → (callBoth input.length told (step told)).rc ≠ .e2big) →
      need ≤ input.length * 2 ^ k →
      (decodeDl step input fuel).2.length ≤ k + 1 ∧ (k < fuel → (decodeDl step input fuel).1.finished = true)) ∧
    ((∀ told, need ≤ told → (step told).reset = none → (callBoth (4 * n) told (step told)).rc ≠ .e2big) →
      need ≤ n * 2 ^ k →
      (encodeDl step n fuel).2.length ≤ k + 1 ∧ (k < fuel → (encodeDl step n fuel).1.finished = true)) := by
  constructor
  · intro hb hk
    unfold decodeDl
    split
    · simp [Outcome.finished]
    · exact decodeLoop_rounds step input need hb fuel _ k hk
  · intro hb hk
    unfold encodeDl
    split
    · simp [Outcome.finished]
    · exact encodeLoop_rounds step n need hb fuel _ k hk

/-- **the buffer stays below twice what is needed**: against an iconv that answers E2BIG only when told fewer than `need`
    bytes, every round after the first is told fewer than `2 · need` bytes (and allocates that, resp. four times that) -/
theorem iconv_loop_buffer_bound (step : Step) (input : List UInt8) (n need fuel : Nat) :
    ((∀ told, (step told).reset = none → (callBoth input.length told (step told)).rc = .e2big → told < need) →
      ∀ a ∈ (decodeDl step input fuel).2, a.told = input.length ∨ a.told < 2 * need) ∧
    ((∀ told, (step told).reset = none → (callBoth (4 * n) told (step told)).rc = .e2big → told < need) →
      ∀ a ∈ (encodeDl step n fuel).2, (a.told = n ∨ a.told < 2 * need) ∧ a.allocated = a.told) := by
  constructor
  · intro he a ha
    unfold decodeDl at ha
    split at ha
    · simp at ha
    · exact decodeLoop_buffer step input need he fuel _ a ha
  · intro he a ha
    have hal := (iconv_told_le_allocated step [] n fuel).2 a ha
    unfold encodeDl at ha
    split at ha
    · simp at ha
    · exact ⟨encodeLoop_buffer step n need he fuel _ a ha, hal.2.1⟩

/-- **what termination rests on**: a loop that stops doubling (`output_len = 2 * len(input)` in place of `output_len *= 2`) never
    ends against a contract-abiding iconv — one character that needs three bytes (`€` to UTF-8): told 1, 2, 2, 2, … bytes it
    answers E2BIG for ever — while the loop as written is told 1, 2, 4 and returns the three bytes; `encodeLoopG` with
    `· * 2` is the model of the code -/
theorem non_doubling_loop_diverges :
    ConvertsTo euroStep (4 * 1) [0xE2, 0x82, 0xAC] 3 ∧
    (∀ fuel, (encodeLoopG (fun _ => 2 * 1) euroStep 1 fuel 1).1 = .outOfFuel) ∧
    (encodeDl euroStep 1 3).1 = .ok [0xE2, 0x82, 0xAC] ∧ (encodeDl euroStep 1 3).2 = [⟨1, 1⟩, ⟨2, 2⟩, ⟨4, 4⟩] ∧
    (∀ step n fuel L, encodeLoopG (· * 2) step n fuel L = encodeLoop step n fuel L) :=
  ⟨euroStep_contract, fun fuel => stuck_loop_never_ends fuel 1 (by omega),
    encodeLoop_returns_produced euroStep 1 _ 3 euroStep_contract 3 1 (by omega) (by omega) (by omega),
    by decide +kernel, encodeLoopG_double⟩

/-- **(c) the result is exactly what iconv produced**: against an iconv that answers E2BIG below `need` bytes and otherwise
    converts the whole input into `produced` (wide characters within U+0000..U+10FFFF — glibc's UTF-8 → WCHAR_T does not
    promise that, and then `outbuf[:n]` raises ValueError: `iconv_wchar_out_of_range`), decoding returns the wide characters of
    `produced`, encoding returns `produced` -/
theorem iconv_loop_returns_produced (step : Step) (input : List UInt8) (produced : List UInt8) (need k fuel : Nat)
    (hne : input ≠ []) (h : ConvertsTo step input.length produced need) (h4 : produced.length = 4 * k)
    (hvalid : (wchars produced).any (· > 0x10FFFF) = false) (hfuel : need < fuel) :
    (decodeDl step input fuel).1 = .ok (wchars produced) := by
  unfold decodeDl
  have : input.isEmpty = false := by cases input <;> simp_all
  simp only [this, Bool.false_eq_true, if_false]
  have hl : 1 ≤ input.length := by cases input <;> simp_all
  exact decodeLoop_returns_produced step input produced need k h h4 hvalid fuel input.length hl (by omega) (by omega)

theorem iconv_encode_loop_returns_produced (step : Step) (n : Nat) (produced : List UInt8) (need fuel : Nat)
    (hne : n ≠ 0) (h : ConvertsTo step (4 * n) produced need) (hfuel : need < fuel) :
    (encodeDl step n fuel).1 = .ok produced := by
  unfold encodeDl
  simp only [hne, if_false]
  exact encodeLoop_returns_produced step n produced need h fuel n (by omega) (by omega) (by omega)

/-- **(d) error spans**: when iconv leaves the offending sequence unconsumed (at least one byte, resp. one UTF-32 unit), the
    UnicodeDecodeError / UnicodeEncodeError raised has `start < end ≤ len(input)` -/
theorem iconv_loop_error_span (step : Step) (input : List UInt8) (n fuel s e : Nat) :
    ((∀ told, (step told).reset = none →
        ((callBoth input.length told (step told)).rc = .eilseq ∨ (callBoth input.length told (step told)).rc = .einval) →
        1 ≤ (callBoth input.length told (step told)).inLeft) →
      (decodeDl step input fuel).1 = .unicodeError s e → s < e ∧ e ≤ input.length) ∧
    ((∀ told, (step told).reset = none →
        ((callBoth (4 * n) told (step told)).rc = .eilseq ∨ (callBoth (4 * n) told (step told)).rc = .einval) →
        4 ≤ (callBoth (4 * n) told (step told)).inLeft) →
      (encodeDl step n fuel).1 = .unicodeError s e → s < e ∧ e ≤ n) := by
  constructor
  · intro hc h
    unfold decodeDl at h
    split at h
    · cases h
    · exact decodeLoop_error_span step input hc fuel input.length s e h
  · intro hc h
    unfold encodeDl at h
    split at h
    · cases h
    · have := encodeLoop_error_span step n hc fuel n s e h
      omega

/-! ### the iconv-backed codecs end to end: the loop of `lib/iconv.py` ∘ a reference iconv for the charset

`refDecStep` / `refEncStep` (`Lemmas/CharsetIconvRef`): an iconv that converts unit by unit, checks the room first as glibc's
skeleton does, leaves the offending unit unconsumed.  Its description of EUC-TW is `eucTwUnit` / `eucTwEncodeChar` over the
tables of the system iconv; of KOI8-T, glibc's single-byte table. -/

/-- **`bytes.decode('EUC-TW')` as the tool implements it** (loop ∘ reference iconv over the real tables), for every byte string
    and any fuel ≥ 3 rounds: the text `eucTwDecodeReal` yields, or `UnicodeDecodeError` with `start` = the offset of the
    offending unit and `start < end ≤ len(input)`; never ValueError / AssertionError / OSError -/
theorem euctw_codec_decode (bs : List UInt8) (fuel : Nat) (hfuel : 3 ≤ fuel) :
    (∀ cs, eucTwDecodeReal bs = .ok cs → (decodeDl (refDecStep (eucUnitFn cnsReal) bs) bs fuel).1 = .ok cs) ∧
    (∀ s k, eucTwDecodeReal bs = .error (s, k) →
      (decodeDl (refDecStep (eucUnitFn cnsReal) bs) bs fuel).1 = .unicodeError s (syncEnd bs s) ∧ s < syncEnd bs s ∧ syncEnd bs s ≤ bs.length) := by
  constructor
  · intro cs h
    have hv : ∀ c ∈ cs, c ≤ 0x10FFFF := by
      intro c hc
      have := ((decodeLoop_real_facts bs.length 0 0 bs cs h).2.1 c hc).1
      simp only [isScalar, Bool.and_eq_true, decide_eq_true_eq] at this
      exact this.1
    have h' : unitDecodeLoop (eucUnitFn cnsReal) bs.length 0 bs = .ok cs := by rw [← eucTwDecodeLoop_eq]; exact h
    exact decodeDl_ref_ok _ (eucUnitFn_wf cnsReal) bs cs fuel h' hv hfuel
  · intro s k h
    have h' : unitDecodeLoop (eucUnitFn cnsReal) bs.length 0 bs = .error (s, k) := by rw [← eucTwDecodeLoop_eq]; exact h
    exact decodeDl_ref_err _ (eucUnitFn_wf cnsReal) bs s k fuel h' hfuel

/-- **`str.encode('EUC-TW')` as the tool implements it**: the bytes `eucTwEncodeReal` yields, or `UnicodeEncodeError(i, i + 1)` at
    the first character without a code, `i < len(input)` -/
theorem euctw_codec_encode (cs : List Nat) (fuel : Nat) (hfuel : 3 ≤ fuel) :
    (∀ bs, eucTwEncodeReal cs = .ok bs → (encodeDl (refEncStep (eucTwEncodeChar invReal) cs) cs.length fuel).1 = .ok bs) ∧
    (∀ i, eucTwEncodeReal cs = .error i →
      (encodeDl (refEncStep (eucTwEncodeChar invReal) cs) cs.length fuel).1 = .unicodeError i (i + 1) ∧ i < cs.length) := by
  constructor
  · intro bs h
    have h' : encodeAllFrom (eucTwEncodeChar invReal) 0 cs = .ok bs := by rw [← eucTwEncodeFrom_eq]; exact h
    exact encodeDl_ref_ok _ (eucTwEncodeChar_max invReal) cs bs fuel h' hfuel
  · intro i h
    have h' : encodeAllFrom (eucTwEncodeChar invReal) 0 cs = .error i := by rw [← eucTwEncodeFrom_eq]; exact h
    exact encodeDl_ref_err _ (eucTwEncodeChar_max invReal) cs i fuel h' hfuel

/-- **the clause itself, end to end, for EUC-TW**: whenever the tool's decode of `b` succeeds with text `t`, the tool's encode
    of `t` returns `b` iff `b` contains no redundant unit (four-byte plane 1, `8E A3 A1 B8`); it never fails on such `t` -/
theorem euctw_codec_roundtrip (bs : List UInt8) (cs : List Nat) (fuel : Nat) (hfuel : 3 ≤ fuel)
    (h : (decodeDl (refDecStep (eucUnitFn cnsReal) bs) bs fuel).1 = .ok cs) :
    eucTwDecodeReal bs = .ok cs ∧
    ((encodeDl (refEncStep (eucTwEncodeChar invReal) cs) cs.length fuel).1 = .ok bs ↔ eucTwNoRedundant cnsReal bs.length bs = true) ∧
    ∃ bs', (encodeDl (refEncStep (eucTwEncodeChar invReal) cs) cs.length fuel).1 = .ok bs' := by
  have hd : eucTwDecodeReal bs = .ok cs := by
    cases hdec : eucTwDecodeReal bs with
    | ok cs' =>
      have := (euctw_codec_decode bs fuel hfuel).1 cs' hdec
      rw [this] at h
      cases h; rfl
    | error e =>
      obtain ⟨s, k⟩ := e
      have := ((euctw_codec_decode bs fuel hfuel).2 s k hdec).1
      rw [this] at h
      cases h
  obtain ⟨bs', he, _, _, _⟩ := euctw_encode_short_form bs cs hd
  have hl := (euctw_codec_encode cs fuel hfuel).1 bs' he
  refine ⟨hd, ?_, bs', hl⟩
  rw [← euctw_roundtrip bs cs hd, hl, he]
  constructor
  · intro hx; cases hx; rfl
  · intro hx; cases hx; rfl

/-- **KOI8-T as the tool's own iconv-backed codec sees it** (loop ∘ reference iconv over glibc's table): decoding yields what the
    table yields, an undefined byte at `s` gives `UnicodeDecodeError(s, next ASCII byte or end)`; encoding a text without TAG
    characters yields what the table yields, the first unencodable character at `s` gives `UnicodeEncodeError(s, s + 1)`; and
    the two round-trip in both directions -/
theorem koi8t_codec (bs : List UInt8) (cs : List Nat) (fuel : Nat) (hfuel : 3 ≤ fuel) :
    (∀ t, charmapDecode koi8tTable bs = .ok t → (decodeDl (refDecStep (tableUnitFn koi8tTable) bs) bs fuel).1 = .ok t ∧
      (encodeDl (refEncStep (sbEncodeChar koi8tTable) t) t.length fuel).1 = .ok bs) ∧
    (∀ s e, charmapDecode koi8tTable bs = .error (s, e) →
      (decodeDl (refDecStep (tableUnitFn koi8tTable) bs) bs fuel).1 = .unicodeError s (syncEnd bs s) ∧ s < syncEnd bs s ∧ syncEnd bs s ≤ bs.length) ∧
    ((∀ c ∈ cs, isTag c = false) →
      (∀ b, charmapEncode koi8tTable cs = .ok b → (encodeDl (refEncStep (sbEncodeChar koi8tTable) cs) cs.length fuel).1 = .ok b ∧
        (decodeDl (refDecStep (tableUnitFn koi8tTable) b) b fuel).1 = .ok cs) ∧
      (∀ s e, charmapEncode koi8tTable cs = .error (s, e) →
        (encodeDl (refEncStep (sbEncodeChar koi8tTable) cs) cs.length fuel).1 = .unicodeError s (s + 1) ∧ s < cs.length)) := by
  have hwf := tableUnitFn_wf koi8tTable
  have hmax := sbEncodeChar_max koi8tTable
  have hdec : ∀ (b : List UInt8) (t : List Nat), charmapDecode koi8tTable b = .ok t →
      (decodeDl (refDecStep (tableUnitFn koi8tTable) b) b fuel).1 = .ok t := by
    intro b t h
    have h' : unitDecodeLoop (tableUnitFn koi8tTable) b.length 0 b = .ok t := by
      rw [tableDecode_eq koi8tTable b b.length 0 (Nat.le_refl _)]
      unfold charmapDecode at h
      rw [h]
    have hv : ∀ c ∈ t, c ≤ 0x10FFFF := by
      have hall : (koi8tTable.all fun c => c ≤ 0x10FFFF) = true := by decide +kernel
      rw [List.all_eq_true] at hall
      have hmem : ∀ (b : List UInt8) (i : Nat) (t : List Nat), charmapDecodeFrom koi8tTable i b = .ok t → ∀ c ∈ t, c ∈ koi8tTable := by
        intro b
        induction b with
        | nil => intro i t h c hc; simp [charmapDecodeFrom] at h; subst h; simp at hc
        | cons x xs ih =>
          intro i t h c hc
          simp only [charmapDecodeFrom] at h
          split at h
          · cases h
          · rename_i c' hc'
            split at h
            · cases h
            · split at h
              · cases h
              · rename_i t' ht'
                cases h
                rcases List.mem_cons.1 hc with rfl | hc
                · exact List.mem_of_getElem? hc'
                · exact ih _ _ ht' c hc
      intro c hc
      have := hall c (hmem b 0 t h c hc)
      simpa using this
    exact decodeDl_ref_ok _ hwf b t fuel h' hv hfuel
  have henc : ∀ (t : List Nat) (b : List UInt8), (∀ c ∈ t, isTag c = false) → charmapEncode koi8tTable t = .ok b →
      (encodeDl (refEncStep (sbEncodeChar koi8tTable) t) t.length fuel).1 = .ok b := by
    intro t b ht h
    have h' : encodeAllFrom (sbEncodeChar koi8tTable) 0 t = .ok b := by
      rw [sbEncode_eq koi8tTable t 0 ht]
      unfold charmapEncode at h
      rw [h]
    exact encodeDl_ref_ok _ hmax t b fuel h' hfuel
  refine ⟨?_, ?_, ?_⟩
  · intro t h
    refine ⟨hdec bs t h, henc t bs ?_ (koi8t_table_roundtrip bs t h)⟩
    -- no decoded character is a TAG character: the table has none
    have hall : (koi8tTable.all fun c => !isTag c) = true := by decide +kernel
    rw [List.all_eq_true] at hall
    intro c hc
    have hmem : ∀ (b : List UInt8) (i : Nat) (t : List Nat), charmapDecodeFrom koi8tTable i b = .ok t → ∀ c ∈ t, c ∈ koi8tTable := by
      intro b
      induction b with
      | nil => intro i t h c hc; simp [charmapDecodeFrom] at h; subst h; simp at hc
      | cons x xs ih =>
        intro i t h c hc
        simp only [charmapDecodeFrom] at h
        split at h
        · cases h
        · rename_i c' hc'
          split at h
          · cases h
          · split at h
            · cases h
            · rename_i t' ht'
              cases h
              rcases List.mem_cons.1 hc with rfl | hc
              · exact List.mem_of_getElem? hc'
              · exact ih _ _ ht' c hc
    have := hall c (hmem bs 0 t h c hc)
    simpa using this
  · intro s e h
    have h' : unitDecodeLoop (tableUnitFn koi8tTable) bs.length 0 bs = .error (s, false) := by
      rw [tableDecode_eq koi8tTable bs bs.length 0 (Nat.le_refl _)]
      unfold charmapDecode at h
      rw [h]
    exact decodeDl_ref_err _ hwf bs s false fuel h' hfuel
  · intro ht
    refine ⟨fun b h => ⟨henc cs b ht h, hdec b cs (koi8t_table_bijective.1 cs b h)⟩, ?_⟩
    intro s e h
    have h' : encodeAllFrom (sbEncodeChar koi8tTable) 0 cs = .error s := by
      rw [sbEncode_eq koi8tTable cs 0 ht]
      unfold charmapEncode at h
      rw [h]
    exact encodeDl_ref_err _ hmax cs s fuel h' hfuel

/-- the binding is NOT total as a general API: an iconv that hands back a wide character above U+10FFFF (glibc does for the
    UTF-8 bytes F5 8F 9E 8D, target WCHAR_T) makes `outbuf[:n]` raise ValueError instead of a Unicode error.  None of the five
    extra codecs can produce such a value (their tables are Unicode). -/
theorem iconv_wchar_out_of_range :
    (decodeDl (fun _ => ⟨none, ⟨.ok, 4, [0x8D, 0xF7, 0x14, 0x00]⟩, ⟨.ok, 0, []⟩⟩) [0xF5, 0x8F, 0x9E, 0x8D] 5).1.finished = true ∧
    (match (decodeDl (fun _ => ⟨none, ⟨.ok, 4, [0x8D, 0xF7, 0x14, 0x00]⟩, ⟨.ok, 0, []⟩⟩) [0xF5, 0x8F, 0x9E, 0x8D] 5).1 with
      | .valueError => true | _ => false) = true := by decide +kernel

/-! ## unrepresentable-characters -/

/-- **`get_unrepresentable_characters` = the listed characters that cannot be encoded**; in particular it is non-empty iff
    one exists — for every codec that raises only Unicode errors on these texts and encodes a concatenation only if it
    encodes every piece -/
theorem unrepresentable_iff (encode : List Nat → Enc) (chars : List (List Nat))
    (hno : ∀ c ∈ chars, encode c = .ok ∨ encode c = .encodeError false)
    (hj : encode chars.flatten ≠ .crash)
    (hpieces : encode chars.flatten = .ok → ∀ c ∈ chars, encode c = .ok) :
    getUnrepresentable encode chars = .ok (chars.filter fun c => encode c != .ok) ∧
    ((chars.filter fun c => encode c != .ok) ≠ [] ↔ ∃ c ∈ chars, encode c ≠ .ok) := by
  refine ⟨getUnrepresentable_spec encode chars hno hj hpieces, ?_⟩
  obtain ⟨r, hr, hiff⟩ := Charset.unrepresentable_iff encode chars hno hj hpieces
  rw [getUnrepresentable_spec encode chars hno hj hpieces] at hr
  cases hr
  exact hiff

/-- **the tag**: `check_headers` reports `unrepresentable-characters` iff some listed non-optional character cannot be
    encoded in the charset it keeps (the declared one, or the portable replacement), and lists exactly those -/
theorem check_unrepresentable_iff (env : Env) (encoding : Name) (isTemplate : Bool) (chars : List (List Nat))
    (tags : List Tag) (kept : Name)
    (h : checkCharset env encoding isTemplate (some (some chars)) = .ok (tags, some kept))
    (hk : EncodeOk (env.encode kept) chars) :
    (tags.any Tag.isUnrep = true ↔ ∃ c ∈ chars, env.encode kept c ≠ .ok) ∧
    (∀ e cs, Tag.unrepresentable e cs ∈ tags →
      e = kept ∧ cs = truncateChars (chars.filter fun c => env.encode kept c != .ok)) :=
  checkCharset_unrepresentable_iff env encoding isTemplate chars tags kept h hk

/-- **the hypothesis `EncodeOk` is a theorem for the extra codecs as modelled** (every charmap table, EUC-TW over any CNS tables): only
    Unicode errors, and a concatenation encodes only if every piece does — so for them `unrepresentable_iff` and
    `check_unrepresentable_iff` hold without side condition: the characters reported are exactly the listed ones with a character
    outside the table -/
theorem extra_codecs_encode_ok (chars : List (List Nat)) :
    (∀ table, EncodeOk (encOfExcept (charmapEncode table)) chars) ∧
    (∀ inv, EncodeOk (encOfExcept (eucTwEncode inv)) chars) ∧
    (∀ table, getUnrepresentable (encOfExcept (charmapEncode table)) chars =
      .ok (chars.filter fun c => encOfExcept (charmapEncode table) c != .ok)) ∧
    getUnrepresentable (encOfExcept eucTwEncodeReal) chars = .ok (chars.filter fun c => encOfExcept eucTwEncodeReal c != .ok) := by
  refine ⟨fun t => encodeOk_charmap t chars, fun inv => encodeOk_eucTw inv chars, fun t => ?_, ?_⟩
  · have h := encodeOk_charmap t chars
    exact getUnrepresentable_spec _ chars h.pieces h.joined h.prefixClosed
  · have h := encodeOk_eucTw invReal chars
    exact getUnrepresentable_spec _ chars h.pieces h.joined h.prefixClosed

/-- **the other tags**, for every name and environment: `unknown-encoding` iff no usable codec (and the name is not the
    template's CHARSET), `non-ascii-compatible-encoding` iff the repertoire does not decode to itself,
    `non-portable-encoding` iff ASCII-compatible and not portable, a proposal is portable and is the charset kept -/
theorem check_classification (env : Env) (encoding : Name) (isTemplate : Bool)
    (characters : Option (Option (List (List Nat)))) (tags : List Tag) (kept : Option Name)
    (h : checkCharset env encoding isTemplate characters = .ok (tags, kept)) :
    (tags.any Tag.isUnknown = true ↔
      (isAsciiCompatible env.interestingStr (env.dec encoding) false = .error () ∧ encoding ≠ charsetLiteral)) ∧
    (tags.any Tag.isBoilerplate = true ↔
      (isAsciiCompatible env.interestingStr (env.dec encoding) false = .error () ∧ encoding = charsetLiteral ∧ isTemplate = false)) ∧
    (tags.any Tag.isNonAscii = true ↔ isAsciiCompatible env.interestingStr (env.dec encoding) false = .ok false) ∧
    (tags.any Tag.isNonPortable = true ↔
      (isAsciiCompatible env.interestingStr (env.dec encoding) false = .ok true ∧ isPortable env.tbl true encoding = false)) ∧
    (kept = none ↔ isAsciiCompatible env.interestingStr (env.dec encoding) false = .error ()) ∧
    (∀ e p, Tag.nonPortable e (some p) ∈ tags → e = encoding ∧ isPortable env.tbl true p = true ∧ kept = some p) :=
  checkCharset_classification env encoding isTemplate characters tags kept h

/-- the fragment never crashes when the codec behaves (with the loaded tables the `assert` cannot fire) -/
theorem check_total (env : Env) (encoding : Name) (isTemplate : Bool) (characters : Option (Option (List (List Nat))))
    (htbl : env.tbl = portableEncodings) (hc2e : env.c2e = pycodecToEncoding)
    (henc : ∀ enc chars, characters = some (some chars) → EncodeOk (env.encode enc) chars) :
    ∃ r, checkCharset env encoding isTemplate characters = .ok r := by
  apply checkCharset_total env encoding isTemplate characters _ henc
  rw [htbl, hc2e]
  have := c2e_portable
  rw [List.all_eq_true] at this
  exact this

/-! ## Non-vacuity -/

private def str (s : String) : List Nat := s.toList.map Char.toNat

/-- `propose_portable_encoding('windows-1250')` = `'CP1250'` (the registry calls both `cp1250`) -/
example : propose portableEncodings pycodecToEncoding (fun _ => some (str "cp1250")) (str "windows-1250") = .ok (some (str "CP1250")) := by
  decide +kernel
example : isPortable portableEncodings true (str "ISO_8859-2") = true ∧ isPortable portableEncodings true (str "KOI8-T") = false ∧
    isPortable portableEncodings false (str "KOI8-T") = true ∧ isPortable portableEncodings false (str "ISO-8859-16") = false := by
  decide +kernel
/-- VISCII reuses six control positions (here 0x02 ↦ U+1EB2), which is why the repertoire is not all of ASCII -/
example : charmapDecode charmap_VISCII [0x02, 0x41, 0xFF] = .ok [0x1EB2, 0x41, 0x1EEE] ∧
    charmapEncode charmap_VISCII [0x1EB2, 0x41, 0x1EEE] = .ok [0x02, 0x41, 0xFF] := by decide +kernel
/-- an encode error covers the whole run of unencodable characters: `'a€€b€'.encode('VISCII')` fails at 1..3 -/
example : charmapEncode charmap_VISCII [0x61, 0x20AC, 0x20AC, 0x62, 0x20AC] = .error (1, 3) := by decide +kernel
/-- glibc's KOI8-T rejects byte 0x88: a decode error with a valid span does occur -/
example : charmapDecode koi8tTable [0x41, 0x88] = .error (1, 2) := by decide +kernel

/-- tables holding just the dumped facts agree with the system iconv (so `euctw_roundtrip_refuted` is not vacuous), and the
    canonical unit `8E A2 A4 A1` round-trips under them -/
private def demoCns : CnsTable := fun p r c =>
  (eucTwDecodeFacts.find? fun f => f.1 == (if p = 1 then [r, c] else [0x8E, 0xA0 + p, r, c]) || (p = 1 && f.1 == [0x8E, 0xA1, r, c])).map (·.2)
private def demoInv : CnsInverse := fun ch =>
  match (eucTwEncodeFacts.find? (·.1 == ch)).map (·.2) with
  | some [r, c] => some (1, r, c)
  | some [_, p, r, c] => some (p - 0xA0, r, c)
  | _ => none
example : (eucTwDecodeFacts.all fun f => eucTwDecode demoCns (toBytes f.1) == .ok [f.2]) = true ∧
    (eucTwEncodeFacts.all fun f => eucTwEncode demoInv [f.1] == .ok (toBytes f.2)) = true := by decide +kernel
example : eucTwCanonical demoCns demoInv 4 [0x8E, 0xA2, 0xA4, 0xA1] = true ∧ eucTwCanonical demoCns demoInv 4 [0x8E, 0xA1, 0xA4, 0xA1] = false ∧
    eucTwDecode demoCns [0x41, 0xA4] = .error (1, true) ∧ eucTwDecode demoCns [0x41, 0xFF, 0x42] = .error (1, false) := by decide +kernel

/-- the real tables: `A4 A1` is U+FF10; the four-byte form of plane 1 and `8E A3 A1 B8` are the redundant units; errors carry the
    offset and whether the unit is merely incomplete; plane bytes above `B0` and planes iconv has no table for are illegal -/
example : eucTwDecodeReal [0xA4, 0xA1, 0x41] = .ok [0xFF10, 0x41] ∧ eucTwDecodeReal [0x41, 0xA4] = .error (1, true) ∧
    eucTwDecodeReal [0x8E, 0xA8, 0xA1, 0xA1] = .error (0, false) ∧ eucTwDecodeReal [0x41, 0x8E, 0xB1, 0xA1, 0xA1] = .error (1, false) := by
  decide +kernel
example : eucTwNoRedundant cnsReal 4 [0x8E, 0xA2, 0xA4, 0xA1] = true ∧ eucTwNoRedundant cnsReal 4 [0x8E, 0xA1, 0xA4, 0xA1] = false ∧
    eucTwNoRedundant cnsReal 4 [0x8E, 0xA3, 0xA1, 0xB8] = false ∧ eucTwNoRedundant cnsReal 4 [0x8E, 0xA3, 0xA1, 0xB9] = true := by decide +kernel
example : eucTwEncodeReal [0x5344, 0x20AC] = .error 1 ∧ eucTwEncodeReal [0x5344, 0x5FE3] = .ok [0xA4, 0xBF, 0x8E, 0xA2, 0xA4, 0xA1] := by
  decide +kernel
/-- the tool's EUC-TW decode of `A4 A1 41` against the reference iconv: told 3, 6, 12 bytes (12, 24, 48 allocated) — E2BIG, E2BIG
    after one character, then both: three rounds are needed and suffice -/
example : (decodeDl (refDecStep (eucUnitFn cnsReal) [0xA4, 0xA1, 0x41]) [0xA4, 0xA1, 0x41] 3).2 = [⟨12, 3⟩, ⟨24, 6⟩, ⟨48, 12⟩] ∧
    (decodeDl (refDecStep (eucUnitFn cnsReal) [0xA4, 0xA1, 0x41]) [0xA4, 0xA1, 0x41] 2).1.finished = false := by decide +kernel
/-- the registry model: punctuation and case do not matter, a dot does; EUC-TW comes from the tool's search function -/
example : registry (nm "ISO_8859-1:1987") = some (nm "iso8859-1") ∧ registry (nm " Latin 1 ") = some (nm "iso8859-1") ∧
    registry (nm "euc tw") = some (nm "euc-tw") ∧ registry (nm "utf.8") = none ∧ registry (nm "aliases") = none := by decide +kernel
example : expectedDrop (some (nm "hz")) = [0x7E] ∧ expectedAdd (some (nm "viscii")) = [0x02, 0x05, 0x06, 0x14, 0x19, 0x1E] := by decide +kernel

/-- an iconv that needs 8 bytes of room for the two characters of `ab` -/
private def demoStep : Step := fun told =>
  if told < 8 then ⟨none, ⟨.e2big, 0, []⟩, ⟨.ok, 0, []⟩⟩
  else ⟨none, ⟨.ok, 2, [97, 0, 0, 0, 98, 0, 0, 0]⟩, ⟨.ok, 0, []⟩⟩

example : ConvertsTo demoStep 2 [97, 0, 0, 0, 98, 0, 0, 0] 8 where
  fits := by decide
  small := by intro told h; simp [demoStep, h, callBoth]
  big := by
    intro told h
    have : ¬ told < 8 := by omega
    simp [demoStep, this, callBoth]

/-- three rounds (told 2, 4, 8 of 8, 16, 32 allocated), then the text -/
example : (decodeDl demoStep [97, 98] 10).2 = [⟨8, 2⟩, ⟨16, 4⟩, ⟨32, 8⟩] := by decide +kernel
example : (decodeDl demoStep [97, 98] 10).1.finished = true := by decide +kernel

/-- an iconv that stops at the second byte: UnicodeDecodeError(1, 3) for `a\xff\xfeb` (resynchronised on the ASCII `b`) -/
private def badStep : Step := fun told =>
  if told < 8 then ⟨none, ⟨.e2big, 0, []⟩, ⟨.ok, 0, []⟩⟩ else ⟨none, ⟨.eilseq, 1, [97, 0, 0, 0]⟩, ⟨.ok, 0, []⟩⟩
example : ((decodeDl badStep [97, 0xFF, 0xFE, 98] 10).2).length = 2 := by decide +kernel

/-- a codec that cannot encode `€`: exactly that character is reported -/
private def demoEnc : List Nat → Enc := fun t => if t.contains 0x20AC then .encodeError false else .ok
example : getUnrepresentable demoEnc [[0x61], [0x20AC], [0x62]] = .ok [[0x20AC]] := by decide +kernel
example : getCharacters false (str "a (b) c") = [[0x61], [0x63]] ∧ getCharacters true (str "a (b) c") = [[0x61], [0x62], [0x63]] := by
  decide +kernel
/-- more than five unrepresentable characters are cut to four and an ellipsis -/
example : truncateChars [[1], [2], [3], [4], [5], [6]] = [[1], [2], [3], [4], ellipsis] := by decide +kernel

end I18n.Props.C20
