import I18n.Model.Charset
namespace I18n.Props.C20
open I18n.Charset I18n.Generated.Charset

theorem stub : interestingStr.length = 105 := by decide

end I18n.Props.C20
