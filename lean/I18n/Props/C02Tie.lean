import I18n.Lemmas.TagsFmtGenerated
import I18n.Props.C02
/-!
# C02 — the tie: the output path REGENERATED from `lib/tags.py` is the model the theorems are about

`I18n.Generated.TagsFmt` is rewritten from the repository's current `lib/tags.py` (`_escape`, `safe_format`, `Tag.get_priority`,
`Tag.format`) by `tools/translate/tagsfmt2lean.py` on every run.  The theorems below prove, for ALL inputs, that each regenerated
definition computes the hand-written model function of `Model/Tags.lean` (`escape`, `safeFormat`, `priority`, `format`), so every
theorem of `Props/C02.lean` holds of the regenerated text; the headline ones are restated about the regenerated definitions.
`repr(str)`, `repr(bytes)`, `str(int)`, `str.format` and `_is_safe` are the model's primitives on both sides (tied to CPython by
the tags-escape / tags-safe-format streams and `is_safe_pin`).  A change of the source changes the generated definitions and these
proofs stop compiling, or the translator reports the construct as outside its subset — no test input is involved.
-/
namespace I18n.Props.C02Tie
open I18n I18n.Tags I18n.Spec I18n.Spec.Tags I18n.Generated

/-- `_escape(s)` as regenerated = `Tags.escape` (and it never raises) -/
theorem generated_escape_eq_model (db : UnicodeDB) (s : Extra) : TagsFmt._escape db s = .ok (escape db s) :=
  Gen.escape_eq db s

/-- `safe_format(template, *args, **kwargs)` as regenerated = `Tags.safeFormat` -/
theorem generated_safe_format_eq_model (db : UnicodeDB) (template : Str) (args : List Extra) (kwargs : List (Str × Extra)) :
    TagsFmt.safe_format db template args kwargs = safeFormat db template args kwargs :=
  Gen.safe_format_eq db template args kwargs

/-- `Tag.get_priority()` as regenerated = the letter of `Tags.priority`, as a one-character str -/
theorem generated_get_priority_eq_model (db : UnicodeDB) (t : Tag) :
    TagsFmt.Tag.get_priority db t = .ok [(priority t.severity t.certainty).code] :=
  Gen.get_priority_eq db t

/-- `Tag.format(target, *extra, color=color)` as regenerated = `Tags.format`; `colors` = what `get_colors()` answers -/
theorem generated_format_eq_model (db : UnicodeDB) (colors : Str × Str) (t : Tag) (target : Str) (extra : List Extra) (color : Bool) :
    TagsFmt.Tag.format db colors t target extra color = .ok (format db t target extra (if color then some colors else none)) :=
  Gen.format_eq db colors t target extra color

/-- the same with the model's optional colour pair -/
theorem generated_format_eq_model_colour (db : UnicodeDB) (t : Tag) (target : Str) (extra : List Extra) (colour : Option (Str × Str)) :
    TagsFmt.Tag.format db (colour.getD ([], [])) t target extra colour.isSome = .ok (format db t target extra colour) := by
  rw [generated_format_eq_model]; cases colour <;> rfl

/-! ### the headline theorems, about the regenerated functions -/

/-- **escape_clean**, of the regenerated `_escape`: no newline, ESC, C0/C1, DEL, format or separator character, or surrogate in the
    escape of any argument that is not a safestr -/
theorem escape_clean_generated {db : UnicodeDB} (h : Sound db) (x : Extra) (hx : x.escaped = true) :
    ∃ out, TagsFmt._escape db x = .ok out ∧ Clean db out :=
  ⟨_, generated_escape_eq_model db x, C02.escape_clean h x hx⟩

/-- **escape_token**, of the regenerated `_escape`: exactly one token -/
theorem escape_token_generated {db : UnicodeDB} (h : Sound db) (x : Extra) (hx : x.escaped = true) :
    ∃ out, TagsFmt._escape db x = .ok out ∧ Token db out :=
  ⟨_, generated_escape_eq_model db x, C02.escape_token h x hx⟩

/-- **format_grammar**, of the regenerated `Tag.format` without colour: `<letter>: <path>: <tag>[ <extra>…]` -/
theorem format_grammar_generated (db : UnicodeDB) (colors : Str × Str) (t : Tag) (p : Str) (xs : List Extra) :
    TagsFmt.Tag.format db colors t p xs false = .ok (lineOf t.priority.code p t.name (xs.map (escape db))) ∧
    (t.priority.toChar = 'E' ∨ t.priority.toChar = 'W' ∨ t.priority.toChar = 'I' ∨ t.priority.toChar = 'P') := by
  obtain ⟨h1, h2⟩ := C02.format_grammar db t p xs
  exact ⟨by rw [generated_format_eq_model]; simp only [Bool.false_eq_true, if_false]; rw [h1], h2⟩

/-- **colour_strip**, of the regenerated `Tag.format` -/
theorem colour_strip_generated (db : UnicodeDB) (t : Tag) (p : Str) (xs : List Extra) (on off : Str) :
    ∃ pre post : Str,
      TagsFmt.Tag.format db (on, off) t p xs true = .ok (pre ++ on ++ t.name ++ off ++ post) ∧
      TagsFmt.Tag.format db (on, off) t p xs false = .ok (pre ++ t.name ++ post) := by
  obtain ⟨pre, post, h1, h2⟩ := C02.colour_strip db t p xs on off
  exact ⟨pre, post, by rw [generated_format_eq_model]; simp only [if_true]; rw [h1],
    by rw [generated_format_eq_model]; simp only [Bool.false_eq_true, if_false]; rw [h2]⟩

/-- **line_clean**, of the regenerated `Tag.format` -/
theorem line_clean_generated {db : UnicodeDB} (h : Sound db) (colors : Str × Str) (t : Tag) (p : Str) (xs : List Extra)
    (hp : Clean db p) (hn : Clean db t.name) (hsafe : ∀ s, Extra.safe s ∈ xs → Clean db s) :
    ∃ out, TagsFmt.Tag.format db colors t p xs false = .ok out ∧ Clean db out :=
  ⟨_, by rw [generated_format_eq_model]; simp only [Bool.false_eq_true, if_false], C02.line_clean h t p xs hp hn hsafe⟩

/-- **safe_format_clean**, of the regenerated `safe_format` -/
theorem safe_format_clean_generated {db : UnicodeDB} (h : Sound db) (template : Str) (args : List Extra)
    (kwargs : List (Str × Extra)) (out : Str) (hout : TagsFmt.safe_format db template args kwargs = .ok out)
    (ht : Clean db template)
    (hargs : ∀ x ∈ args, x.escaped = false → Clean db (escape db x))
    (hkw : ∀ kv ∈ kwargs, kv.2.escaped = false → Clean db (escape db kv.2)) : Clean db out := by
  rw [generated_safe_format_eq_model] at hout
  exact C02.safe_format_clean h template args kwargs out hout ht hargs hkw

/-- **priority_monotone**, of the regenerated `Tag.get_priority` -/
theorem priority_monotone_generated (db : UnicodeDB) (t t' : Tag) (hs : t.severity.rank ≤ t'.severity.rank)
    (hc : t.certainty.rank ≤ t'.certainty.rank) :
    ∃ l l' : Letter, TagsFmt.Tag.get_priority db t = .ok [l.code] ∧ TagsFmt.Tag.get_priority db t' = .ok [l'.code] ∧ l.rank ≤ l'.rank :=
  ⟨_, _, generated_get_priority_eq_model db t, generated_get_priority_eq_model db t', C02.priority_monotone _ _ _ _ hs hc⟩

/-! Non-vacuity: the regenerated definitions are executable -/

example : TagsFmt.Tag.get_priority ⟨fun _ => true, fun _ => false⟩ ⟨lit "x", .important, .wildGuess⟩ = .ok (lit "W") := by rfl
example : TagsFmt._escape ⟨fun _ => true, fun _ => false⟩ (.str []) = .ok (lit "(empty string)") := by rfl

end I18n.Props.C02Tie
