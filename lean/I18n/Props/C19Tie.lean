import I18n.Lemmas.LingGenerated
import I18n.Lemmas.ChkLangGenerated
import I18n.Props.C19
/-!
# C19 — the tie by translation: `lib/ling.py` REGENERATED from the source is the model the theorems of C19 are about

`I18n.Generated.Ling` is rewritten from the repository's current `lib/ling.py` (class `Language`, `parse_language`, the two code look-ups)
by `tools/translate/linglang2lean.py` on every run.  The theorems below prove every regenerated definition equal, for ALL inputs, to the
hand-written model (`Locale.parseLanguageE`, `fixCodes`, `removeEncoding`, `removeNonlinguisticModifier`, `removePrincipalTerritory`,
`isAlmostEqual`, `Language.str`, `lookupLanguage`, `lookupTerritory`) and restate the headline theorems of clauses 1 and 2 of C19 about the
regenerated definitions.  Shared by both sides (trusted, see `DESIGN-notes/locale.md`): the scanner standing for `_language_regexp.match`
(`Locale.Py.languageMatch`, tied to the live regex tree by `C19.regex_pin` / `parse_iff_grammar`), `str.upper` on ASCII, the dumped tables.
A method that assigns attributes returns `(result, object afterwards)`; `None`-or-`True` results are `Option Bool` (`Py.noneOrTrue`).
-/
namespace I18n.Props.C19Tie
open I18n I18n.Locale I18n.Locale.Py I18n.Spec.LocaleRe I18n.Spec.Locale I18n.Generated

/-! ## the regenerated definitions are the model -/

/-- `parse_language(s)` as regenerated = `parseLanguageE` (result or `LanguageSyntaxError`) -/
theorem generated_parse_language_eq_model (s : List Char) : Ling.parse_language s = parseLanguageE s :=
  Gen.parse_language_eq s

/-- `Language(language_code, territory_code, encoding, modifier)` as regenerated: the four attributes, the encoding upper-cased -/
theorem generated_init_eq_model (a : List Char) (b c d : Option (List Char)) :
    Ling.Language.__init__ a b c d = .ok ⟨a, b, c.map upper, d⟩ :=
  Gen.init_eq a b c d

/-- `Language.fix_codes()` as regenerated = `fixCodes` (the object afterwards, `fixed`, or the exception) -/
theorem generated_fix_codes_eq_model (l : Language) :
    Ling.Language.fix_codes l = (fixCodes l).map (fun r => (noneOrTrue r.2, r.1)) :=
  Gen.fix_codes_eq l

/-- `Language.remove_encoding()` as regenerated = `removeEncoding` -/
theorem generated_remove_encoding_eq_model (l : Language) :
    Ling.Language.remove_encoding l = .ok (noneOrTrue (removeEncoding l).2, (removeEncoding l).1) :=
  Gen.remove_encoding_eq l

/-- `Language.remove_nonlinguistic_modifier()` as regenerated = `removeNonlinguisticModifier` -/
theorem generated_remove_nonlinguistic_modifier_eq_model (l : Language) :
    Ling.Language.remove_nonlinguistic_modifier l =
      .ok (noneOrTrue (removeNonlinguisticModifier l).2, (removeNonlinguisticModifier l).1) :=
  Gen.remove_nonlinguistic_modifier_eq l

/-- `Language.remove_principal_territory_code()` as regenerated = `removePrincipalTerritory` (`True` iff it changed the object) -/
theorem generated_remove_principal_territory_code_eq_model (l : Language) :
    Ling.Language.remove_principal_territory_code l =
      .ok (noneOrTrue (decide (removePrincipalTerritory l ≠ l)), removePrincipalTerritory l) :=
  Gen.remove_principal_eq l

/-- `a.is_almost_equal(b)` as regenerated = `isAlmostEqual a b` for objects the code constructs (every `Language` comes out of
    `__init__`, which upper-cases the encoding: `EncUpper`, preserved by every method — see below) -/
theorem generated_is_almost_equal_eq_model (a b : Language) (ha : EncUpper a) (hb : EncUpper b) :
    Ling.Language.is_almost_equal a b = .ok (isAlmostEqual a b) :=
  Gen.is_almost_equal_eq a b ha hb

/-- … and for arbitrary records: both operands go through `clone()` = the constructor, which upper-cases the encoding once more (the
    hand-written model left `clone()` out; on constructed objects it is the identity: `generated_clone_id`) -/
theorem generated_is_almost_equal_eq_model_general (a b : Language) :
    Ling.Language.is_almost_equal a b =
      .ok (isAlmostEqual { a with enc := a.enc.map upper } { b with enc := b.enc.map upper }) :=
  Gen.is_almost_equal_eq' a b

theorem generated_clone_id (l : Language) (h : EncUpper l) : Ling.Language.clone l = .ok l := Gen.clone_id l h

/-- `str(language)` as regenerated = `Language.str` -/
theorem generated_str_eq_model (l : Language) : Ling.Language.__str__ l = .ok l.str := Gen.str_eq l

/-- `a == b`, `a != b` as regenerated = structural (in)equality of the four attributes -/
theorem generated_eq_eq_model (a b : Language) : Ling.Language.__eq__ a b = .ok (a == b) ∧ Ling.Language.__ne__ a b = .ok (a != b) :=
  ⟨Gen.eq_eq a b, Gen.ne_eq a b⟩

/-- `_lookup_language_code`, `lookup_territory_code` as regenerated = the model's look-ups in the dumped tables -/
theorem generated_lookups_eq_model (k : List Char) :
    Ling._lookup_language_code k = .ok (lookupLanguage k) ∧ Ling.lookup_territory_code k = .ok (lookupTerritory k) :=
  ⟨Gen.lookup_language_eq k, Gen.lookup_territory_eq k⟩

/-- the invariant `EncUpper` holds of everything the constructor, the parser and the mutating methods produce -/
theorem enc_upper_invariant (s : List Char) (l l' : Language) (f : Bool) :
    (parseLanguageE s = .ok l → EncUpper l) ∧ (EncUpper l → fixCodes l = .ok (l', f) → EncUpper l')
      ∧ (EncUpper l → EncUpper (removeEncoding l).1) ∧ (EncUpper l → EncUpper (removeNonlinguisticModifier l).1)
      ∧ (EncUpper l → EncUpper (removePrincipalTerritory l)) := by
  refine ⟨Gen.parse_language_encUpper s l, Gen.fix_codes_encUpper l l' f, ?_, ?_, Gen.remove_principal_encUpper l⟩
  · intro h; unfold removeEncoding; cases he : l.enc <;> simp [EncUpper, he] at * <;> exact h
  · intro h; unfold removeNonlinguisticModifier; split <;> exact h

/-! ## Clause 1 of C19, of the regenerated `parse_language` / `__str__` -/

/-- `parse_language(s)` (regenerated) succeeds iff `_language_regexp.match(s)` does iff `s` is `ll[_CC][.encoding][@modifier]`; everything
    else raises `LanguageSyntaxError` and nothing else -/
theorem parse_iff_locale_name_generated (s : List Char) :
    ((∃ l, Ling.parse_language s = .ok l) ↔ IsLocaleName s)
      ∧ ((∃ l, Ling.parse_language s = .ok l) ↔ Matches Generated.Locale.languageRegexp s)
      ∧ (∀ e, Ling.parse_language s = .error e → e = .syntax) := by
  rw [generated_parse_language_eq_model]
  have hk : (∃ l, parseLanguageE s = .ok l) ↔ (parseLanguage s).isSome := by
    unfold parseLanguageE
    cases parseLanguage s <;> simp
  refine ⟨hk.trans (C19.parse_iff_locale_name s), hk.trans (C19.parse_iff_grammar s), ?_⟩
  intro e h; exact (C19.leaf_error_kinds s default e).1 h

/-- printing a parsed name gives the name back up to the case of the encoding — of the regenerated `parse_language` and `__str__` -/
theorem print_parse_generated (s t : List Char) (l : Language) (h : Ling.parse_language s = .ok l) (ht : Ling.Language.__str__ l = .ok t) :
    ∃ p : Parts, p.WF ∧ s = p.render ∧ t = { p with enc := p.enc.map (List.map asciiUpper) }.render := by
  rw [generated_parse_language_eq_model] at h
  rw [generated_str_eq_model] at ht
  cases ht
  have h' : parseLanguage s = some l := by
    unfold parseLanguageE at h; cases hp : parseLanguage s <;> simp [hp] at h; rw [h]
  exact C19.print_parse s l h'

/-- … exactly the name when no encoding is written -/
theorem print_parse_exact_generated (s : List Char) (l : Language) (h : Ling.parse_language s = .ok l) (he : l.enc = none) :
    Ling.Language.__str__ l = .ok s := by
  rw [generated_parse_language_eq_model] at h
  rw [generated_str_eq_model]
  have h' : parseLanguage s = some l := by
    unfold parseLanguageE at h; cases hp : parseLanguage s <;> simp [hp] at h; rw [h]
  rw [C19.print_parse_exact s l h' he]

/-- parse ∘ str ∘ parse = parse, of the regenerated definitions -/
theorem parse_str_parse_generated (s : List Char) (l : Language) (h : Ling.parse_language s = .ok l) :
    ∃ t, Ling.Language.__str__ l = .ok t ∧ Ling.parse_language t = .ok l := by
  rw [generated_parse_language_eq_model] at h
  refine ⟨l.str, generated_str_eq_model l, ?_⟩
  rw [generated_parse_language_eq_model]
  have h' : parseLanguage s = some l := by
    unfold parseLanguageE at h; cases hp : parseLanguage s <;> simp [hp] at h; rw [h]
  unfold parseLanguageE
  rw [C19.parse_str_parse s l h']

/-! ## Clause 2 of C19, of the regenerated `fix_codes` -/

/-- `fix_codes()` (regenerated): succeeds iff the language code is in the ISO 639 table and the territory code (if any) in the ISO 3166
    table; replaces the language code by its canonical form, returns `True` iff that changed it (else `None`), changes nothing else;
    otherwise `FixingLanguageCodesFailed` -/
theorem fix_codes_spec_generated (l : Language) :
    Ling.Language.fix_codes l =
      match lookupLanguage l.ll with
      | none => .error .fixingCodes
      | some v =>
        if (∀ c, l.cc = some c → c ∈ Generated.Locale.iso3166) then .ok (noneOrTrue (v != l.ll), { l with ll := v })
        else .error .fixingCodes := by
  rw [generated_fix_codes_eq_model, C19.fix_codes_spec]
  cases lookupLanguage l.ll with
  | none => rfl
  | some v => simp only []; split <;> rfl

/-- the canonical form is the code itself or the two-letter equivalent of a three-letter code; `True` iff the code changed -/
theorem fix_codes_three_to_two_generated (l l' : Language) (r : Option Bool) (h : Ling.Language.fix_codes l = .ok (r, l')) :
    l'.cc = l.cc ∧ l'.enc = l.enc ∧ l'.mod = l.mod ∧ (l'.ll = l.ll ∨ (l.ll.length = 3 ∧ l'.ll.length = 2)) ∧ (r = some true ↔ l'.ll ≠ l.ll)
      ∧ (r = none ↔ l'.ll = l.ll) := by
  rw [generated_fix_codes_eq_model] at h
  cases hf : fixCodes l with
  | error e => simp [hf, Except.map] at h
  | ok v =>
    obtain ⟨l2, f⟩ := v
    simp [hf, Except.map] at h
    obtain ⟨rfl, rfl⟩ := h
    obtain ⟨h1, h2, h3, h4, h5⟩ := C19.fix_codes_three_to_two l l2 f hf
    refine ⟨h1, h2, h3, h4, ?_, ?_⟩
    · rw [← h5]; cases f <;> simp [noneOrTrue]
    · have : (f = false ↔ l2.ll = l.ll) := by
        cases f <;> simp_all
      rw [← this]; cases f <;> simp [noneOrTrue]

/-- `fix_codes` (regenerated) is idempotent: a second call succeeds, changes nothing, returns `None` -/
theorem fix_codes_idempotent_generated (l l' : Language) (r : Option Bool) (h : Ling.Language.fix_codes l = .ok (r, l')) :
    Ling.Language.fix_codes l' = .ok (none, l') := by
  rw [generated_fix_codes_eq_model] at h ⊢
  cases hf : fixCodes l with
  | error e => simp [hf, Except.map] at h
  | ok v =>
    obtain ⟨l2, f⟩ := v
    simp [hf, Except.map] at h
    obtain ⟨_, rfl⟩ := h
    rw [C19.fix_codes_idempotent l l2 f hf]
    rfl

/-- unknown codes are rejected, with `FixingLanguageCodesFailed` and nothing else (the bare `ValueError` is unreachable) -/
theorem fix_codes_rejects_generated (l : Language) :
    ((∃ e, Ling.Language.fix_codes l = .error e) ↔ (lookupLanguage l.ll = none ∨ ∃ c, l.cc = some c ∧ c ∉ Generated.Locale.iso3166))
      ∧ (∀ e, Ling.Language.fix_codes l = .error e → e = .fixingCodes) := by
  rw [generated_fix_codes_eq_model]
  constructor
  · rw [← C19.fix_codes_rejects]
    cases fixCodes l <;> simp [Except.map]
  · intro e h
    cases hf : fixCodes l with
    | ok v => simp [hf, Except.map] at h
    | error e' =>
      simp [hf, Except.map] at h
      subst h
      exact (C19.leaf_error_kinds [] l e').2.1 hf

/-! ## "compared consistently", of the regenerated `is_almost_equal` -/

/-- `is_almost_equal` (regenerated) never raises, and on constructed objects it is an equivalence relation that contains equality -/
theorem almost_equal_equivalence_generated (a b c : Language) (ha : EncUpper a) (hb : EncUpper b) (hc : EncUpper c) :
    Ling.Language.is_almost_equal a a = .ok true
      ∧ Ling.Language.is_almost_equal a b = Ling.Language.is_almost_equal b a
      ∧ (Ling.Language.is_almost_equal a b = .ok true → Ling.Language.is_almost_equal b c = .ok true → Ling.Language.is_almost_equal a c = .ok true)
      ∧ (a = b → Ling.Language.is_almost_equal a b = .ok true) := by
  simp only [generated_is_almost_equal_eq_model, ha, hb, hc]
  obtain ⟨h1, h2, h3, h4⟩ := C19.almost_equal_equivalence a b c
  refine ⟨by rw [h1], by rw [h2], ?_, ?_⟩
  · intro x y
    have x' : isAlmostEqual a b = true := by injection x
    have y' : isAlmostEqual b c = true := by injection y
    rw [h3 x' y']
  · intro e; rw [h4 e]

/-! ## the path-derived part of `Checker.check_language` REGENERATED from `lib/check/__init__.py` (tools/translate/chklang2lean.py) -/

/-- the statements of `check_language` from `language = self.options.language` up to the first `if meta_language:` — the `-l` option, the
    component before `LC_MESSAGES`, the base name of a `.po` file — as regenerated (calling the regenerated `Language` methods) = the
    model's `stagePath`: (language, language_source, language_source_quality) or the escaping exception, for ALL option values and paths -/
theorem generated_path_language_eq_model (opt : Option Language) (path : List Char) :
    ChkLang.path_language opt path = Gen.ofStage (stagePath opt path) :=
  Gen.path_language_eq opt path

/-- the `-l` option wins: with an option value the path is not looked at -/
theorem path_language_option_generated (l : Language) (path : List Char) :
    ChkLang.path_language (some l) path = .ok (some l, "command-line".toList, 1) := by
  rw [generated_path_language_eq_model]; rfl

/-! Non-vacuity -/

example : Ling.parse_language "de_AT.utf-8@euro".toList = .ok ⟨"de".toList, some "AT".toList, some "UTF-8".toList, some "euro".toList⟩ := by rfl
example : Ling.parse_language "pl\n".toList = .error .syntax := by rfl
example : Ling.Language.__str__ ⟨"de".toList, some "AT".toList, some "UTF-8".toList, some "euro".toList⟩ = .ok "de_AT.UTF-8@euro".toList := by rfl
example : Ling.Language.remove_nonlinguistic_modifier ⟨"de".toList, none, none, some "euro".toList⟩ = .ok (some true, ⟨"de".toList, none, none, none⟩) := by rfl
example : Ling.Language.remove_encoding ⟨"de".toList, none, none, none⟩ = .ok (none, ⟨"de".toList, none, none, none⟩) := by rfl
example : Ling.Language.is_almost_equal ⟨"pl".toList, some "PL".toList, none, none⟩ ⟨"pl".toList, none, none, none⟩ = .ok true := by
  rw [generated_is_almost_equal_eq_model _ _ (by rfl) (by rfl)]; rfl
example : (Ling.Language.fix_codes ⟨"pol".toList, some "PL".toList, none, none⟩).toOption = some (some true, ⟨"pl".toList, some "PL".toList, none, none⟩) := by
  rw [generated_fix_codes_eq_model]; decide +kernel

end I18n.Props.C19Tie
