import I18n.Lemmas.GettextDateGenerated
import I18n.Lemmas.CheckDatesGenerated
import I18n.Props.C18
/-!
# C18 — the tie by translation: `fix_date_format` / `parse_date` REGENERATED from `lib/gettext.py` are the model

`I18n.Generated.GettextDate` is rewritten from the repository's current `lib/gettext.py` (`fix_date_format`, `parse_date`) by
`tools/translate/gettextdate2lean.py` on every run.  The theorems below prove both regenerated definitions equal, for ALL strings and
hints, to the hand-written model (`Date.fix`, `Date.parseCanon`) — results AND exception classes — and restate the headline theorems of
C18 about `fix_date_format` (canonical, idempotent, preserving, complete, exact rejection classes, NoCrash of the assertion) about the
regenerated definition.  Shared by both sides (trusted, see `DESIGN-notes/date.md`): the scanner standing for `_parse_date` and the
boilerplate search (tied to the live `sre_parse` trees by `C18.parse_date_regex`, `parseDate_is_regex`, `boilerplate_regex`,
`regex_groups`), the calendar primitive `parseCanon` standing for `strptime(…, '%Y-%m-%d %H:%M%z')` (`C18.parse_canon_iff`), `str.strip`,
the dumped `_timezones`.  `check_dates` (lib/check/__init__.py) remains hand-modelled and tied by the `date-check` / `date-file` streams.
-/
namespace I18n.Props.C18Tie
open I18n I18n.Date I18n.Date.Py I18n.Spec.Date I18n.Spec.DateRe I18n.Generated

/-! ## the regenerated definitions are the model -/

/-- `fix_date_format(s, tz_hint=hint)` as regenerated = `Date.fix s hint`: the normal form, or `DateSyntaxError` / `BoilerplateDate` /
    `ValueError` (malformed hint) / `AssertionError` exactly where the model has `syntaxErr` / `boilerplate` / `hintErr` / `assertErr` -/
theorem generated_fix_date_format_eq_model (s : List Char) (hint : Option (List Char)) :
    GettextDate.fix_date_format s hint = ofOutcome (fix s hint) :=
  Gen.fix_date_format_eq s hint

/-- `parse_date(s)` as regenerated = the calendar primitive `parseCanon`, `ValueError` re-raised as `DateSyntaxError` -/
theorem generated_parse_date_eq_model (s : List Char) :
    GettextDate.parse_date s = (match parseCanon s with | some t => .ok t | none => .error .syntax) :=
  Gen.parse_date_eq s

theorem generated_ok_iff (s : List Char) (hint : Option (List Char)) (t : List Char) :
    GettextDate.fix_date_format s hint = .ok t ↔ fix s hint = .ok t := by
  rw [generated_fix_date_format_eq_model]
  cases fix s hint <;> simp [ofOutcome]

/-! ## the headline theorems of C18, of the regenerated `fix_date_format` -/

/-- **fix_canonical**: an accepted date is returned as `YYYY-MM-DD hh:mm+ZZzz` denoting an existing calendar instant -/
theorem fix_canonical_generated {s : List Char} {hint : Option (List Char)} {t : List Char}
    (h : GettextDate.fix_date_format s hint = .ok t) : Canonical t :=
  C18.fix_canonical ((generated_ok_iff s hint t).mp h)

/-- **fix_idempotent**: the result is a fixed point, with no hint, the same hint, or any well-formed hint -/
theorem fix_idempotent_generated {s : List Char} {hint : Option (List Char)} {t : List Char}
    (h : GettextDate.fix_date_format s hint = .ok t) :
    GettextDate.fix_date_format t none = .ok t ∧ GettextDate.fix_date_format t hint = .ok t
      ∧ ∀ hint', (∀ x, hint' = some x → HintOk x) → GettextDate.fix_date_format t hint' = .ok t := by
  obtain ⟨h1, h2, h3⟩ := C18.fix_idempotent ((generated_ok_iff s hint t).mp h)
  exact ⟨(generated_ok_iff _ _ _).mpr h1, (generated_ok_iff _ _ _).mpr h2, fun h' hh => (generated_ok_iff _ _ _).mpr (h3 h' hh)⟩

/-- **fix_preserves**: the result keeps the written date and `hh:mm` and carries the written numeric offset, or the unique offset of
    the written abbreviation, or — nothing being written — the hint -/
theorem fix_preserves_generated {s : List Char} {hint : Option (List Char)} {t : List Char}
    (h : GettextDate.fix_date_format s hint = .ok t) :
    ∃ date time z zone, Written (strip s) date time z ∧ ZoneResolves z hint zone ∧ t = date ++ ' ' :: time ++ zone :=
  C18.fix_preserves ((generated_ok_iff s hint t).mp h)

/-- **fix_accepts** (completeness): every header value the specification normalises is accepted, with that result -/
theorem fix_accepts_generated {s : List Char} {hint : Option (List Char)} {t : List Char} (h : Normalises (strip s) hint t) :
    GettextDate.fix_date_format s hint = .ok t :=
  (generated_ok_iff s hint t).mpr (C18.fix_accepts h)

/-- **fix_rejects**: the outcome of the regenerated function is classified exactly — the normal form iff the specification
    normalises the value; `BoilerplateDate` iff a placeholder is present; `ValueError` iff no placeholder and a malformed hint
    (caller error); plain `DateSyntaxError` iff otherwise; and NOTHING else: no `AssertionError` (the `len(s) == 21` assertion never
    fails), no `KeyError` from the table, and the kit is never used outside its domain -/
theorem fix_rejects_generated (s : List Char) (hint : Option (List Char)) :
    (∀ t, GettextDate.fix_date_format s hint = .ok t ↔ Normalises (strip s) hint t)
    ∧ (GettextDate.fix_date_format s hint = .error .boilerplate ↔ HasBoilerplate (strip s))
    ∧ (GettextDate.fix_date_format s hint = .error .valueError ↔ ¬ HasBoilerplate (strip s) ∧ ∃ x, hint = some x ∧ ¬ HintOk x)
    ∧ (GettextDate.fix_date_format s hint = .error .syntax ↔
        ¬ HasBoilerplate (strip s) ∧ (∀ x, hint = some x → HintOk x) ∧ ¬ ∃ t, Normalises (strip s) hint t)
    ∧ GettextDate.fix_date_format s hint ≠ .error .assertion
    ∧ GettextDate.fix_date_format s hint ≠ .error .keyError
    ∧ GettextDate.fix_date_format s hint ≠ .error .outsideKit := by
  obtain ⟨h1, h2, h3, h4, h5⟩ := C18.fix_rejects s hint
  rw [generated_fix_date_format_eq_model]
  refine ⟨fun t => ?_, ?_, ?_, ?_, ?_, ?_, ?_⟩
  · rw [← h1 t]; cases fix s hint <;> simp [ofOutcome]
  · rw [← h2]; cases fix s hint <;> simp [ofOutcome]
  · rw [← h3]; cases fix s hint <;> simp [ofOutcome]
  · rw [← h4]; cases fix s hint <;> simp [ofOutcome]
  · cases hf : fix s hint <;> simp [ofOutcome]; exact h5 hf
  · cases fix s hint <;> simp [ofOutcome]
  · cases fix s hint <;> simp [ofOutcome]

/-- with the hints the tool itself passes (none, or `-0000` for Publican) only the two date errors are possible -/
theorem fix_tool_outcomes_generated (date : List Char) (publican : Bool) :
    (∃ t, GettextDate.fix_date_format date (tzHint date publican) = .ok t)
      ∨ GettextDate.fix_date_format date (tzHint date publican) = .error .syntax
      ∨ GettextDate.fix_date_format date (tzHint date publican) = .error .boilerplate := by
  rw [generated_fix_date_format_eq_model]
  rcases C18.fix_tool_outcomes date publican with ⟨t, h⟩ | h | h <;> rw [h]
  · exact Or.inl ⟨t, rfl⟩
  · exact Or.inr (Or.inl rfl)
  · exact Or.inr (Or.inr rfl)

/-- `parse_date` (regenerated) accepts a text iff it is the canonical text of an existing instant, else `DateSyntaxError` -/
theorem parse_date_iff_generated (t : List Char) (st : Stamp) :
    (GettextDate.parse_date t = .ok st ↔ (st.toCivil.Exists ∧ t = render st.toCivil))
      ∧ (∀ e, GettextDate.parse_date t = .error e → e = .syntax) := by
  rw [generated_parse_date_eq_model]
  constructor
  · rw [← C18.parse_canon_iff]
    cases parseCanon t <;> simp
  · intro e h
    cases hp : parseCanon t <;> simp [hp] at h
    exact h.symm

/-- the second `parse_date(fixed_date)` of `check_dates` cannot fail: the result of the regenerated normaliser parses -/
theorem fixed_date_parses_generated {s : List Char} {hint : Option (List Char)} {t : List Char}
    (h : GettextDate.fix_date_format s hint = .ok t) : ∃ st, GettextDate.parse_date t = .ok st := by
  obtain ⟨c, hc, rfl⟩ := fix_canonical_generated h
  rw [generated_parse_date_eq_model, parseCanon_complete hc]
  exact ⟨_, rfl⟩

/-! ## `Checker.check_dates` REGENERATED from `lib/check/__init__.py` (tools/translate/checkdates2lean.py) -/

/-- `check_dates(ctx)` as regenerated (it calls the regenerated `fix_date_format` / `parse_date`) = the model's `checkDates`: the tags
    appended to the output in emission order; an exception escaping is the model's `none` -/
theorem generated_check_dates_eq_model (c : Ctx) (out : List Tag) :
    (CheckDates.check_dates out c).toOption = (checkDates c).map (out ++ ·) :=
  Gen.check_dates_eq c out

/-- **NoCrash**, of the regenerated method: no exception escapes `check_dates` (`IndexError` is caught, the `ValueError` of a malformed hint
    and the `AssertionError` cannot arise with the hints it passes, the second `parse_date` cannot fail), and what it returns is what the
    model returns -/
theorem check_dates_nocrash_generated (c : Ctx) : ∃ ts, CheckDates.check_dates [] c = .ok ts ∧ checkDates c = some ts := by
  have h := generated_check_dates_eq_model c []
  cases hm : checkDates c with
  | none => exact absurd hm (C18.NoCrash c)
  | some ts =>
    rw [hm] at h
    cases hg : CheckDates.check_dates [] c with
    | error e => rw [hg] at h; simp [Except.toOption] at h
    | ok ts' =>
      rw [hg] at h
      simp [Except.toOption] at h
      exact ⟨ts', rfl, by rw [h]⟩

/-- **check_dates_shape**, of the regenerated method: the whole output is, for POT-Creation-Date then PO-Revision-Date, the tags
    `C18.check_dates_shape` / `C18.date_tags_iff` characterise -/
theorem check_dates_shape_generated (c : Ctx) :
    CheckDates.check_dates [] c = .ok (fieldTags c .pot c.pot ++ fieldTags c .po c.po) := by
  obtain ⟨ts, h1, h2⟩ := check_dates_nocrash_generated c
  rw [C18.check_dates_shape] at h2
  cases h2
  exact h1

/-! Non-vacuity -/

example : GettextDate.fix_date_format "2020-01-01T10:00:59 CEST".toList none = .ok "2020-01-01 10:00+0200".toList := by
  rw [generated_fix_date_format_eq_model, show fix "2020-01-01T10:00:59 CEST".toList none = .ok "2020-01-01 10:00+0200".toList by decide]; rfl
example : GettextDate.fix_date_format " 2012-02-29\n23:59 UTC-00:30 ".toList none = .ok "2012-02-29 23:59-0030".toList := by
  rw [generated_fix_date_format_eq_model, show fix " 2012-02-29\n23:59 UTC-00:30 ".toList none = .ok "2012-02-29 23:59-0030".toList by decide]; rfl
example : GettextDate.fix_date_format "2013-02-29 10:00+0100".toList none = .error .syntax := by
  rw [generated_fix_date_format_eq_model, show fix "2013-02-29 10:00+0100".toList none = .syntaxErr by decide]; rfl
example : GettextDate.fix_date_format "YEAR-MO-DA HO:MI+ZONE".toList none = .error .boilerplate := by
  rw [generated_fix_date_format_eq_model, show fix "YEAR-MO-DA HO:MI+ZONE".toList none = .boilerplate by decide]; rfl
example : GettextDate.fix_date_format "2002-01-01T03:05".toList (some "Z".toList) = .error .valueError := by
  rw [generated_fix_date_format_eq_model, show fix "2002-01-01T03:05".toList (some "Z".toList) = .hintErr by decide]; rfl
example : GettextDate.fix_date_format "2002-01-01T03:05".toList (some "-0000".toList) = .ok "2002-01-01 03:05-0000".toList := by
  rw [generated_fix_date_format_eq_model, show fix "2002-01-01T03:05".toList (some "-0000".toList) = .ok "2002-01-01 03:05-0000".toList by decide]; rfl

end I18n.Props.C18Tie
