import I18n.Lemmas.IconvDlGenerated
import I18n.Lemmas.EncodingsFnGenerated
import I18n.Lemmas.LingFnGenerated
import I18n.Props.C20
/-!
# C20 — the tie by translation (first part): `lib/iconv.py` REGENERATED from the source is the model's loop

`I18n.Generated.IconvDl` is rewritten from the repository's current `lib/iconv.py` (`_decode_dl`, `_encode_dl`, `decode`, `encode`) by
`tools/translate/iconv2lean.py` on every run.  The theorems below prove the regenerated definitions equal — for ALL inputs, ALL
behaviours of iconv(3) (`Py.Iconv`: any outcome of `iconv_open`, any `Charset.Step`, any outcome of `iconv_close`), all amounts of
fuel and every state of the process at the call (`Py.World`) — to the hand-written loop model `decodeLoop` / `encodeLoop` /
`decodeDl` / `encodeDl` of `Model/Charset.lean`, and restate the iconv theorems of `Props/C20.lean` about the regenerated
definitions.  What is observed of a run (`Py.observe`): the value returned or the exception raised, and the log of (bytes
allocated behind the output pointer, count told in `outbytesleft`) of every conversion call.  The kit the generated code targets,
`Model/CharsetPy.lean`, states what each ctypes operation is taken to be (the trusted base of this tie).
-/
namespace I18n.Props.C20Tie
open I18n I18n.Charset I18n.Charset.Gen I18n.Generated

/-- the two names `_decode_dl` opens its descriptor with -/
abbrev wcharT : List Nat := Py.lit "WCHAR_T"
abbrev utf32le : List Nat := Py.lit "UTF-32LE"
abbrev strict : List Nat := Py.lit "strict"

/-! ## equality with the model -/

/-- the `while True:` loop of `_decode_dl` as regenerated = `decodeLoop`, started from any `output_len`, in any world -/
theorem generated_decode_loop_eq_model (cd : Py.Cd) (enc : List Nat) (input : List UInt8) (fuel L : Nat) (w : Py.World) :
    Py.observe (IconvDl._decode_dl_loop input cd enc input fuel (L : Int) w) =
      (Py.ofOutcome (decodeLoop cd.step input fuel L).1, w.trace ++ (decodeLoop cd.step input fuel L).2) :=
  decode_loop_eq cd enc input fuel L w

/-- the `while True:` loop of `_encode_dl` as regenerated = `encodeLoop` (on the UTF-32LE bytes of the input: `4 · len`) -/
theorem generated_encode_loop_eq_model (cd : Py.Cd) (enc : List Nat) (input : List Nat) (fuel L : Nat) (w : Py.World) :
    Py.observe (IconvDl._encode_dl_loop (Py.utf32le input) (Py.utf32le input) cd enc input fuel (L : Int) w) =
      (Py.ofOutcome (encodeLoop cd.step input.length fuel L).1, w.trace ++ (encodeLoop cd.step input.length fuel L).2) :=
  encode_loop_eq cd enc input _ _ (utf32le_length input) fuel L w

/-- `_decode_dl(input, encoding=enc)` as regenerated: `iconv_open(b'WCHAR_T', enc)` (failure: OSError, nothing allocated), the model's
    loop started at `output_len = len(input)`, `iconv_close` in `finally` (failure: OSError replaces the outcome) -/
theorem generated_decode_dl_eq_model (ic : Py.Iconv) (input : List UInt8) (enc : List Nat) (fuel : Nat) (w : Py.World) :
    Py.observe (IconvDl._decode_dl ic input enc fuel w) =
      (Py.ofOutcome (openClose (ic.openErrno wcharT enc) ic.closeErrno (decodeLoop (ic.step wcharT enc) input fuel input.length)).1,
       w.trace ++ (openClose (ic.openErrno wcharT enc) ic.closeErrno (decodeLoop (ic.step wcharT enc) input fuel input.length)).2) :=
  decode_dl_eq ic input enc fuel w

/-- `_encode_dl(input, encoding=enc)` as regenerated: `iconv_open(enc, b'UTF-32LE')`, the model's loop, `iconv_close` -/
theorem generated_encode_dl_eq_model (ic : Py.Iconv) (input : List Nat) (enc : List Nat) (fuel : Nat) (w : Py.World) :
    Py.observe (IconvDl._encode_dl ic input enc fuel w) =
      (Py.ofOutcome (openClose (ic.openErrno enc utf32le) ic.closeErrno (encodeLoop (ic.step enc utf32le) input.length fuel input.length)).1,
       w.trace ++ (openClose (ic.openErrno enc utf32le) ic.closeErrno (encodeLoop (ic.step enc utf32le) input.length fuel input.length)).2) :=
  encode_dl_eq ic input enc fuel w

/-- `iconv_open` and `iconv_close` succeed (what `decodeDl` / `encodeDl` of the model assume) -/
def OpensAndCloses (ic : Py.Iconv) (tocode fromcode : List Nat) : Prop :=
  ic.openErrno tocode fromcode = none ∧ ic.closeErrno = none

/-- **`lib.iconv.decode(input, enc)` as regenerated = `decodeDl`** (outcome and log), whenever open and close succeed -/
theorem generated_decode_eq_model (ic : Py.Iconv) (input : List UInt8) (enc : List Nat) (fuel : Nat) (w : Py.World)
    (h : OpensAndCloses ic wcharT enc) :
    Py.observe (IconvDl.decode ic input enc strict fuel w) =
      (Py.ofOutcome (decodeDl (ic.step wcharT enc) input fuel).1, w.trace ++ (decodeDl (ic.step wcharT enc) input fuel).2) := by
  rw [decode_eq, generated_decode_dl_eq_model, h.1, h.2]
  unfold decodeDl
  cases input <;> simp [openClose, Py.ofOutcome]

/-- **`lib.iconv.encode(input, enc)` as regenerated = `encodeDl`** on `len(input)` -/
theorem generated_encode_eq_model (ic : Py.Iconv) (input : List Nat) (enc : List Nat) (fuel : Nat) (w : Py.World)
    (h : OpensAndCloses ic enc utf32le) :
    Py.observe (IconvDl.encode ic input enc strict fuel w) =
      (Py.ofOutcome (encodeDl (ic.step enc utf32le) input.length fuel).1, w.trace ++ (encodeDl (ic.step enc utf32le) input.length fuel).2) := by
  rw [encode_eq, generated_encode_dl_eq_model, h.1, h.2]
  unfold encodeDl
  cases input <;> simp [openClose, Py.ofOutcome]

/-- an error handler other than `'strict'` is refused (non-empty input), before anything is opened -/
theorem generated_errors_not_strict (ic : Py.Iconv) (input : List UInt8) (enc errors : List Nat) (fuel : Nat) (w : Py.World)
    (hne : input ≠ []) (he : errors ≠ strict) :
    Py.observe (IconvDl.decode ic input enc errors fuel w) = (.error .notImplemented, w.trace) := by
  rw [decode_eq]
  cases input <;> simp_all

/-! ## the iconv theorems of `Props/C20.lean`, about the regenerated functions

`run.1` is the outcome, `run.2` the log of a call in a fresh world. -/

/-- a call of the regenerated `decode` / `encode` in a world with an empty log -/
abbrev decodeRun (ic : Py.Iconv) (input : List UInt8) (enc : List Nat) (fuel : Nat) :=
  Py.observe (IconvDl.decode ic input enc strict fuel Py.World.init)
abbrev encodeRun (ic : Py.Iconv) (input : List Nat) (enc : List Nat) (fuel : Nat) :=
  Py.observe (IconvDl.encode ic input enc strict fuel Py.World.init)

theorem decodeRun_eq (ic : Py.Iconv) (input : List UInt8) (enc : List Nat) (fuel : Nat) (h : OpensAndCloses ic wcharT enc) :
    decodeRun ic input enc fuel = (Py.ofOutcome (decodeDl (ic.step wcharT enc) input fuel).1, (decodeDl (ic.step wcharT enc) input fuel).2) := by
  simp [decodeRun, generated_decode_eq_model ic input enc fuel _ h, Py.World.init]

theorem encodeRun_eq (ic : Py.Iconv) (input : List Nat) (enc : List Nat) (fuel : Nat) (h : OpensAndCloses ic enc utf32le) :
    encodeRun ic input enc fuel = (Py.ofOutcome (encodeDl (ic.step enc utf32le) input.length fuel).1, (encodeDl (ic.step enc utf32le) input.length fuel).2) := by
  simp [encodeRun, generated_encode_eq_model ic input enc fuel _ h, Py.World.init]

/-- **(a) told ≤ allocated**, of the regenerated binding — no hypothesis on what iconv does in a round -/
theorem iconv_told_le_allocated_generated (ic : Py.Iconv) (input : List UInt8) (text : List Nat) (enc : List Nat) (fuel : Nat)
    (hd : OpensAndCloses ic wcharT enc) (he : OpensAndCloses ic enc utf32le) :
    (∀ a ∈ (decodeRun ic input enc fuel).2, a.told ≤ a.allocated ∧ a.allocated = 4 * a.told ∧ input.length ≤ a.told) ∧
    (∀ a ∈ (encodeRun ic text enc fuel).2, a.told ≤ a.allocated ∧ a.allocated = a.told ∧ text.length ≤ a.told) := by
  rw [decodeRun_eq ic input enc fuel hd, encodeRun_eq ic text enc fuel he]
  exact ⟨(C20.iconv_told_le_allocated _ input 0 fuel).1, (C20.iconv_told_le_allocated _ [] text.length fuel).2⟩

/-- (a) also holds when `iconv_open` / `iconv_close` fail: the log is then empty or that of the loop -/
theorem iconv_told_le_allocated_generated_any (ic : Py.Iconv) (input : List UInt8) (enc : List Nat) (fuel : Nat) (w : Py.World)
    (hw : w.trace = []) :
    ∀ a ∈ (Py.observe (IconvDl._decode_dl ic input enc fuel w)).2, a.told ≤ a.allocated ∧ a.allocated = 4 * a.told := by
  rw [generated_decode_dl_eq_model, hw]
  intro a ha
  have key : ∀ a ∈ (decodeLoop (ic.step wcharT enc) input fuel input.length).2, a.told ≤ a.allocated ∧ a.allocated = 4 * a.told := by
    intro a ha
    have := decodeLoop_alloc (ic.step wcharT enc) input fuel input.length a ha
    exact ⟨by omega, this.1⟩
  simp only [List.nil_append, openClose] at ha
  split at ha
  · simp at ha
  · split at ha
    · exact key a ha
    · split at ha <;> exact key a ha

/-- **the exact schedule**, of the regenerated binding: round `i` is told `len(input) · 2^i` -/
theorem iconv_loop_schedule_generated (ic : Py.Iconv) (input : List UInt8) (text : List Nat) (enc : List Nat) (fuel i : Nat) (a : Alloc)
    (hd : OpensAndCloses ic wcharT enc) (he : OpensAndCloses ic enc utf32le) :
    ((decodeRun ic input enc fuel).2[i]? = some a → a.told = input.length * 2 ^ i ∧ a.allocated = 4 * (input.length * 2 ^ i)) ∧
    ((encodeRun ic text enc fuel).2[i]? = some a → a.told = text.length * 2 ^ i ∧ a.allocated = text.length * 2 ^ i) := by
  rw [decodeRun_eq ic input enc fuel hd, encodeRun_eq ic text enc fuel he]
  exact ⟨(C20.iconv_loop_schedule _ input 0 fuel i a).1, (C20.iconv_loop_schedule _ [] text.length fuel i a).2⟩

/-- **(b) termination**, of the regenerated binding: against an iconv that stops answering E2BIG once told `need` bytes, the
    loop ends (the fuel is not what stops it) -/
theorem iconv_loop_terminates_generated (ic : Py.Iconv) (input : List UInt8) (enc : List Nat) (need fuel : Nat)
    (hd : OpensAndCloses ic wcharT enc) (hne : input ≠ [])
    (hb : ∀ told, need ≤ told → ((ic.step wcharT enc) told).reset = none →
      (callBoth input.length told ((ic.step wcharT enc) told)).rc ≠ .e2big)
    (hfuel : need < fuel) : (decodeRun ic input enc fuel).1 ≠ .error .outOfFuel := by
  rw [decodeRun_eq ic input enc fuel hd]
  have := C20.iconv_loop_terminates _ input need fuel hne hb hfuel
  revert this
  cases (decodeDl (ic.step wcharT enc) input fuel).1 <;> simp [Outcome.finished, Py.ofOutcome]

theorem iconv_encode_loop_terminates_generated (ic : Py.Iconv) (text : List Nat) (enc : List Nat) (need fuel : Nat)
    (he : OpensAndCloses ic enc utf32le) (hne : text ≠ [])
    (hb : ∀ told, need ≤ told → ((ic.step enc utf32le) told).reset = none →
      (callBoth (4 * text.length) told ((ic.step enc utf32le) told)).rc ≠ .e2big)
    (hfuel : need < fuel) : (encodeRun ic text enc fuel).1 ≠ .error .outOfFuel := by
  rw [encodeRun_eq ic text enc fuel he]
  have hn : text.length ≠ 0 := by cases text <;> simp_all
  have := C20.iconv_encode_loop_terminates _ text.length need fuel hn hb hfuel
  revert this
  cases (encodeDl (ic.step enc utf32le) text.length fuel).1 <;> simp [Outcome.finished, Py.ofOutcome]

/-- **(c) the result is what iconv produced**, of the regenerated binding -/
theorem iconv_loop_returns_produced_generated (ic : Py.Iconv) (input : List UInt8) (enc : List Nat) (produced : List UInt8) (need k fuel : Nat)
    (hd : OpensAndCloses ic wcharT enc) (hne : input ≠ []) (h : ConvertsTo (ic.step wcharT enc) input.length produced need)
    (h4 : produced.length = 4 * k) (hvalid : (wchars produced).any (· > 0x10FFFF) = false) (hfuel : need < fuel) :
    (decodeRun ic input enc fuel).1 = .ok (wchars produced) := by
  rw [decodeRun_eq ic input enc fuel hd, C20.iconv_loop_returns_produced _ input produced need k fuel hne h h4 hvalid hfuel]
  rfl

theorem iconv_encode_loop_returns_produced_generated (ic : Py.Iconv) (text : List Nat) (enc : List Nat) (produced : List UInt8) (need fuel : Nat)
    (he : OpensAndCloses ic enc utf32le) (hne : text ≠ []) (h : ConvertsTo (ic.step enc utf32le) (4 * text.length) produced need)
    (hfuel : need < fuel) : (encodeRun ic text enc fuel).1 = .ok produced := by
  have hn : text.length ≠ 0 := by cases text <;> simp_all
  rw [encodeRun_eq ic text enc fuel he, C20.iconv_encode_loop_returns_produced _ text.length produced need fuel hn h hfuel]
  rfl

/-- **(d) error spans**, of the regenerated binding: the UnicodeDecodeError / UnicodeEncodeError raised has `0 ≤ start < end ≤ len(input)` -/
theorem iconv_loop_error_span_generated (ic : Py.Iconv) (input : List UInt8) (text : List Nat) (enc : List Nat) (fuel : Nat) (s e : Int)
    (hd : OpensAndCloses ic wcharT enc) (he : OpensAndCloses ic enc utf32le) :
    ((∀ told, ((ic.step wcharT enc) told).reset = none →
        ((callBoth input.length told ((ic.step wcharT enc) told)).rc = .eilseq ∨ (callBoth input.length told ((ic.step wcharT enc) told)).rc = .einval) →
        1 ≤ (callBoth input.length told ((ic.step wcharT enc) told)).inLeft) →
      (decodeRun ic input enc fuel).1 = .error (.unicode s e) → 0 ≤ s ∧ s < e ∧ e ≤ input.length) ∧
    ((∀ told, ((ic.step enc utf32le) told).reset = none →
        ((callBoth (4 * text.length) told ((ic.step enc utf32le) told)).rc = .eilseq ∨ (callBoth (4 * text.length) told ((ic.step enc utf32le) told)).rc = .einval) →
        4 ≤ (callBoth (4 * text.length) told ((ic.step enc utf32le) told)).inLeft) →
      (encodeRun ic text enc fuel).1 = .error (.unicode s e) → 0 ≤ s ∧ s < e ∧ e ≤ text.length) := by
  rw [decodeRun_eq ic input enc fuel hd, encodeRun_eq ic text enc fuel he]
  constructor
  · intro hc h
    have key := (C20.iconv_loop_error_span (ic.step wcharT enc) input 0 fuel)
    revert h
    cases ho : (decodeDl (ic.step wcharT enc) input fuel).1 <;> simp [Py.ofOutcome]
    rename_i a b
    intro h1 h2
    have := (key a b).1 hc ho
    omega
  · intro hc h
    have key := (C20.iconv_loop_error_span (ic.step enc utf32le) [] text.length fuel)
    revert h
    cases ho : (encodeDl (ic.step enc utf32le) text.length fuel).1 <;> simp [Py.ofOutcome]
    rename_i a b
    intro h1 h2
    have := (key a b).2 hc ho
    omega

/-! ## Non-vacuity: the regenerated code runs -/

/-- a descriptor for one character that needs three bytes (U+20AC to UTF-8): `Lemmas/CharsetIconvSchedule.euroStep` -/
def euroIconv : Py.Iconv := ⟨fun _ _ => none, fun _ _ => euroStep, none⟩

/-- the regenerated `encode` is told 1, 2, 4 bytes and returns the three bytes -/
example : encodeRun euroIconv [0x20AC] (Py.lit "UTF-8") 3 = (.ok [0xE2, 0x82, 0xAC], [⟨1, 1⟩, ⟨2, 2⟩, ⟨4, 4⟩]) := by
  rw [encodeRun_eq _ _ _ _ ⟨rfl, rfl⟩]
  have := C20.non_doubling_loop_diverges.2.2
  exact Prod.ext (by rw [show ([0x20AC] : List Nat).length = 1 from rfl, show (euroIconv.step (Py.lit "UTF-8") utf32le) = euroStep from rfl, this.1]; rfl)
    (by rw [show ([0x20AC] : List Nat).length = 1 from rfl, show (euroIconv.step (Py.lit "UTF-8") utf32le) = euroStep from rfl, this.2.1])

/-- a failing `iconv_open` is an OSError with its errno -/
example (input : List UInt8) (enc : List Nat) (fuel : Nat) :
    Py.observe (IconvDl._decode_dl ⟨fun _ _ => some 22, fun _ _ => euroStep, none⟩ input enc fuel Py.World.init) = (.error (.os 22), []) := by
  rw [generated_decode_dl_eq_model]; rfl

/-! # Second part: `lib/encodings.py` REGENERATED from the source is the model's classification, loader decode and codec search

`I18n.Generated.EncodingsFn` is rewritten from the repository's current `lib/encodings.py` by `tools/translate/encodings2lean.py` on every
run: the constants `_interesting_ascii_bytes` / `_interesting_ascii_str` evaluated from their defining expressions, and
`is_portable_encoding`, `propose_portable_encoding`, `is_ascii_compatible_encoding`, `decode`, `charmap_encoding`, `iconv_encoding`,
`_codec_search_function` statement by statement.  The module's tables, the codec registry, `bytes.decode` and the charmap files are
parameters on both sides (`Model/EncodingsPy.lean`). -/

open I18n.Charset.EGen I18n.Generated.Charset

/-- **the repertoire, from the source text**: the defining expression of `_interesting_ascii_bytes` evaluates to the documented set
    (NUL EOT BEL BS HT LF VT FF CR ESC + printable ASCII) — the same list the table translator dumped from the loaded module -/
theorem generated_interesting_ascii_eq_model :
    EncodingsFn.interesting_ascii_bytes = interestingBytes ∧ EncodingsFn.interesting_ascii_str = interestingStr ∧
    EncodingsFn.interesting_ascii_bytes = [0, 4, 7, 8, 9, 10, 11, 12, 13, 27] ++ List.range' 32 95 := by
  decide

/-- `is_portable_encoding(encoding, python=…)` as regenerated = `isPortable`, for all tables -/
theorem generated_is_portable_encoding_eq_model (tbl : List (Name × Bool)) (encoding : Name) (python : Bool) :
    EncodingsFn.is_portable_encoding tbl encoding python = .ok (isPortable tbl python encoding) :=
  is_portable_eq tbl encoding python

/-- `propose_portable_encoding(encoding)` as regenerated = `propose`, for all tables and registries (`.error ()` of the model is the
    AssertionError) -/
theorem generated_propose_portable_encoding_eq_model (tbl : List (Name × Bool)) (c2e : List (Name × Name)) (registry : Name → Option Name)
    (encoding : Name) (python : Bool) :
    EncodingsFn.propose_portable_encoding tbl c2e registry encoding python =
      (match propose tbl c2e registry encoding with
       | .ok r => .ok r
       | .error () => .error .assertion) :=
  propose_eq tbl c2e registry encoding python

/-- `is_ascii_compatible_encoding(encoding, missing_ok=…)` as regenerated = `isAsciiCompatible` on the outcome of decoding the
    repertoire (`.error ()` of the model is EncodingLookupError) -/
theorem generated_is_ascii_compatible_encoding_eq_model (dec : List Nat → Name → Dec) (encoding : Name) (missingOk : Bool) :
    EncodingsFn.is_ascii_compatible_encoding dec encoding missingOk =
      (match isAsciiCompatible interestingStr (dec interestingBytes encoding) missingOk with
       | .ok b => .ok b
       | .error () => .error .encodingLookup) := by
  rw [is_ascii_eq, generated_interesting_ascii_eq_model.1, generated_interesting_ascii_eq_model.2.1]
  rfl

/-- `lib.encodings.decode(data, encoding)` as regenerated = `loaderDecode` -/
theorem generated_encodings_decode_eq_model (rawdec : List UInt8 → Name → RawDecode) (data : List UInt8) (encoding : Name) :
    EncodingsFn.decode rawdec data encoding = ofLoaded (loaderDecode data.length (rawdec data encoding)) :=
  decode_eq rawdec data encoding

/-- `charmap_encoding(encoding)` as regenerated: `data/charmaps/<ENCODING>` missing is EncodingLookupError; otherwise the codec decodes
    with the file's table AS IT IS (nothing prepended, nothing dropped) and encodes with `charmap_build` of that table -/
theorem generated_charmap_encoding_eq_model (files : Name → Option (List Nat)) (encoding : Name) :
    EncodingsFn.charmap_encoding files encoding =
      (match files (upper encoding) with
       | some table => .ok (.charmap encoding table (encLookup table))
       | none => .error .encodingLookup) :=
  charmap_encoding_eq files encoding

/-- `_codec_search_function(encoding)` as regenerated = `codecSearch`, for all tables and any set of charmap files -/
theorem generated_codec_search_function_eq_model (tbl : List (Name × Bool)) (extra : List Name) (unm : List (Name × Name))
    (files : Name → Option (List Nat)) (fileNames : List Name) (hfiles : ∀ n, (files n).isSome = fileNames.contains n) (encoding : Name) :
    (EncodingsFn._codec_search_function tbl extra unm files encoding).map EPy.searchOf = .ok (codecSearch unm tbl extra fileNames encoding) := by
  rw [codec_search_eq]
  simp only [Except.map, codecSearch]
  have hf := hfiles (upper ((assoc? encoding unm).getD encoding))
  split
  · cases hfl : files (upper ((assoc? encoding unm).getD encoding)) with
    | none =>
      rw [hfl] at hf
      have hm : ¬ upper ((assoc? encoding unm).getD encoding) ∈ fileNames := by simpa using hf.symm
      simp [EPy.searchOf, hm]
    | some t =>
      rw [hfl] at hf
      have hm : upper ((assoc? encoding unm).getD encoding) ∈ fileNames := by simpa using hf.symm
      simp [EPy.searchOf, hm]
  · simp [EPy.searchOf]

/-! ## theorems of `Props/C20.lean`, about the regenerated functions -/

/-- **the verdict looks at the tested bytes only**, of the regenerated function: for a codec that decodes byte by byte (`f`) the answer
    is "`f` is the identity on the repertoire" -/
theorem ascii_verdict_bytewise_generated (dec : List Nat → Name → Dec) (encoding : Name) (f : Nat → Nat) (mo : Bool)
    (hdec : dec interestingBytes encoding = .text (interestingBytes.map f)) :
    EncodingsFn.is_ascii_compatible_encoding dec encoding mo = .ok (decide (∀ b ∈ interestingBytes, f b = b)) := by
  rw [generated_is_ascii_compatible_encoding_eq_model, hdec, (C20.ascii_verdict_bytewise f f mo).1]

/-- unknown to Python (LookupError, or any non-Unicode exception): `False` with `missing_ok`, EncodingLookupError without -/
theorem ascii_unknown_generated (dec : List Nat → Name → Dec) (encoding : Name) (h : dec interestingBytes encoding = .lookup) :
    EncodingsFn.is_ascii_compatible_encoding dec encoding true = .ok false ∧
    EncodingsFn.is_ascii_compatible_encoding dec encoding false = .error .encodingLookup := by
  simp [generated_is_ascii_compatible_encoding_eq_model, h, isAsciiCompatible]

/-- **whatever the regenerated `propose_portable_encoding` returns is portable** by the regenerated `is_portable_encoding` -/
theorem proposal_portable_generated (tbl : List (Name × Bool)) (c2e : List (Name × Name)) (registry : Name → Option Name) (name p : Name)
    (h : EncodingsFn.propose_portable_encoding tbl c2e registry name true = .ok (some p)) :
    EncodingsFn.is_portable_encoding tbl p true = .ok true := by
  rw [generated_propose_portable_encoding_eq_model] at h
  rw [generated_is_portable_encoding_eq_model]
  cases hp : propose tbl c2e registry name with
  | error u => rw [hp] at h; cases h
  | ok r =>
    rw [hp] at h
    simp only [Except.ok.injEq] at h
    subst h
    rw [C20.proposal_portable tbl c2e registry name p hp]

/-- **with the loaded tables the `assert` of the regenerated function never fires**, whatever the registry -/
theorem proposal_sound_generated (registry : Name → Option Name) (name : Name) :
    EncodingsFn.propose_portable_encoding portableEncodings pycodecToEncoding registry name true ≠ .error .assertion := by
  rw [generated_propose_portable_encoding_eq_model]
  have := (C20.proposal_sound registry name).1
  cases hp : propose portableEncodings pycodecToEncoding registry name with
  | error u => exact (this hp).elim
  | ok r => simp

/-- **`encodings.decode` as regenerated yields text or a UnicodeDecodeError** (a bare UnicodeError becomes one spanning the data) -/
theorem loader_decode_total_generated (rawdec : List UInt8 → Name → RawDecode) (data : List UInt8) (encoding : Name)
    (hraw : rawdec data encoding ≠ .other) :
    (∃ cs, EncodingsFn.decode rawdec data encoding = .ok cs) ∨
    (∃ s e, EncodingsFn.decode rawdec data encoding = .error (.unicodeDecode s e) ∧
      (rawdec data encoding = .unicodeError → s = 0 ∧ e = data.length)) := by
  rw [generated_encodings_decode_eq_model]
  rcases C20.loader_decode_total data.length _ hraw with ⟨cs, h⟩ | ⟨s, e, h, h2⟩
  · exact .inl ⟨cs, by rw [h]; rfl⟩
  · refine .inr ⟨s, e, by rw [h]; rfl, fun hu => ?_⟩
    have := h2 hu
    omega

/-- the shipped charmap files as the loader's file system -/
def shippedFiles : Name → Option (List Nat) := fun n => assoc? n charmaps

/-- **the regenerated search function serves the five extra codecs**: three with exactly the shipped table (decode) and its
    `charmap_build` (encode), two through iconv; names Python knows are left alone -/
theorem codec_search_extra_generated :
    let search := fun (s : String) => EncodingsFn._codec_search_function portableEncodings extraEncodings unmangle shippedFiles (EPy.lit s)
    (search "koi8_ru").map EPy.searchOf = .ok (.charmap (EPy.lit "KOI8-RU")) ∧
    (search "viscii").map EPy.searchOf = .ok (.charmap (EPy.lit "VISCII")) ∧
    (search "georgian_ps").map EPy.searchOf = .ok (.charmap (EPy.lit "GEORGIAN-PS")) ∧
    (search "koi8_t").map EPy.searchOf = .ok (.iconv (EPy.lit "koi8-t")) ∧
    (search "euc_tw").map EPy.searchOf = .ok (.iconv (EPy.lit "euc-tw")) ∧
    (search "utf_8").map EPy.searchOf = .ok .notOurs ∧
    (∀ t e, search "viscii" = .ok (some (.charmap (EPy.lit "viscii") t e)) → t = charmap_VISCII ∧ e = encLookup charmap_VISCII) := by
  have hgen : ∀ (l : List (Name × List Nat)) (n : Name), (assoc? n l).isSome = (l.map (·.1)).contains n := by
    intro l n
    induction l with
    | nil => rfl
    | cons kv rest ih =>
      obtain ⟨k, v⟩ := kv
      simp only [assoc?, List.map_cons, List.contains_cons]
      by_cases h : k = n
      · subst h; simp
      · have h' : (n == k) = false := by simpa using fun hh => h hh.symm
        simp only [h, if_false, ih, h', Bool.false_or]
  have hfiles : ∀ n, (shippedFiles n).isSome = (charmaps.map (·.1)).contains n := fun n => hgen charmaps n
  have key := C20.codec_search_extra
  simp only at key ⊢
  refine ⟨?_, ?_, ?_, ?_, ?_, ?_, ?_⟩
  · rw [generated_codec_search_function_eq_model _ _ _ _ _ hfiles]; exact congrArg _ key.1
  · rw [generated_codec_search_function_eq_model _ _ _ _ _ hfiles]; exact congrArg _ key.2.1
  · rw [generated_codec_search_function_eq_model _ _ _ _ _ hfiles]; exact congrArg _ key.2.2.1
  · rw [generated_codec_search_function_eq_model _ _ _ _ _ hfiles]; exact congrArg _ key.2.2.2.1
  · rw [generated_codec_search_function_eq_model _ _ _ _ _ hfiles]; exact congrArg _ key.2.2.2.2.1
  · rw [generated_codec_search_function_eq_model _ _ _ _ _ hfiles]; exact congrArg _ key.2.2.2.2.2.1
  · intro t e h
    rw [codec_search_eq] at h
    have hv : (assoc? (EPy.lit "viscii") unmangle).getD (EPy.lit "viscii") = EPy.lit "viscii" := by decide +kernel
    have hc : (assoc? (EPy.lit "viscii") portableEncodings == some false || extraEncodings.contains (EPy.lit "viscii")) = true := by decide +kernel
    have hf : shippedFiles (upper (EPy.lit "viscii")) = some charmap_VISCII := by decide +kernel
    simp only [hv, hc, hf, if_true, Except.ok.injEq, Option.some.injEq, EPy.Codec.charmap.injEq, true_and] at h
    exact ⟨h.1.symm, h.2.symm⟩

/-! Non-vacuity -/

example : EncodingsFn.is_portable_encoding portableEncodings (EPy.lit "ISO_8859-2") true = .ok true := by
  rw [generated_is_portable_encoding_eq_model]; decide +kernel

example : EncodingsFn.decode (fun _ _ => .unicodeError) [1, 2, 3] (EPy.lit "idna") = .error (.unicodeDecode 0 3) := by
  rw [generated_encodings_decode_eq_model]; rfl

/-! # Third part: `lib/ling.py` `Language.get_unrepresentable_characters` REGENERATED from the source is the model's

`I18n.Generated.LingFn` is rewritten from the repository's current `lib/ling.py` (`Language._simple_format`,
`Language.get_unrepresentable_characters`) by `tools/translate/ling2lean.py` on every run.  `_get_characters` and `str.encode` are
parameters on both sides (`Model/LingPy.lean`). -/

open I18n.Charset.LGen

/-- `Language._simple_format(territory=…)` as regenerated: `ll`, or `ll_CC` when asked for and a territory is present -/
theorem generated_simple_format_eq_model (l : LPy.Language) (territory : Bool) :
    LingFn._simple_format l territory =
      .ok (match l.territory_code with
           | some t => if territory then l.language_code ++ [95] ++ t else l.language_code
           | none => l.language_code) :=
  simple_format_eq l territory

/-- **`get_unrepresentable_characters(encoding, strict=…)` as regenerated = `languageCharacters` then `getUnrepresentable`** — for every
    language object, every content of data/languages (`sect`), every encoder: `None` when neither `ll_CC` nor `ll` lists characters;
    `.error ()` of the model is an exception other than UnicodeError escaping -/
theorem generated_get_unrepresentable_characters_eq_model (sect : Name → Option Name → Option (List Nat)) (encode : List Nat → Enc)
    (l : LPy.Language) (strict : Bool) :
    LingFn.get_unrepresentable_characters (fun code m s => (sect code m).map (getCharacters s)) encode l strict =
      (match languageCharacters sect strict l.language_code l.territory_code l.modifier with
       | none => .ok none
       | some cs => (ofModel (getUnrepresentable encode cs)).map some) := by
  rw [get_unrepresentable_eq]
  simp only [languageCharacters]
  cases l.territory_code with
  | none => cases sect l.language_code l.modifier <;> rfl
  | some t =>
    simp only []
    cases sect (l.language_code ++ [95] ++ t) l.modifier with
    | some v => rfl
    | none => cases sect l.language_code l.modifier <;> rfl

/-- **unrepresentable_iff**, of the regenerated method: for a codec that raises only Unicode errors on these texts and encodes a
    concatenation only if it encodes every piece, the result is exactly the listed characters that cannot be encoded -/
theorem unrepresentable_iff_generated (sect : Name → Option Name → Option (List Nat)) (encode : List Nat → Enc)
    (l : LPy.Language) (strict : Bool) (chars : List (List Nat))
    (hchars : languageCharacters sect strict l.language_code l.territory_code l.modifier = some chars)
    (hno : ∀ c ∈ chars, encode c = .ok ∨ encode c = .encodeError false)
    (hj : encode chars.flatten ≠ .crash)
    (hpieces : encode chars.flatten = .ok → ∀ c ∈ chars, encode c = .ok) :
    LingFn.get_unrepresentable_characters (fun code m s => (sect code m).map (getCharacters s)) encode l strict =
      .ok (some (chars.filter fun c => encode c != .ok)) := by
  rw [generated_get_unrepresentable_characters_eq_model, hchars]
  simp only []
  rw [(C20.unrepresentable_iff encode chars hno hj hpieces).1]
  rfl

/-- the iconv(1) fall-back: the loop stops at the first character whose error reason starts with `iconv:` -/
example : LingFn.get_unrepresentable_characters (fun _ _ _ => some [[97], [8364], [98], [8364]])
    (fun t => if t.contains 8364 then .encodeError true else .ok) ⟨[100, 101], none, none⟩ false = .ok (some [[8364]]) := by
  rfl

end I18n.Props.C20Tie
