import I18n.Lemmas.IconvDlGenerated
import I18n.Props.C20
/-!
# C20 — the tie by translation (first part): `lib/iconv.py` REGENERATED from the source is the model's loop

`I18n.Generated.IconvDl` is rewritten from the repository's current `lib/iconv.py` (`_decode_dl`, `_encode_dl`, `decode`, `encode`) by
`tools/translate/iconv2lean.py` on every run.  The theorems below prove the regenerated definitions equal — for ALL inputs, ALL
behaviours of iconv(3) (`Py.Iconv`: any outcome of `iconv_open`, any `Charset.Step`, any outcome of `iconv_close`), all amounts of
fuel and every state of the process at the call (`Py.World`) — to the hand-written loop model `decodeLoop` / `encodeLoop` /
`decodeDl` / `encodeDl` of `Model/Charset.lean`, and restate the iconv theorems of `Props/C20.lean` about the regenerated
definitions.  What is observed of a run (`Py.observe`): the value returned or the exception raised, and the log of (bytes
allocated behind the output pointer, count told in `outbytesleft`) of every conversion call.  The kit the generated code targets,
`Model/CharsetPy.lean`, states what each ctypes operation is taken to be (the trusted base of this tie).
-/
namespace I18n.Props.C20Tie
open I18n I18n.Charset I18n.Charset.Gen I18n.Generated

/-- the two names `_decode_dl` opens its descriptor with -/
abbrev wcharT : List Nat := Py.lit "WCHAR_T"
abbrev utf32le : List Nat := Py.lit "UTF-32LE"
abbrev strict : List Nat := Py.lit "strict"

/-! ## equality with the model -/

/-- the `while True:` loop of `_decode_dl` as regenerated = `decodeLoop`, started from any `output_len`, in any world -/
theorem generated_decode_loop_eq_model (cd : Py.Cd) (enc : List Nat) (input : List UInt8) (fuel L : Nat) (w : Py.World) :
    Py.observe (IconvDl._decode_dl_loop input cd enc input fuel (L : Int) w) =
      (Py.ofOutcome (decodeLoop cd.step input fuel L).1, w.trace ++ (decodeLoop cd.step input fuel L).2) :=
  decode_loop_eq cd enc input fuel L w

/-- the `while True:` loop of `_encode_dl` as regenerated = `encodeLoop` (on the UTF-32LE bytes of the input: `4 · len`) -/
theorem generated_encode_loop_eq_model (cd : Py.Cd) (enc : List Nat) (input : List Nat) (fuel L : Nat) (w : Py.World) :
    Py.observe (IconvDl._encode_dl_loop (Py.utf32le input) (Py.utf32le input) cd enc input fuel (L : Int) w) =
      (Py.ofOutcome (encodeLoop cd.step input.length fuel L).1, w.trace ++ (encodeLoop cd.step input.length fuel L).2) :=
  encode_loop_eq cd enc input _ _ (utf32le_length input) fuel L w

/-- `_decode_dl(input, encoding=enc)` as regenerated: `iconv_open(b'WCHAR_T', enc)` (failure: OSError, nothing allocated), the model's
    loop started at `output_len = len(input)`, `iconv_close` in `finally` (failure: OSError replaces the outcome) -/
theorem generated_decode_dl_eq_model (ic : Py.Iconv) (input : List UInt8) (enc : List Nat) (fuel : Nat) (w : Py.World) :
    Py.observe (IconvDl._decode_dl ic input enc fuel w) =
      (Py.ofOutcome (openClose (ic.openErrno wcharT enc) ic.closeErrno (decodeLoop (ic.step wcharT enc) input fuel input.length)).1,
       w.trace ++ (openClose (ic.openErrno wcharT enc) ic.closeErrno (decodeLoop (ic.step wcharT enc) input fuel input.length)).2) :=
  decode_dl_eq ic input enc fuel w

/-- `_encode_dl(input, encoding=enc)` as regenerated: `iconv_open(enc, b'UTF-32LE')`, the model's loop, `iconv_close` -/
theorem generated_encode_dl_eq_model (ic : Py.Iconv) (input : List Nat) (enc : List Nat) (fuel : Nat) (w : Py.World) :
    Py.observe (IconvDl._encode_dl ic input enc fuel w) =
      (Py.ofOutcome (openClose (ic.openErrno enc utf32le) ic.closeErrno (encodeLoop (ic.step enc utf32le) input.length fuel input.length)).1,
       w.trace ++ (openClose (ic.openErrno enc utf32le) ic.closeErrno (encodeLoop (ic.step enc utf32le) input.length fuel input.length)).2) :=
  encode_dl_eq ic input enc fuel w

/-- `iconv_open` and `iconv_close` succeed (what `decodeDl` / `encodeDl` of the model assume) -/
def OpensAndCloses (ic : Py.Iconv) (tocode fromcode : List Nat) : Prop :=
  ic.openErrno tocode fromcode = none ∧ ic.closeErrno = none

/-- **`lib.iconv.decode(input, enc)` as regenerated = `decodeDl`** (outcome and log), whenever open and close succeed -/
theorem generated_decode_eq_model (ic : Py.Iconv) (input : List UInt8) (enc : List Nat) (fuel : Nat) (w : Py.World)
    (h : OpensAndCloses ic wcharT enc) :
    Py.observe (IconvDl.decode ic input enc strict fuel w) =
      (Py.ofOutcome (decodeDl (ic.step wcharT enc) input fuel).1, w.trace ++ (decodeDl (ic.step wcharT enc) input fuel).2) := by
  rw [decode_eq, generated_decode_dl_eq_model, h.1, h.2]
  unfold decodeDl
  cases input <;> simp [openClose, Py.ofOutcome]

/-- **`lib.iconv.encode(input, enc)` as regenerated = `encodeDl`** on `len(input)` -/
theorem generated_encode_eq_model (ic : Py.Iconv) (input : List Nat) (enc : List Nat) (fuel : Nat) (w : Py.World)
    (h : OpensAndCloses ic enc utf32le) :
    Py.observe (IconvDl.encode ic input enc strict fuel w) =
      (Py.ofOutcome (encodeDl (ic.step enc utf32le) input.length fuel).1, w.trace ++ (encodeDl (ic.step enc utf32le) input.length fuel).2) := by
  rw [encode_eq, generated_encode_dl_eq_model, h.1, h.2]
  unfold encodeDl
  cases input <;> simp [openClose, Py.ofOutcome]

/-- an error handler other than `'strict'` is refused (non-empty input), before anything is opened -/
theorem generated_errors_not_strict (ic : Py.Iconv) (input : List UInt8) (enc errors : List Nat) (fuel : Nat) (w : Py.World)
    (hne : input ≠ []) (he : errors ≠ strict) :
    Py.observe (IconvDl.decode ic input enc errors fuel w) = (.error .notImplemented, w.trace) := by
  rw [decode_eq]
  cases input <;> simp_all

/-! ## the iconv theorems of `Props/C20.lean`, about the regenerated functions

`run.1` is the outcome, `run.2` the log of a call in a fresh world. -/

/-- a call of the regenerated `decode` / `encode` in a world with an empty log -/
abbrev decodeRun (ic : Py.Iconv) (input : List UInt8) (enc : List Nat) (fuel : Nat) :=
  Py.observe (IconvDl.decode ic input enc strict fuel Py.World.init)
abbrev encodeRun (ic : Py.Iconv) (input : List Nat) (enc : List Nat) (fuel : Nat) :=
  Py.observe (IconvDl.encode ic input enc strict fuel Py.World.init)

theorem decodeRun_eq (ic : Py.Iconv) (input : List UInt8) (enc : List Nat) (fuel : Nat) (h : OpensAndCloses ic wcharT enc) :
    decodeRun ic input enc fuel = (Py.ofOutcome (decodeDl (ic.step wcharT enc) input fuel).1, (decodeDl (ic.step wcharT enc) input fuel).2) := by
  simp [decodeRun, generated_decode_eq_model ic input enc fuel _ h, Py.World.init]

theorem encodeRun_eq (ic : Py.Iconv) (input : List Nat) (enc : List Nat) (fuel : Nat) (h : OpensAndCloses ic enc utf32le) :
    encodeRun ic input enc fuel = (Py.ofOutcome (encodeDl (ic.step enc utf32le) input.length fuel).1, (encodeDl (ic.step enc utf32le) input.length fuel).2) := by
  simp [encodeRun, generated_encode_eq_model ic input enc fuel _ h, Py.World.init]

/-- **(a) told ≤ allocated**, of the regenerated binding — no hypothesis on what iconv does in a round -/
theorem iconv_told_le_allocated_generated (ic : Py.Iconv) (input : List UInt8) (text : List Nat) (enc : List Nat) (fuel : Nat)
    (hd : OpensAndCloses ic wcharT enc) (he : OpensAndCloses ic enc utf32le) :
    (∀ a ∈ (decodeRun ic input enc fuel).2, a.told ≤ a.allocated ∧ a.allocated = 4 * a.told ∧ input.length ≤ a.told) ∧
    (∀ a ∈ (encodeRun ic text enc fuel).2, a.told ≤ a.allocated ∧ a.allocated = a.told ∧ text.length ≤ a.told) := by
  rw [decodeRun_eq ic input enc fuel hd, encodeRun_eq ic text enc fuel he]
  exact ⟨(C20.iconv_told_le_allocated _ input 0 fuel).1, (C20.iconv_told_le_allocated _ [] text.length fuel).2⟩

/-- (a) also holds when `iconv_open` / `iconv_close` fail: the log is then empty or that of the loop -/
theorem iconv_told_le_allocated_generated_any (ic : Py.Iconv) (input : List UInt8) (enc : List Nat) (fuel : Nat) (w : Py.World)
    (hw : w.trace = []) :
    ∀ a ∈ (Py.observe (IconvDl._decode_dl ic input enc fuel w)).2, a.told ≤ a.allocated ∧ a.allocated = 4 * a.told := by
  rw [generated_decode_dl_eq_model, hw]
  intro a ha
  have key : ∀ a ∈ (decodeLoop (ic.step wcharT enc) input fuel input.length).2, a.told ≤ a.allocated ∧ a.allocated = 4 * a.told := by
    intro a ha
    have := decodeLoop_alloc (ic.step wcharT enc) input fuel input.length a ha
    exact ⟨by omega, this.1⟩
  simp only [List.nil_append, openClose] at ha
  split at ha
  · simp at ha
  · split at ha
    · exact key a ha
    · split at ha <;> exact key a ha

/-- **the exact schedule**, of the regenerated binding: round `i` is told `len(input) · 2^i` -/
theorem iconv_loop_schedule_generated (ic : Py.Iconv) (input : List UInt8) (text : List Nat) (enc : List Nat) (fuel i : Nat) (a : Alloc)
    (hd : OpensAndCloses ic wcharT enc) (he : OpensAndCloses ic enc utf32le) :
    ((decodeRun ic input enc fuel).2[i]? = some a → a.told = input.length * 2 ^ i ∧ a.allocated = 4 * (input.length * 2 ^ i)) ∧
    ((encodeRun ic text enc fuel).2[i]? = some a → a.told = text.length * 2 ^ i ∧ a.allocated = text.length * 2 ^ i) := by
  rw [decodeRun_eq ic input enc fuel hd, encodeRun_eq ic text enc fuel he]
  exact ⟨(C20.iconv_loop_schedule _ input 0 fuel i a).1, (C20.iconv_loop_schedule _ [] text.length fuel i a).2⟩

/-- **(b) termination**, of the regenerated binding: against an iconv that stops answering E2BIG once told `need` bytes, the
    loop ends (the fuel is not what stops it) -/
theorem iconv_loop_terminates_generated (ic : Py.Iconv) (input : List UInt8) (enc : List Nat) (need fuel : Nat)
    (hd : OpensAndCloses ic wcharT enc) (hne : input ≠ [])
    (hb : ∀ told, need ≤ told → ((ic.step wcharT enc) told).reset = none →
      (callBoth input.length told ((ic.step wcharT enc) told)).rc ≠ .e2big)
    (hfuel : need < fuel) : (decodeRun ic input enc fuel).1 ≠ .error .outOfFuel := by
  rw [decodeRun_eq ic input enc fuel hd]
  have := C20.iconv_loop_terminates _ input need fuel hne hb hfuel
  revert this
  cases (decodeDl (ic.step wcharT enc) input fuel).1 <;> simp [Outcome.finished, Py.ofOutcome]

theorem iconv_encode_loop_terminates_generated (ic : Py.Iconv) (text : List Nat) (enc : List Nat) (need fuel : Nat)
    (he : OpensAndCloses ic enc utf32le) (hne : text ≠ [])
    (hb : ∀ told, need ≤ told → ((ic.step enc utf32le) told).reset = none →
      (callBoth (4 * text.length) told ((ic.step enc utf32le) told)).rc ≠ .e2big)
    (hfuel : need < fuel) : (encodeRun ic text enc fuel).1 ≠ .error .outOfFuel := by
  rw [encodeRun_eq ic text enc fuel he]
  have hn : text.length ≠ 0 := by cases text <;> simp_all
  have := C20.iconv_encode_loop_terminates _ text.length need fuel hn hb hfuel
  revert this
  cases (encodeDl (ic.step enc utf32le) text.length fuel).1 <;> simp [Outcome.finished, Py.ofOutcome]

/-- **(c) the result is what iconv produced**, of the regenerated binding -/
theorem iconv_loop_returns_produced_generated (ic : Py.Iconv) (input : List UInt8) (enc : List Nat) (produced : List UInt8) (need k fuel : Nat)
    (hd : OpensAndCloses ic wcharT enc) (hne : input ≠ []) (h : ConvertsTo (ic.step wcharT enc) input.length produced need)
    (h4 : produced.length = 4 * k) (hvalid : (wchars produced).any (· > 0x10FFFF) = false) (hfuel : need < fuel) :
    (decodeRun ic input enc fuel).1 = .ok (wchars produced) := by
  rw [decodeRun_eq ic input enc fuel hd, C20.iconv_loop_returns_produced _ input produced need k fuel hne h h4 hvalid hfuel]
  rfl

theorem iconv_encode_loop_returns_produced_generated (ic : Py.Iconv) (text : List Nat) (enc : List Nat) (produced : List UInt8) (need fuel : Nat)
    (he : OpensAndCloses ic enc utf32le) (hne : text ≠ []) (h : ConvertsTo (ic.step enc utf32le) (4 * text.length) produced need)
    (hfuel : need < fuel) : (encodeRun ic text enc fuel).1 = .ok produced := by
  have hn : text.length ≠ 0 := by cases text <;> simp_all
  rw [encodeRun_eq ic text enc fuel he, C20.iconv_encode_loop_returns_produced _ text.length produced need fuel hn h hfuel]
  rfl

/-- **(d) error spans**, of the regenerated binding: the UnicodeDecodeError / UnicodeEncodeError raised has `0 ≤ start < end ≤ len(input)` -/
theorem iconv_loop_error_span_generated (ic : Py.Iconv) (input : List UInt8) (text : List Nat) (enc : List Nat) (fuel : Nat) (s e : Int)
    (hd : OpensAndCloses ic wcharT enc) (he : OpensAndCloses ic enc utf32le) :
    ((∀ told, ((ic.step wcharT enc) told).reset = none →
        ((callBoth input.length told ((ic.step wcharT enc) told)).rc = .eilseq ∨ (callBoth input.length told ((ic.step wcharT enc) told)).rc = .einval) →
        1 ≤ (callBoth input.length told ((ic.step wcharT enc) told)).inLeft) →
      (decodeRun ic input enc fuel).1 = .error (.unicode s e) → 0 ≤ s ∧ s < e ∧ e ≤ input.length) ∧
    ((∀ told, ((ic.step enc utf32le) told).reset = none →
        ((callBoth (4 * text.length) told ((ic.step enc utf32le) told)).rc = .eilseq ∨ (callBoth (4 * text.length) told ((ic.step enc utf32le) told)).rc = .einval) →
        4 ≤ (callBoth (4 * text.length) told ((ic.step enc utf32le) told)).inLeft) →
      (encodeRun ic text enc fuel).1 = .error (.unicode s e) → 0 ≤ s ∧ s < e ∧ e ≤ text.length) := by
  rw [decodeRun_eq ic input enc fuel hd, encodeRun_eq ic text enc fuel he]
  constructor
  · intro hc h
    have key := (C20.iconv_loop_error_span (ic.step wcharT enc) input 0 fuel)
    revert h
    cases ho : (decodeDl (ic.step wcharT enc) input fuel).1 <;> simp [Py.ofOutcome]
    rename_i a b
    intro h1 h2
    have := (key a b).1 hc ho
    omega
  · intro hc h
    have key := (C20.iconv_loop_error_span (ic.step enc utf32le) [] text.length fuel)
    revert h
    cases ho : (encodeDl (ic.step enc utf32le) text.length fuel).1 <;> simp [Py.ofOutcome]
    rename_i a b
    intro h1 h2
    have := (key a b).2 hc ho
    omega

/-! ## Non-vacuity: the regenerated code runs -/

/-- a descriptor for one character that needs three bytes (U+20AC to UTF-8): `Lemmas/CharsetIconvSchedule.euroStep` -/
def euroIconv : Py.Iconv := ⟨fun _ _ => none, fun _ _ => euroStep, none⟩

/-- the regenerated `encode` is told 1, 2, 4 bytes and returns the three bytes -/
example : encodeRun euroIconv [0x20AC] (Py.lit "UTF-8") 3 = (.ok [0xE2, 0x82, 0xAC], [⟨1, 1⟩, ⟨2, 2⟩, ⟨4, 4⟩]) := by
  rw [encodeRun_eq _ _ _ _ ⟨rfl, rfl⟩]
  have := C20.non_doubling_loop_diverges.2.2
  exact Prod.ext (by rw [show ([0x20AC] : List Nat).length = 1 from rfl, show (euroIconv.step (Py.lit "UTF-8") utf32le) = euroStep from rfl, this.1]; rfl)
    (by rw [show ([0x20AC] : List Nat).length = 1 from rfl, show (euroIconv.step (Py.lit "UTF-8") utf32le) = euroStep from rfl, this.2.1])

/-- a failing `iconv_open` is an OSError with its errno -/
example (input : List UInt8) (enc : List Nat) (fuel : Nat) :
    Py.observe (IconvDl._decode_dl ⟨fun _ _ => some 22, fun _ _ => euroStep, none⟩ input enc fuel Py.World.init) = (.error (.os 22), []) := by
  rw [generated_decode_dl_eq_model]; rfl

end I18n.Props.C20Tie
