import I18n.Lemmas.FmtArgsGenerated
import I18n.Props.C14
/-!
# C14 — the tie: the `check_args` REGENERATED from the source are the comparators the theorems are about

`I18n.Generated.FmtArgs` is rewritten from the repository's current `lib/check/msgformat/{c,python,pybrace,perlbrace}.py`
(`Checker.check_args`) and `lib/strformat/c.py` (`FormatString.get_last_integer_conversion`) by `tools/translate/fmtargs2lean.py`
on every run.  The theorems below prove, for ALL inputs, that each regenerated definition computes the hand-written model function
of `Model/FmtCheck.lean`; consequently every theorem of `Props/C14.lean` holds of the regenerated text, and `check_message` /
`_check_message_formats` over the regenerated comparators (`FmtCheck.Gen`) is the model's.  The headline theorems are restated
about the regenerated definitions.  A change of the source changes the generated definitions and these proofs stop compiling
(or the translator reports the construct as outside its subset) — no test input is involved.
-/
namespace I18n.Props.C14Tie
open I18n I18n.FmtCheck I18n.FmtSig I18n.Spec.FmtCompare I18n.Spec.Printf I18n.Generated

/-- `FormatString.get_last_integer_conversion(n=n)` as regenerated (`lib/strformat/c.py`) = `getLastIntConv` -/
theorem generated_get_last_integer_conversion_eq_model (f : CFmtX) (n : Nat) :
    FmtArgs.get_last_integer_conversion f ↑n = getLastIntConv f n :=
  Gen.glic_eq f n

/-- … and for a negative `n` (outside the model's `Nat`) it raises `IndexError`, as `if n <= 0: raise IndexError` says -/
theorem generated_get_last_integer_conversion_neg (f : CFmtX) (n : Int) (h : n < 0) :
    FmtArgs.get_last_integer_conversion f n = .error .IndexError := by
  have h1 : ¬ (n > (f.arguments.length : Int)) := by omega
  have h2 : n ≤ 0 := by omega
  simp [FmtArgs.get_last_integer_conversion, h1, h2]

/-- C `check_args` as regenerated = `checkArgsC` (the tag calls it appends to an empty output) -/
theorem generated_c_check_args_eq_model (pfx : Extra) (srcLoc : List Char) (src : CFmtX) (dstLoc : List Char) (dst : CFmtX) (ok : Bool) :
    FmtArgs.C.check_args [] pfx () srcLoc src dstLoc dst ok = checkArgsC pfx srcLoc src dstLoc dst ok := by
  rw [Gen.c_check_args_eq]; cases checkArgsC pfx srcLoc src dstLoc dst ok <;> simp

/-- Python-% `check_args` as regenerated = `checkArgsPython` -/
theorem generated_python_check_args_eq_model (pfx : Extra) (srcLoc : List Char) (src : PyFmt.Result) (dstLoc : List Char)
    (dst : PyFmt.Result) (ok : Bool) :
    FmtArgs.Python.check_args [] pfx () srcLoc src dstLoc dst ok = checkArgsPython pfx srcLoc src dstLoc dst ok := by
  rw [Gen.python_check_args_eq]; cases checkArgsPython pfx srcLoc src dstLoc dst ok <;> simp

/-- python-brace `check_args` as regenerated = `checkArgsPyBrace` -/
theorem generated_pybrace_check_args_eq_model (pfx : Extra) (srcLoc : List Char) (src : PyBraceSig) (dstLoc : List Char)
    (dst : PyBraceSig) (ok : Bool) :
    FmtArgs.PyBrace.check_args [] pfx () srcLoc src dstLoc dst ok = checkArgsPyBrace pfx srcLoc src dstLoc dst ok := by
  rw [Gen.pybrace_check_args_eq]; cases checkArgsPyBrace pfx srcLoc src dstLoc dst ok <;> simp

/-- perl-brace `check_args` as regenerated = `checkArgsPerlBrace` -/
theorem generated_perlbrace_check_args_eq_model (pfx : Extra) (srcLoc : List Char) (src : PerlBraceSig) (dstLoc : List Char)
    (dst : PerlBraceSig) (ok : Bool) :
    FmtArgs.PerlBrace.check_args [] pfx () srcLoc src dstLoc dst ok = checkArgsPerlBrace pfx srcLoc src dstLoc dst ok := by
  rw [Gen.perl_check_args_eq]; cases checkArgsPerlBrace pfx srcLoc src dstLoc dst ok <;> simp

/-- with output already emitted: the regenerated functions append exactly the model's tag calls -/
theorem generated_check_args_append (out : List TagCall) (pfx : Extra) (srcLoc dstLoc : List Char) (ok : Bool) :
    (∀ s d, FmtArgs.C.check_args out pfx () srcLoc s dstLoc d ok = Gen.appendTags out (checkArgsC pfx srcLoc s dstLoc d ok)) ∧
    (∀ s d, FmtArgs.Python.check_args out pfx () srcLoc s dstLoc d ok = Gen.appendTags out (checkArgsPython pfx srcLoc s dstLoc d ok)) ∧
    (∀ s d, FmtArgs.PyBrace.check_args out pfx () srcLoc s dstLoc d ok = Gen.appendTags out (checkArgsPyBrace pfx srcLoc s dstLoc d ok)) ∧
    (∀ s d, FmtArgs.PerlBrace.check_args out pfx () srcLoc s dstLoc d ok = Gen.appendTags out (checkArgsPerlBrace pfx srcLoc s dstLoc d ok)) :=
  ⟨fun s d => Gen.c_check_args_eq out pfx srcLoc s dstLoc d ok, fun s d => Gen.python_check_args_eq out pfx srcLoc s dstLoc d ok,
   fun s d => Gen.pybrace_check_args_eq out pfx srcLoc s dstLoc d ok, fun s d => Gen.perl_check_args_eq out pfx srcLoc s dstLoc d ok⟩

/-- the six back ends over the regenerated comparators are the model's back ends -/
theorem generated_backends_eq_model :
    Gen.cBackend = FmtCheck.cBackend ∧ Gen.pyBackend = FmtCheck.pyBackend ∧ Gen.pyBraceBackend = FmtCheck.pyBraceBackend ∧
    Gen.perlBraceBackend = FmtCheck.perlBraceBackend ∧ Gen.pyBraceStrBackend = FmtCheck.pyBraceStrBackend ∧
    Gen.perlBraceStrBackend = FmtCheck.perlBraceStrBackend := by
  refine ⟨?_, ?_, ?_, ?_, ?_, ?_⟩
  · simp only [Gen.cBackend, Gen.withArgs, generated_c_check_args_eq_model]; rfl
  · simp only [Gen.pyBackend, Gen.withArgs, generated_python_check_args_eq_model]; rfl
  · simp only [Gen.pyBraceBackend, Gen.withArgs, generated_pybrace_check_args_eq_model]; rfl
  · simp only [Gen.perlBraceBackend, Gen.withArgs, generated_perlbrace_check_args_eq_model]; rfl
  · simp only [Gen.pyBraceStrBackend, Gen.withArgs, generated_pybrace_check_args_eq_model]; rfl
  · simp only [Gen.perlBraceStrBackend, Gen.withArgs, generated_perlbrace_check_args_eq_model]; rfl

/-- **The tie at the level of the property**: `Checker._check_message_formats` (sorted format flags → `check_message` of each
    checker) over the REGENERATED comparators is the model `checkFormats` all message-level theorems of C14 are about. -/
theorem generated_check_formats_eq_model (ctx : Ctx) (fl : Flags) (formats : List (List Char × KMsg)) :
    Gen.checkFormats ctx fl formats = FmtCheck.checkFormats ctx fl formats := by
  obtain ⟨h1, h2, h3, h4, h5, h6⟩ := generated_backends_eq_model
  have hc : ∀ m, Gen.check ctx fl m = KMsg.check ctx fl m := by
    intro m; cases m <;> simp only [Gen.check, KMsg.check, h1, h2, h3, h4, h5, h6]
  have hr : ∀ l, Gen.runAll ctx fl l = FmtCheck.runAll ctx fl l := by
    intro l
    induction l with
    | nil => rfl
    | cons p l ih =>
      obtain ⟨name, m⟩ := p
      simp only [Gen.runAll, FmtCheck.runAll, hc, ih]
      split
      · cases KMsg.check ctx fl m with
        | error e => rfl
        | ok t => cases FmtCheck.runAll ctx fl l <;> rfl
      · rfl
  simp only [Gen.checkFormats, FmtCheck.checkFormats, hr]

/-! ### the headline theorems, about the regenerated comparators -/

/-- C, `args_tags_iff`, of the regenerated `check_args` -/
theorem c_args_tags_iff_generated (pfx : Extra) (srcLoc dstLoc : List Char) (omittedOk : Bool) {src dst : List Item}
    (hs : Valid src) (hd : Valid dst) :
    ∃ fs fd tags, cParse (render src) = .ok fs ∧ cParse (render dst) = .ok fd ∧
      FmtArgs.C.check_args [] pfx () srcLoc fs dstLoc fd omittedOk = .ok tags ∧
      (cExcessTag pfx srcLoc fs dstLoc fd ∈ tags ↔ Excess (typesOf (signature src)) (typesOf (signature dst))) ∧
      (cMissingTag pfx srcLoc fs dstLoc fd ∈ tags ↔ Fewer (typesOf (signature src)) (typesOf (signature dst)) ∧
        cTolerated fs ((signature src).length - (signature dst).length) omittedOk = false) ∧
      (∀ a b, cTypeTag pfx srcLoc dstLoc (a, b) ∈ tags ↔ ∃ i, TypeDiffAt (typesOf (signature src)) (typesOf (signature dst)) i a b) ∧
      (∀ t ∈ tags, t = cExcessTag pfx srcLoc fs dstLoc fd ∨ t = cMissingTag pfx srcLoc fs dstLoc fd ∨
        ∃ a b, t = cTypeTag pfx srcLoc dstLoc (a, b)) ∧
      (tags.filter (fun t => t.name == "c-format-string-argument-type-mismatch")).length =
        (typeDiffs (typesOf (signature src)) (typesOf (signature dst))).length := by
  simp only [generated_c_check_args_eq_model]
  exact C14.c_args_tags_iff pfx srcLoc dstLoc omittedOk hs hd

/-- C: the same arguments at the same types are never flagged, of the regenerated `check_args` -/
theorem c_same_signature_silent_generated (pfx : Extra) (srcLoc dstLoc : List Char) (omittedOk : Bool) {src dst : List Item}
    (hs : Valid src) (hd : Valid dst) (h : typesOf (signature src) = typesOf (signature dst)) :
    ∃ fs fd, cParse (render src) = .ok fs ∧ cParse (render dst) = .ok fd ∧
      FmtArgs.C.check_args [] pfx () srcLoc fs dstLoc fd omittedOk = .ok [] := by
  simp only [generated_c_check_args_eq_model]
  exact C14.c_same_signature_silent pfx srcLoc dstLoc omittedOk hs hd h

/-- Python-%, `args_tags_iff`, of the regenerated `check_args` -/
theorem python_args_tags_iff_generated (pfx : Extra) (srcLoc dstLoc : List Char) (omittedOk : Bool) {s s' : List Char}
    {src dst : PyFmt.Result} (h : pyParse s = .ok src) (h' : pyParse s' = .ok dst) :
    ∃ tags, FmtArgs.Python.check_args [] pfx () srcLoc src dstLoc dst omittedOk = .ok tags ∧
      ∀ t, t ∈ tags ↔
        (NumberDiffers (pySeq src) (pySeq dst) ∧ t = pyNumberTag pfx srcLoc src dstLoc dst) ∨
        (∃ i a b, TypeDiffAt (pySeq src) (pySeq dst) i a b ∧ t = pyTypeTag pfx srcLoc dstLoc (a, b)) ∨
        (∃ k a b, TypeDiffKey (· = ·) (pyNamed src) (pyNamed dst) k a b ∧ t = pyTypeTag pfx srcLoc dstLoc (a, b)) ∨
        (∃ k, Unknown (pyNamed src) (pyNamed dst) k ∧ t = pyUnknownTag pfx srcLoc dstLoc k) ∨
        (∃ k, Missing (pyNamed src) (pyNamed dst) k ∧ pyTolerated src dst omittedOk = false ∧
          t = pyMissingTag pfx srcLoc dstLoc k) := by
  simp only [generated_python_check_args_eq_model]
  exact C14.python_args_tags_iff pfx srcLoc dstLoc omittedOk h h'

/-- python-brace, `args_tags_iff`, of the regenerated `check_args` -/
theorem pybrace_args_tags_iff_generated (pfx : Extra) (srcLoc dstLoc : List Char) (omittedOk : Bool) (src dst : PyBraceSig)
    (hs : BraceWf src) (hd : BraceWf dst) :
    ∃ tags, FmtArgs.PyBrace.check_args [] pfx () srcLoc src dstLoc dst omittedOk = .ok tags ∧
      ∀ t, t ∈ tags ↔
        (∃ k a b, TypeDiffKey Compatible (braceNamed src) (braceNamed dst) k a b ∧ t = braceTypeTag pfx srcLoc dstLoc a b) ∨
        (∃ k, Unknown (braceNamed src) (braceNamed dst) k ∧ t = braceUnknownTag pfx srcLoc dstLoc k) ∨
        (∃ k, Missing (braceNamed src) (braceNamed dst) k ∧ braceTolerated src dst omittedOk = false ∧
          t = braceMissingTag pfx srcLoc dstLoc k) := by
  simp only [generated_pybrace_check_args_eq_model]
  exact C14.pybrace_args_tags_iff pfx srcLoc dstLoc omittedOk src dst hs hd

/-- perl-brace, `args_tags_iff`, of the regenerated `check_args` -/
theorem perlbrace_args_tags_iff_generated (pfx : Extra) (srcLoc dstLoc : List Char) (omittedOk : Bool) (src dst : PerlBraceSig) :
    ∃ tags, FmtArgs.PerlBrace.check_args [] pfx () srcLoc src dstLoc dst omittedOk = .ok tags ∧
      ∀ t, t ∈ tags ↔
        (∃ k, Unknown (perlNamed src) (perlNamed dst) k ∧ t = perlUnknownTag pfx srcLoc dstLoc k) ∨
        (∃ k, Missing (perlNamed src) (perlNamed dst) k ∧ perlTolerated src dst omittedOk = false ∧
          t = perlMissingTag pfx srcLoc dstLoc k) := by
  simp only [generated_perlbrace_check_args_eq_model]
  exact C14.perlbrace_args_tags_iff pfx srcLoc dstLoc omittedOk src dst

/-- `check_message` of the C and Python-% checkers over the regenerated comparators never raises -/
theorem check_message_nocrash_generated (ctx : Ctx) (msg : Msg (List Char)) (fl : Flags) :
    (∃ t, checkMessage Gen.cBackend ctx msg fl = .ok t) ∧ (∃ t, checkMessage Gen.pyBackend ctx msg fl = .ok t) := by
  obtain ⟨h1, h2, _⟩ := generated_backends_eq_model
  rw [h1, h2]
  exact ⟨C14.c_check_message_nocrash ctx msg fl, C14.python_check_message_nocrash ctx msg fl⟩

/-! Non-vacuity: the regenerated definitions are executable -/

example : FmtArgs.PerlBrace.check_args [] (.safe []) () "msgid".toList ⟨["a".toList], 1⟩ "msgstr".toList ⟨["b".toList], 1⟩ false =
    .ok [⟨"perl-brace-format-string-unknown-argument", [.safe [], .str "b".toList, .safe "in".toList, .safe "msgstr".toList,
            .safe "but not in".toList, .safe "msgid".toList]⟩,
         ⟨"perl-brace-format-string-missing-argument", [.safe [], .str "a".toList, .safe "not in".toList, .safe "msgstr".toList,
            .safe "while in".toList, .safe "msgid".toList]⟩] := by
  rfl

example : FmtArgs.get_last_integer_conversion ⟨[], [], 0, []⟩ 1 = .error .IndexError := by rfl

end I18n.Props.C14Tie
