import I18n.Lemmas.PyBraceFieldGenerated
import I18n.Props.C13
/-!
# C13 — the tie by translation: `Field.__init__` and `FormatString.add_argument` REGENERATED from `lib/strformat/pybrace.py`
are the model

`I18n.Generated.PyBraceField` is rewritten from the repository's current `lib/strformat/pybrace.py` by
`tools/translate/pybracefield2lean.py` on every run.  The theorems below prove the regenerated `add_argument` equal to
`PyBrace.addArgument` and the regenerated `Field.__init__` equal to `PyBrace.fieldInit` — the new numbering state, `self.types`, or the
exception class WITH its argument — for ALL states, ALL scanned fields and all values of the two constants (`SSIZE_MAX`, the digit limit);
then the whole parser with the regenerated constructor in the modelled `finditer` loop (`G.parseWithG`) is `PyBrace.parseWith`, and the
headline theorems of C13 about the python-brace parser are restated about it.
The object under construction is stored in the map before its `types` attribute is assigned: the regenerated function takes the value
the attribute will have as a parameter, and `generated_field_init_types` proves it returns exactly that value (`PyBrace.ownTypes`).
The `finditer` loop, `_printable_prefix`, and the final intersection of the types per key stay hand-modelled (`pybrace parse` streams).
-/
namespace I18n.Props.C13Tie
open I18n I18n.PyBrace I18n.PyBrace.Py I18n.PyBrace.G I18n.Spec.StrFormat I18n.Generated

/-! ## the regenerated definitions are the model -/

/-- `parent.add_argument(name, field)` as regenerated = `PyBrace.addArgument` (`IndexError` / `OverflowError` / `ValueError` as raised) -/
theorem generated_add_argument_eq_model (cfg : Cfg) (st : State) (name : Option (List Char)) (a : Arg) :
    PyBraceField.add_argument cfg st name a = Gen.liftAddErr (addArgument cfg st name a) :=
  Gen.add_argument_eq cfg st name a

/-- `Field(parent, match)` as regenerated, for a scanned field (its `format` group starts with `:`), = `PyBrace.fieldInit`:
    `self.types`, the parent afterwards, or the exception class with its argument -/
theorem generated_field_init_eq_model (cfg : Cfg) (st : State) (f : RawField) (hfmt : ∀ fm, f.format = some fm → ∃ t, fm = ':' :: t) :
    PyBraceField.Field.__init__ cfg (ownTypes cfg f) st f = (fieldInit cfg st f).map (fun r => (r.2, r.1)) :=
  Gen.field_init_eq cfg st f hfmt

/-- the value `self.types` gets is the value that was assumed when the object was stored in the map -/
theorem generated_field_init_types (cfg : Cfg) (st st' : State) (f : RawField) (tp : TySet)
    (hfmt : ∀ fm, f.format = some fm → ∃ t, fm = ':' :: t)
    (h : PyBraceField.Field.__init__ cfg (ownTypes cfg f) st f = .ok (tp, st')) : tp = ownTypes cfg f := by
  rw [generated_field_init_eq_model cfg st f hfmt] at h
  cases hf : fieldInit cfg st f with
  | error e => simp [hf, Except.map] at h
  | ok r =>
    obtain ⟨s2, t2⟩ := r
    simp [hf, Except.map] at h
    obtain ⟨rfl, rfl⟩ := h
    exact Gen.fieldInit_types hf

/-- what `scanField` returns satisfies the hypothesis on the `format` group -/
theorem scanned_format {cs rest : List Char} {f : RawField} (h : scanField cs = some (f, rest)) :
    ∀ fm, f.format = some fm → ∃ t, fm = ':' :: t := by
  intro fm hfm
  obtain ⟨t, ht, _⟩ := (scanField_some h).format fm hfm
  exact ⟨t, ht⟩

theorem loopG_eq (cfg : Cfg) : ∀ fuel cs st items, loopG cfg fuel cs st items = loop cfg fuel cs st items := by
  intro fuel
  induction fuel with
  | zero => intro cs st items; cases cs <;> rfl
  | succ n ih =>
    intro cs st items
    cases cs with
    | nil => rfl
    | cons c cs =>
      simp only [loopG, loop]
      cases hl : scanLiteral (c :: cs).length (c :: cs) with
      | mk t rest0 =>
        cases t with
        | cons t0 ts => exact ih _ _ _
        | nil =>
          simp only []
          cases hsf : scanField (c :: cs) with
          | none => rfl
          | some p =>
            obtain ⟨f, rest⟩ := p
            simp only [Gen.fieldInitG_eq cfg st f (scanned_format hsf)]
            cases fieldInit cfg st f with
            | error e => rfl
            | ok r => obtain ⟨st', tp⟩ := r; exact ih _ _ _

/-- the parser with the regenerated constructor is the model's parser, under any constants -/
theorem generated_parse_eq_model (cfg : Cfg) (s : List Char) : parseWithG cfg s = parseWith cfg s := by
  unfold parseWithG parseWith
  rw [loopG_eq]
  cases loop cfg s.length s { next := some 0, map := [] } [] with
  | error e => rfl
  | ok r => obtain ⟨st, items⟩ := r; simp only []; cases unify s st.map <;> rfl

theorem generated_parse_eq_model_live (s : List Char) : parseG s = PyBrace.parse s := generated_parse_eq_model liveCfg s

/-! ## the headline theorems of C13 (python-brace), of the parser with the regenerated constructor -/

/-- **If the python-brace parser accepts a string then Python's own str.format parser accepts it** -/
theorem brace_accept_parses_generated {s : List Char} {r : PyBrace.Result} (h : parseG s = .ok r) : parseOK s :=
  C13.brace_accept_parses (generated_parse_eq_model_live s ▸ h)

/-- **raise only their own error type** -/
theorem brace_error_own_generated {s : List Char} {e : PyBrace.PErr} (h : parseG s = .error e) : ∃ c a, e = .own c a :=
  C13.brace_error_own (generated_parse_eq_model_live s ▸ h)

/-- **A string rejected by Python's parser is rejected** -/
theorem brace_reject_generated {s : List Char} (h : ¬ parseOK s) : ∃ c a, parseG s = .error (.own c a) := by
  rw [generated_parse_eq_model_live]; exact C13.brace_reject h

/-- **flat strings format** with arguments of the reported positions, names and types (outside the two open typing gaps) -/
theorem flat_formats_partial_generated {s : List Char} {r : PyBrace.Result} {a : Args} (h : parseG s = .ok r)
    (hflat : PyBrace.Flat s) (hq : PyBrace.QuirkFree s) (hm : PyBrace.Matches r a) : format s a = .ok () :=
  C13.flat_formats_partial (generated_parse_eq_model_live s ▸ h) hflat hq hm

/-- the formatting clause is never vacuous -/
theorem matches_exists_generated {s : List Char} {r : PyBrace.Result} (h : parseG s = .ok r) : ∃ a, PyBrace.Matches r a :=
  C13.matches_exists (generated_parse_eq_model_live s ▸ h)

/-! Non-vacuity -/

example : parseG "{0:>{1}.2f} {name!r}".toList = PyBrace.parse "{0:>{1}.2f} {name!r}".toList := generated_parse_eq_model_live _
example : (parseG "{:d}{!s}".toList).toOption.map (fun r => r.argMap.length) = some 2 := by
  rw [generated_parse_eq_model_live]; rfl
example : (parseG "{}{0}".toList).toOption.isNone = true := by
  rw [generated_parse_eq_model_live]; rfl

end I18n.Props.C13Tie
