import I18n.Lemmas.HdrHeaders
import I18n.Lemmas.HdrMime
import I18n.Lemmas.HdrAddr
import I18n.Lemmas.DateTags
import I18n.Lemmas.HdrNoCrash
import I18n.Lemmas.HdrParse
import I18n.Lemmas.HdrExempt
import I18n.Props.C20
import I18n.Lemmas.HdrClean
import I18n.Lemmas.HdrNames
import I18n.Lemmas.HdrScan
import I18n.Lemmas.HdrOnce
/-
# C15 — header diagnostics match the documented conditions

`Hdr.checkAll` is the statement-by-statement model of the header stages of `Checker.check` (`check_comments`, `check_headers`,
`check_mime`, `check_dates`, `check_project`, `check_translator`); `Spec.HeaderRules.Reported` is the rule set of DESIGN.md
Appendix A, one clause per tag.  Everything here holds for every file: any entries, any header text (any lines, any
multiplicity and order of fields), any initial comments, the three kinds, and every result of the library calls.
-/
set_option linter.unusedSimpArgs false
namespace I18n.Props.C15
open I18n I18n.Hdr I18n.Spec.HeaderRules

/-- **header_tags_eq**: whenever the header stages return, the set of diagnostics (tag and extras) they emit is exactly the
    set the rule set prescribes -/
theorem header_tags_eq (x : Ext) (cs : CharsetCheck) (now : Int) (f : File) (ts : List TagCall)
    (h : checkAll x cs now f = some ts) (t : TagCall) : t ∈ ts ↔ Reported x cs now f t := by
  unfold checkAll at h
  cases hh : checkHeaders x f.kind.isTemplate f.entries with
  | none => rw [hh] at h; cases h
  | some ho =>
    rw [hh] at h
    simp only [] at h
    obtain ⟨hmeta, htags⟩ := checkHeaders_spec x f ho hh
    rw [hmeta] at h
    cases hm : checkMime x.db cs (buildMeta (headerLinesOf f.entries) []) with
    | error u => rw [hm] at h; cases u; cases h
    | ok mime =>
      rw [hm] at h
      simp only [] at h
      have hdctx : dateCtx f.kind (buildMeta (headerLinesOf f.entries) []) now =
          ⟨(vals (fieldLines (headerLinesOf f.entries)) "Content-Type").head?, f.kind.isBinary, f.kind.isTemplate,
           vals (fieldLines (headerLinesOf f.entries)) "POT-Creation-Date",
           vals (fieldLines (headerLinesOf f.entries)) "PO-Revision-Date", now⟩ := by
        unfold dateCtx; simp only [meta_getS]
      rw [hdctx] at h
      cases hd : Date.checkDates ⟨(vals (fieldLines (headerLinesOf f.entries)) "Content-Type").head?, f.kind.isBinary,
          f.kind.isTemplate, vals (fieldLines (headerLinesOf f.entries)) "POT-Creation-Date",
          vals (fieldLines (headerLinesOf f.entries)) "PO-Revision-Date", now⟩ with
      | none => rw [hd] at h; cases h
      | some dates =>
        rw [hd] at h
        injection h with h
        subst h
        unfold Reported
        simp only [List.mem_append, htags, mem_checkMime x.db cs _ mime hm, List.mem_map]
        unfold checkProject
        simp only [List.mem_append, mem_projectIdTags, mem_reportTags, mem_checkTranslator_rule]
        have hC : t ∈ checkComments x.db f.kind.isTemplate f.comments ↔ CommentRule x f t := by
          unfold checkComments CommentRule
          simp only [List.mem_filterMap]
          constructor
          · rintro ⟨line, hl, hs⟩
            split at hs
            · rename_i hit
              injection hs with hs
              exact ⟨line, hl, hit, by rw [← hs]; rfl⟩
            · cases hs
          · rintro ⟨line, hl, hit, rfl⟩
            exact ⟨line, hl, by rw [if_pos hit]; rfl⟩
        have hD : (∃ a ∈ dates, ofDateTag a = t) ↔ DateRule now f (fieldLines (headerLinesOf f.entries)) t := by
          unfold DateRule
          rw [hd]
          constructor
          · rintro ⟨a, ha, rfl⟩; exact ⟨dates, rfl, a, ha, rfl⟩
          · rintro ⟨ds, e, a, ha, rfl⟩
            injection e with e; subst e
            exact ⟨a, ha, rfl⟩
        have hCT : ((cnt (fieldLines (headerLinesOf f.entries)) "Content-Type" = 0 ∧
              t = ⟨"no-content-type-header-field", [.safe "Content-Type: text/plain; charset=<encoding>".toList]⟩)
            ∨ (1 < cnt (fieldLines (headerLinesOf f.entries)) "Content-Type" ∧ t = t0 "duplicate-header-field-content-type")
            ∨ ∃ ct ∈ vals (fieldLines (headerLinesOf f.entries)) "Content-Type", CtOneRule x.db cs ct t)
            ↔ ContentTypeRule x cs (fieldLines (headerLinesOf f.entries)) t := by
          unfold ContentTypeRule CtOneRule; rfl
        rw [hC, hD, hCT]
        simp only [or_assoc]

/-! ## no crash -/

/-- **hdr_nocrash**: with the library results at hand and a total charset fragment, no Python exception escapes the header
    stages: the closed error set is empty (`get_character_name` is total on what `find_unusual_characters` reports —
    `unusual_names_total`; an unparsable URL counts as "no scheme" — fix 2f85d76; `check_dates` — C18 `NoCrash`) -/
theorem hdr_nocrash (x : Ext) (cs : CharsetCheck) (hcs : ∀ n, ∃ r, cs n = .ok r) (now : Int) (f : File) :
    checkAll x cs now f ≠ none := by
  have := checkAll_isSome x cs hcs now f
  intro h; rw [h] at this; cases this

/-- **header_tags_total**: unconditional form — with a total charset fragment the stages return, and what they emit is the rule set -/
theorem header_tags_total (x : Ext) (cs : CharsetCheck) (hcs : ∀ n, ∃ r, cs n = .ok r) (now : Int) (f : File) :
    ∃ ts, checkAll x cs now f = some ts ∧ ∀ t, t ∈ ts ↔ Reported x cs now f t := by
  cases h : checkAll x cs now f with
  | none => exact absurd h (hdr_nocrash x cs hcs now f)
  | some ts => exact ⟨ts, rfl, header_tags_eq x cs now f ts h⟩

/-- the same with C20's charset fragment plugged in: total whenever the codecs behave (`Charset.check_total`) -/
theorem hdr_nocrash_charset (x : Ext) (env : Charset.Env) (characters : Option (Option (List (List Nat))))
    (htbl : env.tbl = Generated.Charset.portableEncodings) (hc2e : env.c2e = Generated.Charset.pycodecToEncoding)
    (henc : ∀ enc chars, characters = some (some chars) → Charset.EncodeOk (env.encode enc) chars)
    (now : Int) (f : File) :
    checkAll x (fun n => Charset.checkCharset env n f.kind.isTemplate characters) now f ≠ none :=
  hdr_nocrash x _ (fun n => I18n.Props.C20.check_total env n f.kind.isTemplate characters htbl hc2e henc) now f

/-- a Report-Msgid-Bugs-To value without an address whose URL cannot be parsed is reported, not crashed on -/
theorem unparsable_url_reported (x : Ext) (v : Str) (h1 : ¬ HasAt (x.parseaddr v)) (h2 : x.urlScheme v = none) :
    reportOne x v = [⟨"invalid-report-msgid-bugs-to", [.str v]⟩] := by
  have : hasAt (x.parseaddr v) = false := by
    cases h : hasAt (x.parseaddr v) with
    | false => rfl
    | true => exact absurd ((hasAt_iff _).1 h) h1
  rw [reportOne_eq, this, h2]; rfl

/-! ## the field grammar (`gettext.parse_header`) -/

/-- **parse_header_spec** (lines): the lines are the `\n`-separated pieces of the text, a final `\n` terminating the last -/
theorem parse_header_lines (s : Str) :
    parseHeader s = (headerLines s).map parseLine ∧ LinesOf s (headerLines s) := ⟨rfl, headerLines_spec s⟩

/-- **parse_header_spec** (fields): a line becomes the field `k: v` iff `k` is a non-empty run of printable ASCII other than
    `:`, followed by `:`, and `v` is the rest stripped of blanks and tabs; the split is unique -/
theorem parse_header_field (l k v : Str) : parseLine l = .field k v ↔ FieldLine l k v := parseLine_field_iff l k v

/-- **parse_header_spec** (strays): every other line is kept unchanged as a stray line -/
theorem parse_header_stray (l s : Str) : parseLine l = .stray s ↔ (s = l ∧ ¬ ∃ k v, FieldLine l k v) := parseLine_stray_iff l s

/-- the dictionary `check_headers` builds answers `metadata[k]` with the values of the field lines named `k`, in order -/
theorem metadata_lookup (ls : List Line) (k : String) : (buildMeta ls []).getS k = vals (fieldLines ls) k := meta_getS ls k

/-! ## leaf scanners against their regular expressions' languages -/

/-- **domain classification**: the scanner for `domains._is_special` (alternatives regenerated from the source) accepts a
    lower-cased domain iff it is a documented special-use name or ends in `.`+name after at least one more character -/
theorem special_domain_iff (d : Str) : Domains.isSpecialLowered d = true ↔ SpecialDomain d := Domains.isSpecialLowered_iff d

theorem domains_pin : Generated.HeaderFields.specialDomains = specialDomains := Domains.domains_pin

/-- `email.rsplit('@', 1)[1]`: what follows the last `@` -/
theorem email_domain (addr : Str) (h : '@' ∈ addr) (dom : Str) : DomainOf addr dom ↔ dom = Domains.domainOf addr :=
  Domains.DomainOf_iff addr dom h

theorem special_email_iff (x : Ext) (addr : Str) (h : '@' ∈ addr) :
    Domains.isEmailInSpecialDomain x.db.lower addr = true ↔ SpecialEmail x addr := Domains.isEmailInSpecialDomain_iff x addr h

theorem dotless_email_iff (addr : Str) (h : '@' ∈ addr) :
    Domains.isEmailInDotlessDomain addr = true ↔ DotlessEmail addr := Domains.isEmailInDotlessDomain_iff addr h

/-- the order of precedence of the address verdicts is the documented one -/
theorem address_verdict (x : Ext) (boiler : List String) (addr : Str) (h : HasAt addr) (v : AddrVerdict) :
    addrVerdict x boiler addr = v ↔ AddrIs x boiler addr v := addrVerdict_iff x boiler addr h v

/-- **content_type_form**: the scanner for `(\Atext/plain; )?\bcharset=([^\s;]+)\Z` under `re.search` -/
theorem content_type_form (db : UDB) (ct : Str) :
    (∀ full enc, matchContentType db ct = some (full, enc) ↔ CharsetOf db ct full enc) ∧
    (matchContentType db ct = none ↔ ¬ ∃ full enc, CharsetParam db ct full enc) :=
  ⟨matchContentType_some_iff db ct, matchContentType_none_iff db ct⟩

/-- **conflict_marker_spec** -/
theorem conflict_marker_spec (l : Str) : isConflictMarker l = true ↔ ConflictMarker l := isConflictMarker_iff l

/-- **unusual_characters_spec**: the characters reported by `unusual-character-in-header-entry` are exactly the unusual ones of
    the text (`Unusual`: C0 except TAB/LF/ESC, DEL, C1, U+FEFF, U+FFFD–U+FFFF, ESC not followed by `[`, `¿` directly after a word
    character), each once, in code-point order -/
theorem unusual_characters_spec (db : UDB) (text : Str) :
    (∀ c, c ∈ sortedChars (unusualChars db text) ↔ Unusual db text c) ∧
    (sortedChars (unusualChars db text)).Pairwise (fun a b => a.toNat < b.toNat) :=
  ⟨fun c => by rw [mem_sortedChars]; exact mem_unusualAux db none text c, sortedChars_sorted _⟩

/-- **comment_search_spec**: a comment line is boilerplate iff at some position (with the character before it) one of the
    patterns matches; the patterns themselves: `\b<literal>\b` (`wordLit_iff`), `\bCopyright \S+ YEAR\b` -/
theorem comment_search_spec (db : UDB) (tmpl : Bool) (line : Str) :
    commentLineHit db tmpl line = true ↔ ∃ pre rest, line = pre ++ rest ∧ commentHit db tmpl pre.getLast? rest = true := by
  unfold commentLineHit
  rw [anyPos_iff]
  constructor
  · rintro ⟨pre, rest, e, h⟩
    refine ⟨pre, rest, e, ?_⟩
    unfold lastOr at h; cases hp : pre.getLast? <;> rw [hp] at h <;> exact h
  · rintro ⟨pre, rest, e, h⟩
    refine ⟨pre, rest, e, ?_⟩
    unfold lastOr; cases hp : pre.getLast? <;> rw [hp] at h <;> exact h

theorem comment_word_pattern (db : UDB) (l : Str) (prev : Option Char) (rest : Str) :
    wordLit db l prev rest = true ↔
      ∃ after, rest = l ++ after ∧ boundary db prev l.head? = true ∧ boundary db l.getLast? after.head? = true :=
  wordLit_iff db l prev rest

theorem comment_copyright_pattern (db : UDB) (prev : Option Char) (rest : Str) :
    copyrightYear db prev rest = true ↔
      ∃ run after, rest = "Copyright ".toList ++ run ++ " YEAR".toList ++ after ∧ run ≠ [] ∧ (∀ c ∈ run, db.isSpace c = false) ∧
        boundary db prev (some 'C') = true ∧ boundary db (some 'R') after.head? = true :=
  copyrightYear_iff db prev rest

/-! ## pins: what the hand-written scanners and the rule set assume of the source, regenerated on every run -/

theorem source_pins :
    Generated.HeaderFields.dedicated = ownRules ∧
    Generated.HeaderFields.mimeVersionGood = "1.0" ∧ Generated.HeaderFields.cteGood = "8bit" ∧
    Generated.HeaderFields.charsetBoilerplate = "CHARSET" ∧
    Generated.HeaderFields.projectBoilerplate = ["PACKAGE VERSION", "PROJECT VERSION"] ∧
    Generated.HeaderFields.emptyScheme = "" ∧
    Generated.HeaderFields.reportBoilerplate = ["EMAIL@ADDRESS"] ∧
    Generated.HeaderFields.translatorBoilerplate = ["EMAIL@ADDRESS"] ∧
    Generated.HeaderFields.teamBoilerplate = ["EMAIL@ADDRESS", "LL@li.org"] ∧
    Generated.HeaderFields.headerFlag = "fuzzy" ∧
    Generated.HeaderFields.commentPatterns = ["\\bCopyright \\S+ YEAR\\b", "\\bPACKAGE package\\b", "\\bTHE PACKAGE'S COPYRIGHT HOLDER\\b"] ∧
    Generated.HeaderFields.commentPatternsTranslated = ["(?<=>), YEAR\\b", "<EMAIL@ADDRESS>", "\\bFIRST AUTHOR\\b"] ∧
    Generated.HeaderFields.contentTypeRegex = "(\\Atext/plain; )?\\bcharset=([^\\s;]+)\\Z" ∧
    Generated.HeaderFields.projectNameRegex = "[^_\\d\\W]" ∧ Generated.HeaderFields.projectVersionRegex = "[0-9]" ∧
    Generated.HeaderFields.fieldNameRegex = "^[\\x21-\\x39\\x3B-\\x7E]+$" ∧ Generated.HeaderFields.fieldNameRegexMethod = "match" ∧
    Generated.HeaderFields.conflictRegex = "^#-#-#-#-#  .+  #-#-#-#-#$" ∧ Generated.HeaderFields.conflictRegexMethod = "search" ∧
    Generated.HeaderFields.parseHeaderConsts = ["\n", "", ":", " \t"] ∧
    Generated.HeaderFields.lineBreaks = [0xA, 0xB, 0xC, 0xD, 0x1C, 0x1D, 0x1E, 0x85, 0x2028, 0x2029] ∧
    Generated.HeaderFields.unusualUnlessBracket = 0x1B ∧ Generated.HeaderFields.unusualAfterWord = 0xBF ∧
    Generated.HeaderFields.unusualAlways = [(0x0, 0x8), (0xB, 0x1A), (0x1C, 0x1F), (0x7F, 0x9F), (0xFEFF, 0xFEFF), (0xFFFD, 0xFFFF)] := by
  decide

/-- the registered names differ pairwise even up to case, so "the registered name equal up to case" is well defined -/
theorem registry_case_distinct :
    ((Generated.HeaderFields.headerFields.map fun s => asciiLower s.toList).Nodup) := by decide

/-- `get_character_name` has a name for every character `find_unusual_characters` can report -/
theorem unusual_names_total : candidates.all (fun n => (nameOfNat n).isSome) = true := Hdr.unusual_names_total

/-! ## where the file kind matters -/

/-- the same file as another kind -/
def asKind (f : File) (tmpl bin : Bool) : File := ⟨⟨tmpl, bin⟩, f.comments, f.entries⟩

/-- **pot_exemptions**: in a template the header entry may be fuzzy and the translator / team placeholders are expected —
    `fuzzy-header-entry`, `boilerplate-in-last-translator`, `boilerplate-in-language-team` are never due there, and that is
    the only way the entry, translator and team rules depend on the file being a template; the stray-line, field-name,
    MIME, Content-Type (given the charset verdict), project and bug-address rules do not take the file kind at all. -/
theorem pot_exemptions (x : Ext) (f : File) (fs : List (Str × Str)) (b : Bool) (t : TagCall) :
    (EntryRule x (asKind f true b) t ↔ (EntryRule x (asKind f false b) t ∧ t ≠ t0 "fuzzy-header-entry")) ∧
    (TranslatorRule x (asKind f true b) fs t ↔
      (TranslatorRule x (asKind f false b) fs t ∧ t.name ≠ "boilerplate-in-last-translator")) ∧
    (TeamRule x (asKind f true b) fs t ↔
      (TeamRule x (asKind f false b) fs t ∧ t.name ≠ "boilerplate-in-language-team")) := by
  refine ⟨?_, ?_, ?_⟩
  · unfold EntryRule asKind
    simp only [Bool.true_eq_false, false_and, and_false, false_or]
    constructor
    · rintro (⟨h, rfl⟩ | ⟨e, i, he, h⟩)
      · exact ⟨Or.inl ⟨h, rfl⟩, by simp [t0]⟩
      · rcases h with ⟨h, rfl⟩ | ⟨h, rfl⟩ | ⟨h, rfl⟩ | ⟨fl, hfl, hne, rfl⟩ | ⟨fl, hc, rfl⟩ | ⟨text, h1, h2, rfl⟩
        · exact ⟨Or.inr ⟨e, i, he, Or.inl ⟨h, rfl⟩⟩, by simp [t0]⟩
        · exact ⟨Or.inr ⟨e, i, he, Or.inr (Or.inl ⟨h, rfl⟩)⟩, by simp [t0]⟩
        · exact ⟨Or.inr ⟨e, i, he, Or.inr (Or.inr (Or.inl ⟨h, rfl⟩))⟩, by simp [t0]⟩
        · exact ⟨Or.inr ⟨e, i, he, Or.inr (Or.inr (Or.inr (Or.inr (Or.inl ⟨fl, hfl, hne, rfl⟩))))⟩, by simp [t0]⟩
        · exact ⟨Or.inr ⟨e, i, he, Or.inr (Or.inr (Or.inr (Or.inr (Or.inr (Or.inl ⟨fl, hc, rfl⟩)))))⟩, by simp [t0]⟩
        · exact ⟨Or.inr ⟨e, i, he, Or.inr (Or.inr (Or.inr (Or.inr (Or.inr (Or.inr ⟨text, h1, h2, rfl⟩)))))⟩, by simp [t0]⟩
    · rintro ⟨h | ⟨e, i, he, h⟩, hne⟩
      · exact Or.inl h
      · refine Or.inr ⟨e, i, he, ?_⟩
        rcases h with h | h | h | ⟨_, _, rfl⟩ | h | h | h
        · exact Or.inl h
        · exact Or.inr (Or.inl h)
        · exact Or.inr (Or.inr (Or.inl h))
        · exact absurd rfl hne
        · exact Or.inr (Or.inr (Or.inr (Or.inl h)))
        · exact Or.inr (Or.inr (Or.inr (Or.inr (Or.inl h))))
        · exact Or.inr (Or.inr (Or.inr (Or.inr (Or.inr h))))
  · unfold TranslatorRule asKind
    simp only [Bool.true_eq_false, false_and, and_false, false_or]
    constructor
    · rintro (⟨h, rfl⟩ | ⟨h, rfl⟩ | ⟨v, hv, h⟩)
      · exact ⟨Or.inl ⟨h, rfl⟩, by simp [t0]⟩
      · exact ⟨Or.inr (Or.inl ⟨h, rfl⟩), by simp [t0]⟩
      · rcases h with ⟨h, rfl⟩ | ⟨ha, ⟨h, rfl⟩ | ⟨h, rfl⟩⟩
        · exact ⟨Or.inr (Or.inr ⟨v, hv, Or.inl ⟨h, rfl⟩⟩), by simp⟩
        · exact ⟨Or.inr (Or.inr ⟨v, hv, Or.inr ⟨ha, Or.inl ⟨h, rfl⟩⟩⟩), by simp⟩
        · exact ⟨Or.inr (Or.inr ⟨v, hv, Or.inr ⟨ha, Or.inr (Or.inr ⟨h, rfl⟩)⟩⟩), by simp⟩
    · rintro ⟨h | h | ⟨v, hv, h⟩, hne⟩
      · exact Or.inl h
      · exact Or.inr (Or.inl h)
      · refine Or.inr (Or.inr ⟨v, hv, ?_⟩)
        rcases h with h | ⟨ha, h | ⟨_, _, rfl⟩ | h⟩
        · exact Or.inl h
        · exact Or.inr ⟨ha, Or.inl h⟩
        · exact absurd rfl hne
        · exact Or.inr ⟨ha, Or.inr h⟩
  · unfold TeamRule asKind
    simp only [Bool.true_eq_false, false_and, and_false, false_or]
    constructor
    · rintro (⟨h, rfl⟩ | ⟨h, rfl⟩ | ⟨v, hv, ha, h⟩)
      · exact ⟨Or.inl ⟨h, rfl⟩, by simp [t0]⟩
      · exact ⟨Or.inr (Or.inl ⟨h, rfl⟩), by simp [t0]⟩
      · rcases h with ⟨h, rfl⟩ | ⟨h, rfl⟩ | ⟨h, tr, htr, rfl⟩
        · exact ⟨Or.inr (Or.inr ⟨v, hv, ha, Or.inl ⟨h, rfl⟩⟩), by simp⟩
        · exact ⟨Or.inr (Or.inr ⟨v, hv, ha, Or.inr (Or.inr (Or.inl ⟨h, rfl⟩))⟩), by simp⟩
        · exact ⟨Or.inr (Or.inr ⟨v, hv, ha, Or.inr (Or.inr (Or.inr ⟨h, tr, htr, rfl⟩))⟩), by simp⟩
    · rintro ⟨h | h | ⟨v, hv, ha, h⟩, hne⟩
      · exact Or.inl h
      · exact Or.inr (Or.inl h)
      · refine Or.inr (Or.inr ⟨v, hv, ha, ?_⟩)
        rcases h with h | ⟨_, _, rfl⟩ | h | h
        · exact Or.inl h
        · exact absurd rfl hne
        · exact Or.inr (Or.inl h)
        · exact Or.inr (Or.inr h)

/-- in a translated file the three placeholders ARE due (the exemption is exactly the template flag) -/
theorem po_boilerplate_due (x : Ext) (f : File) (fs : List (Str × Str)) (hk : f.kind.isTemplate = false) (v : Str) :
    (v ∈ vals fs "Last-Translator" → HasAt (x.parseaddr v) → AddrIs x ["EMAIL@ADDRESS"] (x.parseaddr v) .boilerplate →
      TranslatorRule x f fs ⟨"boilerplate-in-last-translator", [.str v]⟩) ∧
    (v ∈ vals fs "Language-Team" → HasAt (x.parseaddr v) → AddrIs x ["EMAIL@ADDRESS", "LL@li.org"] (x.parseaddr v) .boilerplate →
      TeamRule x f fs ⟨"boilerplate-in-language-team", [.str v]⟩) :=
  ⟨fun hv ha hb => Or.inr (Or.inr ⟨v, hv, Or.inr ⟨ha, Or.inr (Or.inl ⟨hb, hk, rfl⟩)⟩⟩),
   fun hv ha hb => Or.inr (Or.inr ⟨v, hv, ha, Or.inr (Or.inl ⟨hb, hk, rfl⟩)⟩)⟩

/-- the comment patterns looked for in a template are among those looked for in a translated file (the three msginit
    patterns are the difference) -/
theorem pot_comments_subset (x : Ext) (f : File) (b : Bool) (t : TagCall) :
    CommentRule x (asKind f true b) t → CommentRule x (asKind f false b) t := by
  unfold CommentRule asKind
  rintro ⟨line, hl, hit, rfl⟩
  refine ⟨line, hl, ?_, rfl⟩
  unfold commentLineHit at hit ⊢
  -- a hit of the template alternation at some position is a hit of the larger alternation there
  have hmono : ∀ (prev : Option Char) (s : Str), commentHit x.db true prev s = true → commentHit x.db false prev s = true := by
    intro prev s h
    unfold commentHit at h ⊢
    simp only [Bool.not_true, Bool.false_and, Bool.or_false] at h
    rw [h]; rfl
  have mono : ∀ (prev : Option Char) (s : Str), anyPos (commentHit x.db true) prev s = true → anyPos (commentHit x.db false) prev s = true := by
    intro prev s
    induction s generalizing prev with
    | nil => unfold anyPos; exact hmono prev []
    | cons c cs ih =>
      unfold anyPos
      simp only [Bool.or_eq_true]
      rintro (h | h)
      · exact Or.inl (hmono _ _ h)
      · exact Or.inr (ih _ h)
  exact mono none line hit

/-- **mo_exemptions**: the binary flag is consulted by the date rule only, and there it excuses exactly the absence of
    POT-Creation-Date: a missing PO-Revision-Date is still reported in an MO file, a missing POT-Creation-Date is reported in
    PO and POT files -/
theorem mo_exemptions (now : Int) (f : File) (fs : List (Str × Str)) :
    (DateRule now f fs ⟨"no-date-header-field", [.str "POT-Creation-Date".toList]⟩ ↔
      (vals fs "POT-Creation-Date" = [] ∧ f.kind.isBinary = false)) ∧
    (DateRule now f fs ⟨"no-date-header-field", [.str "PO-Revision-Date".toList]⟩ ↔ vals fs "PO-Revision-Date" = []) := by
  have key : ∀ g : Date.Field, DateRule now f fs (ofDateTag (noDate g)) ↔
      ((match g with | .pot => vals fs "POT-Creation-Date" | .po => vals fs "PO-Revision-Date") = [] ∧ ¬ (g = .pot ∧ f.kind.isBinary = true)) := by
    intro g
    unfold DateRule
    constructor
    · rintro ⟨ds, hd, d, hm, e⟩
      have hdg : d = noDate g := by
        obtain ⟨n, a⟩ := d
        unfold ofDateTag noDate at e
        simp only [TagCall.mk.injEq, List.map_cons, List.map_nil] at e
        obtain ⟨e1, e2⟩ := e
        unfold noDate
        subst e1
        cases a with
        | nil => simp at e2
        | cons a1 r =>
          cases r with
          | nil =>
            cases a1 with
            | safe s => simp at e2
            | str s => simp at e2; subst e2; rfl
          | cons a2 r2 => simp at e2
      subst hdg
      have := (noDate_mem_checkDates _ g ds hd).1 hm
      cases g <;> simpa using this
    · intro h
      have hsome := Date.checkDates_isSome ⟨(vals fs "Content-Type").head?, f.kind.isBinary, f.kind.isTemplate,
        vals fs "POT-Creation-Date", vals fs "PO-Revision-Date", now⟩
      obtain ⟨ds, hd⟩ := Option.isSome_iff_exists.1 hsome
      refine ⟨ds, hd, noDate g, ?_, rfl⟩
      apply (noDate_mem_checkDates _ g ds hd).2
      cases g <;> simpa using h
  constructor
  · have := key .pot
    simp only [true_and] at this
    have e : ofDateTag (noDate .pot) = ⟨"no-date-header-field", [.str "POT-Creation-Date".toList]⟩ := by decide
    rw [e] at this
    rw [this]
    cases f.kind.isBinary <;> simp
  · have := key .po
    have e : ofDateTag (noDate .po) = ⟨"no-date-header-field", [.str "PO-Revision-Date".toList]⟩ := by decide
    rw [e] at this
    rw [this]
    simp

/-! ## multiplicity -/

/-- **value_reports_once**: thanks to `sorted(set(values))` and the sorted distinct field names, no diagnostic of the
    MIME-Version, Content-Transfer-Encoding, Project-Id-Version, Report-Msgid-Bugs-To, Last-Translator, Language-Team stages and
    no field-name diagnostic is emitted twice, whatever the multiplicity of the fields and values in the header -/
theorem value_reports_once (x : Ext) (tmpl : Bool) (m : Meta) :
    (mimeVersionTags m).Nodup ∧ (cteTags m).Nodup ∧ (checkProject x m).Nodup ∧ (checkTranslator x tmpl m).Nodup ∧
    ((sortedSet (m.map (·.1))).flatMap (fieldNameTags x m)).Nodup :=
  ⟨mimeVersionTags_nodup m, cteTags_nodup m, checkProject_nodup x m, checkTranslator_nodup x tmpl m, nameTags_nodup x m⟩

/-! ## a header that follows every convention -/

/-- **clean_header_silent**: on a file that follows every convention (`Conventional`) the rule set prescribes nothing, and the
    header stages emit nothing -/
theorem clean_header_silent (x : Ext) (cs : CharsetCheck) (hcs : ∀ n, ∃ r, cs n = .ok r) (now : Int) (f : File)
    (c : Conventional x cs now f) : (∀ t, ¬ Reported x cs now f t) ∧ checkAll x cs now f = some [] := by
  refine ⟨conventional_silent x cs now f c, ?_⟩
  cases h : checkAll x cs now f with
  | none => exact absurd h (hdr_nocrash x cs hcs now f)
  | some ts =>
    cases ts with
    | nil => rfl
    | cons t r =>
      exact absurd ((header_tags_eq x cs now f (t :: r) h t).1 (by simp)) (conventional_silent x cs now f c t)

/-! ## tag names -/

/-- **tag_sites_pin**: the `self.tag(…)` calls in the six methods (ast walk of this run) name exactly the tags of the model -/
theorem tag_sites_pin :
    sourceTagNames = modelTagNames ∧
    ((Generated.HeaderFields.tagsOf.filter fun e => stageMethods.contains e.1).all fun e => !e.2.2) = true ∧
    (stageMethods.all fun m => Generated.HeaderFields.tagsOf.any fun e => e.1 == m) = true := Hdr.tag_sites_pin

/-- every diagnostic of the header stages carries one of those names -/
theorem emitted_names_registered (x : Ext) (cs : CharsetCheck) (now : Int) (f : File) (ts : List TagCall)
    (h : checkAll x cs now f = some ts) : ∀ t ∈ ts, t.name ∈ modelTagNames :=
  fun t ht => reported_name x cs now f t ((header_tags_eq x cs now f ts h t).1 ht)

/-! ## non-vacuity: the model run by the kernel on concrete files -/

section Examples

private def pa (v : Str) : Str :=
  if v = "Jakub Wilk <jwilk@jwilk.net>".toList then "jwilk@jwilk.net".toList
  else if v = "Polish <pl@lists.jwilk.net>".toList then "pl@lists.jwilk.net".toList
  else if v = "FULL NAME <EMAIL@ADDRESS>".toList then "EMAIL@ADDRESS".toList
  else if v = "LANGUAGE <LL@li.org>".toList then "LL@li.org".toList
  else v

private def exExt : Ext := {
  db := { isWord := fun c => c.isAlphanum || c = '_', isSpace := fun c => c = ' ' || c = '\t' || c = '\n',
          isDigit := fun c => c.isDigit, lower := asciiLower }
  parseaddr := pa
  urlScheme := fun v => if v = "http://[foo".toList then none else some []
  closeFuzzy := fun _ => false
  closeField := fun _ => none }

private def header (report translator team mime : String) : Str :=
  "Project-Id-Version: Gizmo Enhancer 1.0\nReport-Msgid-Bugs-To: ".toList ++ report.toList
  ++ "\nPOT-Creation-Date: 2012-11-01 14:42+0100\nPO-Revision-Date: 2012-11-01 14:42+0100\nLast-Translator: ".toList
  ++ translator.toList ++ "\nLanguage-Team: ".toList ++ team.toList ++ "\nLanguage: pl\nMIME-Version: ".toList ++ mime.toList
  ++ "\nContent-Type: text/plain; charset=UTF-8\nContent-Transfer-Encoding: 8bit\n".toList

private def fileOf (k : Kind) (text : Str) (flags : List Str) : File :=
  ⟨k, "Polish translation of gizmo\nCopyright (C) 2012 Jakub Wilk".toList, [⟨[], none, false, [], none, text, none, flags⟩]⟩

private def cleanHeader : Str := header "gizmoenhancer@jwilk.net" "Jakub Wilk <jwilk@jwilk.net>" "Polish <pl@lists.jwilk.net>" "1.0"
private def potHeader : Str := header "gizmoenhancer@jwilk.net" "FULL NAME <EMAIL@ADDRESS>" "LANGUAGE <LL@li.org>" "1.0"

private def csOk : CharsetCheck := fun n => .ok ([], some n)
private def now2026 : Int := 1767225600000000

set_option maxRecDepth 100000 in
/-- a clean header is silent, in every kind of file -/
example : checkAll exExt csOk now2026 (fileOf .po cleanHeader []) = some []
    ∧ checkAll exExt csOk now2026 (fileOf .pot cleanHeader []) = some []
    ∧ checkAll exExt csOk now2026 (fileOf .mo cleanHeader []) = some [] := by decide +kernel

set_option maxRecDepth 100000 in
/-- the template placeholders and a fuzzy header entry: three tags in a PO file, none in a POT file -/
example : checkAll exExt csOk now2026 (fileOf .po potHeader ["fuzzy".toList]) = some [
      ⟨"fuzzy-header-entry", []⟩,
      ⟨"boilerplate-in-last-translator", [.str "FULL NAME <EMAIL@ADDRESS>".toList]⟩,
      ⟨"boilerplate-in-language-team", [.str "LANGUAGE <LL@li.org>".toList]⟩]
    ∧ checkAll exExt csOk now2026 (fileOf .pot potHeader ["fuzzy".toList]) = some [] := by decide +kernel

set_option maxRecDepth 100000 in
/-- the witness of fix 2f85d76 (unparsable URL), a dot-less domain, a reserved domain, a bad MIME version -/
example : checkAll exExt csOk now2026
      (fileOf .po (header "http://[foo" "root@localhost" "team@example.org" "1.1") []) = some [
      ⟨"invalid-mime-version", [.str "1.1".toList, .str "=>".toList, .str "1.0".toList]⟩,
      ⟨"invalid-report-msgid-bugs-to", [.str "http://[foo".toList]⟩,
      ⟨"invalid-last-translator", [.str "root@localhost".toList]⟩,
      ⟨"invalid-language-team", [.str "team@example.org".toList]⟩] := by decide +kernel

example : Domains.isSpecialLowered "example.com".toList = true ∧ Domains.isSpecialLowered "notexample.com".toList = false
    ∧ Domains.isSpecialLowered "foo.test".toList = true ∧ Domains.isSpecialLowered "local".toList = false
    ∧ Domains.isSpecialLowered "a.local".toList = true := by decide

example : parseHeader "A: b \nstray\nX-y:\tz\n".toList =
    [.field "A".toList "b".toList, .stray "stray".toList, .field "X-y".toList "z".toList] := by decide

example : matchContentType exExt.db "text/plain; charset=UTF-8".toList = some (true, "UTF-8".toList)
    ∧ matchContentType exExt.db "text/plain;charset=UTF-8".toList = some (false, "UTF-8".toList)
    ∧ matchContentType exExt.db "text/plain; xcharset=UTF-8".toList = none
    ∧ matchContentType exExt.db "text/plain; charset=utf-8;".toList = none := by decide

end Examples

end I18n.Props.C15
