import I18n.Lemmas.HdrHeaders
import I18n.Lemmas.HdrMime
import I18n.Lemmas.HdrAddr
import I18n.Lemmas.DateTags
/-
# C15 — header diagnostics match the documented conditions

`Hdr.checkAll` is the statement-by-statement model of the header stages of `Checker.check` (`check_comments`, `check_headers`,
`check_mime`, `check_dates`, `check_project`, `check_translator`); `Spec.HeaderRules.Reported` is the rule set of DESIGN.md
Appendix A, one clause per tag.  Everything here holds for every file: any entries, any header text (any lines, any
multiplicity and order of fields), any initial comments, the three kinds, and every result of the library calls.
-/
set_option linter.unusedSimpArgs false
namespace I18n.Props.C15
open I18n I18n.Hdr I18n.Spec.HeaderRules

/-- **header_tags_eq**: whenever the header stages return, the set of diagnostics (tag and extras) they emit is exactly the
    set the rule set prescribes -/
theorem header_tags_eq (x : Ext) (cs : CharsetCheck) (now : Int) (f : File) (ts : List TagCall)
    (h : checkAll x cs now f = some ts) (t : TagCall) : t ∈ ts ↔ Reported x cs now f t := by
  unfold checkAll at h
  cases hh : checkHeaders x f.kind.isTemplate f.entries with
  | none => rw [hh] at h; cases h
  | some ho =>
    rw [hh] at h
    simp only [] at h
    obtain ⟨hmeta, htags⟩ := checkHeaders_spec x f ho hh
    rw [hmeta] at h
    cases hm : checkMime x.db cs (buildMeta (headerLinesOf f.entries) []) with
    | error u => rw [hm] at h; cases u; cases h
    | ok mime =>
      rw [hm] at h
      simp only [] at h
      have hdctx : dateCtx f.kind (buildMeta (headerLinesOf f.entries) []) now =
          ⟨(vals (fieldLines (headerLinesOf f.entries)) "Content-Type").head?, f.kind.isBinary, f.kind.isTemplate,
           vals (fieldLines (headerLinesOf f.entries)) "POT-Creation-Date",
           vals (fieldLines (headerLinesOf f.entries)) "PO-Revision-Date", now⟩ := by
        unfold dateCtx; simp only [meta_getS]
      rw [hdctx] at h
      cases hd : Date.checkDates ⟨(vals (fieldLines (headerLinesOf f.entries)) "Content-Type").head?, f.kind.isBinary,
          f.kind.isTemplate, vals (fieldLines (headerLinesOf f.entries)) "POT-Creation-Date",
          vals (fieldLines (headerLinesOf f.entries)) "PO-Revision-Date", now⟩ with
      | none => rw [hd] at h; cases h
      | some dates =>
        rw [hd] at h
        injection h with h
        subst h
        unfold Reported
        simp only [List.mem_append, htags, mem_checkMime x.db cs _ mime hm, List.mem_map]
        unfold checkProject
        simp only [List.mem_append, mem_projectIdTags, mem_reportTags, mem_checkTranslator_rule]
        have hC : t ∈ checkComments x.db f.kind.isTemplate f.comments ↔ CommentRule x f t := by
          unfold checkComments CommentRule
          simp only [List.mem_filterMap]
          constructor
          · rintro ⟨line, hl, hs⟩
            split at hs
            · rename_i hit
              injection hs with hs
              exact ⟨line, hl, hit, by rw [← hs]; rfl⟩
            · cases hs
          · rintro ⟨line, hl, hit, rfl⟩
            exact ⟨line, hl, by rw [if_pos hit]; rfl⟩
        have hD : (∃ a ∈ dates, ofDateTag a = t) ↔ DateRule now f (fieldLines (headerLinesOf f.entries)) t := by
          unfold DateRule
          rw [hd]
          constructor
          · rintro ⟨a, ha, rfl⟩; exact ⟨dates, rfl, a, ha, rfl⟩
          · rintro ⟨ds, e, a, ha, rfl⟩
            injection e with e; subst e
            exact ⟨a, ha, rfl⟩
        have hCT : ((cnt (fieldLines (headerLinesOf f.entries)) "Content-Type" = 0 ∧
              t = ⟨"no-content-type-header-field", [.safe "Content-Type: text/plain; charset=<encoding>".toList]⟩)
            ∨ (1 < cnt (fieldLines (headerLinesOf f.entries)) "Content-Type" ∧ t = t0 "duplicate-header-field-content-type")
            ∨ ∃ ct ∈ vals (fieldLines (headerLinesOf f.entries)) "Content-Type", CtOneRule x.db cs ct t)
            ↔ ContentTypeRule x cs (fieldLines (headerLinesOf f.entries)) t := by
          unfold ContentTypeRule CtOneRule; rfl
        rw [hC, hD, hCT]
        simp only [or_assoc]

end I18n.Props.C15
