import I18n.Lemmas.HdrHeaders
import I18n.Lemmas.HdrMime
import I18n.Lemmas.HdrAddr
import I18n.Lemmas.DateTags
import I18n.Lemmas.HdrNoCrash
import I18n.Lemmas.HdrParse
import I18n.Lemmas.HdrExempt
import I18n.Props.C20
/-
# C15 — header diagnostics match the documented conditions

`Hdr.checkAll` is the statement-by-statement model of the header stages of `Checker.check` (`check_comments`, `check_headers`,
`check_mime`, `check_dates`, `check_project`, `check_translator`); `Spec.HeaderRules.Reported` is the rule set of DESIGN.md
Appendix A, one clause per tag.  Everything here holds for every file: any entries, any header text (any lines, any
multiplicity and order of fields), any initial comments, the three kinds, and every result of the library calls.
-/
set_option linter.unusedSimpArgs false
namespace I18n.Props.C15
open I18n I18n.Hdr I18n.Spec.HeaderRules

/-- **header_tags_eq**: whenever the header stages return, the set of diagnostics (tag and extras) they emit is exactly the
    set the rule set prescribes -/
theorem header_tags_eq (x : Ext) (cs : CharsetCheck) (now : Int) (f : File) (ts : List TagCall)
    (h : checkAll x cs now f = some ts) (t : TagCall) : t ∈ ts ↔ Reported x cs now f t := by
  unfold checkAll at h
  cases hh : checkHeaders x f.kind.isTemplate f.entries with
  | none => rw [hh] at h; cases h
  | some ho =>
    rw [hh] at h
    simp only [] at h
    obtain ⟨hmeta, htags⟩ := checkHeaders_spec x f ho hh
    rw [hmeta] at h
    cases hm : checkMime x.db cs (buildMeta (headerLinesOf f.entries) []) with
    | error u => rw [hm] at h; cases u; cases h
    | ok mime =>
      rw [hm] at h
      simp only [] at h
      have hdctx : dateCtx f.kind (buildMeta (headerLinesOf f.entries) []) now =
          ⟨(vals (fieldLines (headerLinesOf f.entries)) "Content-Type").head?, f.kind.isBinary, f.kind.isTemplate,
           vals (fieldLines (headerLinesOf f.entries)) "POT-Creation-Date",
           vals (fieldLines (headerLinesOf f.entries)) "PO-Revision-Date", now⟩ := by
        unfold dateCtx; simp only [meta_getS]
      rw [hdctx] at h
      cases hd : Date.checkDates ⟨(vals (fieldLines (headerLinesOf f.entries)) "Content-Type").head?, f.kind.isBinary,
          f.kind.isTemplate, vals (fieldLines (headerLinesOf f.entries)) "POT-Creation-Date",
          vals (fieldLines (headerLinesOf f.entries)) "PO-Revision-Date", now⟩ with
      | none => rw [hd] at h; cases h
      | some dates =>
        rw [hd] at h
        injection h with h
        subst h
        unfold Reported
        simp only [List.mem_append, htags, mem_checkMime x.db cs _ mime hm, List.mem_map]
        unfold checkProject
        simp only [List.mem_append, mem_projectIdTags, mem_reportTags, mem_checkTranslator_rule]
        have hC : t ∈ checkComments x.db f.kind.isTemplate f.comments ↔ CommentRule x f t := by
          unfold checkComments CommentRule
          simp only [List.mem_filterMap]
          constructor
          · rintro ⟨line, hl, hs⟩
            split at hs
            · rename_i hit
              injection hs with hs
              exact ⟨line, hl, hit, by rw [← hs]; rfl⟩
            · cases hs
          · rintro ⟨line, hl, hit, rfl⟩
            exact ⟨line, hl, by rw [if_pos hit]; rfl⟩
        have hD : (∃ a ∈ dates, ofDateTag a = t) ↔ DateRule now f (fieldLines (headerLinesOf f.entries)) t := by
          unfold DateRule
          rw [hd]
          constructor
          · rintro ⟨a, ha, rfl⟩; exact ⟨dates, rfl, a, ha, rfl⟩
          · rintro ⟨ds, e, a, ha, rfl⟩
            injection e with e; subst e
            exact ⟨a, ha, rfl⟩
        have hCT : ((cnt (fieldLines (headerLinesOf f.entries)) "Content-Type" = 0 ∧
              t = ⟨"no-content-type-header-field", [.safe "Content-Type: text/plain; charset=<encoding>".toList]⟩)
            ∨ (1 < cnt (fieldLines (headerLinesOf f.entries)) "Content-Type" ∧ t = t0 "duplicate-header-field-content-type")
            ∨ ∃ ct ∈ vals (fieldLines (headerLinesOf f.entries)) "Content-Type", CtOneRule x.db cs ct t)
            ↔ ContentTypeRule x cs (fieldLines (headerLinesOf f.entries)) t := by
          unfold ContentTypeRule CtOneRule; rfl
        rw [hC, hD, hCT]
        simp only [or_assoc]

/-! ## no crash -/

/-- **hdr_nocrash**: with the library results at hand and a total charset fragment, no Python exception escapes the header
    stages: the closed error set is empty (`get_character_name` is total on what `find_unusual_characters` reports —
    `unusual_names_total`; an unparsable URL counts as "no scheme" — fix 2f85d76; `check_dates` — C18 `NoCrash`) -/
theorem hdr_nocrash (x : Ext) (cs : CharsetCheck) (hcs : ∀ n, ∃ r, cs n = .ok r) (now : Int) (f : File) :
    checkAll x cs now f ≠ none := by
  have := checkAll_isSome x cs hcs now f
  intro h; rw [h] at this; cases this

/-- the same with C20's charset fragment plugged in: total whenever the codecs behave (`Charset.check_total`) -/
theorem hdr_nocrash_charset (x : Ext) (env : Charset.Env) (characters : Option (Option (List (List Nat))))
    (htbl : env.tbl = Generated.Charset.portableEncodings) (hc2e : env.c2e = Generated.Charset.pycodecToEncoding)
    (henc : ∀ enc chars, characters = some (some chars) → Charset.EncodeOk (env.encode enc) chars)
    (now : Int) (f : File) :
    checkAll x (fun n => Charset.checkCharset env n f.kind.isTemplate characters) now f ≠ none :=
  hdr_nocrash x _ (fun n => I18n.Props.C20.check_total env n f.kind.isTemplate characters htbl hc2e henc) now f

/-- a Report-Msgid-Bugs-To value without an address whose URL cannot be parsed is reported, not crashed on -/
theorem unparsable_url_reported (x : Ext) (v : Str) (h1 : ¬ HasAt (x.parseaddr v)) (h2 : x.urlScheme v = none) :
    reportOne x v = [⟨"invalid-report-msgid-bugs-to", [.str v]⟩] := by
  have : hasAt (x.parseaddr v) = false := by
    cases h : hasAt (x.parseaddr v) with
    | false => rfl
    | true => exact absurd ((hasAt_iff _).1 h) h1
  rw [reportOne_eq, this, h2]; rfl

/-! ## the field grammar (`gettext.parse_header`) -/

/-- **parse_header_spec** (lines): the lines are the `\n`-separated pieces of the text, a final `\n` terminating the last -/
theorem parse_header_lines (s : Str) :
    parseHeader s = (headerLines s).map parseLine ∧ LinesOf s (headerLines s) := ⟨rfl, headerLines_spec s⟩

/-- **parse_header_spec** (fields): a line becomes the field `k: v` iff `k` is a non-empty run of printable ASCII other than
    `:`, followed by `:`, and `v` is the rest stripped of blanks and tabs; the split is unique -/
theorem parse_header_field (l k v : Str) : parseLine l = .field k v ↔ FieldLine l k v := parseLine_field_iff l k v

/-- **parse_header_spec** (strays): every other line is kept unchanged as a stray line -/
theorem parse_header_stray (l s : Str) : parseLine l = .stray s ↔ (s = l ∧ ¬ ∃ k v, FieldLine l k v) := parseLine_stray_iff l s

/-- the dictionary `check_headers` builds answers `metadata[k]` with the values of the field lines named `k`, in order -/
theorem metadata_lookup (ls : List Line) (k : String) : (buildMeta ls []).getS k = vals (fieldLines ls) k := meta_getS ls k

/-! ## leaf scanners against their regular expressions' languages -/

/-- **domain classification**: the scanner for `domains._is_special` (alternatives regenerated from the source) accepts a
    lower-cased domain iff it is a documented special-use name or ends in `.`+name after at least one more character -/
theorem special_domain_iff (d : Str) : Domains.isSpecialLowered d = true ↔ SpecialDomain d := Domains.isSpecialLowered_iff d

theorem domains_pin : Generated.HeaderFields.specialDomains = specialDomains := Domains.domains_pin

/-- `email.rsplit('@', 1)[1]`: what follows the last `@` -/
theorem email_domain (addr : Str) (h : '@' ∈ addr) (dom : Str) : DomainOf addr dom ↔ dom = Domains.domainOf addr :=
  Domains.DomainOf_iff addr dom h

theorem special_email_iff (x : Ext) (addr : Str) (h : '@' ∈ addr) :
    Domains.isEmailInSpecialDomain x.db.lower addr = true ↔ SpecialEmail x addr := Domains.isEmailInSpecialDomain_iff x addr h

theorem dotless_email_iff (addr : Str) (h : '@' ∈ addr) :
    Domains.isEmailInDotlessDomain addr = true ↔ DotlessEmail addr := Domains.isEmailInDotlessDomain_iff addr h

/-- the order of precedence of the address verdicts is the documented one -/
theorem address_verdict (x : Ext) (boiler : List String) (addr : Str) (h : HasAt addr) (v : AddrVerdict) :
    addrVerdict x boiler addr = v ↔ AddrIs x boiler addr v := addrVerdict_iff x boiler addr h v

/-- **content_type_form**: the scanner for `(\Atext/plain; )?\bcharset=([^\s;]+)\Z` under `re.search` -/
theorem content_type_form (db : UDB) (ct : Str) :
    (∀ full enc, matchContentType db ct = some (full, enc) ↔ CharsetOf db ct full enc) ∧
    (matchContentType db ct = none ↔ ¬ ∃ full enc, CharsetParam db ct full enc) :=
  ⟨matchContentType_some_iff db ct, matchContentType_none_iff db ct⟩

/-- **conflict_marker_spec** -/
theorem conflict_marker_spec (l : Str) : isConflictMarker l = true ↔ ConflictMarker l := isConflictMarker_iff l

/-! ## pins: what the hand-written scanners and the rule set assume of the source, regenerated on every run -/

theorem source_pins :
    Generated.HeaderFields.dedicated = ownRules ∧
    Generated.HeaderFields.mimeVersionGood = "1.0" ∧ Generated.HeaderFields.cteGood = "8bit" ∧
    Generated.HeaderFields.charsetBoilerplate = "CHARSET" ∧
    Generated.HeaderFields.projectBoilerplate = ["PACKAGE VERSION", "PROJECT VERSION"] ∧
    Generated.HeaderFields.emptyScheme = "" ∧
    Generated.HeaderFields.reportBoilerplate = ["EMAIL@ADDRESS"] ∧
    Generated.HeaderFields.translatorBoilerplate = ["EMAIL@ADDRESS"] ∧
    Generated.HeaderFields.teamBoilerplate = ["EMAIL@ADDRESS", "LL@li.org"] ∧
    Generated.HeaderFields.headerFlag = "fuzzy" ∧
    Generated.HeaderFields.commentPatterns = ["\\bCopyright \\S+ YEAR\\b", "\\bPACKAGE package\\b", "\\bTHE PACKAGE'S COPYRIGHT HOLDER\\b"] ∧
    Generated.HeaderFields.commentPatternsTranslated = ["(?<=>), YEAR\\b", "<EMAIL@ADDRESS>", "\\bFIRST AUTHOR\\b"] ∧
    Generated.HeaderFields.contentTypeRegex = "(\\Atext/plain; )?\\bcharset=([^\\s;]+)\\Z" ∧
    Generated.HeaderFields.projectNameRegex = "[^_\\d\\W]" ∧ Generated.HeaderFields.projectVersionRegex = "[0-9]" ∧
    Generated.HeaderFields.fieldNameRegex = "^[\\x21-\\x39\\x3B-\\x7E]+$" ∧ Generated.HeaderFields.fieldNameRegexMethod = "match" ∧
    Generated.HeaderFields.conflictRegex = "^#-#-#-#-#  .+  #-#-#-#-#$" ∧ Generated.HeaderFields.conflictRegexMethod = "search" ∧
    Generated.HeaderFields.parseHeaderConsts = ["\n", "", ":", " \t"] ∧
    Generated.HeaderFields.lineBreaks = [0xA, 0xB, 0xC, 0xD, 0x1C, 0x1D, 0x1E, 0x85, 0x2028, 0x2029] ∧
    Generated.HeaderFields.unusualUnlessBracket = 0x1B ∧ Generated.HeaderFields.unusualAfterWord = 0xBF ∧
    Generated.HeaderFields.unusualAlways = [(0x0, 0x8), (0xB, 0x1A), (0x1C, 0x1F), (0x7F, 0x9F), (0xFEFF, 0xFEFF), (0xFFFD, 0xFFFF)] := by
  decide

/-- the registered names differ pairwise even up to case, so "the registered name equal up to case" is well defined -/
theorem registry_case_distinct :
    ((Generated.HeaderFields.headerFields.map fun s => asciiLower s.toList).Nodup) := by decide

/-- `get_character_name` has a name for every character `find_unusual_characters` can report -/
theorem unusual_names_total : candidates.all (fun n => (nameOfNat n).isSome) = true := Hdr.unusual_names_total

end I18n.Props.C15
