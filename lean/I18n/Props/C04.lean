import I18n.Model.Plural
import I18n.Lemmas.EvalSpec
import I18n.Lemmas.ParseSound
import I18n.Generated.PluralGrammar
import I18n.Spec.PluralY
/-!
# C04 (evaluation clause) — plural expressions are evaluated exactly as C would

`Spec.mathEval` is lazy mathematical evaluation over ℤ that records every evaluated intermediate
result.  In-range unsigned C arithmetic coincides with ℤ arithmetic, so the right-hand sides below
*are* "the value C arithmetic yields when every evaluated intermediate result lies in `[0, 2^bits)`
and no executed division has a zero divisor".  Stated for every width `bits ≥ 1` (the tool uses 32)
about the `Evaluator` generated from lib/intexpr.py.
-/
namespace I18n.Props.C04
open I18n I18n.Py I18n.Plural I18n.Spec I18n.Generated.Intexpr

private theorem two_le_pow {bits : Nat} (h : 1 ≤ bits) : (2 : Int) ≤ 2 ^ bits := by
  obtain ⟨k, rfl⟩ : ∃ k, bits = k + 1 := ⟨bits - 1, by omega⟩
  have : (0 : Int) < 2 ^ k := Int.pow_pos (by decide)
  rw [Int.pow_succ]
  omega

/-- **Value clause.**  Evaluation succeeds with `v` iff C evaluation yields `v` with every evaluated
    intermediate result in `[0, 2^bits)` and no executed division by zero. -/
theorem eval_iff_C {bits : Nat} (hb : 1 ≤ bits) (n : Int) (e : Expr) (v : Int) :
    evalAt bits n e = .ok v ↔ ∃ tr, mathEval n e = some (v, tr) ∧ InRange (2 ^ bits) tr := by
  have h := agrees (two_le_pow hb) n e
  unfold evalAt
  constructor
  · intro hv
    rw [hv] at h
    exact h.1
  · rintro ⟨tr, hm, hr⟩
    cases hv : Evaluator.visit ((2 : Int) ^ bits) n e with
    | ok v' =>
      rw [hv] at h
      obtain ⟨⟨tr', hm', _⟩, _⟩ := h
      rw [hm] at hm'
      cases hm'
      rfl
    | error ex =>
      rw [hv] at h
      exact absurd ⟨v, tr, hm, hr⟩ h.2

/-- **Failure clause.**  Evaluation fails in exactly the remaining cases … -/
theorem eval_fails_iff {bits : Nat} (hb : 1 ≤ bits) (n : Int) (e : Expr) :
    (∃ ex, evalAt bits n e = .error ex) ↔ ¬ ∃ v tr, mathEval n e = some (v, tr) ∧ InRange (2 ^ bits) tr := by
  constructor
  · rintro ⟨ex, hex⟩ ⟨v, tr, hm, hr⟩
    have := (eval_iff_C hb n e v).2 ⟨tr, hm, hr⟩
    rw [hex] at this
    cases this
  · intro hno
    cases hv : evalAt bits n e with
    | error ex => exact ⟨ex, rfl⟩
    | ok v =>
      obtain ⟨tr, hm, hr⟩ := (eval_iff_C hb n e v).1 hv
      exact absurd ⟨v, tr, hm, hr⟩ hno

/-- … and then with an overflow or a division-by-zero error, nothing else. -/
theorem eval_error_kinds {bits : Nat} (hb : 1 ≤ bits) (n : Int) (e : Expr) (ex : Exc)
    (h : evalAt bits n e = .error ex) : ex = .Overflow ∨ ex = .ZeroDivision := by
  have hh := agrees (two_le_pow hb) n e
  unfold evalAt at h
  rw [h] at hh
  exact hh.1

/-- Successful values are representable. -/
theorem eval_value_range {bits : Nat} (hb : 1 ≤ bits) (n : Int) (e : Expr) (v : Int)
    (h : evalAt bits n e = .ok v) : 0 ≤ v ∧ v < 2 ^ bits := by
  have hh := agrees (two_le_pow hb) n e
  unfold evalAt at h
  rw [h] at hh
  exact hh.2

/-! ## Parsing clause -/

/-- **Grammar pin.**  The lexer rules (with their order), the precedence ladder, the productions and the
    operator tables that lib/intexpr.py hands to rply are exactly plural.y's; no regex flag is set.
    Regenerated from the live objects on every run: any edit to the declarations breaks this `decide`. -/
theorem grammar_pin :
    Generated.PluralGrammar.lexerRules = Spec.PluralY.lexerRules ∧
    Generated.PluralGrammar.ignoreRules = Spec.PluralY.ignoreRules ∧
    Generated.PluralGrammar.extraFlags = [] ∧
    Generated.PluralGrammar.precedence = Spec.PluralY.precedence ∧
    Generated.PluralGrammar.productions = Spec.PluralY.productions ∧
    Generated.PluralGrammar.opTable = Spec.PluralY.opTable ∧
    Generated.PluralGrammar.intMaxStrDigits = PluralParse.maxStrDigits := by decide

/-- **Structure.**  Whatever the parser model accepts is derived by the stratified C grammar
    (`Spec.D`: `?:` right-associative and lowest, then `||`, `&&`, `== !=`, `< <= > >=`, `+ -`, `* / %`
    left-associative, then `!`, then primaries) with exactly the returned AST. -/
theorem parse_sound (ts : List PluralParse.Tok) (e : Expr) (h : PluralParse.parseToks ts = some e) :
    Spec.D 0 ts e := PluralParse.parseToks_sound h

/-- `a - b - c` is `(a - b) - c`, `!n == 1` is `(!n) == 1`, `a ? b : c ? d : e` nests to the right -/
example : PluralParse.parse "n-1-2".toList = .ok (.binop (.binop .name .sub (.num 1)) .sub (.num 2)) := by rfl
example : PluralParse.parse "!n==1".toList = .ok (.compare (.unaryop .not .name) .eq (.num 1)) := by rfl
example : PluralParse.parse "n?1:n?2:3".toList = .ok (.ifexp .name (.num 1) (.ifexp .name (.num 2) (.num 3))) := by rfl
example : PluralParse.parse "n || n && n == n < n + n * !n".toList =
    .ok (.boolop .or .name (.boolop .and .name (.compare .name .eq (.compare .name .lt
      (.binop .name .add (.binop .name .mult (.unaryop .not .name))))))) := by rfl
example : PluralParse.parse "n ! = 1".toList = .syntaxError := by rfl

/-- **No numeral is refused for its length** (on the pinned tree `int()` raised `ValueError` beyond 4300 digits:
    neither acceptance nor the parser's own syntax error; repaired by `fix:` 871d4d7, and `grammar_pin` ties the
    model's limit to the one dumped from the running tool).  The lexer model never yields the `ValueError` outcome … -/
theorem tooLong_never (len : Nat) : PluralParse.tooLong len = false := by
  simp [PluralParse.tooLong, PluralParse.maxStrDigits]

/-- … and the old witness, a numeral of 4301 digits, is accepted as a constant. -/
theorem long_numeral_accepted :
    (match PluralParse.parse (List.replicate 4301 '1') with | .ok (.num _) => true | _ => false) = true := by
  decide +kernel

/-! Non-vacuity: laziness and failure, concretely. -/
example : evalAt 32 0 (.boolop .and .name (.binop (.num 1) .div .name)) = .ok 0 := by rfl   -- 0 && 1/0
example : evalAt 32 0 (.binop (.num 1) .div .name) = .error .ZeroDivision := by rfl
example : evalAt 32 5 (.binop (.num 3) .sub .name) = .error .Overflow := by rfl           -- 3 - 5 < 0
example : mathEval 0 (.boolop .and .name (.binop (.num 1) .div .name)) = some (0, [0, 0]) := by rfl

end I18n.Props.C04
