import I18n.Model.Plural
import I18n.Lemmas.EvalSpec
import I18n.Lemmas.ParseSound
import I18n.Lemmas.ParseString
import I18n.Lemmas.LRNoCrash
import I18n.Lemmas.ParseCFG
import I18n.Lemmas.LexRegex
import I18n.Generated.PluralGrammar
import I18n.Spec.PluralY
/-!
# C04 — plural expressions are parsed and evaluated exactly as C/gettext would

Evaluation clause: `Spec.mathEval` is lazy mathematical evaluation over ℤ that records every evaluated intermediate
result.  In-range unsigned C arithmetic coincides with ℤ arithmetic, so the right-hand sides below *are* "the value
C arithmetic yields when every evaluated intermediate result lies in `[0, 2^bits)` and no executed division has a
zero divisor".  Stated for every width `bits ≥ 1` (the tool uses 32) about the `Evaluator` generated from
lib/intexpr.py.

Parsing clause: three models of `gettext.parse_plural_expression`, proved to be one function —
* the lexer interpreted from the dumped regular expressions (`PluralLex.lex`) = the hand-written lexer model
  (`PluralParse.lex`) = plural.y's token language (`Spec.Tokens`);
* rply's LR driver over the dumped LALR tables (`PluralLR.lrParse`) = the recursive-descent model
  (`PluralParse.parseToks`) = the stratified C grammar (`Spec.D`, unambiguous), whose sentences are those of
  plural.y's ambiguous grammar (`Spec.Amb`) = the context-free language of the dumped productions (`Spec.Gen`).
-/
namespace I18n.Props.C04
open I18n I18n.Py I18n.Plural I18n.Spec I18n.Generated.Intexpr

private theorem two_le_pow {bits : Nat} (h : 1 ≤ bits) : (2 : Int) ≤ 2 ^ bits := by
  obtain ⟨k, rfl⟩ : ∃ k, bits = k + 1 := ⟨bits - 1, by omega⟩
  have : (0 : Int) < 2 ^ k := Int.pow_pos (by decide)
  rw [Int.pow_succ]
  omega

/-- **Value clause.**  Evaluation succeeds with `v` iff C evaluation yields `v` with every evaluated
    intermediate result in `[0, 2^bits)` and no executed division by zero. -/
theorem eval_iff_C {bits : Nat} (hb : 1 ≤ bits) (n : Int) (e : Expr) (v : Int) :
    evalAt bits n e = .ok v ↔ ∃ tr, mathEval n e = some (v, tr) ∧ InRange (2 ^ bits) tr := by
  have h := agrees (two_le_pow hb) n e
  unfold evalAt
  constructor
  · intro hv
    rw [hv] at h
    exact h.1
  · rintro ⟨tr, hm, hr⟩
    cases hv : Evaluator.visit ((2 : Int) ^ bits) n e with
    | ok v' =>
      rw [hv] at h
      obtain ⟨⟨tr', hm', _⟩, _⟩ := h
      rw [hm] at hm'
      cases hm'
      rfl
    | error ex =>
      rw [hv] at h
      exact absurd ⟨v, tr, hm, hr⟩ h.2

/-- **Failure clause.**  Evaluation fails in exactly the remaining cases … -/
theorem eval_fails_iff {bits : Nat} (hb : 1 ≤ bits) (n : Int) (e : Expr) :
    (∃ ex, evalAt bits n e = .error ex) ↔ ¬ ∃ v tr, mathEval n e = some (v, tr) ∧ InRange (2 ^ bits) tr := by
  constructor
  · rintro ⟨ex, hex⟩ ⟨v, tr, hm, hr⟩
    have := (eval_iff_C hb n e v).2 ⟨tr, hm, hr⟩
    rw [hex] at this
    cases this
  · intro hno
    cases hv : evalAt bits n e with
    | error ex => exact ⟨ex, rfl⟩
    | ok v =>
      obtain ⟨tr, hm, hr⟩ := (eval_iff_C hb n e v).1 hv
      exact absurd ⟨v, tr, hm, hr⟩ hno

/-- … and then with an overflow or a division-by-zero error, nothing else. -/
theorem eval_error_kinds {bits : Nat} (hb : 1 ≤ bits) (n : Int) (e : Expr) (ex : Exc)
    (h : evalAt bits n e = .error ex) : ex = .Overflow ∨ ex = .ZeroDivision := by
  have hh := agrees (two_le_pow hb) n e
  unfold evalAt at h
  rw [h] at hh
  exact hh.1

/-- Successful values are representable. -/
theorem eval_value_range {bits : Nat} (hb : 1 ≤ bits) (n : Int) (e : Expr) (v : Int)
    (h : evalAt bits n e = .ok v) : 0 ≤ v ∧ v < 2 ^ bits := by
  have hh := agrees (two_le_pow hb) n e
  unfold evalAt at h
  rw [h] at hh
  exact hh.2

/-! ## Parsing clause -/

/-- **Pins of what the models read from the dump.**  The dumped lexer and ignore rules are *readable* by the regex
    interpreter and mean the rules `PluralLex.R` / `PluralLex.Ig` (a behaviour-preserving respelling of a regex, e.g.
    `\\?` for `[?]`, leaves this true); no regex flag is set; the operator→`ast` class tables the action functions
    close over and the `int()` digit limit are what the models assume.  (The precedence rows and productions are not
    pinned as text any more: `lr_iff_derives`, `lr_language_is_declared_grammar` are proved about the tables and the
    productions rply actually built from them.) -/
theorem grammar_pin :
    PluralLex.parseRules Generated.PluralGrammar.lexerRules = some PluralLex.R ∧
    Generated.PluralGrammar.ignoreRules.mapM PluralLex.parseRegex = some PluralLex.Ig ∧
    Generated.PluralGrammar.extraFlags = [] ∧
    Generated.PluralGrammar.opTable = Spec.PluralY.opTable ∧
    Generated.PluralGrammar.intMaxStrDigits = PluralParse.maxStrDigits :=
  ⟨PluralLex.rules_eq, PluralLex.ignore_eq, by decide, by decide, by decide⟩

/-- **Tokens.**  The lexer model (rply's loop: rules in declaration order, first match wins, greedy regexes)
    accepts a string with token list `ts` iff `ts` is its tokenisation by plural.y's token language
    (`Spec.Tokens`: the lexemes `? : || && == != < <= > >= + - * / % ! ( ) n` and decimal numerals, each the
    longest lexeme at its position, separated by blanks and tabs only). -/
theorem lex_complete_sound (s : List Char) (ts : List PluralParse.Tok) :
    PluralParse.lex s = .ok ts ↔ Spec.Tokens s ts := PluralParse.lex_iff_tokens s ts

/-- a string has at most one tokenisation -/
theorem tokens_unique {s : List Char} {ts ts' : List PluralParse.Tok} (h : Spec.Tokens s ts) (h' : Spec.Tokens s ts') :
    ts = ts' := PluralParse.tokens_functional h h'

/-- no tokenisation ⇒ the lexer's syntax error, never another outcome -/
theorem lex_rejects_iff (s : List Char) : PluralParse.lex s = .syntaxError ↔ ¬ ∃ ts, Spec.Tokens s ts :=
  PluralParse.lex_syntaxError_iff s

/-- **The lexer regenerated from the source.**  `PluralLex.lex` interprets the regular expressions dumped from the
    live rply `Lexer` (a `re.match` for the syntax subset they use: literals, classes with ranges and `\t`, greedy `+`
    and `?` with backtracking) inside rply's `LexerStream.next` loop; it is the same function as the hand-written
    lexer model — so `lex_complete_sound` speaks about the rules the tool declares, whatever they are today. -/
theorem lex_regex_eq (s : List Char) :
    PluralLex.lex s = match PluralParse.lex s with
      | .ok ts => .ok ts | .syntaxError => .lexingError | .valueError => .crash := by
  rw [PluralLex.lex_eq]; cases PluralParse.lex s <;> rfl

theorem lex_regex_iff_tokens (s : List Char) (ts : List PluralParse.Tok) :
    PluralLex.lex s = .ok ts ↔ Spec.Tokens s ts := by
  rw [← lex_complete_sound, lex_regex_eq]
  cases PluralParse.lex s <;> simp

/-- neither an unreadable rule, nor an empty match, nor an unknown token text ever occurs -/
theorem lex_regex_never_crashes (s : List Char) : PluralLex.lex s ≠ .crash := by
  rw [lex_regex_eq]
  cases h : PluralParse.lex s with
  | ok ts => simp
  | syntaxError => simp
  | valueError => exact absurd h (PluralParse.lexGo_never_valueError _ s none (Nat.le_refl _))

/-- **Structure, soundness.**  Whatever the parser model accepts is derived by the stratified C grammar
    (`Spec.D`: `?:` right-associative and lowest, then `||`, `&&`, `== !=`, `< <= > >=`, `+ -`, `* / %`
    left-associative, then `!`, then primaries) with exactly the returned AST. -/
theorem parse_sound (ts : List PluralParse.Tok) (e : Expr) (h : PluralParse.parseToks ts = some e) :
    Spec.D 0 ts e := PluralParse.parseToks_sound h

/-- **Structure, completeness.**  Every derivation of the stratified C grammar is found, with the recursion
    budget (`9 * length + 9`) the model actually uses. -/
theorem parse_complete (ts : List PluralParse.Tok) (e : Expr) (d : Spec.D 0 ts e) :
    PluralParse.parseToks ts = some e := PluralParse.parseToks_complete d

/-- **Structured with C precedence and associativity**: the parser returns `e` iff the C grammar derives `e` … -/
theorem parse_iff_derives (ts : List PluralParse.Tok) (e : Expr) :
    PluralParse.parseToks ts = some e ↔ Spec.D 0 ts e := PluralParse.parseToks_iff ts e

/-- … and the C grammar is unambiguous: one AST per token list (at every level). -/
theorem derives_functional {k : Nat} {ts : List PluralParse.Tok} {e e' : Expr} (d : Spec.D k ts e) (d' : Spec.D k ts e') :
    e = e' := PluralParse.D_functional d d'

/-- **Accepted language = L(plural.y)**: a token list is accepted iff plural.y's (ambiguous, precedence-free)
    expression grammar generates it. -/
theorem accept_iff_plural_y (ts : List PluralParse.Tok) :
    (∃ e, PluralParse.parseToks ts = some e) ↔ Spec.Amb ts := PluralParse.accept_iff_amb ts

/-- **End to end, on strings.**  `parse_plural_expression(s)` returns the tree `e` iff `s` tokenises (plural.y's
    token language) into a list from which the C grammar derives `e`; -/
theorem parse_string_iff (s : List Char) (e : Expr) :
    PluralParse.parse s = .ok e ↔ ∃ ts, Spec.Tokens s ts ∧ Spec.D 0 ts e := PluralParse.parse_ok_iff s e

/-- it accepts `s` iff `s` is a sentence of plural.y; -/
theorem accept_string_iff (s : List Char) :
    (∃ e, PluralParse.parse s = .ok e) ↔ ∃ ts, Spec.Tokens s ts ∧ Spec.Amb ts := PluralParse.parse_accepts_iff s

/-- and every other string gets the syntax error (no third outcome). -/
theorem reject_string_iff (s : List Char) :
    PluralParse.parse s = .syntaxError ↔ ¬ ∃ ts, Spec.Tokens s ts ∧ Spec.Amb ts := PluralParse.parse_syntaxError_iff s

/-! ## The parser the tool runs: rply's LR driver over the LALR tables it built

`Generated.PluralLR` holds `lr_action`, `lr_goto`, `default_reductions` and the numbered productions (with the
names of their action functions) dumped from the live `LRParser` object on every run; `PluralLR.lrParse` is
`LRParser.parse` + `_reduce_production` + the action functions of lib/intexpr.py over those tables. -/

/-- the action-table columns are the lexer's token names in declaration order, then `$end`; the goto columns are
    `exp`, `start`; every dumped action function is one the model knows (`tables` resolves) -/
theorem lr_tables_pin :
    Generated.PluralLR.terminals = PluralLR.colNames ∧ Generated.PluralLR.nonterminals = ["exp", "start"] ∧
    PluralLR.tables.isSome = true := ⟨PluralLR.columns_pin.1, PluralLR.columns_pin.2, by rw [PluralLR.tables_eq]; rfl⟩

/-- **The table-driven parser computes the C grammar.**  Over the tables rply built from the current source, the
    LR driver returns the tree `e` for a token list iff the recursive-descent model does, i.e. (`parse_iff_derives`)
    iff the stratified C grammar derives `e`: every shift/reduce conflict of the ambiguous grammar was resolved the
    way C's precedence and associativity demand. -/
theorem lr_iff_parse (ts : List PluralParse.Tok) (e : Expr) :
    PluralLR.lrParse ts = .ok e ↔ PluralParse.parseToks ts = some e := PluralLR.lrParse_ok_iff ts e

/-- **… as a function.**  The LR driver never ends in the model's `crash` outcome (missing table entry, ill-shaped
    reduction, popped bottom marker, non-`Expr` result, exhausted turn budget): on every token list it answers
    exactly what the recursive-descent model answers. -/
theorem lr_eq_parse (ts : List PluralParse.Tok) :
    PluralLR.lrParse ts = match PluralParse.parseToks ts with | some e => .ok e | none => .syntaxError :=
  PluralLR.lrParse_eq ts

theorem lr_never_crashes (ts : List PluralParse.Tok) : PluralLR.lrParse ts ≠ .crash := by
  rw [lr_eq_parse]
  cases PluralParse.parseToks ts <;> simp

/-- on strings: `gettext.parse_plural_expression` modelled with the LR driver = modelled with recursive descent -/
theorem lr_parse_string_eq (s : List Char) : PluralLR.parse s = .inl (PluralParse.parse s) := by
  unfold PluralLR.parse PluralParse.parse
  cases PluralParse.lex s with
  | syntaxError => rfl
  | valueError => rfl
  | ok ts =>
    simp only [lr_eq_parse]
    cases PluralParse.parseToks ts <;> rfl

theorem lr_iff_derives (ts : List PluralParse.Tok) (e : Expr) :
    PluralLR.lrParse ts = .ok e ↔ Spec.D 0 ts e := by rw [lr_iff_parse, parse_iff_derives]

/-- its accepted language is L(plural.y) -/
theorem lr_accept_iff_plural_y (ts : List PluralParse.Tok) : (∃ e, PluralLR.lrParse ts = .ok e) ↔ Spec.Amb ts := by
  rw [← accept_iff_plural_y]
  exact ⟨fun ⟨e, h⟩ => ⟨e, (lr_iff_parse ts e).1 h⟩, fun ⟨e, h⟩ => ⟨e, (lr_iff_parse ts e).2 h⟩⟩

/-- **`Amb` is not a transcription to be trusted**: it is the language of the productions the tool hands to rply
    (dumped from the live parser every run), read as a plain context-free grammar with start symbol `start`. -/
theorem plural_y_is_declared_grammar (ts : List PluralParse.Tok) :
    Spec.Gen PluralParse.dumpedProductions ["start"] ts ↔ Spec.Amb ts := PluralParse.gen_iff_amb ts

/-- **rply's table construction, validated for this grammar**: the tables it built accept exactly the language of
    the grammar it was given (no sentence lost or gained by LALR merging or by precedence-based conflict resolution) … -/
theorem lr_language_is_declared_grammar (ts : List PluralParse.Tok) :
    (∃ e, PluralLR.lrParse ts = .ok e) ↔ Spec.Gen PluralParse.dumpedProductions ["start"] ts := by
  rw [plural_y_is_declared_grammar]; exact lr_accept_iff_plural_y ts

/-- the two hand-written token-kind maps (column of the action table, grammar symbol name) agree through the dumped
    column names -/
theorem kind_columns_agree (t : PluralParse.Tok) :
    Generated.PluralLR.terminals[PluralLR.col (some t)]? = some (Spec.kindName t) := by
  cases t with
  | bool op => cases op <;> rfl
  | cmp op => cases op <;> rfl
  | bin op => cases op <;> rfl
  | _ => rfl

/-- end to end with the LR driver in the place of the recursive-descent model -/
theorem lr_parse_string_iff (s : List Char) (e : Expr) :
    PluralLR.parse s = .inl (.ok e) ↔ ∃ ts, Spec.Tokens s ts ∧ Spec.D 0 ts e := by
  rw [← parse_string_iff]
  unfold PluralLR.parse PluralParse.parse
  cases hl : PluralParse.lex s with
  | syntaxError => simp
  | valueError => simp
  | ok ts =>
    simp only
    cases hr : PluralLR.lrParse ts with
    | ok e' =>
      have := (lr_iff_parse ts e').1 hr
      simp [this]
    | syntaxError =>
      cases hp : PluralParse.parseToks ts with
      | none => simp
      | some e' => rw [(lr_iff_parse ts e').2 hp] at hr; cases hr
    | crash =>
      cases hp : PluralParse.parseToks ts with
      | none => simp
      | some e' => rw [(lr_iff_parse ts e').2 hp] at hr; cases hr

example : PluralLR.lrParse [.var, .bool .or, .int 0, .bool .and, .var] =
    .ok (.boolop .or .name (.boolop .and (.num 0) .name)) := by decide
example : PluralLR.lrParse [.var, .var] = .syntaxError := by decide

/-! Non-vacuity: registry expressions and their trees (Polish, Russian, Slovenian; Arabic from the gettext manual). -/
example : PluralParse.parse "n==1 ? 0 : n%10>=2 && n%10<=4 && (n%100<10 || n%100>=20) ? 1 : 2".toList = .ok
    (.ifexp (.compare .name .eq (.num 1)) (.num 0) (.ifexp (.boolop .and (.boolop .and (.compare (.binop .name .mod (.num 10)) .gte (.num 2)) (.compare (.binop .name .mod (.num 10)) .lte (.num 4))) (.boolop .or (.compare (.binop .name .mod (.num 100)) .lt (.num 10)) (.compare (.binop .name .mod (.num 100)) .gte (.num 20)))) (.num 1) (.num 2))) := by rfl
example : PluralParse.parse "n%10==1 && n%100!=11 ? 0 : n%10>=2 && n%10<=4 && (n%100<10 || n%100>=20) ? 1 : 2".toList = .ok
    (.ifexp (.boolop .and (.compare (.binop .name .mod (.num 10)) .eq (.num 1)) (.compare (.binop .name .mod (.num 100)) .noteq (.num 11))) (.num 0) (.ifexp (.boolop .and (.boolop .and (.compare (.binop .name .mod (.num 10)) .gte (.num 2)) (.compare (.binop .name .mod (.num 10)) .lte (.num 4))) (.boolop .or (.compare (.binop .name .mod (.num 100)) .lt (.num 10)) (.compare (.binop .name .mod (.num 100)) .gte (.num 20)))) (.num 1) (.num 2))) := by rfl
example : PluralParse.parse "n%100==1 ? 0 : n%100==2 ? 1 : n%100==3 || n%100==4 ? 2 : 3".toList = .ok
    (.ifexp (.compare (.binop .name .mod (.num 100)) .eq (.num 1)) (.num 0) (.ifexp (.compare (.binop .name .mod (.num 100)) .eq (.num 2)) (.num 1) (.ifexp (.boolop .or (.compare (.binop .name .mod (.num 100)) .eq (.num 3)) (.compare (.binop .name .mod (.num 100)) .eq (.num 4))) (.num 2) (.num 3)))) := by rfl
example : PluralParse.parse "n==0 ? 0 : n==1 ? 1 : n==2 ? 2 : n%100>=3 && n%100<=10 ? 3 : n%100>=11 ? 4 : 5".toList = .ok
    (.ifexp (.compare .name .eq (.num 0)) (.num 0) (.ifexp (.compare .name .eq (.num 1)) (.num 1) (.ifexp (.compare .name .eq (.num 2)) (.num 2) (.ifexp (.boolop .and (.compare (.binop .name .mod (.num 100)) .gte (.num 3)) (.compare (.binop .name .mod (.num 100)) .lte (.num 10))) (.num 3) (.ifexp (.compare (.binop .name .mod (.num 100)) .gte (.num 11)) (.num 4) (.num 5)))))) := by rfl
/-- the specification side is inhabited too: a derivation written out by hand, and the lexer corner cases -/
example : Spec.D 0 [.var, .bin .sub, .int 1, .bin .sub, .int 2] (.binop (.binop .name .sub (.num 1)) .sub (.num 2)) :=
  (parse_iff_derives _ _).1 (by rfl)
example : Spec.Tokens "n !=\t12".toList [.var, .cmp .noteq, .int 12] := (lex_complete_sound _ _).1 (by rfl)
example : ¬ ∃ ts, Spec.Tokens "n ! = 1".toList ts := (lex_rejects_iff _).1 (by rfl)
example : ¬ ∃ ts, Spec.Tokens "n & n".toList ts := (lex_rejects_iff _).1 (by rfl)
example : ¬ ∃ ts, Spec.Tokens "n = 1".toList ts := (lex_rejects_iff _).1 (by rfl)
example : ¬ ∃ ts, Spec.Tokens "n\n".toList ts := (lex_rejects_iff _).1 (by rfl)
example : ¬ Spec.Amb [.var, .var] := fun h => by
  obtain ⟨e, he⟩ := (accept_iff_plural_y _).2 h
  have : PluralParse.parseToks [.var, .var] = none := by rfl
  rw [this] at he
  cases he

/-- `a - b - c` is `(a - b) - c`, `!n == 1` is `(!n) == 1`, `a ? b : c ? d : e` nests to the right -/
example : PluralParse.parse "n-1-2".toList = .ok (.binop (.binop .name .sub (.num 1)) .sub (.num 2)) := by rfl
example : PluralParse.parse "!n==1".toList = .ok (.compare (.unaryop .not .name) .eq (.num 1)) := by rfl
example : PluralParse.parse "n?1:n?2:3".toList = .ok (.ifexp .name (.num 1) (.ifexp .name (.num 2) (.num 3))) := by rfl
example : PluralParse.parse "n || n && n == n < n + n * !n".toList =
    .ok (.boolop .or .name (.boolop .and .name (.compare .name .eq (.compare .name .lt
      (.binop .name .add (.binop .name .mult (.unaryop .not .name))))))) := by rfl
example : PluralParse.parse "n ! = 1".toList = .syntaxError := by rfl

/-- **No numeral is refused for its length** (on the pinned tree `int()` raised `ValueError` beyond 4300 digits:
    neither acceptance nor the parser's own syntax error; repaired by `fix:` 871d4d7, and `grammar_pin` ties the
    model's limit to the one dumped from the running tool).  The lexer model never yields the `ValueError` outcome … -/
theorem tooLong_never (len : Nat) : PluralParse.tooLong len = false := by
  simp [PluralParse.tooLong, PluralParse.maxStrDigits]

/-- … and the old witness, a numeral of 4301 digits, is accepted as a constant. -/
theorem long_numeral_accepted :
    (match PluralParse.parse (List.replicate 4301 '1') with | .ok (.num _) => true | _ => false) = true := by
  decide +kernel

/-- **The statement, end to end**: whenever `parse_plural_expression(s)` succeeds — `s` is then a sentence of plural.y
    and the returned tree is the one C's grammar gives it — the returned callable at `n`, 32 bits, yields `v` iff lazy
    C evaluation yields `v` with every evaluated intermediate result in `[0, 2^32)` and no executed division by
    zero, and otherwise fails with an overflow or division-by-zero error. -/
theorem accepted_evaluates_as_C (s : List Char) (e : Expr) (h : PluralParse.parse s = .ok e) (n : Int) :
    (∃ ts, Spec.Tokens s ts ∧ Spec.Amb ts ∧ Spec.D 0 ts e) ∧
    (∀ v, evalAt 32 n e = .ok v ↔ ∃ tr, mathEval n e = some (v, tr) ∧ InRange (2 ^ 32) tr) ∧
    (∀ ex, evalAt 32 n e = .error ex → ex = .Overflow ∨ ex = .ZeroDivision) := by
  obtain ⟨ts, ht, d⟩ := (parse_string_iff s e).1 h
  exact ⟨⟨ts, ht, PluralParse.D_amb d, d⟩, fun v => eval_iff_C (by decide) n e v, fun ex => eval_error_kinds (by decide) n e ex⟩

/-! Non-vacuity: laziness and failure, concretely. -/
example : evalAt 32 0 (.boolop .and .name (.binop (.num 1) .div .name)) = .ok 0 := by rfl   -- 0 && 1/0
example : evalAt 32 0 (.binop (.num 1) .div .name) = .error .ZeroDivision := by rfl
example : evalAt 32 5 (.binop (.num 3) .sub .name) = .error .Overflow := by rfl           -- 3 - 5 < 0
example : mathEval 0 (.boolop .and .name (.binop (.num 1) .div .name)) = some (0, [0, 0]) := by rfl

end I18n.Props.C04
