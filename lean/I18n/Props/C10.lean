import I18n.Lemmas.PoUnescape
import I18n.Lemmas.PoFlags
import I18n.Lemmas.PoPre
import I18n.Lemmas.PoComments
import I18n.Lemmas.PoFile
import I18n.Lemmas.PoDetect
/-! # C10 — PO text decodes to exactly the strings gettext would see

Model: `I18n.Po` (Model/Po.lean) — `polib.pofile` after `lib.polib4us.install_patches()`.
Spec: `I18n.Spec.PoSpelling` — spellings as data (`Choice`, `FlagPiece`, …).  -/
namespace I18n.Props.C10
open I18n I18n.Po I18n.Spec.PoSpelling
open I18n.Generated.PolibFsm (St Sym Handler)

/-- the hand-written scanners stand for these regex texts (a change of text breaks this pin; the check then goes
    to the falsifier) -/
theorem regex_pins :
    Generated.PolibFsm.escapesRe = " ( \\\\\n(?: [ntbrfva]\n  | \\\\\n  | \"\n  | [0-7]{1,3}\n  | x[0-9a-fA-F]{1,2}\n  ))+\n" ∧
    Generated.PolibFsm.escapesReFlags = 96 ∧
    Generated.PolibFsm.shortXEscapeRe = "\n    \\\\x ([0-9a-fA-F]) (?= \\\\ | $ )\n" ∧
    Generated.PolibFsm.bigOctalEscapeRe = "\n    \\\\ ([4-7][0-7]{2})\n" ∧
    Generated.PolibFsm.iterlines = "[^\\n]*(?:\\n|\\Z)" ∧ Generated.PolibFsm.iterlinesMethod = "findall" ∧
    Generated.PolibFsm.atypicalComment = "#[^ .:,|~]" ∧ Generated.PolibFsm.atypicalCommentMethod = "match" ∧
    Generated.PolibFsm.detectPattern = ["\"?Content-Type:.+? charset=([\\w_\\-:\\.]+)"] ∧
    Generated.PolibFsm.quoteRes = ["([^\\\\]|^)\""] ∧
    Generated.PolibFsm.defaultEncoding = "ASCII" := by
  refine ⟨rfl, rfl, rfl, rfl, rfl, rfl, rfl, rfl, rfl, rfl, rfl⟩

/-! ## escapes -/

/-- **unescape_spelling.**  For every string `t` and every per-character spelling choice `p` of it (raw, one of the nine
    letter escapes, or the bytes of its encoding in the file's charset as octal escapes of 1–3 digits ≤ `\377` / hex escapes
    of 1–2 digits of either case), `polib_unescape` gives back `t` — for every codec environment in which the charset is
    ASCII-transparent and decodes what it encodes.  Excluded spellings: `okSeq` (a short octal escape followed by an octal
    digit, a hex escape followed by a hex digit). -/
theorem unescape_spelling (env : Env) (enc : Bytes) (E : Codec) (hE : CodecOk env enc E) (p : List Choice)
    (hv : ∀ x ∈ p, x.Valid E) (hs : okSeq p = true) :
    unescape env enc (render p) = some (text p) :=
  Lemmas.PoUnescape.unescape_spelling hE p hv hs

/-- the excluded spellings are excluded for a reason: `\x4` followed by the letter `1` reads as `\x41` -/
theorem unescape_swallow_witness (env : Env) (enc : Bytes) :
    unescape env enc ['\\', 'x', '4', '1'] = some ['A'] ∧ unescape env enc ['\\', '1', '0', '1'] = some ['A'] := by
  constructor <;> rfl

/-- fix 9de4551: `\8` and `\9` are not escapes, and octal escapes above `\377` keep their low 8 bits -/
theorem unescape_octal_fix (env : Env) (enc : Bytes) :
    unescape env enc ['a', '\\', '8'] = some ['a', '\\', '8'] ∧ unescape env enc ['\\', '4', '0', '1'] = some ['\x01'] := by
  constructor <;> rfl

/-- non-vacuity: an environment satisfying `CodecOk` (ASCII), and a spelling that mixes every form -/
def asciiCodec : Codec := ⟨fun c => if c.toNat < 128 then some [UInt8.ofNat c.toNat] else none⟩

def asciiEnv : Env where
  asciiCompatible _ := true
  codecExists _ := true
  decode _ bs := match decodeAscii bs with | some t => .text t | none => .ude
  isSpace := pyIsSpace
  isDigit := pyIsDigit
  decimal := pyDecimal

theorem asciiCodecOk (enc : Bytes) : CodecOk asciiEnv enc asciiCodec where
  ascii c hc := by simp [asciiCodec, hc]
  nonascii c bs hc h := by simp [asciiCodec] at h; omega
  decode pairs hp := by
    have hascii : ∀ c : Char, c.toNat < 128 → asciiCodec.encode c = some [UInt8.ofNat c.toNat] := by
      intro c hc; simp [asciiCodec, hc]
    have hnon : ∀ (c : Char) (bs : Bytes), 128 ≤ c.toNat → asciiCodec.encode c = some bs → ∃ b ∈ bs, 128 ≤ b.toNat := by
      intro c bs hc h; simp [asciiCodec] at h; omega
    have hall : ∀ b ∈ (pairs.map (·.2)).flatten, b.toNat < 128 := by
      intro b hb
      simp only [List.mem_flatten, List.mem_map] at hb
      obtain ⟨bs, ⟨q, hq, rfl⟩, hb⟩ := hb
      have := hp q hq
      simp only [asciiCodec] at this
      split at this
      · rename_i hlt
        simp at this; rw [← this] at hb; simp at hb; subst hb
        simp; omega
      · simp at this
    have := Lemmas.PoUnescape.ascii_pairs hascii hnon pairs hp hall
    simp only [asciiEnv, Lemmas.PoUnescape.decodeAscii_eq, if_pos hall, this]

def sampleSpelling : List Choice :=
  [.raw 'a', .simple 0, .bytes 'A' [.hex2 ⟨4, false⟩ ⟨1, false⟩], .bytes 'B' [.oct3 1 0 2], .bytes '\x07' [.oct1 7], .raw 'x',
   .bytes '\n' [.hex1 ⟨10, true⟩], .simple 8, .raw ' ']

example : render sampleSpelling = "a\\n\\x41\\102\\7x\\xA\\\" ".toList := by decide
example : text sampleSpelling = "a\nAB\x07x\n\" ".toList := by decide
example : unescape asciiEnv asciiName (render sampleSpelling) = some (text sampleSpelling) :=
  unescape_spelling asciiEnv asciiName asciiCodec (asciiCodecOk _) sampleSpelling
    (by intro x hx; simp [sampleSpelling] at hx; rcases hx with rfl | rfl | rfl | rfl | rfl | rfl | rfl | rfl | rfl <;>
          simp [Choice.Valid, rawOk, asciiCodec, EscForm.value] <;> decide)
    (by decide)

/-! ## flags -/

/-- the generated strip set of the patched `flags` setter is white space for the interpreter -/
theorem flag_strip_set_is_space : ∀ c : Char, isFlagSpace c = true → pyIsSpace c = true := by
  have h : ∀ n ∈ Generated.PolibFsm.flagStripSet, inRanges Generated.PolibFsm.spaceRanges n = true := by decide
  intro c hc
  exact h c.toNat (by simpa [isFlagSpace] using hc)

/-- **flags_split.**  A flags line `#,` + one white-space character + comma-separated items with any white space around
    them adds exactly the items — trimmed, in order, duplicates and empty items kept — to the entry's flags
    (the patched setter re-splits the whole list and changes nothing). -/
theorem flags_split (env : Env) (enc : Bytes) (hcomma : env.isSpace ',' = false)
    (hsub : ∀ c, isFlagSpace c = true → env.isSpace c = true)
    (ps : List FlagPiece) (hne : ps ≠ []) (hv : ∀ x ∈ ps, x.Valid env.isSpace)
    (ws : Char) (n : Nat) (s : PState) (hold : ∀ f ∈ (flushIfDone n s).cur.flags, FlagItem env.isSpace f) :
    handle env enc n .fl ('#' :: ',' :: ws :: flagBody ps) s =
      some ({ flushIfDone n s with cur := { (flushIfDone n s).cur with flags := (flushIfDone n s).cur.flags ++ ps.map FlagPiece.item } }, true) := by
  have h1 := Lemmas.PoFlags.split_strip hcomma ps hne hv
  have h2 := Lemmas.PoFlags.setFlags_id (sp := env.isSpace) hsub ((flushIfDone n s).cur.flags ++ ps.map FlagPiece.item) (by
    intro f hf
    simp only [List.mem_append, List.mem_map] at hf
    rcases hf with hf | ⟨x, hx, rfl⟩
    · exact hold f hf
    · exact (hv x hx).1)
  simp only [handle, List.drop_succ_cons, List.drop_zero, h1, h2]

/-! ## loading -/

/-- **load_spells_partial** — `load_spells` of the design, stated on the lines `Codecs.open` hands to polib (the decode /
    `Codecs.open` / charset-detection layers are the separate theorems below; composing them into one statement about the
    file's bytes is OUTSTANDING, see DESIGN-notes/po.md).

    For every catalog and every spelling of it (`CatalogSp`): noise lines (white-space lines, `#~| …`, bare `#.` `#:` `#,`)
    anywhere except after the last line; the file's header comment as `# text` lines; per entry any interleaving of
    translator comments `# text`, extracted comments `#. text`, source references `#: file:12 name …`, flag lines `#, a, b`
    (any white space around the items, empty and duplicate items kept), previous-msgid annotations `#| msgctxt/msgid/msgid_plural "…"` with `#| "…"` continuation lines,
    and noise; then `msgctxt`? `msgid` (`msgstr` | `msgid_plural` `msgstr[0]` … `msgstr[N]`, N ≤ 9) behind the obsolete marker
    `#~` or not; every string spelled with any valid per-character choices (raw, letter escapes, octal/hex escaped bytes of
    the file's charset) and cut anywhere into continuation lines, empty segments included; blanks/tabs before a message line
    and any white space after any line —

    polib's line loop with the patches, in any environment where the charset is ASCII-transparent and decodes what it
    encodes, yields exactly: the header comment, and for every entry in order its msgctxt, msgid, msgid_plural, msgstr,
    indexed plural strings, flags, obsolete flag, previous msgctxt/msgid/msgid_plural, source references, extracted and
    translator comments (everything but the line number polib records). -/
theorem load_spells_partial (E : Codec) (env : Env) (hsp : env.isSpace = pyIsSpace) (hdig : env.isDigit = pyIsDigit)
    (hdec : env.decimal = pyDecimal) (enc : Bytes)
    (hE : CodecOk env enc E) (cat : CatalogSp) (hv : cat.Valid E) :
    ∃ f, parseLines env enc cat.lines = .ok f ∧ f.header = cat.headerText ∧
      f.entries.map Lemmas.PoCatalog.content = cat.entries.map EntrySp.entry :=
  Lemmas.PoComments.parse_catalog E env hsp enc hE hdig hdec cat hv

/-- the character U+0105 as the two bytes C4 85, in an environment that decodes exactly that -/
def twoByteEnv : Env :=
  { asciiEnv with decode := fun _ bs => if bs = [0xC4, 0x85] then .text [Char.ofNat 0x105] else
      match decodeAscii bs with | some t => .text t | none => .ude }

/-- **load_spells_refuted** for cuts INSIDE a character: the same two escaped bytes load as the character when they are on
    one line and are a syntax error when a continuation cut separates them (polib unescapes, hence decodes, line by line;
    a PO reader that concatenates first accepts both).  `load_spells_partial` covers cuts BETWEEN characters.
    Recorded as an open finding (`C10:cut-inside-escaped-character`) and replayed on the real loader on every run. -/
theorem load_spells_refuted :
    (match parseLines twoByteEnv asciiName ["msgid \"\\xc4\\x85\"\n".toList, "msgstr \"\"\n".toList] with
      | .ok f => decide (f.entries.map (·.msgid) = [[Char.ofNat 0x105]])
      | .error _ => false) = true ∧
    (match parseLines twoByteEnv asciiName ["msgid \"\\xc4\"\n".toList, "\"\\x85\"\n".toList, "msgstr \"\"\n".toList] with
      | .ok _ => false
      | .error e => decide (e = .syntax 1 .plain)) = true := by
  constructor <;> decide

/-- attribution: the comment fields of an entry are exactly what its own comment lines say, whatever surrounds it
    (a corollary of the shape of `EntrySp.entry`, spelled out for the reader) -/
theorem comments_attributed (e : EntrySp) :
    e.entry.flags = (e.comments.foldl CommentSp.apply {}).flags ∧ e.entry.comment = (e.comments.foldl CommentSp.apply {}).comment ∧
    e.entry.tcomment = (e.comments.foldl CommentSp.apply {}).tcomment ∧
    e.entry.occurrences = (e.comments.foldl CommentSp.apply {}).occurrences ∧
    e.entry.previousMsgid = (e.comments.foldl CommentSp.apply {}).previousMsgid ∧ e.entry.obsolete = e.msg.pre.isObsolete :=
  ⟨rfl, rfl, rfl, rfl, rfl, rfl⟩

/-- non-vacuity: `msgid "a"` / `msgstr ""` / `"b\n"` followed by a bare `#.` inside the entry -/
def sampleMsg : MsgSp where
  pre := .plain
  msgctxt := none
  msgid := ⟨[' '], ⟨[], [.raw 'a'], ['\n']⟩, [], []⟩
  body := .singular ⟨[' '], ⟨[], [], ['\n']⟩, [.bare [] '.' ['\n']], [(⟨[], [.raw 'b', .simple 0], ['\n']⟩, [])]⟩

example : sampleMsg.lines = ["msgid \"a\"\n".toList, "msgstr \"\"\n".toList, "#.\n".toList, "\"b\\n\"\n".toList] := by decide

example : sampleMsg.Valid asciiCodec ∧ sampleMsg.EndsReal := by
  refine ⟨⟨Or.inl rfl, by simp [sampleMsg], ?_, ?_⟩, rfl⟩
  · simp [sampleMsg, StrSp.Valid, Seg.Valid, Blank, Choice.Valid, rawOk, okSeq]; decide
  · simp [sampleMsg, StrSp.Valid, Seg.Valid, Blank, Choice.Valid, rawOk, okSeq, okAdj, Noise.Valid]; decide

example : sampleMsg.entry {} = { msgid := ['a'], msgstr := some ['b', '\n'] } := by decide

/-- non-vacuity of the catalog theorem: header comment, a fuzzy entry with an extracted comment, noise -/
def sampleCatalog : CatalogSp where
  noiseA := [.blank ['\n']]
  header := [⟨"hdr".toList, ['\n']⟩]
  noiseB := []
  entries := [⟨[.extracted ' ' "x".toList ['\n'], .refs ' ' [([], .withLine "a.c".toList [1, 2]), ([' '], .noLine "b".toList)] ['\n'],
                .flags ' ' [⟨[], "fuzzy".toList, []⟩, ⟨[' '], "c-format".toList, []⟩] ['\n']], sampleMsg⟩]

example : sampleCatalog.lines =
    ["\n".toList, "# hdr\n".toList, "#. x\n".toList, "#: a.c:12 b\n".toList, "#, fuzzy, c-format\n".toList,
     "msgid \"a\"\n".toList, "msgstr \"\"\n".toList, "#.\n".toList, "\"b\\n\"\n".toList] := by decide

example : sampleCatalog.entries.map EntrySp.entry =
    [{ msgid := ['a'], msgstr := some ['b', '\n'], comment := ['x'], flags := ["fuzzy".toList, "c-format".toList],
       occurrences := [("a.c".toList, "12".toList), ("b".toList, [])] }] := by decide

example : sampleCatalog.headerText = "hdr".toList := by decide

/-- the charset is taken from the FIRST physical line matching polib's pattern, whatever that line is: a comment that
    mentions `Content-Type: … charset=KOI8-R` before the header makes the loader read a UTF-8 file as KOI8-R
    (open finding `C10:charset-from-earlier-line`, reported by builder-c17; replayed on the real loader every run).
    For files whose first matching line is the header's, detection is tied by the `po-detect` and end-to-end streams. -/
theorem detect_first_match_refuted :
    detectEncoding asciiEnv
      ("# Content-Type: text/plain; charset=KOI8-R\nmsgid \"\"\nmsgstr \"Content-Type: text/plain; charset=UTF-8\\n\"\n".toList.map
        fun c => UInt8.ofNat c.toNat) = ("KOI8-R".toList.map fun c => UInt8.ofNat c.toNat) := by
  decide

/-- "any supported charset declared on one physical line of the header": if the first physical line of the file that matches
    polib's pattern is `"Content-Type: text/plain; charset=NAME…` (NAME a non-empty run of `[\\w\\-:.]`, followed by a byte that
    cannot continue it, e.g. the backslash of `\\n"`) and NAME is a codec Python knows, the file is read in NAME.  The condition on
    the earlier lines is exactly what `detect_first_match_refuted` shows cannot be dropped. -/
theorem detect_header (env : Env) (file : Bytes) (pre post : List Bytes) (name rest : Bytes)
    (hlines : byteLines file = pre ++ (Lemmas.PoDetect.headerPrefix ++ (name ++ rest)) :: post)
    (hpre : ∀ l ∈ pre, detectLine l = none) (hne : name ≠ []) (hn : ∀ b ∈ name, isCharsetByte b = true)
    (hr : ∀ b r, rest = b :: r → isCharsetByte b = false) (hex : env.codecExists name = true) :
    detectEncoding env file = name :=
  Lemmas.PoDetect.detect_header env file pre post name rest hlines hpre hne hn hr hex

/-- a file that is the encoding of its text decodes to that text (the `hfile` hypothesis of the theorems below, from `CodecOk`) -/
theorem decode_file_of_codec (E : Codec) (env : Env) (enc : Bytes) (hE : CodecOk env enc E) (hc : env.asciiCompatible enc = true)
    (pairs : List (Char × Bytes)) (hp : ∀ p ∈ pairs, E.encode p.1 = some p.2) :
    decodeFile env enc (pairs.map (·.2)).flatten = .ok (pairs.map (·.1)) := by
  simp [decodeFile, hc, hE.decode pairs hp]

/-- the layers composed: if the file decodes to `contents`, its physical lines are `body ++ tail` where `Codecs.open` holds back
    every line of `tail` but not the last line of `body`, and `body`, once atypical comments are normalised, is a spelling
    `cat` — then `polib.pofile(path, encoding=enc)` yields the catalog.  (That a given file meets the three side conditions is
    decidable but not derived from `CatalogSp` here: OUTSTANDING.) -/
theorem load_file_partial (E : Codec) (env : Env) (hsp : env.isSpace = pyIsSpace) (hdig : env.isDigit = pyIsDigit)
    (hdec : env.decimal = pyDecimal) (enc : Bytes) (hE : CodecOk env enc E) (cat : CatalogSp) (hv : cat.Valid E)
    (file : Bytes) (contents : Text) (hfile : decodeFile env enc file = .ok contents)
    (b : List Text) (l : Text) (tail : List Text) (hlines : physLines contents = b ++ l :: tail)
    (hl : ¬ Lemmas.PoPre.Held env l) (ht : ∀ x ∈ tail, Lemmas.PoPre.Held env x) (hb : (b ++ [l]).map normalise = cat.lines) :
    ∃ f, loadWith env enc file = .ok f ∧ f.header = cat.headerText ∧
      f.entries.map Lemmas.PoCatalog.content = cat.entries.map EntrySp.entry := by
  obtain ⟨f, h1, h2, h3⟩ := load_spells_partial E env hsp hdig hdec enc hE cat hv
  refine ⟨f, ?_, h2, h3⟩
  simp only [loadWith, hfile, Lemmas.PoPre.preprocess_body env contents b l hl tail ht hlines, hb, h1]

/-- **load_spells_file_partial**: the same for every spelled catalog, with the side conditions about the body discharged —
    the last line of a `CatalogSp` is a message line and `Codecs.open` never holds a message line back.  What remains as
    hypothesis is about the FILE, not the spelling: it decodes; its physical lines are `body ++ tail`; `body` with atypical
    comments normalised is the spelling; `Codecs.open` holds back every trailing line (blank lines, `# …` comments, `#~| …`,
    bare `#.` `#:` `#,`).  (`partial`: the charset `enc` is given; `detectEncoding` is tied by streams, see
    `detect_first_match_refuted`.) -/
theorem load_spells_file_partial (E : Codec) (env : Env) (hsp : env.isSpace = pyIsSpace) (hdig : env.isDigit = pyIsDigit)
    (hdec : env.decimal = pyDecimal) (enc : Bytes) (hE : CodecOk env enc E) (cat : CatalogSp) (hv : cat.Valid E)
    (file : Bytes) (contents : Text) (hfile : decodeFile env enc file = .ok contents)
    (body tail : List Text) (hlines : physLines contents = body ++ tail)
    (hb : body.map normalise = cat.lines) (ht : ∀ x ∈ tail, Lemmas.PoPre.Held env x) :
    ∃ f, loadWith env enc file = .ok f ∧ f.header = cat.headerText ∧
      f.entries.map Lemmas.PoCatalog.content = cat.entries.map EntrySp.entry := by
  obtain ⟨b', l', hcl, hmsg⟩ := Lemmas.PoFile.catalog_last E cat hv
  have hne : body ≠ [] := by intro e; rw [e, hcl] at hb; simp at hb
  obtain ⟨b, l, rfl⟩ : ∃ b l, body = b ++ [l] := ⟨body.dropLast, body.getLast hne, (List.dropLast_concat_getLast hne).symm⟩
  have hl' : normalise l = l' := by
    rw [hcl] at hb
    simp only [List.map_append, List.map_cons, List.map_nil] at hb
    have := List.append_inj' hb (by simp)
    simpa using this.2
  have hl : ¬ Lemmas.PoPre.Held env l := by
    unfold Lemmas.PoPre.Held
    rw [hl', Lemmas.PoFile.not_held_msg env hsp l' hmsg]
    simp
  exact load_file_partial E env hsp hdig hdec enc hE cat hv file contents hfile b l tail (by simpa using hlines) hl ht hb

/-- **load_spells** (as far as it is true): `polib.pofile(path)` itself — charset detection, decode, `Codecs.open`, line loop —
    yields the catalog for every spelled catalog whose file declares its charset on the first line matching polib's pattern.
    Remaining hypotheses are about the file's bytes and lines only (see `load_spells_file_partial`, `detect_header`).
    `partial` because of the two refuted corners (`load_spells_refuted`, `detect_first_match_refuted`) and the stated exclusions. -/
theorem load_spells_detected_partial (E : Codec) (env : Env) (hsp : env.isSpace = pyIsSpace) (hdig : env.isDigit = pyIsDigit)
    (hdec : env.decimal = pyDecimal) (cat : CatalogSp) (file : Bytes) (name : Bytes) (hE : CodecOk env name E) (hv : cat.Valid E)
    (pre post : List Bytes) (rest : Bytes)
    (hbl : byteLines file = pre ++ (Lemmas.PoDetect.headerPrefix ++ (name ++ rest)) :: post)
    (hpre : ∀ l ∈ pre, detectLine l = none) (hne : name ≠ []) (hn : ∀ b ∈ name, isCharsetByte b = true)
    (hr : ∀ b r, rest = b :: r → isCharsetByte b = false) (hex : env.codecExists name = true)
    (contents : Text) (hfile : decodeFile env name file = .ok contents)
    (body tail : List Text) (hlines : physLines contents = body ++ tail)
    (hb : body.map normalise = cat.lines) (ht : ∀ x ∈ tail, Lemmas.PoPre.Held env x) :
    ∃ f, load env file = .ok f ∧ f.header = cat.headerText ∧
      f.entries.map Lemmas.PoCatalog.content = cat.entries.map EntrySp.entry := by
  unfold load
  rw [detect_header env file pre post name rest hbl hpre hne hn hr hex]
  exact load_spells_file_partial E env hsp hdig hdec name hE cat hv file contents hfile body tail hlines hb ht

/-- **load_render_partial — end to end from `Spec.render`.**  For every spelled file `f` (a `CatalogSp` plus trailing lines that
    `Codecs.open` drops) that is `Valid` — every line carries its only line feed, comments are written in the normal form —
    and every charset `enc` that is ASCII-compatible for the tool and whose codec satisfies `CodecOk`: if the charset can encode
    the file's text (`f.render E = some file`), then `polib.pofile(path, encoding=enc)` on those BYTES yields the catalog.
    All hypotheses are about the spelling and the codec; none is about the file. -/
theorem load_render_partial (E : Codec) (env : Env) (hsp : env.isSpace = pyIsSpace) (hdig : env.isDigit = pyIsDigit)
    (hdec : env.decimal = pyDecimal) (enc : Bytes) (hE : CodecOk env enc E) (hcompat : env.asciiCompatible enc = true)
    (f : FileSp) (hv : f.Valid E) (file : Bytes) (hrender : f.render E = some file) :
    ∃ r, loadWith env enc file = .ok r ∧ r.header = f.cat.headerText ∧
      r.entries.map Lemmas.PoCatalog.content = f.cat.entries.map EntrySp.entry := by
  obtain ⟨hcat, htail, hlines, hnorm⟩ := hv
  obtain ⟨pairs, h1, h2, h3⟩ := Lemmas.PoFile.encodeText_pairs E f.text file hrender
  have hfile : decodeFile env enc file = .ok f.text := by
    rw [h1, h2]; exact decode_file_of_codec E env enc hE hcompat pairs h3
  refine load_spells_file_partial E env hsp hdig hdec enc hE f.cat hcat file f.text hfile f.cat.lines (f.tail.map TailSp.render)
    (Lemmas.PoPre.physLines_flatten f.lines hlines) ?_ ?_
  · exact List.map_congr_left (fun l hl => Lemmas.PoFile.normalise_of_not_atypical l (hnorm l hl)) |>.trans (List.map_id _)
  · intro x hx
    simp only [List.mem_map] at hx
    obtain ⟨t, ht, rfl⟩ := hx
    exact Lemmas.PoFile.tail_held env hsp t (htail t ht)

/-- the same with the charset detected by polib from the file (`polib.pofile(path)`).  What is left as hypothesis about the bytes
    is exactly the precondition of `detect_header_general`: the first byte line matching polib's pattern is the header's
    `Content-Type:… charset=NAME` line (see `detect_first_match_refuted` for why it cannot be dropped: in a multi-byte charset
    even the trail bytes of raw characters could spell the pattern earlier). -/
theorem load_render_detected_partial (E : Codec) (env : Env) (hsp : env.isSpace = pyIsSpace) (hdig : env.isDigit = pyIsDigit)
    (hdec : env.decimal = pyDecimal) (name : Bytes) (hE : CodecOk env name E) (hcompat : env.asciiCompatible name = true)
    (f : FileSp) (hv : f.Valid E) (file : Bytes) (hrender : f.render E = some file)
    (pre post : List Bytes) (a params rest : Bytes) (x : UInt8)
    (hbl : byteLines file = pre ++ (a ++ (contentTypeLit ++ (x :: (params ++ (charsetLit ++ (name ++ rest)))))) :: post)
    (hpre : ∀ l ∈ pre, detectLine l = none) (ha : (67 : UInt8) ∉ a) (hp : Lemmas.PoDetect.SpaceNotC params)
    (hne : name ≠ []) (hn : ∀ b ∈ name, isCharsetByte b = true) (hr : ∀ b r, rest = b :: r → isCharsetByte b = false)
    (hex : env.codecExists name = true) :
    ∃ r, load env file = .ok r ∧ r.header = f.cat.headerText ∧
      r.entries.map Lemmas.PoCatalog.content = f.cat.entries.map EntrySp.entry := by
  unfold load
  rw [Lemmas.PoDetect.detect_header_general env file pre post a params name rest x hbl hpre ha hp hne hn hr hex]
  exact load_render_partial E env hsp hdig hdec name hE hcompat f hv file hrender

/-- header forms: anything without a `C` before `Content-Type:`, one byte, parameters in which ` charset=` cannot start
    (`text/plain;`, `text/html; x=y;`, …), then ` charset=NAME` -/
theorem detect_header_general (env : Env) (file : Bytes) (pre post : List Bytes) (a params name rest : Bytes) (x : UInt8)
    (hlines : byteLines file = pre ++ (a ++ (contentTypeLit ++ (x :: (params ++ (charsetLit ++ (name ++ rest)))))) :: post)
    (hpre : ∀ l ∈ pre, detectLine l = none) (ha : (67 : UInt8) ∉ a) (hp : Lemmas.PoDetect.SpaceNotC params)
    (hne : name ≠ []) (hn : ∀ b ∈ name, isCharsetByte b = true) (hr : ∀ b r, rest = b :: r → isCharsetByte b = false)
    (hex : env.codecExists name = true) : detectEncoding env file = name :=
  Lemmas.PoDetect.detect_header_general env file pre post a params name rest x hlines hpre ha hp hne hn hr hex

/-- the trailing lines a file may have after its last message line without losing it (fix ed9c45c for the comment forms):
    every noise line, and every translator comment starting in the first column, is held back by `Codecs.open` -/
theorem codecs_open_holds_trailing (env : Env) (hsp : env.isSpace = pyIsSpace) :
    (∀ z : Noise, z.Valid → Lemmas.PoPre.Held env z.render) ∧
    (∀ rest : Text, rest ≠ [] →
      (∀ c r, rest = c :: r → c = ' ' ∨ ¬ (c = '.' ∨ c = ':' ∨ c = ',' ∨ c = '|' ∨ c = '~')) → Lemmas.PoPre.Held env ('#' :: rest)) :=
  ⟨fun z hz => Lemmas.PoFile.noise_held env hsp z hz, fun rest hne h => Lemmas.PoFile.tcomment_held env rest h hne⟩

/-- the physical lines of a file are its `\n`-terminated pieces: no other character ends a line (Debian #692283) -/
theorem phys_lines (ls : List Text) (h : ∀ l ∈ ls, IsLine l) : physLines ls.flatten = ls :=
  Lemmas.PoPre.physLines_flatten ls h

/-- fix ed9c45c, the witness: the last message survives a trailing comment polib skips -/
theorem trailing_ignored_comment_witness :
    (match loadWith asciiEnv asciiName ("msgid \"a\"\nmsgstr \"b\"\n#.\n".toList.map fun c => UInt8.ofNat c.toNat) with
      | .ok f => decide (f.entries.map (fun e => (e.msgid, e.msgstr)) = [(['a'], some ['b'])])
      | .error _ => false) = true := by
  decide

/-- non-vacuity of `load_file_partial`: the sample catalog as a file, with an atypical header comment (`#hdr`) and
    trailing comments that `Codecs.open` drops -/
def sampleFile : Text :=
  "\n#hdr\n#. x\n#: a.c:12 b\n#, fuzzy, c-format\nmsgid \"a\"\nmsgstr \"\"\n#.\n\"b\\n\"\n# trailing\n#~| msgid \"z\"\n".toList

theorem sampleCatalog_valid : sampleCatalog.Valid asciiCodec := by
  refine ⟨?_, ?_, ?_, ?_, by simp [sampleCatalog], ?_, ?_⟩
  · simp [sampleCatalog, Noise.Valid]; decide
  · simp [sampleCatalog, HeaderLine.Valid, endsNonSpace, allSpace]; decide
  · simp [sampleCatalog]
  · intro e he
    simp [sampleCatalog] at he; subst he
    refine ⟨?_, ⟨Or.inl rfl, by simp [sampleMsg], ?_, ?_⟩⟩
    · simp [CommentSp.Valid, blankChar, endsNonSpace, allSpace, refsValid, RefItem.Valid, Blank, FlagPiece.Valid, FlagItem, flagBody,
        joinComma, FlagPiece.render]
      decide
    · simp [sampleMsg, StrSp.Valid, Seg.Valid, Blank, Choice.Valid, rawOk, okSeq]; decide
    · simp [sampleMsg, StrSp.Valid, Seg.Valid, Blank, Choice.Valid, rawOk, okSeq, okAdj, Noise.Valid]; decide
  · intro e he; simp [sampleCatalog] at he; subst he; simp [CommentSp.isTc]
  · intro e he; simp [sampleCatalog] at he; subst he; rfl

example : ∃ f, loadWith asciiEnv asciiName (sampleFile.map fun c => UInt8.ofNat c.toNat) = .ok f ∧ f.header = "hdr".toList ∧
    f.entries.map Lemmas.PoCatalog.content = sampleCatalog.entries.map EntrySp.entry := by
  have hv := sampleCatalog_valid
  have hfile : decodeFile asciiEnv asciiName (sampleFile.map fun c => UInt8.ofNat c.toNat) = .ok sampleFile := by
    have : decodeAscii (sampleFile.map fun c => UInt8.ofNat c.toNat) = some sampleFile := by decide
    simp [decodeFile, asciiEnv, this]
  exact load_file_partial asciiCodec asciiEnv rfl rfl rfl asciiName (asciiCodecOk _) sampleCatalog hv _ sampleFile hfile
    ["\n".toList, "#hdr\n".toList, "#. x\n".toList, "#: a.c:12 b\n".toList, "#, fuzzy, c-format\n".toList,
     "msgid \"a\"\n".toList, "msgstr \"\"\n".toList, "#.\n".toList] "\"b\\n\"\n".toList
    ["# trailing\n".toList, "#~| msgid \"z\"\n".toList] (by decide)
    (by unfold Lemmas.PoPre.Held; decide)
    (by intro x hx; simp at hx; rcases hx with rfl | rfl <;> (unfold Lemmas.PoPre.Held; decide))
    (by decide)

/-- `Codecs.open` yields every physical line up to the last one it does not hold back, in order (atypical comments
    normalised), and drops the held-back lines after it (fix ed9c45c put the comment forms polib skips among them) -/
theorem codecs_open_keeps_body (env : Env) (contents : Text) (b : List Text) (l : Text) (hl : ¬ Lemmas.PoPre.Held env l)
    (tail : List Text) (ht : ∀ x ∈ tail, Lemmas.PoPre.Held env x) (hlines : physLines contents = b ++ l :: tail) :
    preprocess env contents = (b ++ [l]).map normalise :=
  Lemmas.PoPre.preprocess_body env contents b l hl tail ht hlines

/-! ## history independence -/

/-- **load_sequence_independent.**  Loading a list of files in one process is the list of the single loads: the result for a
    file does not depend on the files loaded before it (nor on their charsets).  True of the model by construction — its loop
    threads nothing but the results — which is exactly what a module-level cache in the loader would break; the tie is the
    `po-load-sequence` stream and the sequence falsifier (files in different charsets sharing textually identical escaped
    lines, every order, each order in its own process). -/
theorem load_sequence_independent (env : Env) (files : List Bytes) : loadSeq env files = files.map (checkerLoad env) := by
  unfold loadSeq
  suffices h : ∀ acc : List (Except Err PoFile × Bool),
      files.foldl (fun results file => results ++ [checkerLoad env file]) acc = acc ++ files.map (checkerLoad env) by
    simpa using h []
  induction files with
  | nil => simp
  | cons f rest ih => intro acc; simp [List.foldl_cons, ih]

/-- whatever was loaded before, and in whatever order, the last file gets the result it gets alone -/
theorem load_after_any_history (env : Env) (history : List Bytes) (file : Bytes) :
    (loadSeq env (history ++ [file])).getLast? = some (checkerLoad env file) := by
  rw [load_sequence_independent]; simp

/-- non-vacuity: the same escaped line `\\xc4\\x85` in a file read as "two-byte" text and in a plain ASCII-declared file:
    each file gets its own answer in both orders -/
example :
    let a := "msgid \"\\xc4\\x85\"\nmsgstr \"\"\n".toList.map fun c => UInt8.ofNat c.toNat
    let b := "msgid \"x\"\nmsgstr \"\\xc4\\x85\"\n# c\n".toList.map fun c => UInt8.ofNat c.toNat
    (loadSeq twoByteEnv [a, b]).map (·.2) = [false, false] ∧
    loadSeq twoByteEnv [a, b] = (loadSeq twoByteEnv [b, a]).reverse := by
  intro a b
  rw [load_sequence_independent, load_sequence_independent]
  exact ⟨by decide, rfl⟩

/-- non-vacuity of `load_render_partial`: the sample catalog followed by two trailing lines, rendered in ASCII -/
def sampleFileSp : FileSp :=
  ⟨sampleCatalog, [.comment " trailing\n".toList, .noise (.ignoredPrev [] " msgid \"z\"".toList ['\n'])]⟩

theorem sampleFileSp_valid : sampleFileSp.Valid asciiCodec := by
  refine ⟨sampleCatalog_valid, ?_, ?_, ?_⟩
  · intro t ht
    simp [sampleFileSp] at ht
    rcases ht with rfl | rfl
    · refine ⟨by decide, ?_⟩
      intro c r e; simp at e; exact Or.inl e.1.symm
    · simp [TailSp.Valid, Noise.Valid, Blank]; decide
  · have : ∀ l ∈ sampleFileSp.lines, Lemmas.PoPre.isLineB l = true := by decide
    exact fun l hl => Lemmas.PoPre.isLine_of_isLineB l (this l hl)
  · decide

set_option maxRecDepth 8000 in
example : ∃ file, sampleFileSp.render asciiCodec = some file ∧ ∃ r, loadWith asciiEnv asciiName file = .ok r ∧ r.header = "hdr".toList ∧
    r.entries.map Lemmas.PoCatalog.content = sampleCatalog.entries.map EntrySp.entry := by
  have hr : (sampleFileSp.render asciiCodec).isSome = true := by decide
  obtain ⟨file, hfile⟩ := Option.isSome_iff_exists.mp hr
  exact ⟨file, hfile, load_render_partial asciiCodec asciiEnv rfl rfl rfl asciiName (asciiCodecOk _) rfl sampleFileSp sampleFileSp_valid file hfile⟩

/-- `translated()` as patched: not obsolete, not fuzzy, and `msgstr` or some plural form non-empty -/
theorem translated_iff (e : Entry) :
    translated e = true ↔
      e.obsolete = false ∧ ['f', 'u', 'z', 'z', 'y'] ∉ e.flags ∧
        ((∃ c t, e.msgstr = some (c :: t)) ∨ ∃ kv ∈ e.msgstrPlural, kv.2 ≠ []) := by
  unfold translated
  cases ho : e.obsolete <;> simp
  cases hf : e.flags.contains ['f', 'u', 'z', 'z', 'y'] <;> simp_all
  · cases hm : e.msgstr with
    | none => simp
    | some v => cases v <;> simp
  
end I18n.Props.C10
