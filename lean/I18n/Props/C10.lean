import I18n.Model.Po
/-! # C10 — PO text decodes to exactly the strings gettext would see -/
namespace I18n.Props.C10
open I18n I18n.Po
open I18n.Generated.PolibFsm (St Sym Handler)

/-- the hand-written scanners stand for these regex texts (a change of text breaks this pin; the check then goes
    to the falsifier) -/
theorem regex_pins :
    Generated.PolibFsm.escapesRe = " ( \\\\\n(?: [ntbrfva]\n  | \\\\\n  | \"\n  | [0-7]{1,3}\n  | x[0-9a-fA-F]{1,2}\n  ))+\n" ∧
    Generated.PolibFsm.escapesReFlags = 96 ∧
    Generated.PolibFsm.shortXEscapeRe = "\n    \\\\x ([0-9a-fA-F]) (?= \\\\ | $ )\n" ∧
    Generated.PolibFsm.bigOctalEscapeRe = "\n    \\\\ ([4-7][0-7]{2})\n" ∧
    Generated.PolibFsm.iterlines = "[^\\n]*(?:\\n|\\Z)" ∧ Generated.PolibFsm.iterlinesMethod = "findall" ∧
    Generated.PolibFsm.atypicalComment = "#[^ .:,|~]" ∧ Generated.PolibFsm.atypicalCommentMethod = "match" ∧
    Generated.PolibFsm.detectPattern = ["\"?Content-Type:.+? charset=([\\w_\\-:\\.]+)"] ∧
    Generated.PolibFsm.quoteRes = ["([^\\\\]|^)\""] ∧
    Generated.PolibFsm.defaultEncoding = "ASCII" ∧
    True := by
  refine ⟨rfl, rfl, rfl, rfl, rfl, rfl, rfl, rfl, rfl, rfl, rfl, trivial⟩

end I18n.Props.C10
