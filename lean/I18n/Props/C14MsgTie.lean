import I18n.Lemmas.FmtMsgGenerated
import I18n.Props.C14Tie
/-!
# C14 — the tie, second part: `check_message` REGENERATED from the source is the model's `checkMessage`

`I18n.Generated.FmtMsg.check_message` is rewritten from the repository's current `lib/check/msgformat/__init__.py`
(`Checker.check_message`: which strings are compared with which, the plural-form / range-flag pairing, the preimage filter, the
tolerance for an omitted integer argument) by `tools/translate/fmtmsg2lean.py` on every run.  `generated_check_message_eq_model`
proves it equal to `FmtCheck.checkMessage` for EVERY back end, context, message and flags; with the first part (`Props/C14Tie.lean`:
the four `check_args` and `get_last_integer_conversion`) the whole of `_check_message_formats` over regenerated code is the model
(`generated_msg_check_formats_eq_model`).  The headline message-level theorems are restated about the regenerated definitions.
`check_string` / `check_msgids` of the individual checkers and the parsers remain model primitives (`FmtCheck.checkString`, `Backend`).
-/
namespace I18n.Props.C14MsgTie
open I18n I18n.FmtCheck I18n.FmtSig I18n.Spec.FmtCompare I18n.Spec.Printf I18n.Generated

/-- **The tie.**  `Checker.check_message(ctx, message, flags)` as regenerated, for the checker given by the back end `b`,
    emits exactly the tag calls of `FmtCheck.checkMessage` (and raises exactly when it does) -/
theorem generated_check_message_eq_model {σ F : Type} (b : Backend σ F) (ctx : Ctx) (msg : Msg σ) (fl : Flags) :
    FmtMsg.check_message b [] ctx msg fl = checkMessage b ctx msg fl := by
  rw [GenMsg.check_message_eq]; cases checkMessage b ctx msg fl <;> simp

/-- with output already emitted -/
theorem generated_check_message_append {σ F : Type} (b : Backend σ F) (out : List TagCall) (ctx : Ctx) (msg : Msg σ) (fl : Flags) :
    FmtMsg.check_message b out ctx msg fl = Gen.appendTags out (checkMessage b ctx msg fl) :=
  GenMsg.check_message_eq b out ctx msg fl

/-- `Checker._check_message_formats` over the regenerated `check_message` AND the regenerated `check_args` is the model -/
theorem generated_msg_check_formats_eq_model (ctx : Ctx) (fl : Flags) (formats : List (List Char × KMsg)) :
    GenMsg.checkFormats ctx fl formats = FmtCheck.checkFormats ctx fl formats := by
  obtain ⟨h1, h2, h3, h4, h5, h6⟩ := C14Tie.generated_backends_eq_model
  have hc : ∀ m, GenMsg.check ctx fl m = KMsg.check ctx fl m := by
    intro m; cases m <;> simp only [GenMsg.check, KMsg.check, generated_check_message_eq_model, h1, h2, h3, h4, h5, h6]
  have hr : ∀ l, GenMsg.runAll ctx fl l = FmtCheck.runAll ctx fl l := by
    intro l
    induction l with
    | nil => rfl
    | cons p l ih =>
      obtain ⟨name, m⟩ := p
      simp only [GenMsg.runAll, FmtCheck.runAll, hc, ih]
      split
      · cases KMsg.check ctx fl m with
        | error e => rfl
        | ok t => cases FmtCheck.runAll ctx fl l <;> rfl
      · rfl
  simp only [GenMsg.checkFormats, FmtCheck.checkFormats, hr]

/-! ### the headline theorems, about the regenerated `check_message` -/

/-- **plain_message**, of the regenerated `check_message`: a non-plural message with a valid `msgstr` gets, besides `check_msgids` and the
    warnings about `msgstr`, exactly the tags of `check_args(msgid, msgstr)` with no tolerance -/
theorem plain_message_generated {σ F : Type} (b : Backend σ F) (ctx : Ctx) (msg : Msg σ) (fl : Flags) (hdom : InDomain ctx fl)
    (hpl : msg.msgidPlural = none) (hforms : msg.msgstrPlural = []) (f0 f : F) (h0 : b.parse msg.msgid = .ok f0)
    (ht : b.truthy msg.msgstr = true) (h : b.parse msg.msgstr = .ok f) (tags : List TagCall)
    (hargs : b.checkArgs msg.pfx "msgid".toList f0 "msgstr".toList f false = .ok tags) :
    FmtMsg.check_message b [] ctx msg fl = .ok (b.checkMsgids msg.repr (some f0) ++
      (b.okTags false false msg.pfx msg.repr f ++ tags)) := by
  rw [generated_check_message_eq_model]
  exact C14.plain_message b ctx msg fl hdom hpl hforms f0 f h0 ht h tags hargs

/-- **invalid_msgstr_error**, of the regenerated `check_message` -/
theorem invalid_msgstr_error_generated {σ F : Type} (b : Backend σ F) (ctx : Ctx) (msg : Msg σ) (fl : Flags) (hdom : InDomain ctx fl)
    (hpl : msg.msgidPlural = none) (hforms : msg.msgstrPlural = []) (f0 : F) (h0 : b.parse msg.msgid = .ok f0)
    (ht : b.truthy msg.msgstr = true) (h : b.parse msg.msgstr = .own) :
    FmtMsg.check_message b [] ctx msg fl = .ok (b.checkMsgids msg.repr (some f0) ++ [⟨b.errTag, [msg.pfx]⟩]) := by
  rw [generated_check_message_eq_model]
  exact C14.invalid_msgstr_error b ctx msg fl hdom hpl hforms f0 h0 ht h

/-- **message_tags**, of the regenerated `check_message`: what a message gets, generically in the kind (which plural forms are compared
    with which source and with what tolerance is `allPlans`, characterised by `plural_form_plan` / `plural_form_is_compared`) -/
theorem message_tags_generated {σ F : Type} (b : Backend σ F) (ctx : Ctx) (msg : Msg σ) (fl : Flags) (hdom : InDomain ctx fl)
    (f0 : F) (h0 : b.parse msg.msgid = .ok f0) (f1 : Option F)
    (h1 : match msg.msgidPlural with | none => f1 = none | some sp => ∃ g, b.parse sp = .ok g ∧ f1 = some g)
    (hs : NoCrashOn b msg.msgstr) (hforms : ∀ p ∈ msg.msgstrPlural, NoCrashOn b p.2)
    (hargs : ∀ d ∈ allPlans b ctx msg fl (some f0) f1, PlanOk b msg.pfx d) :
    FmtMsg.check_message b [] ctx msg fl = .ok (b.checkMsgids msg.repr (some f0) ++
      ((if b.truthy msg.msgstr then stringTags b ctx msg msg.msgstr else []) ++ (pluralPart b ctx msg fl (some f0) f1).1 ++
       (allPlans b ctx msg fl (some f0) f1).flatMap (planTags b msg.pfx))) := by
  rw [generated_check_message_eq_model]
  exact C14.message_tags b ctx msg fl hdom f0 h0 f1 h1 hs hforms hargs

/-- `check_message` of the C and Python-% checkers, regenerated and over the regenerated `check_args`, never raises -/
theorem check_message_nocrash_generated (ctx : Ctx) (msg : Msg (List Char)) (fl : Flags) :
    (∃ t, FmtMsg.check_message Gen.cBackend [] ctx msg fl = .ok t) ∧ (∃ t, FmtMsg.check_message Gen.pyBackend [] ctx msg fl = .ok t) := by
  simp only [generated_check_message_eq_model]
  exact C14Tie.check_message_nocrash_generated ctx msg fl

end I18n.Props.C14MsgTie
