import I18n.Lemmas.TagsLine
import I18n.Generated.SafestrSites
import I18n.Generated.TagSites
import I18n.Generated.TagState
/-!
# C02 — one well-formed line per problem; file content cannot forge or corrupt output

Model: `I18n.Tags` (lib/tags.py `_escape` / `safe_format` / `Tag.format` / `get_priority`, msgrepr.py, cli.py
`Checker.tag`, with CPython's `repr`, `str(int)` and the used subset of `str.format`).  `str.isprintable` and the
category Cf are parameters (`UnicodeDB`); every theorem that needs them assumes `Sound db`, which `unicode_sound`
discharges for the tables dumped from the running interpreter.

The last section is the inventory: a proof over the table of `safestr` / `safe_format` sites that the translator
extracts from /repo on every run.  One site was file-derived on the pinned tree (`safestr(key)`, msgformat/python.py); it was
repaired by `fix:` d06c053 and the full statement `safestr_sites_tool_text` is a theorem.
-/
namespace I18n.Props.C02
open I18n I18n.Tags I18n.Spec I18n.Spec.Tags

/-! ## The Unicode parameter -/

/-- The interpreter's own tables satisfy what the theorems assume: nothing `str.isprintable` accepts is a control,
    a format character (Cf), a line/paragraph separator or a surrogate; no ASCII character is Cf.
    (711 printable ranges against 25 hostile ranges, checked in the kernel.) -/
theorem unicode_sound : Sound liveDb where
  ascii_not_format := by
    intro c _ h2
    exact rangesAbove_sound 126 _ (by decide +kernel) c h2
  printable_not_hostile := by
    intro c hc
    rw [liveHostile_eq]
    exact disjointRanges_sound _ _ (by decide +kernel) c hc

/-! ## The escaper -/

/-- **escape_clean.**  Whatever reaches `_escape` without being a `safestr` — a `str`, `bytes`, an `int` — comes out
    without any newline, ESC, other C0/C1 control, DEL, format character, line/paragraph separator or surrogate. -/
theorem escape_clean {db : UnicodeDB} (h : Sound db) (x : Extra) (hx : x.escaped = true) :
    Clean db (escape db x) :=
  token_clean h (Tags.escape_token h x hx)

/-- the same, spelled out character class by character class -/
theorem escape_clean_classes {db : UnicodeDB} (h : Sound db) (x : Extra) (hx : x.escaped = true) :
    ∀ c ∈ escape db x, c ≠ 10 ∧ c ≠ 27 ∧ c ≠ 127 ∧ 32 ≤ c ∧ ¬(128 ≤ c ∧ c ≤ 159) ∧ db.format c = false ∧
      c ≠ 0x2028 ∧ c ≠ 0x2029 :=
  fun c hc => hostile_false_facts (escape_clean h x hx c hc)

/-- … and for the running interpreter's tables, without hypothesis -/
theorem escape_clean_live (x : Extra) (hx : x.escaped = true) : Clean liveDb (escape liveDb x) :=
  escape_clean unicode_sound x hx

/-- **escape_token.**  The escaped form is one token: a non-empty word over `[A-Za-z0-9_.!<>=-]`, the text
    `(empty string)`, or a quoted Python literal whose body consists of harmless characters other than the quote and
    the backslash and of the escape sequences `\\ \' \" \t \n \r \xNN \uNNNN \UNNNNNNNN` — so an extra can neither
    end its own quotes nor smuggle a blank-separated second extra. -/
theorem escape_token {db : UnicodeDB} (h : Sound db) (x : Extra) (hx : x.escaped = true) :
    Token db (escape db x) :=
  Tags.escape_token h x hx

/-- ints are printed verbatim (and are safe words) -/
theorem escape_int (db : UnicodeDB) (n : Int) : escape db (.int n) = strInt n ∧ isSafe (strInt n) = true :=
  ⟨Tags.escape_int db n, strInt_safe n⟩

/-- the regex behind the hand-written `isSafe` is the one the source compiles, used through `.match`, no flags -/
theorem is_safe_pin :
    Generated.TagRegistry.isSafePattern = "\\A[A-Za-z0-9_.!<>=-]+\\Z" ∧
    Generated.TagRegistry.isSafeFlags = 0 ∧ Generated.TagRegistry.isSafeMethod = "match" := by decide

/-! ## The line -/

/-- **format_grammar.**  Without colour the line is exactly `<letter>: <path>: <tag>[ <extra> …]`, the extras being
    the escaped forms joined by single blanks, and the letter is one of E, W, I, P. -/
theorem format_grammar (db : UnicodeDB) (t : Tag) (p : Str) (xs : List Extra) :
    format db t p xs none = lineOf t.priority.code p t.name (xs.map (escape db)) ∧
    (t.priority.toChar = 'E' ∨ t.priority.toChar = 'W' ∨ t.priority.toChar = 'I' ∨ t.priority.toChar = 'P') := by
  refine ⟨format_plain db t p xs, ?_⟩
  cases t.priority <;> simp [Letter.toChar]

/-- **colour_strip.**  With colour, the line is the plain line with `on` / `off` inserted around the tag name and
    nowhere else — for arbitrary `on`, `off`. -/
theorem colour_strip (db : UnicodeDB) (t : Tag) (p : Str) (xs : List Extra) (on off : Str) :
    ∃ pre post : Str,
      format db t p xs (some (on, off)) = pre ++ on ++ t.name ++ off ++ post ∧
      format db t p xs none = pre ++ t.name ++ post := by
  refine ⟨[t.priority.code] ++ lit ": " ++ p ++ lit ": ",
    if xs.isEmpty then [] else lit " " ++ joinStr (lit " ") (xs.map (escape db)), ?_, ?_⟩ <;>
  · simp only [format]
    split <;> simp [List.append_assoc]

/-- **line_clean.**  If the path, the tag name and the `safestr` extras are clean, the whole uncoloured line is:
    nothing file-derived can put a control, format or separator character on stdout. -/
theorem line_clean {db : UnicodeDB} (h : Sound db) (t : Tag) (p : Str) (xs : List Extra)
    (hp : Clean db p) (hn : Clean db t.name) (hsafe : ∀ s, Extra.safe s ∈ xs → Clean db s) :
    Clean db (format db t p xs none) := by
  refine format_forall (fun c => hostile db c = false) db t p xs none
    ⟨AP.not_hostile h ⟨by decide, by decide⟩, AP.not_hostile h ⟨by decide, by decide⟩⟩
    (AP.not_hostile h (letter_AP _)) hp hn (by intro on off e; cases e) ?_
  intro x hx
  cases hxe : x.escaped with
  | true => exact escape_clean h x hxe
  | false =>
    cases x with
    | safe s => exact hsafe s hx
    | bytes b => simp [Extra.escaped] at hxe
    | str s => simp [Extra.escaped] at hxe
    | int n => simp [Extra.escaped] at hxe

/-- **line_count.**  A run of `Checker.tag` calls that does not hit an unknown tag writes exactly one line per call
    whose tag is not ignored — provided the path, the registry's tag names, the colour strings and the `safestr`
    extras are newline-free (file-derived extras need no hypothesis: the escaper removes their newlines). -/
theorem line_count {db : UnicodeDB} (h : Sound db) (cfg : Config) (calls : List (Str × List Extra)) (out : Str)
    (hrun : runTags db cfg calls = .ok out)
    (hpath : 10 ∉ cfg.path) (hnames : ∀ t ∈ cfg.registry, 10 ∉ t.name)
    (hcol : ∀ t, 10 ∉ (cfg.colours t).1 ∧ 10 ∉ (cfg.colours t).2)
    (hsafe : ∀ call ∈ calls, ∀ s, Extra.safe s ∈ call.2 → 10 ∉ s) :
    newlines out = (printing cfg calls).length ∧
    ∃ lines : List Str, lines.length = (printing cfg calls).length ∧ (∀ l ∈ lines, 10 ∉ l) ∧
      out = (lines.map (· ++ [10])).flatten := by
  have key := runTags_lines db cfg calls out hrun (by
    intro call hcall t ht
    have := format_forall (fun c => c ≠ 10) db t cfg.path call.2 (some (cfg.colours t))
      ⟨by decide, by decide⟩ (by rcases letter_code_cases t.priority with e | e | e | e <;> rw [e] <;> decide)
      (fun c hc e => hpath (e ▸ hc)) (fun c hc e => hnames t ht (e ▸ hc))
      (by
        intro on off e
        have := hcol t
        simp only [Option.some.injEq] at e
        rw [e] at this
        exact ⟨fun c hc e => this.1 (e ▸ hc), fun c hc e => this.2 (e ▸ hc)⟩)
      (by
        intro x hx c hc
        cases hxe : x.escaped with
        | true => exact (hostile_false_facts (escape_clean h x hxe c hc)).1
        | false =>
          cases x with
          | safe s => exact fun e => hsafe call hcall s hx (e ▸ hc)
          | bytes b => simp [Extra.escaped] at hxe
          | str s => simp [Extra.escaped] at hxe
          | int n => simp [Extra.escaped] at hxe)
    exact fun hmem => this 10 hmem rfl)
  obtain ⟨lines, hlen, hnl, rfl⟩ := key
  exact ⟨by rw [count_lines lines hnl, hlen], lines, hlen, hnl, rfl⟩

/-- unknown tag names are refused (`DataIntegrityError`), nothing is printed for them -/
theorem unknown_tag_refused (db : UnicodeDB) (cfg : Config) (n : Str) (xs : List Extra)
    (hign : cfg.ignore.contains n = false) (hunk : ∀ t ∈ cfg.registry, t.name ≠ n) :
    checkerTag db cfg n xs = .error .dataIntegrity := by
  have : findTag cfg.registry n = none := by
    unfold findTag
    rw [List.find?_eq_none]
    intro t ht
    simpa using hunk t ht
  have hign' : n ∉ cfg.ignore := by simpa using hign
  simp [checkerTag, hign', this]

/-- a printed line always carries a registered tag and that tag's own letter -/
theorem printed_tag_registered (db : UnicodeDB) (cfg : Config) (n : Str) (xs : List Extra) (out : Str)
    (h : checkerTag db cfg n xs = .ok out) (hne : out ≠ []) :
    ∃ t ∈ cfg.registry, t.name = n ∧ out = format db t cfg.path xs (some (cfg.colours t)) ++ [10] := by
  simp only [checkerTag] at h
  split at h
  · simp only [Except.ok.injEq] at h; exact absurd h.symm hne
  · split at h
    · simp at h
    · rename_i t ht
      simp only [Except.ok.injEq] at h
      exact ⟨t, (findTag_mem ht).1, (findTag_mem ht).2, h.symm⟩

/-! ## History independence: no call's line depends on what was formatted before -/

/-- **format_calls_independent.**  The output of a run of `Checker.tag` calls is the concatenation of what each call prints
    when taken alone: `calls.map (one call) = outs.map ok` and `out = outs.flatten`.  So the line of a call is a function
    of that call's arguments (and the configuration) only — never of the calls before it.  (The model has no state to
    carry from one call to the next; the real `_escape` / `Tag.format` are tied to that by the `tags-seq` stream and by
    `escaper_stateless`.) -/
theorem format_calls_independent (db : UnicodeDB) (cfg : Config) :
    ∀ (calls : List (Str × List Extra)) (out : Str), runTags db cfg calls = .ok out →
      ∃ outs : List Str,
        calls.map (fun c => checkerTag db cfg c.1 c.2) = outs.map Except.ok ∧ out = outs.flatten := by
  intro calls
  induction calls with
  | nil =>
    intro out h
    simp only [runTags, Except.ok.injEq] at h
    exact ⟨[], by simp, by simp [← h]⟩
  | cons call rest ih =>
    intro out h
    obtain ⟨n, xs⟩ := call
    simp only [runTags] at h
    split at h
    · simp at h
    · rename_i o ho
      split at h
      · simp at h
      · rename_i o' ho'
        simp only [Except.ok.injEq] at h
        obtain ⟨outs, hmap, rfl⟩ := ih o' ho'
        exact ⟨o :: outs, by simp [ho, hmap], by simp [← h]⟩

/-- … and conversely the per-call outputs determine the run -/
theorem format_calls_determine_run (db : UnicodeDB) (cfg : Config) (calls : List (Str × List Extra)) (outs : List Str)
    (h : calls.map (fun c => checkerTag db cfg c.1 c.2) = outs.map Except.ok) :
    runTags db cfg calls = .ok outs.flatten :=
  runTags_of_calls db cfg calls outs h

/-- **history_independent.**  The same calls `rest` after two different histories `pre₁`, `pre₂` print the same text `r`:
    both outputs split as (what the history printed) ++ r, with `r` the output of `rest` run on its own. -/
theorem history_independent (db : UnicodeDB) (cfg : Config) (pre₁ pre₂ rest : List (Str × List Extra)) (o₁ o₂ : Str)
    (h₁ : runTags db cfg (pre₁ ++ rest) = .ok o₁) (h₂ : runTags db cfg (pre₂ ++ rest) = .ok o₂) :
    ∃ p₁ p₂ r : Str, runTags db cfg pre₁ = .ok p₁ ∧ runTags db cfg pre₂ = .ok p₂ ∧ runTags db cfg rest = .ok r ∧
      o₁ = p₁ ++ r ∧ o₂ = p₂ ++ r := by
  rw [runTags_append] at h₁ h₂
  cases hp₁ : runTags db cfg pre₁ with
  | error e => simp [hp₁] at h₁
  | ok p₁ =>
    cases hp₂ : runTags db cfg pre₂ with
    | error e => simp [hp₂] at h₂
    | ok p₂ =>
      cases hr : runTags db cfg rest with
      | error e => simp [hp₁, hr] at h₁
      | ok r =>
        simp only [hp₁, hp₂, hr, Except.ok.injEq] at h₁ h₂
        exact ⟨p₁, p₂, r, rfl, rfl, rfl, h₁.symm, h₂.symm⟩

/-- **extra_token_independent.**  Inside one line, the token printed for an extra is `escape` of that extra alone,
    whatever the extras before and after it. -/
theorem extra_token_independent (db : UnicodeDB) (t : Tag) (p : Str) (pre post : List Extra) (x : Extra) :
    format db t p (pre ++ x :: post) none =
      lineOf t.priority.code p t.name (pre.map (escape db) ++ escape db x :: post.map (escape db)) := by
  rw [format_plain]; simp

def fnStateless (f : Generated.TagState.Fn) : Bool :=
  (f.kind = "function" || f.kind = "method") && f.decorators.isEmpty && f.scopeDecls.isEmpty &&
    f.mutableDefaults.isEmpty && f.writes.isEmpty && f.readsState.isEmpty

/-- **escaper_stateless** (pin over the `ast` inventory regenerated from /repo on every run).  `_escape`, `safe_format`,
    `Tag.format`, `Tag.get_priority`, `get_tag`, `message_repr` and `Checker.tag` are each bound by exactly one plain `def`
    (not wrapped or re-assigned afterwards), carry no decorator (no `lru_cache`), declare nothing `global` / `nonlocal`,
    have no non-constant default value, store into / mutate no non-local name and no parameter, and mention no
    module-level name that some function body mutates — themselves or through the callees they reach in lib/tags.py,
    msgrepr.py, cli.py.  This is the static reason why the stateless model can stand for the real functions; a memo
    table in `_escape` (seeded change C02-c) breaks it. -/
theorem escaper_stateless :
    Generated.TagState.fns.map (·.key) =
      ["lib/tags.py:_escape", "lib/tags.py:safe_format", "lib/tags.py:Tag.format", "lib/tags.py:Tag.get_priority",
       "lib/tags.py:get_tag", "lib/check/msgrepr.py:message_repr", "lib/cli.py:Checker.tag"] ∧
    ∀ f ∈ Generated.TagState.fns, fnStateless f = true := by decide

/-! ## Priority letter and registry (tables regenerated from the live `lib.tags`) -/

def probedLetter (s c : Nat) : Option Char :=
  (Generated.TagRegistry.priorityTable.find? fun r => r.1 = s && r.2.1 = c).map (·.2.2)

/-- **priority_pin.**  The model's `priority` is what the live `Tag.get_priority` answers on all 6 × 3 pairs, and the
    enumerations are declared in the order the model assumes. -/
theorem priority_pin :
    Generated.TagRegistry.severityNames = ["pedantic", "wishlist", "minor", "normal", "important", "serious"] ∧
    Generated.TagRegistry.certaintyNames = ["wild-guess", "possible", "certain"] ∧
    Generated.TagRegistry.priorityTable.length = 18 ∧
    ∀ s : Severity, ∀ c : Certainty, probedLetter s.rank c.rank = some (priority s c).toChar := by
  refine ⟨by decide, by decide, by decide, ?_⟩
  intro s c
  cases s <;> cases c <;> decide

/-- **priority_monotone.**  The letter never decreases (P < I < W < E) when severity or certainty increases. -/
theorem priority_monotone (s s' : Severity) (c c' : Certainty) (hs : s.rank ≤ s'.rank) (hc : c.rank ≤ c'.rank) :
    (priority s c).rank ≤ (priority s' c').rank := by
  cases s <;> cases s' <;> cases c <;> cases c' <;> first | decide | (simp [Severity.rank, Certainty.rank] at hs hc)

def tableMonotone (table : List (Nat × Nat × Char)) : Bool :=
  table.all fun r => table.all fun r' =>
    !(decide (r.1 ≤ r'.1) && decide (r.2.1 ≤ r'.2.1)) ||
      (match letterRank r.2.2, letterRank r'.2.2 with
       | some a, some b => decide (a ≤ b)
       | _, _ => false)

/-- … the same on the probed table itself: for any two rows, severity and certainty not smaller ⇒ letter not smaller
    (P < I < W < E), and every probed letter is one of the four -/
theorem priority_table_monotone : tableMonotone Generated.TagRegistry.priorityTable = true := by decide +kernel

def entryOk (e : Nat × List Nat × Nat × Nat × Char) : Bool :=
  match entryTag e with
  | some t =>
    t.priority.toChar = e.2.2.2.2 && nameKey t.name = e.1 && !t.name.isEmpty &&
      t.name.all (fun c => (97 ≤ c && c ≤ 122) || (48 ≤ c && c ≤ 57) || c = 45)
  | none => false

/-- **registry_letter.**  Every tag of the registry (as loaded by the tool) has a valid severity and certainty, the
    letter the live object answers is the model's `priority`, and its name is a non-empty word over `[a-z0-9-]`
    (so it is clean, blank-free and newline-free). -/
theorem registry_letter : ∀ e ∈ Generated.TagRegistry.tags, entryOk e = true := by decide +kernel

def registryKeys : List Nat := Generated.TagRegistry.tags.map (·.1)

def tagSiteOk (s : String × String × String × Nat × Nat × String) : Bool :=
  (s.2.2.2.1 = 0 && registryKeys.contains s.2.2.2.2.1) || s.2.2.2.1 = 1

/-- **tag_sites_registered.**  Every `….tag(…)` call in lib/ names its tag by a string literal that is in the
    registry; the only other call is the pure forwarder `msgformat.Checker.tag`. -/
theorem tag_sites_registered : ∀ s ∈ Generated.TagSites.sites, tagSiteOk s = true := by decide +kernel

/-! ## `safe_format` and `message_repr` -/

/-- **safe_format_clean.**  `safe_format` of a clean template is clean, whatever the (non-`safestr`) arguments:
    every inserted piece went through the escaper. -/
theorem safe_format_clean {db : UnicodeDB} (h : Sound db) (template : Str) (args : List Extra)
    (kwargs : List (Str × Extra)) (out : Str) (hout : safeFormat db template args kwargs = .ok out)
    (ht : Clean db template)
    (hargs : ∀ x ∈ args, x.escaped = false → Clean db (escape db x))
    (hkw : ∀ kv ∈ kwargs, kv.2.escaped = false → Clean db (escape db kv.2)) : Clean db out := by
  have hx : ∀ x : Extra, (x.escaped = false → Clean db (escape db x)) → Clean db (escape db x) := by
    intro x hxs
    cases hxe : x.escaped with
    | true => exact escape_clean h x hxe
    | false => exact hxs hxe
  refine pyFormat_forall (fun c => hostile db c = false) _ _ _ out hout ht ?_ ?_
  · intro a ha
    obtain ⟨x, hxm, rfl⟩ := List.mem_map.mp ha
    exact hx x (hargs x hxm)
  · intro kv hkv
    obtain ⟨kv', hkvm, rfl⟩ := List.mem_map.mp hkv
    exact hx kv'.2 (hkw kv' hkvm)

/-- **message_repr_clean.**  The message identification is clean for every msgid and msgctxt, for any clean
    `template` parameter (all callers pass the literals `'{}'`, `'({})'`, `'{}:'`, see the site inventory). -/
theorem message_repr_clean {db : UnicodeDB} (h : Sound db) (msgid : Str) (msgctxt : Option Str) (template out : Str)
    (ht : Clean db template) (hout : messageRepr db msgid msgctxt template = .ok out) : Clean db out := by
  have hlit : ∀ s : Str, (∀ c ∈ s, 32 ≤ c ∧ c ≤ 126) → Clean db s :=
    fun s hs c hc => AP.not_hostile h (hs c hc)
  have h1 : Clean db (lit "msgid {id}") := hlit _ (by decide)
  have h2 : Clean db (lit "msgid {id}" ++ lit " msgctxt {ctxt}") := hlit _ (by decide)
  unfold messageRepr at hout
  cases msgctxt with
  | none =>
    simp only at hout
    split at hout
    · simp at hout
    · rename_i t' ht'
      have hc := pyFormat_forall (fun c => hostile db c = false) _ _ _ t' ht' ht
        (by intro a ha; simp at ha; subst ha; exact h1) (by simp)
      exact safe_format_clean h t' _ _ out hout hc (by simp) (by simp [Extra.escaped])
  | some ctxt =>
    simp only at hout
    split at hout
    · simp at hout
    · rename_i t' ht'
      have hc := pyFormat_forall (fun c => hostile db c = false) _ _ _ t' ht' ht
        (by intro a ha; simp at ha; subst ha; exact h2) (by simp)
      exact safe_format_clean h t' _ _ out hout hc (by simp) (by simp [Extra.escaped])

/-! ## The inventory of `safestr` / `safe_format` sites -/

theorem sites_checked : Generated.SafestrSites.sites.all (fun s => s.provenance.toolText) = true := by decide +kernel

/-- **safestr_sites_tool_text.**  Every place where lib/ marks text as exempt from escaping — every
    `tags.safestr(X)`, every `safe_format` template, every other mention of those names — wraps tool-generated text
    (literal, int, tool table, regex-guarded, library message, Unicode name, format of escaped pieces); none wraps
    text of the checked file.  Proof over the table the translator extracts from /repo on every run; the
    classifier's rules are trusted (tools/translate/tagsites2lean.py).
    (On the pinned tree this was false: `tags.safestr(key)` in lib/check/msgformat/python.py wrapped the mapping
    key of a python-format directive; repaired by `fix:` commit d06c053 in /repo.) -/
theorem safestr_sites_tool_text :
    ∀ s ∈ Generated.SafestrSites.sites, s.provenance ≠ .fileDerived ∧ s.provenance ≠ .unknown := by
  intro s hs
  have h := List.all_eq_true.mp sites_checked s hs
  cases hp : s.provenance <;> simp [hp, Provenance.toolText] at h ⊢

/-! ## Non-vacuity -/

private def demoDb : UnicodeDB := liveDb
private def demoTag : Tag := ⟨lit "invalid-date", .normal, .certain⟩

-- newline, ESC[31m, C1 CSI, RLO, ZWSP, DEL all leave the escaper as ASCII escapes
example : escape liveDb (.str [97, 10, 27, 91, 51, 49, 109, 0x9B, 0x202E, 0x200B, 127]) =
    lit "'a\\n\\x1b[31m\\x9b\\u202e\\u200b\\x7f'" := by decide +kernel
example : escape liveDb (.str (lit "it's")) = lit "\"it's\"" := by decide +kernel
example : escape liveDb (.str []) = lit "(empty string)" := by decide +kernel
example : escape liveDb (.str (lit "foo-bar_1.0")) = lit "foo-bar_1.0" := by decide +kernel
example : escape liveDb (.str (lit "a b")) = lit "'a b'" := by decide +kernel
example : escape liveDb (.bytes [0x62, 0x27, 0xFF, 0x0A]) = lit "\"b'\\xff\\n\"" := by decide +kernel
example : escape liveDb (.str [0x1F600, 0xE9]) = [39, 0x1F600, 0xE9, 39] := by decide +kernel   -- printable: kept
example : escape liveDb (.str [0xD800]) = lit "'\\ud800'" := by decide +kernel
example : escape liveDb (.int (-42)) = lit "-42" := by decide +kernel
example : format liveDb demoTag (lit "x.po") [.safe (lit "PO-Revision-Date:"), .str (lit "20 12")] none =
    lit "W: x.po: invalid-date PO-Revision-Date: '20 12'" := by decide +kernel
example : format liveDb demoTag (lit "x.po") [] (some (lit "<", lit ">")) = lit "W: x.po: <invalid-date>" := by
  decide +kernel
example : (messageRepr liveDb (lit "a b") (some (lit "c")) (lit "{}:")).toOption = some (lit "msgid 'a b' msgctxt c:") := by
  decide +kernel
example : (pyFormat (lit "f({}): {x}") [lit "1"] [(lit "x", lit "y")]).toOption = some (lit "f(1): y") := by decide +kernel
example : (pyFormat (lit "f({}): {x} }") [lit "1"] [(lit "x", lit "y")]).toOption = none := by decide +kernel
-- what the inventory theorem is about: a safestr extra is printed raw
example : format liveDb demoTag (lit "x.po") [.safe [27, 91, 51, 49, 109]] none =
    lit "W: x.po: invalid-date " ++ [27, 91, 51, 49, 109] := by decide +kernel

-- history independence is not vacuous: the same characters as `safestr` (tool text) and as `str` / `bytes` (file text) are
-- different extras with different tokens …
example : escape liveDb (.safe (lit "msgid foo:")) ≠ escape liveDb (.str (lit "msgid foo:")) := by decide +kernel
example : escape liveDb (.safe (lit "msgid foo:")) = lit "msgid foo:" ∧
    escape liveDb (.str (lit "msgid foo:")) = lit "'msgid foo:'" ∧
    escape liveDb (.bytes ((lit "msgid foo:").map UInt8.ofNat)) = lit "'msgid foo:'" := by decide +kernel

private def seqCfg : Config :=
  { registry := [⟨lit "unknown-message-flag", .wishlist, .wildGuess⟩], ignore := [], path := lit "pl.po",
    colours := fun _ => ([], []) }

-- … and the run of seeded change C02-c: the tool names message `foo` (safestr), then a flag of message `bar` reads
-- `msgid foo:` — it is printed quoted although the same characters were printed raw one call earlier
example : (runTags liveDb seqCfg
    [(lit "unknown-message-flag", [.safe (lit "msgid foo:"), .str (lit "fancy-flag")]),
     (lit "unknown-message-flag", [.safe (lit "msgid bar:"), .str (lit "msgid foo:")])]).toOption =
    some (lit "I: pl.po: unknown-message-flag msgid foo: fancy-flag\nI: pl.po: unknown-message-flag msgid bar: 'msgid foo:'\n") := by
  decide +kernel

end I18n.Props.C02
