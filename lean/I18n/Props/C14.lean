import I18n.Lemmas.FmtCheckPy
import I18n.Lemmas.FmtCheckPreimage
import I18n.Generated.TagSites
import I18n.Lemmas.FmtCheckProbes
import I18n.Lemmas.FmtCheckNumbered
import I18n.Lemmas.FmtCheckBrace
import I18n.Lemmas.FmtCheckBraceRender
/-!
# C14 — translations are flagged iff their format arguments disagree

Model: `I18n.FmtCheck` (`checkMessage`, the four `check_args`, `getLastIntConv`, the dispatch), statement by statement
from `lib/check/msgformat/*.py`, `lib/strformat/c.py`, `lib/check/__init__.py`; tied to the code on every run by the
`fmtcheck-*` correspondence streams (unit level on synthetic `ctx`, end to end through PO files).
Reference: `Spec.FmtCompare` (ways two signatures differ) over the signatures of `Spec.Printf` (C, proved equal to what the
parser reports in C11), of the Python-% parser model (C12) and — for the two brace kinds — over the parsed signature
handed over by the harness (their parsers are property C13).

Reading of the statement made explicit here:
* for `msgstr[i]` the *corresponding* source string is `msgid_plural`, except for the form selected exactly for `n = 1`
  (inside the examined window and the range flag), whose source is `msgid` — what the tags themselves print
  (`… (msgstr[0]) > 0 (msgid)`) and what data/tags documents ("corresponding msgid or msgid_plural");
* "selected for a single n" includes "for no n at all" (a form never used inside the range flag);
* the window `[0, 200)` of `check_plurals` is part of the statement (`omission_window`).
-/
namespace I18n.Props.C14
open I18n I18n.FmtCheck I18n.FmtSig I18n.Spec.FmtCompare I18n.Spec.Printf

set_option maxRecDepth 100000

/-! ## Pin: the tag calls of `lib/check/msgformat/*.py` are the ones modelled -/

/-- (file, function, tag name, shape of the extras: `e` escaped, `s` safestr, `*` starred) -/
def expectedSites : List (String × String × String × String) := [
  ("lib/check/msgformat/__init__.py", "Checker.tag", "tagname", "*"),
  ("lib/check/msgformat/c.py", "Checker.check_msgids", "qt-plural-format-mistaken-for-c-format", "s"),
  ("lib/check/msgformat/c.py", "Checker.check_string", "c-format-string-error", "ess"),
  ("lib/check/msgformat/c.py", "Checker.check_string", "c-format-string-error", "esss"),
  ("lib/check/msgformat/c.py", "Checker.check_string", "c-format-string-error", "esese"),
  ("lib/check/msgformat/c.py", "Checker.check_string", "c-format-string-error", "es*"),
  ("lib/check/msgformat/c.py", "Checker.check_string", "c-format-string-redundant-flag", "e*"),
  ("lib/check/msgformat/c.py", "Checker.check_string", "c-format-string-non-portable-conversion", "e*"),
  ("lib/check/msgformat/c.py", "Checker.check_args", "c-format-string-excess-arguments", "eesees"),
  ("lib/check/msgformat/c.py", "Checker.check_args", "c-format-string-missing-arguments", "eesees"),
  ("lib/check/msgformat/c.py", "Checker.check_args", "c-format-string-argument-type-mismatch", "essess"),
  ("lib/check/msgformat/perlbrace.py", "Checker.check_string", "perl-brace-format-string-error", "es*"),
  ("lib/check/msgformat/perlbrace.py", "Checker.check_args", "perl-brace-format-string-unknown-argument", "eessss"),
  ("lib/check/msgformat/perlbrace.py", "Checker.check_args", "perl-brace-format-string-missing-argument", "eessss"),
  ("lib/check/msgformat/pybrace.py", "Checker.check_string", "python-brace-format-string-error", "es*"),
  ("lib/check/msgformat/pybrace.py", "Checker.check_args", "python-brace-format-string-argument-type-mismatch", "essess"),
  ("lib/check/msgformat/pybrace.py", "Checker.check_args", "python-brace-format-string-unknown-argument", "eessss"),
  ("lib/check/msgformat/pybrace.py", "Checker.check_args", "python-brace-format-string-missing-argument", "eessss"),
  ("lib/check/msgformat/python.py", "Checker.check_string", "python-format-string-error", "eses"),
  ("lib/check/msgformat/python.py", "Checker.check_string", "python-format-string-error", "es*"),
  ("lib/check/msgformat/python.py", "Checker.check_string", "python-format-string-redundant-flag", "e*"),
  ("lib/check/msgformat/python.py", "Checker.check_string", "python-format-string-redundant-precision", "eeee"),
  ("lib/check/msgformat/python.py", "Checker.check_string", "python-format-string-redundant-length", "eeee"),
  ("lib/check/msgformat/python.py", "Checker.check_string", "python-format-string-obsolete-conversion", "e*"),
  ("lib/check/msgformat/python.py", "Checker.check_string", "python-format-string-multiple-unnamed-arguments", "s"),
  ("lib/check/msgformat/python.py", "Checker.check_string", "python-format-string-unnamed-plural-argument", "s"),
  ("lib/check/msgformat/python.py", "Checker.check_args", "python-format-string-argument-number-mismatch", "eesees"),
  ("lib/check/msgformat/python.py", "Checker.check_args", "python-format-string-argument-type-mismatch", "essess"),
  ("lib/check/msgformat/python.py", "Checker.check_args", "python-format-string-argument-type-mismatch", "essess"),
  ("lib/check/msgformat/python.py", "Checker.check_args", "python-format-string-unknown-argument", "eessss"),
  ("lib/check/msgformat/python.py", "Checker.check_args", "python-format-string-missing-argument", "eessss")]

def isMsgformatSite (s : String × String × String × Nat × Nat × String) : Bool :=
  (s.1.toList.take 20) == "lib/check/msgformat/".toList

/-- **The `self.tag(...)` calls of the four checkers** — file, function, tag name, and for every extra whether it is a
    safestr or goes through the escaper — regenerated from /repo on every run, are the ones the model emits
    (`tagExcessOrMissing`: `e e s e e s`, `tagTypeMismatch`: `e s s e s s`, `tagUnknown`/`tagMissing`: `e e s s s s`). -/
theorem tag_sites_pin :
    (Generated.TagSites.sites.filter isMsgformatSite).map (fun s => (s.1, s.2.1, s.2.2.1, s.2.2.2.2.2)) = expectedSites := by
  decide +kernel

/-- **The model re-computes every probe of the live code, inside the kernel.**  `tools/translate/fmtcheck2lean.py` runs, on
    every check, `get_last_integer_conversion(n)` (all `n`, 22 strings) and the four `check_args` (both tolerance settings,
    82 pairs — the brace kinds on the signatures parsed by the real parsers) and dumps what it observes; here the Lean
    model is evaluated on the same rows and agrees on all of them: returned conversion / `None` / `IndexError`; tag names in
    order with their integer extras.  Also: the set of format kinds that have a checker. -/
theorem probes_pin :
    Generated.FmtCheckTables.checkerNames.map String.toList = checkerNames ∧
    Generated.FmtCheckTables.lastIntProbes.all (fun p => lastIntProbe p.1 p.2.1 == p.2.2) = true ∧
    Generated.FmtCheckTables.cArgsProbes.all (fun p => cArgsProbe p.1 p.2.1 p.2.2.1 == some p.2.2.2) = true ∧
    Generated.FmtCheckTables.pyArgsProbes.all (fun p => pyArgsProbe p.1 p.2.1 p.2.2.1 == some p.2.2.2) = true ∧
    Generated.FmtCheckTables.braceArgsProbes.all (fun p =>
      summarize (checkArgsPyBrace probePfx "msgid".toList p.1 "msgstr".toList p.2.1 p.2.2.1) == some p.2.2.2) = true ∧
    Generated.FmtCheckTables.perlArgsProbes.all (fun p =>
      summarize (checkArgsPerlBrace probePfx "msgid".toList p.1 "msgstr".toList p.2.1 p.2.2.1) == some p.2.2.2) = true :=
  ⟨checkerNames_pin, lastInt_probes_pin, cArgs_probes_pin, pyArgs_probes_pin, braceArgs_probes_pin, perlArgs_probes_pin⟩

/-- **The composition with C13's parser models, re-computed in the kernel on the probed strings**: running the python-brace /
    perl-brace parser MODEL on the strings of the probe table and converting (`braceSigOf`, `perlSigOf`) gives exactly the
    signatures the translator extracted from the REAL parser objects — keys, dict order, type sets of every use, `len`. -/
theorem string_probes_pin :
    (((Generated.FmtCheckTables.braceArgsStrings.zip (evens Generated.FmtCheckTables.braceArgsProbes)).all fun p =>
      sigArgsOf (pyBraceParse p.1.1.toList) == some (p.2.1.args, p.2.1.nitems) &&
      sigArgsOf (pyBraceParse p.1.2.toList) == some (p.2.2.1.args, p.2.2.1.nitems)) = true ∧
     Generated.FmtCheckTables.braceArgsStrings.length * 2 = Generated.FmtCheckTables.braceArgsProbes.length) ∧
    (((Generated.FmtCheckTables.perlArgsStrings.zip (evens Generated.FmtCheckTables.perlArgsProbes)).all fun p =>
      perlArgsOf (perlBraceParse p.1.1.toList) == some (sortBy strLt p.2.1.args, p.2.1.nitems) &&
      perlArgsOf (perlBraceParse p.1.2.toList) == some (sortBy strLt p.2.2.1.args, p.2.2.1.nitems)) = true ∧
     Generated.FmtCheckTables.perlArgsStrings.length * 2 = Generated.FmtCheckTables.perlArgsProbes.length) :=
  ⟨braceStrings_probes_pin, perlStrings_probes_pin⟩

/-! ## C -/

/-- **C, `args_tags_iff`.**  For valid printf strings `src`, `dst` (given by their items), `check_args` on what the parser
    reports emits: the excess diagnostic iff `dst` consumes more arguments; the missing diagnostic iff it consumes fewer and
    the omission is not tolerated; a type diagnostic `(b, a)` iff some argument consumed by both has type `a` in `src` and
    `b ≠ a` in `dst` — one per such position; and nothing else. -/
theorem c_args_tags_iff (pfx : Extra) (srcLoc dstLoc : List Char) (omittedOk : Bool) {src dst : List Item}
    (hs : Valid src) (hd : Valid dst) :
    ∃ fs fd tags, cParse (render src) = .ok fs ∧ cParse (render dst) = .ok fd ∧
      checkArgsC pfx srcLoc fs dstLoc fd omittedOk = .ok tags ∧
      (cExcessTag pfx srcLoc fs dstLoc fd ∈ tags ↔ Excess (typesOf (signature src)) (typesOf (signature dst))) ∧
      (cMissingTag pfx srcLoc fs dstLoc fd ∈ tags ↔ Fewer (typesOf (signature src)) (typesOf (signature dst)) ∧
        cTolerated fs ((signature src).length - (signature dst).length) omittedOk = false) ∧
      (∀ a b, cTypeTag pfx srcLoc dstLoc (a, b) ∈ tags ↔ ∃ i, TypeDiffAt (typesOf (signature src)) (typesOf (signature dst)) i a b) ∧
      (∀ t ∈ tags, t = cExcessTag pfx srcLoc fs dstLoc fd ∨ t = cMissingTag pfx srcLoc fs dstLoc fd ∨
        ∃ a b, t = cTypeTag pfx srcLoc dstLoc (a, b)) ∧
      (tags.filter (fun t => t.name == "c-format-string-argument-type-mismatch")).length =
        (typeDiffs (typesOf (signature src)) (typesOf (signature dst))).length := by
  obtain ⟨fs, hfs, has, hss, _⟩ := cParse_valid hs
  obtain ⟨fd, hfd, had, hsd, _⟩ := cParse_valid hd
  refine ⟨fs, fd, _, hfs, hfd, checkArgsC_eq pfx srcLoc fs dstLoc fd omittedOk hss hsd, ?_⟩
  rw [has, had]
  have hne1 : ∀ p, cTypeTag pfx srcLoc dstLoc p ≠ cExcessTag pfx srcLoc fs dstLoc fd := by
    intro p h; have := congrArg TagCall.name h
    simp [cTypeTag, tagTypeMismatch, cExcessTag, tagExcessOrMissing] at this
  have hne2 : ∀ p, cTypeTag pfx srcLoc dstLoc p ≠ cMissingTag pfx srcLoc fs dstLoc fd := by
    intro p h; have := congrArg TagCall.name h
    simp [cTypeTag, tagTypeMismatch, cMissingTag, tagExcessOrMissing] at this
  have hne3 : cExcessTag pfx srcLoc fs dstLoc fd ≠ cMissingTag pfx srcLoc fs dstLoc fd := by
    intro h; have := congrArg TagCall.name h
    simp [cExcessTag, cMissingTag, tagExcessOrMissing] at this
  have hlen : (typesOf (signature src)).length = fs.arguments.length ∧ (typesOf (signature dst)).length = fd.arguments.length := by
    rw [has, had, typesOf_length, typesOf_length]; exact ⟨rfl, rfl⟩
  have hls : (signature src).length = fs.arguments.length := by rw [has]
  have hld : (signature dst).length = fd.arguments.length := by rw [had]
  have hinj : ∀ p q, cTypeTag pfx srcLoc dstLoc p = cTypeTag pfx srcLoc dstLoc q → p = q := by
    intro p q h
    simp only [cTypeTag, tagTypeMismatch, TagCall.mk.injEq, List.cons.injEq, Extra.safe.injEq, String.toList_inj, true_and, and_true] at h
    exact Prod.ext h.2 h.1
  refine ⟨?_, ?_, ?_, ?_, ?_⟩
  · -- excess
    rw [List.mem_append]
    unfold Excess
    rw [hlen.1, hlen.2]
    constructor
    · rintro (h | h)
      · unfold cCountTags at h
        split at h
        · assumption
        · split at h
          · split at h
            · cases h
            · simp only [List.mem_singleton] at h; exact absurd h hne3
          · cases h
      · obtain ⟨p, _, hp⟩ := List.mem_map.1 h
        exact absurd hp (hne1 p)
    · intro h
      left
      unfold cCountTags
      simp [h]
  · -- missing
    rw [List.mem_append]
    unfold Fewer
    rw [hlen.1, hlen.2, hls, hld]
    constructor
    · rintro (h | h)
      · unfold cCountTags at h
        split at h
        · simp only [List.mem_singleton] at h; exact absurd h.symm hne3
        · split at h
          · rename_i hlt
            split at h
            · cases h
            · rename_i htol
              exact ⟨hlt, by simpa using htol⟩
          · cases h
      · obtain ⟨p, _, hp⟩ := List.mem_map.1 h
        exact absurd hp (hne2 p)
    · rintro ⟨hlt, htol⟩
      left
      unfold cCountTags
      have : ¬ fd.arguments.length > fs.arguments.length := by omega
      simp [this, hlt, htol]
  · -- type
    intro a b
    rw [List.mem_append, ← mem_typeDiffs]
    constructor
    · rintro (h | h)
      · unfold cCountTags at h
        split at h
        · simp only [List.mem_singleton] at h; exact absurd h (hne1 _)
        · split at h
          · split at h
            · cases h
            · simp only [List.mem_singleton] at h; exact absurd h (hne2 _)
          · cases h
      · obtain ⟨p, hp, hpe⟩ := List.mem_map.1 h
        rw [← hinj _ _ hpe]; exact hp
    · intro h
      exact Or.inr (List.mem_map.2 ⟨(a, b), h, rfl⟩)
  · -- nothing else
    intro t ht
    rcases List.mem_append.1 ht with h | h
    · unfold cCountTags at h
      split at h
      · simp only [List.mem_singleton] at h; exact Or.inl h
      · split at h
        · split at h
          · cases h
          · simp only [List.mem_singleton] at h; exact Or.inr (Or.inl h)
        · cases h
    · obtain ⟨p, _, hp⟩ := List.mem_map.1 h
      exact Or.inr (Or.inr ⟨p.1, p.2, hp.symm⟩)
  · -- one type diagnostic per differing position
    rw [List.filter_append]
    have h1 : (cCountTags pfx srcLoc fs dstLoc fd omittedOk).filter
        (fun t => t.name == "c-format-string-argument-type-mismatch") = [] := by
      unfold cCountTags
      split
      · rfl
      · split
        · split <;> rfl
        · rfl
    have h2 : ∀ l : List (String × String), (l.map (cTypeTag pfx srcLoc dstLoc)).filter
        (fun t => t.name == "c-format-string-argument-type-mismatch") = l.map (cTypeTag pfx srcLoc dstLoc) := by
      intro l
      apply List.filter_eq_self.2
      intro t ht
      obtain ⟨p, _, rfl⟩ := List.mem_map.1 ht
      rfl
    rw [h1, h2]
    simp

/-- **C, `same_signature_silent`**: strings that consume the same argument types in the same positions are never flagged,
    whatever the tolerance. -/
theorem c_same_signature_silent (pfx : Extra) (srcLoc dstLoc : List Char) (omittedOk : Bool) {src dst : List Item}
    (hs : Valid src) (hd : Valid dst) (h : typesOf (signature src) = typesOf (signature dst)) :
    ∃ fs fd, cParse (render src) = .ok fs ∧ cParse (render dst) = .ok fd ∧
      checkArgsC pfx srcLoc fs dstLoc fd omittedOk = .ok [] := by
  obtain ⟨fs, hfs, has, hss, _⟩ := cParse_valid hs
  obtain ⟨fd, hfd, had, hsd, _⟩ := cParse_valid hd
  refine ⟨fs, fd, hfs, hfd, ?_⟩
  rw [checkArgsC_eq pfx srcLoc fs dstLoc fd omittedOk hss hsd, has, had, h, typeDiffs_self]
  have hl : fs.arguments.length = fd.arguments.length := by
    have := congrArg List.length h
    rw [typesOf_length, typesOf_length] at this
    rw [has, had]; exact this
  unfold cCountTags
  simp [hl]

/-- **C, `reorder_silent`**: if the translation refers — by explicit argument numbers `n$` or by position — to the same
    arguments at the same types as the source (in any order, any number of times, from whatever directives), nothing is
    flagged.  `positions (refs items)` lists (argument number, use) for every reference of the string. -/
theorem c_reorder_silent (pfx : Extra) (srcLoc dstLoc : List Char) (omittedOk : Bool) {src dst : List Item}
    (hs : Valid src) (hd : Valid dst)
    (h : ∀ j t, PosType (positions (refs src)) j t ↔ PosType (positions (refs dst)) j t) :
    ∃ fs fd, cParse (render src) = .ok fs ∧ cParse (render dst) = .ok fd ∧
      checkArgsC pfx srcLoc fs dstLoc fd omittedOk = .ok [] :=
  c_same_signature_silent pfx srcLoc dstLoc omittedOk hs hd
    (typesOf_signatureOf_congr hs.global.gapFree hs.global.oneType hd.global.gapFree hd.global.oneType h)

/-- **C, `reorder_silent`, constructive form.**  Take a valid C format string `src` without argument numbers, give every
    reference (each `*` width, `*` precision and conversion, in the order printf fetches them) its explicit number `1$, 2$, …`
    (`numberDirs`), and let `dst` be ANY valid string whose directives are those numbered directives in some order, with whatever
    literal text in between: nothing is flagged. -/
theorem c_reorder_silent_numbered (pfx : Extra) (srcLoc dstLoc : List Char) (omittedOk : Bool) {src dst : List Item}
    (hs : Valid src) (hd : Valid dst) (hun : ∀ r ∈ refs src, r.idx = none)
    (hperm : (dirs dst).Perm (numberDirs 1 (dirs src))) :
    ∃ fs fd, cParse (render src) = .ok fs ∧ cParse (render dst) = .ok fd ∧
      checkArgsC pfx srcLoc fs dstLoc fd omittedOk = .ok [] :=
  c_reorder_silent pfx srcLoc dstLoc omittedOk hs hd (posType_numbered_perm hun hperm)

/-- **`last_int_conv_spec`.**  On an accepted C format string, `get_last_integer_conversion(n)` returns the conversion
    at item `c` iff `1 ≤ n ≤ #arguments`, every use of the last `n` arguments belongs to that one conversion (itself, its
    `*` width, its `*` precision), the conversion's own value is among them, and it is an integer conversion in the sense
    of `Spec.Printf` (`d i o u x X` or an `<inttypes.h>` macro); it never raises for such `n`. -/
theorem last_int_conv_spec {items : List Item} (hv : Valid items) :
    ∃ f, cParse (render items) = .ok f ∧ f.arguments = signature items ∧
      (∀ n c, getLastIntConv f n = .ok (some c) ↔
        1 ≤ n ∧ n ≤ (signature items).length ∧ (∀ e ∈ lastUses f n, e.parent = c) ∧
        (∃ e ∈ lastUses f n, e.kind = .conv) ∧ itemInteger items c = true) ∧
      (∀ n, 1 ≤ n → n ≤ (signature items).length → ∃ r, getLastIntConv f n = .ok r) := by
  obtain ⟨f, hf, ha, _, hint⟩ := cParse_valid hv
  refine ⟨f, hf, ha, ?_, ?_⟩
  · intro n c
    rw [getLastIntConv_some_iff, hint c, ha]
    constructor
    · rintro ⟨h1, h2, _, h4, h5, h6⟩; exact ⟨h1, h2, h4, h5, h6⟩
    · rintro ⟨h1, h2, h4, ⟨e, he, hk⟩, h6⟩
      exact ⟨h1, h2, (fun hnil => by rw [hnil] at he; cases he), h4, ⟨e, he, hk⟩, h6⟩
  · intro n h1 h2
    exact getLastIntConv_ok f n h1 (by rw [ha]; exact h2)

/-- **C: when an omission is tolerated.**  Only if the caller allows it and the arguments dropped are exactly the last
    ones, all consumed by one integer conversion. -/
theorem c_tolerated_iff (f : CFmtX) (k : Nat) (omittedOk : Bool) :
    cTolerated f k omittedOk = true ↔ omittedOk = true ∧ ∃ c, getLastIntConv f k = .ok (some c) := by
  unfold cTolerated
  cases omittedOk with
  | false => simp
  | true =>
    cases h : getLastIntConv f k with
    | error e => simp
    | ok r => cases r <;> simp

/-- **C, `check_args_nocrash`**: on any two accepted strings `check_args` returns. -/
theorem c_check_args_nocrash (pfx : Extra) (srcLoc dstLoc : List Char) (omittedOk : Bool) {s s' : List Char} {f f' : CFmtX}
    (h : cParse s = .ok f) (h' : cParse s' = .ok f') : ∃ t, checkArgsC pfx srcLoc f dstLoc f' omittedOk = .ok t := by
  obtain ⟨_, _, _, _, hs⟩ := cParse_sound h
  obtain ⟨_, _, _, _, hs'⟩ := cParse_sound h'
  exact ⟨_, checkArgsC_eq pfx srcLoc f dstLoc f' omittedOk hs hs'⟩

/-! ## Python `%` -/

/-- **Python-%, `args_tags_iff`.**  On two accepted strings `check_args` emits exactly: the number diagnostic iff the
    numbers of unnamed arguments differ; a type diagnostic for every unnamed position and every common key whose types
    differ; the unknown-argument diagnostic for every key of the translation that the source lacks; the missing-argument
    diagnostic for every key of the source that the translation lacks, unless the omission is tolerated. -/
theorem python_args_tags_iff (pfx : Extra) (srcLoc dstLoc : List Char) (omittedOk : Bool) {s s' : List Char} {src dst : PyFmt.Result}
    (h : pyParse s = .ok src) (h' : pyParse s' = .ok dst) :
    ∃ tags, checkArgsPython pfx srcLoc src dstLoc dst omittedOk = .ok tags ∧
      ∀ t, t ∈ tags ↔
        (NumberDiffers (pySeq src) (pySeq dst) ∧ t = pyNumberTag pfx srcLoc src dstLoc dst) ∨
        (∃ i a b, TypeDiffAt (pySeq src) (pySeq dst) i a b ∧ t = pyTypeTag pfx srcLoc dstLoc (a, b)) ∨
        (∃ k a b, TypeDiffKey (· = ·) (pyNamed src) (pyNamed dst) k a b ∧ t = pyTypeTag pfx srcLoc dstLoc (a, b)) ∨
        (∃ k, Unknown (pyNamed src) (pyNamed dst) k ∧ t = pyUnknownTag pfx srcLoc dstLoc k) ∨
        (∃ k, Missing (pyNamed src) (pyNamed dst) k ∧ pyTolerated src dst omittedOk = false ∧
          t = pyMissingTag pfx srcLoc dstLoc k) :=
  checkArgsPython_tags pfx srcLoc src dstLoc dst omittedOk (pyParse_wf h) (pyParse_wf h')

/-- **Python-%, when an omission is tolerated**: only if the caller allows it, exactly one key is missing, and every use of
    that key in the source is an integer conversion. -/
theorem python_tolerated_iff {s : List Char} {src : PyFmt.Result} (h : pyParse s = .ok src) (dst : PyFmt.Result) (omittedOk : Bool) :
    pyTolerated src dst omittedOk = true ↔
      omittedOk = true ∧ ∃ k uses, OnlyMissing (pyNamed src) (pyNamed dst) k ∧ valueAt src.map k = some uses ∧
        ∀ u ∈ uses, u.type = "int" :=
  pyTolerated_iff src dst (pyParse_wf h) omittedOk

/-- **Python-%, `same_signature_silent` / `reorder_silent`**: the same unnamed argument types in order, and the same keys
    with the same types — in whatever order the named specifications come, however often a key is used — are never
    flagged. -/
theorem python_same_signature_silent (pfx : Extra) (srcLoc dstLoc : List Char) (omittedOk : Bool) {s s' : List Char}
    {src dst : PyFmt.Result} (h : pyParse s = .ok src) (h' : pyParse s' = .ok dst)
    (hseq : pySeq src = pySeq dst) (hmap : SameNamed (· = ·) (pyNamed src) (pyNamed dst)) :
    checkArgsPython pfx srcLoc src dstLoc dst omittedOk = .ok [] := by
  obtain ⟨tags, ht, hiff⟩ := python_args_tags_iff pfx srcLoc dstLoc omittedOk h h'
  rw [ht]
  congr 1
  apply List.eq_nil_iff_forall_not_mem.2
  intro t hmem
  rcases (hiff t).1 hmem with ⟨hn, _⟩ | ⟨i, a, b, hd, _⟩ | ⟨k, a, b, hd, _⟩ | ⟨k, hk, _⟩ | ⟨k, hk, _⟩
  · exact hn (by rw [hseq])
  · rw [hseq] at hd
    obtain ⟨h1, h2, h3⟩ := hd
    rw [h1] at h2; exact h3 (Option.some.inj h2)
  · exact hd.2.2 (hmap.2 k a b hd.1 hd.2.1)
  · exact hk.2 ((hmap.1 k).2 hk.1)
  · exact hk.2 ((hmap.1 k).1 hk.1)

/-- **Python-%, `reorder_silent`**: two accepted strings without unnamed arguments whose named specifications `%(key)…`
    carry the same (key, type) pairs — read in any order, any number of times — are never flagged.  `st.map` is the
    `(key, conversion)` record list of the scanner (`_map_arguments` in insertion order). -/
theorem python_reorder_silent (pfx : Extra) (srcLoc dstLoc : List Char) (omittedOk : Bool) {s s' : List Char}
    {src dst : PyFmt.Result} (h : PyFmt.parse s = .ok src) (h' : PyFmt.parse s' = .ok dst)
    (hseq : src.seq = [] ∧ dst.seq = []) {st st' : PyFmt.St}
    (hl : PyFmt.loop true (s.length + 1) s [] PyFmt.St.init = .ok st)
    (hl' : PyFmt.loop true (s'.length + 1) s' [] PyFmt.St.init = .ok st')
    (hsame : ∀ k t, (∃ e, (k, e) ∈ st.map ∧ e.type = t) ↔ (∃ e, (k, e) ∈ st'.map ∧ e.type = t)) :
    checkArgsPython pfx srcLoc src dstLoc dst omittedOk = .ok [] := by
  have hp : pyParse s = .ok src := by unfold pyParse; rw [h]
  have hp' : pyParse s' = .ok dst := by unfold pyParse; rw [h']
  exact python_same_signature_silent pfx srcLoc dstLoc omittedOk hp hp' (by simp [pySeq, hseq.1, hseq.2])
    (sameNamed_of_logs h h' hl hl' hsame)

/-- **Python-%, `check_args_nocrash`** -/
theorem python_check_args_nocrash (pfx : Extra) (srcLoc dstLoc : List Char) (omittedOk : Bool) {s s' : List Char}
    {src dst : PyFmt.Result} (h : pyParse s = .ok src) (h' : pyParse s' = .ok dst) :
    ∃ t, checkArgsPython pfx srcLoc src dstLoc dst omittedOk = .ok t :=
  ⟨_, checkArgsPython_eq pfx srcLoc src dstLoc dst omittedOk (pyParse_wf h) (pyParse_wf h')⟩

/-! ## python-brace (over the parsed signatures) -/

/-- **python-brace, `args_tags_iff`.**  A type diagnostic for every common argument whose type sets are disjoint; the
    unknown-argument diagnostic for every argument (number or name) of the translation that the source lacks; the
    missing-argument diagnostic for every argument of the source that the translation lacks, unless tolerated; nothing else;
    and no exception (`check_args_nocrash`; before fix 56d8ddf `sorted(missing_keys)` raised `TypeError` when a numbered
    and a named argument were both missing). -/
theorem pybrace_args_tags_iff (pfx : Extra) (srcLoc dstLoc : List Char) (omittedOk : Bool) (src dst : PyBraceSig)
    (hs : BraceWf src) (hd : BraceWf dst) :
    ∃ tags, checkArgsPyBrace pfx srcLoc src dstLoc dst omittedOk = .ok tags ∧
      ∀ t, t ∈ tags ↔
        (∃ k a b, TypeDiffKey Compatible (braceNamed src) (braceNamed dst) k a b ∧ t = braceTypeTag pfx srcLoc dstLoc a b) ∨
        (∃ k, Unknown (braceNamed src) (braceNamed dst) k ∧ t = braceUnknownTag pfx srcLoc dstLoc k) ∨
        (∃ k, Missing (braceNamed src) (braceNamed dst) k ∧ braceTolerated src dst omittedOk = false ∧
          t = braceMissingTag pfx srcLoc dstLoc k) :=
  checkArgsPyBrace_tags pfx srcLoc src dstLoc dst omittedOk hs hd

/-- **python-brace, when an omission is tolerated**: only if the caller allows it, exactly one argument is missing, and
    `int` is among the types of every use of it. -/
theorem pybrace_tolerated_iff (src dst : PyBraceSig) (hs : BraceWf src) (omittedOk : Bool) :
    braceTolerated src dst omittedOk = true ↔
      omittedOk = true ∧ ∃ k uses, OnlyMissing (braceNamed src) (braceNamed dst) k ∧ valueAt src.args k = some uses ∧
        ∀ u ∈ uses, u.int = true :=
  braceTolerated_iff src dst hs omittedOk

/-- **python-brace, `same_signature_silent` / `reorder_silent`**: the same arguments (numbers and names) with compatible
    type sets — in any order of the fields — are never flagged. -/
theorem pybrace_same_signature_silent (pfx : Extra) (srcLoc dstLoc : List Char) (omittedOk : Bool) (src dst : PyBraceSig)
    (hs : BraceWf src) (hd : BraceWf dst) (h : SameNamed Compatible (braceNamed src) (braceNamed dst)) :
    checkArgsPyBrace pfx srcLoc src dstLoc dst omittedOk = .ok [] := by
  obtain ⟨tags, ht, hiff⟩ := pybrace_args_tags_iff pfx srcLoc dstLoc omittedOk src dst hs hd
  rw [ht]
  congr 1
  apply List.eq_nil_iff_forall_not_mem.2
  intro t hmem
  rcases (hiff t).1 hmem with ⟨k, a, b, hdk, _⟩ | ⟨k, hk, _⟩ | ⟨k, hk, _⟩
  · exact hdk.2.2 (h.2 k a b hdk.1 hdk.2.1)
  · exact hk.2 ((h.1 k).2 hk.1)
  · exact hk.2 ((h.1 k).1 hk.1)

/-! ## perl-brace (over the parsed signatures) -/

/-- **perl-brace, `args_tags_iff`** (and `check_args_nocrash`: it always returns). -/
theorem perlbrace_args_tags_iff (pfx : Extra) (srcLoc dstLoc : List Char) (omittedOk : Bool) (src dst : PerlBraceSig) :
    ∃ tags, checkArgsPerlBrace pfx srcLoc src dstLoc dst omittedOk = .ok tags ∧
      ∀ t, t ∈ tags ↔
        (∃ k, Unknown (perlNamed src) (perlNamed dst) k ∧ t = perlUnknownTag pfx srcLoc dstLoc k) ∨
        (∃ k, Missing (perlNamed src) (perlNamed dst) k ∧ perlTolerated src dst omittedOk = false ∧
          t = perlMissingTag pfx srcLoc dstLoc k) :=
  checkArgsPerlBrace_tags pfx srcLoc src dstLoc dst omittedOk

/-- **perl-brace, when an omission is tolerated**: the caller allows it and exactly one placeholder is missing
    (placeholders are untyped: any one may be the count). -/
theorem perlbrace_tolerated_iff (src dst : PerlBraceSig) (hs : PerlWf src) (omittedOk : Bool) :
    perlTolerated src dst omittedOk = true ↔ omittedOk = true ∧ ∃ k, OnlyMissing (perlNamed src) (perlNamed dst) k :=
  perlTolerated_iff src dst hs omittedOk

/-- **perl-brace, `same_signature_silent` / `reorder_silent`**: the same set of placeholders, in any order, is never flagged. -/
theorem perlbrace_same_signature_silent (pfx : Extra) (srcLoc dstLoc : List Char) (omittedOk : Bool) (src dst : PerlBraceSig)
    (h : ∀ k, k ∈ src.args ↔ k ∈ dst.args) : checkArgsPerlBrace pfx srcLoc src dstLoc dst omittedOk = .ok [] := by
  obtain ⟨tags, ht, hiff⟩ := perlbrace_args_tags_iff pfx srcLoc dstLoc omittedOk src dst
  rw [ht]
  congr 1
  apply List.eq_nil_iff_forall_not_mem.2
  intro t hmem
  rcases (hiff t).1 hmem with ⟨k, hk, _⟩ | ⟨k, hk, _⟩
  · unfold Unknown at hk; rw [keys_perlNamed, keys_perlNamed] at hk; exact hk.2 ((h k).2 hk.1)
  · unfold Missing at hk; rw [keys_perlNamed, keys_perlNamed] at hk; exact hk.2 ((h k).1 hk.1)

/-! ## The output is determined, order included -/

/-- **`sorted()` emits keys in increasing order, so the comparators' output is determined by the signatures.**
    perl-brace: `U`, `M` are THE strictly increasing lists (code-point order) of the placeholders only in the translation /
    only in the source (the latter empty when the single one is tolerated) — unique by `output_lists_unique`. -/
theorem perlbrace_output_determined (pfx : Extra) (srcLoc dstLoc : List Char) (omittedOk : Bool) (src dst : PerlBraceSig)
    (hs : PerlWf src) (hd : PerlWf dst) :
    ∃ U M, checkArgsPerlBrace pfx srcLoc src dstLoc dst omittedOk =
        .ok (U.map (perlUnknownTag pfx srcLoc dstLoc) ++ M.map (perlMissingTag pfx srcLoc dstLoc)) ∧
      Sorted strLt U ∧ (∀ k, k ∈ U ↔ Unknown (perlNamed src) (perlNamed dst) k) ∧
      Sorted strLt M ∧ (∀ k, k ∈ M ↔ Missing (perlNamed src) (perlNamed dst) k ∧ perlTolerated src dst omittedOk = false) :=
  checkArgsPerlBrace_determined pfx srcLoc src dstLoc dst omittedOk hs hd

/-- python-brace: numbers before names (`sort_key`), numbers ascending, names in code-point order -/
theorem pybrace_output_determined (pfx : Extra) (srcLoc dstLoc : List Char) (omittedOk : Bool) (src dst : PyBraceSig)
    (hs : BraceWf src) (hd : BraceWf dst) :
    ∃ K U M, checkArgsPyBrace pfx srcLoc src dstLoc dst omittedOk =
        .ok (K.flatMap (clashAt (braceClash pfx srcLoc dstLoc) src.args dst.args) ++
          U.map (braceUnknownTag pfx srcLoc dstLoc) ++ M.map (braceMissingTag pfx srcLoc dstLoc)) ∧
      Sorted BKey.lt K ∧ (∀ k, k ∈ K ↔ k ∈ keys (braceNamed src) ∧ k ∈ keys (braceNamed dst)) ∧
      Sorted BKey.lt U ∧ (∀ k, k ∈ U ↔ Unknown (braceNamed src) (braceNamed dst) k) ∧
      Sorted BKey.lt M ∧ (∀ k, k ∈ M ↔ Missing (braceNamed src) (braceNamed dst) k ∧ braceTolerated src dst omittedOk = false) :=
  checkArgsPyBrace_determined pfx srcLoc src dstLoc dst omittedOk hs hd

theorem python_output_determined (pfx : Extra) (srcLoc dstLoc : List Char) (omittedOk : Bool) {s s' : List Char}
    {src dst : PyFmt.Result} (h : pyParse s = .ok src) (h' : pyParse s' = .ok dst) :
    ∃ K U M, checkArgsPython pfx srcLoc src dstLoc dst omittedOk = .ok (
        (if dst.seq.length != src.seq.length then [pyNumberTag pfx srcLoc src dstLoc dst] else []) ++
        (typeDiffs (pySeq src) (pySeq dst)).map (pyTypeTag pfx srcLoc dstLoc) ++
        K.flatMap (clashAt (pyClash pfx srcLoc dstLoc) src.map dst.map) ++
        U.map (pyUnknownTag pfx srcLoc dstLoc) ++ M.map (pyMissingTag pfx srcLoc dstLoc)) ∧
      Sorted strLt K ∧ (∀ k, k ∈ K ↔ k ∈ keys (pyNamed src) ∧ k ∈ keys (pyNamed dst)) ∧
      Sorted strLt U ∧ (∀ k, k ∈ U ↔ Unknown (pyNamed src) (pyNamed dst) k) ∧
      Sorted strLt M ∧ (∀ k, k ∈ M ↔ Missing (pyNamed src) (pyNamed dst) k ∧ pyTolerated src dst omittedOk = false) :=
  checkArgsPython_determined pfx srcLoc src dstLoc dst omittedOk (pyParse_wf h) (pyParse_wf h')

/-- a strictly increasing list is determined by its members (both orders used are strict total orders) -/
theorem output_lists_unique :
    (∀ l l' : List (List Char), Sorted strLt l → Sorted strLt l' → (∀ x, x ∈ l ↔ x ∈ l') → l = l') ∧
    (∀ l l' : List BKey, Sorted BKey.lt l → Sorted BKey.lt l' → (∀ x, x ∈ l ↔ x ∈ l') → l = l') :=
  ⟨sorted_unique strLt_strictTotal, sorted_unique bkeyLt_strictTotal⟩

/-- C: the output of `check_args` in closed form — the count diagnostic first, then the type diagnostics in position order -/
theorem c_output_determined (pfx : Extra) (srcLoc dstLoc : List Char) (omittedOk : Bool) {s s' : List Char} {f f' : CFmtX}
    (h : cParse s = .ok f) (h' : cParse s' = .ok f') :
    checkArgsC pfx srcLoc f dstLoc f' omittedOk =
      .ok (cCountTags pfx srcLoc f dstLoc f' omittedOk ++
        (typeDiffs (typesOf f.arguments) (typesOf f'.arguments)).map (cTypeTag pfx srcLoc dstLoc)) := by
  obtain ⟨_, _, _, _, hs⟩ := cParse_sound h
  obtain ⟨_, _, _, _, hs'⟩ := cParse_sound h'
  exact checkArgsC_eq pfx srcLoc f dstLoc f' omittedOk hs hs'

/-! ## `check_message`: which strings are compared with which, and with what tolerance -/

/-- **A message of the property's domain** (PO file, usable charset, not fuzzy) whose `msgid` — and `msgid_plural`, if any —
    are valid format strings: `check_message` emits exactly `check_msgids`' tags, the single-string diagnostics of `msgstr`
    (if non-empty) and of every `msgstr[i]` (if any is non-empty and `check_plurals` left a preimage), then the tags of the
    planned comparisons, in that order.  Generic in the format kind. -/
theorem message_tags {σ F : Type} (b : Backend σ F) (ctx : Ctx) (msg : Msg σ) (fl : Flags) (hdom : InDomain ctx fl)
    (f0 : F) (h0 : b.parse msg.msgid = .ok f0) (f1 : Option F)
    (h1 : match msg.msgidPlural with | none => f1 = none | some sp => ∃ g, b.parse sp = .ok g ∧ f1 = some g)
    (hs : NoCrashOn b msg.msgstr) (hforms : ∀ p ∈ msg.msgstrPlural, NoCrashOn b p.2)
    (hargs : ∀ d ∈ allPlans b ctx msg fl (some f0) f1, PlanOk b msg.pfx d) :
    checkMessage b ctx msg fl = .ok (b.checkMsgids msg.repr (some f0) ++
      ((if b.truthy msg.msgstr then stringTags b ctx msg msg.msgstr else []) ++ (pluralPart b ctx msg fl (some f0) f1).1 ++
       (allPlans b ctx msg fl (some f0) f1).flatMap (planTags b msg.pfx))) :=
  checkMessage_eq b ctx msg fl hdom f0 h0 f1 h1 hs hforms hargs

/-- **Non-plural message with a valid `msgstr`**: besides `check_msgids` and the warnings about `msgstr` itself, exactly
    the tags of `check_args(msgid, msgstr)` with no tolerance — i.e. (by the `…_args_tags_iff` theorems) a mismatch
    diagnostic iff the two signatures differ in the corresponding way. -/
theorem plain_message {σ F : Type} (b : Backend σ F) (ctx : Ctx) (msg : Msg σ) (fl : Flags) (hdom : InDomain ctx fl)
    (hpl : msg.msgidPlural = none) (hforms : msg.msgstrPlural = []) (f0 f : F) (h0 : b.parse msg.msgid = .ok f0)
    (ht : b.truthy msg.msgstr = true) (h : b.parse msg.msgstr = .ok f) (tags : List TagCall)
    (hargs : b.checkArgs msg.pfx "msgid".toList f0 "msgstr".toList f false = .ok tags) :
    checkMessage b ctx msg fl = .ok (b.checkMsgids msg.repr (some f0) ++
      (b.okTags false false msg.pfx msg.repr f ++ tags)) := by
  have hnc : NoCrashOn b msg.msgstr := fun e he => by rw [h] at he; cases he
  obtain ⟨hall, hpp⟩ := allPlans_plain b ctx msg fl (some f0) none hforms
  have hfmt : stringFmt b msg.msgstr = some f := by unfold stringFmt; rw [h]
  have hpo : ∀ d ∈ allPlans b ctx msg fl (some f0) none, PlanOk b msg.pfx d := by
    intro d hd src dst hsrc hdst
    rw [hall, ht] at hd
    simp only [↓reduceIte, List.mem_singleton] at hd
    subst hd
    simp only [msgstrPlanOf, Option.some.injEq, hfmt] at hsrc hdst
    subst hsrc hdst
    exact ⟨tags, hargs⟩
  rw [checkMessage_eq b ctx msg fl hdom f0 h0 none (by rw [hpl]) hnc (by rw [hforms]; intro p hp; cases hp) hpo,
    hall, hpp, ht]
  simp only [↓reduceIte, List.append_nil, List.flatMap_cons, List.flatMap_nil]
  have hst : stringTags b ctx msg msg.msgstr = b.okTags false false msg.pfx msg.repr f := by
    unfold stringTags; rw [h, hdom.notTemplate, hpl]; rfl
  have hpt : planTags b msg.pfx (msgstrPlanOf b msg (some f0)) = tags := by
    unfold planTags msgstrPlanOf
    simp only [hfmt, hargs]
  rw [hst, hpt]

/-- the tags of the C checker about a single string or about `msgid` alone are none of the argument diagnostics -/
theorem c_other_tags_names (repr pfx : Extra) (fo : Option CFmtX) (f : CFmtX) (t : TagCall)
    (h : t ∈ cBackend.checkMsgids repr fo ++ cBackend.okTags false false pfx repr f) :
    t.name = "qt-plural-format-mistaken-for-c-format" ∨ t.name = "c-format-string-redundant-flag" ∨
    t.name = "c-format-string-non-portable-conversion" := by
  rcases List.mem_append.1 h with h | h
  · left
    have h : t ∈ cCheckMsgids repr fo := h
    unfold cCheckMsgids at h
    split at h
    · split at h
      · split at h
        · simp only [List.mem_singleton] at h; rw [h]
        · cases h
      · cases h
    · cases h
  · right
    have h' : t ∈ f.warnings.map (cWarnTag pfx) := h
    obtain ⟨w, _, rfl⟩ := List.mem_map.1 h'
    cases w
    · right; rfl
    · left; rfl

/-- **The statement's first sentence, for c-format, in one theorem.**  In a catalog with a usable charset declaration, for a
    non-fuzzy, non-plural c-format message whose `msgid` and (non-empty) `msgstr` are valid printf strings — given by their
    items — `check_message` reports the excess-arguments diagnostic iff `msgstr` consumes more arguments than `msgid`, the
    missing-arguments diagnostic iff it consumes fewer, a type-mismatch diagnostic `(b, a)` iff some argument consumed by
    both has type `a` in `msgid` and a different type `b` in `msgstr`; and whatever else it reports is a warning about one
    of the two strings (redundant flag, non-portable conversion, Qt plural format). -/
theorem c_plain_message_iff (ctx : Ctx) (msg : Msg (List Char)) (fl : Flags) (hdom : InDomain ctx fl)
    (hpl : msg.msgidPlural = none) (hforms : msg.msgstrPlural = []) {src dst : List Item} (hs : Valid src) (hd : Valid dst)
    (hid : msg.msgid = render src) (hstr : msg.msgstr = render dst) (hne : msg.msgstr ≠ []) :
    ∃ fs fd tags, cParse (render src) = .ok fs ∧ cParse (render dst) = .ok fd ∧ checkMessage cBackend ctx msg fl = .ok tags ∧
      (cExcessTag msg.pfx "msgid".toList fs "msgstr".toList fd ∈ tags ↔ Excess (typesOf (signature src)) (typesOf (signature dst))) ∧
      (cMissingTag msg.pfx "msgid".toList fs "msgstr".toList fd ∈ tags ↔ Fewer (typesOf (signature src)) (typesOf (signature dst))) ∧
      (∀ a b, cTypeTag msg.pfx "msgid".toList "msgstr".toList (a, b) ∈ tags ↔
        ∃ i, TypeDiffAt (typesOf (signature src)) (typesOf (signature dst)) i a b) ∧
      (∀ t ∈ tags, t = cExcessTag msg.pfx "msgid".toList fs "msgstr".toList fd ∨ t = cMissingTag msg.pfx "msgid".toList fs "msgstr".toList fd ∨
        (∃ a b, t = cTypeTag msg.pfx "msgid".toList "msgstr".toList (a, b)) ∨
        t.name = "qt-plural-format-mistaken-for-c-format" ∨ t.name = "c-format-string-redundant-flag" ∨
        t.name = "c-format-string-non-portable-conversion") := by
  obtain ⟨fs, fd, atags, hfs, hfd, hargs, h1, h2, h3, h4, _⟩ :=
    c_args_tags_iff msg.pfx "msgid".toList "msgstr".toList false hs hd
  have ht : cBackend.truthy msg.msgstr = true := by
    show (!msg.msgstr.isEmpty) = true
    cases hm : msg.msgstr with
    | nil => exact absurd hm hne
    | cons _ _ => rfl
  have hp0 : cBackend.parse msg.msgid = .ok fs := by rw [hid]; exact hfs
  have hp1 : cBackend.parse msg.msgstr = .ok fd := by rw [hstr]; exact hfd
  have hmsg := plain_message cBackend ctx msg fl hdom hpl hforms fs fd hp0 ht hp1 atags hargs
  refine ⟨fs, fd, _, hfs, hfd, hmsg, ?_, ?_, ?_, ?_⟩
  all_goals rw [← List.append_assoc]
  · rw [List.mem_append, ← h1]
    constructor
    · rintro (h | h)
      · rcases c_other_tags_names _ _ _ _ _ h with hn | hn | hn <;>
          simp [cExcessTag, tagExcessOrMissing] at hn
      · exact h
    · exact Or.inr
  · rw [List.mem_append]
    have h2' : cMissingTag msg.pfx "msgid".toList fs "msgstr".toList fd ∈ atags ↔
        Fewer (typesOf (signature src)) (typesOf (signature dst)) := by
      rw [h2]; simp [cTolerated]
    rw [← h2']
    constructor
    · rintro (h | h)
      · rcases c_other_tags_names _ _ _ _ _ h with hn | hn | hn <;>
          simp [cMissingTag, tagExcessOrMissing] at hn
      · exact h
    · exact Or.inr
  · intro a b
    rw [List.mem_append, ← h3 a b]
    constructor
    · rintro (h | h)
      · rcases c_other_tags_names _ _ _ _ _ h with hn | hn | hn <;>
          simp [cTypeTag, tagTypeMismatch] at hn
      · exact h
    · exact Or.inr
  · intro t htm
    rcases List.mem_append.1 htm with h | h
    · exact Or.inr (Or.inr (Or.inr (c_other_tags_names _ _ _ _ _ h)))
    · rcases h4 t h with h | h | h
      · exact Or.inl h
      · exact Or.inr (Or.inl h)
      · exact Or.inr (Or.inr (Or.inl h))

/-- **C, `reorder_silent`, permutation form**: if the (argument number, type) references of the translation are a permutation
    of those of the source, nothing is flagged. -/
theorem c_reorder_silent_perm (pfx : Extra) (srcLoc dstLoc : List Char) (omittedOk : Bool) {src dst : List Item}
    (hs : Valid src) (hd : Valid dst)
    (h : ((positions (refs src)).map fun p => (p.1, p.2.type)).Perm ((positions (refs dst)).map fun p => (p.1, p.2.type))) :
    ∃ fs fd, cParse (render src) = .ok fs ∧ cParse (render dst) = .ok fd ∧
      checkArgsC pfx srcLoc fs dstLoc fd omittedOk = .ok [] := by
  apply c_reorder_silent pfx srcLoc dstLoc omittedOk hs hd
  intro j t
  have hm := h.mem_iff (a := (j, t))
  simp only [List.mem_map, Prod.mk.injEq] at hm
  unfold PosType
  constructor
  · rintro ⟨e, he, rfl⟩
    obtain ⟨p, hp, hp1, hp2⟩ := hm.1 ⟨(j, e), he, rfl, rfl⟩
    exact ⟨p.2, by rw [← hp1]; exact hp, hp2⟩
  · rintro ⟨e, he, rfl⟩
    obtain ⟨p, hp, hp1, hp2⟩ := hm.2 ⟨(j, e), he, rfl, rfl⟩
    exact ⟨p.2, by rw [← hp1]; exact hp, hp2⟩

/-- **The statement's first sentence, for python-format.**  In a catalog with a usable charset declaration, a non-fuzzy,
    non-plural python-format message whose `msgid` and (non-empty) `msgstr` are accepted reports exactly: the warnings about
    `msgstr` as a string, and — never tolerant — the number-mismatch diagnostic iff the numbers of unnamed arguments differ, a
    type-mismatch diagnostic per unnamed position / common key with different types, unknown-argument per key only in `msgstr`,
    missing-argument per key only in `msgid`. -/
theorem python_plain_message_iff (ctx : Ctx) (msg : Msg (List Char)) (fl : Flags) (hdom : InDomain ctx fl)
    (hpl : msg.msgidPlural = none) (hforms : msg.msgstrPlural = []) {src dst : PyFmt.Result}
    (h0 : pyParse msg.msgid = .ok src) (h1 : pyParse msg.msgstr = .ok dst) (hne : msg.msgstr ≠ []) :
    ∃ tags, checkMessage pyBackend ctx msg fl = .ok tags ∧
      ∀ t, t ∈ tags ↔
        t ∈ dst.warnings.map (pyWarnTag msg.pfx) ∨
        (NumberDiffers (pySeq src) (pySeq dst) ∧ t = pyNumberTag msg.pfx "msgid".toList src "msgstr".toList dst) ∨
        (∃ i a b, TypeDiffAt (pySeq src) (pySeq dst) i a b ∧ t = pyTypeTag msg.pfx "msgid".toList "msgstr".toList (a, b)) ∨
        (∃ k a b, TypeDiffKey (· = ·) (pyNamed src) (pyNamed dst) k a b ∧ t = pyTypeTag msg.pfx "msgid".toList "msgstr".toList (a, b)) ∨
        (∃ k, Unknown (pyNamed src) (pyNamed dst) k ∧ t = pyUnknownTag msg.pfx "msgid".toList "msgstr".toList k) ∨
        (∃ k, Missing (pyNamed src) (pyNamed dst) k ∧ t = pyMissingTag msg.pfx "msgid".toList "msgstr".toList k) := by
  obtain ⟨atags, hargs, hiff⟩ := python_args_tags_iff msg.pfx "msgid".toList "msgstr".toList false h0 h1
  have ht : pyBackend.truthy msg.msgstr = true := by
    show (!msg.msgstr.isEmpty) = true
    cases hm : msg.msgstr with
    | nil => exact absurd hm hne
    | cons _ _ => rfl
  have hmsg := plain_message pyBackend ctx msg fl hdom hpl hforms src dst h0 ht h1 atags hargs
  refine ⟨_, hmsg, fun t => ?_⟩
  have hck : pyBackend.checkMsgids msg.repr (some src) = [] := rfl
  have hok : pyBackend.okTags false false msg.pfx msg.repr dst = dst.warnings.map (pyWarnTag msg.pfx) := by
    show pyOkTags false false msg.pfx msg.repr dst = _
    simp [pyOkTags]
  rw [hck, hok, List.nil_append, List.mem_append, hiff t]
  have htol : pyTolerated src dst false = false := by simp [pyTolerated, mapTolerated]
  simp only [htol, true_and]

/-- **python-brace / perl-brace: a non-plural message of the domain reports exactly the argument diagnostics** (these two
    checkers have no warnings and no `check_msgids`) -/
theorem pybrace_plain_message (ctx : Ctx) (msg : Msg (BraceStr PyBraceSig)) (fl : Flags) (hdom : InDomain ctx fl)
    (hpl : msg.msgidPlural = none) (hforms : msg.msgstrPlural = []) (src dst : PyBraceSig)
    (h0 : msg.msgid.outcome = .ok src) (ht : msg.msgstr.truthy = true) (h1 : msg.msgstr.outcome = .ok dst)
    (hs : BraceWf src) (hd : BraceWf dst) :
    checkMessage pyBraceBackend ctx msg fl = checkArgsPyBrace msg.pfx "msgid".toList src "msgstr".toList dst false := by
  obtain ⟨tags, htags, _⟩ := pybrace_args_tags_iff msg.pfx "msgid".toList "msgstr".toList false src dst hs hd
  rw [plain_message pyBraceBackend ctx msg fl hdom hpl hforms src dst h0 ht h1 tags htags, htags]
  rfl

theorem perlbrace_plain_message (ctx : Ctx) (msg : Msg (BraceStr PerlBraceSig)) (fl : Flags) (hdom : InDomain ctx fl)
    (hpl : msg.msgidPlural = none) (hforms : msg.msgstrPlural = []) (src dst : PerlBraceSig)
    (h0 : msg.msgid.outcome = .ok src) (ht : msg.msgstr.truthy = true) (h1 : msg.msgstr.outcome = .ok dst) :
    checkMessage perlBraceBackend ctx msg fl = checkArgsPerlBrace msg.pfx "msgid".toList src "msgstr".toList dst false := by
  obtain ⟨tags, htags, _⟩ := perlbrace_args_tags_iff msg.pfx "msgid".toList "msgstr".toList false src dst
  rw [plain_message perlBraceBackend ctx msg fl hdom hpl hforms src dst h0 ht h1 tags htags, htags]
  rfl

/-- **`invalid_msgstr_error`**: a non-empty `msgstr` that is not a valid format string is reported as a format-string
    error — and gives rise to no argument diagnostic. -/
theorem invalid_msgstr_error {σ F : Type} (b : Backend σ F) (ctx : Ctx) (msg : Msg σ) (fl : Flags) (hdom : InDomain ctx fl)
    (hpl : msg.msgidPlural = none) (hforms : msg.msgstrPlural = []) (f0 : F) (h0 : b.parse msg.msgid = .ok f0)
    (ht : b.truthy msg.msgstr = true) (h : b.parse msg.msgstr = .own) :
    checkMessage b ctx msg fl = .ok (b.checkMsgids msg.repr (some f0) ++ [⟨b.errTag, [msg.pfx]⟩]) := by
  have hnc : NoCrashOn b msg.msgstr := fun e he => by rw [h] at he; cases he
  obtain ⟨hall, hpp⟩ := allPlans_plain b ctx msg fl (some f0) none hforms
  have hfmt : stringFmt b msg.msgstr = none := by unfold stringFmt; rw [h]
  have hpo : ∀ d ∈ allPlans b ctx msg fl (some f0) none, PlanOk b msg.pfx d := by
    intro d hd src dst _ hdst
    rw [hall, ht] at hd
    simp only [↓reduceIte, List.mem_singleton] at hd
    subst hd
    simp only [msgstrPlanOf, hfmt] at hdst
    cases hdst
  rw [checkMessage_eq b ctx msg fl hdom f0 h0 none (by rw [hpl]) hnc (by rw [hforms]; intro p hp; cases hp) hpo,
    hall, hpp, ht]
  simp only [↓reduceIte, List.append_nil, List.flatMap_cons, List.flatMap_nil]
  have hst : stringTags b ctx msg msg.msgstr = [⟨b.errTag, [msg.pfx]⟩] := by unfold stringTags; rw [h]
  have hpt : planTags b msg.pfx (msgstrPlanOf b msg (some f0)) = [] := by
    unfold planTags msgstrPlanOf
    simp only [hfmt]
  rw [hst, hpt]
  simp

/-- an invalid `msgstr[i]` of a plural message is reported as a format-string error, too -/
theorem invalid_plural_form_error {σ F : Type} (b : Backend σ F) (ctx : Ctx) (msg : Msg σ) (fl : Flags) (f0 f1 : Option F)
    (q : Int × List Nat) (pre : CheckPlurals.Preimage) (hpre : ctx.preimage = some (q :: pre))
    (hany : msg.msgstrPlural.any (fun p => b.truthy p.2) = true) (i : Nat) (s : σ) (hmem : (i, s) ∈ msg.msgstrPlural)
    (h : b.parse s = .own) : (⟨b.errTag, [msg.pfx]⟩ : TagCall) ∈ (pluralPart b ctx msg fl f0 f1).1 := by
  unfold pluralPart
  rw [hpre]
  simp only [hany, ↓reduceIte, List.mem_flatMap]
  refine ⟨(i, s), (mem_sortBy _ _ _).2 hmem, ?_⟩
  unfold stringTags
  simp [h]

/-- **an invalid `msgid`** (outside templates): nothing at all is reported for the message -/
theorem invalid_msgid_silent {σ F : Type} (b : Backend σ F) (ctx : Ctx) (msg : Msg σ) (fl : Flags) (hn : ctx.isTemplate = false)
    (h0 : b.parse msg.msgid = .own) : checkMessage b ctx msg fl = .ok [] :=
  checkMessage_invalid_msgid b ctx msg fl hn h0

/-- **Plural messages: every `msgstr[i]` that parses and whose form index has a preimage entry is compared** -/
theorem plural_form_is_compared {σ F : Type} (b : Backend σ F) (ctx : Ctx) (msg : Msg σ) (fl : Flags) (f0 f1 : Option F)
    (q : Int × List Nat) (pre : CheckPlurals.Preimage) (hpre : ctx.preimage = some (q :: pre))
    (hany : msg.msgstrPlural.any (fun p => b.truthy p.2) = true) (i : Nat) (s : σ) (hmem : (i, s) ∈ msg.msgstrPlural)
    (g : F) (hg : b.parse s = .ok g) (pi : List Nat) (hpi : preimageGet (q :: pre) i = some pi) :
    pluralPlan b f0 f1 i g (pi.filter fl.inRange) ∈ allPlans b ctx msg fl f0 f1 := by
  unfold allPlans pluralPart
  rw [hpre]
  simp only [hany, ↓reduceIte]
  apply List.mem_append_right
  apply List.mem_filterMap.2
  refine ⟨(i, s), (mem_sortBy _ _ _).2 hmem, ?_⟩
  unfold planOf stringFmt
  simp only [hg, hpi]

/-- **Plural messages: what each planned comparison is** (`omission_only_if`).  Every comparison planned for a
    `msgstr[i]` has that string as destination; its source is `msgid` if the form is selected exactly for `n = 1`
    (inside window and range flag), else `msgid_plural`; and an omitted integer argument may be tolerated only if the form
    is selected for at most one `n`, or for `0` and one other `n` — in the `n = 1` case only if moreover `msgid` and
    `msgid_plural` have equally many items. -/
theorem plural_form_plan {σ F : Type} (b : Backend σ F) (ctx : Ctx) (msg : Msg σ) (fl : Flags) (f0 f1 : Option F) (d : Plan F)
    (hd : d ∈ (pluralPart b ctx msg fl f0 f1).2) :
    ∃ pre i s g pi, ctx.preimage = some pre ∧ (i, s) ∈ msg.msgstrPlural ∧ b.parse s = .ok g ∧ preimageGet pre i = some pi ∧
      d.dst = some g ∧ d.dstLoc = msgstrLoc i ∧
      (pi.filter fl.inRange = [1] → d.src = f0 ∧ d.srcLoc = "msgid".toList ∧
        (d.omittedOk = true → ∃ a c, f0 = some a ∧ f1 = some c ∧ b.len a = b.len c)) ∧
      (pi.filter fl.inRange ≠ [1] → d.src = f1 ∧ d.srcLoc = "msgid_plural".toList) ∧
      (d.omittedOk = true → OmissionPermitted (pi.filter fl.inRange)) := by
  obtain ⟨pre, i, s, g, pi, h1, h2, h3, h4, rfl⟩ := mem_pluralPart b ctx msg fl f0 f1 d hd
  refine ⟨pre, i, s, g, pi, h1, h2, h3, h4, (pluralPlan_dst b f0 f1 i g _).1, (pluralPlan_dst b f0 f1 i g _).2, ?_, ?_, ?_⟩
  · intro hp
    refine ⟨((pluralPlan_src b f0 f1 i g _).1 hp).1, ((pluralPlan_src b f0 f1 i g _).1 hp).2, ?_⟩
    rw [hp]
    exact pluralPlan_omitted_one b f0 f1 i g
  · exact (pluralPlan_src b f0 f1 i g _).2
  · exact pluralPlan_omitted b f0 f1 i g _

/-- the comparison of `msgstr` with `msgid` is never tolerant -/
theorem msgstr_plan_strict {σ F : Type} (b : Backend σ F) (msg : Msg σ) (f0 : Option F) :
    (msgstrPlanOf b msg f0).omittedOk = false ∧ (msgstrPlanOf b msg f0).src = f0 ∧
    (msgstrPlanOf b msg f0).srcLoc = "msgid".toList ∧ (msgstrPlanOf b msg f0).dstLoc = "msgstr".toList := ⟨rfl, rfl, rfl, rfl⟩

/-- **`omission_window`: the window made explicit.**  In a catalog whose (only) `Plural-Forms` field is `pf`, the preimage
    entry that decides source and tolerance for `msgstr[i]` is the increasing list of the `n < 200` at which the declared
    expression evaluates to `i`; after the range flag: the `n` of `[0, 200) ∩ [range_min, range_max]` selecting form `i`. -/
theorem omission_window {tmpl : Bool} {pf : List Char} {pre : CheckPlurals.Preimage} (h : preimageOfHeader tmpl [pf] = some pre) (fl : Flags) :
    ∃ n e lj rj, CheckPlurals.parsePluralForms pf = .ok n e lj rj ∧ ∀ (i : Nat) (pi : List Nat), preimageGet pre i = some pi →
      pi.filter fl.inRange = (List.range CheckPlurals.codomainLimit).filter (fun k => selects e i k && fl.inRange k) := by
  obtain ⟨n, e, lj, rj, hpf, hget⟩ := preimageOfHeader_get h
  refine ⟨n, e, lj, rj, hpf, fun i pi hpi => ?_⟩
  rw [(hget i).1 pi hpi, List.filter_filter]
  congr 1
  funext k
  exact Bool.and_comm _ _

/-! ## No exception leaves `check_message` -/

/-- **C: `check_message` never raises**, whatever the context (template or not), flags and strings. -/
theorem c_check_message_nocrash (ctx : Ctx) (msg : Msg (List Char)) (fl : Flags) : ∃ t, checkMessage cBackend ctx msg fl = .ok t := by
  apply checkMessage_total cBackend (fun f => SlotsOk f.arguments)
  · intro pfx sl f dl g ok hf hg
    exact ⟨_, checkArgsC_eq pfx sl f dl g ok hf hg⟩
  · have hstr : ∀ s, StrOk cBackend (fun f => SlotsOk f.arguments) s := fun s =>
      ⟨fun e => cParse_nocrash s e, fun f hf => (cParse_sound hf).choose_spec.2.2.2⟩
    exact ⟨hstr _, fun s _ => hstr s, hstr _, fun p _ => hstr p.2⟩

/-- **Python-%: `check_message` never raises.** -/
theorem python_check_message_nocrash (ctx : Ctx) (msg : Msg (List Char)) (fl : Flags) : ∃ t, checkMessage pyBackend ctx msg fl = .ok t := by
  apply checkMessage_total pyBackend (fun r => MapWf r.map)
  · intro pfx sl f dl g ok hf hg
    exact ⟨_, checkArgsPython_eq pfx sl f dl g ok hf hg⟩
  · have hstr : ∀ s, StrOk pyBackend (fun r => MapWf r.map) s := fun s =>
      ⟨fun e => pyParse_nocrash s e, fun f hf => pyParse_wf hf⟩
    exact ⟨hstr _, fun s _ => hstr s, hstr _, fun p _ => hstr p.2⟩

/-- **python-brace: `check_message` never raises**, provided the parser raised only its own errors on the message's strings
    and every parsed signature is a well-formed dict (distinct keys, each with a use). -/
theorem pybrace_check_message_nocrash (ctx : Ctx) (msg : Msg (BraceStr PyBraceSig)) (fl : Flags)
    (hm : MsgOk pyBraceBackend BraceWf msg) : ∃ t, checkMessage pyBraceBackend ctx msg fl = .ok t := by
  apply checkMessage_total pyBraceBackend BraceWf _ ctx msg fl hm
  intro pfx sl f dl g ok hf hg
  exact ⟨_, checkArgsPyBrace_eq pfx sl f dl g ok hf hg⟩

/-- **perl-brace: `check_message` never raises**, provided the parser raised only its own errors on the message's strings. -/
theorem perlbrace_check_message_nocrash (ctx : Ctx) (msg : Msg (BraceStr PerlBraceSig)) (fl : Flags)
    (hm : MsgOk perlBraceBackend (fun _ => True) msg) : ∃ t, checkMessage perlBraceBackend ctx msg fl = .ok t := by
  apply checkMessage_total perlBraceBackend (fun _ => True) _ ctx msg fl hm
  intro pfx sl f dl g ok _ _
  exact ⟨_, checkArgsPerlBrace_eq pfx sl f dl g ok⟩

/-! ## Dispatch -/

/-- a format flag without checker (`sh-format`, `java-format`, …) produces nothing -/
theorem dispatch_unknown (ctx : Ctx) (fl : Flags) (name : List Char) (m : KMsg) (h : checkerNames.contains name = false) :
    checkFormats ctx fl [(name, m)] = .ok [] := by
  have hn : name ∉ checkerNames := by simpa using h
  simp [checkFormats, sortBy, insertBy, runAll, hn]

/-- a single known format flag runs exactly its checker -/
theorem dispatch_single (ctx : Ctx) (fl : Flags) (name : List Char) (m : KMsg) (h : checkerNames.contains name = true) :
    checkFormats ctx fl [(name, m)] = m.check ctx fl := by
  simp only [checkFormats, sortBy, List.foldr_cons, List.foldr_nil, insertBy, runAll, h, ↓reduceIte]
  cases m.check ctx fl <;> simp

/-! ## The brace kinds on STRINGS: composition with the parser models of C13 -/

/-- **The conversion between what C13's parser model reports and what the comparator reads is faithful**: the same keys in the
    same (dict insertion) order; under every key the type sets of its uses, in order; `len(fmt)`; intersection, emptiness and
    the printed type names commute with it; both directions are injective. -/
theorem brace_conversion_faithful (r : PyBrace.Result) :
    (braceSigOf r).args.map (·.1) = r.argMap.map (fun p => keyOfBrace p.1) ∧
    (∀ k as, (k, as) ∈ r.argMap → (keyOfBrace k, as.map fun a => tyOfBrace a.types) ∈ (braceSigOf r).args) ∧
    (braceSigOf r).nitems = r.items.length ∧
    (∀ a b : PyBrace.Key, keyOfBrace a = keyOfBrace b → a = b) ∧
    (∀ a b : PyBrace.TySet, tyOfBrace a = tyOfBrace b → a = b) ∧
    (∀ a b : PyBrace.TySet, (tyOfBrace a).inter (tyOfBrace b) = tyOfBrace (a.inter b)) ∧
    (∀ a : PyBrace.TySet, (tyOfBrace a).nonempty = !a.isEmpty) ∧
    (∀ a : PyBrace.TySet, (tyOfBrace a).names = a.names.map String.toList) :=
  ⟨braceSigOf_keys r, braceSigOf_uses r, rfl, fun _ _ => keyOfBrace_injective, fun _ _ => tyOfBrace_injective,
    tyOfBrace_inter, tyOfBrace_nonempty, tyOfBrace_names⟩

/-- … and for an accepted string the comparator's reference view is exactly the parser's "argument `k` has the common type set
    `c`"; the signature is well formed for the comparator. -/
theorem brace_signature_of_string {s : List Char} {r : PyBrace.Result} (h : PyBrace.parse s = .ok r) :
    BraceWf (braceSigOf r) ∧
    (∀ k c, valueAt (braceNamed (braceSigOf r)) (keyOfBrace k) = some (tyOfBrace c) ↔ HasArg r k c) ∧
    (∀ k, keyOfBrace k ∈ keys (braceNamed (braceSigOf r)) ↔ k ∈ r.argMap.map (·.1)) :=
  ⟨braceWf_of_sigOK (parse_sigOK h), braceNamed_value (parse_sigOK h), braceNamed_keys r⟩

/-- **python-brace, `args_tags_iff` on strings.**  For any two strings the python-brace parser (C13's model) accepts,
    `check_args` on what it reports returns (no exception) exactly: a type-mismatch tag for every common argument whose type sets
    are disjoint, an unknown-argument tag for every argument only in the translation, a missing-argument tag for every argument
    only in the source unless the single one is tolerated. -/
theorem pybrace_args_tags_iff_strings (pfx : Extra) (srcLoc dstLoc : List Char) (omittedOk : Bool) {s s' : List Char}
    {r r' : PyBrace.Result} (h : PyBrace.parse s = .ok r) (h' : PyBrace.parse s' = .ok r') :
    ∃ tags, checkArgsPyBrace pfx srcLoc (braceSigOf r) dstLoc (braceSigOf r') omittedOk = .ok tags ∧
      ∀ t, t ∈ tags ↔
        (∃ k a b, TypeDiffKey Compatible (braceNamed (braceSigOf r)) (braceNamed (braceSigOf r')) k a b ∧
          t = braceTypeTag pfx srcLoc dstLoc a b) ∨
        (∃ k, Unknown (braceNamed (braceSigOf r)) (braceNamed (braceSigOf r')) k ∧ t = braceUnknownTag pfx srcLoc dstLoc k) ∨
        (∃ k, Missing (braceNamed (braceSigOf r)) (braceNamed (braceSigOf r')) k ∧
          braceTolerated (braceSigOf r) (braceSigOf r') omittedOk = false ∧ t = braceMissingTag pfx srcLoc dstLoc k) :=
  pybrace_args_tags_iff pfx srcLoc dstLoc omittedOk _ _ (braceWf_of_sigOK (parse_sigOK h)) (braceWf_of_sigOK (parse_sigOK h'))

/-- **python-brace, `reorder_silent` on strings**: if the translation has the same arguments (numbers and names) with the same
    type sets as the source — the fields in any order, any number of times, with whatever text in between — nothing is flagged. -/
theorem pybrace_reorder_silent (pfx : Extra) (srcLoc dstLoc : List Char) (omittedOk : Bool) {s s' : List Char}
    {r r' : PyBrace.Result} (h : PyBrace.parse s = .ok r) (h' : PyBrace.parse s' = .ok r')
    (hsame : ∀ k c, HasArg r k c ↔ HasArg r' k c) :
    checkArgsPyBrace pfx srcLoc (braceSigOf r) dstLoc (braceSigOf r') omittedOk = .ok [] := by
  have hs := parse_sigOK h
  have hs' := parse_sigOK h'
  apply pybrace_same_signature_silent pfx srcLoc dstLoc omittedOk _ _ (braceWf_of_sigOK hs) (braceWf_of_sigOK hs')
  have hkeys : ∀ k, k ∈ r.argMap.map (·.1) ↔ k ∈ r'.argMap.map (·.1) := by
    intro k
    constructor
    · intro hk
      obtain ⟨p, hp, rfl⟩ := List.mem_map.1 hk
      obtain ⟨hne, c, _, hall⟩ := hs.2 p.1 p.2 hp
      obtain ⟨as', hm', _⟩ := (hsame p.1 c).1 ⟨p.2, hp, hne, hall⟩
      exact List.mem_map.2 ⟨(p.1, as'), hm', rfl⟩
    · intro hk
      obtain ⟨p, hp, rfl⟩ := List.mem_map.1 hk
      obtain ⟨hne, c, _, hall⟩ := hs'.2 p.1 p.2 hp
      obtain ⟨as', hm', _⟩ := (hsame p.1 c).2 ⟨p.2, hp, hne, hall⟩
      exact List.mem_map.2 ⟨(p.1, as'), hm', rfl⟩
  have hkeyform : ∀ (q : PyBrace.Result) (k : BKey), k ∈ keys (braceNamed (braceSigOf q)) → ∃ k0, k = keyOfBrace k0 := by
    intro q k hk
    have : keys (braceNamed (braceSigOf q)) = (q.argMap.map (·.1)).map keyOfBrace := by
      unfold braceNamed; rw [keys_viewOf, braceSigOf_keys]; simp
    rw [this] at hk
    obtain ⟨k0, _, rfl⟩ := List.mem_map.1 hk
    exact ⟨k0, rfl⟩
  constructor
  · intro k
    constructor
    · intro hk
      obtain ⟨k0, rfl⟩ := hkeyform r k hk
      exact (braceNamed_keys r' k0).2 ((hkeys k0).1 ((braceNamed_keys r k0).1 hk))
    · intro hk
      obtain ⟨k0, rfl⟩ := hkeyform r' k hk
      exact (braceNamed_keys r k0).2 ((hkeys k0).2 ((braceNamed_keys r' k0).1 hk))
  · intro k a b ha hb
    obtain ⟨k0, rfl⟩ := hkeyform r k ((get_isSome_iff k _).1 ⟨a, ha⟩)
    -- the source's common set for k0
    have hk0 : k0 ∈ r.argMap.map (·.1) := (braceNamed_keys r k0).1 ((get_isSome_iff _ _).1 ⟨a, ha⟩)
    obtain ⟨p, hp, rfl⟩ := List.mem_map.1 hk0
    obtain ⟨hne, c, hc, hall⟩ := hs.2 p.1 p.2 hp
    have hA : HasArg r p.1 c := ⟨p.2, hp, hne, hall⟩
    have ha' := (braceNamed_value hs p.1 c).2 hA
    have hb' := (braceNamed_value hs' p.1 c).2 ((hsame p.1 c).1 hA)
    rw [ha] at ha'; rw [hb] at hb'
    cases ha'; cases hb'
    show ((tyOfBrace c).inter (tyOfBrace c)).nonempty = true
    rw [tyOfBrace_inter, tyOfBrace_nonempty]
    cases c with
    | mk x y z => cases x <;> cases y <;> cases z <;> simp_all [PyBrace.TySet.inter, PyBrace.TySet.isEmpty]

/-- **python-brace, `reorder_silent` over RENDERED strings.**  Render any two item lists made of brace-free literal text and plain
    fields `{name}` / `{index}` (identifiers; decimal indices within `SSIZE_MAX`): both renderings are accepted by the parser, and
    if the fields of the translation are those of the source in any order (a permutation of the field names — in particular any
    reordering expressible with numbered or named fields), nothing is flagged. -/
theorem pybrace_reorder_silent_rendered (pfx : Extra) (srcLoc dstLoc : List Char) (omittedOk : Bool) {a b : List PlainItem}
    (ha : PlainClean a) (hb : PlainClean b) (hperm : (fieldNames b).Perm (fieldNames a)) :
    ∃ r r', PyBrace.parse (renderPlain a) = .ok r ∧ PyBrace.parse (renderPlain b) = .ok r' ∧
      checkArgsPyBrace pfx srcLoc (braceSigOf r) dstLoc (braceSigOf r') omittedOk = .ok [] := by
  obtain ⟨r, hr, hargs⟩ := parse_renderPlain ha
  obtain ⟨r', hr', hargs'⟩ := parse_renderPlain hb
  refine ⟨r, r', hr, hr', pybrace_reorder_silent pfx srcLoc dstLoc omittedOk hr hr' fun k c => ?_⟩
  rw [hargs, hargs']
  have := (hperm.map keyOfName |>.mem_iff (a := k))
  constructor
  · rintro ⟨hc, hk⟩; exact ⟨hc, by exact (show k ∈ (fieldNames b).map keyOfName from this.2 hk)⟩
  · rintro ⟨hc, hk⟩; exact ⟨hc, this.1 hk⟩

/-- **python-brace: no exception leaves `check_message` — for any context, flags and STRINGS** (no hypothesis left: the parser
    raises only its own errors, C13 `brace_error_own`, and what it reports is well formed for `check_args`). -/
theorem pybrace_check_message_nocrash_strings (ctx : Ctx) (msg : Msg (List Char)) (fl : Flags) :
    ∃ t, checkMessage pyBraceStrBackend ctx msg fl = .ok t := by
  apply checkMessage_total pyBraceStrBackend BraceWf
  · intro pfx sl f dl g ok hf hg
    exact ⟨_, checkArgsPyBrace_eq pfx sl f dl g ok hf hg⟩
  · have hstr : ∀ s, StrOk pyBraceStrBackend BraceWf s := fun s =>
      ⟨fun e => pyBraceParse_nocrash s e, fun f hf => pyBraceParse_wf hf⟩
    exact ⟨hstr _, fun s _ => hstr s, hstr _, fun p _ => hstr p.2⟩

/-- **python-brace, the statement's first sentence on strings**: a non-plural message of the domain whose `msgid` and non-empty
    `msgstr` the parser accepts reports exactly the argument diagnostics of `check_args` on the two parsed signatures. -/
theorem pybrace_plain_message_strings (ctx : Ctx) (msg : Msg (List Char)) (fl : Flags) (hdom : InDomain ctx fl)
    (hpl : msg.msgidPlural = none) (hforms : msg.msgstrPlural = []) {r r' : PyBrace.Result}
    (h0 : PyBrace.parse msg.msgid = .ok r) (h1 : PyBrace.parse msg.msgstr = .ok r') (hne : msg.msgstr ≠ []) :
    checkMessage pyBraceStrBackend ctx msg fl =
      checkArgsPyBrace msg.pfx "msgid".toList (braceSigOf r) "msgstr".toList (braceSigOf r') false := by
  obtain ⟨tags, htags, _⟩ := pybrace_args_tags_iff_strings msg.pfx "msgid".toList "msgstr".toList false h0 h1
  have ht : pyBraceStrBackend.truthy msg.msgstr = true := by
    show (!msg.msgstr.isEmpty) = true
    cases hm : msg.msgstr with
    | nil => exact absurd hm hne
    | cons _ _ => rfl
  have hp0 : pyBraceStrBackend.parse msg.msgid = .ok (braceSigOf r) := by show pyBraceParse _ = _; unfold pyBraceParse; rw [h0]
  have hp1 : pyBraceStrBackend.parse msg.msgstr = .ok (braceSigOf r') := by show pyBraceParse _ = _; unfold pyBraceParse; rw [h1]
  rw [plain_message pyBraceStrBackend ctx msg fl hdom hpl hforms _ _ hp0 ht hp1 tags htags, htags]
  rfl

/-- **python-brace, `invalid_msgstr_error` on strings**: a non-empty `msgstr` on which the parser raises one of its own error
    classes (C13: `Error`, `ConversionError`, `FormatError`, `FormatTypeMismatch`, `ArgumentNumberingMixture`,
    `ArgumentRangeError`, `ArgumentTypeMismatch` — and it raises nothing else) is reported as
    `python-brace-format-string-error`, and nothing else is reported. -/
theorem pybrace_invalid_msgstr_error (ctx : Ctx) (msg : Msg (List Char)) (fl : Flags) (hdom : InDomain ctx fl)
    (hpl : msg.msgidPlural = none) (hforms : msg.msgstrPlural = []) {r : PyBrace.Result} (h0 : PyBrace.parse msg.msgid = .ok r)
    (hne : msg.msgstr ≠ []) {e : PyBrace.PErr} (h1 : PyBrace.parse msg.msgstr = .error e) :
    checkMessage pyBraceStrBackend ctx msg fl = .ok [⟨"python-brace-format-string-error", [msg.pfx]⟩] := by
  obtain ⟨c, a, rfl⟩ := I18n.Props.C13.brace_error_own h1
  have ht : pyBraceStrBackend.truthy msg.msgstr = true := by
    show (!msg.msgstr.isEmpty) = true
    cases hm : msg.msgstr with
    | nil => exact absurd hm hne
    | cons _ _ => rfl
  have hp0 : pyBraceStrBackend.parse msg.msgid = .ok (braceSigOf r) := by show pyBraceParse _ = _; unfold pyBraceParse; rw [h0]
  have hp1 : pyBraceStrBackend.parse msg.msgstr = .own := (pyBraceParse_own_iff _).2 ⟨c, a, h1⟩
  rw [invalid_msgstr_error pyBraceStrBackend ctx msg fl hdom hpl hforms _ hp0 ht hp1]
  rfl

open I18n.Spec.PerlBraceRef in
/-- **perl-brace, `args_tags_iff` on strings**, against C13's declarative reference: for well-formed strings (every `{` opens a
    `{identifier}` placeholder) an unknown-argument tag for every identifier that is a placeholder of the translation but not of
    the source, a missing-argument tag for every identifier that is a placeholder of the source but not of the translation
    (unless the single one is tolerated), nothing else, no exception. -/
theorem perlbrace_args_tags_iff_strings (pfx : Extra) (srcLoc dstLoc : List Char) (omittedOk : Bool) {s s' : List Char}
    (h : WellFormed s) (h' : WellFormed s') :
    ∃ r r' tags, PerlBrace.parse s = .ok r ∧ PerlBrace.parse s' = .ok r' ∧
      checkArgsPerlBrace pfx srcLoc (perlSigOf r) dstLoc (perlSigOf r') omittedOk = .ok tags ∧
      ∀ t, t ∈ tags ↔
        (∃ k, IsArgument s' k ∧ ¬ IsArgument s k ∧ t = perlUnknownTag pfx srcLoc dstLoc k) ∨
        (∃ k, IsArgument s k ∧ ¬ IsArgument s' k ∧ perlTolerated (perlSigOf r) (perlSigOf r') omittedOk = false ∧
          t = perlMissingTag pfx srcLoc dstLoc k) := by
  obtain ⟨r, hr, _, hargs⟩ := perlBraceParse_ok h
  obtain ⟨r', hr', _, hargs'⟩ := perlBraceParse_ok h'
  obtain ⟨tags, ht, hiff⟩ := perlbrace_args_tags_iff pfx srcLoc dstLoc omittedOk (perlSigOf r) (perlSigOf r')
  refine ⟨r, r', tags, hr, hr', ht, fun t => ?_⟩
  rw [hiff t]
  unfold Unknown Missing
  simp only [keys_perlNamed, hargs, hargs', and_assoc]

open I18n.Spec.PerlBraceRef in
/-- perl-brace: the tolerated omission, on strings: the caller allows it and exactly one placeholder identifier of the source is
    not a placeholder of the translation -/
theorem perlbrace_tolerated_iff_strings {s s' : List Char} (h : WellFormed s) (h' : WellFormed s') (omittedOk : Bool) :
    ∃ r r', PerlBrace.parse s = .ok r ∧ PerlBrace.parse s' = .ok r' ∧
      (perlTolerated (perlSigOf r) (perlSigOf r') omittedOk = true ↔
        omittedOk = true ∧ ∃ k, (IsArgument s k ∧ ¬ IsArgument s' k) ∧ ∀ k', IsArgument s k' ∧ ¬ IsArgument s' k' → k' = k) := by
  obtain ⟨r, hr, _, hargs⟩ := perlBraceParse_ok h
  obtain ⟨r', hr', _, hargs'⟩ := perlBraceParse_ok h'
  refine ⟨r, r', hr, hr', ?_⟩
  rw [perlbrace_tolerated_iff _ _ (perlSigOf_wf r)]
  unfold OnlyMissing Missing
  simp only [keys_perlNamed, hargs, hargs']

open I18n.Spec.PerlBraceRef in
/-- **perl-brace, `reorder_silent` on strings**: two well-formed strings with the same placeholder identifiers — in any order, any
    number of times — are never flagged. -/
theorem perlbrace_reorder_silent (pfx : Extra) (srcLoc dstLoc : List Char) (omittedOk : Bool) {s s' : List Char}
    (h : WellFormed s) (h' : WellFormed s') (hsame : ∀ w, IsArgument s w ↔ IsArgument s' w) :
    ∃ r r', PerlBrace.parse s = .ok r ∧ PerlBrace.parse s' = .ok r' ∧
      checkArgsPerlBrace pfx srcLoc (perlSigOf r) dstLoc (perlSigOf r') omittedOk = .ok [] := by
  obtain ⟨r, hr, _, hargs⟩ := perlBraceParse_ok h
  obtain ⟨r', hr', _, hargs'⟩ := perlBraceParse_ok h'
  refine ⟨r, r', hr, hr', perlbrace_same_signature_silent pfx srcLoc dstLoc omittedOk _ _ ?_⟩
  intro k
  rw [hargs, hargs', hsame]

open I18n.Spec.PerlBraceRef in
/-- **perl-brace, `reorder_silent` over RENDERED strings**: render any two item lists (literal runs without `{`, placeholders
    `{identifier}`) whose placeholders are a permutation of each other — whatever the literal text, wherever it stands: the
    renderings are accepted and nothing is flagged. -/
theorem perlbrace_reorder_silent_rendered (pfx : Extra) (srcLoc dstLoc : List Char) (omittedOk : Bool)
    {a b : List PerlBrace.Item} (ha : PerlClean a) (hb : PerlClean b)
    (hperm : (a.filter fun i => match i with | .field _ => true | _ => false).Perm
             (b.filter fun i => match i with | .field _ => true | _ => false)) :
    ∃ r r', PerlBrace.parse (PerlBrace.itemsText a) = .ok r ∧ PerlBrace.parse (PerlBrace.itemsText b) = .ok r' ∧
      checkArgsPerlBrace pfx srcLoc (perlSigOf r) dstLoc (perlSigOf r') omittedOk = .ok [] := by
  obtain ⟨wa, aa⟩ := perl_render_spec a ha
  obtain ⟨wb, ab⟩ := perl_render_spec b hb
  apply perlbrace_reorder_silent pfx srcLoc dstLoc omittedOk wa wb
  intro w
  rw [aa w, ab w]
  have := hperm.mem_iff (a := PerlBrace.Item.field w)
  simpa using this

open I18n.Spec.PerlBraceRef in
/-- **perl-brace, `invalid_msgstr_error` on strings**: a non-empty `msgstr` in which some `{` does not open a `{identifier}`
    placeholder is reported as `perl-brace-format-string-error`, and nothing else is reported. -/
theorem perlbrace_invalid_msgstr_error (ctx : Ctx) (msg : Msg (List Char)) (fl : Flags) (hdom : InDomain ctx fl)
    (hpl : msg.msgidPlural = none) (hforms : msg.msgstrPlural = []) (h0 : WellFormed msg.msgid)
    (hne : msg.msgstr ≠ []) (h1 : ¬ WellFormed msg.msgstr) :
    checkMessage perlBraceStrBackend ctx msg fl = .ok [⟨"perl-brace-format-string-error", [msg.pfx]⟩] := by
  obtain ⟨r, _, hp0, _⟩ := perlBraceParse_ok h0
  have ht : perlBraceStrBackend.truthy msg.msgstr = true := by
    show (!msg.msgstr.isEmpty) = true
    cases hm : msg.msgstr with
    | nil => exact absurd hm hne
    | cons _ _ => rfl
  have hp1 : perlBraceStrBackend.parse msg.msgstr = .own := (perlBraceParse_own_iff _).2 h1
  rw [invalid_msgstr_error perlBraceStrBackend ctx msg fl hdom hpl hforms _ hp0 ht hp1]
  rfl

/-- **perl-brace: no exception leaves `check_message`, for any context, flags and strings** -/
theorem perlbrace_check_message_nocrash_strings (ctx : Ctx) (msg : Msg (List Char)) (fl : Flags) :
    ∃ t, checkMessage perlBraceStrBackend ctx msg fl = .ok t := by
  apply checkMessage_total perlBraceStrBackend (fun _ => True)
  · intro pfx sl f dl g ok _ _
    exact ⟨_, checkArgsPerlBrace_eq pfx sl f dl g ok⟩
  · have hstr : ∀ s, StrOk perlBraceStrBackend (fun _ => True) s := fun s =>
      ⟨fun e => perlBraceParse_nocrash s e, fun _ _ => trivial⟩
    exact ⟨hstr _, fun s _ => hstr s, hstr _, fun p _ => hstr p.2⟩

/-! ## Non-vacuity -/

def pfx0 : Extra := .safe "msgid x:".toList

/-- a reordered translation with numbered references is silent; dropping or retyping is not -/
example : (match cParse "%s has %d files".toList, cParse "%2$d Dateien in %1$s".toList with
    | .ok a, .ok c => checkArgsC pfx0 "msgid".toList a "msgstr".toList c false
    | _, _ => .error .ValueError) = .ok [] := by rfl
example : (match cParse "%s has %d files".toList, cParse "%s".toList with
    | .ok a, .ok c => (checkArgsC pfx0 "msgid".toList a "msgstr".toList c false).map (fun (ts : List TagCall) => ts.map TagCall.name)
    | _, _ => .error .ValueError) = .ok ["c-format-string-missing-arguments"] := by rfl
example : (match cParse "%s has %d files".toList, cParse "%s has %s files".toList with
    | .ok a, .ok c => (checkArgsC pfx0 "msgid".toList a "msgstr".toList c false).map (fun (ts : List TagCall) => ts.map TagCall.name)
    | _, _ => .error .ValueError) = .ok ["c-format-string-argument-type-mismatch"] := by rfl
/-- the constructive reordering: `%s has %*d files` numbered is `%1$s`, `%3$*2$d`; any order of these is a permutation -/
example : (numberDirs 1 (dirs [.dir ⟨none, [], .none, .none, .std none 's'⟩, .lit " has ".toList,
      .dir ⟨none, [], .star none, .none, .std none 'd'⟩, .lit " files".toList])).map Directive.render =
    ["%1$s".toList, "%3$*2$d".toList] := by rfl
example : (dirs [Item.dir ⟨some ['3'], [], .star (some ['2']), .none, .std none 'd'⟩, .lit " Dateien in ".toList,
      .dir ⟨some ['1'], [], .none, .none, .std none 's'⟩]).Perm
    (numberDirs 1 (dirs [.dir ⟨none, [], .none, .none, .std none 's'⟩, .lit " has ".toList,
      .dir ⟨none, [], .star none, .none, .std none 'd'⟩, .lit " files".toList])) := List.Perm.swap _ _ _
/-- the omitted trailing `%d` is tolerated when the caller allows it, a trailing `%s` is not -/
example : (match cParse "%s: %d".toList, cParse "%s: one".toList with
    | .ok a, .ok c => checkArgsC pfx0 "msgid_plural".toList a "msgstr[0]".toList c true
    | _, _ => .error .ValueError) = .ok [] := by rfl
example : (match cParse "%d: %s".toList, cParse "one".toList with
    | .ok a, .ok c => (checkArgsC pfx0 "msgid_plural".toList a "msgstr[0]".toList c true).map (fun (ts : List TagCall) => ts.map TagCall.name)
    | _, _ => .error .ValueError) = .ok ["c-format-string-missing-arguments"] := by rfl
/-- `%*d`: the conversion with its `*` width is the last integer conversion for `n = 2`, not for `n = 1`… -/
example : (match cParse "%s %*d".toList with | .ok f => getLastIntConv f 2 | _ => .error .ValueError) = .ok (some 2) := by rfl
example : (match cParse "%s %*d".toList with | .ok f => getLastIntConv f 1 | _ => .error .ValueError) = .ok (some 2) := by rfl
example : (match cParse "%s %*d".toList with | .ok f => getLastIntConv f 3 | _ => .error .ValueError) = .ok none := by rfl
/-- python-brace: a numbered and a named argument both missing (the witness of fix 56d8ddf): two tags, no exception -/
example : (checkArgsPyBrace pfx0 "msgid".toList ⟨[(.idx 0, [⟨true, true, true⟩]), (.name "foo".toList, [⟨true, true, true⟩])], 3⟩
    "msgstr".toList ⟨[], 1⟩ false).map (fun (ts : List TagCall) => ts.map TagCall.name) =
    .ok ["python-brace-format-string-missing-argument", "python-brace-format-string-missing-argument"] := by rfl
/-- Python-%: named arguments in another order are silent; a renamed key gives one unknown and one missing argument -/
example : (match pyParse "%(n)d of %(name)s".toList, pyParse "%(name)s: %(n)d".toList with
    | .ok a, .ok c => checkArgsPython pfx0 "msgid".toList a "msgstr".toList c false
    | _, _ => .error .ValueError) = .ok [] := by rfl
example : (match pyParse "%(n)d of %(name)s".toList, pyParse "%(nom)s: %(n)d".toList with
    | .ok a, .ok c => (checkArgsPython pfx0 "msgid".toList a "msgstr".toList c false).map (fun (ts : List TagCall) => ts.map TagCall.name)
    | _, _ => .error .ValueError) = .ok ["python-format-string-unknown-argument", "python-format-string-missing-argument"] := by rfl
/-- the brace kinds on raw strings (the parser models of C13 run inside the kernel): reordered fields are silent, a retyped field
    and a renamed placeholder are flagged, the fix-56d8ddf witness gives two tags -/
example : (match pyBraceParse "{0} of {name}".toList, pyBraceParse "{name}: {0}".toList with
    | .ok a, .ok c => summarize (checkArgsPyBrace pfx0 "msgid".toList a "msgstr".toList c false)
    | _, _ => none) = some [] := by decide +kernel
example : (match pyBraceParse "{0} of {0:d} done".toList, pyBraceParse "{0:s} gotowe".toList with
    | .ok a, .ok c => summarize (checkArgsPyBrace pfx0 "msgid".toList a "msgstr".toList c false)
    | _, _ => none) = some [("python-brace-format-string-argument-type-mismatch", [])] := by decide +kernel
example : (match pyBraceParse "{0} {foo}".toList, pyBraceParse "x".toList with
    | .ok a, .ok c => summarize (checkArgsPyBrace pfx0 "msgid".toList a "msgstr".toList c false)
    | _, _ => none) =
    some [("python-brace-format-string-missing-argument", [0]), ("python-brace-format-string-missing-argument", [])] := by decide +kernel
example : (match perlBraceParse "{a} and {b}".toList, perlBraceParse "{b}, {c}".toList with
    | .ok a, .ok c => summarize (checkArgsPerlBrace pfx0 "msgid".toList a "msgstr".toList c false)
    | _, _ => none) =
    some [("perl-brace-format-string-unknown-argument", []), ("perl-brace-format-string-missing-argument", [])] := by decide +kernel
/-- rendering: `{0} of {name}` and its reordering `{name}: {0}` -/
example : renderPlain [.field "0".toList, .lit " of ".toList, .field "name".toList] = "{0} of {name}".toList := by rfl
example : (fieldNames [PlainItem.field "name".toList, .lit ": ".toList, .field "0".toList]).Perm
    (fieldNames [.field "0".toList, .lit " of ".toList, .field "name".toList]) := List.Perm.swap _ _ _
/-- the cascade -/
example : (pluralPlan cBackend none none 0 default [1]).srcLoc = "msgid".toList := by rfl
example : (pluralPlan cBackend none none 0 default [0, 7]).omittedOk = true := by rfl
example : (pluralPlan cBackend none none 0 default [1, 21, 31]).omittedOk = false := by rfl
example : OmissionPermitted [0, 7] := Or.inr ⟨7, rfl⟩
example : ¬ OmissionPermitted [1, 21, 31] := by unfold OmissionPermitted; simp

end I18n.Props.C14
