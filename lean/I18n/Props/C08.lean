import I18n.Lemmas.MoParse
import I18n.Lemmas.MoLayout
/-!
# C08 — every well-formed MO file decodes to exactly the catalog it encodes

Stated about `Mo.parse` (the line-by-line model of `lib/moparser.py`) against `Spec.Encodes`, the declarative
reading of the MO format, for every byte string and every codec database (text decoding is a parameter).

History: on the pinned tree the property was false (the two halves of `msgctxt EOT msgid` were bound the wrong way
round, lib/moparser.py:155); that was repaired by the `fix:` commit 8953e21 in /repo, the model follows the
repaired code, and the full-strength statement `parse_of_encodes` is now a theorem.  The 42-byte file that refuted
it is kept as a regression witness (`witness_parse`).
-/
namespace I18n.Props.C08
open I18n.Mo I18n.Mo.Spec

/-- **C08 as stated**: a byte string that is a legal layout of the (well-formed) catalog `cat` (any layout, either
    byte order, any placement/overlap/padding, any `encoding=` argument) loads to exactly `cat`, decoded in the
    charset its header entry names, in file order, with msgctxt, msgid, msgid_plural, msgstr / indexed forms and
    the hidden-strings flag. -/
theorem parse_of_encodes (db : CodecDB) (given : Option Bytes) (b : Bytes) (cat : List CatEntry) (hidden : Bool)
    (h : Encodes b cat hidden) (hwf : ∀ e ∈ cat, e.WF) :
    parse db given b = expected db given cat hidden :=
  parse_complete db given h hwf

/-! the regression witness: `msgctxt "c"  msgid "i"  msgstr "s"` in the plainest little-endian layout -/

def witnessFile : Bytes :=
  [0xDE, 0x12, 0x04, 0x95,  0, 0, 0, 0,  1, 0, 0, 0,  20, 0, 0, 0,  28, 0, 0, 0,   -- magic, revision 0, N = 1, O = 20, T = 28
   3, 0, 0, 0,  36, 0, 0, 0,                                                       -- key: length 3 at 36
   1, 0, 0, 0,  40, 0, 0, 0,                                                       -- value: length 1 at 40
   99, 4, 105, 0,  115, 0]                                                         -- "c" EOT "i" NUL  "s" NUL

def witnessCat : List CatEntry := [⟨some [99], [105], none, [[115]]⟩]

theorem witness_encodes : Encodes witnessFile witnessCat false := by
  refine ⟨false, 0, 0, 20, 28, ?_, WordAt_of_read1 (by rfl), by decide, by decide, WordAt_of_read1 (by rfl), rfl,
    WordAt_of_read1 (by rfl), WordAt_of_read1 (by rfl), ⟨?_, ?_, trivial⟩, trivial⟩
  · exact Slice.prefix_iff.2 ⟨witnessFile.drop 4, by rfl⟩
  · exact StringAt_of_readString .msgidNotTerminated (by rfl)
  · exact StringAt_of_readString .msgstrNotTerminated (by rfl)

theorem witness_wf : ∀ e ∈ witnessCat, e.WF := by
  intro e he
  simp only [witnessCat, List.mem_singleton] at he
  subst he
  exact {
    ctxt_clean := by intro c hc; cases hc; decide
    msgid_no_nul := by decide
    msgid_no_eot := by intro h; cases h
    plural_no_nul := by intro p hp; cases hp
    forms_no_nul := by intro f hf; simp at hf; subst hf; decide
    forms_ne := by decide
    singular_one := by intro _; rfl }

/-- the code returns msgctxt "c", msgid "i" (before the fix: the two exchanged) -/
theorem witness_parse :
    parse asciiDB none witnessFile = .ok ⟨[⟨['i'], some ['c'], .singular ['s']⟩], false⟩ := by rfl

theorem witness_expected :
    expected asciiDB none witnessCat false = .ok ⟨[⟨['i'], some ['c'], .singular ['s']⟩], false⟩ := by rfl

/-! ### the layout family -/

/-- **Every layout of the family is a legal file**: either byte order, major 0/1, any minor revision (with word 36
    when it is 1), arbitrary bytes after the five header words a reader needs (hash-table fields, sysdep fields, a
    hash table, …), the two descriptor tables in either order with arbitrary bytes between and after them, every
    string preceded by arbitrary padding, arbitrary trailer.  With `parse_of_encodes` this gives
    `parse (serialize cat l)` for every catalog and every such layout. -/
theorem serialize_encodes (cat : List CatEntry) (l : Layout) (hok : l.OK cat) :
    Encodes (serialize cat l) cat l.hidden :=
  serialize_encodes_aux cat l hok

/-- `forall catalogs c, forall layouts l: parse(serialize(c, l)) == c` -/
theorem parse_serialize (db : CodecDB) (given : Option Bytes) (cat : List CatEntry) (l : Layout)
    (hok : l.OK cat) (hwf : ∀ e ∈ cat, e.WF) :
    parse db given (serialize cat l) = expected db given cat l.hidden :=
  parse_complete db given (serialize_encodes cat l hok) hwf

/-- the witness file is the plainest layout of the witness catalog -/
theorem witness_is_serialized :
    serialize witnessCat ⟨false, 0, 0, 0, [], false, [], [], [], []⟩ = witnessFile := by decide

/-! ### the hidden-strings flag -/

/-- **C08, last sentence.**  A loaded file is flagged iff its minor revision is unknown (> 1) or it is 1 and the
    header announces system-dependent strings (word 36 > 0) … -/
theorem hidden_flag (db : CodecDB) (given : Option Bytes) (b : Bytes) (f : MoFile) (h : parse db given b = .ok f) :
    ∃ be rev, Slice b 0 (magicOf be) ∧ WordAt be b 4 rev ∧ HiddenFlag be b (rev % 65536) f.possibleHiddenStrings := by
  rcases parse_cases db given b with ⟨x, hx⟩ | hx | ⟨f', cat, hf, henc, _⟩
  · rw [hx] at h; cases h
  · rw [hx] at h; cases h
  · rw [hf] at h; cases h
    obtain ⟨be, major, minor, ko, to, hm, hrev, _, hmin, _, hh, _⟩ := henc
    refine ⟨be, major * 65536 + minor, hm, hrev, ?_⟩
    have : (major * 65536 + minor) % 65536 = minor := by omega
    rw [this]; exact hh

/-- … and a flagged binary file is never reported as `empty-file`. -/
theorem hidden_suppresses_empty_file (f : MoFile) (counted : Nat) (h : f.possibleHiddenStrings = true) :
    emptyFileTag true f counted = false := by
  simp [emptyFileTag, h]

theorem unflagged_empty_is_reported (f : MoFile) (h : f.possibleHiddenStrings = false) :
    emptyFileTag true f 0 = true := by
  simp [emptyFileTag, h]

/-! Non-vacuity -/

example : parse asciiDB none witnessFile ≠ .error (.syntax .magic) := by
  rw [witness_parse]; intro h; cases h

example : HiddenFlag false witnessFile 0 false := rfl

end I18n.Props.C08
