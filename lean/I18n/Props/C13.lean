import I18n.Lemmas.PerlBraceRe
import I18n.Lemmas.PyBraceOwn
import I18n.Lemmas.PyBraceFormat
import I18n.Lemmas.PyBraceQuirk
import I18n.Lemmas.PyBraceSpecRe
import I18n.Lemmas.PyBraceFieldRe
import I18n.Lemmas.PyBraceArgsExist
import I18n.Lemmas.PyBraceTables
/-!
# C13 — the brace-format parsers agree with the languages they model

`PerlBrace.parse` / `PyBrace.parse` are the models of `lib.strformat.perlbrace.FormatString` / `lib.strformat.pybrace.FormatString`
(tied to the code by the `perlbrace-*` / `pybrace-*` correspondence streams and the pins below).
`Spec.PerlBraceRef` is the declarative reference for perl-brace; `Spec.StrFormat` is the reference model of CPython's
`string.Formatter().parse` (`markup`, `parseOK`) and `str.format` (`format`), validated against the running interpreter by
the check on every run.  `Flat s`: no attribute/index part in a field name and no replacement field inside a format
specification; `Matches r a`: the arguments `a` have the positions, names and types `r` reports.
-/
namespace I18n.Props.C13
open I18n I18n.BraceChars I18n.Spec.PerlBraceRef I18n.Spec.StrFormat I18n.Spec.BraceRe
open I18n.Generated

/-! ## Pins: what the translator reads from the live modules and the interpreter -/

/-- the character classes of the models are plain membership in the interpreter's `\w` / `\d` tables (the tables are sorted;
    the models look them up with early exit), and `str.isdecimal` is `\d` -/
theorem classes_pin (c : Char) :
    (isWord c = true ↔ Word c) ∧ (isDigit c = true ↔ Digit c) ∧ (isIdStart c = true ↔ (Word c ∧ ¬ Digit c)) ∧
    PyBraceTables.decimalRanges = PyBraceTables.digitRanges :=
  ⟨isWord_iff c, isDigit_iff c, isIdStart_iff c, decimal_eq_digit⟩

/-- `SSIZE_MAX` is 2^31-1 (= CPython's `INT_MAX`, below its `PY_SSIZE_T_MAX`), `import lib` lifts the interpreter's digit
    limit, the classes the model raises are the modules' own `Error` classes, a nested field has every type -/
theorem constants_pin :
    PyBraceTables.SSIZE_MAX = 2 ^ 31 - 1 ∧ PyBraceTables.SSIZE_MAX = Spec.StrFormat.INT_MAX ∧ PyBraceTables.intMaxStrDigits = 0 ∧
    (∀ n ∈ ["Error", "ConversionError", "FormatError", "FormatTypeMismatch", "ArgumentNumberingMixture", "ArgumentRangeError",
      "ArgumentTypeMismatch"], n ∈ PyBraceTables.errorClasses) ∧
    PyBraceTables.perlErrorClasses = ["Error"] ∧ PyBraceTables.nestedFieldTypes = ["float", "int", "str"] := by
  refine ⟨by decide, by decide, by decide, by decide, by decide, by decide⟩

/-- the parse trees, flags and group numbers of `pybrace._field_re`, `_simple_field_re`, `_format_spec_re` and the
    printable-prefix patterns are the ones the scanners were written against -/
theorem regex_pin :
    (PyBraceTables.fieldRe = PyBrace.pinnedFieldRe ∧ PyBraceTables.fieldReFlags = 96) ∧
    (PyBraceTables.simpleFieldRe = PyBrace.pinnedSimpleFieldRe ∧ PyBraceTables.simpleFieldReFlags = 96) ∧
    (PyBraceTables.formatSpecRe = PyBrace.pinnedFormatSpecRe ∧ PyBraceTables.formatSpecReFlags = 96) ∧
    PyBraceTables.printablePrefixPattern = "[ -~]+" ∧ PyBraceTables.perlPrintablePrefixPattern = "[ -~]+" :=
  ⟨⟨PyBrace.fieldRe_pin.1, PyBrace.fieldRe_pin.2.1⟩, PyBrace.simpleFieldRe_pin, ⟨PyBrace.formatSpecRe_pin.1, PyBrace.formatSpecRe_pin.2.1⟩,
    PyBrace.printablePrefix_pin.1, PyBrace.printablePrefix_pin.2.1⟩

/-- the models evaluated by the kernel on the probes of the live modules (every type character, modifier x type,
    conversions, numerals around `SSIZE_MAX`; a few perl-brace strings) give the outcomes the live modules gave -/
theorem probes_pin :
    PyBraceTables.probeTable.all (fun p => PyBrace.probeCode (PyBrace.parse p.1) == p.2) = true ∧
    PyBraceTables.perlProbeTable.all (fun p => PyBrace.perlProbeCode (PerlBrace.parse p.1) == p.2) = true :=
  ⟨PyBrace.probeTable_pin, PyBrace.perlProbeTable_pin⟩

/-! ## perl-brace -/

/-- **The perl-brace parser accepts exactly the strings in which every `{` opens a `{identifier}` placeholder**
    (identifier = `[^\W\d]\w*` for the interpreter's tables) -/
theorem perl_iff (s : List Char) : (∃ r, PerlBrace.parse s = .ok r) ↔ WellFormed s := by
  have h := PerlBrace.loop_spec s.length s [] [] (Nat.le_refl _)
  constructor
  · rintro ⟨r, hr⟩
    by_cases hwf : WellFormed s
    · exact hwf
    · obtain ⟨p, hp⟩ := h.2 hwf
      simp only [PerlBrace.parse] at hr
      rw [hr] at hp; cases hp
  · intro hwf
    obtain ⟨r, hr, _⟩ := h.1 hwf
    exact ⟨r, hr⟩

/-- … **and reports exactly the set of those identifiers** (`arguments`), its items spell the input -/
theorem perl_names {s : List Char} {r : PerlBrace.Result} (h : PerlBrace.parse s = .ok r) :
    (∀ w, w ∈ r.arguments ↔ IsArgument s w) ∧ (r.items.map PerlBrace.Item.text).flatten = s := by
  have hs := PerlBrace.loop_spec s.length s [] [] (Nat.le_refl _)
  have hwf : WellFormed s := (perl_iff s).1 ⟨r, h⟩
  obtain ⟨r', hr', hn, hi⟩ := hs.1 hwf
  simp only [PerlBrace.parse] at h
  rw [h] at hr'; cases hr'
  refine ⟨fun w => ?_, by simpa [PerlBrace.itemsText] using hi⟩
  simp only [PerlBrace.Result.arguments, List.mem_eraseDups]
  simpa using hn w

/-- a rejected perl-brace string raises the module's `Error` (never the `AttributeError` of `_printable_prefix`, nor anything else) -/
theorem perl_error_own {s : List Char} {e : PerlBrace.PErr} (h : PerlBrace.parse s = .error e) : ∃ p, e = .error p := by
  have hs := PerlBrace.loop_spec s.length s [] [] (Nat.le_refl _)
  by_cases hwf : WellFormed s
  · obtain ⟨r, hr, _⟩ := hs.1 hwf
    simp only [PerlBrace.parse] at h
    rw [h] at hr; cases hr
  · obtain ⟨p, hp⟩ := hs.2 hwf
    simp only [PerlBrace.parse] at h
    rw [h] at hp; cases hp
    exact ⟨p, rfl⟩

/-- the scanner of the model IS the first match of the live parse tree of `perlbrace._field_re` under the backtracking
    semantics of the regex engine (alternatives in order, greedy repeats), end position and group spans included -/
theorem perl_regex (cs : List Char) (pos : Nat) :
    matchAt liveDB PyBraceTables.perlFieldRe cs pos =
      (PerlBrace.scanItem cs).map fun (it, rest) =>
        { rest := rest, pos := pos + it.text.length, caps := PerlBrace.itemCaps pos it } :=
  PerlBrace.matchAt_perlFieldRe cs pos

/-! ## python-brace -/

/-- **If the python-brace parser accepts a string then Python's own `str.format` parser accepts it** -/
theorem brace_accept_parses {s : List Char} {r : PyBrace.Result} (h : PyBrace.parse s = .ok r) : parseOK s :=
  PyBrace.parseWith_ok_parseOK _ s r h

/-- **Both raise only their own error type**: whatever the string, `FormatString(s)` returns or raises one of the module's
    `Error` classes (the `assert`s, `int()`'s `ValueError`, `_printable_prefix`'s `AttributeError` are unreachable) -/
theorem brace_error_own {s : List Char} {e : PyBrace.PErr} (h : PyBrace.parse s = .error e) : ∃ c a, e = .own c a := by
  have := PyBrace.parseWith_own (cfg := PyBrace.liveCfg) (by decide) s e h
  cases e with
  | own c a => exact ⟨c, a, rfl⟩
  | crash x => exact absurd this (by simp [PyBrace.PErr.isOwn])

/-- **A string rejected by Python's parser is rejected** (with one of the module's own errors) -/
theorem brace_reject {s : List Char} (h : ¬ parseOK s) : ∃ c a, PyBrace.parse s = .error (.own c a) := by
  cases hp : PyBrace.parse s with
  | ok r => exact absurd (brace_accept_parses hp) h
  | error e =>
    obtain ⟨c, a, rfl⟩ := brace_error_own hp
    exact ⟨c, a, rfl⟩

/-- the python-brace scanner IS the first match of the live parse tree of `pybrace._field_re` under the backtracking
    semantics of the regex engine, for every string and start position: a maximal run of literal text (`[^{}]`, `{{`, `}}`;
    group `literal`), else a replacement field `{ name? conversion? format? }` with the spans of the groups `name`,
    `conversion`, `format` (`fieldCaps`), else no match.  Likewise `_simple_field_re` (a nested field) is `scanSimple`.
    A change of either pattern changes the generated term and breaks the proof in the kernel. -/
theorem field_regex (cs : List Char) (pos : Nat) :
    matchAt liveDB PyBraceTables.fieldRe cs pos =
      (match PyBrace.scanLiteral cs.length cs with
       | (t :: ts, rest) => some ⟨rest, pos + (t :: ts).length, [(1, pos, pos + (t :: ts).length)]⟩
       | ([], _) => (PyBrace.scanField cs).map (fun p => ⟨p.2, pos + p.1.text.length, PyBrace.fieldCaps pos p.1⟩)) ∧
    matchAt liveDB PyBraceTables.simpleFieldRe cs pos =
      (PyBrace.scanSimple cs).map (fun p => ⟨p.2, pos + p.1.length + 2, []⟩) :=
  ⟨PyBrace.matchAt_fieldRe cs pos, PyBrace.matchAt_simpleFieldRe cs pos⟩

/-- the model's reading of a format specification IS the first match of the live parse tree of `_format_spec_re` under the
    backtracking semantics: `T2` is the chain of the stage functions of `scanSpec` (fill/align, sign, `#`, `0`, width, `,`,
    precision, type, end) with positions and group captures, and `_format_spec_re.match(spec)` succeeds iff `scanSpec` does -/
theorem spec_regex (cs : List Char) :
    matchAt liveDB PyBraceTables.formatSpecRe cs 0 = PyBrace.T2 ⟨cs, 0, []⟩ ∧
    (matchAt liveDB PyBraceTables.formatSpecRe cs 0).isSome = (PyBrace.scanSpec cs).isSome :=
  ⟨PyBrace.matchAt_formatSpecRe cs, PyBrace.formatSpecRe_accepts cs⟩

/-- **For strings without nested or compound fields `str.format` succeeds when given arguments with the reported
    positions, names and types** — proved for the strings none of whose fields has one of the two typing gaps
    (`,` with `b c o x X`; a sign or `#` with `c`), see `flat_formats_refuted` -/
theorem flat_formats_partial {s : List Char} {r : PyBrace.Result} {a : Args} (h : PyBrace.parse s = .ok r)
    (hflat : PyBrace.Flat s) (hq : PyBrace.QuirkFree s) (hm : PyBrace.Matches r a) : format s a = .ok () :=
  PyBrace.parseWith_flat_formats (cfg := PyBrace.liveCfg) (by decide) s r a h hflat hq hm

/-- `Matches` is never vacuous: every accepted string has arguments of the reported positions, names and types (the keys of
    `argument_map` are distinct, every key has entries, the entries of a key carry one non-empty type set) -/
theorem matches_exists {s : List Char} {r : PyBrace.Result} (h : PyBrace.parse s = .ok r) : ∃ a, PyBrace.Matches r a :=
  PyBrace.parseWith_matches_exists s r h

/-- the restriction of `flat_formats_partial` is exact: an accepted flat string one of whose fields has one of the two
    typing gaps cannot be formatted by `str.format`, whatever the arguments (so for accepted flat strings that have
    arguments of the reported shape at all, "formats with every such argument object" holds iff `QuirkFree`) -/
theorem quirk_rejected {s : List Char} {r : PyBrace.Result} (h : PyBrace.parse s = .ok r) (_hflat : PyBrace.Flat s)
    (hq : ¬ PyBrace.QuirkFree s) (a : Args) : format s a ≠ .ok () :=
  PyBrace.parseWith_quirk_rejected (cfg := PyBrace.liveCfg) (by decide) s r h hq a

/-- `{:,x}` is accepted with the single argument 0 of type `int` … -/
theorem witness_accepted :
    PyBrace.parse "{:,x}".toList = .ok { items := [.field ⟨false, true, false⟩],
                                         argMap := [(.idx 0, [{ nested := false, types := ⟨false, true, false⟩ }])] } := by rfl

/-- … it is flat … -/
theorem witness_flat : PyBrace.Flat "{:,x}".toList := by
  intro chunks hm f hf
  have : markup "{:,x}".toList = .ok [{ literal := [], field := some { name := [], spec := ",x".toList, conversion := none, needsExpanding := false } }] := by rfl
  rw [this] at hm
  cases hm
  simp only [PyBrace.fieldsOf, List.filterMap_cons, List.filterMap_nil, List.mem_singleton] at hf
  subst hf
  rfl

/-- … and `str.format` rejects it whatever the type of the argument ("Cannot specify ',' with 'x'.") -/
theorem witness_rejected (v : Val) : format "{:,x}".toList { pos := [v], kw := [] } = .error (.spec .thousandsWithType) := by
  cases v <;> rfl

/-- **The formatting clause is false as stated** on the current tree: the parser accepts `{:,x}` (likewise `{:,b}`, `{:,o}`,
    `{:,X}`, `{:,c}`, `{:+c}`, `{:#c}`) with type `int`, and `str.format` fails for an `int` (for every type, in fact) -/
theorem flat_formats_refuted :
    ¬ ∀ (s : List Char) (r : PyBrace.Result) (a : Args), PyBrace.parse s = .ok r → PyBrace.Flat s → PyBrace.Matches r a →
        format s a = .ok () := by
  intro h
  have := h _ _ { pos := [.int 65], kw := [] } witness_accepted witness_flat (by
    intro k as hk
    simp only [List.mem_singleton, Prod.mk.injEq] at hk
    obtain ⟨rfl, rfl⟩ := hk
    exact ⟨.int 65, rfl, by simp [PyBrace.hasType], by simp [PyBrace.chrOK]⟩)
  rw [witness_rejected] at this
  cases this

/-! ## Non-vacuity -/

example : PerlBrace.parse "Hello {name}, {n_1} files".toList =
    .ok { items := [.lit "Hello ".toList, .field "name".toList, .lit ", ".toList, .field "n_1".toList, .lit " files".toList],
          names := ["name".toList, "n_1".toList] } := by rfl
example : PerlBrace.parse "{1a}".toList = .error (.error "{1a}".toList) := by rfl
example : PerlBrace.parse "a{b".toList = .error (.error "{b".toList) := by rfl
example : PerlBrace.parse "}{é}}".toList = .ok { items := [.lit "}".toList, .field "é".toList, .lit "}".toList], names := ["é".toList] } := by rfl
example : WellFormed "x{a}{b_2}".toList := (perl_iff _).1 ⟨_, rfl⟩
example : ¬ WellFormed "{{a}}".toList := fun h => by
  obtain ⟨r, hr⟩ := (perl_iff _).2 h
  have : PerlBrace.parse "{{a}}".toList = .error (.error "{{a}}".toList) := by rfl
  rw [this] at hr; cases hr

example : PyBrace.parse "{0:d} of {total!r:>10}{{}}".toList =
    .ok { items := [.field ⟨false, true, false⟩, .lit " of ".toList, .field ⟨true, true, true⟩, .lit "{{}}".toList],
          argMap := [(.idx 0, [{ nested := false, types := ⟨false, true, false⟩ }]),
                     (.name "total".toList, [{ nested := false, types := ⟨true, true, true⟩ }])] } := by rfl
example : PyBrace.parse "{}{0}".toList = .error (.own .ArgumentNumberingMixture (.text "{0}".toList)) := by rfl
example : PyBrace.parse "{0:d}{0:s}".toList = .error (.own .ArgumentTypeMismatch (.text "{0:d}{0:s}".toList)) := by rfl
example : PyBrace.parse "{2147483648}".toList = .error (.own .ArgumentRangeError (.text "{2147483648}".toList)) := by rfl
example : PyBrace.parse "{:{}{}}".toList =
    .ok { items := [.field ⟨true, true, true⟩],
          argMap := [(.idx 0, [{ nested := false, types := ⟨true, true, true⟩ }]), (.idx 1, [{ nested := true, types := ⟨true, true, true⟩ }]),
                     (.idx 2, [{ nested := true, types := ⟨true, true, true⟩ }])] } := by rfl
example : PyBrace.parse "{:{0[}]}}".toList = .error (.own .Error (.text "{:{0[}]}}".toList)) := by rfl
example : PyBrace.parse "{²}".toList =
    .ok { items := [.field ⟨true, true, true⟩], argMap := [(.name "²".toList, [{ nested := false, types := ⟨true, true, true⟩ }])] } := by rfl
example : PyBrace.parse "{:x".toList = .error (.own .Error (.text "{:x".toList)) := by rfl
example : PyBrace.parse "{!x}".toList = .error (.own .ConversionError (.text "{!x}".toList)) := by rfl
example : PyBrace.parse "{!r:d}".toList = .error (.own .FormatTypeMismatch (.text "{!r:d}".toList)) := by rfl
example : parseOK "{0:d} of {total!r:>10}{{}}".toList := brace_accept_parses (r := _) rfl
example : ¬ parseOK "{:{0[}]}}".toList := by
  rintro ⟨chunks, h⟩
  have : markup "{:{0[}]}}".toList = .error .singleClose := by rfl
  rw [this] at h; cases h
example : format "{0:d} of {total!r:>10}{{}}".toList { pos := [.int 3], kw := [("total".toList, .float)] } = .ok () := by rfl
example : format "{:d}".toList { pos := [.str], kw := [] } = .error (.spec .unknownCode) := by rfl
example : format "{}{0}".toList { pos := [.str], kw := [] } = .error .autoToManual := by rfl

/-- `flat_formats_partial` is not vacuous: its hypotheses hold for a concrete accepted string and concrete arguments
    (an `int` for position 0, a `float` for the name `total`) -/
example : format "{0:d} of {total!r:>10}".toList { pos := [.int 3], kw := [("total".toList, .float)] } = .ok () := by
  have hmk : markup "{0:d} of {total!r:>10}".toList = .ok
      [{ literal := [], field := some { name := "0".toList, spec := "d".toList, conversion := none, needsExpanding := false } },
       { literal := " of ".toList, field := some { name := "total".toList, spec := ">10".toList, conversion := some 'r', needsExpanding := false } }] := by rfl
  have hp : PyBrace.parse "{0:d} of {total!r:>10}".toList = .ok ⟨[.field ⟨false, true, false⟩, .lit " of ".toList, .field ⟨true, true, true⟩], [(.idx 0, [⟨false, ⟨false, true, false⟩⟩]), (.name "total".toList, [⟨false, ⟨true, true, true⟩⟩])]⟩ := by rfl
  refine flat_formats_partial hp ?_ ?_ ?_
  · intro chunks hm f hf
    rw [hmk] at hm; cases hm
    simp only [PyBrace.fieldsOf, List.filterMap_cons, List.filterMap_nil, List.mem_cons, List.not_mem_nil, or_false] at hf
    rcases hf with rfl | rfl <;> rfl
  · intro chunks hm f hf
    rw [hmk] at hm; cases hm
    simp only [PyBrace.fieldsOf, List.filterMap_cons, List.filterMap_nil, List.mem_cons, List.not_mem_nil, or_false] at hf
    rcases hf with rfl | rfl
    · intro sf hs
      have : PyBrace.scanSpec "d".toList = some ⟨none, none, none, false, false, none, false, none, some 'd'⟩ := by rfl
      rw [this] at hs; cases hs; rfl
    · intro sf hs
      have : PyBrace.scanSpec ">10".toList = some ⟨none, some '>', none, false, false, some "10".toList, false, none, none⟩ := by rfl
      rw [this] at hs; cases hs; rfl
  · intro k as hk
    simp only [List.mem_cons, Prod.mk.injEq, List.not_mem_nil, or_false] at hk
    rcases hk with ⟨rfl, rfl⟩ | ⟨rfl, rfl⟩
    · exact ⟨.int 3, rfl, by simp [PyBrace.hasType], by simp [PyBrace.chrOK]⟩
    · exact ⟨.float, rfl, by simp [PyBrace.hasType], trivial⟩

end I18n.Props.C13
