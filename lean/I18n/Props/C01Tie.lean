import I18n.Generated.CheckLoad
import I18n.Props.C01
/-!
# C01 — the tie: the control flow of `Checker.check` REGENERATED from `lib/check/__init__.py` is the model `Check.check`

`I18n.Generated.CheckLoad` is rewritten from the repository's current `lib/check/__init__.py` by `tools/translate/checkload2lean.py` on
every run: the method is executed symbolically (fall through / `return` / exception continuations; `os.stat`, the extension class and the
two loader calls are the points where the outside world decides; handlers are met by exception class; `finally` runs on every way out).
The theorem below proves the result equal, for ALL arguments, to the hand-written `Check.check` that `check_uncaught_iff`,
`pipeline_nocrash_unconditional` (C01), C03, C09's `checkerLoad` and C17's `whole_is_composition` rest on; `stage_order_pin` pins the order
in which the nine `check_*` methods are called.  The loader, `init` and the stages stay parameters (they are the component models).
-/
namespace I18n.Props.C01Tie
open I18n I18n.Check I18n.Generated

/-- `Checker.check` as regenerated = `Check.check` -/
theorem generated_check_eq_model {F σ τ : Type} (statOk : Bool) (ext : Ext) (load : Bool → Except LoadErr F) (init : F → Bool → σ)
    (stages : List (Stage σ τ)) :
    CheckLoad.check statOk ext load init stages = Check.check statOk ext load init stages := by
  unfold CheckLoad.check Check.check
  cases statOk <;> cases ext <;> simp only [Bool.not_true, Bool.not_false, if_true, if_false, Bool.false_eq_true, reduceCtorEq] <;>
    (cases load false with
     | ok f => rfl
     | error e =>
       cases e <;> simp only [] <;>
         (cases load true with
          | ok f => rfl
          | error e2 => cases e2 <;> rfl))

/-- the nine stages, in the order the model's callers list them -/
theorem stage_order_pin : CheckLoad.stageOrder =
    ["check_comments", "check_headers", "check_language", "check_plurals", "check_mime", "check_dates", "check_project",
     "check_translator", "check_messages"] := by decide

/-! ## headline corollaries, about the regenerated definition -/

/-- an exception leaves the regenerated `check` only through the loader (unhandled kind, or any failure of the retry that is not
    one of the three mapped ones) or through a stage -/
theorem generated_no_uncaught_of_handled {F σ τ : Type} (ext : Ext) (load : Bool → Except LoadErr F) (init : F → Bool → σ)
    (e : LoadErr) (h1 : load false = .error e) (he : e = .moSyntax ∨ e = .osErrno ∨ e = .poSyntax) :
    (CheckLoad.check (σ := σ) (τ := τ) true ext load init []).uncaught = false := by
  rw [generated_check_eq_model]
  unfold Check.check
  rcases he with rfl | rfl | rfl <;> cases ext <;> simp [h1]

/-- a missing file is one `os-error` line and no traceback -/
theorem generated_stat_failure {F σ τ : Type} (ext : Ext) (load : Bool → Except LoadErr F) (init : F → Bool → σ) (stages : List (Stage σ τ)) :
    (CheckLoad.check false ext load init stages).uncaught = false := by
  rw [generated_check_eq_model]; rfl

end I18n.Props.C01Tie
