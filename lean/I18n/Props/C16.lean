import I18n.Lemmas.MsgTags
import I18n.Lemmas.MsgFlagRules
import I18n.Lemmas.MsgLive
import I18n.Lemmas.MsgRangeCount
import I18n.Lemmas.MsgRegex
import I18n.Lemmas.MsgFormatDecl
import I18n.Lemmas.MsgFileLevel
import I18n.Spec.StringFormatsRef
/-
C16 — message-level diagnostics match their documented conditions.

`Msg.checkMessages` / `Msg.trace` is the statement-by-statement model of `Checker.check_messages` with its two accumulators
(`msgid_counter`, `found_unusual_characters`), of `_check_message_flags` and of the XML gate (Model/Msg.lean, Model/MsgFlags.lean);
`Spec.MessageRules` is the rule set of DESIGN Appendix B, one rule per tag, speaking about an entry and the entries before it.
The theorems hold for EVERY list of entries, every context (po / pot / MO, charset usable or not) and every environment
(Unicode tables, string-format table, expat oracle) that is `Sane` (no exception possible: proved for the live tables below).
-/
namespace I18n.Props.C16
open I18n I18n.Msg I18n.Tags
open I18n.Spec.MessageRules

/-! ## the imperative model equals the rule set -/

/-- MAIN: what `check_messages` emits — per entry of the file, in order, and for the file as a whole — is exactly the
    rule set, for all entry lists (induction over the list; the accumulators are invariant-carrying state). -/
theorem message_tags_eq {env : Env} (hs : Sane env) (ctx : Ctx) (file : List Entry) :
    trace env ctx file = messageRules env ctx file := trace_eq hs ctx file

/-- the same for the flat sequence of emissions -/
theorem check_messages_eq {env : Env} (hs : Sane env) (ctx : Ctx) (file : List Entry) :
    checkMessages env ctx file = (messageRules env ctx file).1.flatten ++ (messageRules env ctx file).2 := by
  simp [checkMessages, trace_eq hs]

/-- `_check_message_flags` returns the rule set's `info` and emits the rule set's flag tags (no side condition) -/
theorem message_flags_eq (env : FlagEnv) (e : Entry) : checkMessageFlags env e = (info env e, flagTags env e) :=
  checkMessageFlags_eq env e

/-- the file kinds of the statement -/
def ctxOf (pot : Bool) (charsetUsable : Bool) : Ctx := ⟨pot, false, false, charsetUsable⟩

theorem entriesFrom_append (env : Env) (ctx : Ctx) : ∀ (a p b : List Entry),
    entriesFrom env ctx p (a ++ b) = entriesFrom env ctx p a ++ entriesFrom env ctx (p ++ a) b
  | [], p, b => by simp [entriesFrom]
  | x :: a, p, b => by simp [entriesFrom, entriesFrom_append env ctx a (p ++ [x]) b]

theorem entriesFrom_length (env : Env) (ctx : Ctx) : ∀ (a p : List Entry), (entriesFrom env ctx p a).length = a.length
  | [], _ => rfl
  | _ :: a, p => by simp [entriesFrom, entriesFrom_length env ctx a]

/-- what the model emits while the loop is at entry `e` (preceded by `pre`) is `entryTags env ctx pre e` -/
theorem trace_at {env : Env} (hs : Sane env) (ctx : Ctx) (pre post : List Entry) (e : Entry) :
    (trace env ctx (pre ++ e :: post)).1[pre.length]? = some (entryTags env ctx pre e) := by
  rw [trace_eq hs]
  simp only [messageRules]
  rw [entriesFrom_append]
  rw [List.getElem?_append_right (by simp [entriesFrom_length])]
  simp [entriesFrom_length, entriesFrom]

/-! ## one theorem per tag (read off the rule set; with `trace_at` they speak about the model) -/

/-- which tags an entry gets, as one Boolean formula -/
theorem has_entryTags (env : Env) (ctx : Ctx) (pre : List Entry) (e : Entry) (t : MTag) :
    has t (entryTags env ctx pre e) =
      (isMessage e &&
        (has t (flagTags env.flag e) || has t (xmlTags env ctx e)
          || (decide (earlierSame pre e = 1) && decide (MTag.duplicateMessageDefinition = t))
          || (ctx.isTemplate && hasTranslation e && decide (MTag.translationInTemplate = t))
          || ((e.prevMsgctxt.isSome || e.prevMsgid.isSome || e.prevMsgidPlural.isSome) && !fuzzy e
                && decide (MTag.strayPreviousMsgid = t))
          || (((considered e).any fun s => leadingLf s != leadingLf e.msgid) && decide (MTag.inconsistentLeadingNewlines = t))
          || (((considered e).any fun s => trailingLf s != trailingLf e.msgid) && decide (MTag.inconsistentTrailingNewlines = t))
          || (ctx.hasEncoding && has t (unusualTags env pre e [] (translations e)))
          || (!fuzzy e && (((firstMarker env e).isSome && decide (MTag.conflictMarkerInTranslation = t))
                || (someForm e && e.forms.any (· = []) && decide (MTag.partiallyTranslatedMessage = t)))))) := by
  unfold entryTags
  cases hm : isMessage e
  · simp
  · cases hf : fuzzy e <;> cases he : ctx.hasEncoding <;>
      simp [has_dispatch, has_markerTag, Bool.or_assoc]

/-- `duplicate-message-definition` ⇔ the entry is a message and exactly one earlier message has its msgid and msgctxt
    (it is the SECOND definition) -/
theorem duplicate_message_definition_iff (env : Env) (ctx : Ctx) (pre : List Entry) (e : Entry) :
    has .duplicateMessageDefinition (entryTags env ctx pre e) = true ↔ isMessage e = true ∧ earlierSame pre e = 1 := by
  rw [has_entryTags]
  simp [has_flagTags_false env.flag e .duplicateMessageDefinition (by decide),
    has_xmlTags env ctx e .duplicateMessageDefinition (by decide),
    has_unusualTags env pre e .duplicateMessageDefinition (by decide)]

/-- `translation-in-template` ⇔ POT and the message has a non-empty msgstr or a non-empty form -/
theorem translation_in_template_iff (env : Env) (ctx : Ctx) (pre : List Entry) (e : Entry) :
    has .translationInTemplate (entryTags env ctx pre e) = true ↔
      isMessage e = true ∧ ctx.isTemplate = true ∧ (e.hasMsgstr = true ∨ ∃ s ∈ e.forms, s ≠ []) := by
  rw [has_entryTags]
  simp [has_flagTags_false env.flag e .translationInTemplate (by decide),
    has_xmlTags env ctx e .translationInTemplate (by decide),
    has_unusualTags env pre e .translationInTemplate (by decide), hasTranslation, someForm]

/-- `stray-previous-msgid` ⇔ some `#|` annotation is present and the message is not fuzzy -/
theorem stray_previous_msgid_iff (env : Env) (ctx : Ctx) (pre : List Entry) (e : Entry) :
    has .strayPreviousMsgid (entryTags env ctx pre e) = true ↔
      isMessage e = true ∧ (e.prevMsgctxt.isSome ∨ e.prevMsgid.isSome ∨ e.prevMsgidPlural.isSome) ∧ lit "fuzzy" ∉ e.flags := by
  rw [has_entryTags]
  simp [has_flagTags_false env.flag e .strayPreviousMsgid (by decide),
    has_xmlTags env ctx e .strayPreviousMsgid (by decide),
    has_unusualTags env pre e .strayPreviousMsgid (by decide), fuzzy, or_assoc]

/-- `inconsistent-leading-newlines` ⇔ some considered string disagrees with the msgid on a leading newline -/
theorem inconsistent_leading_newlines_iff (env : Env) (ctx : Ctx) (pre : List Entry) (e : Entry) :
    has .inconsistentLeadingNewlines (entryTags env ctx pre e) = true ↔
      isMessage e = true ∧ ∃ s ∈ considered e, leadingLf s ≠ leadingLf e.msgid := by
  rw [has_entryTags]
  simp [has_flagTags_false env.flag e .inconsistentLeadingNewlines (by decide),
    has_xmlTags env ctx e .inconsistentLeadingNewlines (by decide),
    has_unusualTags env pre e .inconsistentLeadingNewlines (by decide)]

/-- `inconsistent-trailing-newlines` ⇔ some considered string disagrees with the msgid on a trailing newline -/
theorem inconsistent_trailing_newlines_iff (env : Env) (ctx : Ctx) (pre : List Entry) (e : Entry) :
    has .inconsistentTrailingNewlines (entryTags env ctx pre e) = true ↔
      isMessage e = true ∧ ∃ s ∈ considered e, trailingLf s ≠ trailingLf e.msgid := by
  rw [has_entryTags]
  simp [has_flagTags_false env.flag e .inconsistentTrailingNewlines (by decide),
    has_xmlTags env ctx e .inconsistentTrailingNewlines (by decide),
    has_unusualTags env pre e .inconsistentTrailingNewlines (by decide)]

/-- the considered strings: msgid_plural always; msgstr and the forms only when not fuzzy, msgstr only if non-empty, the
    forms (all of them) only if one is non-empty -/
theorem considered_mem (e : Entry) (s : Str) :
    s ∈ considered e ↔
      e.msgidPlural = some s ∨
      (lit "fuzzy" ∉ e.flags ∧ ((e.msgstr = some s ∧ s ≠ []) ∨ (s ∈ e.forms ∧ ∃ f ∈ e.forms, f ≠ []))) := by
  cases hp : e.msgidPlural <;> cases hf : fuzzy e <;> cases hm : e.msgstr <;>
    simp_all [considered, Entry.pluralList, Entry.msgstrList, Entry.hasMsgstr, someForm, fuzzy]
  all_goals grind

/-- `partially-translated-message` ⇔ not fuzzy, and some but not all plural forms are empty -/
theorem partially_translated_message_iff (env : Env) (ctx : Ctx) (pre : List Entry) (e : Entry) :
    has .partiallyTranslatedMessage (entryTags env ctx pre e) = true ↔
      isMessage e = true ∧ lit "fuzzy" ∉ e.flags ∧ (∃ s ∈ e.forms, s ≠ []) ∧ (∃ s ∈ e.forms, s = []) := by
  rw [has_entryTags]
  simp [has_flagTags_false env.flag e .partiallyTranslatedMessage (by decide),
    has_xmlTags env ctx e .partiallyTranslatedMessage (by decide),
    has_unusualTags env pre e .partiallyTranslatedMessage (by decide), fuzzy, someForm]

/-- `conflict-marker-in-translation` ⇔ not fuzzy, and some translation string contains a marker line -/
theorem conflict_marker_in_translation_iff (env : Env) (ctx : Ctx) (pre : List Entry) (e : Entry) :
    has .conflictMarkerInTranslation (entryTags env ctx pre e) = true ↔
      isMessage e = true ∧ lit "fuzzy" ∉ e.flags ∧ ∃ s ∈ translations e, (env.searchMarker s).isSome := by
  rw [has_entryTags]
  simp [has_flagTags_false env.flag e .conflictMarkerInTranslation (by decide),
    has_xmlTags env ctx e .conflictMarkerInTranslation (by decide),
    has_unusualTags env pre e .conflictMarkerInTranslation (by decide), fuzzy, firstMarker, List.findSome?_isSome_iff]

/-- `empty-file` ⇔ the file has no message (and, for MO files, hidden strings are not possible) -/
theorem empty_file_iff (ctx : Ctx) (file : List Entry) :
    fileTags ctx file = [.tag .emptyFile []] ↔
      (∀ e ∈ file, isMessage e = false) ∧ ¬(ctx.isBinary = true ∧ ctx.possibleHiddenStrings = true) := by
  simp only [fileTags, rule]
  cases hb : ctx.isBinary <;> cases hh : ctx.possibleHiddenStrings <;> cases ha : file.any isMessage <;> simp_all

/-- for PO and POT files: `empty-file` ⇔ there is no non-obsolete, non-header entry; nothing else is ever file-level -/
theorem empty_file_po_iff (pot enc : Bool) (file : List Entry) :
    fileTags (ctxOf pot enc) file = (if ∀ e ∈ file, isMessage e = false then [.tag .emptyFile []] else []) := by
  simp only [fileTags, rule, ctxOf]
  cases ha : file.any isMessage <;> simp_all

/-! ### unusual characters -/

/-- an unexplained unusual character of an earlier message's translation -/
theorem mem_seenBefore (env : Env) (pre : List Entry) (c : Nat) :
    c ∈ seenBefore env pre ↔
      ∃ m ∈ pre, isMessage m = true ∧ ∃ s ∈ translations m, c ∈ env.findUnusual s ∧ c ∉ explained env m := by
  simp [seenBefore, unexplained]
  constructor
  · rintro ⟨m, ⟨h1, h2⟩, s, h3, h4, h5⟩; exact ⟨m, h1, h2, s, h3, h4, h5⟩
  · rintro ⟨m, h1, h2, s, h3, h4, h5⟩; exact ⟨m, ⟨h1, h2⟩, s, h3, h4, h5⟩

/-- what is reported for a translation string: its unusual characters that neither the msgid / msgid_plural explain nor an
    earlier translation string of this file (an earlier message's, or an earlier one of this message) contains unexplained -/
theorem mem_reported (env : Env) (pre : List Entry) (e : Entry) (done : List Str) (s : Str) (c : Nat) :
    c ∈ reported env pre e done s ↔
      c ∈ env.findUnusual s ∧ c ∉ explained env e ∧ c ∉ seenBefore env pre ∧
        ¬∃ s' ∈ done, c ∈ env.findUnusual s' ∧ c ∉ explained env e := by
  simp [reported, unexplained]
  grind

/-- the reported list is sorted and duplicate-free -/
theorem reported_sorted (env : Env) (pre : List Entry) (e : Entry) (done : List Str) (s : Str) :
    (reported env pre e done s).Pairwise (· < ·) := by
  have := pairwise_toSorted natLt_total
    ((unexplained env e s).filter fun c => !(seenBefore env pre).contains c && !(done.flatMap (unexplained env e)).contains c)
  simpa [reported, natLt] using this

/-- the `unusual-character-in-translation` calls of a message: one per translation string that brings a new character, in
    order, naming exactly the new characters -/
theorem mem_unusualTags {env : Env} (hs : Sane env) (pre : List Entry) (e : Entry) (x : Emit) :
    ∀ (rest done : List Str), x ∈ unusualTags env pre e done rest ↔
      ∃ d s r names, rest = d ++ s :: r ∧ reported env pre e (done ++ d) s ≠ [] ∧
        ucNames env.charName (reported env pre e (done ++ d) s) = some names ∧
        x = tagR env.flag.db e tplColon .unusualCharacterInTranslation [.safe names]
  | [], done => by simp [unusualTags]
  | s :: rest, done => by
    have ih := mem_unusualTags hs pre e x rest (done ++ [s])
    simp only [unusualTags, List.mem_append, ih]
    constructor
    · rintro (h | ⟨d, s', r, names, h1, h2, h3, h4⟩)
      · split at h
        · simp at h
        · rename_i hne
          simp only [unusualTag] at h
          split at h
          · rename_i names hn
            exact ⟨[], s, rest, names, by simp, by simpa using hne, by simpa using hn, by simpa using h⟩
          · simp at h
      · exact ⟨s :: d, s', r, names, by simp [h1], by simpa using h2, by simpa using h3, h4⟩
    · rintro ⟨d, s', r, names, h1, h2, h3, h4⟩
      cases d with
      | nil =>
        simp only [List.nil_append, List.cons.injEq] at h1
        obtain ⟨rfl, rfl⟩ := h1
        left
        simp only [List.append_nil] at h2 h3
        have : (reported env pre e done s).isEmpty = false := by simpa using h2
        simp [this, unusualTag, h3, h4]
      | cons a d =>
        simp only [List.cons_append, List.cons.injEq] at h1
        obtain ⟨rfl, rfl⟩ := h1
        right
        exact ⟨d, s', r, names, rfl, by simpa using h2, by simpa using h3, h4⟩

/-- `unusual-character-in-translation` ⇔ a charset is usable and some translation string has an unusual character that
    is not explained by the msgid and was not reported earlier in this file (NOT gated by fuzzy) -/
theorem unusual_character_in_translation_iff {env : Env} (hs : Sane env) (ctx : Ctx) (pre : List Entry) (e : Entry) :
    has .unusualCharacterInTranslation (entryTags env ctx pre e) = true ↔
      isMessage e = true ∧ ctx.hasEncoding = true ∧
        ∃ d s r, translations e = d ++ s :: r ∧ reported env pre e d s ≠ [] := by
  rw [has_entryTags]
  simp only [has_flagTags_false env.flag e .unusualCharacterInTranslation (by decide),
    has_xmlTags env ctx e .unusualCharacterInTranslation (by decide)]
  have key : has .unusualCharacterInTranslation (unusualTags env pre e [] (translations e)) = true ↔
      ∃ d s r, translations e = d ++ s :: r ∧ reported env pre e d s ≠ [] := by
    simp only [has, List.any_eq_true]
    constructor
    · rintro ⟨x, hx, _⟩
      obtain ⟨d, s, r, names, h1, h2, _, _⟩ := (mem_unusualTags hs pre e x _ _).mp hx
      exact ⟨d, s, r, h1, by simpa using h2⟩
    · rintro ⟨d, s, r, h1, h2⟩
      have hall : ∀ c ∈ reported env pre e d s, (env.charName c).isSome := by
        intro c hc
        exact hs.names s c ((mem_reported env pre e d s c).mp hc).1
      obtain ⟨names, hn⟩ := Option.isSome_iff_exists.mp (ucNames_isSome env.charName _ hall)
      refine ⟨_, (mem_unusualTags hs pre e _ _ _).mpr ⟨d, s, r, names, h1, by simpa using h2, by simpa using hn, rfl⟩, ?_⟩
      simp
  simp [key]

/-! ### flags -/

/-- the flag tags of an entry are those of its flag list -/
theorem has_flag_tag (env : Env) (ctx : Ctx) (pre : List Entry) (e : Entry) (t : MTag) (ht : t ∈ MTag.ofCheckMessageFlags) :
    has t (entryTags env ctx pre e) = (isMessage e && has t (flagTags env.flag e)) := by
  rw [has_entryTags]
  have h1 : t ≠ .malformedXml := by rintro rfl; revert ht; decide
  have h2 : t ≠ .unusualCharacterInTranslation := by rintro rfl; revert ht; decide
  rw [has_xmlTags env ctx e t h1, has_unusualTags env pre e t h2]
  cases hm : isMessage e
  · simp
  · have : ∀ t' : MTag, t' ∉ MTag.ofCheckMessageFlags → decide (t' = t) = false := by
      intro t' h'; simp; rintro rfl; exact h' ht
    simp [this .duplicateMessageDefinition (by decide), this .translationInTemplate (by decide),
      this .strayPreviousMsgid (by decide), this .inconsistentLeadingNewlines (by decide),
      this .inconsistentTrailingNewlines (by decide), this .conflictMarkerInTranslation (by decide),
      this .partiallyTranslatedMessage (by decide)]

/-- `unknown-message-flag` ⇔ some flag is none of `fuzzy`, `wrap`, `no-wrap`, `markdown-text`, a `range:` flag, or
    `[no-|possible-|impossible-]<fmt>-format` with `<fmt>` in data/string-formats -/
theorem unknown_message_flag_iff (env : FlagEnv) (e : Entry) :
    has .unknownMessageFlag (flagTags env e) = true ↔ ∃ f ∈ e.flags, flagKind env f = .unknown := by
  rw [has_flagTags_perFlag env e _ (by decide) (by decide) (by decide)]
  simp [has_unknown_perFlag]

/-- `invalid-range-flag` ⇔ some `range:` flag is not `<int>..<int>` with min < max -/
theorem invalid_range_flag_iff (env : FlagEnv) (e : Entry) :
    has .invalidRangeFlag (flagTags env e) = true ↔ ∃ f ∈ e.flags, flagKind env f = .range none := by
  rw [has_flagTags_perFlag env e _ (by decide) (by decide) (by decide)]
  simp [has_invalidRange_perFlag]

/-- `range-flag-without-plural-string` ⇔ a `range:` flag (valid or not) on a message without msgid_plural -/
theorem range_flag_without_plural_string_iff (env : FlagEnv) (e : Entry) :
    has .rangeFlagWithoutPluralString (flagTags env e) = true ↔
      e.msgidPlural = none ∧ ∃ f ∈ e.flags, (flagKind env f).isRange = true := by
  rw [has_flagTags_perFlag env e _ (by decide) (by decide) (by decide)]
  simp [has_rangeWithoutPlural_perFlag]
  constructor
  · rintro ⟨f, hf, hp, hr⟩; exact ⟨hp, f, hf, hr⟩
  · rintro ⟨hp, f, hf, hr⟩; exact ⟨f, hf, hp, hr⟩

/-- `redundant-message-flag` ⇔ the same format is flagged both positively (`<fmt>-format`) and `possible-` -/
theorem redundant_message_flag_iff {env : Env} (hs : Sane env) (e : Entry) :
    has .redundantMessageFlag (flagTags env.flag e) = true ↔
      ∃ fmt, (∃ f ∈ e.flags, flagKind env.flag f = .format [] fmt) ∧
             (∃ f ∈ e.flags, flagKind env.flag f = .format (lit "possible") fmt) := by
  simp only [flagTags, has_append, has_rangeTail_false env.flag e _ .redundantMessageFlag (by decide) (by decide),
    has_positivePairs_false env.flag e _ .redundantMessageFlag (by decide),
    has_conflictLoop_false env.flag e _ .redundantMessageFlag (by decide), Bool.or_false, Bool.or_eq_true,
    has_redundantLoop hs, mem_keysOf_formatDict']
  have : has .redundantMessageFlag ((toSorted strLt e.flags).flatMap (perFlag env.flag e e.flags)) = false := by
    rw [has_flatMap, List.any_eq_false]; intro f _
    simp only [perFlag]; split <;> (try split) <;> simp
  simp [this]

/-- `conflicting-message-flags` ⇔ `wrap` + `no-wrap`, or two different valid ranges, or two positive formats with no
    common example directive, or the same format positive + `no-`, positive + `impossible-`, `possible-` + `impossible-`
    (the pairs are data: `conflictPairs`) -/
theorem conflicting_message_flags_iff (env : FlagEnv) (e : Entry) :
    has .conflictingMessageFlags (flagTags env e) = true ↔
      (lit "wrap" ∈ e.flags ∧ lit "no-wrap" ∈ e.flags) ∨
      (∃ f ∈ e.flags, ∃ g ∈ e.flags, ∃ r₁ r₂, rangeOf env f = some r₁ ∧ rangeOf env g = some r₂ ∧ r₁ ≠ r₂) ∨
      (∃ fmt₁ fmt₂, (∃ f ∈ e.flags, flagKind env f = .format [] fmt₁) ∧ (∃ f ∈ e.flags, flagKind env f = .format [] fmt₂) ∧
          strLt fmt₁ fmt₂ = true ∧ shareExample env fmt₁ fmt₂ = false) ∨
      (∃ pn ∈ env.conflictPairs, ∃ fmt, (∃ f ∈ e.flags, flagKind env f = .format pn.1 fmt) ∧
          (∃ f ∈ e.flags, flagKind env f = .format pn.2 fmt)) := by
  have hnd : (keysOf (rangeDict env e.flags (toSorted strLt e.flags))).Nodup :=
    nodup_keysOf_rangeDict env e.flags (toSorted strLt e.flags) [] (by simp [keysOf])
  simp only [flagTags, has_append, has_redundantLoop_false env e _ .conflictingMessageFlags (by decide), Bool.or_false,
    Bool.or_eq_true, has_conflictLoop, has_positivePairs, has_conflicting_rangeTail env e _ hnd, decide_eq_true_eq,
    rangeDict_length, mem_keysOf_formatFlagsOf, mem_keysOf_formatDict', has_flatMap, List.any_eq_true, mem_toSorted,
    has_conflicting_perFlag, Bool.and_eq_true, List.contains_eq_mem]
  constructor
  · rintro (((⟨f, hf, rfl, hn⟩ | h) | ⟨f1, h1, f2, h2, h3, h4⟩) | h)
    · exact Or.inl ⟨hf, hn⟩
    · exact Or.inr (Or.inl h)
    · exact Or.inr (Or.inr (Or.inl ⟨f1, f2, h1, h2, h3, h4⟩))
    · exact Or.inr (Or.inr (Or.inr h))
  · rintro (⟨hw, hn⟩ | h | ⟨f1, f2, h1, h2, h3, h4⟩ | h)
    · exact Or.inl (Or.inl (Or.inl ⟨_, hw, rfl, hn⟩))
    · exact Or.inl (Or.inl (Or.inr h))
    · exact Or.inl (Or.inr ⟨f1, h1, f2, h2, h3, h4⟩)
    · exact Or.inr h

/-- `duplicate-message-flag` ⇔ a non-empty flag that is not a valid range flag occurs more than once, or all valid range
    flags designate ONE range and together occur more than once (range flags are counted per range; the dictionary
    `rangeDict` maps each range to the multiplicities of its spellings) -/
theorem duplicate_message_flag_iff (env : FlagEnv) (e : Entry) :
    has .duplicateMessageFlag (flagTags env e) = true ↔
      (∃ f ∈ e.flags, e.flags.count f > 1 ∧ f ≠ [] ∧ rangeOf env f = none) ∨
      (∃ r c, rangeDict env e.flags (toSorted strLt e.flags) = [(r, c)] ∧ (c.map (·.2)).sum > 1) := by
  simp only [flagTags, has_append, has_redundantLoop_false env e _ .duplicateMessageFlag (by decide),
    has_conflictLoop_false env e _ .duplicateMessageFlag (by decide),
    has_positivePairs_false env e _ .duplicateMessageFlag (by decide), Bool.or_false, Bool.or_eq_true,
    has_flatMap, List.any_eq_true, mem_toSorted, has_duplicate_perFlag, Bool.and_eq_true, decide_eq_true_eq]
  have : has .duplicateMessageFlag (rangeTail env e (rangeDict env e.flags (toSorted strLt e.flags))) = true ↔
      ∃ r c, rangeDict env e.flags (toSorted strLt e.flags) = [(r, c)] ∧ (c.map (·.2)).sum > 1 := by
    generalize rangeDict env e.flags (toSorted strLt e.flags) = rd
    simp only [rangeTail]
    split
    · rename_i h
      constructor
      · split <;> simp
      · rintro ⟨r, c, rfl, _⟩; simp at h
    · split
      · rename_i _ k c _
        by_cases hs : (c.map (·.2)).sum > 1
        · simp only [hs, if_true]
          exact ⟨fun _ => ⟨k, c, rfl, hs⟩, fun _ => by simp⟩
        · simp only [hs, if_false, has_nil, Bool.false_eq_true, false_iff]
          rintro ⟨r, c', h, hs'⟩
          simp only [List.cons.injEq, Prod.mk.injEq, and_true] at h
          obtain ⟨rfl, rfl⟩ := h
          exact hs hs'
      · rename_i h
        simp only [has_nil, Bool.false_eq_true, false_iff]
        rintro ⟨r, c, rfl, _⟩; exact h r c rfl
  rw [this]
  constructor
  · rintro (⟨f, hf, ⟨h1, h2⟩, h3⟩ | h)
    · exact Or.inl ⟨f, hf, h1, h2, h3⟩
    · exact Or.inr h
  · rintro (⟨f, hf, h1, h2, h3⟩ | h)
    · exact Or.inl ⟨f, hf, ⟨h1, h2⟩, h3⟩
    · exact Or.inr h

/-- what kinds of flags there are (the `unknown` case of `flagKind` is the complement) -/
theorem flag_kind_known (env : FlagEnv) (f : Str) :
    flagKind env f ≠ .unknown ↔
      f = lit "fuzzy" ∨ f = lit "wrap" ∨ f = lit "no-wrap" ∨ f = lit "markdown-text" ∨ startsWith env.rangePrefix f = true ∨
        (endsWith formatSuffix f = true ∧ (classifyFormat env f env.prefixes).isSome) := by
  unfold flagKind
  by_cases h1 : f = lit "fuzzy"
  · simp [h1]
  by_cases h2 : f = lit "wrap"
  · subst h2; simp [fuzzy_ne_wrap.symm]
  by_cases h3 : f = lit "no-wrap"
  · subst h3; simp [fuzzy_ne_nowrap.symm, wrap_ne_nowrap.symm]
  by_cases h4 : startsWith env.rangePrefix f = true
  · simp [h1, h2, h3, h4]
  by_cases h5 : endsWith formatSuffix f = true
  · cases hc : classifyFormat env f env.prefixes with
    | none => simp [h1, h2, h3, h4, h5]; intro h6; subst h6; revert h5; decide
    | some x => simp [h1, h2, h3, h4, h5]
  · by_cases h6 : f = lit "markdown-text"
    · subst h6
      simp [h4, h5, show lit "markdown-text" ≠ lit "fuzzy" by decide, show lit "markdown-text" ≠ lit "wrap" by decide,
        show lit "markdown-text" ≠ lit "no-wrap" by decide]
    · simp [h1, h2, h3, h4, h5, h6]

/-! ### XML -/

/-- `malformed-xml` ⇔ the extracted comment is `type: Content of: <name>…`, a charset is usable, and expat rejects the
    reported string: the msgid (reported in POT files only), or — the msgid being well-formed — the msgstr of a non-fuzzy
    message with a non-empty msgstr -/
theorem malformed_xml_iff (env : Env) (ctx : Ctx) (pre : List Entry) (e : Entry) :
    has .malformedXml (entryTags env ctx pre e) = true ↔
      isMessage e = true ∧ env.xmlGate e.comment = true ∧ ctx.hasEncoding = true ∧
        ((ctx.isTemplate = true ∧ ∃ msg, env.xml e.msgid = .syntaxError msg) ∨
         (env.xml e.msgid = .ok ∧ lit "fuzzy" ∉ e.flags ∧ e.hasMsgstr = true ∧ ∃ msg, env.xml (e.msgstr.getD []) = .syntaxError msg)) := by
  rw [has_entryTags]
  simp only [has_flagTags_false env.flag e .malformedXml (by decide), has_unusualTags env pre e .malformedXml (by decide)]
  have : has .malformedXml (xmlTags env ctx e) = true ↔
      env.xmlGate e.comment = true ∧ ctx.hasEncoding = true ∧
        ((ctx.isTemplate = true ∧ ∃ msg, env.xml e.msgid = .syntaxError msg) ∨
         (env.xml e.msgid = .ok ∧ lit "fuzzy" ∉ e.flags ∧ e.hasMsgstr = true ∧ ∃ msg, env.xml (e.msgstr.getD []) = .syntaxError msg)) := by
    simp only [xmlTags]
    by_cases hg : env.xmlGate e.comment = true <;> by_cases he : ctx.hasEncoding = true <;> simp [hg, he]
    cases h1 : env.xml e.msgid with
    | other => simp
    | syntaxError msg => simp
    | ok =>
      by_cases hf : fuzzy e = true <;> by_cases hm : e.hasMsgstr = true
      · have : lit "fuzzy" ∈ e.flags := by simpa [fuzzy] using hf
        simp [hf, this]
      · have : lit "fuzzy" ∈ e.flags := by simpa [fuzzy] using hf
        simp [hf, this]
      · have hf' : lit "fuzzy" ∉ e.flags := by simpa [fuzzy] using hf
        simp only [hf, hm, hf']
        cases h2 : env.xml (e.msgstr.getD []) <;> simp
      · simp [hm]
  simp [this]

/-- `malformed-xml` only for strings that are not well-formed XML content -/
theorem malformed_xml_only_if (env : Env) (ctx : Ctx) (pre : List Entry) (e : Entry)
    (h : has .malformedXml (entryTags env ctx pre e) = true) :
    ∃ s msg, (s = e.msgid ∨ e.msgstr = some s) ∧ env.xml s = .syntaxError msg := by
  obtain ⟨_, _, _, ⟨_, msg, hm⟩ | ⟨_, _, hs, msg, hm⟩⟩ := (malformed_xml_iff env ctx pre e).mp h
  · exact ⟨_, msg, Or.inl rfl, hm⟩
  · refine ⟨_, msg, Or.inr ?_, hm⟩
    cases hms : e.msgstr with
    | none => simp [Entry.hasMsgstr, hms] at hs
    | some s => simp

/-! ### exemptions -/

/-- obsolete entries and header entries get no message-level diagnostic, and do not count as definitions -/
theorem obsolete_exempt (env : Env) (ctx : Ctx) (pre : List Entry) (e : Entry) (h : e.obsolete = true) :
    entryTags env ctx pre e = [] ∧ ∀ e', earlierSame (pre ++ [e]) e' = earlierSame pre e' := by
  have : isMessage e = false := by simp [isMessage, h]
  exact ⟨by simp [entryTags, this], fun e' => by simp [earlierSame, List.filter_append, this]⟩

theorem header_entry_exempt (env : Env) (ctx : Ctx) (pre : List Entry) (e : Entry) (h1 : e.msgid = []) (h2 : e.msgctxt = none) :
    entryTags env ctx pre e = [] := by
  have : isMessage e = false := by simp [isMessage, h1, h2]
  simp [entryTags, this]

/-- fuzzy messages are exempt from: conflict-marker-in-translation, partially-translated-message, the translation part of
    the newline checks (only msgid_plural is compared), malformed-xml of the msgstr; and `stray-previous-msgid` is exactly
    about non-fuzzy messages.  They are NOT exempt from the other tags. -/
theorem fuzzy_exemptions (env : Env) (ctx : Ctx) (pre : List Entry) (e : Entry) (hf : lit "fuzzy" ∈ e.flags) :
    has .conflictMarkerInTranslation (entryTags env ctx pre e) = false ∧
    has .partiallyTranslatedMessage (entryTags env ctx pre e) = false ∧
    has .strayPreviousMsgid (entryTags env ctx pre e) = false ∧
    considered e = e.pluralList ∧
    (has .malformedXml (entryTags env ctx pre e) = true → ctx.isTemplate = true ∧ ∃ msg, env.xml e.msgid = .syntaxError msg) := by
  have hfz : fuzzy e = true := by simpa [fuzzy] using hf
  refine ⟨?_, ?_, ?_, ?_, ?_⟩
  · rw [Bool.eq_false_iff]; intro h; exact ((conflict_marker_in_translation_iff env ctx pre e).mp h).2.1 hf
  · rw [Bool.eq_false_iff]; intro h; exact ((partially_translated_message_iff env ctx pre e).mp h).2.1 hf
  · rw [Bool.eq_false_iff]; intro h; exact ((stray_previous_msgid_iff env ctx pre e).mp h).2.2 hf
  · simp [considered, hfz]
  · intro h
    obtain ⟨_, _, _, h | h⟩ := (malformed_xml_iff env ctx pre e).mp h
    · exact h
    · exact absurd hf h.2.1

/-! ### a clean catalog -/

/-- none of the rules fires for the entry `e` after `pre` -/
structure CleanEntry (env : Env) (ctx : Ctx) (pre : List Entry) (e : Entry) : Prop where
  flags : flagTags env.flag e = []
  xml : xmlTags env ctx e = []
  unique : earlierSame pre e ≠ 1
  template : ¬(ctx.isTemplate = true ∧ hasTranslation e = true)
  previous : ¬((e.prevMsgctxt.isSome ∨ e.prevMsgid.isSome ∨ e.prevMsgidPlural.isSome) ∧ lit "fuzzy" ∉ e.flags)
  leading : ∀ s ∈ considered e, leadingLf s = leadingLf e.msgid
  trailing : ∀ s ∈ considered e, trailingLf s = trailingLf e.msgid
  unusual : ctx.hasEncoding = true → ∀ d s r, translations e = d ++ s :: r → reported env pre e d s = []
  marker : lit "fuzzy" ∉ e.flags → ∀ s ∈ translations e, env.searchMarker s = none
  complete : lit "fuzzy" ∉ e.flags → ¬((∃ s ∈ e.forms, s ≠ []) ∧ ∃ s ∈ e.forms, s = [])

theorem unusualTags_nil (env : Env) (pre : List Entry) (e : Entry) : ∀ (rest done : List Str),
    (∀ d s r, rest = d ++ s :: r → reported env pre e (done ++ d) s = []) → unusualTags env pre e done rest = []
  | [], _, _ => rfl
  | s :: rest, done, h => by
    have h0 := h [] s rest rfl
    simp only [List.append_nil] at h0
    simp only [unusualTags, h0, List.isEmpty_nil, if_true, List.nil_append]
    apply unusualTags_nil env pre e rest (done ++ [s])
    intro d s' r hr
    have := h (s :: d) s' r (by simp [hr])
    simpa using this

/-- a message violating none of the rules yields no message-level diagnostic: only the dispatch to the format checkers -/
theorem clean_entry_silent (env : Env) (ctx : Ctx) (pre : List Entry) (e : Entry) (h : CleanEntry env ctx pre e) :
    entryTags env ctx pre e = if isMessage e then dispatch env e else [] := by
  obtain ⟨h1, h2, h3, h4, h5, h6, h7, h8, h9, h10⟩ := h
  unfold entryTags
  cases hm : isMessage e
  · simp
  · have e3 : decide (earlierSame pre e = 1) = false := by simpa using h3
    have e4 : (ctx.isTemplate && hasTranslation e) = false := by
      cases ha : ctx.isTemplate <;> cases hb : hasTranslation e <;> simp_all
    have e6 : ((considered e).any fun s => leadingLf s != leadingLf e.msgid) = false := by
      rw [List.any_eq_false]; intro s hs; simp [h6 s hs]
    have e7 : ((considered e).any fun s => trailingLf s != trailingLf e.msgid) = false := by
      rw [List.any_eq_false]; intro s hs; simp [h7 s hs]
    have e8 : (if ctx.hasEncoding = true then unusualTags env pre e [] (translations e) else []) = [] := by
      split
      · rename_i henc; exact unusualTags_nil env pre e _ _ (by simpa using h8 henc)
      · rfl
    by_cases hf : lit "fuzzy" ∈ e.flags
    · have hfz : fuzzy e = true := by simpa [fuzzy] using hf
      have e5 : ((e.prevMsgctxt.isSome || e.prevMsgid.isSome || e.prevMsgidPlural.isSome) && !fuzzy e) = false := by simp [hfz]
      simp only [h1, h2, e3, e4, e5, e6, e7, e8, rule, Bool.not_true, Bool.false_eq_true, if_false, if_true, List.append_nil,
        List.nil_append]
      simp [hfz]
    · have hfz : fuzzy e = false := by simpa [fuzzy] using hf
      have e5 : ((e.prevMsgctxt.isSome || e.prevMsgid.isSome || e.prevMsgidPlural.isSome) && !fuzzy e) = false := by
        have := h5
        cases ha : e.prevMsgctxt.isSome <;> cases hb : e.prevMsgid.isSome <;> cases hc : e.prevMsgidPlural.isSome <;> simp_all
      have e9 : firstMarker env e = none := by
        simp only [firstMarker, List.findSome?_eq_none_iff]; exact h9 hf
      have e10 : (someForm e && e.forms.any (· = [])) = false := by
        rw [Bool.eq_false_iff]; intro h
        simp only [Bool.and_eq_true, someForm, List.any_eq_true, decide_eq_true_eq] at h
        exact h10 hf ⟨h.1, h.2⟩
      simp only [h1, h2, e3, e4, e5, e6, e7, e8, e9, e10, rule, Bool.not_true, Bool.false_eq_true, if_false, if_true,
        List.append_nil, List.nil_append, markerTag]
      simp [hfz]

/-- CLEAN ⇒ SILENT: a catalog (with at least one message) violating none of the rules yields no message-level tag:
    everything `check_messages` emits is a dispatch to a format checker -/
theorem clean_catalog_silent {env : Env} (hs : Sane env) (ctx : Ctx) (file : List Entry)
    (hclean : ∀ pre e post, file = pre ++ e :: post → CleanEntry env ctx pre e) (hne : ∃ e ∈ file, isMessage e = true) :
    ∀ x ∈ checkMessages env ctx file, ∃ n i, x = .fmt n i := by
  rw [check_messages_eq hs]
  intro x hx
  simp only [messageRules, List.mem_append, List.mem_flatten] at hx
  rcases hx with ⟨l, hl, hx⟩ | hx
  · have : ∀ (rest pre : List Entry), (∀ p e q, rest = p ++ e :: q → CleanEntry env ctx (pre ++ p) e) →
        l ∈ entriesFrom env ctx pre rest → ∃ n i, x = .fmt n i := by
      intro rest
      induction rest with
      | nil => intro pre _ h; simp [entriesFrom] at h
      | cons e rest ih =>
        intro pre hc h
        simp only [entriesFrom, List.mem_cons] at h
        rcases h with rfl | h
        · have := clean_entry_silent env ctx pre e (by simpa using hc [] e rest rfl)
          rw [this] at hx
          split at hx
          · simp only [dispatch, List.mem_map] at hx
            obtain ⟨f, _, rfl⟩ := hx
            exact ⟨_, _, rfl⟩
          · simp at hx
        · exact ih (pre ++ [e]) (fun p e' q hr => by
            have := hc (e :: p) e' q (by simp [hr])
            simpa using this) h
    exact this file [] (fun p e q hr => by simpa using hclean p e q hr) hl
  · obtain ⟨e, he, hm⟩ := hne
    have : file.any isMessage = true := List.any_eq_true.mpr ⟨e, he, hm⟩
    simp [fileTags, rule, this] at hx

/-! ### no crash -/

/-- no exception leaves the message checks in a sane environment; the observable run is the whole rule set -/
theorem msg_nocrash {env : Env} (hs : Sane env) (ctx : Ctx) (file : List Entry) :
    (∀ x, Emit.crash x ∉ checkMessages env ctx file) ∧
    run env ctx file = (messageRules env ctx file).1.flatten ++ (messageRules env ctx file).2 := by
  have h := noCrash_checkMessages hs ctx file
  exact ⟨noCrash_iff.mp h, by rw [run, observe_of_noCrash h, check_messages_eq hs]⟩

/-- the environment regenerated from /repo is sane whatever strings expat is asked about, provided expat raises nothing
    but `ExpatError` (its documented behaviour on `str` input that encodes to UTF-8) -/
theorem live_env_sane (xml : Str → XmlVerdict) (hx : ∀ s, xml s ≠ .other) : Sane (liveEnv xml) := live_sane xml hx

/-- hence for the running tool's tables: no exception, and the emitted tags are the rule set's -/
theorem live_message_tags (xml : Str → XmlVerdict) (hx : ∀ s, xml s ≠ .other) (ctx : Ctx) (file : List Entry) :
    run (liveEnv xml) ctx file = (messageRules (liveEnv xml) ctx file).1.flatten ++ (messageRules (liveEnv xml) ctx file).2 :=
  (msg_nocrash (live_sane xml hx) ctx file).2

/-! ## pins: what the translator read from /repo is what the rules are written for -/

/-- PIN: the tag names the three methods can emit (ast walk of /repo) are exactly the model's. -/
theorem emitted_tags_pin :
    Generated.StringFormats.emittedTags =
      [(lit "check_messages", MTag.ofCheckMessages.map MTag.name),
       (lit "_check_message_flags", MTag.ofCheckMessageFlags.map MTag.name),
       (lit "_check_message_xml_format", MTag.ofXmlFormat.map MTag.name)] := by decide

/-- the unusual-character class as documented in the source comments: C0 except TAB, LF, ESC; ESC except when followed by `[`;
    DEL; C1; U+FEFF; U+FFFD; U+FFFE, U+FFFF; U+00BF but only directly after a word character -/
def documentedUnusual (word : Nat → Bool) (prev : Option Nat) (c : Nat) (next : Option Nat) : Bool :=
  (c ≤ 0x1F && c != 0x09 && c != 0x0A && c != 0x1B)
  || (c == 0x1B && next != some 0x5B)
  || c == 0x7F
  || (0x80 ≤ c && c ≤ 0x9F)
  || c == 0xFEFF || c == 0xFFFD || c == 0xFFFE || c == 0xFFFF
  || (c == 0xBF && (match prev with | some p => word p | none => false))

/-- PIN: the regex tree of `find_unusual_characters` is the documented class (as alternatives) -/
theorem unusual_class_pin :
    Generated.StringFormats.unusualAlts =
      [(none, (false, [(0x0, 0x8), (0xB, 0x1A), (0x1C, 0x1F)], false), none),
       (none, (false, [(0x1B, 0x1B)], false), some (false, (false, [(0x5B, 0x5B)], false))),
       (none, (false, [(0x7F, 0x7F)], false), none),
       (none, (false, [(0x80, 0x9F)], false), none),
       (none, (false, [(0xFEFF, 0xFEFF)], false), none),
       (none, (false, [(0xFFFD, 0xFFFD)], false), none),
       (none, (false, [(0xFFFE, 0xFFFF)], false), none),
       (some (true, (false, [], true)), (false, [(0xBF, 0xBF)], false), none)] := by rfl

/-- with these alternatives, a position matches iff the documented predicate holds (for every `\w` table, every context) -/
theorem unusual_class_documented (word : Nat → Bool) (prev : Option Nat) (c : Nat) (next : Option Nat) :
    (Generated.StringFormats.unusualAlts.any (altMatch word prev c next)) = documentedUnusual word prev c next := by
  rw [unusual_class_pin]
  simp only [List.any_cons, List.any_nil, altMatch, lookOk, ccMatch, inRanges, documentedUnusual, Bool.or_false,
    Bool.false_and, Bool.false_or, Bool.true_and, Bool.and_true, Bool.false_eq_true, if_false, if_true]
  rw [Bool.eq_iff_iff]
  cases prev <;> cases next <;> simp <;> grind

/-- PIN: the conflict-marker pattern is `^#-#-#-#-#  .+  #-#-#-#-#$` -/
theorem conflict_marker_pin :
    Generated.StringFormats.conflictPrefix = lit "#-#-#-#-#  " ∧ Generated.StringFormats.conflictSuffix = lit "  #-#-#-#-#" := by
  decide

/-- PIN: the `range:` flag syntax; the flag prefixes and the conflict pairs AS SETS (their order in the source is immaterial:
    the pairs are independent rules, and by `prefixes_unambiguous` at most one prefix can classify a flag) -/
theorem flag_syntax_pin :
    Generated.StringFormats.rangePrefix = lit "range:" ∧ Generated.StringFormats.rangeSep = lit ".." ∧
    Generated.StringFormats.rangeStrip = [32, 9, 13, 12, 11] ∧
    Generated.StringFormats.rangeDigits1 = [(48, 57)] ∧ Generated.StringFormats.rangeDigits2 = [(48, 57)] ∧
    (∀ p, p ∈ Generated.StringFormats.formatPrefixes ↔ p ∈ [lit "no-", lit "possible-", lit "impossible-", []]) ∧
    (∀ pn, pn ∈ Generated.StringFormats.conflictPairs ↔
      pn ∈ [([], lit "no"), ([], lit "impossible"), (lit "possible", lit "impossible")]) := by
  refine ⟨by decide, by decide, by decide, by decide, by decide, ?_, ?_⟩
  · have h1 : Generated.StringFormats.formatPrefixes.all (fun p => [lit "no-", lit "possible-", lit "impossible-", []].contains p) = true := by decide
    have h2 : [lit "no-", lit "possible-", lit "impossible-", []].all (fun p => Generated.StringFormats.formatPrefixes.contains p) = true := by decide
    simp only [List.all_eq_true, List.contains_eq_mem, decide_eq_true_eq] at h1 h2
    exact fun p => ⟨h1 p, h2 p⟩
  · have h1 : Generated.StringFormats.conflictPairs.all
        (fun p => [(([] : Str), lit "no"), ([], lit "impossible"), (lit "possible", lit "impossible")].contains p) = true := by decide
    have h2 : [(([] : Str), lit "no"), ([], lit "impossible"), (lit "possible", lit "impossible")].all
        (fun p => Generated.StringFormats.conflictPairs.contains p) = true := by decide
    simp only [List.all_eq_true, List.contains_eq_mem, decide_eq_true_eq] at h1 h2
    exact fun p => ⟨h1 p, h2 p⟩

/-- PIN: no format name of the data file starts with a non-empty flag prefix — so a flag `<prefix><fmt>-format` has exactly one
    reading, whatever the order of the prefix loop -/
theorem prefixes_unambiguous :
    Generated.StringFormats.stringFormats.all (fun f =>
      Generated.StringFormats.formatPrefixes.all fun p => p.isEmpty || !startsWith p f.1) = true := by decide

/-- PIN: the XML gate is `type: Content of: ` followed by `<name>`s with the XML 1.0 NameStartChar / NameChar classes -/
theorem xml_gate_pin :
    Generated.StringFormats.xmlGatePrefix = lit "type: Content of: " ∧
    Generated.StringFormats.xmlGateOpen = 60 ∧ Generated.StringFormats.xmlGateClose = 62 ∧
    Generated.StringFormats.xmlNameStart =
      [(0x3A, 0x3A), (0x41, 0x5A), (0x5F, 0x5F), (0x61, 0x7A), (0xC0, 0xD6), (0xD8, 0xF6), (0xF8, 0x2FF), (0x370, 0x37D),
       (0x37F, 0x1FFF), (0x200C, 0x200D), (0x2070, 0x218F), (0x2C00, 0x2FEF), (0x3001, 0xD7FF), (0xF900, 0xFDCF),
       (0xFDF0, 0xFFFD), (0x10000, 0xEFFFF)] ∧
    Generated.StringFormats.xmlNameNext =
      [(0x2D, 0x2E), (0x30, 0x3A), (0x41, 0x5A), (0x5F, 0x5F), (0x61, 0x7A), (0xB7, 0xB7), (0xC0, 0xD6), (0xD8, 0xF6),
       (0xF8, 0x37D), (0x37F, 0x1FFF), (0x200C, 0x200D), (0x203F, 0x2040), (0x2070, 0x218F), (0x2C00, 0x2FEF),
       (0x3001, 0xD7FF), (0xF900, 0xFDCF), (0xFDF0, 0xFFFD), (0x10000, 0xEFFFF)] := by
  decide

/-- PIN: the four formats with a checker are formats of data/string-formats -/
theorem checker_keys_pin :
    Generated.StringFormats.formatCheckerKeys = [lit "c", lit "perl-brace", lit "python", lit "python-brace"] ∧
    Generated.StringFormats.formatCheckerKeys.all liveFlagEnv.isFormat = true := by decide

/-! ## the scanners that stand for the regexes, and the flag shapes, declaratively -/

/-- `duplicate-message-flag`, entirely about the flag list: a non-empty flag that is not a valid range flag occurs more than
    once, or all valid range flags designate one range and there are (with multiplicity) at least two of them -/
theorem duplicate_message_flag_decl_iff (env : FlagEnv) (e : Entry) :
    has .duplicateMessageFlag (flagTags env e) = true ↔
      (∃ f ∈ e.flags, e.flags.count f > 1 ∧ f ≠ [] ∧ rangeOf env f = none) ∨
      (∃ r, (∃ f ∈ e.flags, rangeOf env f = some r) ∧ (∀ g ∈ e.flags, ∀ r', rangeOf env g = some r' → r' = r) ∧
        (e.flags.countP fun f => decide (rangeOf env f = some r)) > 1) := by
  rw [duplicate_message_flag_iff, range_duplicate_iff]

/-- a conflict marker is a line `#-#-#-#-#  ` + one or more characters + `  #-#-#-#-#` (lines = `\n`-separated pieces);
    the first such line is what `search_for_conflict_marker` returns (for the regenerated pattern) -/
theorem conflict_marker_line_iff (xml : Str → XmlVerdict) (s line : Str) :
    (liveEnv xml).searchMarker s = some line ↔
      ∃ before after, splitLines s = before ++ line :: after ∧
        (∃ m, m ≠ [] ∧ line = lit "#-#-#-#-#  " ++ m ++ lit "  #-#-#-#-#") ∧
        ∀ l ∈ before, ¬∃ m, m ≠ [] ∧ l = lit "#-#-#-#-#  " ++ m ++ lit "  #-#-#-#-#" := by
  have h := searchMarker_eq_some Generated.StringFormats.conflictPrefix Generated.StringFormats.conflictSuffix s line
  rw [conflict_marker_pin.1, conflict_marker_pin.2] at h
  exact h

/-- the lines: joined by `\n` they give the text back, and none contains `\n` -/
theorem lines_spec (s : Str) : [10].intercalate (splitLines s) = s ∧ ∀ l ∈ splitLines s, 10 ∉ l := splitLines_spec s

/-- a valid `range:` flag (for the regenerated syntax): after `range:` and blanks (` \t\r\f\v`) on both sides,
    `<digits>..<digits>` in ASCII digits, and min < max -/
theorem range_flag_grammar (f : Str) (i j : Nat) :
    parseRange liveFlagEnv f = some (i, j) ↔
      ∃ d₁ d₂, strip [32, 9, 13, 12, 11] (f.drop 6) = d₁ ++ lit ".." ++ d₂ ∧ d₁ ≠ [] ∧ d₂ ≠ [] ∧
        d₁.all isAsciiDigit = true ∧ d₂.all isAsciiDigit = true ∧ i = decVal d₁ ∧ j = decVal d₂ ∧ i < j := by
  have hsep : liveFlagEnv.rangeSep = lit ".." := flag_syntax_pin.2.1
  have hstrip : liveFlagEnv.rangeStrip = [32, 9, 13, 12, 11] := flag_syntax_pin.2.2.1
  have hpre : liveFlagEnv.rangePrefix.length = 6 := by decide
  simp only [parseRange, hsep, hstrip, hpre]
  have hm := fun a b => matchRange_eq_some (lit "..") (strip [32, 9, 13, 12, 11] (f.drop 6)) a b ⟨46, [46], by decide, by decide⟩
  constructor
  · intro h
    split at h
    · rename_i a b hab
      split at h
      · rename_i hlt
        simp only [Option.some.injEq, Prod.mk.injEq] at h
        obtain ⟨rfl, rfl⟩ := h
        obtain ⟨d₁, d₂, h1, h2, h3, h4, h5, h6, h7⟩ := (hm a b).mp hab
        exact ⟨d₁, d₂, h1, h2, h3, h4, h5, h6, h7, hlt⟩
      · cases h
    · cases h
  · rintro ⟨d₁, d₂, h1, h2, h3, h4, h5, h6, h7, hlt⟩
    have := (hm i j).mpr ⟨d₁, d₂, h1, h2, h3, h4, h5, h6, h7⟩
    simp [this, hlt]

/-- a flag classified as a format flag IS `<prefix><fmt>-format` with `<fmt>` in data/string-formats and the prefix one of
    `no-`, `possible-`, `impossible-` or none (regenerated tables; the kind is the prefix without its dash) -/
theorem format_flag_shape_live {f tp fmt : Str} (h : flagKind liveFlagEnv f = .format tp fmt) :
    ∃ p ∈ [lit "no-", lit "possible-", lit "impossible-", []], f = p ++ fmt ++ lit "-format" ∧
      liveFlagEnv.isFormat fmt = true ∧ tp = rstrip [45] p := by
  have hempty : liveFlagEnv.isFormat [] = false := by decide
  obtain ⟨p, hp, h1, h2, h3⟩ := format_flag_shape hempty h
  refine ⟨p, ?_, h1, h2, h3⟩
  exact (flag_syntax_pin.2.2.2.2.2.1 p).mp hp

/-- FILE LEVEL (the clause as stated): some entry of the file gets `duplicate-message-definition` ⇔ two non-obsolete,
    non-header entries of the file share msgid and msgctxt -/
theorem duplicate_message_definition_file_iff (env : Env) (ctx : Ctx) (file : List Entry) :
    (∃ pre e post, file = pre ++ e :: post ∧ has .duplicateMessageDefinition (entryTags env ctx pre e) = true) ↔
      ∃ a m₁ b m₂ c, file = a ++ m₁ :: b ++ m₂ :: c ∧ isMessage m₁ = true ∧ isMessage m₂ = true ∧
        m₁.msgid = m₂.msgid ∧ m₁.msgctxt = m₂.msgctxt := duplicate_reported_iff env ctx file

/-- the unusual characters of a string, position by position (regenerated class): `c` is found iff it stands somewhere in the
    string where the documented predicate holds of (character before, `c`, character after) -/
theorem find_unusual_iff (xml : Str → XmlVerdict) (s : Str) (c : Nat) :
    c ∈ (liveEnv xml).findUnusual s ↔
      ∃ a b, s = a ++ c :: b ∧ documentedUnusual (inRanges Generated.StringFormats.wordRanges) a.getLast? c b.head? = true := by
  have h := mem_findAllFrom_iff (inRanges Generated.StringFormats.wordRanges) Generated.StringFormats.unusualAlts s none c
  simp only [Option.or_none, unusual_class_documented] at h
  exact h

/-- PIN against the HAND-MAINTAINED reference of the format languages (Spec/StringFormatsRef.lean, not regenerated): every
    reference format is in data/string-formats, and for every PAIR of reference formats the data file decides "share an example
    directive" — the test behind `conflicting-message-flags` for two positive format flags — exactly as the reference does.
    Formats the reference does not list are not compared: adding a format to the data file, or re-ordering it, keeps this true. -/
theorem string_formats_compat_pin :
    ∀ a ∈ Spec.StringFormatsRef.names, liveFlagEnv.isFormat a = true ∧
      ∀ b ∈ Spec.StringFormatsRef.names,
        shareExample liveFlagEnv a b = Spec.StringFormatsRef.compatible Spec.StringFormatsRef.table a b := by
  have h : Spec.StringFormatsRef.agrees liveFlagEnv.formats = true := by decide +kernel
  simp only [Spec.StringFormatsRef.agrees, List.all_eq_true, Bool.and_eq_true, beq_iff_eq] at h
  intro a ha
  exact ⟨by simpa [FlagEnv.isFormat] using (h a ha).1, fun b hb => (h a ha).2 b hb⟩

/-- hence, for the running tool's table: two positive flags of reference formats conflict iff the REFERENCE calls the two
    format languages incompatible -/
theorem positive_conflict_by_reference {f₁ f₂ : Str} (h₁ : f₁ ∈ Spec.StringFormatsRef.names) (h₂ : f₂ ∈ Spec.StringFormatsRef.names) :
    shareExample liveFlagEnv f₁ f₂ = false ↔ Spec.StringFormatsRef.compatible Spec.StringFormatsRef.table f₁ f₂ = false := by
  rw [(string_formats_compat_pin f₁ h₁).2 f₂ h₂]

/-- the reference knows what it claims to: the printf family is pairwise compatible, and e.g. `c` vs `python-brace` is not -/
example : Spec.StringFormatsRef.compatible Spec.StringFormatsRef.table (lit "c") (lit "boost") = true ∧
    Spec.StringFormatsRef.compatible Spec.StringFormatsRef.table (lit "c") (lit "python-brace") = false ∧
    Spec.StringFormatsRef.compatible Spec.StringFormatsRef.table (lit "java") (lit "python-brace") = true := by decide

/-! ## non-vacuity -/

def xmlOk : Str → XmlVerdict := fun _ => .ok
def poCtx : Ctx := ctxOf false true
def msg (id : String) (str : String) (flags : List String := []) : Entry :=
  { msgid := lit id, msgctxt := none, msgidPlural := none, msgstr := some (lit str), msgstrPlural := [],
    flags := flags.map lit, obsolete := false, prevMsgctxt := none, prevMsgid := none, prevMsgidPlural := none, comment := [] }

/-- second definition of the same msgid: exactly one duplicate tag, on the second entry -/
example : (trace (liveEnv xmlOk) poCtx [msg "a" "x", msg "a" "y", msg "a" "z"]).1.map (has .duplicateMessageDefinition)
    = [false, true, false] := by decide +kernel

/-- the empty file -/
example : checkMessages (liveEnv xmlOk) poCtx [] = [.tag .emptyFile []] := by decide +kernel

/-- an obsolete entry only: empty-file, nothing else -/
example : checkMessages (liveEnv xmlOk) poCtx [{ msg "a" "x" with obsolete := true }] = [.tag .emptyFile []] := by decide +kernel

/-- an unusual character is reported once per file: the second message with ESC stays silent -/
example : (trace (liveEnv xmlOk) poCtx [msg "a" "x\x1by", msg "b" "z\x1b"]).1.map (has .unusualCharacterInTranslation)
    = [true, false] := by decide +kernel

/-- ... and not at all when the msgid has it too, or when it starts a CSI sequence -/
example : (trace (liveEnv xmlOk) poCtx [msg "a\x1b" "x\x1by", msg "b" "z\x1b[0m"]).1.map (has .unusualCharacterInTranslation)
    = [false, false] := by decide +kernel

/-- flags: conflicting, redundant, duplicate, unknown, invalid range, range without plural -/
example : ((trace (liveEnv xmlOk) poCtx
      [msg "a" "x" ["c-format", "no-c-format", "possible-c-format", "wrap", "wrap", "fuzy", "range:2..1"]]).1.map fun l =>
        [has .conflictingMessageFlags l, has .redundantMessageFlag l, has .duplicateMessageFlag l, has .unknownMessageFlag l,
         has .invalidRangeFlag l, has .rangeFlagWithoutPluralString l])
    = [[true, true, true, true, true, true]] := by decide +kernel

/-- a clean message: only the dispatch to the C format checker -/
example : (checkMessages (liveEnv xmlOk) poCtx [msg "%d files" "%d Dateien" ["c-format"]]).all
    (fun x => match x with | .fmt _ _ => true | _ => false) = true := by decide +kernel

/-- fuzzy exempts the conflict marker -/
example : (trace (liveEnv xmlOk) poCtx [msg "a" "#-#-#-#-#  x.po  #-#-#-#-#", msg "b" "#-#-#-#-#  x.po  #-#-#-#-#" ["fuzzy"]]).1.map
    (has .conflictMarkerInTranslation) = [true, false] := by decide +kernel

end I18n.Props.C16
