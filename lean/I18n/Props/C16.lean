import I18n.Model.Msg
/-
C16 — message-level diagnostics match their documented conditions.  (under construction)
-/
namespace I18n.Props.C16
open I18n I18n.Msg I18n.Tags

/-- PIN: the tag names the three methods can emit (ast walk of /repo) are exactly the model's. -/
theorem emitted_tags_pin :
    Generated.StringFormats.emittedTags =
      [(lit "check_messages", MTag.ofCheckMessages.map MTag.name),
       (lit "_check_message_flags", MTag.ofCheckMessageFlags.map MTag.name),
       (lit "_check_message_xml_format", MTag.ofXmlFormat.map MTag.name)] := by decide

end I18n.Props.C16
