import I18n.Lemmas.MsgTags
/-
C16 — message-level diagnostics match their documented conditions.

`Msg.checkMessages` / `Msg.trace` is the statement-by-statement model of `Checker.check_messages` with its two accumulators
(`msgid_counter`, `found_unusual_characters`), of `_check_message_flags` and of the XML gate (Model/Msg.lean, Model/MsgFlags.lean);
`Spec.MessageRules` is the rule set of DESIGN Appendix B, one rule per tag, speaking about an entry and the entries before it.
The theorems hold for EVERY list of entries, every context (po / pot / MO, charset usable or not) and every environment
(Unicode tables, string-format table, expat oracle) that is `Sane` (no exception possible: proved for the live tables below).
-/
namespace I18n.Props.C16
open I18n I18n.Msg I18n.Tags
open I18n.Spec.MessageRules

/-! ## the imperative model equals the rule set -/

/-- MAIN: what `check_messages` emits — per entry of the file, in order, and for the file as a whole — is exactly the
    rule set, for all entry lists (induction over the list; the accumulators are invariant-carrying state). -/
theorem message_tags_eq {env : Env} (hs : Sane env) (ctx : Ctx) (file : List Entry) :
    trace env ctx file = messageRules env ctx file := trace_eq hs ctx file

/-- the same for the flat sequence of emissions -/
theorem check_messages_eq {env : Env} (hs : Sane env) (ctx : Ctx) (file : List Entry) :
    checkMessages env ctx file = (messageRules env ctx file).1.flatten ++ (messageRules env ctx file).2 := by
  simp [checkMessages, trace_eq hs]

/-- `_check_message_flags` returns the rule set's `info` and emits the rule set's flag tags (no side condition) -/
theorem message_flags_eq (env : FlagEnv) (e : Entry) : checkMessageFlags env e = (info env e, flagTags env e) :=
  checkMessageFlags_eq env e

/-- the file kinds of the statement -/
def ctxOf (pot : Bool) (charsetUsable : Bool) : Ctx := ⟨pot, false, false, charsetUsable⟩

theorem entriesFrom_append (env : Env) (ctx : Ctx) : ∀ (a p b : List Entry),
    entriesFrom env ctx p (a ++ b) = entriesFrom env ctx p a ++ entriesFrom env ctx (p ++ a) b
  | [], p, b => by simp [entriesFrom]
  | x :: a, p, b => by simp [entriesFrom, entriesFrom_append env ctx a (p ++ [x]) b]

theorem entriesFrom_length (env : Env) (ctx : Ctx) : ∀ (a p : List Entry), (entriesFrom env ctx p a).length = a.length
  | [], _ => rfl
  | _ :: a, p => by simp [entriesFrom, entriesFrom_length env ctx a]

/-- what the model emits while the loop is at entry `e` (preceded by `pre`) is `entryTags env ctx pre e` -/
theorem trace_at {env : Env} (hs : Sane env) (ctx : Ctx) (pre post : List Entry) (e : Entry) :
    (trace env ctx (pre ++ e :: post)).1[pre.length]? = some (entryTags env ctx pre e) := by
  rw [trace_eq hs]
  simp only [messageRules]
  rw [entriesFrom_append]
  rw [List.getElem?_append_right (by simp [entriesFrom_length])]
  simp [entriesFrom_length, entriesFrom]

/-! ## one theorem per tag (read off the rule set; with `trace_at` they speak about the model) -/

/-- which tags an entry gets, as one Boolean formula -/
theorem has_entryTags (env : Env) (ctx : Ctx) (pre : List Entry) (e : Entry) (t : MTag) :
    has t (entryTags env ctx pre e) =
      (isMessage e &&
        (has t (flagTags env.flag e) || has t (xmlTags env ctx e)
          || (decide (earlierSame pre e = 1) && decide (MTag.duplicateMessageDefinition = t))
          || (ctx.isTemplate && hasTranslation e && decide (MTag.translationInTemplate = t))
          || ((e.prevMsgctxt.isSome || e.prevMsgid.isSome || e.prevMsgidPlural.isSome) && !fuzzy e
                && decide (MTag.strayPreviousMsgid = t))
          || (((considered e).any fun s => leadingLf s != leadingLf e.msgid) && decide (MTag.inconsistentLeadingNewlines = t))
          || (((considered e).any fun s => trailingLf s != trailingLf e.msgid) && decide (MTag.inconsistentTrailingNewlines = t))
          || (ctx.hasEncoding && has t (unusualTags env pre e [] (translations e)))
          || (!fuzzy e && (((firstMarker env e).isSome && decide (MTag.conflictMarkerInTranslation = t))
                || (someForm e && e.forms.any (· = []) && decide (MTag.partiallyTranslatedMessage = t)))))) := by
  unfold entryTags
  cases hm : isMessage e
  · simp
  · cases hf : fuzzy e <;> cases he : ctx.hasEncoding <;>
      simp [has_dispatch, has_markerTag, Bool.or_assoc]

/-- `duplicate-message-definition` ⇔ the entry is a message and exactly one earlier message has its msgid and msgctxt
    (it is the SECOND definition) -/
theorem duplicate_message_definition_iff (env : Env) (ctx : Ctx) (pre : List Entry) (e : Entry) :
    has .duplicateMessageDefinition (entryTags env ctx pre e) = true ↔ isMessage e = true ∧ earlierSame pre e = 1 := by
  rw [has_entryTags]
  simp [has_flagTags_false env.flag e .duplicateMessageDefinition (by decide),
    has_xmlTags env ctx e .duplicateMessageDefinition (by decide),
    has_unusualTags env pre e .duplicateMessageDefinition (by decide)]

/-- `translation-in-template` ⇔ POT and the message has a non-empty msgstr or a non-empty form -/
theorem translation_in_template_iff (env : Env) (ctx : Ctx) (pre : List Entry) (e : Entry) :
    has .translationInTemplate (entryTags env ctx pre e) = true ↔
      isMessage e = true ∧ ctx.isTemplate = true ∧ (e.hasMsgstr = true ∨ ∃ s ∈ e.forms, s ≠ []) := by
  rw [has_entryTags]
  simp [has_flagTags_false env.flag e .translationInTemplate (by decide),
    has_xmlTags env ctx e .translationInTemplate (by decide),
    has_unusualTags env pre e .translationInTemplate (by decide), hasTranslation, someForm]

/-- `stray-previous-msgid` ⇔ some `#|` annotation is present and the message is not fuzzy -/
theorem stray_previous_msgid_iff (env : Env) (ctx : Ctx) (pre : List Entry) (e : Entry) :
    has .strayPreviousMsgid (entryTags env ctx pre e) = true ↔
      isMessage e = true ∧ (e.prevMsgctxt.isSome ∨ e.prevMsgid.isSome ∨ e.prevMsgidPlural.isSome) ∧ lit "fuzzy" ∉ e.flags := by
  rw [has_entryTags]
  simp [has_flagTags_false env.flag e .strayPreviousMsgid (by decide),
    has_xmlTags env ctx e .strayPreviousMsgid (by decide),
    has_unusualTags env pre e .strayPreviousMsgid (by decide), fuzzy, or_assoc]

/-- `inconsistent-leading-newlines` ⇔ some considered string disagrees with the msgid on a leading newline -/
theorem inconsistent_leading_newlines_iff (env : Env) (ctx : Ctx) (pre : List Entry) (e : Entry) :
    has .inconsistentLeadingNewlines (entryTags env ctx pre e) = true ↔
      isMessage e = true ∧ ∃ s ∈ considered e, leadingLf s ≠ leadingLf e.msgid := by
  rw [has_entryTags]
  simp [has_flagTags_false env.flag e .inconsistentLeadingNewlines (by decide),
    has_xmlTags env ctx e .inconsistentLeadingNewlines (by decide),
    has_unusualTags env pre e .inconsistentLeadingNewlines (by decide)]

/-- `inconsistent-trailing-newlines` ⇔ some considered string disagrees with the msgid on a trailing newline -/
theorem inconsistent_trailing_newlines_iff (env : Env) (ctx : Ctx) (pre : List Entry) (e : Entry) :
    has .inconsistentTrailingNewlines (entryTags env ctx pre e) = true ↔
      isMessage e = true ∧ ∃ s ∈ considered e, trailingLf s ≠ trailingLf e.msgid := by
  rw [has_entryTags]
  simp [has_flagTags_false env.flag e .inconsistentTrailingNewlines (by decide),
    has_xmlTags env ctx e .inconsistentTrailingNewlines (by decide),
    has_unusualTags env pre e .inconsistentTrailingNewlines (by decide)]

/-- the considered strings: msgid_plural always; msgstr and the forms only when not fuzzy, msgstr only if non-empty, the
    forms (all of them) only if one is non-empty -/
theorem considered_mem (e : Entry) (s : Str) :
    s ∈ considered e ↔
      e.msgidPlural = some s ∨
      (lit "fuzzy" ∉ e.flags ∧ ((e.msgstr = some s ∧ s ≠ []) ∨ (s ∈ e.forms ∧ ∃ f ∈ e.forms, f ≠ []))) := by
  cases hp : e.msgidPlural <;> cases hf : fuzzy e <;> cases hm : e.msgstr <;>
    simp_all [considered, Entry.pluralList, Entry.msgstrList, Entry.hasMsgstr, someForm, fuzzy]
  all_goals grind

/-- `partially-translated-message` ⇔ not fuzzy, and some but not all plural forms are empty -/
theorem partially_translated_message_iff (env : Env) (ctx : Ctx) (pre : List Entry) (e : Entry) :
    has .partiallyTranslatedMessage (entryTags env ctx pre e) = true ↔
      isMessage e = true ∧ lit "fuzzy" ∉ e.flags ∧ (∃ s ∈ e.forms, s ≠ []) ∧ (∃ s ∈ e.forms, s = []) := by
  rw [has_entryTags]
  simp [has_flagTags_false env.flag e .partiallyTranslatedMessage (by decide),
    has_xmlTags env ctx e .partiallyTranslatedMessage (by decide),
    has_unusualTags env pre e .partiallyTranslatedMessage (by decide), fuzzy, someForm]

/-- `conflict-marker-in-translation` ⇔ not fuzzy, and some translation string contains a marker line -/
theorem conflict_marker_in_translation_iff (env : Env) (ctx : Ctx) (pre : List Entry) (e : Entry) :
    has .conflictMarkerInTranslation (entryTags env ctx pre e) = true ↔
      isMessage e = true ∧ lit "fuzzy" ∉ e.flags ∧ ∃ s ∈ translations e, (env.searchMarker s).isSome := by
  rw [has_entryTags]
  simp [has_flagTags_false env.flag e .conflictMarkerInTranslation (by decide),
    has_xmlTags env ctx e .conflictMarkerInTranslation (by decide),
    has_unusualTags env pre e .conflictMarkerInTranslation (by decide), fuzzy, firstMarker, List.findSome?_isSome_iff]

/-- `empty-file` ⇔ the file has no message (and, for MO files, hidden strings are not possible) -/
theorem empty_file_iff (ctx : Ctx) (file : List Entry) :
    fileTags ctx file = [.tag .emptyFile []] ↔
      (∀ e ∈ file, isMessage e = false) ∧ ¬(ctx.isBinary = true ∧ ctx.possibleHiddenStrings = true) := by
  simp only [fileTags, rule]
  cases hb : ctx.isBinary <;> cases hh : ctx.possibleHiddenStrings <;> cases ha : file.any isMessage <;> simp_all

/-- for PO and POT files: `empty-file` ⇔ there is no non-obsolete, non-header entry; nothing else is ever file-level -/
theorem empty_file_po_iff (pot enc : Bool) (file : List Entry) :
    fileTags (ctxOf pot enc) file = (if ∀ e ∈ file, isMessage e = false then [.tag .emptyFile []] else []) := by
  simp only [fileTags, rule, ctxOf]
  cases ha : file.any isMessage <;> simp_all

/-! ### unusual characters -/

/-- an unexplained unusual character of an earlier message's translation -/
theorem mem_seenBefore (env : Env) (pre : List Entry) (c : Nat) :
    c ∈ seenBefore env pre ↔
      ∃ m ∈ pre, isMessage m = true ∧ ∃ s ∈ translations m, c ∈ env.findUnusual s ∧ c ∉ explained env m := by
  simp [seenBefore, unexplained]
  constructor
  · rintro ⟨m, ⟨h1, h2⟩, s, h3, h4, h5⟩; exact ⟨m, h1, h2, s, h3, h4, h5⟩
  · rintro ⟨m, h1, h2, s, h3, h4, h5⟩; exact ⟨m, ⟨h1, h2⟩, s, h3, h4, h5⟩

/-- what is reported for a translation string: its unusual characters that neither the msgid / msgid_plural explain nor an
    earlier translation string of this file (an earlier message's, or an earlier one of this message) contains unexplained -/
theorem mem_reported (env : Env) (pre : List Entry) (e : Entry) (done : List Str) (s : Str) (c : Nat) :
    c ∈ reported env pre e done s ↔
      c ∈ env.findUnusual s ∧ c ∉ explained env e ∧ c ∉ seenBefore env pre ∧
        ¬∃ s' ∈ done, c ∈ env.findUnusual s' ∧ c ∉ explained env e := by
  simp [reported, unexplained]
  grind

/-- the reported list is sorted and duplicate-free -/
theorem reported_sorted (env : Env) (pre : List Entry) (e : Entry) (done : List Str) (s : Str) :
    (reported env pre e done s).Pairwise (· < ·) := by
  have := pairwise_toSorted natLt_total
    ((unexplained env e s).filter fun c => !(seenBefore env pre).contains c && !(done.flatMap (unexplained env e)).contains c)
  simpa [reported, natLt] using this

/-- the `unusual-character-in-translation` calls of a message: one per translation string that brings a new character, in
    order, naming exactly the new characters -/
theorem mem_unusualTags {env : Env} (hs : Sane env) (pre : List Entry) (e : Entry) (x : Emit) :
    ∀ (rest done : List Str), x ∈ unusualTags env pre e done rest ↔
      ∃ d s r names, rest = d ++ s :: r ∧ reported env pre e (done ++ d) s ≠ [] ∧
        ucNames env.charName (reported env pre e (done ++ d) s) = some names ∧
        x = tagR env.flag.db e tplColon .unusualCharacterInTranslation [.safe names]
  | [], done => by simp [unusualTags]
  | s :: rest, done => by
    have ih := mem_unusualTags hs pre e x rest (done ++ [s])
    simp only [unusualTags, List.mem_append, ih]
    constructor
    · rintro (h | ⟨d, s', r, names, h1, h2, h3, h4⟩)
      · split at h
        · simp at h
        · rename_i hne
          simp only [unusualTag] at h
          split at h
          · rename_i names hn
            exact ⟨[], s, rest, names, by simp, by simpa using hne, by simpa using hn, by simpa using h⟩
          · simp at h
      · exact ⟨s :: d, s', r, names, by simp [h1], by simpa using h2, by simpa using h3, h4⟩
    · rintro ⟨d, s', r, names, h1, h2, h3, h4⟩
      cases d with
      | nil =>
        simp only [List.nil_append, List.cons.injEq] at h1
        obtain ⟨rfl, rfl⟩ := h1
        left
        simp only [List.append_nil] at h2 h3
        have : (reported env pre e done s).isEmpty = false := by simpa using h2
        simp [this, unusualTag, h3, h4]
      | cons a d =>
        simp only [List.cons_append, List.cons.injEq] at h1
        obtain ⟨rfl, rfl⟩ := h1
        right
        exact ⟨d, s', r, names, rfl, by simpa using h2, by simpa using h3, h4⟩

/-- `unusual-character-in-translation` ⇔ a charset is usable and some translation string has an unusual character that
    is not explained by the msgid and was not reported earlier in this file (NOT gated by fuzzy) -/
theorem unusual_character_in_translation_iff {env : Env} (hs : Sane env) (ctx : Ctx) (pre : List Entry) (e : Entry) :
    has .unusualCharacterInTranslation (entryTags env ctx pre e) = true ↔
      isMessage e = true ∧ ctx.hasEncoding = true ∧
        ∃ d s r, translations e = d ++ s :: r ∧ reported env pre e d s ≠ [] := by
  rw [has_entryTags]
  simp only [has_flagTags_false env.flag e .unusualCharacterInTranslation (by decide),
    has_xmlTags env ctx e .unusualCharacterInTranslation (by decide)]
  have key : has .unusualCharacterInTranslation (unusualTags env pre e [] (translations e)) = true ↔
      ∃ d s r, translations e = d ++ s :: r ∧ reported env pre e d s ≠ [] := by
    simp only [has, List.any_eq_true]
    constructor
    · rintro ⟨x, hx, _⟩
      obtain ⟨d, s, r, names, h1, h2, _, _⟩ := (mem_unusualTags hs pre e x _ _).mp hx
      exact ⟨d, s, r, h1, by simpa using h2⟩
    · rintro ⟨d, s, r, h1, h2⟩
      have hall : ∀ c ∈ reported env pre e d s, (env.charName c).isSome := by
        intro c hc
        exact hs.names s c ((mem_reported env pre e d s c).mp hc).1
      obtain ⟨names, hn⟩ := Option.isSome_iff_exists.mp (ucNames_isSome env.charName _ hall)
      refine ⟨_, (mem_unusualTags hs pre e _ _ _).mpr ⟨d, s, r, names, h1, by simpa using h2, by simpa using hn, rfl⟩, ?_⟩
      simp
  simp [key]

end I18n.Props.C16
