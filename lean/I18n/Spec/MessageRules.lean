import I18n.Model.Msg
/-
Reference rules for the message-level diagnostics (DESIGN Appendix B; written from `data/tags` and the property statement):
one rule "tag ⇔ condition" per tag.  A rule speaks about an entry `e` at a position of the file — `pre` are the entries
before it — and never about accumulators: "second entry with its (msgid, msgctxt)" is a count over `pre`, "not reported earlier
in this file" is a membership in what the translations of `pre` contain.

Shared with the model: the rendering of a tag call (`tagR`, `Entry.repr`), the leaf scanners that stand for the regexes
(`Env.findUnusual`, `Env.searchMarker`, `Env.xmlGate`, `parseRange`, `classifyFormat`) — these have their own specifications in
Lemmas/MsgRegex.lean — and, for the flag tags that summarise several flags, the dictionary read-outs (`rangeTail`, `positivePairs`,
`conflictLoop`, `redundantLoop`) applied to dictionaries that are DEFINED here by a plain left fold over the distinct flags.
-/
namespace I18n.Spec.MessageRules
open I18n I18n.Msg
open I18n.Tags (Str lit Extra)

/-- a rule: the tag is present iff the condition holds -/
def rule (c : Bool) (t : Emit) : List Emit := if c then [t] else []

/-! ## which entries are messages -/

/-- Messages = non-obsolete entries that are not header entries (`msgid ""` without context) -/
def isMessage (e : Entry) : Bool := !e.obsolete && !(e.msgid = [] && e.msgctxt = none)

def key (e : Entry) : Str × Option Str := (e.msgid, e.msgctxt)

/-- `fuzzy ∈ flags` -/
def fuzzy (e : Entry) : Bool := e.flags.contains (lit "fuzzy")

/-- number of earlier messages with the same msgid and msgctxt -/
def earlierSame (pre : List Entry) (e : Entry) : Nat := (pre.filter fun m => isMessage m && key m = key e).length

/-! ## strings of a message -/

def someForm (e : Entry) : Bool := e.forms.any (· ≠ [])
def hasTranslation (e : Entry) : Bool := e.hasMsgstr || someForm e

/-- considered strings: msgid_plural if present; unless fuzzy: msgstr if non-empty, all forms if some form is non-empty -/
def considered (e : Entry) : List Str :=
  e.pluralList ++ (if fuzzy e then [] else e.msgstrList ++ (if someForm e then e.forms else []))

/-- translation strings in order: msgstr, then the forms by index -/
def translations (e : Entry) : List Str := e.msgstrList ++ (if someForm e then e.formsSorted else [])

/-! ## unusual characters -/

/-- unusual characters of the msgid / msgid_plural: these "explain" the same characters in the translation -/
def explained (env : Env) (e : Entry) : List Nat := env.findUnusual e.msgid ++ env.findUnusual (e.msgidPlural.getD [])

/-- unusual characters of a translation string that the msgid does not explain -/
def unexplained (env : Env) (e : Entry) (s : Str) : List Nat := (env.findUnusual s).filter fun c => !(explained env e).contains c

/-- every unexplained unusual character in a translation of an earlier message of this file -/
def seenBefore (env : Env) (pre : List Entry) : List Nat :=
  (pre.filter isMessage).flatMap fun m => (translations m).flatMap (unexplained env m)

/-- what is reported for translation string `s` of `e`, `done` being the translation strings of `e` before it -/
def reported (env : Env) (pre : List Entry) (e : Entry) (done : List Str) (s : Str) : List Nat :=
  toSorted natLt ((unexplained env e s).filter fun c =>
    !(seenBefore env pre).contains c && !(done.flatMap (unexplained env e)).contains c)

def unusualTag (env : Env) (e : Entry) (uc : List Nat) : List Emit :=
  match ucNames env.charName uc with
  | some names => [tagR env.flag.db e tplColon .unusualCharacterInTranslation [.safe names]]
  | none => []

/-- one `unusual-character-in-translation` per translation string that brings new characters -/
def unusualTags (env : Env) (pre : List Entry) (e : Entry) : List Str → List Str → List Emit
  | _, [] => []
  | done, s :: rest =>
    (let uc := reported env pre e done s
     if uc.isEmpty then [] else unusualTag env e uc) ++ unusualTags env pre e (done ++ [s]) rest

/-! ## flags -/

inductive FlagKind where
  | fuzzy | wrap | noWrap | markdownText
  /-- a `range:` flag, with `<min>..<max>` if it is well-formed and `min < max` -/
  | range (r : Option (Nat × Nat))
  /-- `[no-|possible-|impossible-]<fmt>-format` with `<fmt>` in data/string-formats; `tp` is the prefix without the dash -/
  | format (tp fmt : Str)
  | unknown
  deriving DecidableEq, Repr

def FlagKind.isRange : FlagKind → Bool
  | .range _ => true
  | _ => false

def flagKind (env : FlagEnv) (f : Str) : FlagKind :=
  if f = lit "fuzzy" then .fuzzy
  else if f = lit "wrap" then .wrap
  else if f = lit "no-wrap" then .noWrap
  else if startsWith env.rangePrefix f then .range (parseRange env f)
  else if endsWith formatSuffix f then
    match classifyFormat env f env.prefixes with
    | some (tp, fmt) => .format tp fmt
    | none => .unknown
  else if f = lit "markdown-text" then .markdownText
  else .unknown

/-- the valid range a flag designates -/
def rangeOf (env : FlagEnv) (f : Str) : Option (Nat × Nat) :=
  match flagKind env f with
  | .range r => r
  | _ => none

/-- the diagnostics about one distinct flag `f` of the list `flags` -/
def perFlag (env : FlagEnv) (e : Entry) (flags : List Str) (f : Str) : List Emit :=
  let dup := rule (decide (flags.count f > 1 ∧ f ≠ [])) (tagR env.db e tplColon .duplicateMessageFlag [.str f])
  match flagKind env f with
  | .wrap =>
    rule (flags.contains (lit "no-wrap")) (tagR env.db e tplColon .conflictingMessageFlags [.str (lit "wrap"), .str (lit "no-wrap")]) ++ dup
  | .range r =>
    rule e.msgidPlural.isNone (.tag .rangeFlagWithoutPluralString []) ++
      (match r with
       | none => tagR env.db e tplColon .invalidRangeFlag [.str f] :: dup
       | some _ => [])         -- valid range flags are counted per range, below
  | .unknown => tagR env.db e tplColon .unknownMessageFlag [.str f] :: dup
  | _ => dup

def formatStep (env : FlagEnv) (d : List ((Str × Str) × Str)) (f : Str) : List ((Str × Str) × Str) :=
  match flagKind env f with
  | .format tp fmt => assocSet (tp, fmt) f d
  | _ => d

/-- the dictionary `(kind, format) ↦ flag` of the format flags -/
def formatDict (env : FlagEnv) (fs : List Str) : List ((Str × Str) × Str) := fs.foldl (formatStep env) []

def rangeStep (env : FlagEnv) (flags : List Str) (d : List ((Nat × Nat) × List (Str × Nat))) (f : Str) :
    List ((Nat × Nat) × List (Str × Nat)) :=
  match rangeOf env f with
  | some r => rangeAdd r f (flags.count f) d
  | none => d

/-- the dictionary `range ↦ (flag text ↦ multiplicity)` of the valid range flags -/
def rangeDict (env : FlagEnv) (flags fs : List Str) : List ((Nat × Nat) × List (Str × Nat)) :=
  fs.foldl (rangeStep env flags) []

/-- all flag diagnostics of a message -/
def flagTags (env : FlagEnv) (e : Entry) : List Emit :=
  let fs := toSorted strLt e.flags
  fs.flatMap (perFlag env e e.flags)
    ++ rangeTail env e (rangeDict env e.flags fs)
    ++ positivePairs env e (formatFlagsOf (formatDict env fs) [])
    ++ conflictLoop env e (formatDict env fs)
    ++ redundantLoop env e (formatDict env fs)

/-- formats with a positive `<fmt>-format` flag, sorted -/
def positiveFormats (env : FlagEnv) (e : Entry) : List Str :=
  toSorted strLt (keysOf (formatFlagsOf (formatDict env (toSorted strLt e.flags)) []))

/-- the last valid range flag in sorted order determines the range handed to the format checks -/
def lastStep (env : FlagEnv) (r : Option (Nat × Nat)) (f : Str) : Option (Nat × Nat) :=
  match rangeOf env f with
  | some x => some x
  | none => r

def lastRange (env : FlagEnv) (fs : List Str) : Option (Nat × Nat) := fs.foldl (lastStep env) none

def info (env : FlagEnv) (e : Entry) : Info :=
  let r := lastRange env (toSorted strLt e.flags)
  ⟨fuzzy e, (r.map (·.1)).getD 0, r.map (·.2), positiveFormats env e⟩

/-! ## XML -/

/-- `malformed-xml` only if the extracted comment is `type: Content of: <name>…`, a charset is usable, and expat rejects the
    reported string (msgid: POT only; msgstr: msgid well-formed, not fuzzy, msgstr non-empty) -/
def xmlTags (env : Env) (ctx : Ctx) (e : Entry) : List Emit :=
  if env.xmlGate e.comment && ctx.hasEncoding then
    match env.xml e.msgid with
    | .syntaxError msg => rule ctx.isTemplate (tagR env.flag.db e tplColon .malformedXml [.safe msg])
    | .ok =>
      if !fuzzy e && e.hasMsgstr then
        match env.xml (e.msgstr.getD []) with
        | .syntaxError msg => [tagR env.flag.db e tplColon .malformedXml [.safe msg]]
        | _ => []
      else []
    | .other => []
  else []

/-- the format checkers consulted (property C14's stage): one per positive format flag that has a checker -/
def dispatch (env : Env) (e : Entry) : List Emit :=
  ((positiveFormats env.flag e).filter env.checkerKeys.contains).map fun f => Emit.fmt f (info env.flag e)

/-! ## the rule set -/

/-- first translation string with a marker line -/
def firstMarker (env : Env) (e : Entry) : Option Str := (translations e).findSome? env.searchMarker

/-- everything reported for the entry `e` that follows the entries `pre` -/
def entryTags (env : Env) (ctx : Ctx) (pre : List Entry) (e : Entry) : List Emit :=
  if !isMessage e then [] else
  let db := env.flag.db
  flagTags env.flag e
  ++ dispatch env e
  ++ xmlTags env ctx e
  ++ rule (earlierSame pre e = 1) (tagR db e tplPlain .duplicateMessageDefinition [])
  ++ rule (ctx.isTemplate && hasTranslation e) (tagR db e tplPlain .translationInTemplate [])
  ++ rule ((e.prevMsgctxt.isSome || e.prevMsgid.isSome || e.prevMsgidPlural.isSome) && !fuzzy e)
      (tagR db e tplPlain .strayPreviousMsgid [])
  ++ rule ((considered e).any fun s => leadingLf s != leadingLf e.msgid) (tagR db e tplPlain .inconsistentLeadingNewlines [])
  ++ rule ((considered e).any fun s => trailingLf s != trailingLf e.msgid) (tagR db e tplPlain .inconsistentTrailingNewlines [])
  ++ (if ctx.hasEncoding then unusualTags env pre e [] (translations e) else [])
  ++ (if fuzzy e then [] else
       markerTag db e (firstMarker env e)
       ++ rule (someForm e && e.forms.any (· = [])) (tagR db e tplPlain .partiallyTranslatedMessage []))

/-- `empty-file` ⇔ no message ∧ ¬(MO ∧ possible hidden strings) -/
def fileTags (ctx : Ctx) (file : List Entry) : List Emit :=
  rule (!file.any isMessage && !(ctx.isBinary && ctx.possibleHiddenStrings)) (.tag .emptyFile [])

/-- per-entry diagnostics, entry by entry (`pre` grows) -/
def entriesFrom (env : Env) (ctx : Ctx) : List Entry → List Entry → List (List Emit)
  | _, [] => []
  | pre, e :: rest => entryTags env ctx pre e :: entriesFrom env ctx (pre ++ [e]) rest

/-- the message-level diagnostics of a file: per entry, and for the file as a whole -/
def messageRules (env : Env) (ctx : Ctx) (file : List Entry) : List (List Emit) × List Emit :=
  (entriesFrom env ctx [] file, fileTags ctx file)

/-! ## side conditions on the environment under which no exception can occur -/

/-- no exception can leave the message checks: expat raises nothing but `ExpatError`, every character the
    unusual-character class produces has a name, no format name and no flag prefix contains a brace -/
structure Sane (env : Env) : Prop where
  xml : ∀ s, env.xml s ≠ .other
  names : ∀ s c, c ∈ env.findUnusual s → (env.charName c).isSome
  braces : ∀ f ∈ env.flag.formats, ∀ c ∈ f.1, c ≠ 123 ∧ c ≠ 125
  prefixBraces : ∀ p ∈ env.flag.prefixes, ∀ c ∈ p, c ≠ 123 ∧ c ≠ 125

end I18n.Spec.MessageRules
