/-!
# Reference semantics: CPython's `str % args` (`PyUnicode_Format`), as far as success/failure goes

Core Lean only.  This is *my model of the interpreter*, written after `Objects/unicodeobject.c`
(`PyUnicode_Format`, `unicode_format_arg`, `unicode_format_arg_parse`, `unicode_format_arg_format`,
`unicode_format_getnextarg`, `mainformatlong`, `formatfloat`, `formatchar`) as remembered, and validated
clause by clause against the running interpreter (CPython 3.12.1, 64-bit) by the `pyfmt-oracle` stream of the C12
check, which compares the outcome *and the kind of exception* on generated (format, arguments) pairs.

What is modelled: which (format string, arguments) pairs format successfully and which exception is raised
otherwise.  The produced text is not modelled; memory is unbounded (a width of 2^62 "succeeds").

Arguments are abstracted to the classes that `%` distinguishes:
* the right operand is a tuple of values, a `dict` with `str` keys, or a single value that is neither
  (`PyMapping_Check(args) && !PyTuple_Check(args) && !PyUnicode_Check(args)` — other mappings such as lists are not
  modelled);
* a value is an `int` (with its magnitude: `*` and `%c` have ranges, `%e` overflows), a finite `float`, a `str` of a
  given length (`%c` wants length 1), or `other` (an object that is not a number or string: `None`, a `dict`, …).
  `bool`, `bytes`, objects with `__index__`/`__float__`/raising `__str__` are not modelled.

The scanner keeps CPython's shape: a current character `ch` and the unread rest; `fmtcnt < 0` ("ran off the end")
is `[]` at a read.  Every read that fails ends in `ValueError: incomplete format` without further effects (checked
case by case against the C code: a stale `ch` can only re-trigger the digit and `.` tests, which have no effects).
-/
namespace I18n.Spec.CPyPercent

/-- `PY_SSIZE_T_MAX` of the interpreter that serves as oracle (64-bit) -/
def PY_SSIZE_T_MAX : Nat := 2 ^ 63 - 1
/-- C `INT_MAX` -/
def INT_MAX : Nat := 2 ^ 31 - 1

inductive Val
  | int (n : Int)
  | float
  | str (len : Nat)
  | other
  deriving DecidableEq, Repr, Inhabited

inductive Args
  | tuple (vs : List Val)
  | dict (m : List (List Char × Val))
  | single (v : Val)
  deriving Repr, Inhabited

inductive Err
  | notEnoughArgs      -- TypeError: not enough arguments for format string
  | notAllConverted    -- TypeError: not all arguments converted during string formatting
  | requiresMapping    -- TypeError: format requires a mapping
  | starWantsInt       -- TypeError: * wants int
  | badArgType         -- TypeError: %d format: a real number is required, not str / %c requires int or char / must be real number
  | incompleteKey      -- ValueError: incomplete format key
  | incompleteFormat   -- ValueError: incomplete format
  | unsupportedChar    -- ValueError: unsupported format character
  | widthTooBig        -- ValueError: width too big
  | precTooBig         -- ValueError: precision too big
  | keyError           -- KeyError
  | overflow           -- OverflowError (C ssize_t / C int / precision too large / %c range / int too large for float)
  | outOfFuel          -- not an outcome of CPython: the termination device of `run` ran out
  deriving DecidableEq, Repr, Inhabited

def Err.name : Err → String
  | .notEnoughArgs => "TypeError:not-enough" | .notAllConverted => "TypeError:not-all"
  | .requiresMapping => "TypeError:mapping" | .starWantsInt => "TypeError:star" | .badArgType => "TypeError:arg"
  | .incompleteKey => "ValueError:key" | .incompleteFormat => "ValueError:incomplete"
  | .unsupportedChar => "ValueError:unsupported" | .widthTooBig => "ValueError:width" | .precTooBig => "ValueError:precision"
  | .keyError => "KeyError" | .overflow => "OverflowError" | .outOfFuel => "out-of-fuel"

/-- `ctx.args / ctx.arglen / ctx.argidx`: a tuple with the items not yet fetched, or (`arglen = -1`) a single
    object with `argidx = -2` (not fetched) or `-1` (fetched) -/
inductive Cur
  | tup (remaining : List Val)
  | one (v : Val) (fetched : Bool)
  deriving Repr, Inhabited

structure Ctx where
  /-- `ctx.dict` -/
  dict : Option (List (List Char × Val))
  cur : Cur
  deriving Repr, Inhabited

def Ctx.init : Args → Ctx
  | .tuple vs => { dict := none, cur := .tup vs }
  | .dict m => { dict := some m, cur := .one .other false }     -- the dict itself is the single argument
  | .single v => { dict := none, cur := .one v false }

/-- `unicode_format_getnextarg` -/
def getNextArg (c : Ctx) : Except Err (Val × Ctx) :=
  match c.cur with
  | .tup (v :: vs) => .ok (v, { c with cur := .tup vs })
  | .tup [] => .error .notEnoughArgs
  | .one v false => .ok (v, { c with cur := .one v true })
  | .one _ true => .error .notEnoughArgs

/-- `ctx.argidx < ctx.arglen` -/
def Ctx.unconverted (c : Ctx) : Bool :=
  match c.cur with
  | .tup vs => !vs.isEmpty
  | .one _ fetched => !fetched

def lookup (m : List (List Char × Val)) (k : List Char) : Option Val :=
  match m with
  | [] => none
  | (k', v) :: rest => if k' = k then some v else lookup rest k

/-- `arg->ch >= '0' && arg->ch <= '9'` -/
def isDigit (ch : Char) : Bool := '0' ≤ ch && ch ≤ '9'
/-- `arg->ch - '0'` -/
def digitVal (ch : Char) : Nat := ch.toNat - '0'.toNat

/-- "Skip over balanced parentheses": the key and what follows the closing parenthesis; `none` = ran off the end -/
def readKey : Nat → List Char → Option (List Char × List Char)
  | _, [] => none
  | pcount, c :: cs =>
    if c = ')' then
      if pcount = 1 then some ([], cs)
      else (readKey (pcount - 1) cs).map fun (k, r) => (c :: k, r)
    else if c = '(' then (readKey (pcount + 1) cs).map fun (k, r) => (c :: k, r)
    else (readKey pcount cs).map fun (k, r) => (c :: k, r)

/-- "Parse flags": reads characters while they are `- + space # 0`; returns them, the first other character (consumed)
    and the rest; `none` = ran off the end -/
def readFlags : List Char → Option (List Char × Char × List Char)
  | [] => none
  | c :: cs =>
    if c = '-' ∨ c = '+' ∨ c = ' ' ∨ c = '#' ∨ c = '0' then (readFlags cs).map fun (f, x) => (c :: f, x)
    else some ([], c, cs)

/-- the digit loops of width (`max = PY_SSIZE_T_MAX`, `ValueError: width too big`) and precision (`max = INT_MAX`):
    `acc` holds the digits read so far, the next character is read first -/
def readDigits (max : Nat) (tooBig : Err) (acc : Nat) : List Char → Except Err (Nat × Char × List Char)
  | [] => .error .incompleteFormat
  | c :: cs =>
    if isDigit c then
      if acc > (max - digitVal c) / 10 then .error tooBig
      else readDigits max tooBig (acc * 10 + digitVal c) cs
    else .ok (acc, c, cs)

/-- the next character, or `incomplete format` -/
def readChar : List Char → Except Err (Char × List Char)
  | [] => .error .incompleteFormat
  | c :: cs => .ok (c, cs)

/-- "Get argument value from a dictionary" -/
def parseKey (cs : List Char) (c : Ctx) : Except Err (List Char × Ctx) :=
  match cs with
  | '(' :: r =>
    match c.dict with
    | none => .error .requiresMapping
    | some m =>
      match readKey 1 r with
      | none => .error .incompleteKey
      | some (key, r') =>
        match lookup m key with
        | none => .error .keyError
        | some v => .ok (r', { c with cur := .one v false })
  | _ => .ok (cs, c)

/-- "Parse width": a `*` fetches an `int` argument (`PyLong_AsSsize_t`), a numeral may be too big; the value itself
    (`arg->width`, and `F_LJUST` for a negative `*`) influences only the produced text and is not returned -/
def parseWidth (ch : Char) (rest : List Char) (c : Ctx) : Except Err (Char × List Char × Ctx) :=
  if ch = '*' then
    match getNextArg c with
    | .error e => .error e
    | .ok (.int n, c) =>
      -- PyLong_AsSsize_t
      if n < -(PY_SSIZE_T_MAX : Int) - 1 ∨ n > PY_SSIZE_T_MAX then .error .overflow
      else
        match readChar rest with
        | .error e => .error e
        | .ok (ch, rest) => .ok (ch, rest, c)
    | .ok (_, _) => .error .starWantsInt
  else if isDigit ch then
    match readDigits PY_SSIZE_T_MAX .widthTooBig (digitVal ch) rest with
    | .error e => .error e
    | .ok (_, ch, rest) => .ok (ch, rest, c)
  else .ok (ch, rest, c)

/-- "Parse precision" -/
def parsePrec (ch : Char) (rest : List Char) (c : Ctx) : Except Err (Option Nat × Char × List Char × Ctx) :=
  if ch = '.' then
    match readChar rest with
    | .error e => .error e
    | .ok (ch, rest) =>
      if ch = '*' then
        match getNextArg c with
        | .error e => .error e
        | .ok (.int n, c) =>
          -- _PyLong_AsInt
          if n < -(INT_MAX : Int) - 1 ∨ n > INT_MAX then .error .overflow
          else
            match readChar rest with
            | .error e => .error e
            | .ok (ch, rest) => .ok (some n.toNat, ch, rest, c)
        | .ok (_, _) => .error .starWantsInt
      else if isDigit ch then
        match readDigits INT_MAX .precTooBig (digitVal ch) rest with
        | .error e => .error e
        | .ok (p, ch, rest) => .ok (some p, ch, rest, c)
      else .ok (some 0, ch, rest, c)
  else .ok (none, ch, rest, c)

/-- `unicode_format_arg_parse` (the characters after the `%`, which is not followed by another `%`): `arg->prec`
    (`none` = -1), `arg->ch`, the unread rest, the context.  `arg->width` and `arg->flags` are parsed (a `*` width
    fetches its argument, a numeral can be too big) but influence only the produced text, so they are not returned. -/
def argParse (cs : List Char) (c : Ctx) : Except Err (Option Nat × Char × List Char × Ctx) :=
  match parseKey cs c with
  | .error e => .error e
  | .ok (cs, c) =>
    match readFlags cs with
    | none => .error .incompleteFormat
    | some (_flags, ch, rest) =>
      match parseWidth ch rest c with
      | .error e => .error e
      | .ok (ch, rest, c) =>
        match parsePrec ch rest c with
        | .error e => .error e
        | .ok (prec, ch, rest, c) =>
          -- Ignore "h", "l" and "L" format prefix
          if ch = 'h' ∨ ch = 'l' ∨ ch = 'L' then
            match readChar rest with
            | .error e => .error e
            | .ok (ch, rest) => .ok (prec, ch, rest, c)
          else .ok (prec, ch, rest, c)

/-- the largest magnitude that `PyLong_AsDouble` converts: `int` → `float` overflows from `2^1024 - 2^970` on
    (round-half-even at the top binade) -/
def floatLimit : Nat := 2 ^ 1024 - 2 ^ 970

/-- `unicode_format_arg_format`'s `switch (arg->ch)` on the fetched value -/
def formatValue (ch : Char) (prec : Option Nat) (v : Val) : Except Err Unit :=
  if ch = 's' ∨ ch = 'r' ∨ ch = 'a' then .ok ()
  else if ch = 'd' ∨ ch = 'i' ∨ ch = 'u' ∨ ch = 'o' ∨ ch = 'x' ∨ ch = 'X' then
    -- mainformatlong
    let number : Bool :=
      match v with
      | .int _ => true
      | .float => ch = 'd' ∨ ch = 'i' ∨ ch = 'u'       -- PyNumber_Long; `o x X` want __index__
      | _ => false
    if !number then .error .badArgType
    else
      match prec with
      | some p => if p > INT_MAX - 3 then .error .overflow else .ok ()    -- "precision too large"
      | none => .ok ()
  else if ch = 'e' ∨ ch = 'E' ∨ ch = 'f' ∨ ch = 'F' ∨ ch = 'g' ∨ ch = 'G' then
    match v with
    | .int n => if n.natAbs ≥ floatLimit then .error .overflow else .ok ()
    | .float => .ok ()
    | _ => .error .badArgType
  else if ch = 'c' then
    match v with
    | .int n => if n < 0 ∨ n ≥ 0x110000 then .error .overflow else .ok ()
    | .str 1 => .ok ()
    | _ => .error .badArgType
  else .error .unsupportedChar        -- including `%` after a key, flag, width, precision or length

/-- `unicode_format_arg`, the `%` consumed and the next character not `%` -/
def formatArg (cs : List Char) (c : Ctx) : Except Err (List Char × Ctx) :=
  match argParse cs c with
  | .error e => .error e
  | .ok (prec, ch, rest, c) =>
    match getNextArg c with
    | .error e => .error e
    | .ok (v, c) =>
      match formatValue ch prec v with
      | .error e => .error e
      | .ok () =>
        if c.dict.isSome && c.unconverted then .error .notAllConverted
        else .ok (rest, c)

/-- the main loop of `PyUnicode_Format` and its final test; `fuel` is a termination device -/
def run : Nat → List Char → Ctx → Except Err Unit
  | 0, _, _ => .error .outOfFuel
  | _ + 1, [], c => if c.unconverted && c.dict.isNone then .error .notAllConverted else .ok ()
  | fuel + 1, ch :: cs, c =>
    if ch ≠ '%' then run fuel cs c
    else
      match cs with
      | '%' :: rest => run fuel rest c              -- `%%`
      | _ =>
        match formatArg cs c with
        | .error e => .error e
        | .ok (rest, c) => run fuel rest c

/-- `s % args`: success or the exception -/
def format (s : List Char) (a : Args) : Except Err Unit := run (s.length + 1) s (Ctx.init a)

end I18n.Spec.CPyPercent
