/-
Reference semantics of Python's backtracking regex engine for the fragment the Plural-Forms header pattern
(`gettext._parse_plural_forms`, lib/gettext.py) uses.  Core Lean only.

The AST is what `re._parser.parse` produces (tools/translate/pluralforms2lean.py dumps it from the live compiled pattern):
LITERAL, IN / NOT_LITERAL (a possibly negated set of code points and ranges), greedy MAX_REPEAT over ONE single-character
item (`rep`), greedy MAX_REPEAT 0 1 (`opt`), SUBPATTERN n (`group`), juxtaposition (`seq`).

Semantics = "list of successes": `runs r s` lists every way `r` can match a prefix of `s`, IN THE ORDER a backtracking
engine tries them (greedy repetition: longest first; `x?`: with `x` first; sequence: alternatives of the left part outermost).
`pattern.match` reports the FIRST success at the given position, `pattern.search` the first success at the LEFTMOST start
position that has one.  This is the textbook priority semantics of Perl-style engines; sre implements it (trusted).
-/
namespace I18n.Spec.PluralFormsRe

inductive ClsItem where
  | chr (c : Nat)                -- LITERAL inside a set (code point)
  | range (lo hi : Nat)          -- RANGE, inclusive code points
  deriving DecidableEq, Repr, Inhabited

def ClsItem.has : ClsItem → Char → Bool
  | .chr x, c => c.toNat == x
  | .range lo hi, c => decide (lo ≤ c.toNat) && decide (c.toNat ≤ hi)

/-- `[...]` / `[^...]` -/
structure Cls where
  neg : Bool
  items : List ClsItem
  deriving DecidableEq, Repr, Inhabited

def Cls.has (k : Cls) (c : Char) : Bool := (k.items.any fun i => i.has c) != k.neg

inductive Re where
  | eps
  | lit (c : Nat)                                     -- LITERAL (code point)
  | set (k : Cls)                                     -- IN, NOT_LITERAL
  | rep (k : Cls) (min : Nat) (max : Option Nat)      -- MAX_REPEAT min max over one single-character item; greedy
  | opt (a : Re)                                      -- MAX_REPEAT 0 1; greedy
  | seq (a b : Re)
  | group (n : Nat) (a : Re)                          -- SUBPATTERN n
  deriving DecidableEq, Repr, Inhabited

/-- group number ↦ captured text -/
abbrev Caps := List (Nat × List Char)

/-- one way of matching: (matched text, rest of the subject, captures) -/
abbrev Run := List Char × List Char × Caps

/-- length of the longest prefix all of whose characters satisfy `p` -/
def spanLen (p : Char → Bool) : List Char → Nat
  | [] => 0
  | c :: r => if p c then spanLen p r + 1 else 0

/-- every way `r` matches a prefix of `s`, in the engine's order of preference -/
def runs : Re → List Char → List Run
  | .eps, s => [([], s, [])]
  | .lit x, s =>
    match s with
    | c :: r => if c.toNat = x then [([c], r, [])] else []
    | [] => []
  | .set k, s =>
    match s with
    | c :: r => if k.has c then [([c], r, [])] else []
    | [] => []
  | .rep k mn mx, s =>
    let avail := spanLen k.has s
    let top := match mx with | none => avail | some m => min avail m
    -- top, top-1, …, mn characters
    (List.range (top + 1 - mn)).map fun d => (s.take (top - d), s.drop (top - d), [])
  | .opt a, s => runs a s ++ [([], s, [])]
  | .seq a b, s =>
    (runs a s).flatMap fun (m1, r1, c1) => (runs b r1).map fun (m2, r2, c2) => (m1 ++ m2, r2, c1 ++ c2)
  | .group n a, s => (runs a s).map fun (m, r, c) => (m, r, (n, m) :: c)

/-- `pattern.match(s)`: the preferred way of matching at the start of `s` -/
def matchAt (r : Re) (s : List Char) : Option Run := (runs r s).head?

/-- a successful `search`: `subject = pre ++ matched ++ post` -/
structure Found where
  pre : List Char
  matched : List Char
  post : List Char
  caps : Caps
  deriving DecidableEq, Repr

/-- `pattern.search(s)`: try the start positions from left to right (the one after the last character included);
    `skipped` = the characters already passed over, most recent first -/
def searchFrom (r : Re) : List Char → List Char → Option Found
  | skipped, s =>
    match matchAt r s with
    | some (m, rest, caps) => some ⟨skipped.reverse, m, rest, caps⟩
    | none =>
      match s with
      | [] => none
      | c :: t => searchFrom r (c :: skipped) t

def search (r : Re) (s : List Char) : Option Found := searchFrom r [] s

/-- `match.group(n)` -/
def Found.group (f : Found) (n : Nat) : Option (List Char) :=
  match f.caps.find? (fun p => p.1 == n) with
  | some p => some p.2
  | none => none

/-- Declarative reading of `search`: the subject splits as `pre ++ matched ++ post`, the engine's preferred match at that
    position is `matched`, and NO earlier start position admits any match at all. -/
def IsLeftmost (r : Re) (s : List Char) (f : Found) : Prop :=
  s = f.pre ++ (f.matched ++ f.post) ∧
  matchAt r (f.matched ++ f.post) = some (f.matched, f.post, f.caps) ∧
  ∀ p q, s = p ++ q → p.length < f.pre.length → runs r q = []

end I18n.Spec.PluralFormsRe
