import I18n.Model.Charset
/-!
# A reference iconv(3) for a charset described unit by unit (Spec side of the iconv-backed codecs)

`lib/iconv.py` knows nothing about the charset; glibc knows nothing about the loop.  This is the environment the loop theorems
are instantiated with: an iconv built from a description of the charset (how the head of a byte string parses into one unit;
which bytes a character is written as) that converts unit by unit, checks the room first as glibc's conversion skeleton
(`iconv/skeleton.c`, `iconv/loop.c`) does, and reports E2BIG / EILSEQ / EINVAL with the offending unit left unconsumed.
Tied to the real glibc call by call (stream `charset-reficonv`).  Core Lean only.
-/
namespace I18n.Charset

/-- what stands at the head of a byte string -/
inductive Unit1 where
  | done
  | char (len : Nat) (ch : Nat)
  | illegal
  | incomplete
  deriving DecidableEq, Repr

abbrev UnitFn := List UInt8 → Unit1


/-- decoding, unit by unit: the text, or the offset of the offending unit and whether it is merely incomplete -/
def unitDecodeLoop (unit : UnitFn) : Nat → Nat → List UInt8 → Except (Nat × Bool) (List Nat)
  | 0, i, bs => if bs.isEmpty then .ok [] else .error (i, false)
  | fuel + 1, i, bs =>
    match unit bs with
    | .done => .ok []
    | .illegal => .error (i, false)
    | .incomplete => .error (i, true)
    | .char len ch => (unitDecodeLoop unit fuel (i + len) (bs.drop len)).map (ch :: ·)

/-- a wide character as glibc stores it (`WCHAR_T` = UCS-4, little endian here) -/
def le32 (c : Nat) : List UInt8 := [UInt8.ofNat c, UInt8.ofNat (c / 256), UInt8.ofNat (c / 65536), UInt8.ofNat (c / 16777216)]


/-- one conversion call `charset → WCHAR_T` with `room` bytes of output: unit by unit; before each unit the room for one wide
    character is checked (glibc's skeleton: `outptr + MIN_NEEDED_OUTPUT > outend` → `__GCONV_FULL_OUTPUT`), then the unit is
    parsed; an offending unit is left unconsumed -/
def refDecGo (unit : UnitFn) : Nat → List UInt8 → Nat → Nat → Call
  | 0, _, k, _ => ⟨.ok, k, []⟩
  | fuel + 1, bs, k, room =>
    match unit bs with
    | .done => ⟨.ok, k, []⟩
    | .illegal => if room < 4 then ⟨.e2big, k, []⟩ else ⟨.eilseq, k, []⟩
    | .incomplete => if room < 4 then ⟨.e2big, k, []⟩ else ⟨.einval, k, []⟩
    | .char len ch =>
      if room < 4 then ⟨.e2big, k, []⟩
      else
        let r := refDecGo unit fuel (bs.drop len) (k + len) (room - 4)
        ⟨r.rc, r.consumed, le32 ch ++ r.written⟩

/-- the reference iconv as the loop sees it: the reset call succeeds, the flush call has nothing to add -/
def refDecStep (unit : UnitFn) (bs : List UInt8) : Step := fun told =>
  ⟨none, refDecGo unit bs.length bs 0 told, ⟨.ok, 0, []⟩⟩


/-- encoding, character by character, with any per-character rule (`some []` = dropped) -/
def encodeAllFrom (enc : Nat → Option (List UInt8)) (i : Nat) : List Nat → Except Nat (List UInt8)
  | [] => .ok []
  | c :: cs =>
    match enc c with
    | none => .error i
    | some bs => (encodeAllFrom enc (i + 1) cs).map (bs ++ ·)

/-- one conversion call `UTF-32 → charset` with `room` bytes of output: before each character glibc's skeleton wants room for
    one byte (`outptr >= outend` → `__GCONV_FULL_OUTPUT`), then the character is looked up, then the room for its bytes is checked -/
def refEncGo (enc : Nat → Option (List UInt8)) : List Nat → Nat → Nat → Call
  | [], k, _ => ⟨.ok, 4 * k, []⟩
  | c :: cs, k, room =>
    if room = 0 then ⟨.e2big, 4 * k, []⟩
    else match enc c with
      | none => ⟨.eilseq, 4 * k, []⟩
      | some u =>
        if room < u.length then ⟨.e2big, 4 * k, []⟩
        else
          let r := refEncGo enc cs (k + 1) (room - u.length)
          ⟨r.rc, r.consumed, u ++ r.written⟩

def refEncStep (enc : Nat → Option (List UInt8)) (cs : List Nat) : Step := fun told =>
  ⟨none, refEncGo enc cs 0 told, ⟨.ok, 0, []⟩⟩


/-- `eucTwUnit` as a unit description -/
def eucUnitFn (cns : CnsTable) : UnitFn := fun bs =>
  match eucTwUnit cns bs with
  | .done => .done
  | .ascii c => .char 1 c
  | .two _ _ ch => .char 2 ch
  | .four _ _ _ ch => .char 4 ch
  | .illegal => .illegal
  | .incomplete => .incomplete


def tableUnitFn (table : List Nat) : UnitFn := fun bs =>
  match bs with
  | [] => .done
  | b :: _ => match table[b.toNat]? with
    | none => .illegal
    | some c => if c = undefinedCp then .illegal else .char 1 c


/-- what glibc writes for a character through a single-byte table: its byte; nothing for a TAG character without one -/
def sbEncodeChar (table : List Nat) (c : Nat) : Option (List UInt8) :=
  match encLookup table c with
  | some b => some [b]
  | none => if isTag c then some [] else none


end I18n.Charset
