import I18n.Model.PluralParse
/-!
Context-free derivation, generically: `Gen ps syms ts` — the sentential form `syms` (grammar symbols by name)
derives the token list `ts` in the grammar whose productions are `ps`.  A symbol that is the name of a token kind
derives exactly the tokens of that kind (`kindName`: the rply token name of each token, i.e. the name of the
lexer rule that produces it).  Used with the productions dumped from the live parser: the language the tool's
grammar *declares*, with no precedence, no tables, no hand-written transcription.
-/
namespace I18n.Spec
open I18n I18n.PluralParse

/-- rply token name of a token = name of the lexer rule in lib/intexpr.py that matches its spelling -/
def kindName : Tok → String
  | .qm => "IF"
  | .colon => "ELSE"
  | .bool .or => "OR"
  | .bool .and => "AND"
  | .cmp .eq => "EQ"
  | .cmp .noteq => "EQ"
  | .cmp _ => "CMP"
  | .bin .add => "ADDSUB"
  | .bin .sub => "ADDSUB"
  | .bin _ => "MULDIV"
  | .not => "NOT"
  | .lpar => "LPAR"
  | .rpar => "RPAR"
  | .var => "VAR"
  | .int _ => "INT"

inductive Gen (ps : List (String × List String)) : List String → List Tok → Prop
  | nil : Gen ps [] []
  | term (t : Tok) {syms ts} : Gen ps syms ts → Gen ps (kindName t :: syms) (t :: ts)
  | prod {lhs rhs syms ts1 ts2} : (lhs, rhs) ∈ ps → Gen ps rhs ts1 → Gen ps syms ts2 → Gen ps (lhs :: syms) (ts1 ++ ts2)

end I18n.Spec
