import I18n.Model.Tags
/-
Reference vocabulary for C02 (shares only the data types `Str`, `UnicodeDB`, `Extra`, `Letter` with the model):
which characters must never reach stdout from file content, what an escaped extra looks like (a *token*), and the
shape of an output line.
-/
namespace I18n.Spec.Tags
open I18n.Tags

/-- C0 controls (newline, ESC, … included), DEL, C1 controls -/
def isControl (c : Nat) : Bool := c < 32 || (127 ≤ c && c ≤ 159)

/-- U+2028 LINE SEPARATOR, U+2029 PARAGRAPH SEPARATOR -/
def isSeparator (c : Nat) : Bool := c = 0x2028 || c = 0x2029

def isSurrogate (c : Nat) : Bool := 0xD800 ≤ c && c ≤ 0xDFFF

/-- the characters the property forbids in output that stems from file content: controls, DEL, (invisible)
    format characters (general category Cf, a parameter), line/paragraph separators, lone surrogates -/
def hostile (db : UnicodeDB) (c : Nat) : Bool :=
  isControl c || db.format c || isSeparator c || isSurrogate c

/-- no hostile character -/
def Clean (db : UnicodeDB) (s : Str) : Prop := ∀ c ∈ s, hostile db c = false

/-- what the theorems assume about the Unicode parameter; both clauses are decidable over range tables and are
    discharged for the tables dumped from the running interpreter (`Props.C02.unicode_sound`) -/
structure Sound (db : UnicodeDB) : Prop where
  ascii_not_format : ∀ c, 32 ≤ c → c ≤ 126 → db.format c = false
  printable_not_hostile : ∀ c, db.printable c = true → hostile db c = false

def isHex (d : Nat) : Bool := (48 ≤ d && d ≤ 57) || (97 ≤ d && d ≤ 102)

/-- one item of a Python string-literal body delimited by `q`: a harmless character other than the quote and the
    backslash, or one of the escape sequences `repr` emits -/
inductive Item (db : UnicodeDB) (q : Nat) : Str → Prop
  | plain (c : Nat) : c ≠ q → c ≠ 92 → hostile db c = false → Item db q [c]
  | quote : Item db q [92, q]
  | backslash : Item db q [92, 92]
  | tab : Item db q [92, 116]
  | newline : Item db q [92, 110]
  | cr : Item db q [92, 114]
  | hex (lead : Nat) (ds : Str) :
      (lead = 120 ∧ ds.length = 2) ∨ (lead = 117 ∧ ds.length = 4) ∨ (lead = 85 ∧ ds.length = 8) →
      (∀ d ∈ ds, isHex d = true) → Item db q (92 :: lead :: ds)

inductive Body (db : UnicodeDB) (q : Nat) : Str → Prop
  | nil : Body db q []
  | cons {i rest : Str} : Item db q i → Body db q rest → Body db q (i ++ rest)

/-- the three forms an escaped (non-`safestr`) extra can take -/
inductive Token (db : UnicodeDB) : Str → Prop
  | word (s : Str) : s ≠ [] → (∀ c ∈ s, isSafeChar c = true) → Token db s
  | emptyString : Token db (lit "(empty string)")
  | quoted (q : Nat) (body : Str) : q = 39 ∨ q = 34 → Body db q body → Token db (q :: (body ++ [q]))

/-- `<letter>: <path>: <tag>[ <extra> …]` -/
def lineOf (letter : Nat) (path name : Str) (extras : List Str) : Str :=
  [letter] ++ lit ": " ++ path ++ lit ": " ++ name ++
    (if extras = [] then [] else 32 :: (extras.intersperse [32]).flatten)

/-- number of newline characters -/
def newlines (s : Str) : Nat := s.count 10

/-- P < I < W < E -/
def letterRank : Char → Option Nat
  | 'P' => some 0 | 'I' => some 1 | 'W' => some 2 | 'E' => some 3 | _ => none

end I18n.Spec.Tags
