/-
Vocabulary of the safestr-site inventory (C02).  `Generated/SafestrSites.lean` is a list of `Site`s written by
tools/translate/tagsites2lean.py; the classifier's rules are documented there and belong to the trusted base.
-/
namespace I18n.Spec

/-- where the text handed to `tags.safestr` (or used as a `safe_format` template) comes from -/
inductive Provenance where
  | literal          -- string constants of the tool
  | int              -- decimal integers (and literal text around them)
  | toolTable        -- class-attribute messages, C/Python type names, registry-checked flag names
  | regexGuarded     -- admitted only after `re.fullmatch` of a printable-ASCII-only pattern
  | libraryMessage   -- strerror(3), moparser / expat diagnostics
  | unicodeName      -- `U+XXXX` + Unicode character names
  | formatOfEscaped  -- `template.format(...)` over arguments that all went through `_escape` (inside `safe_format`)
  | fileDerived      -- text of the checked file
  | unknown          -- the classifier could not tell
  deriving DecidableEq, Repr, Inhabited

/-- tool-generated text: everything except file content and "could not tell" -/
def Provenance.toolText : Provenance → Bool
  | .fileDerived => false
  | .unknown => false
  | _ => true

structure Site where
  /-- `<file>:<enclosing function>:<safestr|safe_format|indirect>(<argument source text>)` -/
  key : String
  provenance : Provenance
  rules : String
  deriving Repr

end I18n.Spec
