import I18n.Model.Locale
/-
Reference verdict for the language tags (clause 3 of C19), written from the property statement and `data/tags`:
one rule "tag ⇔ condition" per tag, in the order of emission.  It is built on the leaf functions that clauses 1 and 2
specify independently (`parseLanguage` — the locale grammar; `fixCodes` — the ISO tables; `getLanguageForName` — the
name table) and on the path helpers; it does NOT use any of the stage functions of the `check_language` model.
-/
namespace I18n.Spec.LocaleTags
open I18n I18n.Locale

/-! ### the sources -/

/-- a locale name with known codes, made canonical -/
def known (s : List Char) : Option Language :=
  match parseLanguage s with
  | none => none
  | some l =>
    match fixCodes l with
    | .ok (l', _) => some l'
    | .error _ => none

def dropEncoding (l : Language) : Language := { l with enc := none }
/-- `@euro` is the one modifier that does not affect translation -/
def dropEuro (l : Language) : Language := { l with mod := if l.mod = some "euro".toList then none else l.mod }

/-- the directory in front of the first `LC_MESSAGES` component of the normalised path (none if it comes first) -/
def lcMessagesDir (path : List Char) : Option (List Char) :=
  let comps := splitOn '/' (normpath path)
  let i := comps.findIdx (· = "LC_MESSAGES".toList)
  if 0 < i ∧ i < comps.length then some (comps.getD (i - 1) []) else none

/-- the base name without `.po` -/
def poStem (path : List Char) : Option (List Char) :=
  if (splitext (basename path)).2 = ".po".toList then some (splitext (basename path)).1 else none

/-- how much a source outside the header is to be believed -/
inductive Strength where
  | strong   -- `-l`, or a directory in front of LC_MESSAGES
  | weak     -- the base name of the file
  deriving DecidableEq, Repr

structure Outside where
  language : Language
  source : String
  strength : Strength

/-- precedence: the option, else the `LC_MESSAGES` directory (encoding and `@euro` dropped), else the base name of a `.po`
    file (never with an encoding; `@euro` dropped) -/
def outside (inp : Input) : Option Outside :=
  match inp.optLanguage with
  | some l => some ⟨l, "command-line", .strong⟩
  | none =>
    match (lcMessagesDir inp.path).bind known with
    | some l => some ⟨dropEuro (dropEncoding l), "pathname", .strong⟩
    | none =>
      match (poStem inp.path).bind known with
      | some l => if l.enc.isSome then none else some ⟨dropEuro l, "pathname", .weak⟩
      | none => none

/-- the value of the `Language` field: the one distinct value, if there is exactly one -/
def fieldValue (ms : List (List Char)) : Option (List Char) :=
  match ms.eraseDups with
  | [m] => some m
  | _ => none

/-- several different values -/
def conflicting (ms : List (List Char)) : Bool := ms.eraseDups.length > 1

/-- the field is absent for the purposes of `no-language-header-field`: no value, or an empty one, and no conflict -/
def fieldAbsent (ms : List (List Char)) : Bool := (fieldValue ms).getD [] = [] ∧ ¬ conflicting ms

/-- the language an English name identifies -/
def named (munch : List Char → List Char) (v : List Char) : Option Language :=
  match getLanguageForName (munch v) with
  | .ok l => some l
  | .error _ => none

/-- what a non-empty field value denotes before normalisation: itself as a locale name, else the language its English
    name identifies -/
def candidate (munch : List Char → List Char) (v : List Char) : Option Language :=
  match parseLanguage v with
  | some l => some l
  | none => named munch v

/-- the canonical form of the candidate, with whether `fix_codes` had to change a code -/
def canonical (l : Language) : Option (Language × Bool) :=
  match fixCodes (dropEuro (dropEncoding l)) with
  | .ok r => some r
  | .error _ => none

/-- the language the field names, in the form in which languages are compared -/
def fieldLanguage (munch : List Char → List Char) (ms : List (List Char)) : Option Language :=
  match fieldValue ms with
  | none => none
  | some v => if v = [] then none else ((candidate munch v).bind canonical).map (·.1)

/-- LibreOffice layout: a path component that IS the field's locale (written with `_` or `-`) outranks the base name -/
def libreOfficeException (o : Outside) (m : Language) (path : List Char) : Bool :=
  o.strength = .weak ∧
    (isInfixOf ('/' :: (m.str ++ ['/'])) path ∨ isInfixOf (('/' :: (m.str ++ ['/'])).map (fun c => if c = '_' then '-' else c)) path)

/-- the outside source after the LibreOffice exception -/
def effectiveOutside (munch : List Char → List Char) (inp : Input) : Option Outside :=
  match outside inp with
  | none => none
  | some o =>
    match fieldLanguage munch inp.metaLanguages with
    | none => some o
    | some m => if libreOfficeException o m inp.path then none else some o

/-- the language X-Poedit-Language names: considered only if the field has one distinct value and X-Poedit-Country at most one -/
def poeditValueOf (pls pcs : List (List Char)) : Option (List Char) :=
  match pls.eraseDups with
  | [p] => if pcs.eraseDups.length ≤ 1 then some p else none
  | _ => none

def poeditValue (inp : Input) : Option (List Char) := poeditValueOf inp.poeditLanguages inp.poeditCountries

/-- the language of the file before X-Poedit-Language is consulted, with its source -/
def primary (munch : List Char → List Char) (inp : Input) : Option (Language × String) :=
  match effectiveOutside munch inp with
  | some o => some (o.language, o.source)
  | none => (fieldLanguage munch inp.metaLanguages).map (fun m => (m, "Language header field"))

/-- the language of the file -/
def finalLanguage (munch : List Char → List Char) (inp : Input) : Option Language :=
  match primary munch inp with
  | some (l, _) => some l
  | none => (poeditValue inp).bind (named munch)

/-! ### the rules: (condition, tag) in the order of emission -/

def when (c : Bool) (t : TagCall) : List TagCall := if c then [t] else []

def fieldRules (munch : List Char → List Char) (v : List Char) : List TagCall :=
  -- invalid-language: not a locale name …
  (match parseLanguage v, named munch v with
    | some _, _ => []
    | none, some l => [tag "invalid-language" [.str v, sExtra "=>", langExtra l]]       -- … but an English name identifies it
    | none, none => [tag "invalid-language" [.str v]])
  ++ (match candidate munch v with
    | none => []
    | some l =>
      when l.enc.isSome (tag "encoding-in-language-header-field" [.str v])
      ++ when (l.mod = some "euro".toList) (tag "language-variant-does-not-affect-translation" [.str v])
      -- invalid-language: … or a locale name whose codes are unknown, or not canonical (then the correction is offered)
      ++ (match canonical l with
        | none => [tag "invalid-language" [.str v]]
        | some (l', changed) => when changed (tag "invalid-language" [.str v, sExtra "=>", langExtra l'])))

def disparity (l : Language) (src : String) (m : Language) (msrc : String) : TagCall :=
  tag "language-disparity" [langExtra l, .safe ("(" ++ src ++ ")").toList, sExtra "!=", langExtra m, .safe ("(" ++ msrc ++ ")").toList]

def verdictTags (munch : List Char → List Char) (inp : Input) : List TagCall :=
  let ms := inp.metaLanguages
  when (ms.length > 1) (tag "duplicate-header-field-language" [])
  ++ (if inp.isTemplate then when (fieldValue ms).isNone (tag "no-language-header-field" []) else
    (match fieldValue ms with
      | none => []
      | some v => if v = [] then [] else fieldRules munch v)
    -- language-disparity: a source outside the header and the field name different languages
    ++ (match effectiveOutside munch inp, fieldLanguage munch ms with
      | some o, some m => when (o.language ≠ m) (disparity o.language o.source m "Language header field")
      | _, _ => [])
    ++ when (inp.poeditLanguages.length > 1) (tag "duplicate-header-field-x-poedit" [sExtra "X-Poedit-Language"])
    ++ when (inp.poeditCountries.length > 1) (tag "duplicate-header-field-x-poedit" [sExtra "X-Poedit-Country"])
    ++ (match poeditValue inp with
      | none => []
      | some p =>
        match named munch p with
        | none => [tag "unknown-poedit-language" [.str p]]
        | some pl =>
          match primary munch inp with
          | none => []
          | some (l, src) => when (l.ll ≠ pl.ll) (disparity l src pl "X-Poedit-Language header field"))
    ++ (match finalLanguage munch inp with
      | none =>
        when (fieldAbsent ms) (tag "no-language-header-field" [])
        -- no source names a language: say so
        ++ [tag "unable-to-determine-language" []]
      | some l => when (fieldAbsent ms) (tag "no-language-header-field" [safeExtra "Language:", langExtra l])))

/-- `ctx.language` -/
def verdictLanguage (munch : List Char → List Char) (inp : Input) : Option Language :=
  if inp.isTemplate then none else finalLanguage munch inp

end I18n.Spec.LocaleTags
