/-!
# `Spec.FmtCompare` — in which ways two argument signatures differ

Independent of the model (`I18n.FmtCheck`).  A *signature* is what a format string consumes:

* positional (C; Python `%` without keys): the list of argument types, argument 1 first;
* named (Python `%` with keys, python-brace, perl-brace): a finite map from argument name (python-brace: number or
  name) to its type (python-brace: the set of types it may have; perl-brace: nothing).

`src` is the string the programme was written with (msgid / msgid_plural), `dst` its translation.
-/
namespace I18n.Spec.FmtCompare

/-! ## positional -/

/-- the translation consumes more arguments -/
def Excess {τ : Type} (src dst : List τ) : Prop := dst.length > src.length

/-- the translation consumes fewer arguments -/
def Fewer {τ : Type} (src dst : List τ) : Prop := dst.length < src.length

/-- the number of arguments differs -/
def NumberDiffers {τ : Type} (src dst : List τ) : Prop := dst.length ≠ src.length

/-- argument `i + 1` is consumed by both strings, at different types `a` (source) and `b` (translation) -/
def TypeDiffAt {τ : Type} (src dst : List τ) (i : Nat) (a b : τ) : Prop :=
  src[i]? = some a ∧ dst[i]? = some b ∧ a ≠ b

/-- positions at which both strings consume an argument, with different types — as a list, in increasing order -/
def typeDiffs {τ : Type} [DecidableEq τ] : List τ → List τ → List (τ × τ)
  | a :: as, b :: bs => (if a ≠ b then [(a, b)] else []) ++ typeDiffs as bs
  | _, _ => []

/-! ## named -/

/-- a finite map as an association list -/
abbrev Named (κ τ : Type) := List (κ × τ)

def keys {κ τ : Type} (m : Named κ τ) : List κ := m.map (·.1)

/-- the value at `k` (first binding) -/
def valueAt {κ τ : Type} [DecidableEq κ] (m : Named κ τ) (k : κ) : Option τ :=
  match m with
  | [] => none
  | (k', v) :: rest => if k' = k then some v else valueAt rest k

/-- the translation refers to an argument the source does not have -/
def Unknown {κ τ : Type} (src dst : Named κ τ) (k : κ) : Prop := k ∈ keys dst ∧ k ∉ keys src

/-- the translation does not refer to an argument of the source -/
def Missing {κ τ : Type} (src dst : Named κ τ) (k : κ) : Prop := k ∈ keys src ∧ k ∉ keys dst

/-- both refer to `k`, at types `a` (source) and `b` (translation) that are not compatible -/
def TypeDiffKey {κ τ : Type} [DecidableEq κ] (compat : τ → τ → Prop) (src dst : Named κ τ) (k : κ) (a b : τ) : Prop :=
  valueAt src k = some a ∧ valueAt dst k = some b ∧ ¬ compat a b

/-- exactly one argument of the source is not referred to, namely `k` -/
def OnlyMissing {κ τ : Type} (src dst : Named κ τ) (k : κ) : Prop :=
  Missing src dst k ∧ ∀ k', Missing src dst k' → k' = k

/-- the two maps have the same keys, with compatible values -/
def SameNamed {κ τ : Type} [DecidableEq κ] (compat : τ → τ → Prop) (src dst : Named κ τ) : Prop :=
  (∀ k, k ∈ keys src ↔ k ∈ keys dst) ∧ ∀ k a b, valueAt src k = some a → valueAt dst k = some b → compat a b

/-! ## when an omitted integer argument may be tolerated in a plural form -/

/-- `sel` lists, in increasing order, the numbers `n` for which the form is selected (inside the examined window and the
    message's range flag): a single `n` (or none), or `0` and one other -/
def OmissionPermitted (sel : List Nat) : Prop :=
  sel.length ≤ 1 ∨ ∃ k, sel = [0, k]

end I18n.Spec.FmtCompare
