/-
A small regular-expression AST (the fragment of Python's `re` the two date regexes use) with a DECLARATIVE semantics:
`Re.M white r pre s post caps` — `r` derives the substring `s` standing between the left context `pre` and the right
context `post`, capturing `caps` (group number ↦ substring, outermost first, left to right).  No backtracking order is
modelled: Python's engine is trusted to find *a* derivation iff one exists and to report the captures of a derivation;
the lemmas show that for the date regexes all derivations of a string capture the same groups.

The AST is what `sre_parse` produces (tools/translate/date2lean.py dumps it): LITERAL, IN (set of characters, ranges,
`\s`), MAX_REPEAT over one IN (`rep`), MAX_REPEAT 0 1 (`opt`), BRANCH (`alt`; a BRANCH of literal strings is `words`),
SUBPATTERN n (`group`), AT_BEGINNING (`bol`), AT_END (`eol`: at the end or before a final newline).
-/
namespace I18n.Spec.DateRe

inductive ClsItem where
  | chr (c : Char)
  | range (lo hi : Char)
  | space                      -- CATEGORY_SPACE
  deriving DecidableEq, Repr

def ClsItem.has (white : Char → Prop) : ClsItem → Char → Prop
  | .chr x, c => c = x
  | .range lo hi, c => lo ≤ c ∧ c ≤ hi
  | .space, c => white c

def inCls (white : Char → Prop) (items : List ClsItem) (c : Char) : Prop := ∃ i ∈ items, i.has white c

inductive Re where
  | lit (c : Char)
  | set (items : List ClsItem)
  | rep (items : List ClsItem) (min : Nat) (max : Option Nat)
  | seq (a b : Re)
  | alt (a b : Re)
  | opt (a : Re)
  | group (n : Nat) (a : Re)
  | words (ws : List (List Char))
  | bol
  | eol
  deriving DecidableEq, Repr

abbrev Caps := List (Nat × List Char)

def Re.M (white : Char → Prop) : Re → List Char → List Char → List Char → Caps → Prop
  | .lit c, _, s, _, caps => s = [c] ∧ caps = []
  | .set items, _, s, _, caps => (∃ c, s = [c] ∧ inCls white items c) ∧ caps = []
  | .rep items mn mx, _, s, _, caps =>
      mn ≤ s.length ∧ (∀ m, mx = some m → s.length ≤ m) ∧ (∀ c ∈ s, inCls white items c) ∧ caps = []
  | .seq a b, pre, s, post, caps =>
      ∃ s1 s2 c1 c2, s = s1 ++ s2 ∧ caps = c1 ++ c2 ∧ Re.M white a pre s1 (s2 ++ post) c1 ∧ Re.M white b (pre ++ s1) s2 post c2
  | .alt a b, pre, s, post, caps => Re.M white a pre s post caps ∨ Re.M white b pre s post caps
  | .opt a, pre, s, post, caps => (s = [] ∧ caps = []) ∨ Re.M white a pre s post caps
  | .group n a, pre, s, post, caps => ∃ c, Re.M white a pre s post c ∧ caps = (n, s) :: c
  | .words ws, _, s, _, caps => s ∈ ws ∧ caps = []
  | .bol, pre, s, _, caps => s = [] ∧ pre = [] ∧ caps = []
  | .eol, _, s, post, caps => s = [] ∧ (post = [] ∨ post = ['\n']) ∧ caps = []

/-- `pattern.match(s)`: a derivation anchored at the start of `s` -/
def Match (white : Char → Prop) (r : Re) (s : List Char) (caps : Caps) : Prop :=
  ∃ m post, s = m ++ post ∧ r.M white [] m post caps

/-- `pattern.search(s) is not None` -/
def Search (white : Char → Prop) (r : Re) (s : List Char) : Prop :=
  ∃ pre m post caps, s = pre ++ m ++ post ∧ r.M white pre m post caps

/-- `match.group(n)` (`none` = the group did not participate) -/
def group (caps : Caps) (n : Nat) : Option (List Char) :=
  match caps.find? (fun p => p.1 == n) with
  | some p => some p.2
  | none => none

end I18n.Spec.DateRe
