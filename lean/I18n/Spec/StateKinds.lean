/-
Vocabulary of the run-context inventories of C03.  `Generated/StateSites.lean` is written by
tools/translate/state2lean.py (an `ast` walk over every module under /repo/lib and the launcher); the classifier's
rules are documented there and belong to the trusted base.  This file says which *kinds* are benign, and why.

Terminology.  *import time*: module bodies and class bodies.  *start-up path*: functions reachable (name-based call
graph) from `cli.main` but not from the per-file roots.  *per-file path*: everything reachable from `cli.check_file` /
`cli.check_file_s`, everything that escapes into foreign modules (monkey patches, `codecs.register`), and — worst case —
every function nothing in lib/ refers to.
-/
namespace I18n.Spec

/-- a piece of process-global state -/
inductive StateKind where
  /-- module/class-level name bound to an immutable value (str, int, bytes, tuple of such, frozenset, compiled regex,
      function, class …) which no function rebinds.  Nothing to leak. -/
  | constant
  /-- module/class-level container or opaque object built while importing; NO function anywhere in lib/ stores into
      it, calls a mutating method on it or rebinds it.  Read-only after import ⇒ the same value for every file.
      (Its *content* may have been produced by iterating a set at import: that is a site of the iteration inventory.) -/
  | importTable
  /-- container written only by functions that run at import time only (decorators such as `checks_header_fields`,
      `register_patch`): complete before `main` starts, read-only afterwards. -/
  | importRegistry
  /-- written only on the start-up path (`terminal.initialize`, `Checker.patch_environment`): once per process,
      before the first file, identically in every process; workers inherit it by fork. -/
  | startupInit
  /-- `functools.lru_cache`/`cache` on a function whose result is determined by its arguments (the body reads its
      parameters, constants, import tables and pure library functions only): a cache whose key determines its value —
      `Model/CliState.lean` proves that such a cache cannot be observed (`no_history`). -/
  | pureCache
  /-- zero-argument cached function whose body only *registers* things built from import tables
      (`install_extra_encodings`): the cache is an idempotence device — runs at most once per process. -/
  | onceInstaller
  /-- assignment into another module (`polib.X = …`, `codecs.register`, `aliases.setdefault`) made at import time or on
      the start-up path only; the value installed does not depend on any file. -/
  | patchAtStartup
  /-- `sys.stdout` replaced and restored in a `finally` of the same function (`check_file_s`). -/
  | scopedRedirect
  /-- mutable default argument that the function body never mutates or lets escape by a store. -/
  | mutableDefaultUnwritten
  /-- module/class-level state written by a function of the per-file path.  NOT benign. -/
  | perFileMutated
  /-- cache on a function whose result depends on something that is not in the key (frame inspection, mutable globals,
      `self`, the environment …).  NOT benign: `stale_cache_breaks_no_history`. -/
  | impureCache
  /-- monkey patch / registration made on the per-file path.  NOT benign. -/
  | patchPerFile
  /-- mutable default argument mutated by the body.  NOT benign. -/
  | mutableDefaultWritten
  /-- the classifier could not tell.  NOT benign. -/
  | unknown
  deriving DecidableEq, Repr, Inhabited

def StateKind.benign : StateKind → Bool
  | .constant | .importTable | .importRegistry | .startupInit | .pureCache | .onceInstaller
  | .patchAtStartup | .scopedRedirect | .mutableDefaultUnwritten => true
  | .perFileMutated | .impureCache | .patchPerFile | .mutableDefaultWritten | .unknown => false

structure StateSite where
  /-- `<file>:<qualified name>` -/
  key : String
  kind : StateKind
  /-- the functions that write it, each with its path class -/
  writers : String
  detail : String
  deriving Repr

/-- what finally consumes an expression whose iteration order is the hash order of a `set`/`frozenset`
    (or of a dict view combined by a set operator) -/
inductive OrderVerdict where
  /-- wrapped in `sorted(...)` (possibly through order-preserving views: generator, `list`, `map` …) -/
  | sorted
  /-- consumed by something whose result does not depend on the order: `min max len sum any all bool set frozenset`,
      membership / comparison / truthiness, set algebra, `heapq.nsmallest/nlargest`, `difflib.get_close_matches`
      (returns the `nlargest` of (score, word) pairs: a total order on distinct words), single-target unpacking
      `[x] = s`, `s.pop()` under `len(s) == 1` -/
  | orderFree
  /-- `for x in s:` whose body only asserts, `continue`s, adds to sets, stores `d[k] = v`, counts: commutative -/
  | commutativeLoop
  /-- joined into a regex alternation that is used for match *existence* only (`regex.search(x) is None`) -/
  | existenceOnly
  /-- dict built from the set and used for lookups only (`d.get(k)`, `d[k]`, `k in d`); order-free when the keys are
      pairwise distinct — a separate data obligation (`header_fields_lowercase_injective`) -/
  | lookupOnly
  /-- iteration of a dict (insertion order: a language guarantee since Python 3.7) not built from a set -/
  | insertionOrdered
  /-- hash order reaches an order-sensitive consumer (join, list, repr, next(iter()), for-loop with effects,
      call of an unknown function, multi-target unpacking …).  NOT benign. -/
  | unsorted
  deriving DecidableEq, Repr, Inhabited

def OrderVerdict.benign : OrderVerdict → Bool
  | .unsorted => false
  | _ => true

structure IterSite where
  /-- `<file>:<function>:<source text of the unordered expression>` -/
  key : String
  /-- how the expression was recognised as set-typed -/
  source : String
  /-- the consumer that decided the verdict -/
  consumer : String
  verdict : OrderVerdict
  deriving Repr

/-- the root object of a mutation (`x.append`, `x[k] = v`, `x.a = v`, `x |= …`, user-defined mutating methods) made by a
    function of the per-file path -/
inductive MutRoot where
  /-- a name bound in the same function to a fresh object (constructor call, literal, comprehension, call result) -/
  | localFresh
  /-- a free variable of an enclosing function (created per call of that function) -/
  | closure
  /-- `self` of a method: the instance; per file iff instances are created per file (`checker_created_per_file`) -/
  | selfAttr
  /-- a parameter that no call site feeds from an object created in `main`/`check_all` -/
  | perCallParam
  /-- loop variable / element of a per-call container -/
  | element
  /-- a module-level name (see the state inventory) -/
  | globalName
  /-- `cls`, a class name, `type(self)`: class state -/
  | classState
  /-- a parameter (or alias, `self.options.…`) that some call chain feeds from `main`'s locals: the options namespace,
      shared by all files -/
  | sharedParam
  /-- an imported module -/
  | foreignModule
  | unknown
  deriving DecidableEq, Repr, Inhabited

def MutRoot.perCall : MutRoot → Bool
  | .localFresh | .closure | .selfAttr | .perCallParam | .element => true
  | _ => false

structure MutSite where
  key : String
  root : MutRoot
  detail : String
  deriving Repr

/-- where an object playing a per-file role is created -/
structure CreationSite where
  /-- role: `checker-instance`, `ctx-namespace`, `loop-accumulator` -/
  role : String
  key : String
  /-- created inside a function of the per-file path, in the function body (not at module/class level, not a default) -/
  perCall : Bool
  detail : String
  deriving Repr

/-- a call that reads something outside (file bytes, path, options, date) -/
inductive NondetKind where
  /-- the current date/time — an allowed input of the property -/
  | clock
  /-- random token drawn at import and used only as a private name that never reaches output (`xml._xe`) -/
  | privateToken
  /-- frame inspection of the *current* call stack (finds the polib parser of the file being read) -/
  | currentStack
  /-- temporary directory / directory walk inside `check_deb` (C17's parameter) -/
  | debUnpack
  /-- environment variables, tty test, terminal capabilities read once at import or on the start-up path -/
  | startupEnvironment
  /-- property of the process's REAL stdout (`isatty`, `errors`, `encoding`, terminal size) read once on the start-up path,
      before any redirect: `cli.initialize_terminal`.  The colour decision is then a function of the process terminal state
      (`CliState.G.terminal`), the same in the parent and in every forked worker — `colour_independent_of_jobs`. -/
  | terminalProbe
  /-- the same question asked on the per-file path.  NOT benign: in pool workers `check_file_s` has replaced `sys.stdout` by a
      `StringIO`, so the answer differs between `-j 1` and `-j N` — `probe_of_swapped_stdout_depends_on_jobs`. -/
  | terminalProbePerFile
  /-- external program or C library called on file content (iconv, dpkg): a deterministic function of its input, a
      parameter of C17 / C20; code passed as `preexec_fn` runs in the forked child only -/
  | externalTool
  /-- pool of worker PROCESSES (`ProcessPoolExecutor`): every worker has its own copy of the global state — modelled by
      `CliState.parExec`; a pool of THREADS would share `sys.stdout` and every global and is kind `other` -/
  | processPool
  /-- CPU count for `-j auto` (start-up; job count is irrelevant: `jobs_schedule_irrelevant`) -/
  | cpuCount
  /-- anything else (`random`, `id`, `hash`, `os.environ`, `os.getpid`, `time` on the per-file path …).  NOT benign. -/
  | other
  deriving DecidableEq, Repr, Inhabited

def NondetKind.benign : NondetKind → Bool
  | .other => false
  | .terminalProbePerFile => false
  | _ => true

structure NondetSite where
  key : String
  kind : NondetKind
  detail : String
  deriving Repr

end I18n.Spec
