import I18n.Model.PyFmt
import I18n.Spec.CPyPercent
/-!
# "Arguments of the shape and types the parser reports"

The right operand of `%` that property C12 speaks about, for a result `r` of `FormatString(s)`:
a tuple with one value per entry of `seq_arguments` when the specifications are unnamed (or the bare value when there is
exactly one entry), a `dict` with a value per
key of `map_arguments` when they are named; the value for an entry has the reported type:
an `int` for every `*` width or precision and for the type `int`, a `float` (or an `int` that converts) for `float`,
a one-character `str` or a code point for `chr`, anything for `str` and `object`.
-/
namespace I18n.Spec.PyFmtArgs
open I18n.PyFmt I18n.Spec.CPyPercent

/-- the value `v` has the type the parser reports for the argument `e`.
    For a `*` the value must also be one CPython can use in both positions without `OverflowError`
    (a C `int`, and at most 2^31-4 so that an integer conversion can still be formatted). -/
def okFor (e : Entry) (v : Val) : Prop :=
  match e.kind with
  | .conv =>
    if e.type = "int" then ∃ n, v = .int n
    else if e.type = "float" then v = .float ∨ ∃ n, v = .int n ∧ n.natAbs < floatLimit
    else if e.type = "chr" then v = .str 1 ∨ ∃ n, v = .int n ∧ 0 ≤ n ∧ n < 0x110000
    else if e.type = "str" ∨ e.type = "object" then True
    else False
  | _ => ∃ n, v = .int n ∧ -2147483648 ≤ n ∧ n ≤ 2147483644

/-- one value of the reported type per entry, in order -/
def okAll : List Entry → List Val → Prop
  | [], [] => True
  | e :: es, v :: vs => okFor e v ∧ okAll es vs
  | _, _ => False

/-- the arguments have the shape and types that `r` reports -/
def Matches (r : Result) : Args → Prop
  | .tuple vs => r.map = [] ∧ okAll r.seq vs
  | .dict m => r.seq = [] ∧ ∀ k es, (k, es) ∈ r.map → ∃ v, lookup m k = some v ∧ ∀ e ∈ es, okFor e v
  | .single v => r.map = [] ∧ ∃ e, r.seq = [e] ∧ okFor e v      -- `'%s' % x` for a single unnamed specification

/-- a canonical value of the reported type -/
def defaultVal (e : Entry) : Val :=
  match e.kind with
  | .conv =>
    if e.type = "int" then .int 1
    else if e.type = "float" then .float
    else if e.type = "chr" then .str 1
    else .str 3
  | _ => .int 1

/-- a canonical value for the entries recorded under one key (they have one type) -/
def headVal : List Entry → Val
  | e :: _ => defaultVal e
  | [] => .other

/-- canonical arguments for a result: a tuple for unnamed specifications, a mapping for named ones -/
def argsOf (r : Result) : Args :=
  if r.map.isEmpty then .tuple (r.seq.map defaultVal)
  else .dict (r.map.map fun p => (p.1, headVal p.2))

/-- **The domain of property C12**: no `%` conversion carries a key, flag, width, precision or length — every
    conversion specification the parser's scanner reads whose conversion character is `%` is exactly `%%`.
    (The C12 check compares this definition with an independent regex reading on every run: stream `pyfmt-plain`.) -/
def PlainPercent (s : List Char) : Prop := plainPercent (s.length + 1) s = true

instance (s : List Char) : Decidable (PlainPercent s) := by unfold PlainPercent; infer_instance

end I18n.Spec.PyFmtArgs
